import VerylModel.Lemmas.Aligner
import VerylModel.Core.Pretty
/-!
C08 — formatting is idempotent.

`Formatter::format` = aligner pass (M-Aligner, `Core/Aligner.lean`) + Doc construction by the 3 400-line
walker (NOT modelled: validated through its real Docs and its real aligner call traces by
`checks/c08.py`) + `render` (M-Pretty, proved in Props/C28).

What is proved here, for ALL call traces:
* the aligner's arithmetic is safe and its result is what it is meant to be (`no_underflow`,
  `group_paddings`), and the order in which `gather_additions` visits its hash maps is irrelevant
  (`merge_comm`, `merge_assoc`, `addMerge_comm`);
* `align_stable`: the additions depend on the positions of the tokens only through the gap class
  `min (Δline) 2` of the lines involved (and on the widths): renaming every location by a map that
  keeps lengths and preserves these classes renames the keys of the result and changes nothing else;
* `reduction` / `C08_second_pass_fixed_partial`: consequences for the formatter as a whole, with the
  walker as a parameter;
* `C08_align_witness`: the full-strength statement (the additions do not depend on the source positions
  at all, which is what idempotence on unformatted input needs) is FALSE: the call trace of the real
  formatter on DESIGN §5 #16's 7-line input, fed the source positions and the positions in the formatted
  output, yields different paddings.
-/
namespace VerylModel.Props.C08
open VerylModel.Aligner

/-! ## The hash maps -/

theorem merge_comm (a b : PadKind) : a.merge b = b.merge a := VerylModel.Aligner.merge_comm a b

theorem merge_assoc (a b c : PadKind) : (a.merge b).merge c = a.merge (b.merge c) :=
  VerylModel.Aligner.merge_assoc a b c

/-- Two `entry().and_modify().or_insert()` updates commute (as far as any lookup can tell): the
    iteration order of the hash maps in `gather_additions` does not matter. -/
theorem addMerge_comm (m : Adds) (l₁ l₂ : Loc) (w₁ w₂ : Nat) (k₁ k₂ : PadKind) (l : Loc) :
    ((m.addMerge l₁ w₁ k₁).addMerge l₂ w₂ k₂).lookup l = ((m.addMerge l₂ w₂ k₂).addMerge l₁ w₁ k₁).lookup l := by
  simp only [lookup_addMerge]
  by_cases h12 : l₁ = l₂
  · subst h12
    by_cases h1 : l₁ = l
    · subst h1
      simp only [if_true]
      cases m.lookup l₁ with
      | none => simp [Nat.add_comm, VerylModel.Aligner.merge_comm]
      | some v =>
        obtain ⟨w0, k0⟩ := v
        simp only [Option.some.injEq, Prod.mk.injEq]
        exact ⟨by omega, by rw [VerylModel.Aligner.merge_assoc, VerylModel.Aligner.merge_assoc,
          VerylModel.Aligner.merge_comm k₁ k₂]⟩
    · simp [h1]
  · have h21 : ¬ l₂ = l₁ := fun h => h12 h.symm
    by_cases h1 : l₁ = l
    · subst h1
      simp [h21]
    · by_cases h2 : l₂ = l
      · subst h2
        simp [h12]
      · simp [h1, h2]

/-! ## Safety and meaning of the paddings -/

/-- `self.max_width - width` in `finish_group` never underflows: in every state reachable from
    `Aligner::new()` by public calls, every item waiting in `rest` is at most `max_width` wide
    (`max_width` is exactly the maximum of these widths). -/
theorem no_underflow (n : Nat) (ops : List Op) (g : Aligner) (h : (Aligner.new n).run ops = some g) :
    ∀ a ∈ g.aligns, a.maxWidth = maxW a.rest ∧ ∀ e ∈ a.rest, e.2.1 ≤ a.maxWidth := by
  intro a ha
  have hi : a.Inv := Aligner.run_inv ops _ g (Aligner.inv_new n) h a ha
  exact ⟨hi, fun e he => by rw [hi]; exact le_maxW he⟩

/-- What `finish_group` writes: every location `l` that closes an item of the group is bound to
    `max_width - width` of the LAST item it closes (a `HashMap` insert overwrites), with that item's pad
    kind, so that `width + padding = max_width` for it — all items of a group end in the same column;
    every other binding is untouched. -/
theorem group_paddings (a : Align) (hinv : a.maxWidth = maxW a.rest) (l : Loc) :
    a.finishGroup.additions.lookup l =
      (match a.rest.reverse.find? (fun e => e.1 = l) with
       | some e => some (maxW a.rest - e.2.1, e.2.2)
       | none => a.additions.lookup l)
    ∧ ∀ e ∈ a.rest, e.2.1 + (maxW a.rest - e.2.1) = maxW a.rest := by
  refine ⟨?_, fun e he => ?_⟩
  · simp only [Align.finishGroup, hinv]
    exact lookup_foldl_insert (maxW a.rest) a.rest a.additions l
  · have := le_maxW he
    omega

/-! ## T3 — the additions depend on lines only through the gap classes -/

/-- `align_stable`. Let `ρ` rename locations, keeping lengths, injectively, and moving lines by a map
    `φ` that — on the set `P` of lines that occur (0 and the lines the calls mention) — fixes 0, is
    strictly monotone and maps adjacent lines, and only those, to adjacent lines (it preserves
    `min (Δline) 2`). Then running the renamed call trace gives exactly the renamed result: same
    panics, same groups, same paddings, same pad kinds, under the renamed keys. Columns are irrelevant
    altogether. -/
theorem align_stable (r : Ren) (P : Nat → Prop) (h : r.OK P) (hinj : ∀ a b, r.ρ a = r.ρ b → a = b)
    (n : Nat) (ops : List Op) (hops : ∀ op ∈ ops, op.LinesIn P) :
    (Aligner.new n).run (ops.map (Op.rename r)) = ((Aligner.new n).run ops).map (Aligner.rename r) := by
  have := Aligner.run_rename r h hinj ops (Aligner.new n) (Aligner.new_lines h.p0 n) hops
  rwa [Aligner.new_rename r h] at this

/-- The padding the formatter looks up for a token (`aligner.additions.get(&loc)`) after a call trace;
    `none` also when the trace panics. -/
def additionsOf (n : Nat) (ops : List Op) (l : Loc) : Option (Nat × PadKind) :=
  match (Aligner.new n).run ops with
  | some g => g.additions.lookup l
  | none => none

/-- `align_stable`, as seen by the formatter's second walk: the renamed token gets the same padding. -/
theorem align_stable_lookup (r : Ren) (P : Nat → Prop) (h : r.OK P) (hinj : ∀ a b, r.ρ a = r.ρ b → a = b)
    (n : Nat) (ops : List Op) (hops : ∀ op ∈ ops, op.LinesIn P) (l : Loc) :
    additionsOf n (ops.map (Op.rename r)) (r.ρ l) = additionsOf n ops l := by
  unfold additionsOf
  rw [align_stable r P h hinj n ops hops]
  cases (Aligner.new n).run ops with
  | none => rfl
  | some g => exact lookup_mapKeys r.ρ hinj g.additions l

/-- Instance 1: moving every token to another column (here: 3 to the right) — columns never matter. -/
def shiftCols : Ren := { ρ := fun l => { l with col := l.col + 3 }, φ := id }

example : shiftCols.OK (fun _ => True) :=
  { p0 := trivial, zero := rfl, mono := fun _ _ _ _ h => h, adj := fun _ _ _ _ _ => Iff.rfl,
    len := fun _ => rfl, line := fun _ => rfl }

example : ∀ a b, shiftCols.ρ a = shiftCols.ρ b → a = b := by
  intro a b h
  cases a; cases b
  simp only [shiftCols, Loc.mk.injEq] at h ⊢
  obtain ⟨h1, h2, h3, h4, h5⟩ := h
  exact ⟨h1, by omega, h3, h4, h5⟩

/-- Instance 2: squeezing runs of blank lines: tokens on lines 1, 2, 6, 7 move to lines 1, 2, 4, 5
    (and, to keep `ρ` injective on ALL locations, to even/odd columns). -/
def squeeze : Ren :=
  { ρ := fun l => { l with line := if l.line ≥ 6 then l.line - 2 else l.line,
                           col := if l.line ≥ 6 then 2 * l.col + 1 else 2 * l.col },
    φ := fun n => if n ≥ 6 then n - 2 else n }

def squeezeLines (n : Nat) : Prop := n = 0 ∨ n = 1 ∨ n = 2 ∨ n = 6 ∨ n = 7

example : squeeze.OK squeezeLines :=
  { p0 := Or.inl rfl, zero := rfl,
    mono := by
      intro a b ha hb hab
      simp only [squeeze]
      rcases ha with rfl | rfl | rfl | rfl | rfl <;> rcases hb with rfl | rfl | rfl | rfl | rfl <;> simp_all
    adj := by
      intro a b ha hb hab
      simp only [squeeze]
      rcases ha with rfl | rfl | rfl | rfl | rfl <;> rcases hb with rfl | rfl | rfl | rfl | rfl <;> simp_all
    len := fun _ => rfl, line := fun _ => rfl }

example : ∀ a b, squeeze.ρ a = squeeze.ρ b → a = b := by
  intro a b h
  cases a; cases b
  rename_i l₁ c₁ n₁ s₁ d₁ l₂ c₂ n₂ s₂ d₂
  simp only [squeeze, Loc.mk.injEq] at h ⊢
  obtain ⟨h1, h2, h3, h4, h5⟩ := h
  by_cases ha : l₁ ≥ 6 <;> by_cases hb : l₂ ≥ 6 <;> simp only [ha, hb, if_true, if_false] at h1 h2 <;>
    exact ⟨by omega, by omega, h3, h4, h5⟩

/-! ## T4 — consequences for the formatter (the walker is a parameter) -/

/-- The part of `Formatter` that is not modelled: the aligner calls of its first walk over the parsed
    source text, and the `Doc` its second walk builds from the source text and the paddings it looks up. -/
structure Walker where
  trace : List Char → List Op
  build : List Char → (Loc → Option (Nat × PadKind)) → Pretty.Doc

/-- The `Doc` handed to `render`. -/
def Walker.doc (W : Walker) (n : Nat) (s : List Char) : Pretty.Doc := W.build s (additionsOf n (W.trace s))

/-- `Formatter::format` followed by `as_str()`. -/
def Walker.format (W : Walker) (n : Nat) (o : Pretty.Opts) (s : List Char) : List Char :=
  (Pretty.render o (W.doc n s)).text

/-- `reduction` (T4). If formatting the formatted text builds the same `Doc` as formatting the text, the
    second pass changes nothing: `render` is a function. (T1–T3 are the reasons the premise holds; the
    check establishes it case by case on the real `Doc`s.) -/
theorem reduction (W : Walker) (n : Nat) (o : Pretty.Opts) (s : List Char)
    (h : W.doc n (W.format n o s) = W.doc n s) :
    W.format n o (W.format n o s) = W.format n o s := by
  show (Pretty.render o (W.doc n (W.format n o s))).text = W.format n o s
  rw [h]
  rfl

/-- Two source texts that the walker cannot tell apart except for token positions: the second one's
    call trace is the first one's with every location renamed by `r`, and the `Doc`s built from them agree
    whenever the paddings they are given agree along `r`. -/
structure SameLayoutClass (W : Walker) (r : Ren) (a b : List Char) : Prop where
  trace : W.trace b = (W.trace a).map (Op.rename r)
  build : ∀ adds adds', (∀ l, adds' (r.ρ l) = adds l) → W.build b adds' = W.build a adds

/-- If two texts differ only by a gap-class preserving move of their tokens, they format to the same
    text. -/
theorem format_eq_of_same_class (W : Walker) (n : Nat) (o : Pretty.Opts) (r : Ren) (P : Nat → Prop)
    (h : r.OK P) (hinj : ∀ a b, r.ρ a = r.ρ b → a = b) (a b : List Char)
    (hops : ∀ op ∈ W.trace a, op.LinesIn P) (hab : SameLayoutClass W r a b) :
    W.format n o b = W.format n o a := by
  have hd : W.doc n b = W.doc n a := by
    unfold Walker.doc
    apply hab.build
    intro l
    rw [hab.trace]
    exact align_stable_lookup r P h hinj n (W.trace a) hops l
  simp only [Walker.format, hd]

/-- `C08_second_pass_fixed_partial`: format ∘ format ∘ format = format ∘ format whenever the first and
    the second formatted text differ only by a gap-class preserving move of their tokens. This is the
    case the check meets on the real formatter: where pass 1 and pass 2 differ at all (finding #16), they
    differ in the lengths of space runs inside lines only — every token keeps its line (`φ = id`), only
    columns change — and pass 3 equals pass 2.
    Where the hypothesis FAILS (the changed paddings make a group fit or not fit, so pass 2 also moves line
    breaks) the theorem says nothing, and the real formatter indeed shows every other behaviour: a fixed point
    only at pass 3 or later, and cycles (pass 3 = pass 1 ≠ pass 2) with no fixed point at all — recorded by
    `checks/c08.py` as the findings `aligner:source-line-gap-grouping:{padding-changes-line-breaks,
    late-fixed-point, oscillation}`, each with the per-case evidence that the Docs of all passes are equal up to
    pad nodes and that M-Aligner / M-Pretty reproduce the paddings and the text of every pass. -/
theorem C08_second_pass_fixed_partial (W : Walker) (n : Nat) (o : Pretty.Opts) (r : Ren) (P : Nat → Prop)
    (h : r.OK P) (hinj : ∀ a b, r.ρ a = r.ρ b → a = b) (s : List Char)
    (hops : ∀ op ∈ W.trace (W.format n o s), op.LinesIn P)
    (hcls : SameLayoutClass W r (W.format n o s) (W.format n o (W.format n o s))) :
    W.format n o (W.format n o (W.format n o s)) = W.format n o (W.format n o s) :=
  format_eq_of_same_class W n o r P h hinj _ _ hops hcls

/-- A (tiny) walker satisfying the hypotheses non-trivially: one token per character of the text, all
    on line 1, each an aligned item of kind 0; the `Doc` is the list of paddings. Formatting changes the
    column of every token, yet any two texts of the same length are in the same layout class. -/
def toyWalker : Walker :=
  { trace := fun s => (List.range s.length).flatMap (fun i =>
      [Op.start 0 .always, Op.token ⟨1, i + 1, 1, 0, none⟩, Op.finishItemK 0]) ++ [Op.finishGroup, Op.gather],
    build := fun s adds => .concat ((List.range s.length).map (fun i =>
      .pad (match adds ⟨1, i + 1, 1, 0, none⟩ with | some (w, _) => w | none => 0))) }

example : SameLayoutClass toyWalker { ρ := id, φ := id } ['a', 'b'] ['c', 'd'] :=
  { trace := by simp [toyWalker, Op.rename, List.range, List.range.loop],
    build := by
      intro adds adds' h
      have h' : ∀ l, adds' l = adds l := h
      simp [toyWalker, h'] }

/-! ## The full-strength statement is false (DESIGN §5 #16) -/

/-- The aligner calls of the real `Formatter::format` (recorded by harness/align_shim) on the 7-line input of finding #16
    `module M {⏎    let _c⏎    : logic⏎    = &1;⏎    let⏎    _cc : logic = |1;⏎}` — token positions of the SOURCE. -/
def witnessSrcTrace : List Op :=
  [.token ⟨1, 1, 0, 0, none⟩, .token ⟨1, 1, 6, 1, none⟩, .space 1, .token ⟨1, 8, 1, 1, none⟩, .space 1,
   .token ⟨1, 10, 1, 1, none⟩, .start 10 .always, .token ⟨2, 5, 3, 1, none⟩, .finishItemK 10, .space 1,
   .start 0 .always, .token ⟨2, 9, 2, 1, none⟩, .finishItemK 0, .token ⟨3, 5, 1, 1, none⟩, .space 1,
   .start 8 .always, .dummyK 8 ⟨3, 5, 1, 1, none⟩, .finishItemK 8, .start 1 .always,
   .token ⟨3, 7, 5, 1, none⟩, .finishItemK 1, .start 3 .always, .dummyK 3 ⟨3, 7, 5, 1, none⟩,
   .finishItemK 3, .start 4 .always, .dummyK 4 ⟨3, 7, 5, 1, none⟩, .finishItemK 4, .space 1,
   .token ⟨4, 5, 1, 1, none⟩, .space 1, .token ⟨4, 7, 1, 1, none⟩, .token ⟨4, 8, 1, 1, none⟩,
   .token ⟨4, 9, 1, 1, none⟩, .noteEnd, .start 10 .always, .token ⟨5, 5, 3, 1, none⟩, .finishItemK 10,
   .space 1, .start 0 .always, .token ⟨6, 5, 3, 1, none⟩, .finishItemK 0, .token ⟨6, 9, 1, 1, none⟩,
   .space 1, .start 8 .always, .dummyK 8 ⟨6, 9, 1, 1, none⟩, .finishItemK 8, .start 1 .always,
   .token ⟨6, 11, 5, 1, none⟩, .finishItemK 1, .start 3 .always, .dummyK 3 ⟨6, 11, 5, 1, none⟩,
   .finishItemK 3, .start 4 .always, .dummyK 4 ⟨6, 11, 5, 1, none⟩, .finishItemK 4, .space 1,
   .token ⟨6, 17, 1, 1, none⟩, .space 1, .token ⟨6, 19, 1, 1, none⟩, .token ⟨6, 20, 1, 1, none⟩,
   .token ⟨6, 21, 1, 1, none⟩, .noteEnd, .token ⟨7, 1, 1, 1, none⟩, .finishItem, .finishGroup, .clearHad,
   .finishGroup, .gather]

/-- The aligner calls of the real formatter on its own output for that input
    (`module M {⏎    let _c: logic = &1;⏎    let _cc: logic = |1;⏎}`): the same calls, token positions of the FORMATTED text. -/
def witnessFmtTrace : List Op :=
  [.token ⟨1, 1, 0, 0, none⟩, .token ⟨1, 1, 6, 1, none⟩, .space 1, .token ⟨1, 8, 1, 1, none⟩, .space 1,
   .token ⟨1, 10, 1, 1, none⟩, .start 10 .always, .token ⟨2, 5, 3, 1, none⟩, .finishItemK 10, .space 1,
   .start 0 .always, .token ⟨2, 9, 2, 1, none⟩, .finishItemK 0, .token ⟨2, 11, 1, 1, none⟩, .space 1,
   .start 8 .always, .dummyK 8 ⟨2, 11, 1, 1, none⟩, .finishItemK 8, .start 1 .always,
   .token ⟨2, 13, 5, 1, none⟩, .finishItemK 1, .start 3 .always, .dummyK 3 ⟨2, 13, 5, 1, none⟩,
   .finishItemK 3, .start 4 .always, .dummyK 4 ⟨2, 13, 5, 1, none⟩, .finishItemK 4, .space 1,
   .token ⟨2, 19, 1, 1, none⟩, .space 1, .token ⟨2, 21, 1, 1, none⟩, .token ⟨2, 22, 1, 1, none⟩,
   .token ⟨2, 23, 1, 1, none⟩, .noteEnd, .start 10 .always, .token ⟨3, 5, 3, 1, none⟩, .finishItemK 10,
   .space 1, .start 0 .always, .token ⟨3, 9, 3, 1, none⟩, .finishItemK 0, .token ⟨3, 12, 1, 1, none⟩,
   .space 1, .start 8 .always, .dummyK 8 ⟨3, 12, 1, 1, none⟩, .finishItemK 8, .start 1 .always,
   .token ⟨3, 14, 5, 1, none⟩, .finishItemK 1, .start 3 .always, .dummyK 3 ⟨3, 14, 5, 1, none⟩,
   .finishItemK 3, .start 4 .always, .dummyK 4 ⟨3, 14, 5, 1, none⟩, .finishItemK 4, .space 1,
   .token ⟨3, 20, 1, 1, none⟩, .space 1, .token ⟨3, 22, 1, 1, none⟩, .token ⟨3, 23, 1, 1, none⟩,
   .token ⟨3, 24, 1, 1, none⟩, .noteEnd, .token ⟨4, 1, 1, 1, none⟩, .finishItem, .finishGroup, .clearHad,
   .finishGroup, .gather]

/-- Two calls agree except for token positions (line, column, source): same call, same kind index, same
    widths, same token lengths and `duplicated` marks. -/
def Op.sameShape : Op → Op → Bool
  | .start k pk, .start k' pk' => k == k' && pk == pk'
  | .finishItemK k, .finishItemK k' => k == k'
  | .finishItem, .finishItem => true
  | .finishGroup, .finishGroup => true
  | .finishGroupFor k, .finishGroupFor k' => k == k'
  | .clearHad, .clearHad => true
  | .clearHadK k, .clearHadK k' => k == k'
  | .noteEnd, .noteEnd => true
  | .noteEndK k _, .noteEndK k' _ => k == k'
  | .token l, .token l' => l.len == l'.len && l.dup == l'.dup
  | .tokenK k l, .tokenK k' l' => k == k' && l.len == l'.len && l.dup == l'.dup
  | .space n, .space n' => n == n'
  | .addWidthK k n, .addWidthK k' n' => k == k' && n == n'
  | .dummyK k l, .dummyK k' l' => k == k' && l.len == l'.len && l.dup == l'.dup
  | .autoK k b, .autoK k' b' => k == k' && b == b'
  | .auto b, .auto b' => b == b'
  | .direct l w pk, .direct l' w' pk' => l.len == l'.len && w == w' && pk == pk'
  | .gather, .gather => true
  | _, _ => false

def sameShape : List Op → List Op → Bool
  | [], [] => true
  | a :: as, b :: bs => Op.sameShape a b && sameShape as bs
  | _, _ => false

/-- The paddings the formatter's second walk emits, in walk order: for every token it looks up its
    own location in the additions (what becomes the `Pad` nodes of the `Doc`). -/
def padsInOrder (n : Nat) (ops : List Op) : List (Option (Nat × PadKind)) :=
  ops.filterMap (fun op => match op with
    | .token l => some (additionsOf n ops l)
    | _ => none)

/-- `C08_align_witness`: on the real formatter's call trace for the 7-line input of finding #16, the
    aligner gives `_c` (line 2, column 9, 2 bytes) no padding when fed the SOURCE positions — the statement
    end on line 4 and `_cc` on line 6 are two lines apart, so `finish_item` cuts the group — and 1 column
    of padding when fed the positions of the FORMATTED text (lines 2 and 3: one group, widths 2 and 3).
    Pass 1 leaves `_c:`/`_cc:` unaligned, pass 2 aligns them: formatting is not idempotent. -/
theorem C08_align_witness :
    sameShape witnessSrcTrace witnessFmtTrace = true
    ∧ additionsOf 18 witnessSrcTrace ⟨2, 9, 2, 1, none⟩ = some (0, .always)
    ∧ additionsOf 18 witnessSrcTrace ⟨6, 5, 3, 1, none⟩ = some (0, .always)
    ∧ additionsOf 18 witnessFmtTrace ⟨2, 9, 2, 1, none⟩ = some (1, .always)
    ∧ additionsOf 18 witnessFmtTrace ⟨3, 9, 3, 1, none⟩ = some (0, .always) := by
  decide

/-- The statement idempotence on arbitrary input would need — "the paddings do not depend on where the
    tokens stand" (`align_stable` without its gap-class hypothesis) — is FALSE of the code. -/
theorem align_position_independent_false :
    ¬ (∀ (n : Nat) (ops ops' : List Op), sameShape ops ops' = true → padsInOrder n ops = padsInOrder n ops') := by
  intro h
  have := h 18 witnessSrcTrace witnessFmtTrace (by decide)
  revert this
  decide

end VerylModel.Props.C08
