import VerylModel.Lemmas.CombLoopExact
/-!
# C14 — combinational loop detection is exact (partial)

Model: `VerylModel/Core/CombLoop.lean` (`bitGraph` = bit-level reference with instances inlined,
`flatRangeGraph`/`topRangeGraph` = the detector: atomic ranges, SSA with phi merges, port-level
feedthrough summaries; verdicts `refVerdict` / `detVerdict`).

* `ssa_exact`, `partition_exact`, `partition_exact_any_cuts`, `hier_sound`: full strength for the
  modelled language (no bound on widths, number of variables, statements, nesting or instances).
* Exactness through instances is **false**: `C14_feedthrough_false_positive` (negated on a
  witness); `hier_exact_partial` states what does hold.
-/
namespace VerylModel.Props.C14
open VerylModel.CombLoop

/-- T2. The SSA store with phi merges (`ssa.rs`, `procedure.rs`) computes exactly the live-in
dependency relation of a sequential block — assignments in statement order, `if/else`, reassignment,
retained values — at any key granularity: `x → k` is reported iff `k` is written by the block and
its final value depends on the value of `x` on entry. -/
theorem ssa_exact {κ : Type} [DecidableEq κ] (keysOf : Acc → List κ) (st : Stmt) (x k : κ) :
    (x, k) ∈ ssaEdges keysOf st ↔
      (∃ d ∈ st.dsts, k ∈ keysOf d) ∧ x ∈ (liveIn keysOf st [] Env.init k).deps :=
  (ssaEdges_iff keysOf st x k).trans mem_blockEdges

/-- T1 (general form). For a flat module and *any* partition whose cut points contain both ends of
every access (the detector's `atomic_ranges`, or any refinement such as the one produced by
`propagate_packed_endpoints`), the detector's graph has a cycle iff the bit-level graph has one. -/
theorem partition_exact_any_cuts (m : Flat) (cuts : Nat → List Nat) (h : Atomic cuts m.accs) :
    hasCycle (m.blocks.flatMap (ssaEdges (atomsOf cuts))) = hasCycle (flatBitGraph m) :=
  hasCycle_congr ((hasCycle_of_edges_iff (flatMap_edges_congr _ _)).trans (flat_cycle_iff h))

/-- T1. Flat module (assigns and `always_comb` blocks): the detector reports a loop iff there is a
cycle of dependencies between individual bits. -/
theorem partition_exact (m : Flat) : hasCycle (flatRangeGraph m) = hasCycle (flatBitGraph m) :=
  partition_exact_any_cuts m (flatCuts m) (atomic_cutsOf m.accs)

/-- The hypothesis of `partition_exact_any_cuts` is satisfiable by a strictly finer partition. -/
example : Atomic (fun _ => [0, 1, 2, 3, 4, 8]) [⟨0, 0, 4⟩, ⟨1, 2, 8⟩] := by
  intro a ha
  simp at ha
  rcases ha with rfl | rfl <;> simp

/-- T3. Completeness through instances: if the inlined bit-level design (or a child on its own)
has a cycle, the detector reports a loop. -/
theorem hier_sound (d : Design) (hwf : d.WF) (h : refVerdict d = true) : detVerdict d = true := by
  rw [detVerdict_eq_D]
  unfold refVerdict at h
  unfold detVerdictD
  simp only [Bool.or_eq_true, List.any_eq_true, hasCycle_iff] at h ⊢
  rcases h with ⟨c, hc, hcy⟩ | hcy
  · exact Or.inl ⟨c, hc, (flat_cycle_iff (atomic_cutsOf c.accs)).2 hcy⟩
  · rcases hier_sound_D hwf hcy with h | ⟨c, hc, hcy⟩
    · exact Or.inr h
    · exact Or.inl ⟨c, hc, (flat_cycle_iff (atomic_cutsOf c.accs)).2 hcy⟩

/-- DESIGN finding #8: child `o[0] = f(i[0]); o[1] = f(i[1])`, parent `inst u (i: x, o: y);
x[1] = f(y[0]); x[0] = f(a)`.  Variables: child `i`=0, `o`=1; parent `x`=0, `y`=1, `a`=2. -/
def witness : Design :=
  { children := [{ inputs := [0], outputs := [1],
                   blocks := [.assign ⟨1, 0, 1⟩ [⟨0, 0, 1⟩], .assign ⟨1, 1, 2⟩ [⟨0, 1, 2⟩]] }],
    top := { inputs := [2], outputs := [],
             blocks := [.assign ⟨0, 1, 2⟩ [⟨1, 0, 1⟩], .assign ⟨0, 0, 1⟩ [⟨2, 0, 1⟩]] },
    insts := [{ child := 0, ins := [(0, ⟨0, 0, 2⟩)], outs := [(1, ⟨1, 0, 2⟩)] }] }

theorem witness_wf : witness.WF := by
  refine ⟨by decide, ?_⟩
  intro i hi c hc
  simp only [witness, List.mem_singleton] at hi
  subst hi
  simp only [witness, List.getElem?_cons_zero, Option.some.injEq] at hc
  subst hc
  simp

/-- T4 is false: the port-level summary makes the detector report a loop for a well-formed design
without any bit-level cycle (`y[0]` depends on `x[0]` only, `x[1]` on `y[0]`). -/
theorem C14_feedthrough_false_positive :
    ¬ ∀ d : Design, d.WF → detVerdict d = refVerdict d := by
  intro h
  have := h witness witness_wf
  revert this
  decide

/-- The witness satisfies `hier_sound`'s hypothesis but not `WholePorts`. -/
example : detVerdict witness = true ∧ refVerdict witness = false := by decide

/-- T4 (partial). When every child port is read/written by the child only as a whole, the
port-level summaries lose nothing: the detector's verdict equals the bit-level reference. -/
theorem hier_exact_partial (d : Design) (hwf : d.WF) (hwp : d.WholePorts) :
    detVerdict d = refVerdict d := by
  rw [detVerdict_eq_D, Bool.eq_iff_iff]
  unfold refVerdict detVerdictD
  simp only [Bool.or_eq_true, List.any_eq_true, hasCycle_iff]
  constructor
  · rintro (⟨c, hc, hcy⟩ | hcy)
    · exact Or.inl ⟨c, hc, (flat_cycle_iff (atomic_cutsOf c.accs)).1 hcy⟩
    · exact Or.inr (hier_complete_D hwf hwp hcy)
  · rintro (⟨c, hc, hcy⟩ | hcy)
    · exact Or.inl ⟨c, hc, (flat_cycle_iff (atomic_cutsOf c.accs)).2 hcy⟩
    · rcases hier_sound_D hwf hcy with h | ⟨c, hc, hcy⟩
      · exact Or.inr h
      · exact Or.inl ⟨c, hc, (flat_cycle_iff (atomic_cutsOf c.accs)).2 hcy⟩

/-- A design with an instance that satisfies `WF` and `WholePorts` (child `o = f(i)`, whole port
feedback `x = f(y)`): both verdicts report the loop. -/
def wholeExample : Design :=
  { children := [{ inputs := [0], outputs := [1], blocks := [.assign ⟨1, 0, 2⟩ [⟨0, 0, 2⟩]] }],
    top := { inputs := [], outputs := [], blocks := [.assign ⟨0, 1, 2⟩ [⟨1, 0, 1⟩]] },
    insts := [{ child := 0, ins := [(0, ⟨0, 0, 2⟩)], outs := [(1, ⟨1, 0, 2⟩)] }] }

example : wholeExample.WF ∧ wholeExample.WholePorts ∧ detVerdict wholeExample = true := by
  refine ⟨⟨by decide, ?_⟩, ?_, by decide⟩
  · intro i hi c hc
    simp only [wholeExample, List.mem_singleton] at hi
    subst hi
    simp only [wholeExample, List.getElem?_cons_zero, Option.some.injEq] at hc
    subst hc
    simp
  · intro i hi c hc
    simp only [wholeExample, List.mem_singleton] at hi
    subst hi
    simp only [wholeExample, List.getElem?_cons_zero, Option.some.injEq] at hc
    subst hc
    intro pa hpa a' ha' hv
    simp [Flat.accs, Stmt.accs] at ha'
    simp at hpa
    rcases hpa with rfl | rfl <;> rcases ha' with rfl | rfl <;> simp_all [width]

end VerylModel.Props.C14
