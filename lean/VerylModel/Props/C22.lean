import VerylModel.Lemmas.Translate
/-!
# C22 — SystemVerilog translation preserves behaviour (modelled subset)

`Translate.translateModel` models `veryl translate` on the SystemVerilog subset of M-SV: expression
text is copied (so it is defined only where the copy is the same Veryl expression), statements are
re-assembled.  On its domain it is a right inverse of the emitter model, hence with C01 the translated
design simulates like the original module and re-emits to it.
-/
namespace VerylModel.Props.C22
open VerylModel.SV VerylModel.Emit VerylModel.Translate

/-- expressions: emitting the translated expression gives back the original text -/
theorem C22_expr_roundtrip (r : Raw) (v : VRaw) (h : trRaw r = some v) : emitRaw v = r := emit_trRaw r v h

/-- statements -/
theorem C22_stmt_roundtrip (nb : Bool) (s : Stmt) (v : VStmt) (h : trStmt nb s = some v) : emitStmt nb v = s :=
  emit_trStmt nb s v h

/-- **emit ∘ translate = id** on combinational modules in the translator's subset, for every build
configuration: the re-emitted SystemVerilog IS the original module. -/
theorem C22_emit_translate (m : Module) (clk rst : Nat) (cfg : Cfg) (d : VDesign)
    (hc : combOnly m.items = true) (h : translateModel m clk rst = some d) : emitModel d cfg = m := by
  simp only [translateModel, Option.map_eq_some_iff] at h
  obtain ⟨items, hi, rfl⟩ := h
  simp only [emitModel]
  rw [emit_trItems _ cfg m.items items hc hi]

/-- hence `SV.run (emit (translate m)) = SV.run m` -/
theorem C22_reemit_run (m : Module) (clk rst : Nat) (cfg : Cfg) (d : VDesign) (tb : TB) (stim : List (List Nat))
    (hc : combOnly m.items = true) (h : translateModel m clk rst = some d) :
    run (emitModel d cfg) tb stim = run m tb stim := by
  rw [C22_emit_translate m clk rst cfg d hc h]

/-- **translate_preserves**: the translated design, simulated by the Veryl simulator model, gives
cycle by cycle the outputs of the original module under the SV semantics — from any common state, for
every stimulus (C01 `trace_eq` through the round trip; `WfD d`: statements over the C01 operator set). -/
theorem C22_translate_preserves (m : Module) (clk rst : Nat) (cfg : Cfg) (d : VDesign)
    (hc : combOnly m.items = true) (h : translateModel m clk rst = some d) (hw : WfD d)
    (stim : List (List Nat)) (σ : State) :
    cycles (cycle m (tbOf d cfg)) m σ stim = steps d cfg σ stim := by
  have hm := C22_emit_translate m clk rst cfg d hc h
  have := cycles_eq d cfg hw stim σ
  rw [hm] at this
  exact this

/-- **translate is injective on its domain**: two SystemVerilog expressions that translate to the same
Veryl expression are the same expression — the translator never merges distinct inputs (a lossy
rewrite of an operator or operand into another that is also in the domain would break this). -/
theorem C22_expr_injective (r r' : Raw) (v : VRaw) (h : trRaw r = some v) (h' : trRaw r' = some v) : r = r' := by
  rw [← emit_trRaw r v h, ← emit_trRaw r' v h']

/-- … statements -/
theorem C22_stmt_injective (nb : Bool) (s s' : Stmt) (v : VStmt) (h : trStmt nb s = some v)
    (h' : trStmt nb s' = some v) : s = s' := by
  rw [← emit_trStmt nb s v h, ← emit_trStmt nb s' v h']

/-- … and whole combinational modules: the same translated design (under the same clock/reset naming)
comes from one module only. -/
theorem C22_module_injective (m m' : Module) (clk rst : Nat) (cfg : Cfg) (d : VDesign)
    (hc : combOnly m.items = true) (hc' : combOnly m'.items = true)
    (h : translateModel m clk rst = some d) (h' : translateModel m' clk rst = some d) : m = m' := by
  rw [← C22_emit_translate m clk rst cfg d hc h, ← C22_emit_translate m' clk rst cfg d hc' h']

/-- a module in the domain: `assign o = a & ~b; always_comb if (a[0]) w = a; else w = b;` -/
def exampleModule : Module :=
  { decls := [⟨1, false⟩, ⟨1, false⟩, ⟨8, false⟩, ⟨8, false⟩, ⟨8, false⟩, ⟨8, false⟩], inputs := [2, 3], outputs := [4],
    items := [.comb (.assign false (.var 4) (.chain (.var 2) (.cons .band (.un .bnot (.var 3)) .nil))),
              .comb (.ite (.bitsel 2 0) (.assign false (.var 5) (.var 2)) (.assign false (.var 5) (.var 3)))] }

example : combOnly exampleModule.items = true ∧ (translateModel exampleModule 0 1).isSome = true := by decide

/-- outside the domain — what the real translator copies into text that is not Veryl, without
reporting an unsupported construct (each is a fixed witness of the differential check) -/
theorem C22_outside_domain :
    trRaw (.chain (.var 0) (.cons .lt (.var 1) .nil)) = none ∧            -- `a < b`
    trRaw (.cond (.var 0) (.var 1) (.var 2)) = none ∧                      -- `c ? a : b`
    trRaw (.rep 2 (.var 0)) = none ∧                                       -- `{2{a}}`
    trRaw (.sizeCast 8 (.var 0)) = none ∧                                  -- `8'(a)` → `(a) as logic<8>`
    trRaw (.signCast false true (.var 0)) = none := by                     -- `signed'(a)` → `(a) as signed`
  decide

end VerylModel.Props.C22
