import VerylModel.Lemmas.Svlv
/-!
C36 — value encodings at external boundaries.

"Converting simulator values to and from the DPI svLogicVecVal encoding (cosim) follows IEEE 1800
Annex H (0=00, 1=10, Z=01, X=11 as aval/bval) and round-trips every bit.  Waveform dumps (VCD/FST)
record exactly the values the simulator holds at each dumped time."

All statements quantify over every width, both `Value` arms and every payload / X-Z mask.
`Canon v` is the simulator's invariant "no bit at or above `width` is set".
-/
namespace VerylModel.Props.C36
open VerylModel.Svlv

/-- Payload and mask have no bit at or above `width`. -/
def Canon (v : Val) : Prop := v.payload < 2 ^ v.width ∧ v.mask < 2 ^ v.width

/-- Every field of every word is a `u32` (what the Rust type `SvLogicVecVal` enforces). -/
def WordsOk (ws : List Word) : Prop := ∀ w ∈ ws, w.aval < two32 ∧ w.bval < two32

/-- The word vector has `⌈width/32⌉` entries, each a pair of `u32`s. -/
theorem svlv_shape (v : Val) : (toWords v).length = lenWords v.width ∧ WordsOk (toWords v) := by
  rw [toWords_spec]
  exact ⟨specFrom_length _ _ _ _, specFrom_fields_lt _ _ _ _⟩

/-- Annex H per bit: for every bit `i` inside the word vector, `(aval, bval)` at word `i / 32`,
position `i % 32` is 00 / 10 / 01 / 11 for the simulator states 0 / 1 / Z / X — on either arm, for
every width (also > 64 and not a multiple of 32). -/
theorem svlv_encoding (v : Val) (i : Nat) (hi : i < 32 * lenWords v.width) :
    let w := (toWords v).getD (i / 32) ⟨0, 0⟩
    (w.aval.testBit (i % 32), w.bval.testBit (i % 32)) = annexH (stateOf v.payload v.mask i) := by
  intro w
  have hk : i / 32 < lenWords v.width := by omega
  have hw : w = ⟨digit v.payload (i / 32) ^^^ digit v.mask (i / 32), digit v.mask (i / 32)⟩ := by
    show (toWords v).getD (i / 32) ⟨0, 0⟩ = _
    rw [toWords_spec, specFrom_getD _ _ _ _ _ hk]; simp
  have hj : i % 32 < 32 := Nat.mod_lt _ (by decide)
  have e : 32 * (i / 32) + i % 32 = i := Nat.div_add_mod i 32
  rw [hw]
  simp only [Nat.testBit_xor, digit_testBit _ _ _ hj, e]
  unfold stateOf
  cases v.mask.testBit i <;> cases v.payload.testBit i <;> rfl

/-- Bits of the last word above `width` are 00 (a canonical value pads with zeros, never X/Z). -/
theorem svlv_padding (v : Val) (hc : Canon v) (i : Nat) (hw : v.width ≤ i)
    (hi : i < 32 * lenWords v.width) :
    let w := (toWords v).getD (i / 32) ⟨0, 0⟩
    (w.aval.testBit (i % 32), w.bval.testBit (i % 32)) = (false, false) := by
  intro w
  have h := svlv_encoding v i hi
  have hp : v.payload.testBit i = false :=
    Nat.testBit_lt_two_pow (Nat.lt_of_lt_of_le hc.1 (Nat.pow_le_pow_right (by decide) hw))
  have hm : v.mask.testBit i = false :=
    Nat.testBit_lt_two_pow (Nat.lt_of_lt_of_le hc.2 (Nat.pow_le_pow_right (by decide) hw))
  simp only [stateOf, hp, hm, annexH] at h
  exact h

/-- Round trip value → words → value: payload and mask come back bit for bit; the width is the
word vector's (`32·⌈w/32⌉`, "resized") and the arm is the one `width > 64` selects. -/
theorem svlv_roundtrip (v : Val) (hc : Canon v) :
    fromWords (toWords v) =
      mkVal v.payload v.mask (lenWords v.width * 32) := by
  have hlen : (toWords v).length = lenWords v.width := (svlv_shape v).1
  have hok := (svlv_shape v).2
  have hle : v.width ≤ 32 * lenWords v.width := width_le_lenWords _
  have hP : pack (fun w => w.aval ^^^ w.bval) (toWords v) = v.payload := by
    rw [toWords_spec, pack_specFrom_payload]
    simp only [Nat.mul_zero, Nat.shiftRight_zero]
    exact Nat.mod_eq_of_lt (Nat.lt_of_lt_of_le hc.1 (Nat.pow_le_pow_right (by decide) hle))
  have hM : pack (fun w => w.bval) (toWords v) = v.mask := by
    rw [toWords_spec, pack_specFrom_mask]
    simp only [Nat.mul_zero, Nat.shiftRight_zero]
    exact Nat.mod_eq_of_lt (Nat.lt_of_lt_of_le hc.2 (Nat.pow_le_pow_right (by decide) hle))
  unfold fromWords mkVal
  simp only [hlen]
  by_cases hbig : lenWords v.width * 32 > 64
  · have hn : ¬ lenWords v.width * 32 ≤ 64 := by omega
    simp only [hbig, hn, if_true, if_false, accumulate_zero, hP, hM]
  · have hn : lenWords v.width * 32 ≤ 64 := by omega
    have hl2 : (toWords v).length ≤ 2 := by omega
    have hx : ∀ w ∈ toWords v, (fun w : Word => w.aval ^^^ w.bval) w < two32 := by
      intro w hw
      have := hok w hw
      rw [two32_eq] at *
      exact Nat.xor_lt_two_pow this.1 this.2
    have hb : ∀ w ∈ toWords v, (fun w : Word => w.bval) w < two32 := fun w hw => (hok w hw).2
    simp only [hbig, hn, if_true, if_false, accumulate_two64 _ _ hl2 hx, accumulate_two64 _ _ hl2 hb, hP, hM]

/-- Round trip words → value → words: every `u32` pair vector of every length comes back
unchanged (so no `(aval, bval)` combination is lost or normalised). -/
theorem svlv_roundtrip_words (ws : List Word) (hok : WordsOk ws) :
    toWords (fromWords ws) = ws := by
  have hx : ∀ w ∈ ws, (fun w : Word => w.aval ^^^ w.bval) w < two32 := by
    intro w hw
    have := hok w hw
    rw [two32_eq] at *
    exact Nat.xor_lt_two_pow this.1 this.2
  have hb : ∀ w ∈ ws, (fun w : Word => w.bval) w < two32 := fun w hw => (hok w hw).2
  rw [toWords_spec]
  unfold fromWords
  by_cases hbig : ws.length * 32 > 64
  · simp only [hbig, if_true, accumulate_zero, lenWords_mul]
    exact specFrom_pack ws hok
  · have hl2 : ws.length ≤ 2 := by omega
    simp only [hbig, if_false, accumulate_two64 _ _ hl2 hx, accumulate_two64 _ _ hl2 hb, lenWords_mul]
    exact specFrom_pack ws hok

/-- `fromWords` produces canonical values (needed to chain the two round trips). -/
theorem svlv_fromWords_canon (ws : List Word) (hok : WordsOk ws) : Canon (fromWords ws) := by
  have hx : ∀ w ∈ ws, (fun w : Word => w.aval ^^^ w.bval) w < two32 := by
    intro w hw
    have := hok w hw
    rw [two32_eq] at *
    exact Nat.xor_lt_two_pow this.1 this.2
  have hb : ∀ w ∈ ws, (fun w : Word => w.bval) w < two32 := fun w hw => (hok w hw).2
  have e : 32 * ws.length = ws.length * 32 := Nat.mul_comm _ _
  unfold fromWords Canon
  by_cases hbig : ws.length * 32 > 64
  · simp only [hbig, if_true, accumulate_zero]
    exact ⟨e ▸ pack_lt _ ws hx, e ▸ pack_lt _ ws hb⟩
  · have hl2 : ws.length ≤ 2 := by omega
    simp only [hbig, if_false, accumulate_two64 _ _ hl2 hx, accumulate_two64 _ _ hl2 hb]
    exact ⟨e ▸ pack_lt _ ws hx, e ▸ pack_lt _ ws hb⟩

/-- **Lossless = injective**: two canonical values of the same width with the same word vector have the
same payload and the same X/Z mask — no two distinct 4-state values share an encoding. -/
theorem svlv_injective (v v' : Val) (hc : Canon v) (hc' : Canon v') (hw : v.width = v'.width)
    (h : toWords v = toWords v') : v.payload = v'.payload ∧ v.mask = v'.mask := by
  have e := svlv_roundtrip v hc
  rw [h, svlv_roundtrip v' hc', hw] at e
  unfold mkVal at e
  split at e <;> simp only [Val.mk.injEq] at e <;> exact ⟨e.2.1.symm, e.2.2.1.symm⟩

/-- … and in the other direction: two `u32`-pair vectors that decode to the same value are the same
vector (no `(aval, bval)` information is dropped on the way in). -/
theorem svlv_fromWords_injective (ws ws' : List Word) (hok : WordsOk ws) (hok' : WordsOk ws')
    (h : fromWords ws = fromWords ws') : ws = ws' := by
  rw [← svlv_roundtrip_words ws hok, ← svlv_roundtrip_words ws' hok', h]

/-- The two arms agree: the words do not depend on which representation holds the value. -/
theorem svlv_arm_independent (p m w : Nat) :
    toWords ⟨.u64, p, m, w⟩ = toWords ⟨.big, p, m, w⟩ := by
  rw [toWords_spec, toWords_spec]

/-- `to_vcd_value i` is exactly the state of bit `i`. -/
theorem vcd_bit (v : Val) (i : Nat) : vcdBit v i = stateOf v.payload v.mask i := by
  unfold vcdBit stateOf
  cases v.mask.testBit i <;> cases v.payload.testBit i <;> rfl

/-- The dumped vector (`VcdValueIter`, `to_fst_bits`) has `width` characters, MSB first: character
`k` is the state of bit `width - 1 - k`. -/
theorem vcd_bits_msb_first (v : Val) :
    (vcdBits v).length = v.width ∧
    ∀ k, k < v.width → (vcdBits v)[k]? = some (stateOf v.payload v.mask (v.width - 1 - k)) := by
  constructor
  · simp [vcdBits]
  · intro k hk
    simp only [vcdBits, List.getElem?_map, List.getElem?_reverse, List.length_range, hk,
      List.getElem?_range (show v.width - 1 - k < v.width by omega), Option.map_some, vcd_bit]

/-- `cosim_get` copies four words (the DPI prototype is `logic [127:0]`): up to 128 bits the
window is the whole vector … -/
theorem cosim_window_partial (v : Val) (h : v.width ≤ 128) :
    (cosimWindow (toWords v)).take (lenWords v.width) = toWords v := by
  have hl : lenWords v.width ≤ 4 := by unfold lenWords; split <;> omega
  have hlen := (svlv_shape v).1
  generalize toWords v = ws at *
  match ws, hlen with
  | [], h0 => simp [← h0]
  | [a], h0 => simp [← h0, cosimWindow, List.range]; rfl
  | [a, b], h0 => simp [← h0, cosimWindow, List.range]; rfl
  | [a, b, c], h0 => simp [← h0, cosimWindow, List.range]; rfl
  | [a, b, c, d], h0 => simp [← h0, cosimWindow, List.range]; rfl
  | _ :: _ :: _ :: _ :: _ :: _, h0 => simp at h0; omega

/-- … and beyond 128 bits it is not: two different canonical 129-bit values read back identically
(full-strength "round-trips every bit" is false for `cosim_get` on ports wider than 128 bits). -/
theorem cosim_window_full_false :
    ¬ (∀ v1 v2 : Val, v1.width = v2.width → Canon v1 → Canon v2 →
        cosimWindow (toWords v1) = cosimWindow (toWords v2) → v1 = v2) := by
  intro h
  have := h ⟨.big, 0, 0, 129⟩ ⟨.big, 2 ^ 128, 0, 129⟩ rfl
    (by unfold Canon; decide) (by unfold Canon; decide)
    (by simp [toWords_spec, lenWords, specFrom, cosimWindow, List.range, List.range.loop, digit,
          two32_eq, Nat.shiftRight_eq_div_pow])
  simp at this

/- Non-vacuity: concrete instances of the hypotheses. -/
example : Canon ⟨.big, 2 ^ 99 + 5, 2 ^ 98 + 1, 100⟩ := by unfold Canon; decide
example : Canon ⟨.u64, 5, 6, 3⟩ := by unfold Canon; decide
example : WordsOk [⟨4294967295, 1⟩, ⟨0, 4294967295⟩, ⟨7, 7⟩] := by
  intro w hw; simp at hw; rcases hw with rfl | rfl | rfl <;> decide
example : (32 : Nat) < 32 * lenWords 33 := by decide

end VerylModel.Props.C36
