import VerylModel.Lemmas.Netlist
/-!
# C20 — Netlists are well-formed and reports match them

Fixed text: "Every netlist the synthesizer returns has exactly one driver per used net, only
in-range net references, cells with the right number of inputs, and no combinational cycle. The
area it reports is the sum of the library areas of its cells, flip-flops and RAM macros. The
critical-path depth it reports is the longest combinational path in the netlist."

* Sentence 1 is a property of the converter's OUTPUT. `Netlist.wf` is the decidable test; the
  theorems `wf_*` say what it means. The check runs it (and an independent Rust verdict) on every
  netlist the real synthesizer returns.
* Sentence 2: `area_sum` (all modules, all libraries).
* Sentence 3: `timing_fixpoint` proves that the `while changed` sweep of `compute_timing` stops
  and leaves, at EVERY net, the weight of the heaviest path (cells other than `Buf` count 1, an
  asynchronous RAM read counts 1) and the largest delay sum. The reported depth, however, is read
  at the endpoint of largest ARRIVAL: `depth_partial` states exactly that, and
  `reported_depth_is_longest_false` / `C20_depth_witness` show that the full-strength sentence
  fails (three fast cells against two slow ones).
-/
namespace VerylModel.Props.C20
open VerylModel.Netlist VerylModel.Gen

/-! ## what `wf` means -/

/-- Exactly one driver per used net. -/
theorem wf_one_driver_per_used_net (m : Module) (h : wf m = true) :
    ∀ n ∈ usedNets m, (driverNets m).count n = 1 := by
  intro n hn
  have w := wf_sound m h
  rw [w.oneDriver.count, if_pos (w.usedDriven n hn)]

/-- No net at all has two drivers. -/
theorem wf_no_double_driver (m : Module) (h : wf m = true) : ∀ n, (driverNets m).count n ≤ 1 := by
  intro n
  exact List.nodup_iff_count.mp (wf_sound m h).oneDriver n

/-- Only in-range net references (reading and driving pins). -/
theorem wf_in_range (m : Module) (h : wf m = true) :
    (∀ n ∈ usedNets m, n < m.nNets) ∧ (∀ n ∈ driverNets m, n < m.nNets) :=
  ⟨(wf_sound m h).usedInRange, (wf_sound m h).driverInRange⟩

/-- Cells have the number of inputs of their kind (`CellKind::arity`). -/
theorem wf_arity (m : Module) (h : wf m = true) : ∀ c ∈ m.cells, c.inputs.length = c.kind.arity :=
  (wf_sound m h).arity

/-- One combinational hop: from a fan-in net of a cell (or asynchronous RAM read) to a net it drives. -/
def Hop (m : Module) (a b : Nat) : Prop := ∃ e ∈ combGraph m, a ∈ e.1 ∧ b ∈ e.2

/-- One or more hops. -/
inductive Reach (m : Module) : Nat → Nat → Prop
  | one {a b : Nat} : Hop m a b → Reach m a b
  | more {a b c : Nat} : Hop m a b → Reach m b c → Reach m a c

/-- No combinational cycle. -/
theorem wf_no_cycle (m : Module) (h : wf m = true) : ∀ n, ¬ Reach m n n := by
  obtain ⟨rank, hr⟩ := (wf_sound m h).acyclic
  have key : ∀ a b, Reach m a b → rank a < rank b := by
    intro a b p
    induction p with
    | one hop =>
      obtain ⟨e, he, ha, hb⟩ := hop
      exact (hr e he).2 _ ha _ hb
    | more hop _ ih =>
      obtain ⟨e, he, ha, hb⟩ := hop
      exact Nat.lt_trans ((hr e he).2 _ ha _ hb) ih
  intro n p
  exact Nat.lt_irrefl _ (key n n p)

/-! ## T1: the `while changed` sweep -/

/-- Weights of the two channels on the nodes of a module: the library delay of the cell kind (the
    RAM access delay for an asynchronous read) and the level count, in which `Buf` is free. -/
theorem node_weights (p : TParams) (c : Cell) :
    (cellNode p c).delay = p.delay c.kind ∧ (cellNode p c).dinc = (if c.kind = .buf then 0 else 1) :=
  ⟨rfl, rfl⟩

/-- **T1 `timing_fixpoint`.** On a well-formed netlist the sweep terminates within the fuel of
    `Netlist.sweep`, and then, at every net `n`, `depth[n]` is the length of the longest cell path
    ending at `n` (Buf excluded) and `arrival[n]` is the largest delay sum of a path ending at `n`. -/
theorem timing_fixpoint (m : Module) (p : TParams) (h : wf m = true) :
    ∃ st, sweep p m = some st ∧
      ∀ n, IsLongest (timingNodes p m) (fun nd => nd.dinc) n (aget st.depth n) ∧
           IsLongest (timingNodes p m) (fun nd => nd.delay) n (aget st.arrival n) := by
  obtain ⟨rank, g, hR⟩ := wf_layered m (wf_sound m h) p
  obtain ⟨st, hs, hl⟩ := sweep_nodes (timingNodes p m) m.nNets rank g hR _ (Nat.le_refl _)
  exact ⟨st, hs, fun n => ⟨(hl n).2, (hl n).1⟩⟩

/-- More fuel changes nothing: the Rust loop (no fuel) computes the same two tables. -/
theorem timing_fuel_irrelevant (m : Module) (p : TParams) (h : wf m = true) (fuel : Nat)
    (hf : timingFuel (timingNodes p m) ≤ fuel) :
    ∃ st st', sweep p m = some st ∧ iterate (timingNodes p m) fuel (initT m.nNets) = some st' ∧
      ∀ n, aget st'.depth n = aget st.depth n ∧ aget st'.arrival n = aget st.arrival n := by
  obtain ⟨rank, g, hR⟩ := wf_layered m (wf_sound m h) p
  obtain ⟨st, hs, hl⟩ := sweep_nodes (timingNodes p m) m.nNets rank g hR _ (Nat.le_refl _)
  obtain ⟨st', hs', hl'⟩ := sweep_nodes (timingNodes p m) m.nNets rank g hR fuel hf
  exact ⟨st, st', hs, hs', fun n =>
    ⟨isLongest_unique _ _ n _ _ (hl' n).2 (hl n).2, isLongest_unique _ _ n _ _ (hl' n).1 (hl n).1⟩⟩

/-! ## T2: the area report -/

/-- **T2 `area_sum`.** `total = Σ cell areas + |ffs|·ffArea + Σ RAM bits·bitArea`, the rows of
    `by_kind` add up to `combinational` and to the number of cells, and every row is
    `(kind, n, n × area of the kind)`. -/
theorem area_sum (lib : CellLib) (m : Module) :
    let a := area lib m
    a.combinational = (m.cells.map (fun c => lib.area c.kind)).sum ∧
    a.sequential = m.ffs.length * lib.ffArea ∧
    a.memory = (m.rams.map (fun r => r.depth * r.width)).sum * lib.bitArea ∧
    a.total = (m.cells.map (fun c => lib.area c.kind)).sum + m.ffs.length * lib.ffArea
                + (m.rams.map (fun r => r.depth * r.width)).sum * lib.bitArea ∧
    (a.byKind.map (fun r => r.2.2)).sum = a.combinational ∧
    (a.byKind.map (fun r => r.2.1)).sum = m.cells.length ∧
    (∀ r ∈ a.byKind, r.2.2 = r.2.1 * lib.area r.1) := by
  have hfold := areaLoop_fold lib m.cells ([], 0) (fun r hr => absurd hr List.not_mem_nil)
  simp only [rowsArea, rowsCount, List.map_nil, List.sum_nil, Nat.zero_add] at hfold
  obtain ⟨h1, h2, h3, h4⟩ := hfold
  have hp := sortRows_perm (areaLoop lib m.cells).1
  refine ⟨h1, rfl, rfl, ?_, ?_, ?_, ?_⟩
  · show (areaLoop lib m.cells).2 + _ + _ = _
    unfold areaLoop; rw [h1]; rfl
  · show ((sortRows (areaLoop lib m.cells).1).map (fun r => r.2.2)).sum = (areaLoop lib m.cells).2
    rw [(hp.map _).sum_nat]
    unfold areaLoop; rw [h2, h1]
  · show ((sortRows (areaLoop lib m.cells).1).map (fun r => r.2.1)).sum = m.cells.length
    rw [(hp.map _).sum_nat]
    exact h3
  · intro r hr
    exact h4 r (hp.subset hr)

/-! ## T3: the reported depth -/

/-- **`depth_partial`.** What the report does say: the reported endpoint is an endpoint of largest
    arrival (smallest net id among equals), `critical_path_delay` is the largest delay sum of a
    path ending THERE, and `critical_path_depth` is the longest cell path ending THERE. -/
theorem depth_partial (m : Module) (p : TParams) (h : wf m = true) (r : TimingReport)
    (hr : report p m = some r) :
    (endpoints m = [] ∧ r = { delay := 0, depth := 0, endNet := none }) ∨
    ∃ e st, sweep p m = some st ∧ r.endNet = some e ∧ e ∈ endpoints m ∧
      IsLongest (timingNodes p m) (fun nd => nd.dinc) e r.depth ∧
      IsLongest (timingNodes p m) (fun nd => nd.delay) e r.delay ∧
      ∀ e' ∈ endpoints m, aget st.arrival e' ≤ r.delay ∧ (aget st.arrival e' = r.delay → e ≤ e') := by
  obtain ⟨st, hs, hl⟩ := timing_fixpoint m p h
  unfold report at hr
  rw [hs] at hr
  simp only at hr
  cases hp : pickEndpoint st.arrival (endpoints m) with
  | none =>
    rw [hp] at hr
    simp only [Option.some.injEq] at hr
    exact Or.inl ⟨(pickEndpoint_none _ _).mp hp, hr.symm⟩
  | some e =>
    rw [hp] at hr
    simp only [Option.some.injEq] at hr
    subst hr
    obtain ⟨he, hall⟩ := pickEndpoint_spec _ _ _ hp
    exact Or.inr ⟨e, st, hs, rfl, he, (hl e).1, (hl e).2, hall⟩

/-- The DESIGN #14 witness: nets 2,3 are inputs `a`,`b`; three inverters `a → 4 → 5 → 6` (output
    `o1`), two XOR2 `7 = a^b`, `8 = 7^b` (output `o2`). -/
def witness : Module where
  drivers := #[.const false, .const true, .portInput, .portInput, .cell 0, .cell 1, .cell 2, .cell 3, .cell 4]
  ports := [{ dir := .input, nets := [2] }, { dir := .input, nets := [3] },
            { dir := .output, nets := [6] }, { dir := .output, nets := [8] }]
  cells := [{ kind := .not, inputs := [2], output := 4 }, { kind := .not, inputs := [4], output := 5 },
            { kind := .not, inputs := [5], output := 6 }, { kind := .xor2, inputs := [2, 3], output := 7 },
            { kind := .xor2, inputs := [7, 3], output := 8 }]
  ffs := []
  rams := []

def asap7Params : TParams := { delay := asap7.delay, access := fun _ => 0 }
def sky130Params : TParams := { delay := sky130.delay, access := fun _ => 0 }

theorem witness_wf : wf witness = true := by decide

/-- **`C20_depth_witness`.** With the ASAP7 and the SKY130 delays the report of the witness says
    depth 2 (endpoint net 8, two XOR2: 0.058 ns / 0.24 ns) although the inverter chain ending at
    net 6 has three cells (0.048 ns / 0.06 ns). -/
theorem C20_depth_witness :
    report asap7Params witness = some { delay := 58000000, depth := 2, endNet := some 8 } ∧
    report sky130Params witness = some { delay := 240000000, depth := 2, endNet := some 8 } ∧
    IsLongest (timingNodes asap7Params witness) (fun nd => nd.dinc) 6 3 := by
  refine ⟨by decide, by decide, ?_⟩
  obtain ⟨st, hs, hl⟩ := timing_fixpoint witness asap7Params witness_wf
  have e : sweep asap7Params witness = some { arrival := #[0, 0, 0, 0, 16000000, 32000000, 48000000, 29000000, 58000000],
                                              depth := #[0, 0, 0, 0, 1, 2, 3, 1, 2] } := by decide
  rw [e] at hs
  simp only [Option.some.injEq] at hs
  subst hs
  exact (hl 6).1

/-- The full-strength sentence "the reported depth is the longest combinational path of the
    netlist" is false of the code. -/
theorem reported_depth_is_longest_false :
    ¬ (∀ (m : Module) (p : TParams) (r : TimingReport), wf m = true → report p m = some r →
        ∀ n v, IsLongest (timingNodes p m) (fun nd => nd.dinc) n v → v ≤ r.depth) := by
  intro hall
  obtain ⟨h1, _, h3⟩ := C20_depth_witness
  have := hall witness asap7Params _ witness_wf h1 6 3 h3
  exact absurd this (by decide)

/-! ## non-vacuity -/

example : ∃ m, wf m = true ∧ m.cells.length = 5 ∧ (endpoints m).length = 2 := ⟨witness, witness_wf, rfl, rfl⟩

/-- A module with a flip-flop and a RAM block also passes `wf` (so the hypotheses of the theorems
    are satisfiable beyond pure logic), and one with a combinational loop does not. -/
def seqExample : Module where
  drivers := #[.const false, .const true, .portInput, .portInput, .ffQ 0, .cell 0, .ramRead 0 0 0, .portInput]
  ports := [{ dir := .input, nets := [2] }, { dir := .input, nets := [3] }, { dir := .input, nets := [7] },
            { dir := .output, nets := [6] }]
  cells := [{ kind := .xor2, inputs := [4, 3], output := 5 }]
  ffs := [{ clock := 2, edge := .posedge, reset := some { net := 7, activeHigh := false, sync := false },
            d := 5, q := 4, resetValue := false }]
  rams := [{ depth := 2, width := 1, clock := 2, edge := .posedge,
             reads := [{ addr := [4], data := [6], sync := false }],
             writes := [{ addr := [3], data := [5], enable := 4, mask := none }] }]

example : wf seqExample = true := by decide

def loopExample : Module where
  drivers := #[.const false, .const true, .cell 0, .cell 1]
  ports := [{ dir := .output, nets := [3] }]
  cells := [{ kind := .not, inputs := [3], output := 2 }, { kind := .not, inputs := [2], output := 3 }]
  ffs := []
  rams := []

example : wf loopExample = false := by decide
example : acyclicCheck loopExample = false := by decide

end VerylModel.Props.C20
