import VerylModel.Lemmas.SynthRules
import VerylModel.Lemmas.Netlist
/-!
# C19 — Synthesized netlists behave like the RTL

Fixed text: "For every module `veryl synth` accepts and every 2-state input sequence applied after
reset, the gate netlist produces the same outputs, cycle by cycle, as simulating the RTL. Gate
evaluation, flip-flops with their reset values and edges, and inferred RAM blocks all take part.
This holds for every cell library and RAM-inference threshold."

What is proved and what is validated:
* The converter (`conv.rs`, `conv/*.rs`, ≈ 9 700 lines) is NOT verified as a program. It is
  **validated per netlist** (translation validation): `checks/c19.py` evaluates every REAL netlist
  the synthesizer returns with `Netlist.run` (and with an independent Rust evaluator) and compares
  the outputs, cycle by cycle, with the real simulator's run of the RTL.
* The **rules** the converter relies on are proved here for all inputs and all widths: the adders
  (`kogge_stone_add`, `ripple_add_core`, their dispatch, `ripple_sub`, unsigned `<`), the Sklansky
  prefix network, re-association of AND/OR/XOR chains into arbitrary trees, constant propagation
  (`simplify`, all 22 cell kinds), the fusion tables of the post-pass (generated from the source),
  the Mux2 rewrites, and the conditional-increment counter rebuild.
* The meaning of a netlist used by the validation: `settle_fixpoint` shows that whatever
  `Netlist.settle` returns solves every cell equation and every asynchronous RAM read equation
  (on a well-formed, hence acyclic, netlist such a solution is unique given inputs and state).
-/
namespace VerylModel.Props.C19
open VerylModel.SynthRules VerylModel.Gen

/-! ## adders (arith.rs) -/

/-- `full_adder` is a 3:2 compressor (also the step of `wallace_multiply` and of `popcount`). -/
theorem full_adder_compresses (a b c : Bool) :
    b2n (fullAdder a b c).1 + 2 * b2n (fullAdder a b c).2 = b2n a + b2n b + b2n c :=
  fullAdder_sum a b c

/-- The half adder of the Wallace / popcount tail pair. -/
theorem half_adder_compresses (a b : Bool) :
    b2n (CellKind.eval .xor2 (ins [a, b])) + 2 * b2n (CellKind.eval .and2 (ins [a, b])) = b2n a + b2n b := by
  cases a <;> cases b <;> rfl

/-- **Kogge–Stone recurrence = ripple carry**, every width `n`, every operand, every bit. -/
theorem kogge_stone_eq_ripple (n : Nat) (a b : Nat → Bool) (cin : Bool) :
    ∀ i, i < n → ksSum n a b cin i = rippleSum a b cin i :=
  fun i hi => ksSum_eq_ripple n a b cin i hi

/-- Ripple carry is addition: sum bits and carry out. -/
theorem ripple_is_addition (n : Nat) (a b : Nat → Bool) (cin : Bool) :
    toNat (rippleSum a b cin) n + 2 ^ n * b2n (rippleCarry a b cin n) = toNat a n + toNat b n + b2n cin :=
  ripple_value a b cin n

/-- `ripple_add` as dispatched (ripple below 4 bits, Kogge–Stone from 4 bits) adds modulo `2^n`. -/
theorem add_correct (n : Nat) (a b : Nat → Bool) (cin : Bool) :
    toNat (addSum n a b cin) n = (toNat a n + toNat b n + b2n cin) % 2 ^ n :=
  addSum_value n a b cin

/-- `ripple_sub` (`a + !b + 1`) subtracts modulo `2^n`. -/
theorem sub_correct (n : Nat) (a b : Nat → Bool) :
    toNat (subSum n a b) n = (toNat a n + 2 ^ n - toNat b n) % 2 ^ n :=
  subSum_value n a b

/-- `compare(a, b, <, unsigned)`: one zero extension bit, MSB of the difference. -/
theorem less_unsigned_correct (n : Nat) (a b : Nat → Bool) :
    lessUnsigned n a b = decide (toNat a n < toNat b n) :=
  lessUnsigned_value n a b

/-! ## prefix.rs / balance.rs -/

/-- **Sklansky network = all prefixes of the linear scan**, for every associative operator and
    every chain length (the operand order is kept, only associativity is used). -/
theorem sklansky_correct {α : Type} (op : α → α → α) (hassoc : ∀ a b c, op (op a b) c = op a (op b c))
    (leaves : List α) : sklansky op leaves = prefixes op leaves :=
  sklansky_prefixes op hassoc leaves

/-- **Balanced-tree re-association**: any tree over any permutation of the leaves of a chain
    computes the fold over the leaf list (associative, commutative operator with identity). -/
theorem tree_reassociation {α : Type} (op : α → α → α) (e : α)
    (hassoc : ∀ a b c, op (op a b) c = op a (op b c)) (hcomm : ∀ a b, op a b = op b a)
    (hid : ∀ a, op e a = a) (t1 t2 : Tree α) (h : t1.leaves.Perm t2.leaves) :
    t1.eval op = t2.eval op :=
  tree_reassoc op e hassoc hcomm hid t1 t2 h

/-- … instantiated for the three kinds `is_assoc` admits: And2, Or2, Xor2. -/
theorem tree_reassociation_cells (kind : CellKind) (hk : kind = .and2 ∨ kind = .or2 ∨ kind = .xor2)
    (t1 t2 : Tree Bool) (h : t1.leaves.Perm t2.leaves) :
    t1.eval (fun a b => kind.eval (ins [a, b])) = t2.eval (fun a b => kind.eval (ins [a, b])) := by
  rcases hk with rfl | rfl | rfl
  · exact tree_reassoc _ true (by intro a b c; cases a <;> cases b <;> cases c <;> rfl)
      (by intro a b; cases a <;> cases b <;> rfl) (by intro a; cases a <;> rfl) t1 t2 h
  · exact tree_reassoc _ false (by intro a b c; cases a <;> cases b <;> cases c <;> rfl)
      (by intro a b; cases a <;> cases b <;> rfl) (by intro a; cases a <;> rfl) t1 t2 h
  · exact tree_reassoc _ false (by intro a b c; cases a <;> cases b <;> cases c <;> rfl)
      (by intro a b; cases a <;> cases b <;> rfl) (by intro a; cases a <;> rfl) t1 t2 h

/-- The left-deep ripple the converter first emits is one of those trees. -/
theorem chain_is_a_tree {α : Type} (op : α → α → α) (e : α)
    (hassoc : ∀ a b c, op (op a b) c = op a (op b c)) (hidl : ∀ a, op e a = a) (hidr : ∀ a, op a e = a)
    (t : Tree α) : t.eval op = t.leaves.foldl op e :=
  tree_eval_fold op e hassoc hidl hidr t

/-! ## constant propagation (worklist.rs) -/

/-- **`simplify` is sound for every cell kind**: if the known input values `iv` are true of an
    assignment `env` (which gives 0/1 to the constant nets), the replacement `simplify` returns
    (`Const`, `Alias`, `Invert`) has the value of the cell. -/
theorem const_propagation_sound (kind : CellKind) (env : Nat → Bool) (iv : IV) (nets : Nets)
    (k : Knows env iv nets) (s : Simpl) (h : simplify kind iv nets = some s) :
    cellValue kind env nets = s.eval env :=
  simplify_sound env iv nets k kind s h

/-- `algebraic_fuse`: `Not(Not(x)) = Buf(x)`; `Mux2(s, 0, d1) = And2(s, d1)`; `Mux2(s, d0, 1) = Or2(s, d0)`. -/
theorem algebraic_fuse_rules (s d0 d1 x : Bool) :
    CellKind.eval .not (ins [CellKind.eval .not (ins [x])]) = CellKind.eval .buf (ins [x]) ∧
    CellKind.eval .mux2 (ins [s, false, d1]) = CellKind.eval .and2 (ins [s, d1]) ∧
    CellKind.eval .mux2 (ins [s, d0, true]) = CellKind.eval .or2 (ins [s, d0]) := by
  cases s <;> cases d0 <;> cases d1 <;> cases x <;> exact ⟨rfl, rfl, rfl⟩

/-- `algebraic_fuse`, polarity flips (table generated from the source). -/
theorem algebraic_fuse_not (up new : CellKind) (h : worklistNotFuse up = some new) (x : Nat → Bool) :
    new.eval x = CellKind.eval .not (ins [up.eval x]) :=
  worklistNotFuse_sound up new h x

/-! ## post-pass fusion (postpass.rs; tables generated from the source) -/

/-- `Not` over a single-consumer gate becomes the gate of opposite polarity on the same inputs. -/
theorem fuse_not (up new : CellKind) (h : postNotFuse up = some new) (x : Nat → Bool) :
    new.eval x = CellKind.eval .not (ins [up.eval x]) :=
  postNotFuse_sound up new h x

/-- One-pivot fusions (`Ao21 = Or2(And2 a b) c`, `Aoi21`, `Oa21`, `Oai21`, `And3`, `Or3`, `Nand3`,
    `Nor3`, `Ao31`, `Aoi31`): the compound cell on (inner inputs ++ [other operand]) equals the outer
    gate applied to the inner gate and the other operand, in either pivot position. -/
theorem fuse_pivot (outer inner new : CellKind) (h : postPivotFuse outer inner = some new)
    (x : Nat → Bool) (y : Bool) :
    new.eval (fusedInputs inner x y) = outer.eval (ins [inner.eval x, y]) ∧
    new.eval (fusedInputs inner x y) = outer.eval (ins [y, inner.eval x]) :=
  postPivotFuse_sound outer inner new h x y

/-- Two-pivot fusions (`Ao22`, `Aoi22`, `Oai22`). -/
theorem fuse_two_pivot (outer leg comp : CellKind) (h : postTwoPivotFuse outer = some (leg, comp))
    (a b c d : Bool) :
    comp.eval (ins [a, b, c, d]) = outer.eval (ins [leg.eval (ins [a, b]), leg.eval (ins [c, d])]) :=
  postTwoPivotFuse_sound outer leg comp h a b c d

private def mux (s d0 d1 : Bool) : Bool := CellKind.eval .mux2 (ins [s, d0, d1])
private def g2 (k : CellKind) (a b : Bool) : Bool := k.eval (ins [a, b])
private def inv (a : Bool) : Bool := CellKind.eval .not (ins [a])

/-- `collapse_mux_to_primitive` (`MuxRewrite`), all eight patterns. -/
theorem mux_to_primitive (s x : Bool) :
    mux s false x = g2 .and2 s x ∧ mux s x true = g2 .or2 s x ∧
    mux s s x = g2 .and2 s x ∧ mux s x s = g2 .or2 s x ∧
    mux s x false = g2 .and2 (inv s) x ∧ mux s true x = g2 .or2 (inv s) x ∧
    mux s x (inv x) = g2 .xor2 s x ∧ mux s (inv x) x = g2 .xnor2 s x := by
  cases s <;> cases x <;> decide

/-- `collapse_same_sel_nesting`, same and opposite phase. -/
theorem mux_same_select (s a b c : Bool) :
    mux s a (mux s b c) = mux s a c ∧ mux s (mux s a b) c = mux s a c ∧
    mux s a (mux (inv s) b c) = mux s a b ∧ mux s (mux (inv s) a b) c = mux s b c := by
  cases s <;> cases a <;> cases b <;> cases c <;> decide

/-- `combine_mux_of_mux_shared_leg`, patterns A, B, C, D with the inputs the code installs. -/
theorem mux_of_mux (s1 s2 x y d : Bool) :
    mux s1 (mux s2 x d) d = mux (g2 .or2 s1 s2) x d ∧
    mux s1 d (mux s2 d y) = mux (g2 .and2 s1 s2) d y ∧
    mux s1 (mux s2 d y) d = mux (g2 .and2 (inv s1) s2) d y ∧
    mux s1 d (mux s2 x d) = mux (g2 .and2 s1 (inv s2)) d x := by
  cases s1 <;> cases s2 <;> cases x <;> cases y <;> cases d <;> decide

/-- `distribute_boolean_factor` and `factor_mux_common_input`. -/
theorem factoring (s x a b : Bool) :
    g2 .or2 (g2 .and2 x a) (g2 .and2 x b) = g2 .and2 x (g2 .or2 a b) ∧
    g2 .and2 (g2 .or2 x a) (g2 .or2 x b) = g2 .or2 x (g2 .and2 a b) ∧
    mux s (g2 .and2 x a) (g2 .and2 x b) = g2 .and2 x (mux s a b) ∧
    mux s (g2 .or2 x a) (g2 .or2 x b) = g2 .or2 x (mux s a b) ∧
    mux s (g2 .xor2 x a) (g2 .xor2 x b) = g2 .xor2 x (mux s a b) := by
  cases s <;> cases x <;> cases a <;> cases b <;> decide

/-- `prefix::absorb_complement`. -/
theorem absorb_complement (a b : Bool) :
    g2 .or2 a (g2 .and2 a b) = a ∧ g2 .and2 a (g2 .or2 a b) = a ∧
    g2 .or2 a (g2 .and2 (inv a) b) = g2 .or2 a b ∧ g2 .and2 a (g2 .or2 (inv a) b) = g2 .and2 a b := by
  cases a <;> cases b <;> decide

/-! ## counter rebuild (counter.rs) -/

/-- One conditional-increment stage (`B0' = Mux2(c, B0, !B0)`, `Bk' = Mux2(c, Bk, Bk ^ AND(B0…B(k-1)))`)
    adds `c` modulo `2^w`: `x + 1` as a half-adder chain. -/
theorem increment_stage_correct (c : Bool) (x : Nat → Bool) (w : Nat) :
    toNat (incStage c x) w = (toNat x w + b2n c) % 2 ^ w :=
  incStage_value c x w

/-- A chain of stages is `seed + popcount(conditions)` modulo `2^w` — what `rebuild_chain` emits. -/
theorem counter_chain_is_popcount (w seed : Nat) (conds : List Bool) :
    conds.foldl (fun v c => (v + b2n c) % 2 ^ w) (seed % 2 ^ w) = (seed + popcount conds) % 2 ^ w :=
  condIncs_popcount (2 ^ w) seed conds

/-- `add_mod` (ripple from carry 0, last carry dropped) adds modulo `2^w`. -/
theorem add_mod_correct (a b : Nat → Bool) (w : Nat) :
    toNat (addModSum a b) w = (toNat a w + toNat b w) % 2 ^ w :=
  addMod_value a b w

/-! ## the meaning of a netlist used by the validation -/

open VerylModel.Netlist in
/-- **`settle_fixpoint`.** The assignment `Netlist.settle` returns satisfies the equation of every
    cell (`output = kind(inputs)`) and of every asynchronous RAM read port (data pin `j` = bit `j`
    of the addressed word). -/
theorem settle_fixpoint (m : Module) (st : State) (inputs : List (Nat × Bool)) (env : Array Bool)
    (h : settle m st inputs = some env) :
    (∀ c ∈ m.cells, bget env c.output = c.kind.eval (inputFn env c.inputs)) ∧
    (∀ ri rp, CNode.read ri rp ∈ combNodes m → ∀ j (hj : j < rp.data.length),
        bget env rp.data[j] = (memWord st ri (pinsVal env rp.addr)).testBit j) := by
  have hfix := citerate_fixpoint st (combNodes m) _ _ env h
  constructor
  · intro c hc
    have := hfix (.cell c) (by unfold combNodes; exact List.mem_append_left _ (List.mem_map_of_mem hc))
    simp only [cnodeStep] at this
    by_cases hb : (bget env c.output == c.kind.eval (inputFn env c.inputs)) = true
    · simpa using hb
    · rw [if_neg hb] at this
      simp only [Prod.mk.injEq] at this
      exact absurd this.2 (by simp)
  · intro ri rp hmem j hj
    have := hfix (.read ri rp) hmem
    simp only [cnodeStep] at this
    have hb := setBits_unchanged _ 0 rp.data env this j hj
    simpa using hb

/-! ## non-vacuity -/

example : ksSum 8 (fun i => i % 2 == 0) (fun i => i % 3 == 0) true 7 = rippleSum (fun i => i % 2 == 0) (fun i => i % 3 == 0) true 7 := by
  decide
example : simplify .ao22 (fun i => if i = 0 then some false else if i = 2 then some true else none) (fun i => i + 2)
    = some (.alias 5) := by decide
example : postPivotFuse .or2 .and2 = some .ao21 := rfl
example : Knows (fun n => n == 1 || n == 3) (fun i => if i = 1 then some true else none) (fun i => i + 2) :=
  ⟨rfl, rfl, fun i b h => by
    by_cases hi : i = 1
    · subst hi; simp at h; subst h; rfl
    · simp [hi] at h⟩

end VerylModel.Props.C19
