import VerylModel.Props.C28
import VerylModel.Lemmas.PrettyPos
/-!
C09 — formatting only changes layout.

The formatter's walker is not modelled; every `Doc` it builds is exported (`verif_tap`) and
* rendered by M-Pretty (byte-for-byte correspondence with the real output, `checks/c09.py`),
* tested for the decidable side condition `FmtDoc` below (`dflags`: `linews=1 ifbcomma=1`).
For such documents the theorems say what `render` — proved in Props/C28 — can and cannot do to the text.
-/
namespace VerylModel.Props.C09
open VerylModel.Pretty VerylModel.Props

/-- Decidable side condition, evaluated by the driver on every real formatter document: every `Line`
    separator is blank and every `IfBreak` text is "," (the optional trailing separator). -/
def FmtDoc (d : Doc) : Prop := d.all fmtNode = true

/-- T1 `content_preserved` (= C28 `content_in_order` for the formatter's options, which strip trailing
    whitespace): dropping whitespace, the formatted text is the concatenation, in document order, of the
    document's texts and comments, plus the separators of flat `Line`s and the `IfBreak` texts of broken
    groups. Nothing is lost, duplicated or reordered. -/
theorem content_preserved (o : Opts) (d : Doc) (hnl : NlWs o) :
    ∃ c, Content .brk d c ∧ nonws (render o d).text = nonws c :=
  C28.content_in_order o d hnl

/-- T2 `only_trailing_ws_trimmed` (= C28): `strip_trailing_whitespace` removes blanks only directly
    before a line terminator or at the very end (and there all of them); every other character —
    comment text included — is kept, in order. -/
theorem only_trailing_ws_trimmed (s nl : List Char) :
    (nl ≠ [] → Trimmed nl s (stripTrailingWhitespace s nl))
    ∧ (stripTrailingWhitespace s nl).filter (fun c => !isTrailWs c) = s.filter (fun c => !isTrailWs c) :=
  C28.only_trailing_ws_trimmed s nl

/-- T3 `ifbreak_only_separator`: for a formatter document, whatever layout the renderer chooses, the
    non-whitespace stream of the output is the non-whitespace stream of the document's leaves (token
    texts and comments, in order) with "," characters inserted — one for each `IfBreak` of a broken
    group, where it stands. So the formatted text differs from the leaves by layout and optional
    trailing commas only. -/
theorem ifbreak_only_separator (o : Opts) (d : Doc) (hnl : NlWs o) (hd : FmtDoc d) :
    CommaIns (nonws (leaves d)) (nonws (render o d).text) := by
  obtain ⟨c, hc, he⟩ := C28.content_in_order o d hnl
  rw [he]
  exact content_commaIns d hd .brk c hc

/-- … hence: apart from commas, output and leaves agree char for char (whitespace dropped). -/
theorem output_eq_leaves_mod_commas (o : Opts) (d : Doc) (hnl : NlWs o) (hd : FmtDoc d) :
    (nonws (render o d).text).filter (· ≠ ',') = (nonws (leaves d)).filter (· ≠ ',') :=
  (ifbreak_only_separator o d hnl hd).filter_eq.symm

/-- … hence the formatter's settings (`max_width`, `indent_width`, newline style) choose layout and
    optional trailing commas only: two renderings of one formatter document under any two option sets agree
    char for char once whitespace and commas are dropped. -/
theorem output_opts_invariant (o o' : Opts) (d : Doc) (hnl : NlWs o) (hnl' : NlWs o') (hd : FmtDoc d) :
    (nonws (render o d).text).filter (· ≠ ',') = (nonws (render o' d).text).filter (· ≠ ',') := by
  rw [output_eq_leaves_mod_commas o d hnl hd, output_eq_leaves_mod_commas o' d hnl' hd]

/-- A group that ends in `if_break(",")` — the shape the formatter builds for lists. -/
def listExample : Doc :=
  .group (.concat [.text ['{'], .indent 1 (.concat [.line [], .text ['a'], .text [','], .line [' '], .text ['b'],
    .ifBreak [',']]), .line [], .text ['}']])

example : FmtDoc listExample := by unfold FmtDoc listExample; decide

/-- Without the side condition T3 is false: an `IfBreak` with another text puts that text into the
    output of a broken group. -/
theorem ifbreak_only_separator_needs_side_condition :
    ¬ (∀ (o : Opts) (d : Doc), NlWs o → CommaIns (nonws (leaves d)) (nonws (render o d).text)) := by
  intro h
  have hn : NlWs { maxWidth := 80, indentWidth := 4, newline := ['\n'], strip := true } := by
    intro c hc; simp at hc; subst hc; decide
  have := (h { maxWidth := 80, indentWidth := 4, newline := ['\n'], strip := true } (.ifBreak [';']) hn).filter_eq
  have hr : (render { maxWidth := 80, indentWidth := 4, newline := ['\n'], strip := true } (.ifBreak [';'])).text
      = [';'] := by
    simp [render, renderState, initFrame, renderFrames_cons, renderFrames_nil, stepFrame, flushPendingWith,
      writeFlat, St.out, stripTrailingWhitespace, stripGo, trimEndR, isTrailWs]
  rw [hr] at this
  simp [leaves, nonws, isWs] at this

end VerylModel.Props.C09
