import VerylModel.Lemmas.Random
import VerylModel.Gen.Fnv
/-!
C32 — test results do not depend on scheduling; `$tb` random values are reproducible and in range.

"For a fixed seed, every native test's verdict and captured output from `veryl test` are the same
whatever the number of worker threads and whatever order the tests are dispatched in. $tb random
values are reproducible for a given seed and handle name, and every range draw lies within its
requested bounds for every width and signedness."
-/
namespace VerylModel.Props.C32
open VerylModel.Random VerylModel.Sched

/-- Contract of `rand`'s `random_range(lo..=hi)` on `u64`: it is only ever called with `lo ≤ hi`
(it panics otherwise) and then returns a value of the closed range. -/
def SamplerU (s : Nat → Nat → Nat) : Prop := ∀ lo hi, lo ≤ hi → lo ≤ s lo hi ∧ s lo hi ≤ hi
/-- The same contract on `i64`. -/
def SamplerI (s : Int → Int → Int) : Prop := ∀ lo hi, lo ≤ hi → lo ≤ s lo hi ∧ s lo hi ≤ hi

/-- The sampler is always asked a non-empty range (`random_range` never panics in `get_range`). -/
theorem range_call_wellformed (mn mx width : Nat) (signed : Bool) :
    (rangeBounds mn mx width signed).1 ≤ (rangeBounds mn mx width signed).2 := by
  unfold rangeBounds
  cases signed
  · have := (order_nat (mn &&& mask width) (mx &&& mask width)).1
    simp only [Bool.false_eq_true, if_false]
    exact Int.ofNat_le.mpr this
  · simp only [if_true]
    exact (order_int _ _).1

/-- Every range draw lies within its requested bounds, for every width 0..64, both signednesses,
every `min`/`max` payload (any bits above `width` are ignored, as the code masks them) and every
sampler honouring its contract: the returned payload fits in `width` bits and, read at
`(width, signed)`, lies between the two bounds read the same way — `[min, max]` when `min ≤ max`,
and `[max, min]` when the caller passed them reversed (the code swaps). -/
theorem range_in_bounds (sU : Nat → Nat → Nat) (sI : Int → Int → Int) (hU : SamplerU sU) (hI : SamplerI sI)
    (mn mx width : Nat) (signed : Bool) (hw : width ≤ 64) :
    let r := getRange sU sI mn mx width signed
    let a := interp mn width signed
    let b := interp mx width signed
    r < 2 ^ width ∧
    (a ≤ b → a ≤ interp r width signed ∧ interp r width signed ≤ b) ∧
    (b ≤ a → b ≤ interp r width signed ∧ interp r width signed ≤ a) := by
  intro r a b
  cases signed with
  | false =>
    have hr : r = sU (order (fun x y => decide (x ≤ y)) (mn % 2 ^ width) (mx % 2 ^ width)).1
        (order (fun x y => decide (x ≤ y)) (mn % 2 ^ width) (mx % 2 ^ width)).2 := by
      show getRange sU sI mn mx width false = _
      simp only [getRange, and_mask _ _ hw, Bool.false_eq_true, if_false]
    obtain ⟨hle, hcases⟩ := order_nat (mn % 2 ^ width) (mx % 2 ^ width)
    have hs := hU _ _ hle
    rw [← hr] at hs
    have ha : a = ((mn % 2 ^ width : Nat) : Int) := interp_unsigned _ _
    have hb : b = ((mx % 2 ^ width : Nat) : Int) := interp_unsigned _ _
    have hmn : mn % 2 ^ width < 2 ^ width := Nat.mod_lt _ (Nat.two_pow_pos _)
    have hmx : mx % 2 ^ width < 2 ^ width := Nat.mod_lt _ (Nat.two_pow_pos _)
    have hrlt : r < 2 ^ width := by rcases hcases with ⟨h1, h2⟩ | ⟨h1, h2⟩ <;> omega
    have hir : interp r width false = (r : Int) := by
      rw [interp_unsigned, Nat.mod_eq_of_lt hrlt]
    rw [hir, ha, hb]
    refine ⟨hrlt, ?_, ?_⟩ <;> intro _ <;> rcases hcases with ⟨h1, h2⟩ | ⟨h1, h2⟩ <;> omega
  | true =>
    have hA : signExtend (mn &&& mask width) width = a := by
      rw [and_mask _ _ hw, signExtend_eq _ _ hw (Nat.mod_lt _ (Nat.two_pow_pos _)), interp_mod]
    have hB : signExtend (mx &&& mask width) width = b := by
      rw [and_mask _ _ hw, signExtend_eq _ _ hw (Nat.mod_lt _ (Nat.two_pow_pos _)), interp_mod]
    have hr : r = asU64 (sI (order (fun x y => decide (x ≤ y)) a b).1
        (order (fun x y => decide (x ≤ y)) a b).2) % 2 ^ width := by
      show getRange sU sI mn mx width true = _
      simp only [getRange, if_true]
      rw [hA, hB, and_mask _ _ hw]
    obtain ⟨hle, hcases⟩ := order_int a b
    have hs := hI _ _ hle
    generalize sI (order (fun x y => decide (x ≤ y)) a b).1 (order (fun x y => decide (x ≤ y)) a b).2 = s at *
    by_cases h0 : width = 0
    · subst h0
      have hr0 : r = 0 := by rw [hr]; simp [Nat.mod_one]
      have ha0 : a = 0 := by show interp mn 0 true = 0; simp [interp, Nat.mod_one]
      have hb0 : b = 0 := by show interp mx 0 true = 0; simp [interp, Nat.mod_one]
      have hi0 : interp r 0 true = 0 := by simp [interp, Nat.mod_one]
      rw [hi0, ha0, hb0, hr0]
      simp
    · have hpos : 0 < width := Nat.pos_of_ne_zero h0
      have hab := interp_signed_bounds mn width hpos
      have hbb := interp_signed_bounds mx width hpos
      have hslo : -((2 ^ (width - 1) : Nat) : Int) ≤ s := by
        rcases hcases with ⟨h1, h2⟩ | ⟨h1, h2⟩ <;> omega
      have hshi : s < ((2 ^ (width - 1) : Nat) : Int) := by
        rcases hcases with ⟨h1, h2⟩ | ⟨h1, h2⟩ <;> omega
      obtain ⟨hlt, hint⟩ := interp_of_int s width hpos hw hslo hshi
      rw [← hr] at hlt hint
      rw [hint]
      refine ⟨hlt, ?_, ?_⟩ <;> intro _ <;> rcases hcases with ⟨h1, h2⟩ | ⟨h1, h2⟩ <;> omega

/-- `get` returns a payload of the element width: uniform over `[0, 2^width)` is the sampler's
business, membership is ours. -/
theorem get_in_range (sU : Nat → Nat → Nat) (hU : SamplerU sU) (width : Nat) (hw : width ≤ 64) :
    Random.get sU width < 2 ^ width := by
  unfold Random.get
  rw [mask_eq width hw]
  have h1 := (hU 0 (2 ^ width - 1) (Nat.zero_le _)).2
  have h2 := Nat.two_pow_pos width
  omega

/-- Reproducibility: the seed of a handle is a function of `(base seed, handle name)` alone — a
`u64` computed by FNV-1a over `base.to_le_bytes() ++ name` with the constants and byte order found
in the source (regenerated on every run). -/
theorem derive_seed_fn :
    VerylModel.Gen.fnvOffsetDerive = 0xcbf29ce484222325 ∧ VerylModel.Gen.fnvPrimeDerive = 0x100000001b3 ∧
    VerylModel.Gen.fnvEatOrderDerive = [0, 1] ∧ VerylModel.Gen.fnvXorFirstDerive = 1 ∧
    (∀ base name, deriveSeed VerylModel.Gen.fnvOffsetDerive VerylModel.Gen.fnvPrimeDerive base name < two64) ∧
    (∀ base₁ base₂ name₁ name₂, base₁ = base₂ → name₁ = name₂ →
      deriveSeed VerylModel.Gen.fnvOffsetDerive VerylModel.Gen.fnvPrimeDerive base₁ name₁ =
      deriveSeed VerylModel.Gen.fnvOffsetDerive VerylModel.Gen.fnvPrimeDerive base₂ name₂) := by
  refine ⟨by decide, by decide, by decide, by decide, ?_, ?_⟩
  · intro base name
    exact eat_lt _ _ _ (eat_lt _ _ _ (by decide))
  · intro _ _ _ _ h1 h2; rw [h1, h2]

/-- Reproducibility of the stream: in any run after `reset(base)` — whatever draws on other
handles are interleaved, in whatever order — the values drawn on handle `name` are exactly those a
standalone generator seeded with `derive_seed(base, name)` produces for the same requests.  So they
depend on `(base seed, handle name, this handle's own requests)` only. -/
theorem stream_reproducible {γ ρ α : Type} (o p : Nat) (mk : Nat → γ) (draw : ρ → γ → γ × α)
    (base : Nat) (name : List Nat) (ops : List (List Nat × ρ)) :
    ((Table.run o p mk draw (Table.reset base) ops).filter (fun x => x.1 == name)).map (·.2) =
      drawAll draw (mk (deriveSeed o p base name)) ((ops.filter (fun x => x.1 == name)).map (·.2)) := by
  rw [run_stream]
  rfl

/-- The per-instance component seed uses the same scheme over `base ++ test_name ++ instance`;
being a hash of the *concatenation*, it does not separate the two names. -/
theorem instance_seed_fn :
    VerylModel.Gen.fnvOffsetInstance = 0xcbf29ce484222325 ∧ VerylModel.Gen.fnvPrimeInstance = 0x100000001b3 ∧
    VerylModel.Gen.fnvEatOrderInstance = [0, 2, 3] ∧ VerylModel.Gen.fnvXorFirstInstance = 1 ∧
    (∀ o p base test inst, instanceSeed o p base test inst = deriveSeed o p base (test ++ inst)) := by
  refine ⟨by decide, by decide, by decide, by decide, ?_⟩
  intro o p base test inst
  unfold instanceSeed deriveSeed
  rw [eat_append]

/-- Collected reports of a pool run = reports already tallied + one report per dispatched test. -/
theorem pool_reports {σ τ ρ : Type} (run : σ → τ → σ × ρ) (f : τ → ρ)
    (hf : ∀ s t, (run s t).2 = f t) (choice : Nat → Nat) :
    ∀ (d : List τ) (ws : List (Worker σ ρ)) (k : Nat), 0 < ws.length →
      List.Perm (collect (runPool run choice ws k d)) (collect ws ++ d.map f) := by
  intro d
  induction d with
  | nil => intro ws k _; simp [runPool]
  | cons t ts ih =>
    intro ws k hpos
    have hw : choice k % ws.length < ws.length := Nat.mod_lt _ hpos
    obtain ⟨s, hs⟩ := collect_stepPool run ws (choice k % ws.length) t hw
    have hlen : 0 < (stepPool run ws (choice k % ws.length) t).length := by
      rw [stepPool_length]; exact hpos
    have h1 := ih (stepPool run ws (choice k % ws.length) t) (k + 1) hlen
    rw [hf] at hs
    simp only [runPool, List.map_cons]
    exact h1.trans ((List.Perm.append_right _ hs).trans (by
      simp only [List.cons_append]
      exact List.perm_middle.symm))

/-- Scheduling invariance: if a test's report is a function `f seed test` of the seed and the
test (whatever thread-local state the worker carries over from earlier tests — the hypothesis
`hf`, discharged in the code by `random_table::reset`, `output_buffer::enable/take` and C34),
then two runs with any worker counts `n₁ n₂ ≥ 1`, any OS scheduling `choice₁ choice₂`, any initial
thread-local states and any two dispatch orders of the same tests produce the same multiset of
reports. -/
theorem schedule_invariant {σ τ ρ : Type} (run : σ → τ → σ × ρ) (f : τ → ρ)
    (hf : ∀ s t, (run s t).2 = f t)
    (n₁ n₂ : Nat) (h₁ : 0 < n₁) (h₂ : 0 < n₂) (init₁ init₂ : σ) (choice₁ choice₂ : Nat → Nat)
    (d₁ d₂ : List τ) (hperm : List.Perm d₁ d₂) :
    List.Perm (collect (runPool run choice₁ (spawn init₁ n₁) 0 d₁))
      (collect (runPool run choice₂ (spawn init₂ n₂) 0 d₂)) := by
  have hc : ∀ (init : σ) (n : Nat), collect (spawn (ρ := ρ) init n) = [] := by
    intro init n
    induction n with
    | zero => rfl
    | succ n ih => simpa [spawn, List.replicate, collect] using ih
  have e₁ := pool_reports run f hf choice₁ d₁ (spawn init₁ n₁) 0 (by simp [spawn]; exact h₁)
  have e₂ := pool_reports run f hf choice₂ d₂ (spawn init₂ n₂) 0 (by simp [spawn]; exact h₂)
  rw [hc] at e₁ e₂
  simp only [List.nil_append] at e₁ e₂
  have hm : List.Perm (d₁.map f) (d₂.map f) := hperm.map f
  exact e₁.trans (hm.trans e₂.symm)

/-- … and every test is reported exactly once, with the report `f test`. -/
theorem schedule_complete {σ τ ρ : Type} (run : σ → τ → σ × ρ) (f : τ → ρ)
    (hf : ∀ s t, (run s t).2 = f t) (n : Nat) (h : 0 < n) (init : σ) (choice : Nat → Nat) (d : List τ) :
    List.Perm (collect (runPool run choice (spawn init n) 0 d)) (d.map f) := by
  have := schedule_invariant run f hf n 1 h (by decide) init init choice (fun _ => 0) d d (List.Perm.refl _)
  refine this.trans ?_
  have e := pool_reports run f hf (fun _ => 0) d (spawn init 1) 0 (by simp [spawn])
  simpa [spawn, collect] using e

/- Non-vacuity. -/
example : SamplerU (fun lo _ => lo) := fun _ _ h => ⟨Nat.le_refl _, h⟩
example : SamplerI (fun _ hi => hi) := fun _ _ h => ⟨h, Int.le_refl _⟩
/-- A run function whose report ignores the thread-local state (here a counter of tests run). -/
example : ∀ (s : Nat) (t : Nat), ((fun s t => (s + 1, t * 2)) s t : Nat × Nat).2 = (fun t => t * 2) t :=
  fun _ _ => rfl
example : List.Perm [1, 2, 3] [3, 1, 2] := by decide
/-- signed 8-bit draw between -3 (0xfd) and 2 with the sampler returning its lower bound: 0xfd. -/
example : getRange (fun lo _ => lo) (fun lo _ => lo) 0xfd 2 8 true = 0xfd := by decide

end VerylModel.Props.C32
