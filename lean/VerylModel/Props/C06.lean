import VerylModel.Core.IdCodec
import VerylModel.Lemmas.IdCodec
/-!
C06 — restoring a cached fragment reproduces analyzer state.

Theorems about M-Codec (`Core/IdCodec.lean`): the window/rebase codec is an order- and
distance-preserving bijection of the window onto the reserved range (T1), refuses every id
outside the window (T2), keeps the sentinel (T3), dictionaries survive any decoder interning
state (T4), and `canon` (renumber ids by first occurrence) does not see injective renamings (T5),
which is the formal meaning of "same state up to fresh ids" used by the harness comparison.
-/
namespace VerylModel.Props.C06
open VerylModel.IdCodec

/-- T1. Every in-window id decodes to `b + (id − start)`. -/
theorem rebase_bijection (b : Nat) (w : IdWindow) (id : Nat) (hin : InWin w id) (hf : Fits b w) :
    roundtrip b w id = .ok (b + (id - w.start)) := by
  obtain ⟨h1, h2⟩ := hin
  unfold Fits at hf
  have e : w.encode id = .ok (id - w.start - 1) := by simp [IdWindow.encode, h1, h2]
  have h3 : id - w.start - 1 < w.stop - w.start := by omega
  have h4 : b + (id - w.start) < U64 := by omega
  have h5 : b + (id - w.start - 1) + 1 = b + (id - w.start) := by omega
  simp [roundtrip, e, rebaseOf, IdRebase.decode, h3, h4, h5]

/-- T1 (order and distance): the rebase is strictly monotone and keeps differences. -/
theorem rebase_order_distance (b : Nat) (w : IdWindow) (i j : Nat) (hi : InWin w i) (hj : InWin w j)
    (hf : Fits b w) :
    ∃ i' j', roundtrip b w i = .ok i' ∧ roundtrip b w j = .ok j' ∧
      (i' < j' ↔ i < j) ∧ (i' = j' ↔ i = j) ∧ (j' - i' = j - i) ∧ b < i' ∧ i' ≤ b + (w.stop - w.start) := by
  refine ⟨_, _, rebase_bijection b w i hi hf, rebase_bijection b w j hj hf, ?_⟩
  obtain ⟨a1, a2⟩ := hi
  obtain ⟨b1, b2⟩ := hj
  omega

/-- T1 (onto): every reserved id `b < n ≤ b + count` is the image of exactly one window id. -/
theorem rebase_onto (b : Nat) (w : IdWindow) (n : Nat) (hn : b < n ∧ n ≤ b + (w.stop - w.start))
    (hf : Fits b w) : ∃ id, InWin w id ∧ roundtrip b w id = .ok n := by
  refine ⟨w.start + (n - b), ⟨by omega, by omega⟩, ?_⟩
  rw [rebase_bijection b w _ ⟨by omega, by omega⟩ hf]
  congr 1
  omega

/-- T1 with the sentinel shift: real in-window Symbol/Definition ids behave identically. -/
theorem rebase_bijection_sentinel (b : Nat) (w : IdWindow) (id : Nat) (hin : InWin w id)
    (hf : Fits b w) (hid : id < U64) : roundtripS b w id = .ok (b + (id - w.start)) := by
  obtain ⟨h1, h2⟩ := hin
  unfold Fits at hf
  have h0 : id ≠ 0 := by omega
  have e : w.encode id = .ok (id - w.start - 1) := by simp [IdWindow.encode, h1, h2]
  have h6 : id - w.start - 1 + 1 < U64 := by omega
  have h7 : id - w.start - 1 + 1 ≠ 0 := by omega
  have h3 : id - w.start - 1 < w.stop - w.start := by omega
  have h4 : b + (id - w.start) < U64 := by omega
  have h5 : b + (id - w.start - 1) + 1 = b + (id - w.start) := by omega
  simp [roundtripS, encodeSentinel, h0, e, h6, decodeSentinel, rebaseOf, IdRebase.decode, h3, h4, h5]

/-- T2. Every id outside the window is refused by `IdWindow::encode`. -/
theorem out_of_window_refused (w : IdWindow) (id : Nat) (hout : ¬ InWin w id) :
    w.encode id = .err ∧ (id ≠ 0 → encodeSentinel w id = .err) := by
  have e : w.encode id = .err := by
    unfold InWin at hout
    simp only [IdWindow.encode]
    rw [if_neg hout]
  refine ⟨e, fun h0 => ?_⟩
  simp [encodeSentinel, h0, e]

/-- T2 (capture level): one out-of-window id anywhere in the payload and nothing is stored. -/
theorem capture_refused (w : IdWindow) (ids : List Nat) (id : Nat) (hmem : id ∈ ids)
    (hout : ¬ InWin w id) : encodeIds w.encode ids = none ∧
      (id ≠ 0 → encodeIds (encodeSentinel w) ids = none) := by
  induction ids with
  | nil => cases hmem
  | cons x rest ih =>
    rcases List.mem_cons.mp hmem with rfl | hmem
    · obtain ⟨e1, e2⟩ := out_of_window_refused w id hout
      exact ⟨by simp [encodeIds, e1], fun h0 => by simp [encodeIds, e2 h0]⟩
    · obtain ⟨i1, i2⟩ := ih hmem
      refine ⟨?_, fun h0 => ?_⟩
      · simp only [encodeIds]; split <;> simp [i1]
      · simp only [encodeIds]; split <;> simp [i2 h0]

/-- T3. The sentinel: `0 ↦ 0` (wire and decoded, for any window, even an empty one), no real id
    encodes to wire value 0, and no real id decodes to 0. -/
theorem sentinel (b : Nat) (w : IdWindow) :
    encodeSentinel w 0 = .ok 0 ∧ roundtripS b w 0 = .ok 0 ∧
      (∀ id, id ≠ 0 → encodeSentinel w id ≠ .ok 0) ∧
      (∀ id, id ≠ 0 → roundtripS b w id ≠ .ok 0) ∧
      (∀ r : IdRebase, ∀ v, v ≠ 0 → decodeSentinel r v ≠ .ok 0) := by
  have hdec : ∀ r : IdRebase, ∀ v, v ≠ 0 → decodeSentinel r v ≠ .ok 0 := by
    intro r v hv
    simp only [decodeSentinel, hv, if_false, IdRebase.decode]
    split
    · split
      · intro h; cases h
      · intro h; cases h
    · intro h; cases h
  have henc : ∀ id, id ≠ 0 → encodeSentinel w id ≠ .ok 0 := by
    intro id h0
    simp only [encodeSentinel, h0, if_false]
    split
    · split
      · intro h; cases h
      · intro h; cases h
    · next r hr =>
      intro h
      exact hr 0 h
  refine ⟨by simp [encodeSentinel], by simp [roundtripS, encodeSentinel, decodeSentinel], henc, ?_, hdec⟩
  intro id h0
  simp only [roundtripS]
  split
  · next v hv =>
    have : v ≠ 0 := fun h => henc id h0 (h ▸ hv)
    exact hdec _ v this
  · next r hr =>
    intro h
    exact hr 0 h

/-- T4. Interned ids survive: for ANY (well-formed) interning state `dec` of the decoding
    process, every encoded StrId/PathId decodes to an id that names the same value there
    (the id `insert_str(value)` returns), and ids already interned by the decoder are untouched. -/
theorem dict_roundtrip {α : Type} [DecidableEq α] (enc dec : Table α) (hdec : dec.WF)
    (ids : List Nat) (s : EncSession α) (ls : List Nat)
    (h : encodeAll enc EncSession.empty ids = some (s, ls)) :
    ls.length = ids.length ∧
    (∀ j (hj : j < ids.length), ∃ l id' v, ls[j]? = some l ∧
        decodeDict (internAll dec s.dict).2 l = some id' ∧
        enc.getValue ids[j] = some v ∧
        (internAll dec s.dict).1.getValue id' = some v ∧
        (internAll dec s.dict).1.getId v = some id') ∧
    (internAll dec s.dict).1.WF ∧
    (∀ v id, dec.getId v = some id → (internAll dec s.dict).1.getId v = some id) := by
  have hinv0 : (EncSession.empty : EncSession α).Inv enc := by
    intro e he; cases he
  obtain ⟨_, _, hlen, hall⟩ := encodeAll_spec enc ids EncSession.empty s ls hinv0 h
  obtain ⟨hwf, hsub, hlen2, hint⟩ := internAll_spec s.dict dec hdec
  have getId_of_mem : ∀ (v : α) (i : Nat), (v, i) ∈ (internAll dec s.dict).1.entries →
      (internAll dec s.dict).1.getId v = some i := by
    intro v i hm
    cases hg : (internAll dec s.dict).1.getId v with
    | none => exact absurd rfl (getId_none_not_mem hg _ hm)
    | some i' =>
      have hm' := getId_some_mem hg
      -- two entries with the same value in a pairwise-distinct list are the same entry
      have : ∀ (es : List (α × Nat)), es.Pairwise (fun a b => a.1 ≠ b.1 ∧ a.2 ≠ b.2) →
          (v, i) ∈ es → (v, i') ∈ es → i' = i := by
        intro es hp h1 h2
        induction es with
        | nil => cases h1
        | cons e rest ih =>
          rw [List.pairwise_cons] at hp
          rcases List.mem_cons.mp h1 with e1 | m1 <;> rcases List.mem_cons.mp h2 with e2 | m2
          · rw [← e1] at e2; cases e2; rfl
          · exact absurd (by rw [← e1]) (hp.1 _ m2).1
          · exact absurd (by rw [← e2]) (hp.1 _ m1).1
          · exact ih hp.2 m1 m2
      rw [this _ hwf.2 hm hm']
  refine ⟨hlen, ?_, hwf, ?_⟩
  · intro j hj
    obtain ⟨l, v, h1, h2, h3⟩ := hall j hj
    have hl : l < s.dict.length := by
      rcases Nat.lt_or_ge l s.dict.length with h | h
      · exact h
      · rw [List.getElem?_eq_none h] at h2; cases h2
    obtain ⟨id', h4, h5⟩ := hint l hl
    have hv : s.dict[l] = v := by
      rw [List.getElem?_eq_getElem hl] at h2; cases h2; rfl
    rw [hv] at h5
    exact ⟨l, id', v, h1, h4, h3, getValue_of_mem hwf.2 h5, getId_of_mem v id' h5⟩
  · intro v id hg
    exact getId_of_mem v id (hsub _ (getId_some_mem hg))

/-- T5. `canon` does not see a renaming that is injective on the ids that occur. -/
theorem canon_invariant_on {α : Type} (σ : Nat → Nat → Nat) (t : List (Tok α))
    (hinj : ∀ k v v', (k, v) ∈ idsOf t → (k, v') ∈ idsOf t → σ k v = σ k v' → v = v') :
    canon (rename σ t) = canon t := by
  have := canonAux_rename σ t [] (by
    intro a b ha hb hk h
    obtain ⟨ka, va⟩ := a
    obtain ⟨kb, vb⟩ := b
    simp only at hk
    subst hk
    simp only [List.map_nil, List.not_mem_nil, false_or] at ha hb
    exact hinj ka va vb ha hb h)
  simpa [canon] using this

/-- T5 (as stated): any per-kind injective renaming. -/
theorem canon_invariant {α : Type} (σ : Nat → Nat → Nat) (hinj : ∀ k v v', σ k v = σ k v' → v = v')
    (t : List (Tok α)) : canon (rename σ t) = canon t :=
  canon_invariant_on σ t (fun k v v' _ _ h => hinj k v v' h)

/-- T5 (converse direction, what the harness relies on when two canonical dumps agree): every dump
    is an injective renaming of its canonical form.  Hence `canon t₁ = canon t₂` means `t₁` and `t₂`
    are both injective renamings of one and the same dump — "same state up to fresh ids". -/
theorem canon_sound {α : Type} (t : List (Tok α)) :
    ∃ τ : Nat → Nat → Nat, rename τ (canon t) = t ∧
      ∀ k n n', (k, n) ∈ idsOf (canon t) → (k, n') ∈ idsOf (canon t) → τ k n = τ k n' → n = n' := by
  have hwf : WFSeen [] := ⟨List.Pairwise.nil, fun _ h => by cases h⟩
  obtain ⟨h1, h2⟩ := canonAux_sound t [] hwf
  obtain ⟨hw, _⟩ := canonSeen_spec t [] hwf
  refine ⟨seenInv (canonSeen [] t), h1, ?_⟩
  intro k n n' hn hn' heq
  obtain ⟨v, hv⟩ := h2 k n hn
  obtain ⟨v', hv'⟩ := h2 k n' hn'
  rw [seenInv_of_mem hw hv, seenInv_of_mem hw hv'] at heq
  subst heq
  exact hw.key_unique hv hv'

/-- T5 both ways: equal canonical forms ⇔ injective renamings of a common dump. -/
theorem canon_eq_iff {α : Type} (t₁ t₂ : List (Tok α)) :
    canon t₁ = canon t₂ ↔
      ∃ (c : List (Tok α)) (τ₁ τ₂ : Nat → Nat → Nat),
        (∀ k n n', (k, n) ∈ idsOf c → (k, n') ∈ idsOf c → τ₁ k n = τ₁ k n' → n = n') ∧
        (∀ k n n', (k, n) ∈ idsOf c → (k, n') ∈ idsOf c → τ₂ k n = τ₂ k n' → n = n') ∧
        rename τ₁ c = t₁ ∧ rename τ₂ c = t₂ := by
  constructor
  · intro h
    obtain ⟨τ₁, r1, i1⟩ := canon_sound t₁
    obtain ⟨τ₂, r2, i2⟩ := canon_sound t₂
    exact ⟨canon t₁, τ₁, τ₂, i1, by rw [h]; exact i2, r1, by rw [h]; exact r2⟩
  · rintro ⟨c, τ₁, τ₂, i1, i2, rfl, rfl⟩
    rw [canon_invariant_on τ₁ c i1, canon_invariant_on τ₂ c i2]

/-- T1 + T5: a dump whose ids all lie in their kind's window (or are the sentinel) has the same
    `canon` after capture → restore at ANY base: the rebase is one of the renamings of T5. -/
theorem canon_rebase {α : Type} (win : Nat → IdWindow) (base : Nat → Nat) (t : List (Tok α))
    (hin : ∀ k v, (k, v) ∈ idsOf t → v = 0 ∨ InWin (win k) v) :
    canon (rename (fun k v => if v = 0 then 0 else base k + (v - (win k).start)) t) = canon t := by
  apply canon_invariant_on
  intro k v v' hv hv' h
  rcases hin k v hv with h0 | ⟨a1, _⟩ <;> rcases hin k v' hv' with h0' | ⟨b1, _⟩
  · rw [h0, h0']
  · have : v' ≠ 0 := by omega
    simp only [h0, this, if_true, if_false] at h; omega
  · have : v ≠ 0 := by omega
    simp only [h0', this, if_true, if_false] at h; omega
  · have n1 : v ≠ 0 := by omega
    have n2 : v' ≠ 0 := by omega
    simp only [n1, n2, if_false] at h; omega

/-! Non-vacuity: concrete instances of the hypotheses. -/

example : InWin ⟨10, 20⟩ 15 ∧ Fits 100 ⟨10, 20⟩ := by decide
example : roundtripS 100 ⟨10, 20⟩ 15 = .ok 105 := by decide
example : roundtrip 100 ⟨10, 20⟩ 11 = .ok 101 ∧ roundtrip 100 ⟨10, 20⟩ 20 = .ok 110 := by decide
example : ¬ InWin ⟨10, 20⟩ 10 ∧ ¬ InWin ⟨10, 20⟩ 21 ∧ (⟨10, 20⟩ : IdWindow).encode 10 = .err := by decide
example : (Table.empty : Table Nat).WF := ⟨fun _ h => (by cases h), List.Pairwise.nil⟩
example : encodeAll (⟨[(7, 0), (9, 1), (4, 2)], 3⟩ : Table Nat) EncSession.empty [2, 0, 2] =
    some (⟨[(0, 1), (2, 0)], [4, 7]⟩, [0, 1, 0]) := by decide
example : canon [Tok.id 0 7, Tok.lit 1, Tok.id 0 9, Tok.id 1 7, Tok.id 0 7] =
    [Tok.id 0 0, Tok.lit 1, Tok.id 0 1, Tok.id 1 2, Tok.id 0 0] := by decide
/-- The hypothesis of T5 is needed: a non-injective renaming is visible. -/
example : canon (rename (fun _ _ => 5) ([Tok.id 0 1, Tok.id 0 2] : List (Tok Nat))) ≠ canon [Tok.id 0 1, Tok.id 0 2] := by
  decide

end VerylModel.Props.C06
