import VerylModel.Lemmas.AssignUncovered
import VerylModel.Lemmas.AssignUnassigned
import VerylModel.Lemmas.AssignPartial
import VerylModel.Lemmas.AssignBits
/-!
C15 — driver, latch and read-before-assign checks are exact.

About `Core/AssignTable.lean` (the mask algebra and the walk exactly as coded, followed per variable):

* `multi_assign_exact`          `multiple_assignment` is reported for `v` **iff** two different
                                declarations both write some bit of `v` at a constant position, or one
                                writes a region at a dynamic position that the other writes into;
* `uncovered_local_exact`, `uncovered_local_exact_case`
                                at one `if` / `case`, the diagnostic raised by that construct **iff** some
                                bit, not written before it, is written in some but not all branches;
* `uncovered_complete`          no diagnostic ⇒ every path through the block writes the same bits
                                (no false negative, any nesting depth);
* `C15_later_write_false_positive`, `C15_exhaustive_case_false_positive`
                                the converse is FALSE of the code: `if c {a = 1;} a = 0;` and an exhaustive
                                `case` without default are reported although every path assigns `a`;
* `uncovered_exact_partial`     on blocks in which no write to `v` follows a branching statement that writes
                                `v` (and no `case` is declared exhaustive) the diagnostic is exact:
                                reported **iff** two paths write different bits;
* `unassigned_exact`            the module-level rule, bit by bit (incl. the "partially driven, dead bits
                                unread" exemption); `unassigned_read_bit_reported`,
                                `unassigned_reported_has_unassigned_bit` relate it to the property's wording;
* `C15_unread_unassigned_reported`, `C15_condition_read_not_counted`,
  `C15_instance_input_read_not_counted`   where the wording and the code part;
* `read_before_assign_sound`    a read-before-assign report on a straight-line block is genuine;
* `C15_read_before_assign_false_negative`   `a[0] = 0; b = a; a[1:0] = 3;` is not reported.
-/
namespace VerylModel.Props.C15
open VerylModel.AssignTable

/-! ### Multiple assignment -/

/-- The detector (fold of `merge_by_or_from` over the declarations) equals the pairwise
reference on per-declaration write summaries. -/
theorem multi_eq_reference (info : VarInfo) (v : Nat) (procs : List Proc) :
    (verdict info v procs).multi = refMulti v procs := by
  simp only [verdict, moduleFold]
  rw [moduleFold_multi info.always v procs {} Entry.Wf.zero]
  have : procs.any (fun q => c3 ({} : MSt).x.m3 (S v q)) = false := by
    apply List.any_eq_false.mpr
    intro q _
    show ¬ c3 (0, 0, 0) (S v q) = true
    rw [c3_zero_left]; simp
  rw [this]
  rfl

/-- T1. `multiple_assignment` is reported for `v` exactly when two different declarations
(always_ff, always_comb, assign, instance outputs — any number of them, any statement nesting)
conflict on `v`: some bit both write at constant positions, or a bit inside a region one of them
writes at a non-constant position that the other also writes. -/
theorem multi_assign_exact (info : VarInfo) (v : Nat) (procs : List Proc) :
    (verdict info v procs).multi = true ↔
      ∃ l₁ p l₂ q l₃, procs = l₁ ++ p :: (l₂ ++ q :: l₃) ∧
        ∃ i, (constBit v p i ∧ constBit v q i) ∨ (dynBit v p i ∧ anyBit v q i) ∨ (dynBit v q i ∧ anyBit v p i) := by
  rw [multi_eq_reference, refMulti_iff]
  constructor
  · rintro ⟨l₁, p, l₂, q, l₃, h, hc⟩; exact ⟨l₁, p, l₂, q, l₃, h, (procConflict_iff v p q).mp hc⟩
  · rintro ⟨l₁, p, l₂, q, l₃, h, hc⟩; exact ⟨l₁, p, l₂, q, l₃, h, (procConflict_iff v p q).mpr hc⟩

example : (verdict { width := 8, kind := .variable } 0
    [.comb (.cons (.assign [] { dst := 0, mask := 0x0f, dyn := false }) .nil),
     .inst [(0, 0x18)] []]).multi = true := by decide

/-! ### Uncovered branch -/

/-- T2 (`if`). The diagnostic raised by this very `if` (the rest of the flag is what the two
branches raise inside) holds **iff** we are in always_comb, the variable is not block-local, and
some bit not written before the `if` (in this block or an enclosing one) is written somewhere in
one branch and nowhere in the other. -/
theorem uncovered_local_exact (cx : Cx) (v base : Nat) (st : St) (c : List (Nat × Nat)) (thn els : Block) :
    (evalStmt cx v base st (.ifs c thn els)).unc = true ↔
      (evalBlock cx v (base ||| st.e.mask)
        { (evalBlock cx v (base ||| st.e.mask) { st with e := {} } thn) with e := {} } els).unc = true ∨
      (cx.comb = true ∧ cx.always = false ∧ ∃ i, (base ||| st.e.mask).testBit i = false ∧
        (mayMask (writesBlock v thn)).testBit i ≠ (mayMask (writesBlock v els)).testBit i) := by
  simp only [evalStmt, Bool.or_eq_true, Bool.and_eq_true, Bool.not_eq_true']
  rw [mask_block, mask_block, uncovered2_iff]
  simp only [Nat.zero_or]
  constructor
  · rintro (h | ⟨⟨h1, h2⟩, h3⟩)
    · exact Or.inl h
    · exact Or.inr ⟨h1, h2, h3⟩
  · rintro (h | ⟨h1, h2, h3⟩)
    · exact Or.inl h
    · exact Or.inr ⟨⟨h1, h2⟩, h3⟩

/-- T2 (`case`, n-way, default included as the code does). -/
theorem uncovered_local_exact_case (ms : List Nat) (base : Nat) :
    uncoveredN ms base = true ↔
      2 ≤ ms.length ∧ ∃ i, base.testBit i = false ∧ ∃ x ∈ ms, ∃ y ∈ ms, x.testBit i ≠ y.testBit i :=
  uncoveredN_iff

/-- T3 (no false negative). If an always_comb block raises no `uncovered_branch` for `v`, then
every execution path through it writes exactly the same bits of `v` — the bits the block may
write at all. Any nesting of if / else-if / switch / case, any part-selects. -/
theorem uncovered_complete (v : Nat) (body : Block)
    (h : (procEval false v (.comb body)).unc = false) :
    ∀ p ∈ pathsBlock v body, p = mayMask (writesBlock v body) := by
  have := (cov_block { comb := true, always := false } rfl rfl v 0 body {} h).2
  intro p hp
  simpa [show ({} : St).e.mask = 0 from rfl] using this p hp

theorem uncovered_complete' (v : Nat) (body : Block) (h : refUncovered v body = true) :
    (procEval false v (.comb body)).unc = true := by
  cases hu : (procEval false v (.comb body)).unc
  · have hall := uncovered_complete v body hu
    simp only [refUncovered, List.any_eq_true, decide_eq_true_eq] at h
    obtain ⟨p, hp, q, hq, hne⟩ := h
    exact absurd ((hall p hp).trans (hall q hq).symm) hne
  · rfl

/-- T3 (false positive, DESIGN §5 #9). `always_comb { if c { a = 1; } a = 0; }`: the `if` is
checked against what was written *before* it only, so the later unconditional write does not
count. Reported, although both paths write the same bit. -/
theorem C15_later_write_false_positive :
    let body : Block := .cons (.ifs [] (.cons (.assign [] { dst := 0, mask := 1, dyn := false }) .nil) .nil)
      (.cons (.assign [] { dst := 0, mask := 1, dyn := false }) .nil)
    (verdict { width := 1, kind := .variable } 0 [.comb body]).uncovered = true ∧
      refUncovered 0 body = false := by
  decide

/-- A `case` whose arms are exhaustive and which has no `default` is compared with an (empty)
default branch all the same: `case s { 1'b0: a = 0; 1'b1: a = 1; }` is reported. -/
theorem C15_exhaustive_case_false_positive :
    let body : Block := .cons (.case [] (.cons (.cons (.assign [] { dst := 0, mask := 1, dyn := false }) .nil)
      (.cons (.cons (.assign [] { dst := 0, mask := 1, dyn := false }) .nil) .nil)) .nil true) .nil
    (verdict { width := 1, kind := .variable } 0 [.comb body]).uncovered = true ∧
      refUncovered 0 body = false := by
  decide

/-- T3 (what does hold both ways). On blocks where, at every nesting level, a branching
statement that writes `v` is followed by no further write to `v`, and no `case` is declared
exhaustive (`nlwBlock`), the diagnostic is exact: reported **iff** two execution paths write
different bit sets of `v`. -/
theorem uncovered_exact_partial (v : Nat) (body : Block) (hn : nlwBlock v body = true) :
    (procEval false v (.comb body)).unc = true ↔ refUncovered v body = true := by
  constructor
  · intro h
    rcases part_block { comb := true, always := false } v 0 body {} hn h with h | h
    · cases h
    · obtain ⟨p, hp, q, hq, i, _, hne⟩ := h
      simp only [refUncovered, List.any_eq_true, decide_eq_true_eq]
      exact ⟨p, hp, q, hq, fun heq => hne (by rw [heq])⟩
  · exact uncovered_complete' v body

example : nlwBlock 0 (.cons (.assign [] { dst := 0, mask := 0xff, dyn := false })
    (.cons (.ifs [] (.cons (.assign [] { dst := 0, mask := 1, dyn := false }) .nil) .nil) .nil)) = true := by
  decide

/-! ### Unassigned variable -/

/-- T4. The module-level rule, bit by bit: `v` is reported unassigned **iff** it is not an input,
some bit inside its width is assigned by no declaration, and — nothing of it is assigned at all,
or it is an output, or some such unassigned bit is among the *recorded* reads (reads in assignment
right-hand sides with constant selects). -/
theorem unassigned_exact (info : VarInfo) (v : Nat) (procs : List Proc) :
    (verdict info v procs).unassigned = true ↔
      info.kind ≠ VarKind.input ∧
      (∃ i, i < info.width ∧ (assignedBy v procs).testBit i = false) ∧
      (assignedBy v procs = 0 ∨ info.kind = VarKind.output ∨
        ∃ i, i < info.width ∧ (recordedReads v procs).testBit i = true ∧ (assignedBy v procs).testBit i = false) := by
  rw [verdict_unassigned_eq, unassignedRule_iff]

/-- Every report names a variable with a bit no declaration assigns. -/
theorem unassigned_reported_has_unassigned_bit (info : VarInfo) (v : Nat) (procs : List Proc)
    (h : (verdict info v procs).unassigned = true) :
    ∃ i, i < info.width ∧ ¬ ∃ p ∈ procs, anyBit v p i := by
  obtain ⟨_, ⟨i, hw, hi⟩, _⟩ := (unassigned_exact info v procs).mp h
  refine ⟨i, hw, ?_⟩
  rw [← assignedBy_bit, hi]; simp

/-- A (recorded) read of a bit that no declaration assigns is always reported. -/
theorem unassigned_read_bit_reported (info : VarInfo) (v : Nat) (procs : List Proc)
    (hk : info.kind ≠ VarKind.input) (i : Nat) (hw : i < info.width)
    (hr : (recordedReads v procs).testBit i = true) (ha : ¬ ∃ p ∈ procs, anyBit v p i) :
    (verdict info v procs).unassigned = true := by
  have hi : (assignedBy v procs).testBit i = false := by
    cases h : (assignedBy v procs).testBit i
    · rfl
    · exact absurd ((assignedBy_bit v procs i).mp h) ha
  exact (unassigned_exact info v procs).mpr ⟨hk, ⟨i, hw, hi⟩, Or.inr (Or.inr ⟨i, hw, hr, hi⟩)⟩

example : (recordedReads 0 [.comb (.cons (.assign [(0, 0x80)] { dst := 1, mask := 1, dyn := false }) .nil)]).testBit 7 = true := by
  decide

/-- The property's wording ("a bit that some logic reads is never assigned") and the code part
in three places. (1) A variable nobody reads and nobody assigns is reported. -/
theorem C15_unread_unassigned_reported :
    (verdict { width := 8, kind := .variable } 0 []).unassigned = true ∧
      refUnassigned { width := 8, kind := .variable } 0 [] = false := by
  decide

/-- (2) A read in an `if` condition (or `case` target) is not recorded: `var a: logic<8>;
assign a[3:0] = i; always_comb { if a[7] { o = 1; } else { o = 0; } }` reads the never-assigned
`a[7]` and is not reported (v0 = a, v1 = o). -/
theorem C15_condition_read_not_counted :
    let procs : List Proc :=
      [.comb (.cons (.assign [] { dst := 0, mask := 0x0f, dyn := false }) .nil),
       .comb (.cons (.ifs [(0, 0x80)] (.cons (.assign [] { dst := 1, mask := 1, dyn := false }) .nil)
         (.cons (.assign [] { dst := 1, mask := 1, dyn := false }) .nil)) .nil)]
    (verdict { width := 8, kind := .variable } 0 procs).unassigned = false ∧
      refUnassigned { width := 8, kind := .variable } 0 procs = true := by
  decide

/-- (3) Nor is a read by an instance input: `assign a[3:0] = i; inst u: Sub (x: a, …);`. -/
theorem C15_instance_input_read_not_counted :
    let procs : List Proc :=
      [.comb (.cons (.assign [] { dst := 0, mask := 0x0f, dyn := false }) .nil), .inst [] [(0, 0xff)]]
    (verdict { width := 8, kind := .variable } 0 procs).unassigned = false ∧
      refUnassigned { width := 8, kind := .variable } 0 procs = true := by
  decide

/-! ### Read before assignment -/

/-- T4'. On a straight-line always_comb block a read-before-assign report is genuine: some bit
was read while not yet assigned and is assigned, for the first time, by a later statement. -/
theorem read_before_assign_sound (v : Nat) (body : Block) (f : Bool)
    (href : rbaRef v 0 0 body = some f)
    (h : (procEval false v (.comb body)).rba = true) : f = true := by
  have hinv : RbaInv ({} : St).r 0 0 := ⟨rfl, fun i hi _ => by simp at hi⟩
  rcases rba_sound_aux { comb := true, always := false } v 0 body {} 0 0 f hinv href h with h | h
  · cases h
  · exact h

example : rbaRef 0 0 0 (.cons (.assign [(0, 3)] { dst := 1, mask := 1, dyn := false })
    (.cons (.assign [] { dst := 0, mask := 3, dyn := false }) .nil)) = some true := by decide

/-- The converse is false: `a[0] = 0; b = a; a[1:0] = 3;` reads `a[1]` before it is assigned, but
`check_refered` stays silent as soon as *one* of the read bits under the mask is already assigned
(`ref & mask & assign == 0` instead of `ref & mask & !assign != 0`). v0 = a, v1 = b. -/
theorem C15_read_before_assign_false_negative :
    let body : Block := .cons (.assign [] { dst := 0, mask := 1, dyn := false })
      (.cons (.assign [(0, 3)] { dst := 1, mask := 3, dyn := false })
      (.cons (.assign [] { dst := 0, mask := 3, dyn := false }) .nil))
    (verdict { width := 2, kind := .variable } 0 [.comb body]).readBefore = false ∧
      rbaRef 0 0 0 body = some true := by
  decide

end VerylModel.Props.C15
