import VerylModel.Lemmas.TokenPos
/-!
C12 — every token reports where it really is.

The lexer (parol/scnr2) is trusted for ordinary tokens and for the (line, column, pos) of a whole
comment run; what is modelled and proved here is what veryl itself computes from them:
`split_comment_token` (one token per comment of a run) and `Token::end_line/end_column`.

`split_positions_correct` is the full-strength statement about the code as it stands.
The `old_*` theorems document the two defects of `split_comment_token` before its repair
(`splitCommentTokenOld`): the full statement was false of it.
-/
namespace VerylModel.Props.C12
open VerylModel.TokenPos

/-- Full strength: for a comment run standing in a source `pre ++ run ++ post` and reported by the
lexer at its true (line, column) and byte offset, every produced token's text stands at the token's
`pos`, `length` is the byte length of that text, and (line, column) is the position of `pos`. -/
def SplitPositionsCorrect (split : Text → Nat → Nat → Nat → List Tok) : Prop :=
  ∀ (pre run post : Text) (bl bc : Nat),
    (bl, bc) = lineCol (pre ++ run ++ post) (utf8Len pre) →
    ∀ t ∈ split run bl bc (utf8Len pre),
      occursAt (pre ++ run ++ post) t.pos t.text = true ∧ t.len = utf8Len t.text ∧
      (t.line, t.col) = lineCol (pre ++ run ++ post) t.pos

/-- `split_comment_token` reports true positions: every run, every source, multi-byte text, CRLF,
several comments per line, comments spanning lines. -/
theorem split_positions_correct : SplitPositionsCorrect splitCommentToken := by
  intro pre run post bl bc hbase t ht
  obtain ⟨tr, htr⟩ := scanFuel_partition (run.length + 1) run
  have hg := splitLoop_good (fun _ => 1) stepCoded (mkPosCoded (utf8Len pre)) stepCoded_eq
    (bl, bc) run (scanComments run) [] [] tr (bl, bc) 0
    (by simpa [scanComments] using htr.symm) rfl rfl t ht
  obtain ⟨⟨Q, R, hrun, hoff, hlc, hlen⟩, hpos⟩ := hg
  have hsrc : pre ++ run ++ post = (pre ++ Q) ++ (t.text ++ (R ++ post)) := by simp [hrun]
  have hbase' : (bl, bc) = advanceAll (1, 1) pre := by
    rw [hbase, List.append_assoc]; exact lineCol_prefix pre (run ++ post)
  have hp : t.pos = utf8Len (pre ++ Q) := by rw [hpos, hoff, utf8Len_append]; rfl
  refine ⟨?_, hlen, ?_⟩
  · rw [hp, hsrc]; exact occursAt_append _ _ _
  · rw [hp, hsrc, lineCol_prefix, hlc, hbase']
    simp [advanceAll, advanceWAll_append]

/-- `Token::end_line`/`end_column`: one column past the reported end is where walking the token's
text from its start arrives. -/
theorem end_line_col_correct (text : Text) (line col : Nat) (hcol : 1 ≤ col) :
    (endLine text line, endColumn text col + 1) = advanceAll (line, col) text := by
  unfold advanceAll
  rw [advanceWAll_eq]
  unfold endLine endColumn
  by_cases h0 : countNl text = 0
  · simp [h0, lenW_one]; omega
  · have : countNl text > 0 := by omega
    simp [h0, this, lenW_one]

/-- … hence, for a token standing in a source at its true start, `(end_line, end_column + 1)` is
the true position of the first character after the token (multi-byte and multi-line included). -/
theorem end_line_col_in_source (pre text post : Text) (line col : Nat)
    (hstart : (line, col) = lineCol (pre ++ text ++ post) (utf8Len pre)) :
    (endLine text line, endColumn text col + 1) =
      lineCol (pre ++ text ++ post) (utf8Len pre + utf8Len text) := by
  have hbase : (line, col) = advanceAll (1, 1) pre := by
    rw [hstart, List.append_assoc]; exact lineCol_prefix pre (text ++ post)
  have hcol : 1 ≤ col := by
    have : col = (advanceAll (1, 1) pre).2 := by rw [← hbase]
    rw [this]; unfold advanceAll; rw [advanceWAll_eq]
    by_cases h0 : countNl pre = 0 <;> simp [h0]
  rw [end_line_col_correct text line col hcol, ← utf8Len_append, lineCol_prefix, hbase]
  simp [advanceAll, advanceWAll_append]

/-- Comment tokens of a run come out in source order and do not overlap: each ends at or before
the `pos` of the next, and `pos` strictly increases. -/
theorem source_order (run : Text) (bl bc base : Nat) :
    List.Pairwise (fun a b : Tok => a.pos + a.len ≤ b.pos ∧ a.pos < b.pos)
      (splitCommentToken run bl bc base) := by
  have hord := splitLoop_order stepCoded (mkPosCoded base) (scanComments run) [] (bl, bc) 0
  obtain ⟨tr, htr⟩ := scanFuel_partition (run.length + 1) run
  have hfacts : ∀ t ∈ splitCommentToken run bl bc base, t.pos = base + t.off ∧ 2 ≤ t.len := by
    intro t ht
    have hg := splitLoop_good (fun _ => 1) stepCoded (mkPosCoded base) stepCoded_eq (bl, bc) run
      (scanComments run) [] [] tr (bl, bc) 0 (by simpa [scanComments] using htr.symm) rfl rfl t ht
    obtain ⟨⟨Q, R, _, _, _, hlen⟩, hpos⟩ := hg
    obtain ⟨p, hp, hpt⟩ :=
      splitLoop_text_mem stepCoded (mkPosCoded base) (scanComments run) [] (bl, bc) 0 t ht
    have h2 := scanFuel_len2 _ _ p hp
    have h3 := length_le_utf8Len t.text
    refine ⟨hpos, ?_⟩
    rw [hlen]; rw [hpt] at h2; omega
  refine pairwise_imp_mem hord ?_
  intro a b ha hb hab
  have fa := hfacts a ha
  have fb := hfacts b hb
  omega

/-- The scanner cuts a run into consecutive pieces (gap, comment, gap, comment, …, rest): no text
between two matches is lost, and its fuel is sufficient. -/
theorem scan_partition (run : Text) (k : Nat) :
    (∃ tr, joinPairs (scanComments run) ++ tr = run) ∧
    scanFuel (run.length + 1 + k) run = scanComments run :=
  ⟨scanFuel_partition _ run, scanFuel_enough k run⟩

/-! ### Before the repair (documentation of the two defects, both fixed in /repo) -/

/-- `/* é */ /* b */⏎` -/
def witnessMultibyte : Text :=
  [47, 42, 32, 233, 32, 42, 47, 32, 47, 42, 32, 98, 32, 42, 47, 10]

/-- `/* a */⏎` -/
def witnessAscii : Text := [47, 42, 32, 97, 32, 42, 47, 10]

/-- `a ` -/
def witnessPre : Text := [97, 32]

/-- The old code never read the run's own `pos`. -/
def splitOld (run : Text) (line col _basePos : Nat) : List Tok := splitCommentTokenOld run line col

/-- The full-strength statement was false of the old code. -/
theorem old_split_positions_correct_false : ¬ SplitPositionsCorrect splitOld := by
  intro h
  have := h [] witnessMultibyte [] 1 1 (by decide)
  revert this
  decide

/-- Old defect 1 (`pos: pos as u32 + length`): pure ASCII, the comment `/* a */` after `a ` was
reported with `pos = 7` (offset inside the run 0 + length 7) while it stands at byte 2. -/
theorem old_split_pos_false :
    ¬ (∀ (pre run post : Text) (bl bc : Nat),
        (bl, bc) = lineCol (pre ++ run ++ post) (utf8Len pre) →
        ∀ t ∈ splitCommentTokenOld run bl bc, occursAt (pre ++ run ++ post) t.pos t.text = true) := by
  intro h
  have := h witnessPre witnessAscii [] 1 3 (by decide)
  revert this
  decide

/-- Old defect 2 (`column + prev_text.len()`): even judged at the TRUE offset of the comment, the
column was wrong after a multi-byte character on the same line (10 reported, 9 true). -/
theorem old_split_col_false :
    ¬ (∀ (pre run post : Text) (bl bc : Nat),
        (bl, bc) = lineCol (pre ++ run ++ post) (utf8Len pre) →
        ∀ t ∈ splitCommentTokenOld run bl bc,
          (t.line, t.col) = lineCol (pre ++ run ++ post) (utf8Len pre + t.off)) := by
  intro h
  have := h [] witnessMultibyte [] 1 1 (by decide)
  revert this
  decide

/-! Non-vacuity: concrete instances of the hypotheses. -/

example : ((1 : Nat), (3 : Nat)) = lineCol (witnessPre ++ witnessAscii ++ []) (utf8Len witnessPre) := by
  decide

/-- `/* é */ /* b */`: (1,1) pos 0 len 8 and (1,9) pos 9 len 7 (the old code said (1,10), pos 16). -/
example : (splitCommentToken witnessMultibyte 1 1 0).map (fun t => (t.line, t.col, t.pos, t.len)) =
    [(1, 1, 0, 8), (1, 9, 9, 7)] := by decide

example : (splitCommentTokenOld witnessMultibyte 1 1).map (fun t => (t.line, t.col, t.pos, t.len)) =
    [(1, 1, 8, 8), (1, 10, 16, 7)] := by decide

/-- `"é⏎日本"` reported at (3, 5): ends on line 4, column 2 (two characters on the last line). -/
example : (endLine [233, 10, 26085, 26412] 3, endColumn [233, 10, 26085, 26412] 5) = (4, 2) := by decide

example : (scanComments witnessMultibyte).map (fun p => (p.1.length, p.2.length)) = [(0, 7), (1, 7)] := by
  decide

end VerylModel.Props.C12
