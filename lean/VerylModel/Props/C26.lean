import VerylModel.Props.C28
import VerylModel.Lemmas.PrettyPos
import VerylModel.Core.Inside
/-!
C26 — presentation-only build options never change behaviour.

* `max_width`, `indent_width`, `newline_style`: they reach the output only through `RenderOpts`
  (`nonws_opts_invariant`, `newline_only`, from C28, instantiated for emitter documents: no `IfBreak` text);
  `vertical_align` and the wrap-isolation threshold derived from `max_width` change the `Doc` only in
  its pad nodes — checked on every real pair of Docs by `checks/c26.py` — and pads are whitespace.
* `strip_comments`: the emitter then builds the same `Doc` without `Comments` nodes (checked on the real
  Docs: M-Pretty applied to `stripComments realDoc` reproduces the real stripped output byte for byte);
  `strip_comments_removes_only_comments` says what that does to the text.
* `expand_inside_operation`: `inside_expanded_equiv`.
-/
namespace VerylModel.Props.C26
open VerylModel.Pretty VerylModel.Props VerylModel.Inside

/-- Decidable side condition, evaluated on every real emitter document: no `IfBreak` text node (the
    emitter's source has no `if_break(`) and blank `Line` separators. -/
def EmitDoc (d : Doc) : Prop := d.all noIfbNode = true ∧ d.all lineWsNode = true

theorem emitDoc_neutral (d : Doc) (h : EmitDoc d) : C28.LayoutNeutral d := by
  unfold C28.LayoutNeutral
  obtain ⟨h1, h2⟩ := h
  induction d using Doc.induct with
  | hconcat ds ih =>
    simp only [Doc.all, Bool.and_eq_true] at h1 h2 ⊢
    refine ⟨rfl, (Doc.allList_iff _ ds).mpr fun x hx => ?_⟩
    exact ih x hx ((Doc.allList_iff _ ds).mp h1.2 x hx) ((Doc.allList_iff _ ds).mp h2.2 x hx)
  | hindent off d ih =>
    simp only [Doc.all, Bool.and_eq_true] at h1 h2 ⊢
    exact ⟨rfl, ih h1.2 h2.2⟩
  | hgroup d ih =>
    simp only [Doc.all, Bool.and_eq_true] at h1 h2 ⊢
    exact ⟨rfl, ih h1.2 h2.2⟩
  | hff d ih =>
    simp only [Doc.all, Bool.and_eq_true] at h1 h2 ⊢
    exact ⟨rfl, ih h1.2 h2.2⟩
  | hleaf d hsz hnc =>
    cases d <;> simp [Doc.size] at hsz
    case concat ds => exact absurd rfl (hnc ds)
    case indent off d => have := Doc.size_pos d; omega
    case group d => have := Doc.size_pos d; omega
    case forceFlat d => have := Doc.size_pos d; omega
    case line sep => simpa [Doc.all, lineWsNode, layoutNeutralNode] using h2
    case ifBreak t => simp [Doc.all, noIfbNode] at h1
    all_goals simp [Doc.all, layoutNeutralNode]

/-- T1 `nonws_opts_invariant` for emitter documents: the non-whitespace stream of the emitted text does
    not depend on `max_width`, `indent_width` or the newline string. -/
theorem nonws_opts_invariant (d : Doc) (hd : EmitDoc d) (o o' : Opts) (h : NlWs o) (h' : NlWs o') :
    nonws (render o d).text = nonws (render o' d).text :=
  C28.nonws_opts_invariant d (emitDoc_neutral d hd) o o' h h'

/-- … and it is the document's leaves: pads, indentation, line breaks contribute whitespace only. -/
theorem output_is_leaves (d : Doc) (hd : EmitDoc d) (o : Opts) (h : NlWs o) :
    nonws (render o d).text = nonws (leaves d) := by
  obtain ⟨c, hc, he⟩ := C28.content_in_order o d h
  rw [he]
  exact content_leaves d (emitDoc_neutral d hd) .brk c hc

/-- T2 `newline_only` (= C28, the emitter does not strip): if no text of the document contains a newline,
    emitting with "\r\n" gives the "\n" output with exactly the line terminators replaced, and the same
    anchors (hence the same source map). -/
theorem newline_only (o : Opts) (d : Doc) (ho : o.newline = ['\n']) (hs : o.strip = false)
    (hd : d.all nlFreeNode = true) :
    (render { o with newline := ['\r', '\n'] } d).text = expandNl ['\r', '\n'] (render o d).text
    ∧ (render { o with newline := ['\r', '\n'] } d).anchors = (render o d).anchors := by
  have h := C28.newline_only o d ['\r', '\n'] ho ⟨'\n', ['\r'], rfl, by decide⟩ hd
  refine ⟨?_, h.2⟩
  rw [C28.render_text_unstripped _ d (by simpa using hs), C28.render_text_unstripped o d hs]
  exact h.1

/-- T3 `strip_comments_removes_only_comments`: for an emitter document `d`, the output of the document
    with its `Comments` nodes deleted consists (whitespace dropped) of the code leaves; the output of `d`
    itself consists of all leaves; and the leaves are the code leaves merged, in order, with the comment
    texts. So stripping deletes exactly the comments' characters and nothing else. -/
theorem strip_comments_removes_only_comments (d : Doc) (hd : EmitDoc d) (o o' : Opts) (h : NlWs o) (h' : NlWs o') :
    nonws (render o (stripComments d)).text = nonws (codeLeaves d)
    ∧ nonws (render o' d).text = nonws (leaves d)
    ∧ Merge (nonws (codeLeaves d)) (nonws (commentLeaves d)) (nonws (leaves d)) := by
  refine ⟨?_, output_is_leaves d hd o' h', (leaves_merge d).filter _⟩
  obtain ⟨c, hc, he⟩ := C28.content_in_order o (stripComments d) h
  rw [he]
  exact content_stripComments d (emitDoc_neutral d hd) .brk c hc

example : EmitDoc (.concat [.anchored ['a'] 1 1, .line [' '], .comments [⟨['/', '/', 'c'], 0, true, 1, 3⟩], .hardline]) := by
  unfold EmitDoc; decide

/-! ## `expand_inside_operation` -/

/-- One element: the range test and the expanded comparison agree — for an exclusive range `a..b`
    provided `0 < b < 2^w` (the emitter writes the upper bound as `(b)-1`). -/
theorem item_equiv (w x : Nat) (i : Item)
    (hb : ∀ a b, i = .range a b false → 0 < b ∧ b < 2 ^ w) : normalItem w x i = expandedItem x i := by
  cases i with
  | value c => rfl
  | range a b incl =>
    cases incl with
    | true => simp [normalItem, expandedItem]
    | false =>
      obtain ⟨h0, hw⟩ := hb a b rfl
      have : (b + 2 ^ w - 1) % 2 ^ w = b - 1 := by
        have : b + 2 ^ w - 1 = (b - 1) + 2 ^ w := by omega
        rw [this, Nat.add_mod_right, Nat.mod_eq_of_lt (by omega)]
      simp only [normalItem, expandedItem, this]
      congr 1
      exact decide_eq_decide.mpr (by omega)

theorem expanded_eq_any (x : Nat) (items : List Item) : expanded x items = items.any (expandedItem x) := by
  induction items with
  | nil => rfl
  | cons i is ih =>
    cases is with
    | nil => simp [expanded]
    | cons j js => simp only [expanded, List.any_cons] at ih ⊢; rw [ih]

/-- `inside_expanded_equiv`: `((x) inside {items})` and the `||` chain written under
    `expand_inside_operation` have the same value for every `x`, on 2-state `w`-bit values, provided every
    exclusive range `a..b` has `0 < b < 2^w`. -/
theorem inside_expanded_equiv (w x : Nat) (items : List Item)
    (hb : ∀ a b, Item.range a b false ∈ items → 0 < b ∧ b < 2 ^ w) :
    normal w x items = expanded x items := by
  rw [expanded_eq_any]
  unfold normal
  induction items with
  | nil => rfl
  | cons i is ih =>
    simp only [List.any_cons]
    rw [item_equiv w x i (fun a b h => hb a b (by simp [h])), ih (fun a b h => hb a b (by simp [h]))]

example : ∀ a b, Item.range a b false ∈ [Item.range 3 6 false, .value 9, .range 1 2 true] → 0 < b ∧ b < 2 ^ 8 := by
  intro a b h
  simp at h
  obtain ⟨rfl, rfl⟩ := h
  decide

/-- The side condition matters: for the empty exclusive range `0..0` the unexpanded text is
    `x inside {[0:(0)-1]}`, whose upper bound wraps to all ones — true for every `x` — while the expanded
    text `x >= 0 && x < 0` is false. (Under this model's reading of `(b)-1` as unsigned `w`-bit
    arithmetic; a degenerate range, recorded as an observation, not exercised by the testcases.) -/
theorem inside_expanded_equiv_false :
    ¬ (∀ (w x : Nat) (items : List Item), normal w x items = expanded x items) := by
  intro h
  have := h 8 5 [.range 0 0 false]
  simp [normal, expanded, normalItem, expandedItem] at this

end VerylModel.Props.C26
