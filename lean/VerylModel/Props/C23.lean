import VerylModel.Lemmas.Migrator
import VerylModel.Gen.MigratorConsts
/-!
C23 — migration yields valid current-syntax code.

What is proved is about the migrator's own logic (`push_token` text reconstruction, which tokens the
walker drops, when `cmd_migrate` migrates); that the old parser accepts exactly the previous grammar
and that the re-parsed text has a given token sequence is the differential's job (`hx migrate`).

T1 `content_only_spaces`   the output is the kept texts in order, separated by newlines/spaces only.
T2 `positions`             every kept token of every in-order token list lands at its original
                           (line, column) — multi-byte and multi-line texts included;
                           `separated_stay_separated`.
T3 `old_merge_witness`, `old_multiline_shift_witness`  the defect of the column tracking before its
                           repair (bytes; `column = 1` after a multi-line text), kept as documentation.
T4 `current_grammar_untouched`  as coded: a program the current parser accepts is not migrated.
-/
namespace VerylModel.Props.C23
open VerylModel.TokenPos VerylModel.Migrator

/-- T1. For every token list, newline string and column-update rule: the output consists of the
texts of the kept tokens and comments, in order, each preceded by newlines followed by spaces —
nothing else is written and nothing is lost except the tokens the walker does not visit. -/
theorem content_only_spaces (raw : Text) (toks : List MTok) :
    Interleaved (detectNl raw) ((walk toks).map (·.text)) (migrate raw toks) := by
  have := foldl_interleaved colAfterCoded (detectNl raw) (walk toks) initSt [] (by exact Interleaved.nil)
  simpa [migrate, migrateWith] using this

/-- The newline string is one of the two line endings. -/
theorem detectNl_ok (raw : Text) : NlOk (detectNl raw) := by
  unfold detectNl
  generalize (0 : Nat) = prev
  induction raw generalizing prev with
  | nil => left; rfl
  | cons c cs ih =>
    unfold detectNlFrom
    by_cases hc : c = 10
    · by_cases hp : prev = 13
      · right; simp [hc, hp]
      · left; simp [hc, hp]
    · simp only [hc, if_false]; exact ih c

/-- Tokens in source order: each starts at or after the end of the one before it. -/
def InOrder (xs : List MTok) : Prop :=
  List.Pairwise (fun x y : MTok => PosLE (advanceAll (x.line, x.col) x.text) (y.line, y.col)) xs

instance (xs : List MTok) : Decidable (InOrder xs) := by unfold InOrder; infer_instance

/-- T2. If the tokens (all of them, dropped ones included) are in source order with 1-based
positions, then every kept token stands in the output exactly at its original (line, column) —
whatever the texts are (multi-byte characters, line feeds inside comments). -/
theorem positions (raw : Text) (toks : List MTok)
    (hord : InOrder toks) (hpos : ∀ x ∈ toks, 1 ≤ x.line ∧ 1 ≤ x.col) :
    ∀ x ∈ walk toks, Lands (migrate raw toks) x := by
  have hsub : ∀ x ∈ walk toks, x ∈ toks := fun x hx => (List.mem_filter.mp hx).1
  have hord' : InOrder (walk toks) := List.Pairwise.filter _ hord
  have h := foldl_lands colAfterCoded (detectNl raw) (detectNl_ok raw) (walk toks) initSt
    (by simp [Sync, initSt, advanceAll, advanceWAll])
    (fun x hx => posLE_init x (hpos x (hsub x hx)).1 (hpos x (hsub x hx)).2)
    (fun x hx => (hpos x (hsub x hx)).2)
    (fun x _ => honest_coded x)
    hord'
  exact h.1

/-- T2, consequence: in sync, a token that starts strictly after the current position gets a
non-empty separator — tokens separated in the source stay separated. -/
theorem separated_stay_separated (nl : Text) (hnl : NlOk nl) (s : St) (x : MTok)
    (hgap : s.line < x.line ∨ (s.line = x.line ∧ s.col < x.col)) :
    pushSep nl s x ≠ [] := by
  unfold pushSep
  rcases hgap with h | h
  · have hn : newlinesOf s x = (x.line - s.line - 1) + 1 := by unfold newlinesOf; omega
    rw [hn]
    rcases hnl with hh | hh <;> subst hh <;> simp [repeatText]
  · have h0 : newlinesOf s x = 0 := by unfold newlinesOf; omega
    have hs : spacesOf s x = (x.col - s.col - 1) + 1 := by
      unfold spacesOf colReset; simp [h0]; omega
    rw [hs]
    simp [List.replicate_succ]

/-- `/* 日本語 */ if a {` on one line (columns in characters, as the old parser reports them). -/
def mergeWitness : List MTok :=
  [ { text := [47, 42, 32, 26085, 26412, 35486, 32, 42, 47], line := 1, col := 1, keep := true },
    { text := [105, 102], line := 1, col := 11, keep := true },
    { text := [97], line := 1, col := 14, keep := true },
    { text := [123], line := 1, col := 16, keep := true } ]

/-- T3 (before the repair). The witness is in source order with a space between all neighbours,
yet the OLD column tracking produced `/* 日本語 */ifa{`: `if` and `a` merged into one identifier.
The current code keeps them apart. -/
theorem old_merge_witness :
    InOrder mergeWitness ∧
    -- `if` ends at column 13, `a` starts at column 14: they are separated in the source
    (advanceAll (1, 11) [105, 102]).2 < 14 ∧
    migrateOld [10] mergeWitness = [47, 42, 32, 26085, 26412, 35486, 32, 42, 47, 105, 102, 97, 123] ∧
    migrate [10] mergeWitness =
      [47, 42, 32, 26085, 26412, 35486, 32, 42, 47, 32, 105, 102, 32, 97, 32, 123] := by
  refine ⟨by decide, by decide, by decide, by decide⟩

/-- Before the repair a token after a multi-line comment on the comment's last line did not land
at its column either (`column = 1` after a text with a line feed): `/* a⏎ b */ x` gave
`/* a⏎ b */      x`; now it is reproduced as it stands. -/
theorem old_multiline_shift_witness :
    migrateOld [10]
      [ { text := [47, 42, 32, 97, 10, 32, 98, 32, 42, 47], line := 1, col := 1, keep := true },
        { text := [120], line := 2, col := 7, keep := true } ] =
      [47, 42, 32, 97, 10, 32, 98, 32, 42, 47, 32, 32, 32, 32, 32, 32, 120] ∧
    migrate [10]
      [ { text := [47, 42, 32, 97, 10, 32, 98, 32, 42, 47], line := 1, col := 1, keep := true },
        { text := [120], line := 2, col := 7, keep := true } ] =
      [47, 42, 32, 97, 10, 32, 98, 32, 42, 47, 32, 120] := by decide

/-- The walker drops exactly the tokens flagged as the `for` index type annotation, keeping the
order of the rest. -/
theorem walk_drops_annotation (toks : List MTok) :
    walk toks = toks.filter (fun t => t.keep) ∧ (walk toks).Sublist toks :=
  ⟨rfl, List.filter_sublist⟩

/-- T4. As coded (`Migrator::migratable` is the constant extracted from migrator.rs): a program the
current parser accepts is not migrated, one it rejects is. -/
theorem current_grammar_untouched :
    shouldMigrate VerylModel.Gen.migratable true = false ∧
    shouldMigrate VerylModel.Gen.migratable false = true := by decide

/-! Non-vacuity. -/

/-- The migrator's own unit test, as tokens: `for i: u32 in 0..10 {`. -/
def unitTest : List MTok :=
  [ { text := [102, 111, 114], line := 1, col := 13, keep := true },
    { text := [105], line := 1, col := 17, keep := true },
    { text := [58], line := 1, col := 18, keep := false },
    { text := [117, 51, 50], line := 1, col := 20, keep := false },
    { text := [105, 110], line := 1, col := 24, keep := true },
    { text := [48], line := 1, col := 27, keep := true } ]

example : InOrder unitTest ∧ (∀ x ∈ unitTest, 1 ≤ x.line ∧ 1 ≤ x.col) := by decide

example : InOrder mergeWitness ∧ (∀ x ∈ mergeWitness, 1 ≤ x.line ∧ 1 ≤ x.col) := by decide

/-- `            for i      in 0` -/
example : migrate [10] unitTest =
    List.replicate 12 32 ++ [102, 111, 114, 32, 105] ++ List.replicate 6 32 ++ [105, 110, 32, 48] := by
  decide

example : NlOk [10] ∧ (1 < 2 ∨ (1 = 2 ∧ 1 < 1)) := ⟨Or.inl rfl, Or.inl (by decide)⟩

end VerylModel.Props.C23
