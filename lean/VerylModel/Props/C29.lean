import VerylModel.Core.Store
import VerylModel.Lemmas.Store
/-!
# C29 — the cache store behaves like a versioned key-value map

"After any sequence of open, put, keep, invalidate, set-dependents and save operations, reopening
the store with the same key returns, for each source path, exactly the entry and blob bytes of the
last saved build. Reopening with a different key or schema returns no entries. Saving never deletes
a blob that the saved manifest references."

All theorems quantify over **all** operation sequences `ops : List Op` run from the empty cache
directory `init` (`run c init ops`), for arbitrary constants `c` (schema version, blob header).
`Inv`, `abs`, `astep` are defined in `Core/Store.lean` / `Lemmas/Store.lean`.
-/
namespace VerylModel.Props.C29
open VerylModel.Store

/-! ## T5 — invariant -/

/-- `Inv` holds initially and is preserved by every operation. -/
theorem inv_preserved (c : Consts) (s : State) (o : Op) (h : Inv c s) : Inv c (step c s o) :=
  inv_step h o

/-- Every reachable state satisfies the invariant. -/
theorem inv_reachable (c : Consts) (ops : List Op) : Inv c (run c init ops) :=
  inv_run (inv_init c) ops

/-- The invariant spelled out, for every reachable state: blob files are content addressed and
    readable; the on-disk manifest has the current schema and no dangling reference; neither have
    `manifest.files` / `next_files` of the open store; `on_disk_current` means the on-disk manifest
    is the in-memory one. -/
theorem reachable_facts (c : Consts) (ops : List Op) :
    let s := run c init ops
    (∀ n data, findBlob s.1.blobs n = some data →
        data = n ∧ ∃ payload, n = c.header ++ payload ∧ readBlob c s.1 n = (s.1, some payload)) ∧
    (∀ mf, s.1.manifest = some mf →
        mf.schema = c.schemaVersion ∧ ∀ n ∈ referenced mf.files, ∃ data, findBlob s.1.blobs n = some data) ∧
    (∀ m, s.2 = some m →
        (∀ n ∈ referenced m.files, ∃ data, findBlob s.1.blobs n = some data) ∧
        (∀ n ∈ referenced m.next, ∃ data, findBlob s.1.blobs n = some data) ∧
        (m.onDiskCurrent = true →
          s.1.manifest = some { schema := c.schemaVersion, key := m.key, files := m.files })) := by
  intro s
  have h : Inv c s := inv_reachable c ops
  refine ⟨?_, ?_, ?_⟩
  · intro n data hd
    obtain ⟨h1, _⟩ := h.blobs.find hd
    obtain ⟨payload, hp, hr⟩ := readBlob_of_present h.blobs ⟨data, hd⟩
    exact ⟨h1, payload, hp, hr⟩
  · intro mf hmf
    exact ⟨h.diskSchema mf hmf, h.diskRefs mf hmf⟩
  · intro m hm
    exact ⟨h.memFiles m hm, h.memNext m hm, h.current m hm⟩

/-- The association lists of the model are maps (as the `BTreeMap`s they stand for): in every
    reachable state the keys of the on-disk manifest, of `manifest.files` and of `next_files` are
    pairwise distinct. -/
theorem keys_unique (c : Consts) (ops : List Op) :
    let s := run c init ops
    (∀ mf, s.1.manifest = some mf → (mf.files.map Prod.fst).Nodup) ∧
    (∀ m, s.2 = some m → (m.files.map Prod.fst).Nodup ∧ (m.next.map Prod.fst).Nodup) := by
  intro s
  have h : Uniq s := uniq_run uniq_init ops
  exact ⟨h.disk, fun m hm => ⟨h.files m hm, h.next m hm⟩⟩

/-- Hence the skip test of `save` is `BTreeMap ==`: in a reachable state the write is skipped
    exactly when `on_disk_current` and both maps answer every path alike. -/
theorem skip_iff_same_map (c : Consts) (ops : List Op) (m : Mem) (hm : (run c init ops).2 = some m) :
    (m.onDiskCurrent && mapEq m.next m.files) = true ↔
      (m.onDiskCurrent = true ∧ ∀ p, lookup m.next p = lookup m.files p) := by
  have h : Uniq (run c init ops) := uniq_run uniq_init ops
  rw [Bool.and_eq_true, mapEq_iff (h.next m hm) (h.files m hm)]

/-! ## T1 — refinement of the abstract versioned map -/

/-- Every operation commutes with the abstraction function, on every state satisfying `Inv`. -/
theorem refines (c : Consts) (s : State) (o : Op) (h : Inv c s) :
    abs c (step c s o) = astep (abs c s) o :=
  refines_step h o

/-- Hence every operation sequence from the empty directory is simulated by the abstract machine,
    which stores payload bytes directly and has no blobs, no skip-write and no GC. -/
theorem refines_all (c : Consts) (ops : List Op) : abs c (run c init ops) = arun ainit ops := by
  rw [refines_run (inv_init c) ops, abs_init]

/-- What the disk records is, at any time, the last saved build of the abstract machine. -/
theorem disk_is_last_saved_build (c : Consts) (ops : List Op) :
    absDisk c (run c init ops).1 = (arun ainit ops).saved :=
  congrArg AState.saved (refines_all c ops)

/-- Only `save` changes the saved build (put / set_diagnostics write blobs, but no observation of
    the saved build changes). -/
theorem saved_unchanged (c : Consts) (s : State) (o : Op) (h : Inv c s) (ho : o ≠ Op.save) :
    absDisk c (step c s o).1 = absDisk c s.1 := by
  have := congrArg AState.saved (refines_step h o)
  rw [astep_saved _ ho] at this
  exact this

/-- The abstract machine is the intended specification: `put` records the payload itself, … -/
theorem spec_put (a : AState) (s : ASession) (hs : a.sess = some s) (p h : String) (b : Option String) :
    (astep a (.put p h b)).sess.map (fun s' => s'.next p) =
      some (some { hash := h, dependents := [], tests := [], fragment := b, diagnostics := none }) := by
  simp [astep, hs, AbsFiles.set]

/-- … and reopening with the key of the last `save` shows exactly the build that was saved. -/
theorem spec_reopen (a : AState) (s : ASession) (hs : a.sess = some s) (rest : List Op)
    (hrest : ∀ o ∈ rest, o ≠ Op.save) :
    (astep (arun (astep a .save) rest) (.open s.key)).sess.map (fun s' => s'.prev) = some s.next := by
  have hsave : astep a .save =
      { saved := some (s.key, s.next), sess := some { s with prev := s.next, next := AbsFiles.empty } } := by
    obtain ⟨sv, ss⟩ := a
    cases hs; rfl
  have h1 : (arun (astep a .save) rest).saved = some (s.key, s.next) := by
    rw [arun_saved _ hrest, hsave]
  show some ((arun (astep a .save) rest).saved.visible s.key) = some s.next
  rw [h1]
  simp [Spec.visible]

/-! ## T4 — the skip-write shortcut -/

/-- An identical re-scan (`on_disk_current && next_files == manifest.files`) skips the write.
    The result is indistinguishable from the write: same abstract state; the manifest on disk is
    (as a map) the manifest the write would produce; every blob file the write would leave is there
    with the same bytes. -/
theorem skip_write_sound (c : Consts) (ops : List Op) (m : Mem)
    (hm : (run c init ops).2 = some m)
    (hskip : (m.onDiskCurrent && mapEq m.next m.files) = true) :
    let d := (run c init ops).1
    save c d m = (d, { m with next := [] }) ∧
    abs c ((save c d m).1, some (save c d m).2)
      = abs c ((saveWrite c d m).1, some (saveWrite c d m).2) ∧
    (∃ mf, d.manifest = some mf ∧ mf.schema = c.schemaVersion ∧ mf.key = m.key ∧
      mapEq mf.files m.next = true) ∧
    (∀ n data, findBlob (saveWrite c d m).1.blobs n = some data → findBlob d.blobs n = some data) := by
  intro d
  have hinv : Inv c (d, some m) := by
    have := inv_reachable c ops
    rw [show run c init ops = (d, some m) from Prod.ext rfl hm] at this
    exact this
  have hcur : m.onDiskCurrent = true := by
    cases hc : m.onDiskCurrent <;> simp [hc] at hskip ⊢
  have heq : mapEq m.next m.files = true := by
    rw [hcur] at hskip; simpa using hskip
  refine ⟨save_skip hskip, ?_, ?_, ?_⟩
  · rw [save_skip hskip, abs_saveWrite]
    exact abs_saveSkip hinv hskip
  · refine ⟨_, hinv.current m rfl hcur, rfl, rfl, ?_⟩
    unfold mapEq at heq ⊢
    rw [Bool.and_comm]; exact heq
  · intro n data h
    exact gc_find_sub h

/-- Literal equality of the two disks does **not** hold: the skipped save also skips the GC walk,
    so a blob written by a `put` that the re-scan later overwrote stays as an unreferenced file
    until the next non-skipped save. (Harmless for C29: no observation of the store sees it.) -/
theorem skip_write_disk_eq_false :
    ¬ ∀ (c : Consts) (ops : List Op) (m : Mem), (run c init ops).2 = some m →
        (m.onDiskCurrent && mapEq m.next m.files) = true →
        (save c (run c init ops).1 m).1.blobs = (saveWrite c (run c init ops).1 m).1.blobs := by
  intro h
  have := h ⟨2, "H"⟩ [.open "k", .save, .put "a" "h" (some "y"), .drop, .open "k"]
    ⟨"k", [], [], true⟩ (by decide) (by decide)
  revert this
  decide

/-! ## First sentence — reopening with the same key -/

/-- After any operation sequence `ops` that leaves a store open, then `save`, then any operations
    `rest` without a further save (including puts, drop, opens with other keys): opening with the
    key of the saved build returns, for every path, exactly the entry that was in `next_files` at
    the save, and `load` / `load_diagnostics` return exactly what they returned for that entry at
    the save (the bytes of the last saved build). -/
theorem reopen_same_key (c : Consts) (ops rest : List Op) (m : Mem)
    (hm : (run c init ops).2 = some m) (hrest : ∀ o ∈ rest, o ≠ Op.save) :
    let d := (run c init ops).1
    let d' := (run c init (ops ++ Op.save :: rest)).1
    ∀ p, entry (openStore c d' m.key) p = lookup m.next p ∧
      ∀ e, lookup m.next p = some e →
        (load c d' e).2 = (load c d e).2 ∧
        (loadDiagnostics c d' e).2 = (loadDiagnostics c d e).2 := by
  intro d d' p
  have hs0 : run c init ops = (d, some m) := Prod.ext rfl hm
  have hinv : Inv c (d, some m) := hs0 ▸ inv_reachable c ops
  have hd' : d' = (run c ((save c d m).1, some (save c d m).2) rest).1 := by
    show (run c init (ops ++ Op.save :: rest)).1 = _
    rw [run_append, hs0, run_cons, step_save]
  obtain ⟨mf, hmf, hsch, hkey, hlk⟩ := save_manifest hinv
  have hman : d'.manifest = some mf := by
    rw [hd', run_manifest _ hrest]; exact hmf
  have hext : Ext (save c d m).1.blobs d'.blobs := by
    rw [hd']; exact run_ext (inv_save hinv) hrest
  refine ⟨?_, ?_⟩
  · rw [← hkey, entry_openStore hman hsch, hlk]
  · intro e he
    have hfind : ∀ n, e.refs n → findBlob d'.blobs n = findBlob d.blobs n := by
      intro n hr
      have hn : n ∈ referenced m.next := mem_referenced.mpr ⟨p, e, mem_of_lookup he, hr⟩
      have hp : Present d.blobs n := hinv.memNext m rfl n hn
      have h1 : findBlob (save c d m).1.blobs n = findBlob d.blobs n := save_find hn
      have hp1 : Present (save c d m).1.blobs n := by
        unfold Present; rw [h1]; exact hp
      rw [find_eq_of_ext hext hp1, h1]
    exact ⟨load_congr hfind, loadDiagnostics_congr hfind⟩

/-- The same, against the abstract machine: the reopened store shows, per path, hash, dependents,
    tests and the *payload bytes* of fragment and diagnostics exactly as the abstract machine
    recorded them from the `put` / `set_diagnostics` / `keep` / … calls of the saved build. -/
theorem reopen_same_key_payloads (c : Consts) (ops rest : List Op) (sess : ASession)
    (hsess : (arun ainit ops).sess = some sess) (hrest : ∀ o ∈ rest, o ≠ Op.save) :
    let d' := (run c init (ops ++ Op.save :: rest)).1
    ∀ p, (entry (openStore c d' sess.key) p).map (absEntry c d') = sess.next p := by
  intro d' p
  have habs := refines_all c ops
  cases hm : (run c init ops).2 with
  | none =>
    have : (abs c (run c init ops)).sess = none := by simp [abs, hm]
    rw [habs, hsess] at this; cases this
  | some m =>
    have h2 : (abs c (run c init ops)).sess = some (absMem c (run c init ops).1 m) := by
      simp [abs, hm]
    rw [habs, hsess] at h2
    cases h2
    obtain ⟨h1, h3⟩ := reopen_same_key c ops rest m hm hrest p
    show Option.map _ (entry (openStore c d' m.key) p) = Option.map _ (lookup m.next p)
    rw [h1]
    cases he : lookup m.next p with
    | none => rfl
    | some e =>
      obtain ⟨hl, hd⟩ := h3 e he
      simp only [Option.map_some, absEntry]
      rw [show (load c d' e).2 = _ from hl, show (loadDiagnostics c d' e).2 = _ from hd]

/-! ## Second sentence — other key, other schema -/

/-- Reopening with a different key or schema returns no entries (any disk). -/
theorem other_key_empty (c : Consts) (d : Disk) (key p : String)
    (h : ∀ m, d.manifest = some m → ¬ (m.schema = c.schemaVersion ∧ m.key = key)) :
    entry (openStore c d key) p = none := by
  unfold openStore
  cases hm : d.manifest with
  | none => simp [entry, lookup]
  | some m =>
    have := h m hm
    simp [this, entry]

/-- Schema-mismatch variant (any disk): a manifest of another schema version gives no entries. -/
theorem other_schema_empty (c : Consts) (d : Disk) (mf : Manifest) (key p : String)
    (hd : d.manifest = some mf) (hs : mf.schema ≠ c.schemaVersion) :
    entry (openStore c d key) p = none :=
  other_key_empty c d key p (fun m hm hc => by rw [hd] at hm; cases hm; exact hs hc.1)

/-- After a save under one key and any further operations without a save, opening with any
    other key returns no entry. -/
theorem reopen_other_key (c : Consts) (ops rest : List Op) (m : Mem)
    (hm : (run c init ops).2 = some m) (hrest : ∀ o ∈ rest, o ≠ Op.save)
    (key : String) (hk : key ≠ m.key) (p : String) :
    entry (openStore c (run c init (ops ++ Op.save :: rest)).1 key) p = none := by
  have hs0 : run c init ops = ((run c init ops).1, some m) := Prod.ext rfl hm
  have hinv : Inv c ((run c init ops).1, some m) := hs0 ▸ inv_reachable c ops
  obtain ⟨mf, hmf, _, hkey, _⟩ := save_manifest hinv
  have hman : (run c init (ops ++ Op.save :: rest)).1.manifest = some mf := by
    rw [run_append, hs0, run_cons, step_save, run_manifest _ hrest]; exact hmf
  apply other_key_empty
  intro m' hm' hc
  rw [hman] at hm'; cases hm'
  exact hk (hc.2.symm.trans hkey)

/-- A store written by schema version `c` (any operation sequence), opened by a binary with a
    different schema version `c'`, returns no entry, for any key. -/
theorem reopen_other_schema (c c' : Consts) (hs : c'.schemaVersion ≠ c.schemaVersion)
    (ops : List Op) (key p : String) :
    entry (openStore c' (run c init ops).1 key) p = none := by
  apply other_key_empty
  intro mf hmf hc
  exact hs (hc.1.symm.trans ((inv_reachable c ops).diskSchema mf hmf))

/-! ## Third sentence — GC -/

/-- After `save` (skipped or not), every blob named by the manifest now on disk is still a file,
    with the bytes it had before the save, and `read_blob` returns its payload. -/
theorem gc_keeps_referenced (c : Consts) (ops : List Op) (m : Mem)
    (hm : (run c init ops).2 = some m) :
    let d := (run c init ops).1
    let d' := (save c d m).1
    ∀ mf, d'.manifest = some mf → ∀ n ∈ referenced mf.files,
      ∃ data, findBlob d'.blobs n = some data ∧ findBlob d.blobs n = some data ∧
        ∃ payload, data = c.header ++ payload ∧ readBlob c d' n = (d', some payload) := by
  intro d d' mf hmf n hn
  have hs0 : run c init ops = (d, some m) := Prod.ext rfl hm
  have hinv : Inv c (d, some m) := hs0 ▸ inv_reachable c ops
  have hinv' : Inv c (d', some (save c d m).2) := inv_save hinv
  obtain ⟨data, hd⟩ := hinv'.diskRefs mf hmf n hn
  obtain ⟨hdn, _⟩ := hinv'.blobs.find hd
  obtain ⟨payload, hp, hr⟩ := readBlob_of_present hinv'.blobs ⟨data, hd⟩
  refine ⟨data, hd, ?_, payload, hdn.trans hp, hr⟩
  cases hs : (m.onDiskCurrent && mapEq m.next m.files) with
  | true =>
    have : d' = d := by show (save c d m).1 = d; rw [save_skip hs]
    rw [← this]; exact hd
  | false =>
    have : d' = (saveWrite c d m).1 := by show (save c d m).1 = _; rw [save_write hs]
    rw [this] at hd
    exact gc_find_sub hd

/-- Conversely a non-skipped `save` leaves no other blob file: everything on disk afterwards is
    referenced by the saved manifest (and was there before). -/
theorem gc_removes_unreferenced (c : Consts) (d : Disk) (m : Mem)
    (hw : (m.onDiskCurrent && mapEq m.next m.files) = false) :
    ∀ nd ∈ (save c d m).1.blobs, nd.1 ∈ referenced m.next ∧ nd ∈ d.blobs := by
  intro nd h
  rw [save_write hw] at h
  exact saveWrite_blobs_referenced h

/-- In particular the blobs of the build being saved: each blob `next_files` refers to survives the
    save with its bytes. -/
theorem save_keeps_next_blobs (c : Consts) (ops : List Op) (m : Mem)
    (hm : (run c init ops).2 = some m) :
    let d := (run c init ops).1
    ∀ n ∈ referenced m.next, ∃ data, findBlob (save c d m).1.blobs n = some data ∧
      findBlob d.blobs n = some data := by
  intro d n hn
  have hs0 : run c init ops = (d, some m) := Prod.ext rfl hm
  have hinv : Inv c (d, some m) := hs0 ▸ inv_reachable c ops
  obtain ⟨data, hd⟩ := hinv.memNext m rfl n hn
  exact ⟨data, by rw [save_find hn]; exact hd, hd⟩

/-! ## Reads verify the content hash (repo commit 7005a14) -/

/-- In a state satisfying the invariant, `read_blob` never takes its removal branch: the disk is
    unchanged, for every blob name (hence for `load` / `load_diagnostics` of any entry). -/
theorem read_blob_never_removes_under_inv (c : Consts) (s : State) (h : Inv c s) (n : String) :
    (readBlob c s.1 n).1 = s.1 :=
  readBlob_fst_of_blobsOk h.blobs n

/-- So in every reachable state the read operations `load` / `load_diagnostics` are the identity
    (they are operations of `step` because in general they can delete a file). -/
theorem loads_are_noops (c : Consts) (ops : List Op) (p : String) :
    step c (run c init ops) (.load p) = run c init ops ∧
    step c (run c init ops) (.loadDiagnostics p) = run c init ops :=
  ⟨step_load (inv_reachable c ops).blobs p, step_loadDiagnostics (inv_reachable c ops).blobs p⟩

/-- On **any** disk: a blob file whose content differs from its name is never returned; it is
    removed, and no other file is touched. -/
theorem read_blob_rejects_foreign_bytes (c : Consts) (d : Disk) (n data : String)
    (h : findBlob d.blobs n = some data) (hne : data ≠ n) :
    (readBlob c d n).2 = none ∧ findBlob (readBlob c d n).1.blobs n = none ∧
    (readBlob c d n).1.manifest = d.manifest ∧
    ∀ n', n' ≠ n → findBlob (readBlob c d n).1.blobs n' = findBlob d.blobs n' := by
  rw [readBlob_foreign h hne]
  refine ⟨rfl, ?_, rfl, ?_⟩
  · have := findBlob_filter d.blobs (fun k => decide (k ≠ n)) n
    simpa using this
  · intro n' hn'
    have := findBlob_filter d.blobs (fun k => decide (k ≠ n)) n'
    simpa [hn'] using this

/-- On **any** disk: whatever `read_blob` returns is the payload of a file stored under the name
    `header ++ payload` whose content is that name; and then nothing was removed. -/
theorem read_blob_sound (c : Consts) (d : Disk) (n payload : String)
    (h : (readBlob c d n).2 = some payload) :
    findBlob d.blobs n = some n ∧ n = c.header ++ payload ∧ (readBlob c d n).1 = d :=
  readBlob_some h

/-! ## Non-vacuity: a concrete history with an identical re-scan and a key change -/

/-- The constants of the driver (`Driver/Store.lean`) for `SCHEMA_VERSION = 2`. -/
def exConsts : Consts := { schemaVersion := 2, header := "VFRG#2#" }

/-- First build under key `k1` (two files, one with fragment + dependents + diagnostics, one
    uncacheable), saved; then an identical re-scan (`keep` everything). -/
def exBuild : List Op :=
  [.open "k1", .put "a" "h1" (some "abcd"), .put "b" "h2" none, .setDependents "a" ["b", "c"],
   .setDiagnostics "a" "warn", .setDiagnostics "b" "lost", .save, .keep "a", .keep "b"]

/-- After the second save: close, open under another key, start (but do not save) a build. -/
def exRest : List Op := [.drop, .open "k2", .put "a" "h3" (some "zz"), .invalidate "a"]

/-- The hypotheses of `reopen_same_key*` / `skip_write_sound` / `gc_keeps_referenced` hold for
    `exBuild`: a store is open, and the second save is an identical re-scan (write skipped). -/
example : (run exConsts init exBuild).2.map
      (fun m => (m.key, m.onDiskCurrent && mapEq m.next m.files, m.next.length)) =
    some ("k1", true, 2) := by decide

example : ∀ o ∈ exRest, o ≠ Op.save := by decide

/-- The abstract machine's pending build at the second save (payload bytes as they were put). -/
example : (arun ainit exBuild).sess.map (fun s => (s.key, s.next "a", s.next "b", s.next "c")) =
    some ("k1",
      some { hash := "h1", dependents := ["b", "c"], tests := [], fragment := some "abcd",
             diagnostics := some "warn" },
      some { hash := "h2", dependents := [], tests := [], fragment := none, diagnostics := none },
      none) := by decide

/-- Conclusion of `reopen_same_key_payloads` on this history: after the re-scan save, the key
    change and the unsaved build under `k2`, reopening with `k1` shows the first build, bytes
    included; reopening with `k2` or `k3` shows nothing. -/
example :
    let d' := (run exConsts init (exBuild ++ Op.save :: exRest)).1
    (entry (openStore exConsts d' "k1") "a").map (absEntry exConsts d') =
      some { hash := "h1", dependents := ["b", "c"], tests := [], fragment := some "abcd",
             diagnostics := some "warn" } ∧
    (entry (openStore exConsts d' "k1") "b").map (absEntry exConsts d') =
      some { hash := "h2", dependents := [], tests := [], fragment := none, diagnostics := none } ∧
    entry (openStore exConsts d' "k1") "c" = none ∧
    entry (openStore exConsts d' "k2") "a" = none ∧
    (d'.blobs.map Prod.fst).length = 3 := by
  intro d'
  obtain ⟨s, hs, hk, ha, hb⟩ : ∃ s, (arun ainit exBuild).sess = some s ∧ s.key = "k1" ∧
      s.next "a" = some { hash := "h1", dependents := ["b", "c"], tests := [], fragment := some "abcd",
                          diagnostics := some "warn" } ∧
      s.next "b" = some { hash := "h2", dependents := [], tests := [], fragment := none,
                          diagnostics := none } := by
    refine ⟨_, rfl, ?_, ?_, ?_⟩ <;> decide
  have h := reopen_same_key_payloads exConsts exBuild exRest s hs (by decide)
  rw [hk] at h
  refine ⟨(h "a").trans ha, (h "b").trans hb, ?_, ?_, ?_⟩
  · decide
  · decide
  · decide

/-- A non-skipped save after a key change garbage-collects the old build's blobs, and keeps the
    new one's (`gc_keeps_referenced` with a non-trivial manifest and a non-trivial deletion). -/
example :
    let s := run exConsts init (exBuild ++ Op.save :: exRest)
    s.2.map (fun m => (m.onDiskCurrent && mapEq m.next m.files, s.1.blobs.length,
      (save exConsts s.1 m).1.blobs.length, referenced m.next)) = some (false, 3, 0, []) := by decide

example :
    let s := run exConsts init (exBuild ++ Op.save :: (exRest ++ [.put "b" "h4" (some "q")]))
    s.2.map (fun m => (s.1.blobs.length, (save exConsts s.1 m).1.blobs.map Prod.fst, referenced m.next)) =
      some (4, ["VFRG#2#q"], ["VFRG#2#q"]) := by decide

/-- `reopen_other_schema` / `other_schema_empty` are not vacuous: the same disk that shows the
    build to schema version 2 shows nothing to a binary with schema version 3. -/
example :
    let d := (run exConsts init (exBuild ++ [Op.save])).1
    (entry (openStore exConsts d "k1") "a").isSome = true ∧
    entry (openStore { schemaVersion := 3, header := "VFRG#3#" } d "k1") "a" = none := by decide

/-- `read_blob_rejects_foreign_bytes` is not vacuous: a damaged file (right name, wrong bytes,
    even with a valid header) satisfies its hypotheses. -/
example :
    let d : Disk := { manifest := none, blobs := [("VFRG#2#ab", "VFRG#2#xy"), ("VFRG#2#q", "VFRG#2#q")] }
    findBlob d.blobs "VFRG#2#ab" = some "VFRG#2#xy" ∧ "VFRG#2#xy" ≠ "VFRG#2#ab" := by decide

end VerylModel.Props.C29
