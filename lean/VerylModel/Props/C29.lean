import VerylModel.Core.Store
namespace VerylModel.Props.C29
open VerylModel.Store

/-- C29 (second sentence): reopening with a different key or schema returns no entries. -/
theorem other_key_empty (c : Consts) (d : Disk) (key p : String)
    (h : ∀ m, d.manifest = some m → ¬ (m.schema = c.schemaVersion ∧ m.key = key)) :
    entry (openStore c d key) p = none := by
  unfold openStore
  cases hm : d.manifest with
  | none => simp [entry, lookup]
  | some m =>
    have := h m hm
    simp [this, entry, lookup]

end VerylModel.Props.C29
