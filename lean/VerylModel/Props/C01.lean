import VerylModel.Lemmas.EmitPrec
import VerylModel.Lemmas.EmitEval
import VerylModel.Lemmas.EmitCtx
import VerylModel.Lemmas.EmitEvalEq
import VerylModel.Lemmas.EmitStep
/-!
# C01 — emitted SystemVerilog behaves like the Veryl design (modelled subset)

Veryl side: `Emit.precClimb` / `gather` / `annot` / `evalA` / `simRun` (models of
`conv/expression.rs::prec_climb`, `Expression::gather_context`/`apply_context`,
`Op::eval_context_*`, the interpreter and `Simulator::step`/`step_reset`), SystemVerilog side: M-SV
(`SV.resolve`, `size`, `sgn`, `eval`, `run` — my reading of IEEE 1800-2017), emitter: `emitModel`.
-/
namespace VerylModel.Props.C01
open VerylModel.SV VerylModel.Emit

/-! ## Parsing: precedence and associativity -/

/-- The tree Veryl's analyzer builds for an operator chain (`prec_climb`) is the tree IEEE 1800
Table 11-2 gives the emitted text, for every expression without two adjacent `**`. -/
theorem C01_prec_eq_ieee (r : VRaw) (h : noPP r = true) :
    resolve (emitRaw r) = emitExpr (precClimb r) := resolve_emit r h

/-- `2 ** 3 ** 2` -/
def powChain : VRaw := .chain (.dec 2) (.cons .pow (.dec 3) (.cons .pow (.dec 2) .nil))

example : noPP (.chain (.var 0) (.cons .add (.var 1) (.cons .pow (.dec 2) (.cons .mul (.var 0) .nil)))) = true := by decide

/-- Full strength is false: `a ** b ** c` is emitted without parentheses; the analyzer groups it to
the right (2 ** 9 = 512), IEEE 1800 §11.3.2 groups every binary operator to the left
(8 ** 2 = 64).  [finding #13] -/
theorem C01_pow_assoc_witness :
    assignValV [] [] 16 (precClimb powChain) = some 512 ∧
    assignVal { decls := [], vals := [] } 16 (resolve (emitRaw powChain)) = some 64 ∧
    resolve (emitRaw powChain) ≠ emitExpr (precClimb powChain) := by
  refine ⟨by decide, by decide, by decide⟩

/-! ## T1: the context annotation is the IEEE sizing -/

/-- **ctx_eq_ieee**: the `(width, signed)` that `gather_context` computes for an expression is the
IEEE 1800 self-determined size (Table 11-21) and type (§11.8.1) of the emitted expression, on the
subset `ctxOK` (every excluded form has a witness below). -/
theorem C01_ctx_eq_ieee (decls : List Decl) (vals : List Nat) (e : VExpr) (h : ctxOK decls e = true) :
    gather decls e =
      ⟨size { decls := decls, vals := vals } (emitExpr e), sgn { decls := decls, vals := vals } (emitExpr e)⟩ :=
  gather_eq_ieee decls vals e h

example : ctxOK [⟨8, true⟩, ⟨4, false⟩]
    (.bin .add (.bin .lt (.var 0) (.var 1)) (.ifx (.bitsel 1 0) (.un .neg (.var 0)) (.asNum 16 (.var 1)))) = true := by
  decide

/-! The excluded forms: `gather_context` differs from the IEEE type of the emitted text. -/

def env0 (decls : List Decl) : Env := { decls := decls, vals := [] }

/-- a select of a signed variable stays signed (IEEE §11.8.1: selects are unsigned) -/
theorem C01_ctx_select_signed_witness :
    (gather [⟨4, true⟩] (.partsel 0 3 0)).s = true ∧ sgn (env0 [⟨4, true⟩]) (emitExpr (.partsel 0 3 0)) = false := by
  decide

/-- a relational operator on two signed operands is signed (IEEE: comparison results are unsigned) -/
theorem C01_ctx_relational_signed_witness :
    (gather [⟨4, true⟩, ⟨4, true⟩] (.bin .lt (.var 0) (.var 1))).s = true ∧
    sgn (env0 [⟨4, true⟩, ⟨4, true⟩]) (emitExpr (.bin .lt (.var 0) (.var 1))) = false := by
  decide

/-- `x as N` is unsigned (IEEE §6.24.1: `N'(x)` keeps the signedness of `x`) -/
theorem C01_ctx_width_cast_unsigned_witness :
    (gather [⟨4, true⟩] (.asNum 4 (.var 0))).s = false ∧ sgn (env0 [⟨4, true⟩]) (emitExpr (.asNum 4 (.var 0))) = true := by
  decide

/-- `x as u32` keeps the width of `x` (IEEE: `int'(x)` is 32 bits) -/
theorem C01_ctx_type_cast_width_witness :
    (gather [⟨1, false⟩] (.asInt false 32 (.var 0))).w = 1 ∧ size (env0 [⟨1, false⟩]) (emitExpr (.asInt false 32 (.var 0))) = 32 := by
  decide

/-! ## T2: evaluation -/

/-- **eval_eq_ieee**: for every expression of the modelled operator set (`evalOK`: variables,
selects of unsigned variables, literals, all unary operators, `+ - * / % & | ^ ~^`, shifts,
`&& ||`, `if`-expressions, concatenation, repeat — any nesting, any widths, any 2-state values) the
value the Veryl side stores by `lhs = e` (contexts by `gather`/`apply`, interpreter evaluation of the
annotated tree) is the value IEEE 1800 §10.7/§11.6/§11.8 gives the emitted `lhs = e'`; `none` (an x
from a zero divisor) on one side iff on the other. -/
theorem C01_eval_eq_ieee (decls : List Decl) (vals : List Nat) (e : VExpr) (lw : Nat) (h : evalOK decls e = true) :
    assignValV decls vals lw e = assignVal { decls := decls, vals := vals } lw (emitExpr e) :=
  assign_eq decls vals e lw h

/-- … and from the text as written (operator chains, parentheses): parsing by `prec_climb` and
evaluating on the Veryl side = IEEE parsing (Table 11-2) and evaluating the emitted text, provided no
chain contains `a ** b ** c`. -/
theorem C01_eval_eq_ieee_text (decls : List Decl) (vals : List Nat) (r : VRaw) (lw : Nat)
    (hp : noPP r = true) (h : evalOK decls (precClimb r) = true) :
    assignValV decls vals lw (precClimb r) =
      assignVal { decls := decls, vals := vals } lw (resolve (emitRaw r)) := by
  rw [resolve_emit r hp]
  exact assign_eq decls vals _ lw h

example : evalOK [⟨8, true⟩, ⟨4, false⟩, ⟨1, false⟩]
    (.bin .add (.un .neg (.var 0)) (.ifx (.bin .land (.var 2) (.un .ror (.var 1))) (.cat (.var 1) (.partsel 1 2 0))
      (.bin .ashr (.var 0) (.lit 3 false 2)))) = true := by decide

/-- the conditions of `if`/`case`/`?:` agree as well -/
theorem C01_cond_eq_ieee (decls : List Decl) (vals : List Nat) (e : VExpr) (h : evalOK decls e = true) :
    (evalA decls vals (annot decls e (gather decls e))).map (fun v => decide (v.v ≠ 0)) =
    (eval { decls := decls, vals := vals } (emitExpr e) (size { decls := decls, vals := vals } (emitExpr e))
      (sgn { decls := decls, vals := vals } (emitExpr e))).map (fun n => decide (n ≠ 0)) :=
  cond_eq decls vals e h

/-! ## T3: processes, one cycle, traces — for all 2 x 4 `[build]` settings and explicit port types

`cfg : Cfg` ranges over `clock_type` ∈ {posedge, negedge} x `reset_type` ∈ {async_low, async_high,
sync_low, sync_high}; `d.clkKind`/`d.rstKind` over the explicit port types.  `WfD d`: statements over
`rawOK` expressions (no `case`), clock ≠ reset, the reset is one unsigned bit. -/

/-- **step_eq**: one clock cycle of the emitted module under the cycle protocol (inputs change,
inactive edge, active edge; nonblocking updates after all sensitive processes ran) = one
`Simulator::step` after `set`ting the inputs — from ANY state, whatever the reset level is: with
the reset deasserted both run the body, with the reset asserted both run the reset branch at the
edge (`if (rst)` / `if (!rst)` = the level test of the lowered `if_reset`). -/
theorem C01_step_eq (d : VDesign) (cfg : Cfg) (hw : WfD d) (σ : State) (stim : List Nat) :
    cycle (emitModel d cfg) (tbOf d cfg) σ stim = step d cfg (setInputs d.decls σ false d.inputs stim) :=
  cycle_eq d cfg hw σ stim

/-- the eight settings, spelled out -/
theorem C01_step_eq_all_settings (d : VDesign) (hw : WfD d) (σ : State) (stim : List Nat) :
    ∀ e ∈ [Edge.pos, Edge.neg], ∀ hi ∈ [false, true], ∀ sy ∈ [false, true],
      cycle (emitModel d ⟨e, hi, sy⟩) (tbOf d ⟨e, hi, sy⟩) σ stim =
        step d ⟨e, hi, sy⟩ (setInputs d.decls σ false d.inputs stim) :=
  fun e _ hi _ sy _ => cycle_eq d ⟨e, hi, sy⟩ hw σ stim

/-- the inactive clock edge runs no emitted process -/
theorem C01_inactive_edge_silent (d : VDesign) (cfg : Cfg) (hw : WfD d) (σ : State) (log : Log) :
    fireLog d.decls (clkEdgeOf d cfg).flip d.clk σ ((emitModel d cfg).items) log = some log :=
  fireLog_inactive d cfg hw σ d.items log

/-- **async reset at assertion**: at the reset assertion edge exactly the `always_ff` blocks with an
asynchronous reset run and execute their reset branch (= the simulator's reset event); with a
synchronous reset the edge runs nothing (the reset is sampled at the clock edge, `C01_step_eq`). -/
theorem C01_reset_assertion_edge (d : VDesign) (cfg : Cfg) (hw : WfD d) (σ : State)
    (hl : decide (σ.getD d.rst 0 % 2 ≠ 0) = rstHighOf d cfg)
    (hx : ∀ x b, VItem.ff x none b ∈ d.items → x = false) (log : Log) :
    fireLog d.decls (rstEdge (tbOf d cfg) true) d.rst σ (emitModel d cfg).items log =
      (if rstSyncOf d cfg then some log else resetLog d σ d.items log) :=
  fireLog_rst_assert d cfg hw σ hl d.items log hw.ok hx

/-- **trace_eq** (from any common state, e.g. the state after reset): the emitted module observed
cycle by cycle under the protocol gives the trace of the Veryl simulator, for every stimulus list. -/
theorem C01_trace_eq_partial (d : VDesign) (cfg : Cfg) (hw : WfD d) (stim : List (List Nat)) (σ : State) :
    cycles (cycle (emitModel d cfg) (tbOf d cfg)) (emitModel d cfg) σ stim = steps d cfg σ stim :=
  cycles_eq d cfg hw stim σ

/-- a design satisfying the hypotheses: `q <= if_reset 0 else q + a`, `o = q ^ {a[1:0], a[3:2]}` -/
def exampleDesign : VDesign :=
  { decls := [⟨1, false⟩, ⟨1, false⟩, ⟨4, false⟩, ⟨4, false⟩, ⟨4, false⟩], inputs := [2], outputs := [3],
    clk := 0, clkKind := .dflt, rst := 1, rstKind := .dflt,
    items := [.ff false (some (.assign (.var 4) (.lit 4 false 0)))
                (.assign (.var 4) (.chain (.var 4) (.cons .add (.var 2) .nil))),
              .assign (.var 3) (.chain (.var 4) (.cons .bxor (.cat (.partsel 2 1 0) (.partsel 2 3 2)) .nil))] }

example : WfD exampleDesign := ⟨by decide, by decide, by decide⟩

/-! Outside `evalOK`/`ctxOK` the two sides differ on the unchanged tree (value-level witnesses; each is
also a fixed witness of the differential check, replayed on the real simulator and emitter). -/

/-- `(b <: c) + c` with `b = c = 4'sb1111`, 8-bit target: Veryl 8'hff, IEEE 8'h0f -/
theorem C01_relational_sign_witness :
    assignValV [⟨4, true⟩, ⟨4, true⟩] [15, 15] 8 (.bin .add (.bin .lt (.var 0) (.var 1)) (.var 1)) = some 0xff ∧
    assignVal ⟨[⟨4, true⟩, ⟨4, true⟩], [15, 15]⟩ 8 (emitExpr (.bin .add (.bin .lt (.var 0) (.var 1)) (.var 1))) = some 0x0f := by
  decide

/-- `b[3:0] + c` with `b = c = 4'sb1111`: Veryl 8'h0e, IEEE 8'h1e -/
theorem C01_select_sign_witness :
    assignValV [⟨4, true⟩, ⟨4, true⟩] [15, 15] 8 (.bin .add (.partsel 0 3 0) (.var 1)) = some 0x0e ∧
    assignVal ⟨[⟨4, true⟩, ⟨4, true⟩], [15, 15]⟩ 8 (emitExpr (.bin .add (.partsel 0 3 0) (.var 1))) = some 0x1e := by
  decide

/-- `(b as 4) + c`: Veryl 8'h1e, IEEE (`4'(b)` keeps the sign) 8'hfe -/
theorem C01_width_cast_sign_witness :
    assignValV [⟨4, true⟩, ⟨4, true⟩] [15, 15] 8 (.bin .add (.asNum 4 (.var 0)) (.var 1)) = some 0x1e ∧
    assignVal ⟨[⟨4, true⟩, ⟨4, true⟩], [15, 15]⟩ 8 (emitExpr (.bin .add (.asNum 4 (.var 0)) (.var 1))) = some 0xfe := by
  decide

/-- `-a as u32` with `a = 1'b1`: Veryl 32'h1, IEEE (`unsigned'(int'(-a))`) 32'hffffffff -/
theorem C01_type_cast_witness :
    assignValV [⟨1, false⟩] [1] 32 (.asInt false 32 (.un .neg (.var 0))) = some 1 ∧
    assignVal ⟨[⟨1, false⟩], [1]⟩ 32 (emitExpr (.asInt false 32 (.un .neg (.var 0)))) = some 0xffffffff := by
  decide

/-- `&(a as 4)` with `a = 1'b1`: Veryl 1, IEEE 0 -/
theorem C01_widening_cast_witness :
    assignValV [⟨1, false⟩] [1] 8 (.un .rand (.asNum 4 (.var 0))) = some 1 ∧
    assignVal ⟨[⟨1, false⟩], [1]⟩ 8 (emitExpr (.un .rand (.asNum 4 (.var 0)))) = some 0 := by
  decide

/-- `(a | b) == c` with `a = 4'sb1111`, `b = 0`, `c = 1'sb1`: Veryl 0, IEEE 1 -/
theorem C01_eq_flag_witness :
    assignValV [⟨4, true⟩, ⟨4, true⟩, ⟨1, true⟩] [15, 0, 1] 1 (.bin .eq (.bin .bor (.var 0) (.var 1)) (.var 2)) = some 0 ∧
    assignVal ⟨[⟨4, true⟩, ⟨4, true⟩, ⟨1, true⟩], [15, 0, 1]⟩ 1
      (emitExpr (.bin .eq (.bin .bor (.var 0) (.var 1)) (.var 2))) = some 1 := by
  decide

end VerylModel.Props.C01
