import VerylModel.Lemmas.ResolveIdem
/-!
C31 — "For any set of dependency declarations and published releases, resolution picks, for each
dependency, the locked release if it still satisfies the requirement, and otherwise the highest
published release that does. Saving and reloading the lockfile gives the same lock table, updating
a project whose declarations have not changed reports no modification, and every resolved
dependency gets a distinct project name."

All statements are about M-Resolve (`Core/Resolve.lean`), for every world, lock table, iteration
order of the `dependencies` hash maps, fuel and requirement predicate.
-/
namespace VerylModel.Props.C31
open VerylModel.Resolve

variable {ρ : Type}

/-! ### T1 — which release is picked -/

/-- Without `force`, if some lock of the url carries this project and a matching version, the
    *first such lock* of the bucket is returned (version, revision and path of that lock). -/
theorem resolve_spec_locked (w : World ρ) (t : Table) (url proj : Nat) (req : ρ)
    (h : ∃ l ∈ t.get (.url url), lockMatches w proj req l = true) :
    ∃ pre l post u rel p, t.get (.url url) = pre ++ l :: post ∧
      (∀ x ∈ pre, lockMatches w proj req x = false) ∧ lockMatches w proj req l = true ∧
      l.src = .repo u p proj rel.version rel.revision ∧ w.mt req rel.version = true ∧
      resolveVersion w t false url proj req = .ok (rel, p) := by
  have key := findSome_lockPick w proj req (t.get (.url url))
  unfold resolveVersion
  rw [resolveFromLockfile_eq]
  split at key
  · rename_i rel p heq
    obtain ⟨pre, l, post, h1, h2, h3, u, h4⟩ := key
    refine ⟨pre, l, post, u, rel, p, h1, h2, h3, h4, ?_, ?_⟩
    · unfold lockMatches at h3
      rw [h4] at h3
      simp only [Bool.and_eq_true, decide_eq_true_eq] at h3
      exact h3.2
    · rw [heq]
      simp
  · obtain ⟨l, hl, hm⟩ := h
    rw [key l hl] at hm
    cases hm

/-- With `force`, or when no lock matches, the result is the greatest matching release of the
    project's `Veryl.pub` at `origin/HEAD`; it is an error exactly when no published release matches. -/
theorem resolve_spec_latest (w : World ρ) (t : Table) (force : Bool) (url proj : Nat) (req : ρ)
    (path : Nat) (rels : List Release)
    (hl : force = true ∨ ∀ l ∈ t.get (.url url), lockMatches w proj req l = false)
    (hh : w.head url proj = some (path, some rels)) :
    match resolveVersion w t force url proj req with
    | .ok (rel, p) => p = path ∧ rel ∈ rels ∧ w.mt req rel.version = true ∧
        ∀ r' ∈ rels, w.mt req r'.version = true → r'.version ≤ rel.version
    | .error e => e = .noVersion ∧ ∀ r' ∈ rels, w.mt req r'.version = false := by
  have hlatest : resolveVersion w t force url proj req = resolveLatest w url proj req := by
    unfold resolveVersion
    rw [resolveFromLockfile_eq]
    have key := findSome_lockPick w proj req (t.get (.url url))
    split
    · rename_i locked heq
      rcases hl with hf | hn
      · simp [hf]
      · rw [heq] at key
        obtain ⟨pre, l, post, h1, _, h3, _⟩ := key
        have : l ∈ t.get (.url url) := by rw [h1]; simp
        rw [hn l this] at h3
        cases h3
    · rfl
  rw [hlatest]
  unfold resolveLatest
  rw [hh]
  simp only
  have spec := bestRelease_spec w req rels none (by simp)
  split at spec
  · rename_i r heq
    rw [heq]
    obtain ⟨h1, h2, h3, _⟩ := spec
    refine ⟨rfl, ?_, h1, h3⟩
    rcases h2 with h2 | h2
    · exact h2
    · cases h2
  · rename_i heq
    rw [heq]
    exact ⟨rfl, spec.2⟩

/-- In a bucket sorted as `sort_table` leaves it, the locked pick carries the greatest version among
    the matching locks of the project. -/
theorem resolve_locked_highest (w : World ρ) (proj : Nat) (req : ρ) (pre post : List Lock) (l : Lock)
    (hs : (pre ++ l :: post).Pairwise (fun a b => leDesc a b = true))
    (hpre : ∀ x ∈ pre, lockMatches w proj req x = false)
    (u p v r : Nat) (hl : l.src = .repo u p proj v r)
    (x : Lock) (hx : x ∈ pre ++ l :: post) (hm : lockMatches w proj req x = true)
    (u' p' v' r' : Nat) (hxs : x.src = .repo u' p' proj v' r') (hu : u' = u) : v' ≤ v :=
  locked_highest w proj req pre post l hs hpre u p v r hl x hx hm u' p' v' r' hxs hu

/-- Non-vacuity of T1: a table with 1.2.0 locked; `^1`-like requirement (ranks ≤ 9) is served from the
    lock although 1.10.0 (rank 10) … is published; a requirement nothing locked satisfies takes the
    greatest published release. -/
example :
    let w : World Nat := { mt := fun r v => if r = 0 then decide (v ≤ 9) else decide (10 ≤ v),
                           head := fun _ _ => some (0, some [⟨8, 1⟩, ⟨10, 2⟩, ⟨9, 3⟩]),
                           repoMeta := fun _ _ _ => none, pathMeta := fun _ => none }
    let t : Table := [(.url 0, [⟨[5], .repo 0 0 1 8 1, [], false⟩])]
    resolveVersion w t false 0 1 0 = .ok (⟨8, 1⟩, 0) ∧ resolveVersion w t true 0 1 0 = .ok (⟨9, 3⟩, 0) ∧
      resolveVersion w t false 0 1 1 = .ok (⟨10, 2⟩, 0) := by
  exact ⟨rfl, rfl, rfl⟩

/-! ### T2 — every resolved dependency gets a distinct name -/

/-- `gen_locks`: the names of the produced locks are pairwise distinct, for every iteration order,
    table and fuel, and none collides with a name already taken when the traversal started. -/
theorem names_distinct (w : World ρ) (t : Table) (force : Bool) (fuel : Nat) (root : Bool)
    (ds : List (Dep ρ)) (ns : List Name) (ss : List Uuid) (ls : List Lock) (ns' : List Name) (ss' : List Uuid)
    (h : genLocks w t force fuel root ds ns ss = .ok (ls, ns', ss')) :
    (ls.map (·.name)).Nodup ∧ ∀ l ∈ ls, l.name ∉ ns :=
  let inv := genLocks_names w t force fuel root ds ns ss ls ns' ss' h
  ⟨inv.nodup, inv.fresh⟩

/-- `Lockfile::new`: all locks of the table have pairwise distinct names. -/
theorem new_names_distinct (w : World ρ) (fuel : Nat) (root : List (Dep ρ)) (tb : Table)
    (h : newLockfile w fuel root = .ok tb) : (tb.locks.map (·.name)).Nodup := by
  unfold newLockfile at h
  split at h
  · cases h
  · rename_i ls ns ss hg
    cases h
    have := (names_distinct w [] false fuel true root [] [] ls ns ss hg).1
    exact ((buildTable_locks_perm ls).map _).nodup_iff.mpr this

/-- `Lockfile::update`: likewise. -/
theorem update_names_distinct (w : World ρ) (fuel : Nat) (old : Table) (force : Bool) (root : List (Dep ρ))
    (tb : Table) (m : Bool) (h : update w fuel old force root = .ok (tb, m)) :
    (tb.locks.map (·.name)).Nodup := by
  unfold update at h
  split at h
  · cases h
  · rename_i ls ns ss hg
    cases h
    have := (names_distinct w old force fuel true root [] [] ls ns ss hg).1
    exact ((buildTable_locks_perm ls).map _).nodup_iff.mpr this

example : (newLockfile (ρ := Unit)
    { mt := fun _ _ => true, head := fun _ _ => none, repoMeta := fun _ _ _ => none,
      pathMeta := fun p => if p = 1 then some ⟨[⟨[5], .path 3⟩]⟩ else if p = 2 then some ⟨[⟨[5], .path 4⟩]⟩
        else if p = 3 ∨ p = 4 then some ⟨[]⟩ else none }
    8 [⟨[1], .path 1⟩, ⟨[2], .path 2⟩]).isOk = true := by decide


/-! ### T4 — the result depends on the iteration order of `metadata.dependencies` (a `HashMap`) -/

/-- The full-strength statement: permuting the dependency declarations of the root project does not
    change which name each resolved source gets. -/
def PermInvariant : Prop :=
  ∀ (w : World Unit) (t : Table) (force : Bool) (fuel : Nat) (ds ds' : List (Dep Unit))
    (r r' : List Lock × List Name × List Uuid),
    ds.Perm ds' →
    genLocks w t force fuel true ds [] [] = .ok r → genLocks w t force fuel true ds' [] [] = .ok r' →
    ∀ x, x ∈ r.1.map (fun l => (l.name, l.src)) ↔ x ∈ r'.1.map (fun l => (l.name, l.src))

/-- Witness world of finding #11: the root depends on `n1 → p1` and `n2 → p2`; `p1` declares
    `n5 → p3`, `p2` declares `n5 → p4`. -/
def witnessWorld : World Unit :=
  { mt := fun _ _ => true, head := fun _ _ => none, repoMeta := fun _ _ _ => none,
    pathMeta := fun p =>
      if p = 1 then some ⟨[⟨[5], .path 3⟩]⟩ else if p = 2 then some ⟨[⟨[5], .path 4⟩]⟩
      else if p = 3 ∨ p = 4 then some ⟨[]⟩ else none }

def witnessA : List (Dep Unit) := [⟨[1], .path 1⟩, ⟨[2], .path 2⟩]
def witnessB : List (Dep Unit) := [⟨[2], .path 2⟩, ⟨[1], .path 1⟩]

/-- (name, source) of every lock of a traversal (`[]` on error). -/
def outcome (r : GenResult) : List (Name × Src) :=
  match r with
  | .ok r => r.1.map (fun l => (l.name, l.src))
  | .error _ => []

/-- Iterating `n1` first names `p3` `n5` and `p4` `n5_0`; iterating `n2` first swaps the two names. -/
theorem C31_order_witness :
    outcome (genLocks witnessWorld [] false 8 true witnessA [] []) =
      [([1], .path 1), ([2], .path 2), ([5], .path 3), ([5, 0], .path 4)] ∧
    outcome (genLocks witnessWorld [] false 8 true witnessB [] []) =
      [([2], .path 2), ([1], .path 1), ([5], .path 4), ([5, 0], .path 3)] := by
  constructor <;> decide

/-- `perm_invariant` is FALSE of the code as modelled (DESIGN §5 #11). -/
theorem perm_invariant_false : ¬ PermInvariant := by
  intro h
  have hp : witnessA.Perm witnessB := List.Perm.swap _ _ _
  have h1 := C31_order_witness.1
  have h2 := C31_order_witness.2
  cases hA : genLocks witnessWorld [] false 8 true witnessA [] [] with
  | error e => rw [hA] at h1; simp [outcome] at h1
  | ok rA =>
    cases hB : genLocks witnessWorld [] false 8 true witnessB [] [] with
    | error e => rw [hB] at h2; simp [outcome] at h2
    | ok rB =>
      have key := h witnessWorld [] false 8 witnessA witnessB rA rB hp hA hB (([5] : Name), Src.path 3)
      rw [hA] at h1
      rw [hB] at h2
      simp only [outcome] at h1 h2
      rw [h1, h2] at key
      exact absurd key (by decide)

/-- What remains true in the witness (`perm_invariant_partial`): both orders resolve the same
    sources, each exactly once; only the assignment of the suffixed names differs. That names stay
    pairwise distinct for every order is T2 (`names_distinct`). -/
theorem perm_invariant_partial_witness :
    ((outcome (genLocks witnessWorld [] false 8 true witnessA [] [])).map (·.2)).Perm
    ((outcome (genLocks witnessWorld [] false 8 true witnessB [] [])).map (·.2)) := by
  decide

/-! ### T3 — `modified` -/

/-- `Lockfile::update` reports a modification exactly when some new lock has no lock of equal uuid
    in the old bucket of its url, or some old lock has no new lock of equal uuid. -/
theorem update_modified_iff (old : Table) (locks : List Lock) :
    modifiedBy old locks = false ↔
      (∀ l ∈ locks, ∃ x ∈ old.get l.src.key, x.src.uuid = l.src.uuid) ∧
      (∀ o ∈ old.locks, ∃ x ∈ locks, x.src.uuid = o.src.uuid) := by
  unfold modifiedBy
  simp only [Bool.or_eq_false_iff, List.any_eq_false, Bool.not_eq_eq_eq_not]
  constructor
  · intro ⟨h1, h2⟩
    exact ⟨fun l hl => by simpa using h1 l hl, fun o ho => by simpa using h2 o ho⟩
  · intro ⟨h1, h2⟩
    exact ⟨fun l hl => by simpa using h1 l hl, fun o ho => by simpa using h2 o ho⟩


/-- T3 `update_idempotent`: in a coherent world (`WorldOK`: one project per directory, versions and
    revisions of a `Veryl.pub` determine each other), updating — without `force`, with the same
    declarations iterated in the same order — the lock table that `Lockfile::new` has just built
    reproduces exactly that table and reports no modification. Every fuel, every requirement
    predicate, every dependency graph (cycles, diamonds, name clashes included). -/
theorem update_idempotent (w : World ρ) (wok : WorldOK w) (fuel : Nat) (root : List (Dep ρ)) (tb : Table)
    (h : newLockfile w fuel root = .ok tb) : update w fuel tb false root = .ok (tb, false) := by
  unfold newLockfile at h
  split at h
  · cases h
  · rename_i L ns ss hg
    cases h
    obtain ⟨ok, hroot⟩ := genLocks_ok w [] false fuel true root [] [] L ns ss hg
    have sound : ∀ l ∈ L, ∀ u p pr v r, l.src = .repo u p pr v r →
        ∃ rels, w.head u pr = some (p, some rels) ∧ (⟨v, r⟩ : Release) ∈ rels := by
      intro l hl u p pr v r hs
      obtain ⟨d, hd⟩ := ok.lockFrom l hl
      rw [hs] at hd
      exact sound_of_resolved w d u p pr v r hd
    have locked : ∀ u ∈ ss, ∃ l ∈ L, l.src.uuid = u := by
      intro u hu
      rcases ok.fromLocks u hu with h0 | h1
      · cases h0
      · exact h1
    let S : Dep ρ → Prop := fun d => d ∈ root ∨ ∃ l ∈ L, ∃ m, getMetadata w l.src = .ok m ∧ d ∈ m.deps
    let M : Meta ρ → Prop := fun m => ∃ l ∈ L, getMetadata w l.src = .ok m
    let U : Uuid → Prop := fun u => ∃ l ∈ L, l.src.uuid = u
    have ag : Agree w [] (buildTable L) false false S M U := by
      refine ⟨?_, ?_, ?_⟩
      · intro d hd
        -- the declaration was resolved in the first run, to a source whose uuid is locked
        have : ∃ x, resolveDependency w [] false d = .ok x ∧ x.src.uuid ∈ ss := by
          rcases hd with hd | ⟨l, hl, m, hm, hdm⟩
          · exact hroot d hd
          · obtain ⟨m', hm', hra⟩ := ok.lockMeta l hl
            rw [hm] at hm'
            cases hm'
            obtain ⟨x, hx, hdx⟩ := (resolveAll_forall w [] false _ _ hra).1 d hdm
            exact ⟨x, hdx, ok.depsIn l hl x hx⟩
        obtain ⟨x, hx, hin⟩ := this
        rw [hx]
        exact stable_of_locked w wok L sound d x hx (locked _ hin)
      · intro m ⟨l, hl, hm⟩ d hd
        exact Or.inr ⟨l, hl, m, hm, hd⟩
      · intro s m ⟨l, hl, hu⟩ hm
        exact ⟨l, hl, by rw [getMetadata_uuid w hu]; exact hm⟩
    have run2 := genLocks_congr ag fuel true root [] [] L ns ss hg (fun d hd => Or.inl hd) (by simp)
      (fun l hl => ⟨l, hl, rfl⟩)
    unfold update
    rw [run2]
    simp only [Except.ok.injEq, Prod.mk.injEq, true_and]
    rw [update_modified_iff]
    constructor
    · intro l hl
      refine ⟨l, ?_, rfl⟩
      rw [get_buildTable]
      apply (List.mergeSort_perm _ _).mem_iff.mpr
      simp [hl]
    · intro o ho
      exact ⟨o, (buildTable_locks_perm L).mem_iff.mp ho, rfl⟩

example : WorldOK witnessWorld :=
  { onePerDir := by intro u p1 p2 p x y h _; simp [witnessWorld] at h
    revVersion := by intro u pr p rels h; simp [witnessWorld] at h
    versionRev := by intro u pr p rels h; simp [witnessWorld] at h }

/-! #### …but an `update` is not idempotent after another `update` -/

/-- Witness world: repository 0 publishes project 1 (directory 0) as 1.2.0 (rank 8, revision 1) and
    1.10.0 (rank 10, revision 2); `p1` needs it `^1.0` (requirement 0: ranks 5…10), `p2` needs it
    `>1.2.3` (requirement 1: ranks ≥ 10). -/
def world2 : World Nat :=
  { mt := fun r v => if r = 0 then decide (5 ≤ v ∧ v ≤ 10) else decide (10 ≤ v),
    head := fun u pr => if u = 0 ∧ pr = 1 then some (0, some [⟨8, 1⟩, ⟨10, 2⟩]) else none,
    repoMeta := fun u p r => if u = 0 ∧ p = 0 ∧ (r = 1 ∨ r = 2) then some ⟨[]⟩ else none,
    pathMeta := fun p => if p = 1 then some ⟨[⟨[5], .git 0 1 0⟩]⟩ else if p = 2 then some ⟨[⟨[6], .git 0 1 1⟩]⟩ else none }

def root2 : List (Dep Nat) := [⟨[1], .path 1⟩, ⟨[2], .path 2⟩]

/-- The lock table before `p2` got its requirement: only 1.2.0 is locked. -/
def table0 : Table :=
  [(.url 0, [⟨[5], .repo 0 0 1 8 1, [], false⟩]), (.path 1, [⟨[1], .path 1, [⟨[5], .repo 0 0 1 8 1⟩], true⟩]),
   (.path 2, [⟨[2], .path 2, [], true⟩])]

/-- The table the first `update` builds from `table0` (`sort_table`: 1.10.0 before 1.2.0). -/
def table1 : Table :=
  [(.url 0, [⟨[6], .repo 0 0 1 10 2, [], false⟩, ⟨[5], .repo 0 0 1 8 1, [], false⟩]),
   (.path 1, [⟨[1], .path 1, [⟨[5], .repo 0 0 1 8 1⟩], true⟩]),
   (.path 2, [⟨[2], .path 2, [⟨[6], .repo 0 0 1 10 2⟩], true⟩])]

def modifiedOf (old : Table) (r : GenResult) : Option Bool :=
  match r with
  | .ok r => some (modifiedBy old r.1)
  | .error _ => none

example : WorldOK world2 :=
  { onePerDir := by
      intro u p1 p2 p x y h1 h2
      simp only [world2] at h1 h2
      split at h1 <;> split at h2 <;> simp_all
    revVersion := by
      intro u pr p rels h
      simp only [world2] at h
      split at h
      · cases h; decide
      · cases h
    versionRev := by
      intro u pr p rels h
      simp only [world2] at h
      split at h
      · cases h; decide
      · cases h }

/-- The first update (from `table0`) locks both releases — these are the locks of `table1` — and the
    second update, run on `table1` with the same declarations and releases, drops 1.2.0 and reports
    a modification (confirmed on the real code, finding `…higher-lock-of-project-captures-dependency`). -/
theorem C31_second_update_witness :
    outcome (genLocks world2 table0 false 8 true root2 [] []) =
      [([1], .path 1), ([2], .path 2), ([5], .repo 0 0 1 8 1), ([6], .repo 0 0 1 10 2)] ∧
    outcome (genLocks world2 table1 false 8 true root2 [] []) =
      [([1], .path 1), ([2], .path 2), ([5], .repo 0 0 1 10 2)] ∧
    modifiedOf table1 (genLocks world2 table1 false 8 true root2 [] []) = some true := by
  refine ⟨by decide, by decide, by decide⟩

def locksOf (r : GenResult) : List Lock :=
  match r with
  | .ok r => r.1
  | .error _ => []

/-- `table1` is, bucket by bucket, the sorted table of the locks of the first update. -/
theorem C31_table1_is_first_update :
    table1.locks.Perm (locksOf (genLocks world2 table0 false 8 true root2 [] [])) ∧
    (table1.map (·.1)).Nodup ∧ (∀ kv ∈ table1, ∀ l ∈ kv.2, l.src.key = kv.1) ∧
    (∀ kv ∈ table1, kv.2.Pairwise (fun a b => leDesc a b = true)) := by
  refine ⟨by decide, by decide, by decide, by decide⟩

/-- "Updating a project whose declarations have not changed reports no modification" is FALSE for a
    lock table that an earlier `update` produced (it holds for the table `new` produces, T3): `t`
    ranges over the well-formed tables holding exactly the locks of a preceding update from `t0`. -/
theorem update_after_update_false :
    ¬ (∀ (w : World Nat) (t0 t : Table) (fuel : Nat) (root : List (Dep Nat)) (r0 r : List Lock × List Name × List Uuid),
        genLocks w t0 false fuel true root [] [] = .ok r0 → t.locks.Perm r0.1 → (t.map (·.1)).Nodup →
        (∀ kv ∈ t, ∀ l ∈ kv.2, l.src.key = kv.1) → (∀ kv ∈ t, kv.2.Pairwise (fun a b => leDesc a b = true)) →
        genLocks w t false fuel true root [] [] = .ok r → modifiedBy t r.1 = false) := by
  intro h
  have w3 := C31_second_update_witness.2.2
  obtain ⟨p1, p2, p3, p4⟩ := C31_table1_is_first_update
  cases hg0 : genLocks world2 table0 false 8 true root2 [] [] with
  | error e => rw [hg0] at p1; simp only [locksOf] at p1; exact absurd p1.length_eq (by decide)
  | ok r0 =>
    rw [hg0] at p1
    simp only [locksOf] at p1
    cases hg : genLocks world2 table1 false 8 true root2 [] [] with
    | error e => rw [hg] at w3; simp [modifiedOf] at w3
    | ok r =>
      rw [hg] at w3
      simp only [modifiedOf, Option.some.injEq] at w3
      have := h world2 table0 table1 8 root2 r0 r hg0 p1 p2 p3 p4 hg
      rw [this] at w3
      cases w3

/-! ### T5 — save + load -/

/-- Well-formedness of a lock table as `sort_table` leaves a `HashMap<UrlPath, Vec<Lock>>`:
    unique keys, each lock filed under the url of its source, buckets sorted in descending source
    order, and no two locks of a bucket comparing equal (same url, project and version). -/
structure TableWF (t : Table) : Prop where
  keys : (t.map (·.1)).Nodup
  filed : ∀ kv ∈ t, ∀ l ∈ kv.2, l.src.key = kv.1
  sorted : ∀ kv ∈ t, kv.2.Pairwise (fun a b => leDesc a b = true)
  noTies : ∀ kv ∈ t, ∀ a ∈ kv.2, ∀ b ∈ kv.2, Src.cmp a.src b.src = .eq → a = b

/-- Saving and reloading reproduces every bucket of a well-formed lock table, provided the
    `visible` flags are the ones `load` recomputes (lock name is a dependency name of the root —
    true of the tables `new`/`update` build because names are distinct, T2). `toml` is assumed to
    round-trip the `projects` array. -/
theorem save_load_roundtrip (t : Table) (roots : List Name) (k : Key) (wf : TableWF t)
    (hvis : ∀ l ∈ t.locks, l.visible = roots.contains l.name) :
    (loadTable roots (saveProjects t)).get k = t.get k := by
  unfold loadTable
  rw [get_buildTable]
  -- `visible` is reproduced
  have hmap : (saveProjects t).map (fun l => { l with visible := roots.contains l.name }) = saveProjects t := by
    have : ∀ l ∈ saveProjects t, (fun l : Lock => { l with visible := roots.contains l.name }) l = l := by
      intro l hl
      have hl' : l ∈ t.locks := (List.mergeSort_perm _ _).mem_iff.mp hl
      have := hvis l hl'
      cases l
      simp_all
    rw [List.map_congr_left this]
    simp
  rw [hmap]
  have hperm : ((saveProjects t).filter (fun l => l.src.key = k)).Perm (t.get k) := by
    rw [← filter_locks_eq_get t k wf.keys wf.filed]
    exact (List.mergeSort_perm _ _).filter _
  by_cases hne : t.get k = []
  · rw [hne] at hperm ⊢
    rw [List.perm_nil.mp hperm]
    simp
  · have hb := get_bucket hne
    have hs := wf.sorted _ hb
    have ht := wf.noTies _ hb
    simp only at hs ht
    apply List.Perm.eq_of_pairwise (le := fun a b => leDesc a b = true)
    · intro a b ha hb' h1 h2
      have ha' : a ∈ t.get k := hperm.mem_iff.mp ((List.mergeSort_perm _ _).mem_iff.mp ha)
      apply ht a ha' b hb'
      rw [leDesc_iff] at h1 h2
      exact srcLe_antisymm_cmp h2 h1
    · exact List.pairwise_mergeSort leDesc_trans leDesc_total _
    · exact hs
    · exact (List.mergeSort_perm _ _).trans hperm

example : TableWF table1 := ⟨by decide, by decide, by decide, by decide⟩

example : (loadTable [[1], [2]] (saveProjects table1)).get (.url 0) = table1.get (.url 0) :=
  save_load_roundtrip table1 [[1], [2]] (.url 0) ⟨by decide, by decide, by decide, by decide⟩ (by decide)

end VerylModel.Props.C31
