import VerylModel.Core.Reloc
import VerylModel.Lemmas.Reloc
import VerylModel.Lemmas.Recurring
/-!
# C34 — reusing converted modules across tests is invisible

"Running a sequence of tests that share the converted-module cache (ProtoModuleCache, and the
CLI's DUT reuse with relocation) gives every test the same trace and verdict as converting its
design from scratch."

* `cache_hit_eq_miss` — `build_ir_cached` returns, for every test of every sequence, what
  `build_ir` returns, PROVIDED one analyzer IR serves the whole life of the cache (the cache key
  is the top module's name, and names identify components only within one `air::Ir`);
  `cache_stale_across_irs` shows the hypothesis is needed (a caller that re-analyses and keeps the
  cache gets the old design — the CLI never does, it analyses once per process).
* `relocation_commutes` (+ `_shift`, `chunk_frame`) — a chunk whose operands are all base-relative
  computes, at any other base, the same bytes in its region; a confined chunk touches nothing
  outside its region.  `relocation_alias_false`: with one aliased (absolute) operand this fails —
  which is why `port_alias_enabled` de-aliases the reuse boundary.
* `alias_decision_deterministic` — with the precomputed recurring set the alias decision of an
  instance depends on neither the test converting it nor on what was converted before;
  `recurring_set_spec` / `recurring_set_order_independent`: the precomputed set
  (`compute_recurring_set_inner`, with its early termination) is exactly "instantiated, at any
  depth, under two differently named tops" for every consistent hierarchy, hence the same for every
  order of the tops (the CLI orders them by the previous run's timings);
  `alias_first_seer_order_dependent`: the first-seer fallback (`mark_seen_and_is_recurring`) gives
  the same instance different decisions in different test orders.  The fallback is reached when
  `compute_recurring_set` was not called: library callers setting `Config::dut_reuse`, and the CLI
  for projects that have doc tests but no native test.
-/
namespace VerylModel.Props.C34
open VerylModel.Reloc

/-! ## The name-keyed cache -/

/-- For every sequence of tests `ks` over ONE analyzer IR, through one cache that starts empty,
    every test gets exactly what a from-scratch conversion gives. -/
theorem cache_hit_eq_miss {I V : Type} (build : I → Nat → Option V) (ir : I) (ks : List Nat) :
    runCached build (ks.map (fun k => (ir, k))) [] = ks.map (build ir) :=
  runCached_const build ir ks [] (cacheOk_nil _)

/-- …and from any cache filled by earlier tests of the same IR. -/
theorem cache_hit_eq_miss_from {I V : Type} (build : I → Nat → Option V) (ir : I)
    (pre ks : List Nat) :
    (runCached build ((pre ++ ks).map (fun k => (ir, k))) []).drop pre.length = ks.map (build ir) := by
  rw [cache_hit_eq_miss, List.map_append, List.drop_left']
  simp

example : runCached (fun (_ : Unit) k => if k < 3 then some (k * 10) else none)
    ([2, 7, 2, 0, 7, 2].map (fun k => ((), k))) [] = [some 20, none, some 20, some 0, none, some 20] := by
  decide

/-- The hypothesis "one IR" is needed: the same name in a second analysis hits the stale entry. -/
theorem cache_stale_across_irs :
    ¬ (∀ (build : Bool → Nat → Option Nat) (seq : List (Bool × Nat)),
        runCached build seq [] = seq.map (fun p => build p.1 p.2)) := by
  intro h
  have := h (fun ir _ => some (if ir then 1 else 2)) [(true, 0), (false, 0)]
  revert this
  decide

/-! ## Relocation -/

/-- `run (shift δ mem) = shift δ (run mem)`: the same instructions at base `b + δ` on the moved
    memory compute the moved result (any chunk without aliased operands). -/
theorem relocation_commutes_shift (b d : Base) (is : List Ins) (m : Mem)
    (h : is.all Ins.relative = true) :
    runChunk (b.add d) is (shift d m) = shift d (runChunk b is m) :=
  runChunk_shift b d is m h

/-- The region form (any two bases, so negative deltas too, and different surroundings): if the
    regions held the same bytes before, they hold the same bytes after. -/
theorem relocation_commutes (sz b1 b2 : Base) (is : List Ins) (m1 m2 : Mem)
    (hc : confined sz is = true) (h : SameRegion sz b1 b2 m1 m2) :
    SameRegion sz b1 b2 (runChunk b1 is m1) (runChunk b2 is m2) :=
  runChunk_region sz b1 b2 is m1 m2 hc h

/-- A confined chunk leaves everything outside its region alone (two instances in one parent, or
    the same child under two parents, cannot disturb each other or the padding around them). -/
theorem chunk_frame (sz b : Base) (is : List Ins) (m : Mem) (hc : confined sz is = true)
    (sp : Bool) (a : Nat) (ha : a < b.of sp ∨ b.of sp + sz.of sp ≤ a) :
    runChunk b is m sp a = m sp a :=
  runChunk_frame sz b is m hc sp a ha

def exChunk : List Ins :=
  [.addc ⟨true, 0⟩ ⟨true, 0⟩ 1, .add2 ⟨false, 1⟩ ⟨true, 0⟩ ⟨false, 0⟩, .mov ⟨true, 1⟩ ⟨false, 1⟩]

example : confined ⟨2, 2⟩ exChunk = true := by decide

example :
    let m1 : Mem := fun sp a => if sp then (if a = 4 then 9 else 0) else (if a = 10 then 5 else 0)
    let m2 : Mem := fun sp a => if sp then (if a = 40 then 9 else 77) else (if a = 3 then 5 else 66)
    (runChunk ⟨40, 3⟩ exChunk m2 true 41, runChunk ⟨40, 3⟩ exChunk m2 false 4) =
    (runChunk ⟨4, 10⟩ exChunk m1 true 5, runChunk ⟨4, 10⟩ exChunk m1 false 11) := by decide

/-- With one aliased operand (an absolute parent slot baked into the chunk) relocation is wrong:
    the copy at the new base still reads the first parent's slot. -/
theorem relocation_alias_false :
    ¬ (∀ (sz b1 b2 : Base) (is : List Ins) (m1 m2 : Mem),
        SameRegion sz b1 b2 m1 m2 → SameRegion sz b1 b2 (runChunk b1 is m1) (runChunk b2 is m2)) := by
  intro h
  have := h ⟨1, 0⟩ ⟨0, 0⟩ ⟨8, 0⟩ [.absRd ⟨true, 0⟩ false 3]
    (fun sp a => if sp then 0 else (if a = 3 then 1 else 0))
    (fun sp a => if sp then 0 else (if a = 3 then 2 else 0))
    (by intro sp off ho; cases sp <;> simp [Base.of] at ho ⊢)
  have := this true 0 (by decide)
  revert this
  decide

/-! ## Alias decision -/

/-- With the precomputed set, the decision for an instance is the same whichever test converts it
    (`top`) and whatever was converted before (`seen`), and it records nothing. -/
theorem alias_decision_deterministic (set : List Nat) (seen seen' : List (Nat × Nat))
    (comp top top' bytes minBytes : Nat) (inDut : Bool) :
    (aliasDecision (some set) seen comp top bytes minBytes inDut).1 =
      (aliasDecision (some set) seen' comp top' bytes minBytes inDut).1 ∧
    (aliasDecision (some set) seen comp top bytes minBytes inDut).2 = seen := by
  simp [aliasDecision]

/-- The first-seer fallback is order dependent: component 7 (300 bytes, floor 256) under tops 1
    and 2 — whichever top converts it first keeps it aliased, the other de-aliases it. -/
theorem alias_first_seer_order_dependent :
    let d12 := aliasDecision none [] 7 1 300 256 false
    let d12' := aliasDecision none d12.2 7 2 300 256 false
    let d21 := aliasDecision none [] 7 2 300 256 false
    let d21' := aliasDecision none d21.2 7 1 300 256 false
    -- order 1,2: top 1 aliased, top 2 de-aliased; order 2,1: the opposite
    (d12.1, d12'.1) = (true, false) ∧ (d21'.1, d21.1) = (false, true) := by
  decide

/-- `compute_recurring_set_inner` computes: the components instantiated (at any depth) under two
    differently named tops.  `K` = the instances inside each component (an `Arc<Component>` has one
    body: the hierarchy is consistent). -/
theorem recurring_set_spec (K : Nat → List Comp) (tops : List (Nat × List Comp))
    (hc : ∀ a, a ∈ tops → consKids K a.2) (x : Nat) :
    x ∈ computeRecurring tops ([], []) ↔ ∃ u v, u ≠ v ∧ Under tops u x ∧ Under tops v x := by
  rw [computeRecurring_spec K tops (fun _ _ => False) ([], []) hc (J_init K) x]
  simp

/-- Hence the set does not depend on the order in which the tops are walked. -/
theorem recurring_set_order_independent (K : Nat → List Comp) (tops tops' : List (Nat × List Comp))
    (hp : tops.Perm tops') (hc : ∀ a, a ∈ tops → consKids K a.2) (x : Nat) :
    x ∈ computeRecurring tops ([], []) ↔ x ∈ computeRecurring tops' ([], []) := by
  have hc' : ∀ a, a ∈ tops' → consKids K a.2 := fun a ha => hc a (hp.mem_iff.2 ha)
  rw [recurring_set_spec K tops hc, recurring_set_spec K tops' hc']
  have hu : ∀ u, Under tops u x ↔ Under tops' u x := by
    intro u
    constructor
    · intro ⟨a, ha, h⟩; exact ⟨a, hp.mem_iff.1 ha, h⟩
    · intro ⟨a, ha, h⟩; exact ⟨a, hp.mem_iff.2 ha, h⟩
  constructor
  · intro ⟨u, v, huv, h1, h2⟩; exact ⟨u, v, huv, (hu u).1 h1, (hu v).1 h2⟩
  · intro ⟨u, v, huv, h1, h2⟩; exact ⟨u, v, huv, (hu u).2 h1, (hu v).2 h2⟩

/-- The precomputed set itself (`compute_recurring_set_inner`) on a suite: tops 1, 2, 3; component
    10 (containing 11) under tops 1 and 2, component 11 also directly under top 3, component 12
    twice under top 3 only.  Every order of the tops gives {10, 11} (as a set). -/
def exTops : List (Nat × List Comp) :=
  [(1, [.node 10 [.node 11 []]]), (2, [.node 10 [.node 11 []]]),
   (3, [.node 11 [], .node 12 [], .node 12 []])]

/-- The suite is consistent (so the two theorems above apply to it). -/
example : ∀ a, a ∈ exTops → consKids (fun id => if id = 10 then [.node 11 []] else []) a.2 := by
  intro a ha
  simp only [exTops, List.mem_cons, List.not_mem_nil, or_false] at ha
  rcases ha with rfl | rfl | rfl <;> simp [consKids, consOne]

def sameSet (a b : List Nat) : Bool := a.all b.contains && b.all a.contains

example :
    let p (i j k : Nat) := computeRecurring [exTops[i]!, exTops[j]!, exTops[k]!] ([], [])
    sameSet (p 0 1 2) [10, 11] ∧ sameSet (p 0 2 1) [10, 11] ∧ sameSet (p 1 0 2) [10, 11] ∧
    sameSet (p 1 2 0) [10, 11] ∧ sameSet (p 2 0 1) [10, 11] ∧ sameSet (p 2 1 0) [10, 11] := by
  decide

end VerylModel.Props.C34
