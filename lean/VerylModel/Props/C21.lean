/-
C21 — AIG rewriting preserves every output function (cargo feature `aig` of veryl-synthesizer).

"With the experimental `aig` feature enabled, NPN canonicalisation returns, for every 4-input truth
table, a transform that maps the function to its canonical form, and that form is the least truth
table in the function's NPN class. Every library pattern computes its recorded truth table. Rewriting
plus technology mapping leaves the Boolean function of every output and flip-flop input unchanged."

Models: `Core/Npn.lean` (npn4.rs), `Core/Aig.lean` (graph.rs, rewrite.rs replacement step, convert.rs
cell lowering, techmap.rs template matcher). Constants and the `lower_cell` table: `Gen/Npn.lean`.

* sentence 1: `npn_canonical_spec`, `npn_canonical_least_in_class`, `perms_are_all24`, `npn_class_invariant`
* sentence 2 is a statement about a table built at run time: it is checked entry by entry by
  `hxaig lib` / `vmodel lib`; what is proved is that adapting a library pattern keeps it correct:
  `transform_pattern_spec`, `transform_pattern_wf`
* sentence 3: `mk_and_sound` (hash-consed constructor), `instantiate_pattern_sound`,
  `cut_replace_sound` (the rewrite step), `lower_cell_sound` (aigify), `techmap_cell_tables` and
  `try_match_sound` (tech mapping), `eval_words_pointwise` (the driver's evaluator = the Boolean semantics).
-/
import VerylModel.Lemmas.AigRewrite

namespace VerylModel.Props.C21
open VerylModel.Gen.Npn VerylModel.Core.Npn VerylModel.Core.Aig VerylModel.Core.AigRewrite
open VerylModel.Lemmas.Npn VerylModel.Lemmas.Aig VerylModel.Lemmas.AigRewrite

/-! ## Sentence 1 — NPN canonicalisation -/

/-- T1. For EVERY truth table: the returned transform maps the table to the returned canonical form,
the transform is one of the 768, and the canonical form is ≤ the image under each of the 768
transforms. Proof: the loops are a fold keeping the first strict minimum (`foldl_minStep_spec`, a
generic lemma) — no enumeration of tables. -/
theorem npn_canonical_spec (tt : Nat) (h : tt < 65536) :
    (npnCanonical tt).2.apply tt = (npnCanonical tt).1 ∧
    (npnCanonical tt).2 ∈ all768 ∧
    ∀ t' ∈ all768, (npnCanonical tt).1 ≤ t'.apply tt :=
  npnCanonical_spec tt h

example : (npnCanonical 0x6996).1 = 0x6996 ∧ (npnCanonical 0x8000).1 = 1 := by decide +kernel

/-- The generated `ALL_PERMS` is exactly the set of the 24 permutations of {0,1,2,3}, without repetition. -/
theorem perms_are_all24 :
    allPerms.length = 24 ∧ allPerms.Nodup ∧
    ∀ p : List Nat, p ∈ allPerms ↔ (p.length = 4 ∧ (∀ x ∈ p, x < 4) ∧ p.Nodup) := by
  refine ⟨by decide, by decide, ?_⟩
  intro p
  constructor
  · exact perms_sound p
  · rintro ⟨hlen, hlt, hnd⟩
    match p, hlen with
    | [a, b, c, d], _ =>
      exact perms_complete4 (hlt a (by simp)) (hlt b (by simp)) (hlt c (by simp)) (hlt d (by simp)) hnd

/-- The 768 transforms are closed under composition and inverse (as functions on truth tables). -/
theorem transforms_form_group :
    (∀ t1 ∈ all768, ∀ t2 ∈ all768, ∃ t3 ∈ all768, ∀ tt, t3.apply tt = t2.apply (t1.apply tt)) ∧
    (∀ t ∈ all768, ∃ t' ∈ all768, ∀ tt, tt < 65536 → t'.apply (t.apply tt) = tt) ∧
    all768.length = 768 := by
  refine ⟨?_, ?_, by decide +kernel⟩
  · intro t1 h1 t2 h2
    exact ⟨t1.comp t2, comp_mem h1 h2, comp_apply h1 h2⟩
  · intro t h
    exact ⟨t.inv, inv_mem h, fun tt htt => inv_apply h htt⟩

/-- The NPN class of `tt`: everything reachable by one of the 768 transforms. -/
def sameClass (a b : Nat) : Prop := ∃ t ∈ all768, t.apply a = b

/-- The canonical form is a member of the class and below every member: the least table of the class. -/
theorem npn_canonical_least_in_class (tt : Nat) (h : tt < 65536) :
    sameClass tt (npnCanonical tt).1 ∧ ∀ b, sameClass tt b → (npnCanonical tt).1 ≤ b := by
  obtain ⟨h1, h2, h3⟩ := npn_canonical_spec tt h
  refine ⟨⟨_, h2, h1⟩, ?_⟩
  rintro b ⟨t, ht, rfl⟩
  exact h3 t ht

/-- The canonical form depends only on the class: transformed tables have the same canonical form. -/
theorem npn_class_invariant (tt : Nat) (h : tt < 65536) (t : Transform) (ht : t ∈ all768) :
    (npnCanonical (t.apply tt)).1 = (npnCanonical tt).1 := by
  have h' : t.apply tt < 65536 := apply_lt t tt
  obtain ⟨a1, a2, a3⟩ := npn_canonical_spec tt h
  obtain ⟨b1, b2, b3⟩ := npn_canonical_spec (t.apply tt) h'
  apply Nat.le_antisymm
  · -- canon(t tt) ≤ (t1 ∘ t⁻¹)(t tt) = t1 tt = canon tt
    have := b3 _ (comp_mem (inv_mem ht) a2)
    rw [comp_apply (inv_mem ht) a2, inv_apply ht h, a1] at this
    exact this
  · -- canon tt ≤ (t2 ∘ t) tt = canon (t tt)
    have := a3 _ (comp_mem ht b2)
    rw [comp_apply ht b2, b1] at this
    exact this

/-! ## Sentence 2 — patterns -/

/-- T2. `transform_pattern(pat, t)` computes `t.apply(pat.tt())`, for every pattern (any size, any
shape) and every transform whose `perm` is a permutation. -/
theorem transform_pattern_spec (p : Pattern) (t : Transform) (ht : t.perm ∈ allPerms) :
    (transformPattern p t).tt = t.apply p.tt :=
  transformPattern_tt p t ht

example : (transformPattern ⟨[(⟨0, false⟩, ⟨1, false⟩)], ⟨4, false⟩⟩ ⟨[1, 2, 3, 0], 5, true⟩).tt
    = (⟨[1, 2, 3, 0], 5, true⟩ : Transform).apply 0x8888 := by decide +kernel

/-- Hence what `build_library` stores under the canonical key computes that key (its `debug_assert`). -/
theorem library_entry_spec (p : Pattern) (h : p.tt < 65536) :
    (transformPattern p (npnCanonical p.tt).2).tt = (npnCanonical p.tt).1 := by
  obtain ⟨h1, h2, _⟩ := npn_canonical_spec p.tt h
  rw [transform_pattern_spec p _ ((mem_all768 _).mp h2).1, h1]

/-- `transform_pattern` keeps patterns well formed (no out-of-range edge, i.e. no panic in `eval`). -/
theorem transform_pattern_wf (p : Pattern) (t : Transform) (ht : t.perm ∈ allPerms) (h : p.wf = true) :
    (transformPattern p t).wf = true := by
  have hvs : ∀ j < 4, ((varSubst t).getD j (0, false)).1 < 4 := by
    intro j hj
    rw [varSubst_getD t hj]
    exact permInv_lt ht hj
  have hedge : ∀ (e : PatEdge) (n : Nat), 4 ≤ n → e.node < n → (mapEdge (varSubst t) e).node < n := by
    intro e n hn he
    unfold mapEdge
    split
    · rename_i h4
      exact Nat.lt_of_lt_of_le (hvs _ h4) hn
    · exact he
  have hands : ∀ (ands : List (PatEdge × PatEdge)) (n : Nat), 4 ≤ n → andsWf n ands = true →
      andsWf n (ands.map fun ab => (mapEdge (varSubst t) ab.1, mapEdge (varSubst t) ab.2)) = true := by
    intro ands
    induction ands with
    | nil => intro n _ _; rfl
    | cons ab rest ih =>
      intro n hn hw
      simp only [andsWf, Bool.and_eq_true, decide_eq_true_eq] at hw
      simp only [List.map_cons, andsWf, Bool.and_eq_true, decide_eq_true_eq]
      exact ⟨⟨hedge _ n hn hw.1.1, hedge _ n hn hw.1.2⟩, ih (n + 1) (by omega) hw.2⟩
  unfold Pattern.wf at *
  simp only [Bool.and_eq_true, decide_eq_true_eq] at h
  simp only [transformPattern, Bool.and_eq_true, decide_eq_true_eq, List.length_map]
  exact ⟨hands p.ands 4 (Nat.le_refl 4) h.1, hedge _ _ (by omega) h.2⟩

/-! ## Sentence 3 — rewriting and technology mapping -/

/-- `mk_and` (constant rules, `x∧x`, `x∧¬x`, operand swap, hash-cons hit or new node) returns an edge
computing the conjunction, only ever appends nodes, and keeps the graph well formed. -/
theorem mk_and_sound (g : Aig) (hg : Good g) (a b : Nat) (ha : eNode a < g.nodes.length)
    (hb : eNode b < g.nodes.length) :
    Extends g (mkAnd g a b).1 ∧ eNode (mkAnd g a b).2 < (mkAnd g a b).1.nodes.length ∧
    ∀ env, edgeVal (evalNodes env (mkAnd g a b).1.nodes) (mkAnd g a b).2
      = (edgeVal (evalNodes env g.nodes) a && edgeVal (evalNodes env g.nodes) b) :=
  let h := mkAnd_spec hg ha hb
  ⟨h.ext, h.lt, h.val⟩

example : Good Aig.new := ⟨rfl, fun i a b h => by
  cases i with
  | zero => simp [Aig.new] at h
  | succ i => simp [Aig.new] at h⟩

/-- Appending nodes never changes the function of an existing edge ("every node function above it"
of the brief: what was established for earlier nodes stays true while the new graph grows). -/
theorem extends_preserves (g g' : Aig) (h : Extends g g') (e : Nat) (he : eNode e < g.nodes.length)
    (env : Nat → Bool) : edgeVal (evalNodes env g'.nodes) e = edgeVal (evalNodes env g.nodes) e :=
  h.edgeVal env he

/-- `instantiate_pattern` returns an edge computing the pattern's Boolean function of the functions of
the four variable edges (`ve`), for every pattern. -/
theorem instantiate_pattern_sound (g : Aig) (hg : Good g) (pat : Pattern) (ve : List Nat)
    (V : (Nat → Bool) → List Bool) (hlen : ∀ env, (V env).length = ve.length)
    (hv : ∀ k, Has g (ve.getD k const0) (fun env => (V env).getD k false)) :
    Extends g (instantiatePattern g pat ve).1 ∧
    Has (instantiatePattern g pat ve).1 (instantiatePattern g pat ve).2 (fun env => evalB pat (V env)) :=
  instantiatePattern_has hg ⟨hlen, hv⟩ pat

/-- T3. The rewrite step. `old` is the graph being rewritten, `root` one of its nodes, `leaves` a cut
of `root` (`coveredVals`: every path from `root` towards the inputs meets a leaf) with at most four
leaves whose table `compute_cut_tt` returned `f`; `pat` is ANY pattern whose table is the image of `f`
under `t` (in the code: `(c, t) = npn_canonical(f)`, `pat = lookup_canonical(c)`); `leafEdges` are edges of
the new graph `g` already computing the leaves' functions. Then the edge `try_library_rewrite` builds
(`instantiate_pattern(…, var_edges).negate_if(t.out_neg)`) computes the function of `root`, and the
new graph is an extension of `g` (so every earlier correspondence persists, `extends_preserves`). -/
theorem cut_replace_sound (old : List Node) (hto : Topo old) (root : Nat) (hroot : root < old.length)
    (leaves : List Nat) (hl : leaves.length ≤ 4)
    (hcov : (coveredVals leaves (old.take (root + 1))).getD root false = true)
    (f : Nat) (hf : cutTt old root leaves = some f)
    (pat : Pattern) (t : Transform) (htp : t.perm ∈ allPerms) (hpat : pat.tt = t.apply f)
    (g : Aig) (hg : Good g) (leafEdges : List Nat) (hlen : leafEdges.length = leaves.length)
    (hinv : ∀ i, i < leaves.length →
      Has g (leafEdges.getD i const0) (fun env => (evalNodes env old).getD (leaves.getD i 0) false)) :
    Extends g (replaceCut g pat leafEdges t).1 ∧
      Has (replaceCut g pat leafEdges t).1 (replaceCut g pat leafEdges t).2
        (fun env => (evalNodes env old).getD root false) :=
  cut_replace old hto root hroot leaves hl hcov f hf pat t htp hpat g hg leafEdges hlen hinv

/-- …instantiated with what the code uses: the canonical transform and a library entry for the canonical key. -/
theorem cut_replace_sound_canonical (old : List Node) (hto : Topo old) (root : Nat) (hroot : root < old.length)
    (leaves : List Nat) (hl : leaves.length ≤ 4)
    (hcov : (coveredVals leaves (old.take (root + 1))).getD root false = true)
    (f : Nat) (hf : cutTt old root leaves = some f) (hf16 : f < 65536)
    (pat : Pattern) (hpat : pat.tt = (npnCanonical f).1)
    (g : Aig) (hg : Good g) (leafEdges : List Nat) (hlen : leafEdges.length = leaves.length)
    (hinv : ∀ i, i < leaves.length →
      Has g (leafEdges.getD i const0) (fun env => (evalNodes env old).getD (leaves.getD i 0) false)) :
    Has (replaceCut g pat leafEdges (npnCanonical f).2).1 (replaceCut g pat leafEdges (npnCanonical f).2).2
        (fun env => (evalNodes env old).getD root false) := by
  obtain ⟨h1, h2, _⟩ := npn_canonical_spec f hf16
  exact (cut_replace_sound old hto root hroot leaves hl hcov f hf pat _ ((mem_all768 _).mp h2).1
    (by rw [hpat, h1]) g hg leafEdges hlen hinv).2

/-- A concrete instance of the hypotheses: `(a∧b)∧(a∧c)` over the cut {a,b,c}. -/
example :
    let old := [Node.const, .input 10, .input 11, .input 12, .and 2 4, .and 2 6, .and 8 10]
    wfFrom 0 old = true ∧ (coveredVals [1, 2, 3] (old.take 7)).getD 6 false = true ∧
      cutTt old 6 [1, 2, 3] = some 0x8080 := by decide +kernel

/-- Every cut `enumerate_cuts` lists for node `i` is a cut: the trivial `{i}`, or at most … leaves, all
below `i`, such that every path from `i` towards the inputs meets one (`Covers`). `merge_cuts` is the
union of two leaf sets; `sort_by`/`dedup_by`/`truncate` only select among candidates. -/
theorem enumerate_cuts_are_cuts (nodes : List Node) (ht : Topo nodes) (i : Nat) (c : Cut)
    (hc : c ∈ (enumerateCuts nodes).getD i []) :
    c.leaves = [i] ∨ ((∀ l ∈ c.leaves, l < i) ∧ Covers nodes c.leaves i) :=
  enumerateCuts_ok nodes ht i c hc

/-- The whole pass `rewrite::rewrite` (cut enumeration, library replacement with "best" selection,
plain re-hashing otherwise, sink rewiring, `compact`) — the model that `vmodel aig` shows to produce
node for node the graphs of the real pass: for EVERY graph in topological order with sinks in range and
EVERY library whose entries compute their keys (sentence 2, checked entry by entry at run time), every
sink keeps its target net and its Boolean function under every input valuation. -/
theorem rewrite_sound (lib : Nat → Option Pattern) (hlib : ∀ k p, lib k = some p → p.tt = k) (old : Aig)
    (hwf : old.wf = true) (hs : ∀ s ∈ old.sinks, eNode s.2 < old.nodes.length) (env : Nat → Bool) :
    (rewrite lib old).sinks.map (fun s => (s.1, edgeVal (evalNodes env (rewrite lib old).nodes) s.2))
      = old.sinks.map (fun s => (s.1, edgeVal (evalNodes env old.nodes) s.2)) :=
  rewrite_sound_all lib hlib old (wf_topo hwf) hs env

example : (⟨[Node.const, .input 10, .input 11, .and 2 4], [(7, 6)]⟩ : Aig).wf = true := by decide

/-- `lower_cell` of `aigify` (the generated table `lowerTable`, replayed by `lowerExpr`) returns an
edge computing the documented function of the cell kind, for all 22 kinds. -/
theorem lower_cell_sound (g : Aig) (hg : Good g) (kind : Nat) (hk : kind < 22) (x : List Nat)
    (X : (Nat → Bool) → List Bool) (hx : ∀ k, Has g (x.getD k const0) (fun env => (X env).getD k false))
    (hX : ∀ env, (X env).length ≤ 4) (r : Aig × Nat) (hr : lowerCell g kind x = some r) :
    Extends g r.1 ∧ Has r.1 r.2 (fun env => cellEval kind (X env)) := by
  unfold lowerCell at hr
  cases he : lowerTable[kind]? with
  | none => rw [he] at hr; simp at hr
  | some e =>
    rw [he] at hr
    simp only [Option.map_some, Option.some.injEq] at hr
    subst hr
    obtain ⟨h1, h2⟩ := lowerExpr_has x X e hg hx
    refine ⟨h1, h2.congr ?_⟩
    intro env
    -- the tree and the cell agree on every row of (at most) four inputs
    have hrow : ∀ a b c d : Bool, evalExpr [a, b, c, d] e = cellEval kind [a, b, c, d] := by
      intro a b c d
      obtain ⟨m, hm, hb⟩ := exists_bits4 a b c d
      have h := lowerTable_chk
      simp only [List.all_eq_true, List.mem_range, beq_iff_eq] at h
      have := h kind hk m hm
      rw [he, hb] at this
      simpa using this
    have hget : ∀ k, (X env).getD k false
        = [(X env).getD 0 false, (X env).getD 1 false, (X env).getD 2 false, (X env).getD 3 false].getD k false := by
      intro k
      match k with
      | 0 => rfl
      | 1 => rfl
      | 2 => rfl
      | 3 => rfl
      | k + 4 =>
        have : (X env).length ≤ k + 4 := Nat.le_trans (hX env) (by omega)
        rw [List.getD_eq_getElem?_getD, List.getElem?_eq_none this]
        rfl
    have e1 := evalExpr_congr e hget
    have e2 := cellEval_congr kind hget
    rw [e1, e2, hrow]

/-- The modelled kinds are the generated `CellKind` enumeration (arity by arity). -/
theorem cell_kinds_covered : cellArityModel = cellArity ∧ lowerTable.length = cellArity.length := by decide

/-- Truth table (over `VAR_TT`) of a cell kind, by the word-level evaluator. -/
def cellTt (kind : Nat) : Nat := cellEvalW 65535 kind varTt

/-- T4 (finite form). Tables of the cells `techmap.rs` emits = tables of the AND-structures they replace
(`x0..x3` the cell inputs in the order of `CompoundMatch::inputs`, `¬` = `not16`):
And3, Oa21 (inputs already complemented by the matcher), Aoi21, Aoi22, Or2/Nor2 over complemented fan-ins,
Xor2/Xnor2 for both AIG shapes, Mux2. -/
theorem techmap_cell_tables :
    let x0 := varTt.getD 0 0; let x1 := varTt.getD 1 0; let x2 := varTt.getD 2 0; let x3 := varTt.getD 3 0
    cellTt kAnd3 = ((x0 &&& x1) &&& x2) ∧
    cellTt kOa21 = (not16 (not16 x0 &&& not16 x1) &&& x2) ∧
    cellTt kAoi21 = (not16 (x0 &&& x1) &&& not16 x2) ∧
    cellTt kAoi22 = (not16 (x0 &&& x1) &&& not16 (x2 &&& x3)) ∧
    cellTt kNor2 = (not16 x0 &&& not16 x1) ∧
    cellTt kOr2 = not16 (not16 x0 &&& not16 x1) ∧
    cellTt kXor2 = (not16 (x0 &&& x1) &&& not16 (not16 x0 &&& not16 x1)) ∧
    cellTt kXnor2 = (not16 (x0 &&& not16 x1) &&& not16 (not16 x0 &&& x1)) ∧
    cellTt kMux2 = not16 (not16 (x0 &&& x2) &&& not16 (not16 x0 &&& x1)) ∧
    cellTt kAnd2 = (x0 &&& x1) ∧ cellTt kNot = not16 x0 ∧ cellTt kBuf = x0 := by
  decide +kernel

/-- T4 (general form). Whatever `try_match` returns for an AND node — given that `inner_of` reported
fan-ins that really are ANDs of the recorded edges — the emitted cell, fed with the values of
`CompoundMatch::inputs`, computes the node's function, complemented iff `output_is_negated`.
Covers `match_xor_pair`, `match_mux_pair`, `pick_xor_polarity`, `pick_or_polarity` and the 2-, 3- and
4-input families, for arbitrary graphs. -/
theorem try_match_sound (vals : List Bool) (fanin0 fanin1 : Nat) (in0 in1 : Option InnerAnd) (pos neg : Nat)
    (h0 : InnerOk vals fanin0 in0) (h1 : InnerOk vals fanin1 in1) (m : CompoundMatch)
    (hm : tryMatch fanin0 fanin1 in0 in1 pos neg = some m) :
    cellEval m.kind (m.inputs.map (edgeVal vals))
      = ((edgeVal vals fanin0 && edgeVal vals fanin1) ^^ m.outputIsNegated) :=
  tryMatch_sound vals fanin0 fanin1 in0 in1 pos neg h0 h1 hm

example : InnerOk [false, true, false, true] 6 none ∧
    tryMatch 7 5 none none 0 1 = some ⟨kOr2, [6, 4], [], true⟩ := by
  refine ⟨fun a h => by simp at h, by decide⟩

/-- The evaluators `vmodel rewrite` runs (one machine word per net, bit `j` = test vector `j`) are the
Boolean semantics used in the theorems above, bit by bit — for AIGs and for cell netlists. -/
theorem eval_words_pointwise (mask j : Nat) (hj : mask.testBit j = true) :
    (∀ (envW : Nat → Nat) (nodes : List Node),
      (evalNodesW mask envW nodes).map (·.testBit j) = evalNodes (fun o => (envW o).testBit j) nodes) ∧
    (∀ (vals : List Nat) (e : Nat), (edgeW mask vals e).testBit j = edgeVal (vals.map (·.testBit j)) e) ∧
    (∀ (inputs : List Nat) (cells : List (Nat × List Nat)),
      (evalCellsW mask inputs cells).map (·.testBit j) = evalCells (inputs.map (·.testBit j)) cells) :=
  ⟨fun envW nodes => evalNodesW_testBit mask envW nodes j hj,
   fun vals e => edgeW_testBit mask vals e j hj,
   fun inputs cells => evalCellsW_testBit mask inputs cells j hj⟩

example : (2 ^ 16 - 1 : Nat).testBit 5 = true := by decide

end VerylModel.Props.C21
