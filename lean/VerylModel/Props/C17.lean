import VerylModel.Lemmas.BitsEq
import VerylModel.Lemmas.BitsShiftArm
import VerylModel.Lemmas.BitsRel
import VerylModel.Lemmas.BitsDiv
import VerylModel.Lemmas.BitsStruct
import VerylModel.Lemmas.BitsPow
import VerylModel.Lemmas.BitsProps
/-!
C17 — compile-time evaluation follows IEEE 1800.

For every operator three kinds of statements (no bound on widths anywhere):
* `big_eq_ref_<op>` : the BigUint arm of op.rs, run on operands already sized to `w` (ANY `w`,
                      also ≤ 64), yields the IEEE value `Ref.<op>BV`;
* `u64_eq_big_<op>` : for `w ≤ 64` the U64 arm yields exactly what the BigUint arm yields (the
                      two representations agree on every value both can hold); `u64_eq_ref_<op>`
                      follows;
* `C17_<op>`        : end to end — `Op::eval_value_binary/unary` on canonical `Value`s (prologue
                      `expand`, representation dispatch, arm) returns `some v` (no panic) and `v`
                      is the IEEE value `Ref.<op> x y w s`.
Deviations of the unchanged tree are kept as `C17_<op>_witness` (negation on a concrete input) next
to a `_partial` theorem stating what does hold.
-/
namespace VerylModel.Props.C17
open VerylModel.Bits VerylModel.Bits.Ref VerylModel.Bits.Impl

/-! ## expand -/

/-- `Value::expand` = IEEE extension (§11.6.1/§11.8.2) for both representations, all widths,
    including the unsized fill literals; never panics on canonical values. -/
theorem expand_eq_ext (x : Val) (w : Nat) (us : Bool) (hc : x.canon) (hw : x.width ≤ w) (hw0 : 0 < w) :
    ∃ v, expand x w us = some v ∧ v.v.toBV = ext x.v w us ∧ v.isBig = decide (64 < w) ∧ v.v.wf := by
  obtain ⟨v, h1, h2, h3, _, h5, _⟩ := expand_spec x w us hc hw hw0
  exact ⟨v, h1, h2, h3, h5⟩

/-- The ≤64 arm of `expand` and the >64 arm compute the same extension (`w ≤ 64`). -/
theorem u64_eq_big_expand (x : V4) (w : Nat) (us : Bool) (h0 : 0 < x.width) (hw : x.width ≤ w)
    (h64 : w ≤ 64) : U64.signExt x w us = Big.signExt x w us :=
  U64.signExt_eq_big x w us h0 hw h64

example : (Val.u64 ⟨8, 0xf6, 0, true⟩).canon ∧ (8 : Nat) ≤ 68 := by
  refine ⟨⟨by decide, ?_⟩, by decide⟩
  simp only [V4.wfIn]; decide

/-! ## + - * -/

theorem big_eq_ref_add (a b : V4) (w : Nat) (s : Bool) (hwa : a.width = w) (hwb : b.width = w) :
    (Big.addOp a b w s).toBV = arithBV (· + ·) a.toBV b.toBV w s := Big.addOp_eq_ref a b w s hwa hwb

theorem u64_eq_big_add (a b : V4) (w : Nat) (s : Bool) (h : w ≤ 64) :
    U64.addOp a b w s = Big.addOp a b w s := U64.addOp_eq_big a b w s h

theorem u64_eq_ref_add (a b : V4) (w : Nat) (s : Bool) (h : w ≤ 64) (hwa : a.width = w)
    (hwb : b.width = w) : (U64.addOp a b w s).toBV = arithBV (· + ·) a.toBV b.toBV w s := by
  rw [u64_eq_big_add a b w s h]; exact big_eq_ref_add a b w s hwa hwb

theorem C17_add (x y : Val) (w : Nat) (s : Bool) (hx : x.canon) (hy : y.canon)
    (hwx : x.width ≤ w) (hwy : y.width ≤ w) (hw0 : 0 < w) :
    ∃ v, evalBinary .Add x y w s = some v ∧ v.v.toBV = Ref.add x.v y.v w s := by
  obtain ⟨v, h1, h2, _⟩ := ctxArm_eq_ref x y w s (fun a b => some (U64.addOp a b w s))
    (fun a b => some (Big.addOp a b w s)) (fun a b => arithBV (· + ·) a b w s) hx hy hwx hwy hw0
    (fun a b _ _ hwa hwb => ⟨_, rfl, big_eq_ref_add a b w s hwa hwb⟩)
    (fun h a b _ _ _ _ => by rw [u64_eq_big_add a b w s h])
  exact ⟨v, h1, h2⟩

theorem big_eq_ref_sub (a b : V4) (w : Nat) (s : Bool) (hwa : a.width = w) (hwb : b.width = w)
    (hb : b.wf) : (Big.subOp a b w s).toBV = arithBV (· - ·) a.toBV b.toBV w s :=
  Big.subOp_eq_ref a b w s hwa hwb hb

theorem u64_eq_big_sub (a b : V4) (w : Nat) (s : Bool) (h : w ≤ 64) (hwb : b.width = w) (hb : b.wf) :
    U64.subOp a b w s = Big.subOp a b w s :=
  U64.subOp_eq_big a b w s h (by rw [← hwb]; exact hb.1)

theorem u64_eq_ref_sub (a b : V4) (w : Nat) (s : Bool) (h : w ≤ 64) (hwa : a.width = w)
    (hwb : b.width = w) (hb : b.wf) :
    (U64.subOp a b w s).toBV = arithBV (· - ·) a.toBV b.toBV w s := by
  rw [u64_eq_big_sub a b w s h hwb hb]; exact big_eq_ref_sub a b w s hwa hwb hb

theorem C17_sub (x y : Val) (w : Nat) (s : Bool) (hx : x.canon) (hy : y.canon)
    (hwx : x.width ≤ w) (hwy : y.width ≤ w) (hw0 : 0 < w) :
    ∃ v, evalBinary .Sub x y w s = some v ∧ v.v.toBV = Ref.sub x.v y.v w s := by
  obtain ⟨v, h1, h2, _⟩ := ctxArm_eq_ref x y w s (fun a b => some (U64.subOp a b w s))
    (fun a b => some (Big.subOp a b w s)) (fun a b => arithBV (· - ·) a b w s) hx hy hwx hwy hw0
    (fun a b _ hb hwa hwb => ⟨_, rfl, big_eq_ref_sub a b w s hwa hwb hb⟩)
    (fun h a b _ hb _ hwb => by rw [u64_eq_big_sub a b w s h hwb hb])
  exact ⟨v, h1, h2⟩

theorem big_eq_ref_mul (a b : V4) (w : Nat) (s : Bool) (hwa : a.width = w) (hwb : b.width = w) :
    (Big.mulOp a b w s).toBV = arithBV (· * ·) a.toBV b.toBV w s := Big.mulOp_eq_ref a b w s hwa hwb

theorem u64_eq_big_mul (a b : V4) (w : Nat) (s : Bool) (h : w ≤ 64) :
    U64.mulOp a b w s = Big.mulOp a b w s := U64.mulOp_eq_big a b w s h

theorem u64_eq_ref_mul (a b : V4) (w : Nat) (s : Bool) (h : w ≤ 64) (hwa : a.width = w)
    (hwb : b.width = w) : (U64.mulOp a b w s).toBV = arithBV (· * ·) a.toBV b.toBV w s := by
  rw [u64_eq_big_mul a b w s h]; exact big_eq_ref_mul a b w s hwa hwb

theorem C17_mul (x y : Val) (w : Nat) (s : Bool) (hx : x.canon) (hy : y.canon)
    (hwx : x.width ≤ w) (hwy : y.width ≤ w) (hw0 : 0 < w) :
    ∃ v, evalBinary .Mul x y w s = some v ∧ v.v.toBV = Ref.mul x.v y.v w s := by
  obtain ⟨v, h1, h2, _⟩ := ctxArm_eq_ref x y w s (fun a b => some (U64.mulOp a b w s))
    (fun a b => some (Big.mulOp a b w s)) (fun a b => arithBV (· * ·) a b w s) hx hy hwx hwy hw0
    (fun a b _ _ hwa hwb => ⟨_, rfl, big_eq_ref_mul a b w s hwa hwb⟩)
    (fun h a b _ _ _ _ => by rw [u64_eq_big_mul a b w s h])
  exact ⟨v, h1, h2⟩

/-- Wrap-around: the sum of two known `w`-bit operands is their sum modulo `2^w`. -/
theorem add_wraps (a b : V4) (w : Nat) (s : Bool) (hwa : a.width = w) (hwb : b.width = w)
    (ha : a.mask = 0) (hb : b.mask = 0) :
    (Big.addOp a b w s).toBV = ⟨w, (a.payload + b.payload) % 2 ^ w, 0⟩ := by
  rw [big_eq_ref_add a b w s hwa hwb, arithBV_known _ _ _ _ _ ha hb]
  exact ofInt_add a.toBV b.toBV w s hwa hwb

/-! ## & | ^ ~^ ~ (bitwise, §11.4.8: per-bit truth tables incl. X/Z) -/

theorem big_eq_ref_band (a b : V4) (w : Nat) (ha : a.wf) (hb : b.wf) (hwa : a.width = w)
    (hwb : b.width = w) : (Big.andOp a b w).toBV = bitwiseBV B4.and a.toBV b.toBV w :=
  Big.andOp_eq_ref a b w ha hb hwa hwb

theorem u64_eq_big_band (a b : V4) (w : Nat) (h64 : w ≤ 64) (ha : a.wf) (hb : b.wf)
    (hwa : a.width = w) (hwb : b.width = w) : U64.andOp a b w = Big.andOp a b w :=
  U64.andOp_eq_big a b w h64 ha hb hwa hwb

theorem u64_eq_ref_band (a b : V4) (w : Nat) (h64 : w ≤ 64) (ha : a.wf) (hb : b.wf)
    (hwa : a.width = w) (hwb : b.width = w) :
    (U64.andOp a b w).toBV = bitwiseBV B4.and a.toBV b.toBV w := by
  rw [u64_eq_big_band a b w h64 ha hb hwa hwb]; exact big_eq_ref_band a b w ha hb hwa hwb

theorem C17_band (x y : Val) (w : Nat) (s : Bool) (hx : x.canon) (hy : y.canon)
    (hwx : x.width ≤ w) (hwy : y.width ≤ w) (hw0 : 0 < w) :
    ∃ v, evalBinary .BitAnd x y w s = some v ∧ v.v.toBV = Ref.band x.v y.v w s := by
  rw [evalBinary_band_eq x y w s hwx hwy]
  obtain ⟨v, h1, h2, _⟩ := ctxArm_eq_ref x y w s (fun a b => some (U64.andOp a b w))
    (fun a b => some (Big.andOp a b w)) (fun a b => bitwiseBV B4.and a b w) hx hy hwx hwy hw0
    (fun a b ha hb hwa hwb => ⟨_, rfl, big_eq_ref_band a b w ha hb hwa hwb⟩)
    (fun h a b ha hb hwa hwb => by rw [u64_eq_big_band a b w h ha hb hwa hwb])
  exact ⟨v, h1, h2⟩

theorem big_eq_ref_bor (a b : V4) (w : Nat) (ha : a.wf) (hb : b.wf) (hwa : a.width = w)
    (hwb : b.width = w) : (Big.orOp a b w).toBV = bitwiseBV B4.or a.toBV b.toBV w :=
  Big.orOp_eq_ref a b w ha hb hwa hwb

theorem u64_eq_big_bor (a b : V4) (w : Nat) (h64 : w ≤ 64) (ha : a.wf) (hb : b.wf)
    (hwa : a.width = w) (hwb : b.width = w) : U64.orOp a b w = Big.orOp a b w :=
  U64.orOp_eq_big a b w h64 ha hb hwa hwb

theorem u64_eq_ref_bor (a b : V4) (w : Nat) (h64 : w ≤ 64) (ha : a.wf) (hb : b.wf)
    (hwa : a.width = w) (hwb : b.width = w) :
    (U64.orOp a b w).toBV = bitwiseBV B4.or a.toBV b.toBV w := by
  rw [u64_eq_big_bor a b w h64 ha hb hwa hwb]; exact big_eq_ref_bor a b w ha hb hwa hwb

theorem C17_bor (x y : Val) (w : Nat) (s : Bool) (hx : x.canon) (hy : y.canon)
    (hwx : x.width ≤ w) (hwy : y.width ≤ w) (hw0 : 0 < w) :
    ∃ v, evalBinary .BitOr x y w s = some v ∧ v.v.toBV = Ref.bor x.v y.v w s := by
  obtain ⟨v, h1, h2, _⟩ := ctxArm_eq_ref x y w s (fun a b => some (U64.orOp a b w))
    (fun a b => some (Big.orOp a b w)) (fun a b => bitwiseBV B4.or a b w) hx hy hwx hwy hw0
    (fun a b ha hb hwa hwb => ⟨_, rfl, big_eq_ref_bor a b w ha hb hwa hwb⟩)
    (fun h a b ha hb hwa hwb => by rw [u64_eq_big_bor a b w h ha hb hwa hwb])
  exact ⟨v, h1, h2⟩

theorem big_eq_ref_bxor (a b : V4) (w : Nat) (ha : a.wf) (hb : b.wf) (hwa : a.width = w)
    (hwb : b.width = w) : (Big.xorOp a b w).toBV = bitwiseBV B4.xor a.toBV b.toBV w :=
  Big.xorOp_eq_ref a b w ha hb hwa hwb

theorem u64_eq_big_bxor (a b : V4) (w : Nat) (h64 : w ≤ 64) (ha : a.wf) (hb : b.wf)
    (hwa : a.width = w) (hwb : b.width = w) : U64.xorOp a b w = Big.xorOp a b w :=
  U64.xorOp_eq_big a b w h64 ha hb hwa hwb

theorem u64_eq_ref_bxor (a b : V4) (w : Nat) (h64 : w ≤ 64) (ha : a.wf) (hb : b.wf)
    (hwa : a.width = w) (hwb : b.width = w) :
    (U64.xorOp a b w).toBV = bitwiseBV B4.xor a.toBV b.toBV w := by
  rw [u64_eq_big_bxor a b w h64 ha hb hwa hwb]; exact big_eq_ref_bxor a b w ha hb hwa hwb

theorem C17_bxor (x y : Val) (w : Nat) (s : Bool) (hx : x.canon) (hy : y.canon)
    (hwx : x.width ≤ w) (hwy : y.width ≤ w) (hw0 : 0 < w) :
    ∃ v, evalBinary .BitXor x y w s = some v ∧ v.v.toBV = Ref.bxor x.v y.v w s := by
  obtain ⟨v, h1, h2, _⟩ := ctxArm_eq_ref x y w s (fun a b => some (U64.xorOp a b w))
    (fun a b => some (Big.xorOp a b w)) (fun a b => bitwiseBV B4.xor a b w) hx hy hwx hwy hw0
    (fun a b ha hb hwa hwb => ⟨_, rfl, big_eq_ref_bxor a b w ha hb hwa hwb⟩)
    (fun h a b ha hb hwa hwb => by rw [u64_eq_big_bxor a b w h ha hb hwa hwb])
  exact ⟨v, h1, h2⟩

theorem big_eq_ref_bxnor (a b : V4) (w : Nat) (ha : a.wf) (hb : b.wf) (hwa : a.width = w)
    (hwb : b.width = w) : (Big.xnorOp a b w).toBV = bitwiseBV B4.xnor a.toBV b.toBV w :=
  Big.xnorOp_eq_ref a b w ha hb hwa hwb

theorem u64_eq_big_bxnor (a b : V4) (w : Nat) (h64 : w ≤ 64) (ha : a.wf) (hb : b.wf)
    (hwa : a.width = w) (hwb : b.width = w) : U64.xnorOp a b w = Big.xnorOp a b w :=
  U64.xnorOp_eq_big a b w h64 ha hb hwa hwb

theorem u64_eq_ref_bxnor (a b : V4) (w : Nat) (h64 : w ≤ 64) (ha : a.wf) (hb : b.wf)
    (hwa : a.width = w) (hwb : b.width = w) :
    (U64.xnorOp a b w).toBV = bitwiseBV B4.xnor a.toBV b.toBV w := by
  rw [u64_eq_big_bxnor a b w h64 ha hb hwa hwb]; exact big_eq_ref_bxnor a b w ha hb hwa hwb

theorem C17_bxnor (x y : Val) (w : Nat) (s : Bool) (hx : x.canon) (hy : y.canon)
    (hwx : x.width ≤ w) (hwy : y.width ≤ w) (hw0 : 0 < w) :
    ∃ v, evalBinary .BitXnor x y w s = some v ∧ v.v.toBV = Ref.bxnor x.v y.v w s := by
  obtain ⟨v, h1, h2, _⟩ := ctxArm_eq_ref x y w s (fun a b => some (U64.xnorOp a b w))
    (fun a b => some (Big.xnorOp a b w)) (fun a b => bitwiseBV B4.xnor a b w) hx hy hwx hwy hw0
    (fun a b ha hb hwa hwb => ⟨_, rfl, big_eq_ref_bxnor a b w ha hb hwa hwb⟩)
    (fun h a b ha hb hwa hwb => by rw [u64_eq_big_bxnor a b w h ha hb hwa hwb])
  exact ⟨v, h1, h2⟩

theorem big_eq_ref_bnot (a : V4) (w : Nat) (ha : a.wf) (hwa : a.width = w) :
    (Big.bitNot a w).toBV = bnotBV a.toBV w := Big.bitNot_eq_ref a w ha hwa

theorem u64_eq_big_bnot (a : V4) (w : Nat) (h64 : w ≤ 64) : U64.bitNot a w = Big.bitNot a w :=
  U64.bitNot_eq_big a w h64

theorem u64_eq_ref_bnot (a : V4) (w : Nat) (h64 : w ≤ 64) (ha : a.wf) (hwa : a.width = w) :
    (U64.bitNot a w).toBV = bnotBV a.toBV w := by
  rw [u64_eq_big_bnot a w h64]; exact big_eq_ref_bnot a w ha hwa

theorem C17_bnot (x : Val) (w : Nat) (s : Bool) (hx : x.canon) (hwx : x.width ≤ w) (hw0 : 0 < w) :
    ∃ v, evalUnary .BitNot x w s = some v ∧ v.v.toBV = Ref.bnot x.v w s := by
  obtain ⟨a, ha, hawf, hwa, he⟩ := unaryCtx_spec x w s hx hwx hw0
  simp only [evalUnary, he, Option.bind_eq_bind, Option.bind_some]
  by_cases h : 64 < w
  · simp only [h, if_true]
    exact ⟨_, rfl, by rw [Val.v_big, big_eq_ref_bnot a w hawf hwa, ha]; rfl⟩
  · simp only [h, if_false]
    exact ⟨_, rfl, by rw [Val.v_u64, u64_eq_ref_bnot a w (by omega) hawf hwa, ha]; rfl⟩

/-- Unary plus is the extension of its operand. -/
theorem C17_plus (x : Val) (w : Nat) (s : Bool) (hx : x.canon) (hwx : x.width ≤ w) (hw0 : 0 < w) :
    ∃ v, evalUnary .Add x w s = some v ∧ v.v.toBV = Ref.plus x.v w s := by
  obtain ⟨v, h1, h2, _⟩ := expand_spec x w s hx hwx hw0
  exact ⟨v, h1, h2⟩

/-! ## && || ! (logical, §11.4.7) -/


/-- `||` is IEEE-exact (3-valued, §11.4.7) for every width, X/Z included. -/
theorem C17_lor (x y : Val) (w : Nat) (s : Bool) (hx : x.canon) (hy : y.canon)
    (h0x : 0 < x.width) (h0y : 0 < y.width) (hw0 : 0 < w) :
    ∃ v, evalBinary .LogicOr x y w s = some v ∧ v.v.toBV = Ref.lor x.v y.v w := by
  have hW : 0 < max x.width y.width := by omega
  obtain ⟨a, b, ha, hb, hawf, hbwf, hwa, hwb, harm⟩ :=
    cmpArm_spec x y w false U64.newBit1x (fun a b => some (U64.lorFlags a b))
      (fun a b => some (Big.lorFlags a b)) hx hy hW
  obtain ⟨tx, tx64⟩ := lflags_spec x a _ hx h0x (Nat.le_max_left _ _) ha hwa
  obtain ⟨ty, ty64⟩ := lflags_spec y b _ hy h0y (Nat.le_max_right _ _) hb hwb
  show ∃ v, cmpArm x y w false U64.newBit1x _ _ = some v ∧ _
  by_cases h : 64 < max x.width y.width
  · rw [harm _ _ (by rw [if_pos h])]
    obtain ⟨v, hv1, hv2⟩ := finishBit_1x
      (((a.payload &&& (a.mask ^^^ Big.genMask a.width)) != 0) || ((b.payload &&& (b.mask ^^^ Big.genMask b.width)) != 0))
      (a.mask != 0 || b.mask != 0) w hw0
    exact ⟨v, hv1, by rw [hv2, lor_flags, ← tx, ← ty]; rfl⟩
  · rw [harm _ _ (by rw [if_neg h])]
    obtain ⟨v, hv1, hv2⟩ := finishBit_1x
      (((a.payload &&& U64.not a.mask) != 0) || ((b.payload &&& U64.not b.mask) != 0))
      (a.mask != 0 || b.mask != 0) w hw0
    exact ⟨v, hv1, by rw [hv2, lor_flags, ← tx64 (by omega), ← ty64 (by omega)]; rfl⟩

/-- What does hold for `&&`: it is IEEE-exact unless one operand is a known zero while the other
    carries X/Z (then IEEE gives 0 and the analyzer x, see `C17_land_witness`). -/
theorem C17_land_partial (x y : Val) (w : Nat) (s : Bool) (hx : x.canon) (hy : y.canon)
    (h0x : 0 < x.width) (h0y : 0 < y.width) (hw0 : 0 < w)
    (h1 : truth x.v = .b0 → y.v.mask = 0) (h2 : truth y.v = .b0 → x.v.mask = 0) :
    ∃ v, evalBinary .LogicAnd x y w s = some v ∧ v.v.toBV = Ref.land x.v y.v w := by
  have hW : 0 < max x.width y.width := by omega
  obtain ⟨a, b, ha, hb, hawf, hbwf, hwa, hwb, harm⟩ :=
    cmpArm_spec x y w false U64.newBit1x (fun a b => some (U64.landFlags a b))
      (fun a b => some (Big.landFlags a b)) hx hy hW
  obtain ⟨tx, tx64⟩ := lflags_spec x a _ hx h0x (Nat.le_max_left _ _) ha hwa
  obtain ⟨ty, ty64⟩ := lflags_spec y b _ hy h0y (Nat.le_max_right _ _) hb hwb
  have hxw : x.width = x.v.width := rfl
  have hyw : y.width = y.v.width := rfl
  have hma : a.mask = x.v.mask := by
    have := ext_unsigned_eq x.v _ (canon_wf_of_pos hx h0x) (by omega) (Nat.le_max_left x.v.width y.v.width)
    rw [hxw, hyw] at ha; rw [this] at ha
    have := congrArg BV.mask ha; simpa [V4.toBV] using this
  have hmb : b.mask = y.v.mask := by
    have := ext_unsigned_eq y.v _ (canon_wf_of_pos hy h0y) (by omega) (Nat.le_max_right x.v.width y.v.width)
    rw [hxw, hyw] at hb; rw [this] at hb
    have := congrArg BV.mask hb; simpa [V4.toBV] using this
  show ∃ v, cmpArm x y w false U64.newBit1x _ _ = some v ∧ _
  by_cases h : 64 < max x.width y.width
  · rw [harm _ _ (by rw [if_pos h])]
    obtain ⟨v, hv1, hv2⟩ := finishBit_1x
      (((a.payload &&& (a.mask ^^^ Big.genMask a.width)) != 0) && ((b.payload &&& (b.mask ^^^ Big.genMask b.width)) != 0))
      (a.mask != 0 || b.mask != 0) w hw0
    refine ⟨v, hv1, ?_⟩
    rw [hv2, land_flags _ _ _ _ (by rw [← tx, hmb]; intro h; simp [h1 h]) (by rw [← ty, hma]; intro h; simp [h2 h]),
      ← tx, ← ty]; rfl
  · rw [harm _ _ (by rw [if_neg h])]
    obtain ⟨v, hv1, hv2⟩ := finishBit_1x
      (((a.payload &&& U64.not a.mask) != 0) && ((b.payload &&& U64.not b.mask) != 0))
      (a.mask != 0 || b.mask != 0) w hw0
    refine ⟨v, hv1, ?_⟩
    rw [hv2, land_flags _ _ _ _ (by rw [← tx64 (by omega), hmb]; intro h; simp [h1 h])
      (by rw [← ty64 (by omega), hma]; intro h; simp [h2 h]), ← tx64 (by omega), ← ty64 (by omega)]; rfl

/-- `0 && x`: the analyzer answers x, IEEE 1800 §11.4.7 answers 0. -/
theorem C17_land_witness :
    (evalBinary .LogicAnd (.u64 ⟨1, 0, 0, false⟩) (.u64 ⟨1, 0, 1, false⟩) 1 false).map (·.v.toBV) = some ⟨1, 0, 1⟩ ∧
    Ref.land ⟨1, 0, 0, false⟩ ⟨1, 0, 1, false⟩ 1 = ⟨1, 0, 0⟩ := by decide

/-- 2-state operands satisfy the hypotheses of `C17_land_partial`. -/
example : let x : V4 := ⟨4, 0, 0, false⟩; let y : V4 := ⟨4, 5, 0, false⟩
    (truth x = .b0 → y.mask = 0) ∧ (truth y = .b0 → x.mask = 0) := by decide


/-! ## ! and the reductions & ~& | ~| (§11.4.9) -/


theorem C17_lnot (x : Val) (w : Nat) (s : Bool) (hx : x.canon) (h0 : 0 < x.width) (hw0 : 0 < w) :
    ∃ v, evalUnary .LogicNot x w s = some v ∧ v.v.toBV = Ref.lnot x.v w := by
  obtain ⟨v, h1, h2⟩ := finishBit_0x ((x.v.payload &&& (x.v.mask ^^^
        (redMask x))) != 0) (x.v.mask != 0) w hw0
  exact ⟨v, h1, by rw [h2, lnot_flags, ← (red_flags x hx h0).1]; rfl⟩

theorem C17_rnor (x : Val) (w : Nat) (s : Bool) (hx : x.canon) (h0 : 0 < x.width) (hw0 : 0 < w) :
    ∃ v, evalUnary .BitNor x w s = some v ∧ v.v.toBV = Ref.rnor x.v w := by
  obtain ⟨v, h1, h2⟩ := finishBit_0x ((x.v.payload &&& (x.v.mask ^^^
        (redMask x))) != 0) (x.v.mask != 0) w hw0
  exact ⟨v, h1, by rw [h2, lnot_flags, ← (red_flags x hx h0).1, Ref.rnor, reduce_or_eq_truth]⟩

theorem C17_ror (x : Val) (w : Nat) (s : Bool) (hx : x.canon) (h0 : 0 < x.width) (hw0 : 0 < w) :
    ∃ v, evalUnary .BitOr x w s = some v ∧ v.v.toBV = Ref.ror x.v w := by
  obtain ⟨v, h1, h2⟩ := finishBit_1x ((x.v.payload &&& (x.v.mask ^^^
        (redMask x))) != 0) (x.v.mask != 0) w hw0
  exact ⟨v, h1, by rw [h2, ← (red_flags x hx h0).1, Ref.ror, reduce_or_eq_truth]⟩

theorem C17_rand (x : Val) (w : Nat) (s : Bool) (hx : x.canon) (h0 : 0 < x.width) (hw0 : 0 < w) :
    ∃ v, evalUnary .BitAnd x w s = some v ∧ v.v.toBV = Ref.rand x.v w := by
  obtain ⟨v, h1, h2⟩ := finishBit_0x ((x.v.payload ||| x.v.mask) !=
        (redMask x)) (x.v.mask != 0) w hw0
  exact ⟨v, h1, by rw [h2, ← (red_flags x hx h0).2]; rfl⟩

theorem C17_rnand (x : Val) (w : Nat) (s : Bool) (hx : x.canon) (h0 : 0 < x.width) (hw0 : 0 < w) :
    ∃ v, evalUnary .BitNand x w s = some v ∧ v.v.toBV = Ref.rnand x.v w := by
  obtain ⟨v, h1, h2⟩ := finishBit_1x ((x.v.payload ||| x.v.mask) !=
        (redMask x)) (x.v.mask != 0) w hw0
  exact ⟨v, h1, by rw [h2, b4_1x_eq_not_0x, ← (red_flags x hx h0).2]; rfl⟩


theorem C17_rxor (x : Val) (w : Nat) (s : Bool) (hx : x.canon) (h0 : 0 < x.width) (hw0 : 0 < w) :
    ∃ v, evalUnary .BitXor x w s = some v ∧ v.v.toBV = Ref.rxor x.v w := by
  have hwf := canon_wf_of_pos hx h0
  simp only [evalUnary, Ref.rxor, rxor_flags x.v hwf]
  by_cases hm : x.v.mask ≠ 0
  · rw [if_pos hm, if_pos hm]
    obtain ⟨v, h1, h2⟩ := finishBit_spec (U64.newX 1 false) w (by decide) rfl hw0
    exact ⟨v, h1, by rw [h2]; rfl⟩
  · rw [if_neg hm, if_neg hm]
    by_cases hp : (popcount x.v.payload % 2 == 1) = true
    · rw [if_pos hp, if_pos hp]
      obtain ⟨v, h1, h2⟩ := finishBit_spec (U64.new 1 1 false) w (by decide) rfl hw0
      exact ⟨v, h1, by rw [h2]; rfl⟩
    · rw [if_neg hp, if_neg hp]
      obtain ⟨v, h1, h2⟩ := finishBit_spec (U64.new 0 1 false) w (by decide) rfl hw0
      exact ⟨v, h1, by rw [h2]; rfl⟩

theorem C17_rxnor (x : Val) (w : Nat) (s : Bool) (hx : x.canon) (h0 : 0 < x.width) (hw0 : 0 < w) :
    ∃ v, evalUnary .BitXnor x w s = some v ∧ v.v.toBV = Ref.rxnor x.v w := by
  have hwf := canon_wf_of_pos hx h0
  simp only [evalUnary, Ref.rxnor, rxor_flags x.v hwf]
  by_cases hm : x.v.mask ≠ 0
  · rw [if_pos hm, if_pos hm]
    obtain ⟨v, h1, h2⟩ := finishBit_spec (U64.newX 1 false) w (by decide) rfl hw0
    exact ⟨v, h1, by rw [h2]; rfl⟩
  · rw [if_neg hm, if_neg hm]
    rcases Nat.mod_two_eq_zero_or_one (popcount x.v.payload) with hp | hp
    · simp only [hp, show ((0 : Nat) == 1) = false from rfl, show ((0 : Nat) == 0) = true from rfl,
        Bool.false_eq_true, if_false, if_true]
      obtain ⟨v, h1, h2⟩ := finishBit_spec (U64.new 1 1 false) w (by decide) rfl hw0
      exact ⟨v, h1, by rw [h2]; rfl⟩
    · simp only [hp, show ((1 : Nat) == 1) = true from rfl, show ((1 : Nat) == 0) = false from rfl,
        Bool.false_eq_true, if_false, if_true]
      obtain ⟨v, h1, h2⟩ := finishBit_spec (U64.new 0 1 false) w (by decide) rfl hw0
      exact ⟨v, h1, by rw [h2]; rfl⟩


/-! ## == != (§11.4.5) -/


/-- What does hold for `==`: IEEE-exact (any width, both representations, X/Z included) as long as
    no X/Z bit of one operand faces a known 1 of the other (see `C17_eq_witness`). -/
theorem C17_eq_partial (x y : Val) (w : Nat) (s : Bool) (hx : x.canon) (hy : y.canon)
    (hW : 0 < max x.width y.width) (hw0 : 0 < w)
    (H : noXFacingOne (max x.width y.width) (ext x.v (max x.width y.width) (x.signed && y.signed))
          (ext y.v (max x.width y.width) (x.signed && y.signed))) :
    ∃ v, evalBinary .Eq x y w s = some v ∧ v.v.toBV = Ref.eq x.v y.v w := by
  obtain ⟨a, b, ha, hb, hawf, hbwf, hwa, hwb, harm⟩ :=
    cmpArm_spec x y w (x.signed && y.signed) U64.newBit0x (fun a b => some (U64.eqFlags a b))
      (fun a b => some (Big.eqFlags a b)) hx hy hW
  rw [← ha, ← hb] at H
  obtain ⟨e1, e2⟩ := eq_flags_spec a b _ hawf hbwf hwa hwb H
  show ∃ v, cmpArm x y w (x.signed && y.signed) U64.newBit0x _ _ = some v ∧ _
  have hflags : (if 64 < max x.width y.width then some (Big.eqFlags a b) else some (U64.eqFlags a b)) =
      some ((Big.eqFlags a b).1, (Big.eqFlags a b).2) := by
    by_cases h : 64 < max x.width y.width
    · rw [if_pos h]
    · rw [if_neg h, e2 (by omega)]
  rw [harm _ _ hflags]
  obtain ⟨v, hv1, hv2⟩ := finishBit_0x (Big.eqFlags a b).1 (Big.eqFlags a b).2 w hw0
  refine ⟨v, hv1, ?_⟩
  rw [hv2, ← e1, ha, hb]; rfl

theorem C17_ne_partial (x y : Val) (w : Nat) (s : Bool) (hx : x.canon) (hy : y.canon)
    (hW : 0 < max x.width y.width) (hw0 : 0 < w)
    (H : noXFacingOne (max x.width y.width) (ext x.v (max x.width y.width) (x.signed && y.signed))
          (ext y.v (max x.width y.width) (x.signed && y.signed))) :
    ∃ v, evalBinary .Ne x y w s = some v ∧ v.v.toBV = Ref.ne x.v y.v w := by
  obtain ⟨a, b, ha, hb, hawf, hbwf, hwa, hwb, harm⟩ :=
    cmpArm_spec x y w (x.signed && y.signed) U64.newBit1x (fun a b => some (U64.eqFlags a b))
      (fun a b => some (Big.eqFlags a b)) hx hy hW
  rw [← ha, ← hb] at H
  obtain ⟨e1, e2⟩ := eq_flags_spec a b _ hawf hbwf hwa hwb H
  show ∃ v, cmpArm x y w (x.signed && y.signed) U64.newBit1x _ _ = some v ∧ _
  have hflags : (if 64 < max x.width y.width then some (Big.eqFlags a b) else some (U64.eqFlags a b)) =
      some ((Big.eqFlags a b).1, (Big.eqFlags a b).2) := by
    by_cases h : 64 < max x.width y.width
    · rw [if_pos h]
    · rw [if_neg h, e2 (by omega)]
  rw [harm _ _ hflags]
  obtain ⟨v, hv1, hv2⟩ := finishBit_1x (Big.eqFlags a b).1 (Big.eqFlags a b).2 w hw0
  refine ⟨v, hv1, ?_⟩
  rw [hv2, b4_1x_eq_not_0x, ← e1, ha, hb]; rfl

/-- 2-state operands: `==` and `!=` are IEEE-exact. -/
theorem C17_eq_2state (x y : Val) (w : Nat) (s : Bool) (hx : x.canon) (hy : y.canon)
    (hW : 0 < max x.width y.width) (hw0 : 0 < w) (hmx : x.v.mask = 0) (hmy : y.v.mask = 0) :
    (∃ v, evalBinary .Eq x y w s = some v ∧ v.v.toBV = Ref.eq x.v y.v w) ∧
    (∃ v, evalBinary .Ne x y w s = some v ∧ v.v.toBV = Ref.ne x.v y.v w) :=
  ⟨C17_eq_partial x y w s hx hy hW hw0
      (noXFacingOne_of_known _ _ _ (ext_mask_zero _ _ _ hmx) (ext_mask_zero _ _ _ hmy)),
   C17_ne_partial x y w s hx hy hW hw0
      (noXFacingOne_of_known _ _ _ (ext_mask_zero _ _ _ hmx) (ext_mask_zero _ _ _ hmy))⟩

/-- `1'bx == 1'b1` : the analyzer answers 0, IEEE 1800 §11.4.5 answers x. -/
theorem C17_eq_witness :
    (evalBinary .Eq (.u64 ⟨1, 0, 1, false⟩) (.u64 ⟨1, 1, 0, false⟩) 1 false).map (·.v.toBV) = some ⟨1, 0, 0⟩ ∧
    Ref.eq ⟨1, 0, 1, false⟩ ⟨1, 1, 0, false⟩ 1 = ⟨1, 0, 1⟩ := by decide

/-- `1'bx != 1'b1` : the analyzer answers 1, IEEE answers x. -/
theorem C17_ne_witness :
    (evalBinary .Ne (.u64 ⟨1, 0, 1, false⟩) (.u64 ⟨1, 1, 0, false⟩) 1 false).map (·.v.toBV) = some ⟨1, 1, 0⟩ ∧
    Ref.ne ⟨1, 0, 1, false⟩ ⟨1, 1, 0, false⟩ 1 = ⟨1, 0, 1⟩ := by decide

/-- `2'b1x == 2'b0x` has an X but no X facing a 1: hypotheses of `C17_eq_partial` hold, result 0. -/
example : noXFacingOne 2 (ext ⟨2, 2, 1, false⟩ 2 false) (ext ⟨2, 0, 1, false⟩ 2 false) := by
  intro i hi
  have : i = 0 ∨ i = 1 := by omega
  rcases this with h | h <;> subst h <;> decide


/-! ## ==? !=? (§11.4.6) -/


theorem big_eq_ref_eqw (a b : V4) (W : Nat) (ha : a.wf) (hb : b.wf) (hwa : a.width = W) (hwb : b.width = W) :
    b4_0x (Big.wildFlags a b).1 (Big.wildFlags a b).2 = eqwBV W a.toBV b.toBV :=
  (Big.wildFlags_eq_ref a b W ha hb hwa hwb).symm

theorem u64_eq_ref_eqw (a b : V4) (W : Nat) (h64 : W ≤ 64) (ha : a.wf) (hb : b.wf) (hwa : a.width = W)
    (hwb : b.width = W) : b4_0x (U64.wildFlags a b).1 (U64.wildFlags a b).2 = eqwBV W a.toBV b.toBV :=
  (U64.wildFlags_eq_ref a b W h64 ha hb hwa hwb).symm

theorem u64_eq_big_eqw (a b : V4) (W : Nat) (h64 : W ≤ 64) (ha : a.wf) (hb : b.wf) (hwa : a.width = W)
    (hwb : b.width = W) :
    b4_0x (U64.wildFlags a b).1 (U64.wildFlags a b).2 = b4_0x (Big.wildFlags a b).1 (Big.wildFlags a b).2 := by
  rw [u64_eq_ref_eqw a b W h64 ha hb hwa hwb, big_eq_ref_eqw a b W ha hb hwa hwb]

/-- `==?` is IEEE-exact (§11.4.6) for every width, X/Z included. -/
theorem C17_eqw (x y : Val) (w : Nat) (s : Bool) (hx : x.canon) (hy : y.canon)
    (hW : 0 < max x.width y.width) (hw0 : 0 < w) :
    ∃ v, evalBinary .EqWildcard x y w s = some v ∧ v.v.toBV = Ref.eqw x.v y.v w := by
  obtain ⟨a, b, ha, hb, hawf, hbwf, hwa, hwb, harm⟩ :=
    cmpArm_spec x y w (x.signed && y.signed) U64.newBit0x (fun a b => some (U64.wildFlags a b))
      (fun a b => some (Big.wildFlags a b)) hx hy hW
  show ∃ v, cmpArm x y w (x.signed && y.signed) U64.newBit0x _ _ = some v ∧ _
  by_cases h : 64 < max x.width y.width
  · rw [harm (Big.wildFlags a b).1 (Big.wildFlags a b).2 (by rw [if_pos h])]
    obtain ⟨v, hv1, hv2⟩ := finishBit_0x (Big.wildFlags a b).1 (Big.wildFlags a b).2 w hw0
    exact ⟨v, hv1, by rw [hv2, big_eq_ref_eqw a b _ hawf hbwf hwa hwb, ha, hb]; rfl⟩
  · rw [harm (U64.wildFlags a b).1 (U64.wildFlags a b).2 (by rw [if_neg h])]
    obtain ⟨v, hv1, hv2⟩ := finishBit_0x (U64.wildFlags a b).1 (U64.wildFlags a b).2 w hw0
    exact ⟨v, hv1, by rw [hv2, u64_eq_ref_eqw a b _ (by omega) hawf hbwf hwa hwb, ha, hb]; rfl⟩

theorem C17_new (x y : Val) (w : Nat) (s : Bool) (hx : x.canon) (hy : y.canon)
    (hW : 0 < max x.width y.width) (hw0 : 0 < w) :
    ∃ v, evalBinary .NeWildcard x y w s = some v ∧ v.v.toBV = Ref.new x.v y.v w := by
  obtain ⟨a, b, ha, hb, hawf, hbwf, hwa, hwb, harm⟩ :=
    cmpArm_spec x y w (x.signed && y.signed) U64.newBit1x (fun a b => some (U64.wildFlags a b))
      (fun a b => some (Big.wildFlags a b)) hx hy hW
  show ∃ v, cmpArm x y w (x.signed && y.signed) U64.newBit1x _ _ = some v ∧ _
  by_cases h : 64 < max x.width y.width
  · rw [harm (Big.wildFlags a b).1 (Big.wildFlags a b).2 (by rw [if_pos h])]
    obtain ⟨v, hv1, hv2⟩ := finishBit_1x (Big.wildFlags a b).1 (Big.wildFlags a b).2 w hw0
    exact ⟨v, hv1, by rw [hv2, b4_1x_eq_not_0x, big_eq_ref_eqw a b _ hawf hbwf hwa hwb, ha, hb]; rfl⟩
  · rw [harm (U64.wildFlags a b).1 (U64.wildFlags a b).2 (by rw [if_neg h])]
    obtain ⟨v, hv1, hv2⟩ := finishBit_1x (U64.wildFlags a b).1 (U64.wildFlags a b).2 w hw0
    exact ⟨v, hv1, by rw [hv2, b4_1x_eq_not_0x, u64_eq_ref_eqw a b _ (by omega) hawf hbwf hwa hwb, ha, hb]; rfl⟩


/-! ## << <<< >> >>> (§11.4.10) -/


theorem big_eq_ref_shl (a y : V4) (n w : Nat) (ha : a.wf) (hwa : a.width = w) (hy : y.mask = 0)
    (hn : amtOk n y.payload w) : (Big.lshl a n w).toBV = shlBV a.toBV y w :=
  Big.lshl_eq_ref a y n w ha hwa hy hn

theorem u64_eq_big_shl (a : V4) (n w : Nat) (h64 : w ≤ 64) : U64.lshl a n w = Big.lshl a n w :=
  U64.lshl_eq_big a n w h64

theorem big_eq_ref_ashl (a y : V4) (n w : Nat) (ha : a.wf) (hwa : a.width = w) (hy : y.mask = 0)
    (hn : amtOk n y.payload w) : (Big.ashl a n w).toBV = shlBV a.toBV y w := by
  rw [Big.ashl_toBV]; exact Big.lshl_eq_ref a y n w ha hwa hy hn

theorem u64_eq_big_ashl (a : V4) (n w : Nat) (h64 : w ≤ 64) : U64.ashl a n w = Big.ashl a n w :=
  U64.ashl_eq_big a n w h64

theorem big_eq_ref_lshr (a y : V4) (n w : Nat) (ha : a.wf) (hwa : a.width = w) (hy : y.mask = 0)
    (hn : amtOk n y.payload w) : (Big.lshr a n).toBV = lshrBV a.toBV y w :=
  Big.lshr_eq_ref a y n w ha hwa hy hn

theorem u64_eq_big_lshr (a : V4) (n w : Nat) (h64 : w ≤ 64) (ha : a.wf) (hwa : a.width = w) :
    U64.lshr a n = Big.lshr a n := U64.lshr_eq_big a n w h64 ha hwa

theorem big_eq_ref_ashr (a y : V4) (n w : Nat) (s : Bool) (ha : a.wf) (hwa : a.width = w) (hw0 : 0 < w)
    (hy : y.mask = 0) (hn : amtOk n y.payload w) :
    ∃ r, Big.ashr a n w s = some r ∧ r.toBV = ashrBV a.toBV y w s ∧ r.width = w :=
  Big.ashr_eq_ref a y n w s ha hwa hw0 hy hn

theorem u64_eq_big_ashr (a : V4) (n w : Nat) (s : Bool) (h64 : w ≤ 64) (hw0 : 0 < w) (ha : a.wf)
    (hwa : a.width = w) : U64.ashr a n w s = Big.ashr a n w s := U64.ashr_eq_big a n w s h64 hw0 ha hwa

/-- Shift saturation: every amount ≥ the width — in particular the `usize::MAX` that
    `to_shift_amount` returns for a > 64-bit amount — shifts everything out. -/
theorem shift_saturation (a y : V4) (n w : Nat) (ha : a.wf) (hwa : a.width = w) (hy : y.mask = 0)
    (h1 : w ≤ n) (h2 : w ≤ y.payload) :
    (Big.lshl a n w).toBV = ⟨w, 0, 0⟩ ∧ (Big.lshr a n).toBV = ⟨w, 0, 0⟩ ∧
    shlBV a.toBV y w = ⟨w, 0, 0⟩ ∧ lshrBV a.toBV y w = ⟨w, 0, 0⟩ := by
  have e1 := Big.lshl_eq_ref a y n w ha hwa hy (Or.inr ⟨h1, h2⟩)
  have e2 := Big.lshr_eq_ref a y n w ha hwa hy (Or.inr ⟨h1, h2⟩)
  have z1 : shlBV a.toBV y w = ⟨w, 0, 0⟩ := by
    unfold shlBV
    simp only [hy, bne_self_eq_false, Bool.false_eq_true, if_false]
    symm
    apply BV.eq_ofFn (w := w) rfl (Nat.two_pow_pos w) (Nat.two_pow_pos w)
    intro i hi
    have : ¬ y.payload ≤ i := by omega
    simp [this, B4.p, B4.m]
  have z2 : lshrBV a.toBV y w = ⟨w, 0, 0⟩ := by
    unfold lshrBV
    simp only [hy, bne_self_eq_false, Bool.false_eq_true, if_false]
    symm
    apply BV.eq_ofFn (w := w) rfl (Nat.two_pow_pos w) (Nat.two_pow_pos w)
    intro i hi
    have : ¬ i + y.payload < w := by omega
    simp [this, B4.p, B4.m]
  exact ⟨by rw [e1, z1], by rw [e2, z2], z1, z2⟩

/-- `<<` (§11.4.10), every width, X/Z amount, saturated amounts. -/
theorem C17_shl (x y : Val) (w : Nat) (s : Bool) (hx : x.canon) (hy : y.canon) (hwx : x.width ≤ w)
    (h0y : 0 < y.width) (hw0 : 0 < w) (hw64 : w < 2 ^ 64) :
    ∃ v, evalBinary .LogicShiftL x y w s = some v ∧ v.v.toBV = Ref.shl x.v y.v w s :=
  shiftArm_eq_ref x y w s (fun v n => some (U64.lshl v n w)) (fun v n => some (Big.lshl v n w))
    (fun a y => shlBV a y w) hx hy hwx h0y hw0 hw64 (fun a h => shlBV_xz a _ w h)
    (fun a n ha hwa hm hn => ⟨_, rfl, big_eq_ref_shl a y.v n w ha hwa hm hn, hwa⟩)
    (fun h a n _ _ => by rw [u64_eq_big_shl a n w h])

/-- `<<<` is `<<`. -/
theorem C17_ashl (x y : Val) (w : Nat) (s : Bool) (hx : x.canon) (hy : y.canon) (hwx : x.width ≤ w)
    (h0y : 0 < y.width) (hw0 : 0 < w) (hw64 : w < 2 ^ 64) :
    ∃ v, evalBinary .ArithShiftL x y w s = some v ∧ v.v.toBV = Ref.shl x.v y.v w s :=
  shiftArm_eq_ref x y w s (fun v n => some (U64.ashl v n w)) (fun v n => some (Big.ashl v n w))
    (fun a y => shlBV a y w) hx hy hwx h0y hw0 hw64 (fun a h => shlBV_xz a _ w h)
    (fun a n ha hwa hm hn => ⟨_, rfl, big_eq_ref_ashl a y.v n w ha hwa hm hn, hwa⟩)
    (fun h a n _ _ => by rw [u64_eq_big_ashl a n w h])

theorem C17_lshr (x y : Val) (w : Nat) (s : Bool) (hx : x.canon) (hy : y.canon) (hwx : x.width ≤ w)
    (h0y : 0 < y.width) (hw0 : 0 < w) (hw64 : w < 2 ^ 64) :
    ∃ v, evalBinary .LogicShiftR x y w s = some v ∧ v.v.toBV = Ref.lshr x.v y.v w s :=
  shiftArm_eq_ref x y w s (fun v n => some (U64.lshr v n)) (fun v n => some (Big.lshr v n))
    (fun a y => lshrBV a y w) hx hy hwx h0y hw0 hw64 (fun a h => lshrBV_xz a _ w h)
    (fun a n ha hwa hm hn => ⟨_, rfl, big_eq_ref_lshr a y.v n w ha hwa hm hn, hwa⟩)
    (fun h a n ha hwa => by rw [u64_eq_big_lshr a n w h ha hwa])

/-- `>>>`: sign fill iff the expression is signed (X/Z sign bits fill as X/Z). -/
theorem C17_ashr (x y : Val) (w : Nat) (s : Bool) (hx : x.canon) (hy : y.canon) (hwx : x.width ≤ w)
    (h0y : 0 < y.width) (hw0 : 0 < w) (hw64 : w < 2 ^ 64) :
    ∃ v, evalBinary .ArithShiftR x y w s = some v ∧ v.v.toBV = Ref.ashr x.v y.v w s :=
  shiftArm_eq_ref x y w s (fun v n => U64.ashr v n w s) (fun v n => Big.ashr v n w s)
    (fun a y => ashrBV a y w s) hx hy hwx h0y hw0 hw64 (fun a h => ashrBV_xz a _ w s h)
    (fun a n ha hwa hm hn => big_eq_ref_ashr a y.v n w s ha hwa hw0 hm hn)
    (fun h a n ha hwa => u64_eq_big_ashr a n w s h hw0 ha hwa)


/-! ## unary - -/


theorem big_eq_ref_neg (a : V4) (w : Nat) (s : Bool) (ha : a.wf) (hwa : a.width = w) :
    (Big.neg a w).toBV = minusBV a.toBV w s := Big.neg_eq_ref a w s ha hwa

/-- The two representations agree on unary minus (U64 arm: `wrapping_add`, /repo commit c18109e). -/
theorem u64_eq_big_neg (a : V4) (w : Nat) (h64 : w ≤ 64) (ha : a.wf) (hwa : a.width = w) :
    U64.neg a w = Big.neg a w := U64.neg_eq_big a w h64 ha hwa

theorem u64_eq_ref_neg (a : V4) (w : Nat) (s : Bool) (h64 : w ≤ 64) (ha : a.wf) (hwa : a.width = w) :
    (U64.neg a w).toBV = minusBV a.toBV w s := by
  rw [u64_eq_big_neg a w h64 ha hwa]; exact big_eq_ref_neg a w s ha hwa

/-- Unary minus is IEEE-exact: two's complement modulo `2^w`, all-X on any X/Z, every width,
    both representations (including `-64'd0`). -/
theorem C17_neg (x : Val) (w : Nat) (s : Bool) (hx : x.canon) (hwx : x.width ≤ w) (hw0 : 0 < w) :
    ∃ v, evalUnary .Sub x w s = some v ∧ v.v.toBV = Ref.minus x.v w s := by
  obtain ⟨a, ha, hawf, hwa, he⟩ := unaryCtx_spec x w s hx hwx hw0
  simp only [evalUnary, he, Option.bind_eq_bind, Option.bind_some]
  by_cases h : 64 < w
  · simp only [h, if_true]
    exact ⟨_, rfl, by rw [Val.v_big, big_eq_ref_neg a w s hawf hwa, ha]; rfl⟩
  · simp only [h, if_false]
    exact ⟨_, rfl, by rw [Val.v_u64, u64_eq_ref_neg a w s (by omega) hawf hwa, ha]; rfl⟩

/-- `-64'd0` is 0 in the U64 representation too. -/
theorem C17_neg_width64_zero :
    (evalUnary .Sub (.u64 ⟨64, 0, 0, false⟩) 64 false).map (·.v.toBV) = some ⟨64, 0, 0⟩ ∧
    Ref.minus ⟨64, 0, 0, false⟩ 64 false = ⟨64, 0, 0⟩ := by decide

/-- The repaired defect (DESIGN §5 finding #20), about the arm as it was before commit c18109e:
    `ret.payload += 1` agreed with the BigUint arm away from width 64 / operand 0 … -/
theorem old_u64_eq_big_neg_partial (a : V4) (w : Nat) (h64 : w ≤ 64) (ha : a.wf) (hwa : a.width = w)
    (hok : w < 64 ∨ a.payload ≠ 0 ∨ a.mask ≠ 0) : U64.negOld a w = some (Big.neg a w) :=
  U64.negOld_eq_big a w h64 ha hwa hok

/-- … and overflowed (debug-profile panic) there. -/
theorem old_C17_neg_witness : U64.negOld ⟨64, 0, 0, false⟩ 64 = none := U64.negOld_overflow

example : (64 : Nat) < 64 ∨ (⟨64, 1, 0, false⟩ : V4).payload ≠ 0 ∨ (⟨64, 1, 0, false⟩ : V4).mask ≠ 0 := by decide


/-! ## < <= > >= (§11.4.4) -/


/-- The BigUint relational arm (unsigned: payload order; signed: `to_bigint` order) is the IEEE
    relation on operands sized to `W` (any `W ≥ 1`); x as soon as any bit is X/Z. -/
theorem big_eq_ref_rel (R : RelOp) (a b : V4) (W w : Nat) (s : Bool) (hW : 0 < W) (ha : a.wf) (hb : b.wf)
    (hwa : a.width = W) (hwb : b.width = W) :
    ∃ o, Big.relFlags R.ro R.ru a b s = some (o, a.mask != 0 || b.mask != 0) ∧
      ofB4 w (b4_x1 (a.mask != 0 || b.mask != 0) o) = relationalBV R.r a.toBV b.toBV w s := by
  obtain ⟨o, h1, h2⟩ := Big.relFlags_spec R a b W s hW ha hb hwa hwb
  exact ⟨o, h1, (relationalBV_eq R a.toBV b.toBV w s o h2).symm⟩

/-- The U64 relational arm (`((p << sh) as i64) >> sh` sign extension) gives the same 1-bit
    result as the BigUint arm for `W ≤ 64`. -/
theorem u64_eq_ref_rel (R : RelOp) (a b : V4) (W w : Nat) (s : Bool) (hW : 0 < W) (h64 : W ≤ 64)
    (ha : a.wf) (hb : b.wf) (hwa : a.width = W) (hwb : b.width = W) :
    ∃ o, U64.relFlags R.r R.ru a b W s = some (o, a.mask != 0 || b.mask != 0) ∧
      ofB4 w (b4_x1 (a.mask != 0 || b.mask != 0) o) = relationalBV R.r a.toBV b.toBV w s := by
  obtain ⟨o, h1, h2⟩ := U64.relFlags_spec R a b W s hW h64 ha hb hwa hwb
  exact ⟨o, h1, (relationalBV_eq R a.toBV b.toBV w s o h2).symm⟩

theorem u64_eq_big_rel (R : RelOp) (a b : V4) (W w : Nat) (s : Bool) (hW : 0 < W) (h64 : W ≤ 64)
    (ha : a.wf) (hb : b.wf) (hwa : a.width = W) (hwb : b.width = W) :
    ∃ o o', U64.relFlags R.r R.ru a b W s = some (o, a.mask != 0 || b.mask != 0) ∧
      Big.relFlags R.ro R.ru a b s = some (o', a.mask != 0 || b.mask != 0) ∧
      ofB4 w (b4_x1 (a.mask != 0 || b.mask != 0) o) = ofB4 w (b4_x1 (a.mask != 0 || b.mask != 0) o') := by
  obtain ⟨o, h1, h2⟩ := u64_eq_ref_rel R a b W w s hW h64 ha hb hwa hwb
  obtain ⟨o', h1', h2'⟩ := big_eq_ref_rel R a b W w s hW ha hb hwa hwb
  exact ⟨o, o', h1, h1', by rw [h2, h2']⟩

theorem C17_lt (x y : Val) (w : Nat) (s : Bool) (hx : x.canon) (hy : y.canon)
    (hW : 0 < max x.width y.width) (hw0 : 0 < w) :
    ∃ v, evalBinary .Less x y w s = some v ∧ v.v.toBV = Ref.lt x.v y.v w s :=
  relArm_eq_ref relLt x y w s hx hy hW hw0

theorem C17_le (x y : Val) (w : Nat) (s : Bool) (hx : x.canon) (hy : y.canon)
    (hW : 0 < max x.width y.width) (hw0 : 0 < w) :
    ∃ v, evalBinary .LessEq x y w s = some v ∧ v.v.toBV = Ref.le x.v y.v w s :=
  relArm_eq_ref relLe x y w s hx hy hW hw0

theorem C17_gt (x y : Val) (w : Nat) (s : Bool) (hx : x.canon) (hy : y.canon)
    (hW : 0 < max x.width y.width) (hw0 : 0 < w) :
    ∃ v, evalBinary .Greater x y w s = some v ∧ v.v.toBV = Ref.gt x.v y.v w s :=
  relArm_eq_ref relGt x y w s hx hy hW hw0

theorem C17_ge (x y : Val) (w : Nat) (s : Bool) (hx : x.canon) (hy : y.canon)
    (hW : 0 < max x.width y.width) (hw0 : 0 < w) :
    ∃ v, evalBinary .GreaterEq x y w s = some v ∧ v.v.toBV = Ref.ge x.v y.v w s :=
  relArm_eq_ref relGe x y w s hx hy hW hw0


/-! ## / % (§11.4.2) -/


theorem big_eq_ref_div (a b : V4) (w : Nat) (s : Bool) (hw0 : 0 < w) (ha : a.wf) (hb : b.wf)
    (hwa : a.width = w) (hwb : b.width = w) :
    ∃ r, Big.divOp a b w s = some r ∧ r.toBV = divBV a.toBV b.toBV w s :=
  Big.divOp_eq_ref a b w s hw0 ha hb hwa hwb

theorem u64_eq_big_div (a b : V4) (w : Nat) (s : Bool) (hw0 : 0 < w) (h64 : w ≤ 64) (ha : a.wf) (hb : b.wf)
    (hwa : a.width = w) (hwb : b.width = w) : U64.divOp a b w s = Big.divOp a b w s :=
  U64.divOp_eq_big a b w s hw0 h64 ha hb hwa hwb

theorem u64_eq_ref_div (a b : V4) (w : Nat) (s : Bool) (hw0 : 0 < w) (h64 : w ≤ 64) (ha : a.wf) (hb : b.wf)
    (hwa : a.width = w) (hwb : b.width = w) :
    ∃ r, U64.divOp a b w s = some r ∧ r.toBV = divBV a.toBV b.toBV w s := by
  obtain ⟨r, h1, h2, _⟩ := U64.divOp_eq_ref a b w s hw0 h64 ha hb hwa hwb
  exact ⟨r, h1, h2⟩

theorem C17_div (x y : Val) (w : Nat) (s : Bool) (hx : x.canon) (hy : y.canon)
    (hwx : x.width ≤ w) (hwy : y.width ≤ w) (hw0 : 0 < w) :
    ∃ v, evalBinary .Div x y w s = some v ∧ v.v.toBV = Ref.div x.v y.v w s := by
  obtain ⟨v, h1, h2, _⟩ := ctxArm_eq_ref x y w s (fun a b => U64.divOp a b w s)
    (fun a b => Big.divOp a b w s) (fun a b => divBV a b w s) hx hy hwx hwy hw0
    (fun a b ha hb hwa hwb => big_eq_ref_div a b w s hw0 ha hb hwa hwb)
    (fun h a b ha hb hwa hwb => u64_eq_big_div a b w s hw0 h ha hb hwa hwb)
  exact ⟨v, h1, h2⟩

theorem big_eq_ref_rem (a b : V4) (w : Nat) (s : Bool) (hw0 : 0 < w) (ha : a.wf) (hb : b.wf)
    (hwa : a.width = w) (hwb : b.width = w) :
    ∃ r, Big.remOp a b w s = some r ∧ r.toBV = remBV a.toBV b.toBV w s :=
  Big.remOp_eq_ref a b w s hw0 ha hb hwa hwb

theorem u64_eq_big_rem (a b : V4) (w : Nat) (s : Bool) (hw0 : 0 < w) (h64 : w ≤ 64) (ha : a.wf) (hb : b.wf)
    (hwa : a.width = w) (hwb : b.width = w) : U64.remOp a b w s = Big.remOp a b w s :=
  U64.remOp_eq_big a b w s hw0 h64 ha hb hwa hwb

theorem u64_eq_ref_rem (a b : V4) (w : Nat) (s : Bool) (hw0 : 0 < w) (h64 : w ≤ 64) (ha : a.wf) (hb : b.wf)
    (hwa : a.width = w) (hwb : b.width = w) :
    ∃ r, U64.remOp a b w s = some r ∧ r.toBV = remBV a.toBV b.toBV w s := by
  obtain ⟨r, h1, h2, _⟩ := U64.remOp_eq_ref a b w s hw0 h64 ha hb hwa hwb
  exact ⟨r, h1, h2⟩

theorem C17_rem (x y : Val) (w : Nat) (s : Bool) (hx : x.canon) (hy : y.canon)
    (hwx : x.width ≤ w) (hwy : y.width ≤ w) (hw0 : 0 < w) :
    ∃ v, evalBinary .Rem x y w s = some v ∧ v.v.toBV = Ref.rem x.v y.v w s := by
  obtain ⟨v, h1, h2, _⟩ := ctxArm_eq_ref x y w s (fun a b => U64.remOp a b w s)
    (fun a b => Big.remOp a b w s) (fun a b => remBV a b w s) hx hy hwx hwy hw0
    (fun a b ha hb hwa hwb => big_eq_ref_rem a b w s hw0 ha hb hwa hwb)
    (fun h a b ha hb hwa hwb => u64_eq_big_rem a b w s hw0 h ha hb hwa hwb)
  exact ⟨v, h1, h2⟩

/-- Division and modulus by zero yield all-X, in both representations, signed or not. -/
theorem div0_is_x (a b : V4) (w : Nat) (s : Bool) (hb0 : b.payload = 0) :
    Big.divOp a b w s = some (Big.newX w s) ∧ Big.remOp a b w s = some (Big.newX w s) ∧
    U64.divOp a b w s = some (U64.newX w s) ∧ U64.remOp a b w s = some (U64.newX w s) ∧
    divBV a.toBV b.toBV w s = allX w ∧ remBV a.toBV b.toBV w s = allX w := by
  refine ⟨?_, ?_, ?_, ?_, divBV_xz _ _ _ _ (Or.inr (Or.inr hb0)), remBV_xz _ _ _ _ (Or.inr (Or.inr hb0))⟩
  · unfold Big.divOp; rw [if_pos (Or.inr (Or.inr hb0))]
  · unfold Big.remOp; rw [if_pos (Or.inr (Or.inr hb0))]
  · unfold U64.divOp; simp [hb0]
  · unfold U64.remOp; simp [hb0]

/-- Signed `i64::MIN / -1` at width 64: `checked_div` fails, the arm falls back to the dividend,
    which is the IEEE result (`2^63` wraps to the same bit pattern); the BigUint arm agrees. -/
theorem i64_min_div_neg1 :
    U64.divOp ⟨64, 2 ^ 63, 0, true⟩ ⟨64, 2 ^ 64 - 1, 0, true⟩ 64 true = some ⟨64, 2 ^ 63, 0, true⟩ ∧
    Big.divOp ⟨64, 2 ^ 63, 0, true⟩ ⟨64, 2 ^ 64 - 1, 0, true⟩ 64 true = some ⟨64, 2 ^ 63, 0, true⟩ ∧
    divBV ⟨64, 2 ^ 63, 0⟩ ⟨64, 2 ^ 64 - 1, 0⟩ 64 true = ⟨64, 2 ^ 63, 0⟩ ∧
    U64.remOp ⟨64, 2 ^ 63, 0, true⟩ ⟨64, 2 ^ 64 - 1, 0, true⟩ 64 true = some ⟨64, 0, 0, true⟩ ∧
    remBV ⟨64, 2 ^ 63, 0⟩ ⟨64, 2 ^ 64 - 1, 0⟩ 64 true = ⟨64, 0, 0⟩ := by decide


/-! ## ** (§11.4.3, Table 11-4): deviations of the unchanged tree -/


/-- `2'd2 ** 1'sbz`: a signed exponent whose msb is Z has payload bit 1, so the arm takes the
    negative-exponent table and returns 0; IEEE (§11.4.3: any x/z operand) gives x. -/
theorem C17_pow_witness_xz_exponent :
    (evalBinary .Pow (.u64 ⟨2, 2, 0, false⟩) (.u64 ⟨1, 1, 1, true⟩) 2 false).map (·.v.toBV) = some ⟨2, 0, 0⟩ ∧
    Ref.pow ⟨2, 2, 0, false⟩ ⟨1, 1, 1, true⟩ 2 false = ⟨2, 0, 3⟩ := by decide

/-- `2'sb11 ** 1'sb1` in an unsigned 2-bit context: `expand` leaves the same-width operand
    untouched, its signed flag survives, the base is read as -1: result 3; IEEE (unsigned 3 > 1,
    negative exponent, Table 11-4) gives 0. -/
theorem C17_pow_witness_signed_base :
    (evalBinary .Pow (.u64 ⟨2, 3, 0, true⟩) (.u64 ⟨1, 1, 0, true⟩) 2 false).map (·.v.toBV) = some ⟨2, 3, 0⟩ ∧
    Ref.pow ⟨2, 3, 0, true⟩ ⟨1, 1, 0, true⟩ 2 false = ⟨2, 0, 0⟩ := by decide

/-- `65'd3 ** 65'h1_0000_0000_0000_0000` (context 65 bits): `to_shift_amount` saturates the
    exponent to `2^64 - 1`. -/
theorem C17_pow_witness_saturated_exponent :
    (evalBinary .Pow (.big ⟨65, 3, 0, false⟩) (.big ⟨65, 2 ^ 64, 0, false⟩) 65 false).map (·.v.toBV) ≠
      some (Ref.pow ⟨65, 3, 0, false⟩ ⟨65, 2 ^ 64, 0, false⟩ 65 false) := by decide +kernel


/-! ## trunc / select / concat / assign -/


/-- `Value::trunc` keeps the low bits (any target width, both representations, fill literals). -/
theorem trunc_eq_ref (x : Val) (w : Nat) (hx : x.canon) :
    ∃ v, Impl.trunc x w = some v ∧ v.v.toBV = Ref.trunc x.v w := trunc_spec x w hx

/-- `Value::select` with the index in range is the IEEE part-select. -/
theorem select_eq_ref (x : Val) (beg end_ : Nat) (hx : x.canon) (hbe : end_ ≤ beg) (hb : beg < x.width)
    (hw64 : x.width < 2 ^ 64) :
    ∃ v, Impl.select x beg end_ = some v ∧ v.v.toBV = Ref.select x.v beg end_ :=
  select_spec x beg end_ hx hbe hb hw64

/-- `2'b01[2:1]`: the out-of-range bit reads 0; IEEE §11.5.1 reads x. -/
theorem C17_select_witness :
    (Impl.select (.u64 ⟨2, 1, 0, false⟩) 2 1).map (·.v.toBV) = some ⟨2, 0, 0⟩ ∧
    Ref.select ⟨2, 1, 0, false⟩ 2 1 = ⟨2, 0, 2⟩ := by decide

/-- `Value::concat` is `{x, y}` (both representations, result ≤ 64 or > 64 bits). -/
theorem concat_eq_ref (x y : Val) (hx : x.canon) (hy : y.canon) (hxw : x.v.wf) (hyw : y.v.wf)
    (hw64 : x.width + y.width < 2 ^ 64) :
    ∃ v, Impl.concat x y = some v ∧ v.v.toBV = Ref.concat x.v y.v := concat_spec x y hx hy hxw hyw hw64

/-- `Value::assign` with the window inside the destination is the IEEE part-select write. -/
theorem assign_eq_ref (x value : Val) (beg end_ : Nat) (hx : x.canon) (hbe : end_ ≤ beg) (hb : beg < x.width)
    (hw64 : x.width < 2 ^ 64)
    (hrep : ∀ a, x = .u64 a → ∃ b, value = .u64 b ∧ b.payload < 2 ^ 64 ∧ b.mask < 2 ^ 64) :
    ∃ r, Impl.assign x value beg end_ = some r ∧ r.v.toBV = Ref.assign x.v value.v beg end_ :=
  assign_spec x value beg end_ hx hbe hb hw64 hrep

/-- Assigning a BigUint value that needs more than 64 bits into a U64 destination drops the whole
    value (`to_u64().unwrap_or(0)`) instead of keeping its low bits. -/
theorem C17_assign_witness :
    (Impl.assign (.u64 ⟨8, 0, 0, false⟩) (.big ⟨65, 2 ^ 64 + 1, 0, false⟩) 0 0).map (·.v.toBV) = some ⟨8, 0, 0⟩ ∧
    Ref.assign ⟨8, 0, 0, false⟩ ⟨65, 2 ^ 64 + 1, 0, false⟩ 0 0 = ⟨8, 1, 0⟩ := by decide

example : (Val.u64 ⟨8, 0x5a, 0, false⟩).canon ∧ (1 : Nat) ≤ 4 ∧ 4 < (Val.u64 ⟨8, 0x5a, 0, false⟩).width := by
  refine ⟨⟨by decide, ?_⟩, by decide, by decide⟩
  simp only [V4.wfIn]; decide


/-! ## ** : what does hold -/


/-- Table 11-4, negative exponent: `Op::Pow`'s table (0 → x, 1 → 1, -1 → ±1, else 0) is the IEEE
    one for a 2-state exponent (base already sized, any width). -/
theorem pow_neg_table (a y : V4) (w : Nat) (hw0 : 0 < w) (ha : a.wf) (hwa : a.width = w)
    (hy : y.mask = 0) (hyw : 0 < y.width) (hywf : y.wf) (he : val y.toBV y.signed < 0) :
    (Big.powNeg a w (y.payload.testBit 0)).toBV = powBV a.toBV y w a.signed :=
  Big.powNeg_eq_ref a y w hw0 ha hwa hy hyw hywf he

/-- `pow_mod_width` + sign handling = `base ** n` modulo `2^w` as the reference computes it. -/
theorem big_eq_ref_pow (a y : V4) (n w : Nat) (hw0 : 0 < w) (ha : a.wf) (hwa : a.width = w)
    (hy : y.mask = 0) (he : val y.toBV y.signed = (n : Int)) :
    ∃ r, Big.powOp a (some n) w = some r ∧ r.toBV = powBV a.toBV y w a.signed :=
  Big.powOp_eq_ref a y n w hw0 ha hwa hy he

theorem u64_eq_big_pow (a : V4) (n : Option Nat) (w : Nat) (hw0 : 0 < w) (h64 : w ≤ 64) (ha : a.wf)
    (hwa : a.width = w) :
    (U64.powOp a n w).map (fun r => { r with payload := if r.payload < 2 ^ 64 then r.payload else 0 }) =
      Big.powOp a n w ∧ ∀ o, U64.powNeg a w o = Big.powNeg a w o :=
  ⟨U64.powOp_eq_big a n w hw0 h64 ha hwa, fun o => U64.powNeg_eq_big a w o h64⟩

/-- What does hold for `**`: IEEE-exact (Table 11-4 incl. negative exponents, `0 ** 0 = 1`,
    wrap-around modulo `2^w`, all-X on an X/Z base) for a 2-state exponent below `2^64` when the
    base's signedness is the context's. The three excluded situations are the witnesses
    `C17_pow_witness_*`. -/
theorem C17_pow_partial (x y : Val) (w : Nat) (s : Bool) (hx : x.canon) (hy : y.canon)
    (hwx : x.width ≤ w) (h0y : 0 < y.width) (hw0 : 0 < w)
    (hy2 : y.v.mask = 0) (hbig : val y.v.toBV y.v.signed < ((2 ^ 64 : Nat) : Int))
    (hsig : x.v.width = w → x.v.signed = true → s = true)
    (hfill : x.v.width = 0 → x.v.signed = false) :
    ∃ v, evalBinary .Pow x y w s = some v ∧ v.v.toBV = Ref.pow x.v y.v w s := by
  obtain ⟨x', hx1, hx2, hx3, hx4, hx5, hs1, hs2, hs3⟩ := expand_spec x w s hx hwx hw0
  have hsigned : x'.v.signed = (s && x.v.signed) := by
    by_cases hw : x.v.width = w
    · rw [hs1 hw]
      cases hxs : x.v.signed with
      | false => simp
      | true => rw [hsig hw hxs]; rfl
    · by_cases hz : x.v.width = 0
      · rw [hs2 hw hz, hfill hz]; simp
      · exact hs3 hw hz
  have hywf := canon_wf_of_pos hy h0y
  have hyw : 0 < y.v.width := h0y
  unfold Ref.pow
  rw [← hx2, ← hsigned]
  simp only [evalBinary, hx1, Option.bind_eq_bind, Option.bind_some, powYNegative_spec y hy h0y]
  by_cases hneg : val y.v.toBV y.v.signed < 0
  · simp only [hneg, decide_true, if_true]
    by_cases h : 64 < w
    · simp only [h, decide_true] at hx3
      cases x' with
      | u64 v => simp at hx3
      | big v =>
        simp only [Val.v_big] at *
        exact ⟨_, rfl, pow_neg_table v y.v w hw0 hx5 hx4 hy2 hyw hywf hneg⟩
    · simp only [h, decide_false] at hx3
      cases x' with
      | big v => simp at hx3
      | u64 v =>
        simp only [Val.v_u64] at *
        rw [U64.powNeg_eq_big v w _ (by omega)]
        exact ⟨_, rfl, pow_neg_table v y.v w hw0 hx5 hx4 hy2 hyw hywf hneg⟩
  · simp only [hneg, decide_false, Bool.false_eq_true, if_false]
    -- the exponent as a natural number below 2^64
    have hn : ∃ n : Nat, val y.v.toBV y.v.signed = (n : Int) ∧ n < 2 ^ 64 :=
      ⟨(val y.v.toBV y.v.signed).toNat, by omega, by omega⟩
    obtain ⟨n, hen, hn64⟩ := hn
    have hpay : y.v.payload = n := by
      have hp : y.v.toBV.payload = y.v.payload := rfl
      cases hsy : y.v.signed with
      | false => rw [hsy] at hen; simp [val] at hen; omega
      | true =>
        rw [hsy] at hen hneg
        have hv : val y.v.toBV true = y.v.toBV.toInt := rfl
        rw [hv, toInt_eq y.v.toBV y.v.width hyw rfl hywf.1] at hen hneg
        by_cases hc : 2 ^ (y.v.width - 1) ≤ y.v.toBV.payload
        · rw [if_pos hc] at hneg
          have := hywf.1
          omega
        · rw [if_neg hc] at hen; omega
    have hshamt : toShiftAmount y = some n := by
      cases y with
      | u64 v => simp only [toShiftAmount, Val.v_u64] at *; rw [if_neg (by omega), hpay]
      | big v =>
        simp only [toShiftAmount, Val.v_big] at *
        rw [if_neg (by omega), if_pos (by omega), hpay]
    rw [hshamt]
    by_cases h : 64 < w
    · simp only [h, decide_true] at hx3
      cases x' with
      | u64 v => simp at hx3
      | big v =>
        simp only [Val.v_big] at *
        obtain ⟨r, hr1, hr2⟩ := big_eq_ref_pow v y.v n w hw0 hx5 hx4 hy2 hen
        rw [hr1]
        exact ⟨_, rfl, hr2⟩
    · simp only [h, decide_false] at hx3
      cases x' with
      | big v => simp at hx3
      | u64 v =>
        simp only [Val.v_u64] at *
        obtain ⟨r, hr1, hr2⟩ := big_eq_ref_pow v y.v n w hw0 hx5 hx4 hy2 hen
        have hu := U64.powOp_eq_big v (some n) w hw0 (by omega) hx5 hx4
        rw [hr1] at hu
        cases hpo : U64.powOp v (some n) w with
        | none => rw [hpo] at hu; simp at hu
        | some r' =>
          rw [hpo] at hu
          simp only [Option.map_some, Option.some.injEq] at hu
          simp only [Option.bind_some]
          exact ⟨_, rfl, by rw [Val.v_u64, hu]; exact hr2⟩


/-- The reference computes `b ** e` by square-and-multiply; that is `b ^ e % m`. -/
theorem ref_powMod_eq (b e m : Nat) : powMod b e m = b ^ e % m := powMod_eq b e m

/-! ## the hypotheses are satisfiable: concrete non-trivial instances -/

/-- canonical operands of both representations -/
theorem canon_u64_example : (Val.u64 ⟨8, 0xf2, 0x01, true⟩).canon := by
  refine ⟨by decide, ?_⟩; simp only [V4.wfIn]; decide

theorem canon_big_example : (Val.big ⟨100, 2 ^ 99 + 5, 2 ^ 70, true⟩).canon := by
  refine ⟨by decide, ?_⟩; decide

theorem canon_fill_example : (Val.u64 ⟨0, 1, 0, false⟩).canon := by
  refine ⟨by decide, ?_⟩; simp only [V4.wfIn]; decide

/-- `8'shf2 + 100'sh…` in a 100-bit signed context (mixed representations, X/Z present). -/
example : ∃ v, evalBinary .Add (.u64 ⟨8, 0xf2, 0x01, true⟩) (.big ⟨100, 2 ^ 99 + 5, 2 ^ 70, true⟩) 100 true = some v ∧
    v.v.toBV = Ref.add ⟨8, 0xf2, 0x01, true⟩ ⟨100, 2 ^ 99 + 5, 2 ^ 70, true⟩ 100 true :=
  C17_add _ _ 100 true canon_u64_example canon_big_example (by decide) (by decide) (by decide)

/-- `'1 & 8'shf2` (unsized fill literal as a context-determined operand). -/
example : ∃ v, evalBinary .BitAnd (.u64 ⟨0, 1, 0, false⟩) (.u64 ⟨8, 0xf2, 0x01, true⟩) 8 false = some v ∧
    v.v.toBV = Ref.band ⟨0, 1, 0, false⟩ ⟨8, 0xf2, 0x01, true⟩ 8 false :=
  C17_band _ _ 8 false canon_fill_example canon_u64_example (by decide) (by decide) (by decide)

/-- a > 64-bit shift amount (`to_shift_amount` saturates): hypotheses of `C17_lshr`. -/
example : ∃ v, evalBinary .LogicShiftR (.u64 ⟨8, 0xf2, 0x01, true⟩) (.big ⟨100, 2 ^ 99 + 5, 0, false⟩) 8 true = some v ∧
    v.v.toBV = Ref.lshr ⟨8, 0xf2, 0x01, true⟩ ⟨100, 2 ^ 99 + 5, 0, false⟩ 8 true :=
  C17_lshr _ _ 8 true canon_u64_example (by refine ⟨by decide, ?_⟩; decide) (by decide) (by decide) (by decide)
    (by decide)

/-- comparison of operands of different widths and representations -/
example : ∃ v, evalBinary .Less (.u64 ⟨8, 0xf2, 0x01, true⟩) (.big ⟨100, 2 ^ 99 + 5, 2 ^ 70, true⟩) 1 true = some v ∧
    v.v.toBV = Ref.lt ⟨8, 0xf2, 0x01, true⟩ ⟨100, 2 ^ 99 + 5, 2 ^ 70, true⟩ 1 true :=
  C17_lt _ _ 1 true canon_u64_example canon_big_example (by decide) (by decide)

/-- operands already sized to `w` (hypotheses of the `big_eq_ref_*` / `u64_eq_big_*` theorems) -/
example : (⟨8, 0xf2, 0x01, true⟩ : V4).wf ∧ (⟨8, 0xf2, 0x01, true⟩ : V4).width = 8 ∧ (8 : Nat) ≤ 64 := by decide

example : amtOk (2 ^ 64 - 1) (2 ^ 99 + 5) 8 := Or.inr ⟨by decide, by decide⟩

/-- `(-3) ** 3` in a signed 8-bit context: hypotheses of `C17_pow_partial`. -/
example : ∃ v, evalBinary .Pow (.u64 ⟨8, 0xfd, 0, true⟩) (.u64 ⟨4, 3, 0, false⟩) 8 true = some v ∧
    v.v.toBV = Ref.pow ⟨8, 0xfd, 0, true⟩ ⟨4, 3, 0, false⟩ 8 true :=
  C17_pow_partial _ _ 8 true (by refine ⟨by decide, ?_⟩; simp only [V4.wfIn]; decide)
    (by refine ⟨by decide, ?_⟩; simp only [V4.wfIn]; decide) (by decide) (by decide) (by decide) rfl
    (by decide) (fun _ _ => rfl) (fun h => by cases h)

end VerylModel.Props.C17
