import VerylModel.Core.FS
import VerylModel.Lemmas.FS
/-!
# C30 — concurrent veryl processes never corrupt each other

"When several veryl processes run at once, none of them ever reads a partially written manifest,
blob, standard-library file, dependency checkout or output file, and each finished build produces
the outputs of a clean build. This covers two builds of one project, a build alongside the language
server, and builds of different projects sharing the user-level cache (standard-library expansion,
dependency checkouts). The language server never waits on a build's lock."

Every theorem quantifies over **all interleavings** (`Reach`) of the atomic steps (existence
tests, lock acquisitions, reads, truncations, chunk writes, renames, unlinks) of the processes of
`Core/FS.lean`; positive results are proved by invariants over `Reach`, negative results exhibit a
schedule (`exec`) of the programs **as coded**.

Result: the property holds for the project-level protocol (T1–T4) and is **false** for the
standard library (`std_expand_race`, `std_expander_reads_partial`), and for readers that do not
take `.build/lock` (`output_unlocked_reader_sees_truncated`, `cli_prelude_reads_partial_info`).
-/
namespace VerylModel.Props.C30
open VerylModel.FS

/-- Two processes `a`, `b`; everybody else idle. -/
def two (a b : Pid) (pa pb : Prog) : Pid → Proc :=
  upd (upd (fun _ => Proc.idle) a (Proc.start pa)) b (Proc.start pb)

theorem two_a {a b pa pb} (h : a ≠ b) : two a b pa pb a = Proc.start pa := by simp [two, upd, h]
theorem two_b {a b pa pb} : two a b pa pb b = Proc.start pb := by simp [two]

/-- What process `i` has done and seen after the given schedule (`none`: the schedule asks a
    finished or blocked process to move). -/
def seenAfter (s : Sys) (sched : List Pid) (i : Pid) : Option (Prog × List (Path × Option Content)) :=
  (exec s sched).map (fun t => ((t.procs i).prog, (t.procs i).obs))

/-- A schedule that runs is an interleaving. -/
theorem seenAfter_reach {s : Sys} {sched : List Pid} {i : Pid} {r : Prog × List (Path × Option Content)}
    (h : seenAfter s sched i = some r) : ∃ t, Reach s t ∧ (t.procs i).prog = r.1 ∧ (t.procs i).obs = r.2 := by
  unfold seenAfter at h
  cases he : exec s sched with
  | none => rw [he] at h; cases h
  | some t =>
    rw [he] at h
    simp only [Option.map_some, Option.some.injEq] at h
    exact ⟨t, exec_reach _ _ _ he, by rw [← h], by rw [← h]⟩

/-! ## T1 — the `.build` lock serialises two commands on one project -/

/-- `x` ran its whole command alone from `fs0`, then `y` ran its whole command alone from where
    `x` stopped, and that is the state `s`. -/
def SerialOrder (x y : Pid) (px py : Prog) (fs0 : FS) (s : Sys) : Prop :=
  ∃ fsm, SoloStar x (fs0, Proc.start px) (fsm, s.procs x) ∧ (s.procs x).prog = .done ∧
         SoloStar y (fsm, Proc.start py) (s.fs, s.procs y) ∧ (s.procs y).prog = .done

/-- **T1.** Two commands on one project, each `lock L; …; unlock L` with `L` untouched in between
    (`Bracket`), started with `L` free: every complete execution of every interleaving is one of
    the two serial executions — same final filesystem, same contents seen by every `read`. -/
theorem build_lock_serialises (L : LockId) (a b : Pid) (kA kB : Prog) (fs0 : FS) (s : Sys)
    (hab : a ≠ b) (hA : Bracket L kA) (hB : Bracket L kB) (hfree : fs0.locks L = none)
    (hr : Reach ⟨fs0, two a b (.lock L kA) (.lock L kB)⟩ s) (hd : s.allDone) :
    SerialOrder a b (.lock L kA) (.lock L kB) fs0 s ∨ SerialOrder b a (.lock L kB) (.lock L kA) fs0 s := by
  have hinv : (∀ j, j ≠ a → j ≠ b → s.procs j = Proc.idle) ∧
      (Ord L a b kA kB fs0 s ∨ Ord L b a kB kA fs0 s) := by
    refine reach_inv (Inv := fun s => (∀ j, j ≠ a → j ≠ b → s.procs j = Proc.idle) ∧
      (Ord L a b kA kB fs0 s ∨ Ord L b a kB kA fs0 s)) ?_ ?_ hr
    · refine ⟨fun j ha hb => by simp [two, upd, ha, hb], Or.inl (Or.inl ⟨?_, ?_⟩)⟩
      · simp [two, Proc.start]
      · have : (two a b (.lock L kA) (.lock L kB)) a = ⟨.lock L kA, []⟩ := by
          simp [two, upd, hab, Proc.start]
        simp only [this]; exact phase_start
    · intro s1 i e s2 ⟨hidle, ho⟩ hs
      obtain ⟨fs', p', hst, rfl⟩ := hs.inv
      have hi : i = a ∨ i = b := by
        by_cases h1 : i = a
        · exact Or.inl h1
        · by_cases h2 : i = b
          · exact Or.inr h2
          · rw [hidle i h1 h2, step1_idle] at hst; cases hst
      refine ⟨fun j ha hb => ?_, ?_⟩
      · have : j ≠ i := by rcases hi with rfl | rfl <;> assumption
        simp [upd, this, hidle j ha hb]
      · rcases ho with ho | ho
        · exact ord_step hab hA hB hfree hidle ho (Step.mk hst)
        · exact (ord_step (Ne.symm hab) hB hA hfree (fun j h1 h2 => hidle j h2 h1) ho (Step.mk hst)).symm
  obtain ⟨_, ho⟩ := hinv
  have fin : ∀ x y kX kY, Ord L x y kX kY fs0 s → SerialOrder x y (.lock L kX) (.lock L kY) fs0 s := by
    intro x y kX kY ho
    rcases ho with ⟨hy, _⟩ | ⟨fsm, hdx, hsx, _, hsy, hc⟩
    · have := hd y; rw [hy] at this; cases this
    · exact ⟨fsm, hsx, hdx, hsy, hd y⟩
  rcases ho with ho | ho
  · exact Or.inl (fin _ _ _ _ ho)
  · exact Or.inr (fin _ _ _ _ ho)

/-- The serial result is unique: solo execution is deterministic, so `SerialOrder x y` pins the
    final filesystem and both processes' observations (computed by `runSolo`). -/
theorem serial_order_unique {x y : Pid} {px py : Prog} {fs0 : FS} {s t : Sys}
    (hs : SerialOrder x y px py fs0 s) (ht : SerialOrder x y px py fs0 t) :
    s.fs = t.fs ∧ s.procs x = t.procs x ∧ s.procs y = t.procs y := by
  obtain ⟨f1, h1, d1, h2, d2⟩ := hs
  obtain ⟨g1, k1, e1, k2, e2⟩ := ht
  have hx := solo_unique h1 k1 d1 e1
  have hf : f1 = g1 := congrArg Prod.fst hx
  have hpx : s.procs x = t.procs x := congrArg Prod.snd hx
  subst hf
  rw [← hpx] at k1
  have hy := solo_unique h2 k2 d2 e2
  exact ⟨congrArg Prod.fst hy, hpx, congrArg Prod.snd hy⟩

/-- … and it is what `runSolo` computes. -/
theorem serial_order_run {x y : Pid} {px py : Prog} {fs0 : FS} {s : Sys}
    (hs : SerialOrder x y px py fs0 s) :
    ∃ n, ∀ m, n ≤ m →
      let r1 := runSolo x m (fs0, Proc.start px)
      r1.2 = s.procs x ∧ runSolo y m (r1.1, Proc.start py) = (s.fs, s.procs y) := by
  obtain ⟨f1, h1, d1, h2, d2⟩ := hs
  obtain ⟨n1, hn1⟩ := solo_runSolo h1 d1
  obtain ⟨n2, hn2⟩ := solo_runSolo h2 d2
  refine ⟨max n1 n2, fun m hm => ?_⟩
  have e1 := hn1 m (by omega)
  have e2 := hn2 m (by omega)
  simp only [e1, e2, and_self]

/-! ## T2 — readers of the store see whole files only -/

/-- **T2.** Any number of processes, any programs, any use of locks (also when `acquire_lock`
    failed and the store is used without one).  `S` = the manifest and blob paths of a store,
    `V p c` = "`c` is a complete content for `p`".  If every modification of an `S`-path by every
    process is an `atomic_write` of complete content or an unlink (`AtomicOn`), then in every
    reachable state every such file is absent or complete, and every `read` of such a path ever
    made by any process returned "absent" or a complete content. -/
theorem store_reads_whole (S : Path → Prop) (V : Path → Content → Prop) (s0 s : Sys)
    (hfs : ∀ p, S p → ∀ c, s0.fs.files p = some c → V p c)
    (hprog : ∀ i, (s0.procs i).prog.AtomicOn S V)
    (hobs : ∀ i, (s0.procs i).obs = [])
    (hr : Reach s0 s) :
    (∀ p, S p → ∀ c, s.fs.files p = some c → V p c) ∧
    (∀ i p v, (p, v) ∈ (s.procs i).obs → S p → v = none ∨ ∃ c, v = some c ∧ V p c) := by
  have hinv : FilesOk S V s.fs ∧ ∀ i, (s.procs i).prog.AtomicOn S V ∧ ObsOk S V (s.procs i).obs := by
    refine reach_inv (Inv := fun s => FilesOk S V s.fs ∧
      ∀ i, (s.procs i).prog.AtomicOn S V ∧ ObsOk S V (s.procs i).obs) ?_ ?_ hr
    · exact ⟨hfs, fun i => ⟨hprog i, by intro p c h; rw [hobs i] at h; cases h⟩⟩
    · intro a i e b ⟨hf, hp⟩ hs
      obtain ⟨fs', p', hst, rfl⟩ := hs.inv
      obtain ⟨h1, h2, h3⟩ := step1_atomic (hp i).1 hf (hp i).2 hst
      refine ⟨h2, fun j => ?_⟩
      by_cases hj : j = i
      · subst hj; simp only [upd_same]; exact ⟨h1, h3⟩
      · simp only [upd, hj, if_false]; exact hp j
  refine ⟨hinv.1, fun i p v hm hS => ?_⟩
  cases v with
  | none => exact Or.inl rfl
  | some c => exact Or.inr ⟨c, rfl, (hinv.2 i).2 p c hm hS⟩

/-- Content-addressed blobs (`write_blob`: the name is the hash of the bytes): with
    `V p c := c = bytesOf p`, a reader racing `put`s and `gc` unlinks gets a miss or exactly the
    bytes that belong to the name — never foreign or partial bytes. -/
theorem blob_read_miss_or_own (isBlob : Path → Prop) (bytesOf : Path → Content) (s0 s : Sys)
    (hfs : ∀ p, isBlob p → ∀ c, s0.fs.files p = some c → c = bytesOf p)
    (hprog : ∀ i, (s0.procs i).prog.AtomicOn isBlob (fun p c => c = bytesOf p))
    (hobs : ∀ i, (s0.procs i).obs = []) (hr : Reach s0 s) :
    ∀ i p v, (p, v) ∈ (s.procs i).obs → isBlob p → v = none ∨ v = some (bytesOf p) := by
  intro i p v hm hb
  rcases (store_reads_whole isBlob _ s0 s hfs hprog hobs hr).2 i p v hm hb with h | ⟨c, rfl, rfl⟩
  · exact Or.inl h
  · exact Or.inr rfl

/-! ## T3 — the language server never waits on a build's lock -/

/-- **T3 (general form).** A process can only ever be blocked at a blocking `lock l` that occurs
    in its program; so if all blocking locks of its program lie in `Allowed`, then whenever it is
    not finished and cannot move, it is waiting for a lock in `Allowed` (held by someone). -/
theorem blocked_only_on (Allowed : LockId → Prop) (s0 s : Sys) (i : Pid)
    (hall : ∀ l, l ∈ (s0.procs i).prog.blockingLocks → Allowed l) (hr : Reach s0 s)
    (hnd : (s.procs i).prog ≠ .done) (hblocked : ¬ Enabled s i) :
    ∃ l k, (s.procs i).prog = .lock l k ∧ Allowed l ∧ (s.fs.locks l).isSome := by
  have hinv : ∀ l, l ∈ (s.procs i).prog.blockingLocks → Allowed l := by
    refine reach_inv (Inv := fun s => ∀ l, l ∈ (s.procs i).prog.blockingLocks → Allowed l) hall ?_ hr
    intro a j e b ha hs
    obtain ⟨fs', p', hst, rfl⟩ := hs.inv
    by_cases hj : i = j
    · subst hj; simp only [upd_same]
      exact fun l hl => ha l (blockingLocks_step hst l hl)
    · simpa [upd, hj] using ha
  have hb : step1 i s.fs (s.procs i) = none := by
    simpa [Enabled] using hblocked
  obtain ⟨l, k, hp, hl⟩ := blocked_is_lock hnd hb
  exact ⟨l, k, hp, hinv l (by rw [hp]; simp [Prog.blockingLocks]), hl⟩

/-- **T3.** A program without a blocking `lock` (such as `Store::try_open`'s session) is enabled
    in every reachable state of every system until it has finished: it never waits. -/
theorem never_blocks (s0 s : Sys) (i : Pid) (hnb : (s0.procs i).prog.blockingLocks = [])
    (hr : Reach s0 s) (hnd : (s.procs i).prog ≠ .done) : Enabled s i := by
  apply Classical.byContradiction
  intro hne
  obtain ⟨l, k, _, hf, _⟩ := blocked_only_on (fun _ => False) s0 s i (by rw [hnb]; intro l h; cases h) hr hnd hne
  exact hf

/-- `try_open`'s session contains no blocking step, whatever files it reads and writes. -/
theorem ls_try_open_no_blocking_step (l : LockId) (dir manifest : Path) (loads : List Path)
    (newBlobs : List (Path × Content)) (newManifest : Content) (gc srcs : List Path) :
    (storeTrySession l dir manifest loads newBlobs newManifest gc srcs .done).blockingLocks = [] := by
  have hread : ∀ (ps : List Path) (k : Prog), (readAll ps k).blockingLocks = k.blockingLocks := by
    intro ps k; induction ps with
    | nil => rfl
    | cons p ps ih => simpa [readAll, Prog.blockingLocks] using ih
  have hren : ∀ (fs : List (Path × Content)) (k : Prog), (renameFiles fs k).blockingLocks = k.blockingLocks := by
    intro fs k; induction fs with
    | nil => rfl
    | cons p ps ih => obtain ⟨p, c⟩ := p; simpa [renameFiles, Prog.blockingLocks] using ih
  have hunl : ∀ (ps : List Path) (k : Prog), (unlinkAll ps k).blockingLocks = k.blockingLocks := by
    intro ps k; induction ps with
    | nil => rfl
    | cons p ps ih => simpa [unlinkAll, Prog.blockingLocks] using ih
  simp [storeTrySession, Prog.blockingLocks, hread, hren, hunl]

/-- **T3 for the server's store.** While any other processes (builds holding `.build/lock`,
    `.build/cache/lock`, another server holding `.build/cache-ls/lock`, …) do anything, the
    `try_open` session is always able to take its next step. -/
theorem ls_never_blocks (s0 s : Sys) (i : Pid) (l : LockId) (dir manifest : Path) (loads : List Path)
    (newBlobs : List (Path × Content)) (newManifest : Content) (gc srcs : List Path)
    (hi : s0.procs i = Proc.start (storeTrySession l dir manifest loads newBlobs newManifest gc srcs .done))
    (hr : Reach s0 s) (hnd : (s.procs i).prog ≠ .done) : Enabled s i :=
  never_blocks s0 s i (by rw [hi]; exact ls_try_open_no_blocking_step ..) hr hnd

/-! ## T4 — dependency checkouts: lock first, then test -/

/-- **T4.** Any number of processes running the dependency checkout as coded (same dependency),
    from a state in which the checkout is absent, complete, or an empty directory left by a crash:
    in every interleaving every read of the checkout's `Veryl.toml` returns its complete content,
    and whenever the `dependencies` lock is free no partial checkout is visible. -/
theorem deps_checkout_safe (dd dp tf : Path) (cs : Content) (h1 : dd ≠ dp) (h2 : dd ≠ tf) (h3 : dp ≠ tf)
    (s0 s : Sys)
    (hall : ∀ i, s0.procs i = Proc.start (depCheckout dd dp tf cs) ∨ s0.procs i = Proc.idle)
    (hq : Quiet dp tf cs s0.fs) (hr : Reach s0 s) :
    (∀ i p v, (p, v) ∈ (s.procs i).obs → p = tf ∧ v = some cs) ∧
    (s.fs.locks .deps = none → Quiet dp tf cs s.fs) := by
  have hinv : (∀ j, DepPt dd dp tf cs j s.fs (s.procs j)) ∧ (s.fs.locks .deps = none → Quiet dp tf cs s.fs) := by
    refine reach_inv (Inv := fun s => (∀ j, DepPt dd dp tf cs j s.fs (s.procs j)) ∧
        (s.fs.locks .deps = none → Quiet dp tf cs s.fs)) ?_ ?_ hr
    · refine ⟨fun j => ?_, fun _ => hq⟩
      rcases hall j with h | h <;> rw [h]
      · exact .start
      · exact .idle
    · intro a i e b ⟨hI, hQ⟩ hs
      exact dep_step h1 h2 h3 hI hQ hs
  refine ⟨fun i p v hm => ?_, hinv.2⟩
  have hpt := hinv.1 i
  generalize s.procs i = pr at hpt hm
  cases hpt <;> simp at hm
  exact hm

/-- **Negation for version resolution.** `resolve_version_from_latest` reads `Veryl.pub` after
    `unlock_dir("resolve")`, while another process's `checkout` (inside the lock) rewrites that file
    in place: `0` resolves and unlocks; `1` locks and truncates; `0` reads an empty `Veryl.pub`. -/
theorem resolve_read_after_unlock_race :
    seenAfter ⟨FS.empty, two 0 1 (resolveLatest ⟨.depsDir, 0, 2⟩ ⟨.resDir, 0, 1⟩ ⟨.resFile, 0, 1⟩ [1, 2])
        (resolveLatest ⟨.depsDir, 0, 2⟩ ⟨.resDir, 0, 1⟩ ⟨.resFile, 0, 1⟩ [1, 2])⟩
      [0, 0, 0, 0, 0, 0, 0, 1, 1, 1, 1, 0] 0 = some (.done, [(⟨.resFile, 0, 1⟩, some [])]) := by
  decide

/-! ## T5 — the standard library: the property is FALSE -/

/-- **T5 (negation, general).** `std::expand` as coded tests `std_dir.exists()` before taking any
    lock.  For *every* library `files` and fresh user cache there is an interleaving of two
    processes in which `b` passes the existence test right after `a`'s `create_dir_all`, skips
    expansion and lock, and reads **every** library file as missing while `a` has not written
    anything yet. -/
theorem std_expand_race (sd : Path) (files : List (Path × Content)) (fs0 : FS) (a b : Pid) (hab : a ≠ b)
    (hfresh : fs0.files sd = none) (hmiss : ∀ p, p ∈ files.map Prod.fst → fs0.files p = none)
    (hsd : sd ∉ files.map Prod.fst) :
    ∃ s, Reach ⟨fs0, two a b (stdUser sd files) (stdUser sd files)⟩ s ∧
      s.procs a = ⟨.lock .std (writeFiles files (.unlock .std (readAll (files.map Prod.fst) .done))), []⟩ ∧
      (s.procs b).prog = .done ∧
      (s.procs b).obs = (files.map Prod.fst).map (fun p => (p, none)) := by
  let P := stdUser sd files
  let pa1 : Proc := ⟨.mkdirAll sd (.lock .std (writeFiles files (.unlock .std (readAll (files.map Prod.fst) .done)))), []⟩
  let pa2 : Proc := ⟨.lock .std (writeFiles files (.unlock .std (readAll (files.map Prod.fst) .done))), []⟩
  let procs0 := two a b P P
  let fs1 := fs0.mkdir sd
  have st1 : Step ⟨fs0, procs0⟩ a (.exist sd false) ⟨fs0, upd procs0 a pa1⟩ := by
    refine Step.mk ?_
    show step1 a fs0 (two a b P P a) = _
    rw [two_a hab]
    simp [step1, Proc.start, P, stdUser, stdExpand, hfresh, pa1]
  have st2 : Step ⟨fs0, upd procs0 a pa1⟩ a (.mkdir sd) ⟨fs1, upd (upd procs0 a pa1) a pa2⟩ := by
    refine Step.mk ?_
    simp [step1, pa1, pa2, fs1]
  let procs2 := upd (upd procs0 a pa1) a pa2
  have hb2 : procs2 b = Proc.start P := by
    simp [procs2, upd, Ne.symm hab, procs0, two_b]
  have hsd1 : (fs1.files sd).isSome := mkdir_isSome
  have hf1 : ∀ p, p ∈ files.map Prod.fst → fs1.files p = none := by
    intro p hp
    have : p ≠ sd := fun h => hsd (h ▸ hp)
    rw [mkdir_files_ne this]; exact hmiss p hp
  have solo : SoloStar b (fs1, Proc.start P)
      (fs1, ⟨.done, [] ++ (files.map Prod.fst).map (fun p => (p, fs1.files p))⟩) := by
    refine SoloStar.head (e := .exist sd true) (fs' := fs1)
      (p' := ⟨readAll (files.map Prod.fst) .done, []⟩) ?_ (solo_readAll b fs1 .done _ [])
    simp [step1, Proc.start, P, stdUser, stdExpand, hsd1]
  have r3 := reach_solo solo procs2 hb2
  refine ⟨_, Reach.trans (Reach.tail (Reach.tail (Reach.refl _) st1) st2) r3, ?_, ?_, ?_⟩
  · simp [upd, hab, procs2, pa2]
  · simp
  · simp only [upd_same, List.nil_append]
    exact List.map_congr_left (fun p hp => by rw [hf1 p hp])

/-! concrete witness: a library of two files -/
def wSd : Path := ⟨.stdDir, 0, 0⟩
def wF1 : Path := ⟨.stdFile, 0, 1⟩
def wF2 : Path := ⟨.stdFile, 0, 2⟩
def wLib : List (Path × Content) := [(wF1, [11, 12]), (wF2, [21])]
def wInit : Sys := ⟨FS.empty, two 0 1 (stdUser wSd wLib) (stdUser wSd wLib)⟩

/-- … and one in which `b` reads a **partially written** file (`[11]` of `[11, 12]`) and a missing
    one.  (Steps: `a`: exists? no, mkdir, lock, truncate f1, write 11; `b`: exists? yes, read f1,
    read f2.) -/
theorem std_expand_race_partial_file :
    seenAfter wInit [0, 0, 0, 0, 0, 1, 1, 1] 1 = some (.done, [(wF1, some [11]), (wF2, none)]) := by
  decide

/-- Not even a process that expanded the library itself is safe: `a` and `b` both pass the test,
    `a` expands and unlocks, `b` then truncates f1 again while `a` reads it. -/
theorem std_expander_reads_partial :
    seenAfter wInit [0, 1, 0, 1, 0, 0, 0, 0, 0, 0, 0, 1, 1, 0, 0] 0
      = some (.done, [(wF1, some []), (wF2, some [21])]) := by
  decide

/-- The full-strength statement for the standard library, refuted. -/
theorem std_expand_unsafe :
    ¬ (∀ s, Reach wInit s → ∀ i p v c, (p, v) ∈ (s.procs i).obs → (p, c) ∈ wLib → v = some c) := by
  intro h
  obtain ⟨t, hr, _, ho⟩ := seenAfter_reach std_expand_race_partial_file
  have := h t hr 1 wF1 (some [11]) [11, 12] (by rw [ho]; simp) (by simp [wLib])
  simp at this

/-- **What does hold for the standard library.** -/
theorem std_expand_partial (sd : Path) (files : List (Path × Content)) (s0 s : Sys)
    (hsd : (s0.fs.files sd).isSome)
    (hall : ∀ i, s0.procs i = Proc.start (stdUser sd files) ∨ s0.procs i = Proc.idle)
    (hr : Reach s0 s) :
    s.fs = s0.fs ∧ ∀ i p v, (p, v) ∈ (s.procs i).obs → p ∈ files.map Prod.fst ∧ v = s0.fs.files p := by
  have hinv : s.fs = s0.fs ∧ ∀ i, s.procs i = Proc.start (stdUser sd files) ∨
      ∃ ps o, s.procs i = ⟨readAll ps .done, o⟩ ∧ (∀ p, p ∈ ps → p ∈ files.map Prod.fst) ∧
        ∀ p v, (p, v) ∈ o → p ∈ files.map Prod.fst ∧ v = s0.fs.files p := by
    refine reach_inv (Inv := fun s => s.fs = s0.fs ∧ ∀ i, s.procs i = Proc.start (stdUser sd files) ∨
      ∃ ps o, s.procs i = ⟨readAll ps .done, o⟩ ∧ (∀ p, p ∈ ps → p ∈ files.map Prod.fst) ∧
        ∀ p v, (p, v) ∈ o → p ∈ files.map Prod.fst ∧ v = s0.fs.files p) ?_ ?_ hr
    · refine ⟨rfl, fun i => ?_⟩
      rcases hall i with h | h
      · exact Or.inl h
      · exact Or.inr ⟨[], [], by rw [h]; rfl, by simp, by simp⟩
    · intro a i e b ⟨hfs, hp⟩ hs
      obtain ⟨fs', p', hst, rfl⟩ := hs.inv
      suffices h : fs' = s0.fs ∧ ∃ ps o, p' = ⟨readAll ps .done, o⟩ ∧ (∀ p, p ∈ ps → p ∈ files.map Prod.fst) ∧
          ∀ p v, (p, v) ∈ o → p ∈ files.map Prod.fst ∧ v = s0.fs.files p by
        refine ⟨h.1, fun j => ?_⟩
        by_cases hj : j = i
        · subst hj; simp only [upd_same]; exact Or.inr h.2
        · simpa [upd, hj] using hp j
      rcases hp i with h | ⟨ps, o, h, hps, ho⟩
      · rw [h, hfs] at hst
        simp [step1, Proc.start, stdUser, stdExpand, hsd] at hst
        obtain ⟨_, rfl, rfl⟩ := hst
        exact ⟨rfl, _, [], rfl, fun p hp => hp, by simp⟩
      · rw [h] at hst
        cases ps with
        | nil => simp [readAll, step1] at hst
        | cons q ps =>
          simp only [readAll, step1] at hst
          cases hst
          refine ⟨hfs, ps, _, rfl, fun p hp => hps p (List.mem_cons_of_mem _ hp), ?_⟩
          intro p v hm
          simp only [List.mem_append, List.mem_singleton, Prod.mk.injEq] at hm
          rcases hm with hm | ⟨rfl, rfl⟩
          · exact ho p v hm
          · exact ⟨hps _ (List.mem_cons_self ..), by rw [hfs]⟩
  refine ⟨hinv.1, fun i p v hm => ?_⟩
  rcases hinv.2 i with h | ⟨ps, o, h, _, ho⟩
  · rw [h] at hm; simp [Proc.start] at hm
  · rw [h] at hm; exact ho p v hm

/-! ## Outputs -/

/-- the writer of one output file inside the build lock (`write_file_if_changed`, changed case) -/
def outWriter (L : LockId) (p : Path) (new : Content) : Prog :=
  .lock L (.read p (plainWrite p new (.unlock L .done)))
/-- a reader that takes the build lock (another veryl command on the project) -/
def lockedReader (L : LockId) (p : Path) : Prog := .lock L (.read p (.unlock L .done))
/-- a reader that does not -/
def plainReader (p : Path) : Prog := .read p .done

theorem bracket_writeChunks {L p} : ∀ (c : Content) {k}, Bracket L k → Bracket L (writeChunks p c k)
  | [], _, h => h
  | _ :: cs, _, h => Bracket.writeChunk (bracket_writeChunks cs h)

theorem output_locked_reader_sees_whole (L : LockId) (p : Path) (new : Content) (fs0 : FS) (a b : Pid)
    (hab : a ≠ b) (hfree : fs0.locks L = none) (s : Sys)
    (hr : Reach ⟨fs0, two a b (outWriter L p new) (lockedReader L p)⟩ s) (hd : s.allDone) :
    (s.procs b).obs = [(p, fs0.files p)] ∨ (s.procs b).obs = [(p, some new)] := by
  have hA : Bracket L (.read p (plainWrite p new (.unlock L .done))) :=
    Bracket.read (Bracket.openTrunc (bracket_writeChunks new Bracket.last))
  have hB : Bracket L (.read p (.unlock L .done)) := Bracket.read Bracket.last
  -- canonical solo runs
  have runA : ∀ fs : FS, fs.locks L = none →
      SoloStar a (fs, Proc.start (outWriter L p new))
        ((((fs.setLock L (some a)).setFile p (some new)).setLock L none), ⟨.done, [(p, fs.files p)]⟩) := by
    intro fs hl
    refine SoloStar.head (e := .lock L) (fs' := fs.setLock L (some a))
      (p' := ⟨.read p (plainWrite p new (.unlock L .done)), []⟩) (by simp [step1, outWriter, Proc.start, hl]) ?_
    refine SoloStar.head (e := .read p (fs.files p)) (fs' := fs.setLock L (some a))
      (p' := ⟨plainWrite p new (.unlock L .done), [(p, fs.files p)]⟩) (by simp [step1]) ?_
    refine SoloStar.trans (solo_plainWrite a p new _ _ _) ?_
    refine SoloStar.head (e := .unlock L) (fs' := ((fs.setLock L (some a)).setFile p (some new)).setLock L none)
      (p' := ⟨.done, [(p, fs.files p)]⟩) ?_ (SoloStar.refl _)
    simp [step1, release_held (fs := (fs.setLock L (some a)).setFile p (some new)) (me := a) (l := L)
      (by simp [setLock_locks_same])]
  have runB : ∀ fs : FS, fs.locks L = none →
      SoloStar b (fs, Proc.start (lockedReader L p))
        (((fs.setLock L (some b)).setLock L none), ⟨.done, [(p, fs.files p)]⟩) := by
    intro fs hl
    refine SoloStar.head (e := .lock L) (fs' := fs.setLock L (some b))
      (p' := ⟨.read p (.unlock L .done), []⟩) (by simp [step1, lockedReader, Proc.start, hl]) ?_
    refine SoloStar.head (e := .read p (fs.files p)) (fs' := fs.setLock L (some b))
      (p' := ⟨.unlock L .done, [(p, fs.files p)]⟩) (by simp [step1]) ?_
    refine SoloStar.head (e := .unlock L) (fs' := (fs.setLock L (some b)).setLock L none)
      (p' := ⟨.done, [(p, fs.files p)]⟩) ?_ (SoloStar.refl _)
    simp [step1, release_held (fs := fs.setLock L (some b)) (me := b) (l := L) setLock_locks_same]
  rcases build_lock_serialises L a b _ _ fs0 s hab hA hB hfree hr hd with
    ⟨fsm, h1, d1, h2, d2⟩ | ⟨fsm, h1, d1, _, _⟩
  · have e1 := solo_unique h1 (runA fs0 hfree) d1 rfl
    have hf : fsm = ((fs0.setLock L (some a)).setFile p (some new)).setLock L none := congrArg Prod.fst e1
    have hl : fsm.locks L = none := by rw [hf]; exact setLock_locks_same
    have e2 := solo_unique h2 (runB fsm hl) d2 rfl
    have hb : s.procs b = ⟨.done, [(p, fsm.files p)]⟩ := congrArg Prod.snd e2
    right
    rw [hb, hf]
    simp [setFile_files_same]
  · have e1 := solo_unique h1 (runB fs0 hfree) d1 rfl
    have hb : s.procs b = ⟨.done, [(p, fs0.files p)]⟩ := congrArg Prod.snd e1
    left; rw [hb]

/-! ### Readers that are *not* covered -/

def wOut : Path := ⟨.out, 1, 0⟩
def wToml : Path := ⟨.toml, 1, 0⟩
def wDot : Path := ⟨.dotBuild, 1, 0⟩
def wInfo : Path := ⟨.info, 1, 0⟩

/-- An output file is rewritten in place (`write_file_if_changed`): a process that reads it
    without taking `.build/lock` can see it empty — neither the old `[1]` nor the new `[7, 8]`. -/
theorem output_unlocked_reader_sees_truncated :
    seenAfter ⟨FS.empty.setFile wOut (some [1]), two 0 1 (outWriter (.build 1) wOut [7, 8]) (plainReader wOut)⟩
      [0, 0, 0, 1] 1 = some (.done, [(wOut, some [])]) := by
  decide

/-- `veryl build` as coded, writing one output and then `.build/info.toml` in place. -/
def wCli : Prog :=
  cliCommand 1 wToml wDot wInfo (fun k => plainWrite wOut [7, 8] (plainWrite wInfo [31, 32] k))

/-- `Metadata::load` runs **before** `lock_dir(.build)`: the second build's read of
    `.build/info.toml` is not protected and can see the first build's truncated file. -/
theorem cli_prelude_reads_partial_info :
    seenAfter ⟨(FS.empty.setFile wToml (some [5])).setFile wInfo (some [30]), two 0 1 wCli wCli⟩
      [0, 0, 0, 0, 0, 0, 0, 0, 0, 1, 1, 1, 1] 1
      = some (bracket (.build 1) (fun k => plainWrite wOut [7, 8] (plainWrite wInfo [31, 32] k)),
              [(wToml, some [5]), (wInfo, some [])]) := by
  decide

/-- Everything after `Metadata::load` is inside the lock: T1 applies to it. -/
theorem cli_body_bracketed (prj : Nat) (body : Prog → Prog)
    (hbody : ∀ k, Bracket (.build prj) k → Bracket (.build prj) (body k)) :
    ∃ k, bracket (.build prj) body = .lock (.build prj) k ∧ Bracket (.build prj) k :=
  ⟨body (.unlock (.build prj) .done), rfl, hbody _ Bracket.last⟩

/-! ## The acceptor used for trace inclusion (`vmodel fs`, `tools/strace_fs.py`)

The words of the model programs are accepted (so the acceptor's language contains the modelled
programs), and acceptance of an event enforces exactly the hypotheses the theorems above rest on:
atomic replacement of store files (T2: `AtomicOn`), all project modifications inside the build
lock (T1: `Bracket`), no blocking project lock in the server (T3), and — for the standard library —
the **coded** order "test, then lock" (T5), so a repaired `expand` would stop being accepted and
force the model (and T5) to be revisited. -/

theorem model_cli_words_accepted : ∀ w ∈ modelCli.words 0, accept (.cli 1) w = none := by decide
theorem model_ls_words_accepted : ∀ w ∈ modelLs.words 0, accept (.ls 1) w = none := by decide
theorem model_dep_words_accepted : ∀ w ∈ modelDep.words 0, accept (.cli 1) w = none := by decide

/-- the files of a project that only a command holding `.build/lock` may modify -/
def projectWritten (c : Cls) : Bool :=
  c == .out || c == .info || c == .lockfile || c == .manifest || c == .frag

theorem accepted_trunc_not_atomic_file (m m' : Mon) (p : Path) (h : m.step (.trunc p) = some m') :
    p.cls.atomicOnly = false := by
  cases hC : p.cls.atomicOnly
  · rfl
  · cases hA : mayModify m.role p <;> cases hB : inBuild m p <;> simp [Mon.step, hA, hB, hC] at h

/-- Every accepted modification happened inside `lock_dir(.build)` … `unlock_dir` and under the
    lock that guards the file (`guardOf`). -/
theorem accepted_mutation_guarded (m m' : Mon) (p : Path)
    (h : m.step (.trunc p) = some m' ∨ m.step (.write p) = some m' ∨ (∃ t, m.step (.rename t p) = some m') ∨
         m.step (.unlink p) = some m') :
    inBuild m p = true ∧ guardOk m p = true := by
  cases hB : inBuild m p <;> cases hD : guardOk m p <;> simp only [and_self, and_true, true_and]
  all_goals
    rcases h with h | h | ⟨t, h⟩ | h
    · cases hA : mayModify m.role p <;> simp [Mon.step, hA, hB, hD] at h
    · cases hO : m.openW.contains p <;> simp [Mon.step, hB, hD] at h
    · simp only [Mon.step] at h
      split at h
      · simp [hB, hD] at h
      · cases h
    · cases hA : mayModify m.role p <;> simp [Mon.step, hA, hB, hD] at h

theorem inBuild_cli_project {m : Mon} {j : Nat} {p : Path} (hr : m.role = .cli j) (hp : p.prj = j)
    (hc : projectWritten p.cls = true) (hb : inBuild m p = true) : holds m (.build j) = true := by
  simp only [inBuild, hr] at hb
  simp only [projectWritten, Bool.or_eq_true, beq_iff_eq] at hc
  simp only [Bool.or_eq_true, bne_iff_ne, beq_iff_eq, hp] at hb
  rcases hb with (h1 | h1) | h1
  · exact absurd rfl h1
  · exact h1
  · rw [h1] at hc; simp at hc

/-- The language server's accepted words contain no blocking lock on a project lock. -/
theorem accepted_ls_blocking_lock (m m' : Mon) (j : Nat) (l : LockId) (hr : m.role = .ls j)
    (h : m.step (.lock l) = some m') : l = .std ∨ l = .deps ∨ l = .resolve := by
  cases l <;> simp [Mon.step, hr] at h ⊢
  all_goals (split at h <;> simp at h)

/-- The existence test of the std directory is accepted only with no lock on std held; it decides
    whether the process will expand (and lock) or skip both. -/
theorem accepted_std_test_unlocked (m m' : Mon) (b : Bool) (hu : m.std = .unknown)
    (h : m.step (.exist ⟨.stdDir, 0, 0⟩ b) = some m') :
    holds m .std = false ∧ m'.std = (if b then .present else .absent) := by
  cases hh : holds m .std <;> simp [Mon.step, hu, hh] at h
  subst h
  simp

/-- … and a process that saw the directory never locks or writes std afterwards. -/
theorem accepted_std_present_no_write (m m' : Mon) (hp : m.std = .present) :
    m.step (.lock .std) ≠ some m' ∧ ∀ p, p.cls = .stdFile → m.step (.trunc p) ≠ some m' := by
  constructor
  · cases hr : m.role <;> cases hh : holds m .std <;> simp [Mon.step, hr, hh, hp]
  · intro p hc
    cases hA : mayModify m.role p <;> cases hB : inBuild m p <;> cases hD : guardOk m p <;>
      simp [Mon.step, hA, hB, hD, hc, hp, Cls.atomicOnly]


/-! ## Non-vacuity: concrete instances of the hypotheses -/

/-- T1: the body of the model build command is bracketed by `.build/lock`. -/
example : ∃ k, modelCli = .read ⟨.toml, 1, 0⟩ (.mkdirAll ⟨.dotBuild, 1, 0⟩ (.ifExists ⟨.info, 1, 0⟩
    (.read ⟨.info, 1, 0⟩ (.lock (.build 1) k)) (.lock (.build 1) k))) ∧ (k.bracketB (.build 1)) = true :=
  ⟨_, rfl, by decide⟩

/-- T1: a complete interleaved execution of two bracketed commands exists (both finish). -/
example : seenAfter ⟨FS.empty, two 0 1 (outWriter (.build 1) wOut [7, 8]) (lockedReader (.build 1) wOut)⟩
    [1, 1, 1, 0, 0, 0, 0, 0, 0] 0 = some (.done, [(wOut, none)]) := by decide

/-- T2: the model build command and server only ever replace manifest/blob files atomically with
    complete contents. -/
example : modelCli.AtomicOn (fun p => p.cls = .manifest ∨ p.cls = .frag)
    (fun p c => (p.cls = .manifest → c = [6]) ∧ (p.cls = .frag → c = [4, 5])) := by
  simp [modelCli, cliCommand, bracket, stdExpand, storeSession, readAll, renameFiles, unlinkAll, writeFiles,
    plainWrite, writeChunks, mLib, mSd, Prog.AtomicOn]

example : modelLs.AtomicOn (fun p => p.cls = .lsManifest ∨ p.cls = .lsFrag)
    (fun p c => (p.cls = .lsManifest → c = [6]) ∧ (p.cls = .lsFrag → c = [4, 5])) := by
  simp [modelLs, stdExpand, storeTrySession, readAll, renameFiles, unlinkAll, writeFiles,
    plainWrite, writeChunks, mLib, mSd, Prog.AtomicOn]

/-- T3 (honest scope): the server as a whole can block, but only on the user-level std lock
    (inside `expand`), never on `.build/lock`, `.build/cache/lock` or `.build/cache-ls/lock`. -/
theorem ls_blocking_locks : modelLs.blockingLocks = [.std] := by decide

/-- … and it really can: a build (`0`) and the server (`1`) both find the std directory missing,
    the build takes the std lock, the server is then stuck at its blocking `lock_dir(std_dir)`. -/
theorem ls_can_wait_on_std_lock :
    (exec ⟨FS.empty, two 0 1 (stdUser mSd mLib) modelLs⟩ [0, 1, 1, 1, 0, 0, 1]).map
      (fun t => ((t.procs 1).prog.blockingLocks.head?, (step1 1 t.fs (t.procs 1)).isSome)) = some (some .std, false) := by
  decide

/-- T4: a fresh cache satisfies the hypotheses. -/
example : Quiet ⟨.depDir, 0, 1⟩ ⟨.depFile, 0, 1⟩ [1, 2] FS.empty := Or.inl rfl

/-- T5 partial: a complete library satisfies the hypothesis. -/
example : ((FS.empty.setFile wSd (some [])).files wSd).isSome := by decide

end VerylModel.Props.C30
