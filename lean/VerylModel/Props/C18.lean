import VerylModel.Lemmas.WideValues
import VerylModel.Lemmas.ExprRef
/-!
C18, part A — the multi-word helpers of `crates/simulator/src/wide_ops.rs` compute the IEEE 1800
result at every width: for EVERY word count `n` (no bound), on buffers of `n` 64-bit words.

`toNat` = little-endian value of a buffer; `Words a` = every word is a `u64`; `toInt w x` = the
two's-complement reading of a `w`-bit value; packed arguments are `pack_nb_width(nb, width)`.
All statements are about the model `VerylModel.Wide.*` (Core/Wide.lean), tied to the real
functions by the differential domain `wide`.
-/
namespace VerylModel.Props.C18
open VerylModel.Wide

-- ── arithmetic ──────────────────────────────────────────────────────────────────────────────

/-- `wide_add` is addition modulo `2^(64 n)`; the result is `n` well-formed words. -/
theorem wide_add_toNat (n : Nat) (a b : List Nat) (hla : a.length = n) (hlb : b.length = n)
    (ha : Words a) (hb : Words b) :
    toNat (add n a b) = (toNat a + toNat b) % 2 ^ (64 * n) ∧ (add n a b).length = n ∧ Words (add n a b) := by
  refine ⟨?_, addLoop_length _ _ _ _, addLoop_words _ _ _ _⟩
  rw [← W_pow]; exact addLoop_spec n a b 0 hla hlb ha hb (by omega)

/-- `wide_sub` is subtraction modulo `2^(64 n)`. -/
theorem wide_sub_toNat (n : Nat) (a b : List Nat) (hla : a.length = n) (hlb : b.length = n)
    (ha : Words a) (hb : Words b) :
    toNat (sub n a b) = (toNat a + 2 ^ (64 * n) - toNat b) % 2 ^ (64 * n) ∧ (sub n a b).length = n ∧ Words (sub n a b) := by
  refine ⟨?_, subLoop_length _ _ _ _, subLoop_words _ _ _ _⟩
  rw [← W_pow]; exact subLoop_spec n a b 0 hla hlb ha hb (by omega)

/-- `wide_negate` is two's-complement negation modulo `2^(64 n)`. -/
theorem wide_negate_toNat (n : Nat) (a : List Nat) (hla : a.length = n) (ha : Words a) :
    toNat (negate n a) = (2 ^ (64 * n) - toNat a) % 2 ^ (64 * n) ∧ (negate n a).length = n ∧ Words (negate n a) := by
  refine ⟨?_, negLoop_length _ _ _, negLoop_words _ _ _⟩
  have h := negLoop_spec n a 1 hla ha (by omega)
  have hlt := toNat_lt ha
  rw [hla] at hlt
  rw [← W_pow]
  unfold negate
  rw [h]
  congr 1
  omega

/-- `wide_mul` is the schoolbook product truncated to `n` words: multiplication modulo `2^(64 n)`. -/
theorem wide_mul_toNat (n : Nat) (a b : List Nat) (hla : a.length = n) :
    toNat (mul n a b) = (toNat a * toNat b) % 2 ^ (64 * n) ∧ (mul n a b).length = n ∧ Words (mul n a b) := by
  have hz := replicate_zero_words n
  have hzn := toNat_replicate_zero n
  refine ⟨?_, mulOuter_length n a b _ (by simp), mulOuter_words n a b _ hz⟩
  unfold mul
  rw [mulOuter_spec n a b _ hla (by simp) hz, hzn, Nat.zero_add, W_pow]

/-- the `u128` accumulator of `wide_mul`'s inner loop never overflows and its carry is a `u64`. -/
theorem wide_mul_no_u128_overflow (ai bj dk carry : Nat) (h1 : ai < W) (h2 : bj < W) (h3 : dk < W) (h4 : carry < W) :
    ai * bj + dk + carry < W * W ∧ (ai * bj + dk + carry) / W < W :=
  mulRow_prod_lt ai bj dk carry h1 h2 h3 h4

-- ── shifts ──────────────────────────────────────────────────────────────────────────────────

/-- `wide_shl` is `· 2^k` modulo `2^(64 n)`, for every shift amount (also ≥ the buffer width). -/
theorem wide_shl_toNat (n : Nat) (a : List Nat) (k : Nat) (ha : Words a) :
    toNat (shl n a k) = (toNat a * 2 ^ k) % 2 ^ (64 * n) ∧ Words (shl n a k) :=
  ⟨shl_toNat n a k ha, shl_words n a k ha⟩

/-- `wide_lshr` is `/ 2^k`. -/
theorem wide_lshr_toNat (n : Nat) (a : List Nat) (k : Nat) (hla : a.length = n) (ha : Words a) :
    toNat (lshr n a k) = toNat a / 2 ^ k ∧ Words (lshr n a k) :=
  ⟨lshr_toNat n a k hla ha, lshr_words n a k ha⟩

/-- `wide_ashr` on a zero-padded `width`-bit operand (any `width ≤ 64 n`, aligned or not): bit `i`
of the result is bit `i + k` of the operand if that is below `width`, the sign bit otherwise, and 0
at and above `width`. -/
theorem wide_ashr_bits (dst a : List Nat) (k p : Nat)
    (hnb : unpackNb p ≠ 0) (hw : unpackWidth p ≠ 0) (hld : dst.length = nw (unpackNb p))
    (hwn : unpackWidth p ≤ 64 * nw (unpackNb p)) (ha : Words a) (hA : toNat a < 2 ^ unpackWidth p) (i : Nat) :
    (toNat (ashr dst a k p)).testBit i = (decide (i < unpackWidth p) &&
      (if i + k < unpackWidth p then (toNat a).testBit (i + k) else (toNat a).testBit (unpackWidth p - 1))) := by
  have h := ashr_spec dst a k p hnb hw hld hwn ha (pad_of_lt ha hA)
  simp only at h
  rw [testBit_toNat h.2.1, h.2.2 i, testBit_toNat ha, testBit_toNat ha]

/-- the same as arithmetic: logical shift, plus ones in the `min k width` vacated positions when the
operand is negative. -/
theorem wide_ashr_toNat (dst a : List Nat) (k p : Nat)
    (hnb : unpackNb p ≠ 0) (hw : unpackWidth p ≠ 0) (hld : dst.length = nw (unpackNb p))
    (hwn : unpackWidth p ≤ 64 * nw (unpackNb p)) (ha : Words a) (hA : toNat a < 2 ^ unpackWidth p) :
    toNat (ashr dst a k p) = toNat a / 2 ^ k +
      (if (toNat a).testBit (unpackWidth p - 1) then 2 ^ unpackWidth p - 2 ^ (unpackWidth p - min k (unpackWidth p)) else 0) :=
  ashr_toNat dst a k p hnb hw hld hwn ha hA

-- ── comparisons ─────────────────────────────────────────────────────────────────────────────

/-- `wide_ucmp` is the three-way comparison of the values. -/
theorem wide_ucmp_spec (n : Nat) (a b : List Nat) (hla : a.length = n) (hlb : b.length = n) (ha : Words a) (hb : Words b) :
    ucmp n a b = cmpNat (toNat a) (toNat b) :=
  ucmp_spec n a b hla hlb ha hb

/-- `wide_scmp` is the three-way comparison of the two's-complement values at `width`. -/
theorem wide_scmp_spec (a b : List Nat) (p : Nat)
    (hnb : unpackNb p ≠ 0) (hw : unpackWidth p ≠ 0)
    (hla : a.length = nw (unpackNb p)) (hlb : b.length = nw (unpackNb p)) (ha : Words a) (hb : Words b)
    (hA : toNat a < 2 ^ unpackWidth p) (hB : toNat b < 2 ^ unpackWidth p) :
    scmp a b p = cmpInt (toInt (unpackWidth p) (toNat a)) (toInt (unpackWidth p) (toNat b)) :=
  scmp_spec a b p hnb hw hla hlb ha hb hA hB

/-- `wide_scmp_asym` compares the two's-complement values, each operand at its OWN width. -/
theorem wide_scmp_asym_spec (a b : List Nat) (pa pb : Nat)
    (h1 : unpackWidth pa ≠ 0) (h2 : unpackWidth pb ≠ 0) (h3 : unpackNb pa ≠ 0) (h4 : unpackNb pb ≠ 0)
    (ha : Words a) (hb : Words b)
    (haw : unpackWidth pa ≤ 64 * max (nw (unpackNb pa)) (nw (unpackNb pb)))
    (hbw : unpackWidth pb ≤ 64 * max (nw (unpackNb pa)) (nw (unpackNb pb))) :
    scmpAsym a b pa pb =
      cmpInt (toInt (unpackWidth pa) (toNat a % 2 ^ unpackWidth pa))
             (toInt (unpackWidth pb) (toNat b % 2 ^ unpackWidth pb)) :=
  scmpAsym_spec a b pa pb h1 h2 h3 h4 ha hb haw hbw

/-- `wide_eq` / `wide_ne` decide equality of the values. -/
theorem wide_eq_ne_spec (n : Nat) (a b : List Nat) (hla : a.length = n) (hlb : b.length = n) (ha : Words a) (hb : Words b) :
    eqLoop n a b = (if toNat a = toNat b then 1 else 0) ∧ neLoop n a b = (if toNat a = toNat b then 0 else 1) :=
  ⟨eqLoop_spec n a b hla hlb ha hb, neLoop_spec n a b hla hlb ha hb⟩

-- ── resize ──────────────────────────────────────────────────────────────────────────────────

/-- `wide_resize`: take the low `srcW` bits of the source, sign- or zero-extend, truncate to the
destination (`64 · nw dstNb` bits). -/
theorem wide_resize_toNat (src : List Nat) (info dnb : Nat) (hs : Words src)
    (hsw : unpackWidth (info % 4294967296) ≠ 0) :
    toNat (resize src info dnb) =
      (toNat src % 2 ^ unpackWidth (info % 4294967296)
        + (if (info >>> 32) &&& 1 = 1 ∧ (toNat src).testBit (unpackWidth (info % 4294967296) - 1) = true
           then 2 ^ (max (unpackWidth (info % 4294967296)) (64 * nw dnb)) - 2 ^ unpackWidth (info % 4294967296) else 0))
      % 2 ^ (64 * nw dnb) :=
  resize_toNat src info dnb hs hsw

/-- a zero-width source resizes to 0. -/
theorem wide_resize_zero_width (src : List Nat) (info dnb : Nat) (hsw : unpackWidth (info % 4294967296) = 0) :
    toNat (resize src info dnb) = 0 :=
  resize_zero src info dnb hsw

-- ── reductions ──────────────────────────────────────────────────────────────────────────────

/-- `wide_is_all_ones`: 1 iff the low `width` bits are all set (any alignment). -/
theorem wide_is_all_ones_spec (a : List Nat) (p : Nat) (ha : Words a) :
    isAllOnes a p = if toNat a % 2 ^ unpackWidth p = 2 ^ unpackWidth p - 1 then 1 else 0 :=
  isAllOnes_spec a p ha

/-- `wide_is_nonzero`. -/
theorem wide_is_nonzero_spec (n : Nat) (a : List Nat) (hla : a.length = n) :
    isNonzeroLoop n a = if toNat a = 0 then 0 else 1 :=
  isNonzeroLoop_spec n a hla

/-- `wide_popcnt_parity` is the parity of the number of set bits (reduction XOR). -/
theorem wide_popcnt_parity_spec (n : Nat) (a : List Nat) (hla : a.length = n) (ha : Words a) :
    popcntParity n a = ((countBits (64 * n) (toNat a) % 2 : Nat) : Int) :=
  popcntParity_spec n a hla ha

-- ── masks ───────────────────────────────────────────────────────────────────────────────────

/-- `wide_apply_mask` reduces the destination modulo `2^width` (for `width ≥ 1`). -/
theorem wide_apply_mask_toNat (dst : List Nat) (p : Nat) (hw : unpackWidth p ≠ 0) (hnb : unpackNb p ≠ 0)
    (hld : dst.length = nw (unpackNb p)) (hd : Words dst) :
    toNat (applyMask dst p) = toNat dst % 2 ^ unpackWidth p :=
  applyMask_toNat dst p hw hnb hld hd

/-- Full-strength "clear bits ≥ width" is FALSE of the code for `width = 0`: the early return
leaves the destination untouched (it is not cleared). -/
theorem wide_apply_mask_width0_false :
    ¬ (∀ (dst : List Nat) (p : Nat), unpackNb p ≠ 0 → dst.length = nw (unpackNb p) → Words dst →
        toNat (applyMask dst p) = toNat dst % 2 ^ unpackWidth p) := by
  intro h
  have := h [5] 8 (by decide) (by decide) (by decide)
  revert this
  decide

/-- `wide_fill_ones` writes `2^width − 1` (saturating at the buffer size). -/
theorem wide_fill_ones_toNat (dst : List Nat) (p : Nat) (hnb : unpackNb p ≠ 0)
    (hld : dst.length = nw (unpackNb p)) (hd : Words dst) :
    toNat (fillOnes dst p) = 2 ^ (min (unpackWidth p) (64 * nw (unpackNb p))) - 1 :=
  fillOnes_toNat dst p hnb hld hd

-- ── bitwise, copy ───────────────────────────────────────────────────────────────────────────

/-- `wide_band/bor/bxor` are the bitwise operations on the values. -/
theorem wide_bitwise_toNat (n : Nat) (a b : List Nat) (hla : a.length = n) (hlb : b.length = n) (ha : Words a) (hb : Words b) :
    toNat (band n a b) = toNat a &&& toNat b ∧ toNat (bor n a b) = toNat a ||| toNat b ∧
    toNat (bxor n a b) = toNat a ^^^ toNat b :=
  ⟨band_toNat n a b hla ha hb, bor_toNat n a b hla hlb ha hb, bxor_toNat n a b hla hlb ha hb⟩

/-- `wide_bnot/bxor_not/band_not`: complement within `64 n` bits. -/
theorem wide_bitwise_not_toNat (n : Nat) (a b : List Nat) (hla : a.length = n) (hlb : b.length = n) (ha : Words a) (hb : Words b) :
    toNat (bnot n a) = 2 ^ (64 * n) - 1 - toNat a ∧
    toNat (bxorNot n a b) = 2 ^ (64 * n) - 1 - (toNat a ^^^ toNat b) ∧
    toNat (bandNot n a b) = toNat a &&& (2 ^ (64 * n) - 1 - toNat b) :=
  ⟨bnot_toNat n a hla ha, bxorNot_toNat n a b hla hlb ha hb, bandNot_toNat n a b hla hlb ha hb⟩

/-- `wide_copy` copies. -/
theorem wide_copy_eq (n : Nat) (a : List Nat) (hla : a.length = n) : copy n a = a :=
  copy_eq n a hla

/-- `unpack_nb_width ∘ pack_nb_width = id` whenever `pack_nb_width`'s `debug_assert!` holds. -/
theorem unpack_pack_nb_width (nb width p : Nat) (h : packNbWidth nb width = some p) :
    unpackNb p = nb ∧ unpackWidth p = width ∧ p < 4294967296 :=
  unpack_pack nb width p h

-- ── part B: the IEEE 1800 reference evaluator is well-formed ────────────────────────────────

/-- Every value the reference evaluator computes in a `w`-bit context fits in `w` bits (for every
expression, environment, width and signedness), … -/
theorem exprref_eval_lt (env : VerylModel.ExprRef.Env) (e : VerylModel.ExprRef.Expr) (w : Nat) (s : Bool) (v : Nat)
    (h : VerylModel.ExprRef.eval env e w s = some v) : v < 2 ^ w :=
  VerylModel.ExprRef.eval_lt env e w s v h

/-- … and the value it assigns to a `wo`-bit output fits in `wo` bits. -/
theorem exprref_assign_lt (env : VerylModel.ExprRef.Env) (wo : Nat) (e : VerylModel.ExprRef.Expr) (v : Nat)
    (h : VerylModel.ExprRef.assign env wo e = some v) : v < 2 ^ wo := by
  unfold VerylModel.ExprRef.assign at h
  simp only [Option.map_eq_some_iff] at h
  obtain ⟨x, _, rfl⟩ := h
  exact Nat.mod_lt _ (Nat.two_pow_pos wo)

section
open VerylModel.ExprRef
/-- IEEE 1800-2017 §11.6.2: with 16-bit `a = b = 16'hffff`, `(a + b) >> 1` assigned to 16 bits loses
the carry (0x7fff), while `(a + b + 0) >> 1` with a 32-bit-wide zero keeps it (0xffff). -/
example : assign [⟨16, false, 0xffff⟩, ⟨16, false, 0xffff⟩] 16 (.bin .shr (.bin .add (.port 0) (.port 1)) (.lit 1 false 1))
    = some 0x7fff := by decide
example : assign [⟨16, false, 0xffff⟩, ⟨16, false, 0xffff⟩] 16
    (.bin .shr (.bin .add (.bin .add (.port 0) (.port 1)) (.lit 32 false 0)) (.lit 1 false 1)) = some 0xffff := by decide
/-- §11.8.2: a signed operand in an unsigned expression is zero-extended (`8'sh80 + 1'b0` → 0x080 at
9 bits), in a signed one sign-extended (0x180); mixed comparison is unsigned. -/
example : assign [] 9 (.bin .add (.lit 8 true 0x80) (.lit 1 false 0)) = some 0x080 := by decide
example : assign [] 9 (.bin .add (.lit 8 true 0x80) (.lit 1 true 0)) = some 0x180 := by decide
example : assign [] 1 (.bin .lt (.lit 8 true 0x80) (.lit 8 false 1)) = some 0 := by decide
example : assign [] 1 (.bin .lt (.lit 8 true 0x80) (.lit 8 true 1)) = some 1 := by decide
/-- a zero divisor anywhere is a don't-care. -/
example : assign [⟨8, false, 0⟩] 8 (.bin .band (.lit 8 false 0) (.bin .div (.lit 8 false 1) (.port 0))) = none := by decide
end

-- ── non-vacuity: concrete instances of the hypotheses ───────────────────────────────────────

/-- 0x410010 = pack_nb_width(16, 65): a 65-bit operand in two words. -/
example : unpackNb 0x410010 = 16 ∧ unpackWidth 0x410010 = 65 ∧ nw 16 = 2 := by decide
example : Words [1, 1] ∧ toNat [1, 1] < 2 ^ unpackWidth 0x410010 ∧ ([0, 0] : List Nat).length = nw (unpackNb 0x410010)
    ∧ unpackWidth 0x410010 ≤ 64 * nw (unpackNb 0x410010) := by
  decide
/-- −1 (65 bit) >>> 3 = −1;  −1 <: 0 signed. -/
example : ashr [0, 0] [W - 1, 1] 3 0x410010 = [W - 1, 1] := by decide
example : scmp [W - 1, 1] [0, 0] 0x410010 = -1 := by decide
/-- operands of different own widths: a = −1 at 3 bits, b = 5 at 65 bits. -/
example : scmpAsym [7, 0] [5, 0] 0x30010 0x410010 = -1 := by decide
example : add 2 [W - 1, W - 1] [1, 0] = [0, 0] ∧ mul 2 [W - 1, W - 1] [W - 1, W - 1] = [1, 0] := by decide
/-- sign-extension of a 3-bit −1 into 2 words. -/
example : resize [7] (0x100030008) 16 = [W - 1, W - 1] := by decide
example : packNbWidth 16 65 = some 0x410010 := by decide

end VerylModel.Props.C18
