import VerylModel.Lemmas.BitsBitwise
set_option linter.unusedSimpArgs false
set_option linter.unusedVariables false
/-! Shift arms: bit-level semantics, saturation of the amount, U64 vs BigUint. -/
namespace VerylModel.Bits
open Ref Impl

/-- The amount the arm uses (`n`, possibly saturated at `usize::MAX`) and the true amount
    (`y.payload`) agree as far as a `w`-bit shift can tell. -/
def amtOk (n yp w : Nat) : Prop := n = yp ∨ (w ≤ n ∧ w ≤ yp)

theorem and_mask_lt (x w : Nat) : x &&& (2 ^ w - 1) < 2 ^ w := by
  rw [Nat.and_two_pow_sub_one_eq_mod]; exact Nat.mod_lt _ (Nat.two_pow_pos w)

theorem shr_le (m n : Nat) : m >>> n ≤ m := by
  rw [Nat.shiftRight_eq_div_pow]; exact Nat.div_le_self _ _

theorem Big.lshl_eq_ref (a y : V4) (n w : Nat) (ha : a.wf) (hwa : a.width = w) (hy : y.mask = 0)
    (hn : amtOk n y.payload w) : (Big.lshl a n w).toBV = shlBV a.toBV y w := by
  unfold Big.lshl shlBV
  simp only [hy, bne_self_eq_false, Bool.false_eq_true, if_false]
  apply BV.eq_ofFn (w := w) hwa (and_mask_lt _ _) (and_mask_lt _ _)
  intro i hi
  simp only [V4.toBV, Big.genMask, Nat.testBit_and, testBit_mask, hi, decide_true, Bool.and_true,
    Nat.testBit_shiftLeft, BV.bit, bitOf]
  rcases hn with hn | ⟨h1, h2⟩
  · subst hn
    by_cases hle : y.payload ≤ i
    · have : min y.payload w = y.payload := by omega
      simp [this, hle]
    · have : ¬ (min y.payload w ≤ i) := by omega
      simp [hle, this, B4.p, B4.m]
  · have e : min n w = w := by omega
    have h3 : ¬ (w ≤ i) := by omega
    have h4 : ¬ (y.payload ≤ i) := by omega
    simp [e, h3, h4, B4.p, B4.m]

theorem Big.lshr_eq_ref (a y : V4) (n w : Nat) (ha : a.wf) (hwa : a.width = w) (hy : y.mask = 0)
    (hn : amtOk n y.payload w) : (Big.lshr a n).toBV = lshrBV a.toBV y w := by
  unfold Big.lshr lshrBV
  simp only [hy, bne_self_eq_false, Bool.false_eq_true, if_false]
  have hpa : a.payload < 2 ^ w := by rw [← hwa]; exact ha.1
  have hma : a.mask < 2 ^ w := by rw [← hwa]; exact ha.2
  apply BV.eq_ofFn (w := w) hwa
  · exact Nat.lt_of_le_of_lt (shr_le _ _) hpa
  · exact Nat.lt_of_le_of_lt (shr_le _ _) hma
  intro i hi
  simp only [V4.toBV, Nat.testBit_shiftRight, BV.bit, bitOf]
  rcases hn with hn | ⟨h1, h2⟩
  · subst hn
    by_cases hlt : i + y.payload < w
    · simp [hlt, Nat.add_comm]
    · have h5 : w ≤ y.payload + i := by omega
      simp [hlt, testBit_of_lt hpa h5, testBit_of_lt hma h5, B4.p, B4.m]
  · have hlt : ¬ (i + y.payload < w) := by omega
    have h5 : w ≤ n + i := by omega
    simp [hlt, testBit_of_lt hpa h5, testBit_of_lt hma h5, B4.p, B4.m]

theorem Big.ashr_eq_ref (a y : V4) (n w : Nat) (s : Bool) (ha : a.wf) (hwa : a.width = w) (hw0 : 0 < w)
    (hy : y.mask = 0) (hn : amtOk n y.payload w) :
    ∃ r, Big.ashr a n w s = some r ∧ r.toBV = ashrBV a.toBV y w s ∧ r.width = w := by
  unfold Big.ashr ashrBV
  simp only [hy, bne_self_eq_false, Bool.false_eq_true, if_false]
  have hpa : a.payload < 2 ^ w := by rw [← hwa]; exact ha.1
  have hma : a.mask < 2 ^ w := by rw [← hwa]; exact ha.2
  have h1w : 1 ≤ a.width := by omega
  have hmsb : ∀ v : Nat, (((v >>> (a.width - 1)) &&& 1) == 1) = v.testBit (w - 1) := by
    intro v; rw [and_one_beq_one, Nat.testBit_shiftRight, Nat.add_zero, hwa]
  cases s
  · -- unsigned context: plain logical shift
    simp only [Bool.false_eq_true, if_false, Option.bind_eq_bind, Option.bind_some, Nat.or_zero]
    refine ⟨_, rfl, ?_, hwa⟩
    have := Big.lshr_eq_ref a y n w ha hwa hy hn
    unfold Big.lshr lshrBV at this
    simp only [hy, bne_self_eq_false, Bool.false_eq_true, if_false] at this
    simpa [V4.toBV] using this
  · simp only [if_true, usub, h1w, Option.bind_eq_bind, Option.bind_some, hmsb]
    refine ⟨_, rfl, ?_, hwa⟩
    apply BV.eq_ofFn (w := w) hwa
    · apply lt_of_testBit_false; intro i hi
      have h5 : w ≤ n + i := by omega
      have h6 : ¬ i < w := by omega
      simp only [V4.toBV, Nat.testBit_or, Nat.testBit_shiftRight, testBit_of_lt hpa h5, Bool.false_or]
      split <;> simp [Big.genMask, Nat.testBit_xor, testBit_mask, h6]
      omega
    · apply lt_of_testBit_false; intro i hi
      have h5 : w ≤ n + i := by omega
      have h6 : ¬ i < w := by omega
      simp only [V4.toBV, Nat.testBit_or, Nat.testBit_shiftRight, testBit_of_lt hma h5, Bool.false_or]
      split <;> simp [Big.genMask, Nat.testBit_xor, testBit_mask, h6]
      omega
    intro i hi
    simp only [V4.toBV, Nat.testBit_or, Nat.testBit_shiftRight, BV.bit, bitOf, if_true]
    have hext : ∀ c : Bool, (if c = true then Big.genMask (w - n) ^^^ Big.genMask w else 0).testBit i =
        (c && decide (w ≤ i + n)) := by
      intro c
      cases c
      · simp
      · simp only [if_true, Big.genMask, Nat.testBit_xor, testBit_mask, hi, decide_true, Bool.xor_true, Bool.true_and]
        by_cases h : i < w - n
        · have : ¬ w ≤ i + n := by omega
          simp [h, this]
        · have : w ≤ i + n := by omega
          simp [h, this]
    rw [hext, hext]
    rcases hn with hn | ⟨h1, h2⟩
    · subst hn
      by_cases hlt : i + y.payload < w
      · have : ¬ w ≤ i + y.payload := by omega
        simp [hlt, this, Nat.add_comm]
      · have h5 : w ≤ y.payload + i := by omega
        have h6 : w ≤ i + y.payload := by omega
        simp [hlt, h6, testBit_of_lt hpa h5, testBit_of_lt hma h5]
    · have hlt : ¬ (i + y.payload < w) := by omega
      have h5 : w ≤ n + i := by omega
      have h6 : w ≤ i + n := by omega
      simp [hlt, h6, testBit_of_lt hpa h5, testBit_of_lt hma h5]

end VerylModel.Bits

namespace VerylModel.Bits
open Ref Impl

theorem Big.ashl_toBV (a : V4) (n w : Nat) : (Big.ashl a n w).toBV = (Big.lshl a n w).toBV := rfl

theorem ushl_and_mask (p n w : Nat) (h64 : w ≤ 64) :
    U64.ushl p n &&& (2 ^ w - 1) = (p <<< min n w) &&& (2 ^ w - 1) := by
  apply Nat.eq_of_testBit_eq; intro i
  simp only [Nat.testBit_and, testBit_mask]
  by_cases hi : i < w
  · simp only [hi, decide_true, Bool.and_true]
    unfold U64.ushl
    by_cases hn : n ≥ 64
    · have : min n w = w := by omega
      have h3 : ¬ w ≤ i := by omega
      simp [hn, this, Nat.testBit_shiftLeft, h3]
    · have hi64 : i < 64 := by omega
      simp only [hn, if_false, Nat.testBit_mod_two_pow, hi64, decide_true, Bool.true_and,
        Nat.testBit_shiftLeft]
      by_cases hnw : n ≤ w
      · have : min n w = n := by omega
        rw [this]
      · have : min n w = w := by omega
        have h3 : ¬ w ≤ i := by omega
        have h4 : ¬ n ≤ i := by omega
        simp [this, h3, h4]
  · simp [hi]

theorem U64.lshl_eq_big (a : V4) (n w : Nat) (h64 : w ≤ 64) : U64.lshl a n w = Big.lshl a n w := by
  unfold U64.lshl Big.lshl
  simp only [U64.genMask_eq h64, Big.genMask, ushl_and_mask _ _ _ h64]

theorem U64.ashl_eq_big (a : V4) (n w : Nat) (h64 : w ≤ 64) : U64.ashl a n w = Big.ashl a n w := by
  unfold U64.ashl Big.ashl
  simp only [U64.genMask_eq h64, Big.genMask, ushl_and_mask _ _ _ h64]

theorem ushr_eq (p n : Nat) (hp : p < 2 ^ 64) : U64.ushr p n = p >>> n := by
  unfold U64.ushr
  by_cases hn : n ≥ 64
  · rw [if_pos hn, Nat.shiftRight_eq_div_pow]
    have : p < 2 ^ n := Nat.lt_of_lt_of_le hp (Nat.pow_le_pow_right (by decide) hn)
    exact (Nat.div_eq_of_lt this).symm
  · rw [if_neg hn]

theorem wf_lt64 {a : V4} {w : Nat} (ha : a.wf) (hwa : a.width = w) (h64 : w ≤ 64) :
    a.payload < 2 ^ 64 ∧ a.mask < 2 ^ 64 := by
  have hp : 2 ^ a.width ≤ 2 ^ 64 := Nat.pow_le_pow_right (by decide) (by omega)
  exact ⟨Nat.lt_of_lt_of_le ha.1 hp, Nat.lt_of_lt_of_le ha.2 hp⟩

theorem U64.lshr_eq_big (a : V4) (n w : Nat) (h64 : w ≤ 64) (ha : a.wf) (hwa : a.width = w) :
    U64.lshr a n = Big.lshr a n := by
  unfold U64.lshr Big.lshr
  rw [ushr_eq _ _ (wf_lt64 ha hwa h64).1, ushr_eq _ _ (wf_lt64 ha hwa h64).2]

theorem U64.ashr_eq_big (a : V4) (n w : Nat) (s : Bool) (h64 : w ≤ 64) (hw0 : 0 < w) (ha : a.wf)
    (hwa : a.width = w) : U64.ashr a n w s = Big.ashr a n w s := by
  unfold U64.ashr Big.ashr
  have hw1 : 0 < a.width := by omega
  have hw2 : a.width ≤ 64 := by omega
  have h1w : 1 ≤ a.width := by omega
  simp only [U64.msb_eq hw1 hw2, U64.genMask_eq h64, U64.genMask_eq (show w - n ≤ 64 by omega), Big.genMask,
    ushr_eq _ _ (wf_lt64 ha hwa h64).1, ushr_eq _ _ (wf_lt64 ha hwa h64).2, usub, h1w, if_true,
    and_one_beq_one, Nat.testBit_shiftRight, Nat.add_zero, Option.bind_eq_bind, Option.bind_some]

end VerylModel.Bits
