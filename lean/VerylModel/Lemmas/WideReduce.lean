import VerylModel.Lemmas.WideMask
/-! Helper lemmas for C18 (part A): wide_is_all_ones, wide_popcnt_parity, pack/unpack. -/
namespace VerylModel.Wide

-- ── is_all_ones ─────────────────────────────────────────────────────────────────────────────

theorem word_eq_max_iff {x : Nat} (hx : x < W) : x = W - 1 ↔ ∀ j, j < 64 → x.testBit j = true := by
  constructor
  · intro h j hj
    rw [h, W_sub_one_testBit]; simp [hj]
  · intro h
    apply Nat.eq_of_testBit_eq
    intro j
    rw [W_sub_one_testBit]
    by_cases hj : j < 64
    · simp [hj, h j hj]
    · have h64 : 64 ≤ j := by omega
      simp [hj, word_testBit_ge hx h64]

theorem allOnesLoop_iff (m : Nat) (a : List Nat) : allOnesLoop m a = true ↔ ∀ i, i < m → rd a i = W - 1 := by
  induction m generalizing a with
  | zero => simp [allOnesLoop]
  | succ m ih =>
    simp only [allOnesLoop]
    by_cases h : rd a 0 = W - 1
    · simp only [h, ne_eq, not_true_eq_false, if_false, ih]
      constructor
      · intro h2 i hi
        cases i with
        | zero => exact h
        | succ i =>
          have := h2 i (by omega)
          cases a <;> simp_all [rd]
      · intro h2 i hi
        have := h2 (i + 1) (by omega)
        cases a <;> simp_all [rd]
    · simp only [ne_eq, h, not_false_eq_true, if_true]
      constructor
      · intro h2; cases h2
      · intro h2; exact absurd (h2 0 (by omega)) h

theorem isAllOnes_iff (a : List Nat) (p : Nat) (ha : Words a) :
    isAllOnes a p = 1 ↔ ∀ k, k < unpackWidth p → bitAt a k = true := by
  unfold isAllOnes
  simp only
  generalize unpackWidth p = w
  by_cases hw : w = 0
  · subst hw; simp
  · simp only [hw, if_false]
    have full : allOnesLoop (w / 64) a = true ↔ ∀ k, k < 64 * (w / 64) → bitAt a k = true := by
      rw [allOnesLoop_iff]
      constructor
      · intro h k hk
        have := (word_eq_max_iff (rd_lt ha (k / 64))).mp (h (k / 64) (by omega)) (k % 64) (Nat.mod_lt _ (by decide))
        exact this
      · intro h i hi
        apply (word_eq_max_iff (rd_lt ha i)).mpr
        intro j hj
        have := h (64 * i + j) (by omega)
        rwa [bitAt_mul_add a i j hj] at this
    by_cases hfull : allOnesLoop (w / 64) a = true
    · simp only [hfull, Bool.not_true, Bool.false_eq_true, if_false]
      have hfull' := full.mp hfull
      by_cases hrem : w % 64 > 0
      · simp only [hrem, if_true]
        have hmask : (rd a (w / 64) &&& (2 ^ (w % 64) - 1) = 2 ^ (w % 64) - 1)
            ↔ ∀ j, j < w % 64 → (rd a (w / 64)).testBit j = true := by
          constructor
          · intro h j hj
            have := congrArg (fun x => x.testBit j) h
            simpa [Nat.testBit_and, Nat.testBit_two_pow_sub_one, hj] using this
          · intro h
            apply Nat.eq_of_testBit_eq
            intro j
            rw [Nat.testBit_and, Nat.testBit_two_pow_sub_one]
            by_cases hj : j < w % 64
            · simp [hj, h j hj]
            · simp [hj]
        by_cases hm : rd a (w / 64) &&& (2 ^ (w % 64) - 1) = 2 ^ (w % 64) - 1
        · simp only [hm, ne_eq, not_true_eq_false, if_false, true_iff]
          intro k hk
          by_cases hk2 : k < 64 * (w / 64)
          · exact hfull' k hk2
          · have := hmask.mp hm (k % 64) (by omega)
            have e : k / 64 = w / 64 := by omega
            unfold bitAt; rwa [e]
        · simp only [ne_eq, hm, not_false_eq_true, if_true]
          constructor
          · intro h; cases h
          · intro h
            exfalso
            apply hm
            apply hmask.mpr
            intro j hj
            have := h (64 * (w / 64) + j) (by omega)
            rwa [bitAt_mul_add a _ j (by omega)] at this
      · simp only [hrem, if_false, true_iff]
        intro k hk
        exact hfull' k (by omega)
    · simp only [hfull, Bool.not_false, if_true]
      constructor
      · intro h; cases h
      · intro h
        exfalso
        apply hfull
        apply full.mpr
        intro k hk
        exact h k (by omega)

theorem all_bits_iff_mod (A w : Nat) : (∀ k, k < w → A.testBit k = true) ↔ A % 2 ^ w = 2 ^ w - 1 := by
  constructor
  · intro h
    apply Nat.eq_of_testBit_eq
    intro k
    rw [Nat.testBit_mod_two_pow, Nat.testBit_two_pow_sub_one]
    by_cases hk : k < w
    · simp [hk, h k hk]
    · simp [hk]
  · intro h k hk
    have := congrArg (fun x => x.testBit k) h
    simpa [Nat.testBit_mod_two_pow, Nat.testBit_two_pow_sub_one, hk] using this

theorem isAllOnes_values (a : List Nat) (p : Nat) : isAllOnes a p = 0 ∨ isAllOnes a p = 1 := by
  unfold isAllOnes
  simp only
  split
  · right; rfl
  · split
    · left; rfl
    · split
      · split
        · left; rfl
        · right; rfl
      · right; rfl

-- ── popcnt parity ───────────────────────────────────────────────────────────────────────────

theorem countBits_add_mul (k m w r : Nat) (hw : w < 2 ^ k) :
    countBits (k + m) (w + 2 ^ k * r) = countBits k w + countBits m r := by
  induction k generalizing w with
  | zero =>
    have : w = 0 := by simpa using hw
    subst this
    simp [countBits]
  | succ k ih =>
    have e : k + 1 + m = (k + m) + 1 := by omega
    rw [e]
    simp only [countBits]
    have h1 : (w + 2 ^ (k + 1) * r) % 2 = w % 2 := by
      rw [Nat.pow_succ, Nat.mul_comm (2 ^ k) 2, Nat.mul_assoc]; omega
    have h2 : (w + 2 ^ (k + 1) * r) / 2 = w / 2 + 2 ^ k * r := by
      rw [Nat.pow_succ, Nat.mul_comm (2 ^ k) 2, Nat.mul_assoc]; omega
    rw [h1, h2, ih (w / 2) (by rw [Nat.pow_succ] at hw; omega)]
    omega

theorem xor_mod_two (x y : Nat) : (x ^^^ y) % 2 = (x + y) % 2 := by
  have h := Nat.xor_mod_two_pow (a := x) (b := y) (n := 1)
  simp only [Nat.pow_one] at h
  rw [h]
  have hx : x % 2 = 0 ∨ x % 2 = 1 := by omega
  have hy : y % 2 = 0 ∨ y % 2 = 1 := by omega
  rcases hx with hx | hx <;> rcases hy with hy | hy <;> rw [hx, hy] <;> simp <;> omega

theorem popcntLoop_spec (n : Nat) (a : List Nat) (t : Nat) (hla : a.length = n) (ha : Words a) :
    popcntLoop n a t % 2 = (t + countBits (64 * n) (toNat a)) % 2 := by
  induction n generalizing a t with
  | zero =>
    have : a = [] := List.length_eq_zero_iff.mp hla
    subst this
    simp [popcntLoop, countBits]
  | succ n ih =>
    match a, hla with
    | x :: a, hla =>
      simp only [List.length_cons, Nat.add_right_cancel_iff] at hla
      simp only [popcntLoop, rd_cons_zero, List.tail_cons, toNat]
      rw [ih a _ hla ha.tail]
      have e : 64 * (n + 1) = 64 + 64 * n := by omega
      have hx : x < 2 ^ 64 := by have := ha.head; rwa [W_eq] at this
      rw [e, W_eq, countBits_add_mul 64 (64 * n) x (toNat a) hx]
      have := xor_mod_two t (countBits 64 x)
      omega

theorem popcntParity_spec (n : Nat) (a : List Nat) (hla : a.length = n) (ha : Words a) :
    popcntParity n a = ((countBits (64 * n) (toNat a) % 2 : Nat) : Int) := by
  unfold popcntParity
  rw [Nat.and_one_is_mod, popcntLoop_spec n a 0 hla ha, Nat.zero_add]

-- ── pack / unpack ───────────────────────────────────────────────────────────────────────────

theorem unpack_pack (nb width p : Nat) (h : packNbWidth nb width = some p) :
    unpackNb p = nb ∧ unpackWidth p = width ∧ p < 4294967296 := by
  unfold packNbWidth at h
  split at h
  · rename_i hlt
    cases h
    have hnb : nb < 2 ^ 16 := hlt.1
    have e : nb ||| width <<< 16 = width <<< 16 + nb := by
      rw [Nat.or_comm]; exact (Nat.shiftLeft_add_eq_or_of_lt hnb width).symm
    rw [e, Nat.shiftLeft_eq]
    refine ⟨?_, ?_, ?_⟩
    · unfold unpackNb
      have : (0xFFFF : Nat) = 2 ^ 16 - 1 := by decide
      rw [this, Nat.and_two_pow_sub_one_eq_mod]
      omega
    · unfold unpackWidth
      rw [Nat.shiftRight_eq_div_pow]
      omega
    · omega
  · cases h

end VerylModel.Wide
