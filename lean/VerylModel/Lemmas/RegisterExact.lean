import VerylModel.Lemmas.Register
/-! Exact characterisation of "nothing was refused" for M-Register (C24). Core Lean only. -/
namespace VerylModel.Lemmas.Register
open VerylModel.Register

/-- No symbol conflicts with one registered before it — what `SymbolTable::insert` actually tests
    (the new symbol against the table), one direction only. -/
def FwdOK (excl : Nat → Nat → Bool) (l : List Sym) : Prop :=
  l.Pairwise (fun a b => conflict excl b a = false)

/-- Registering file by file is registering the concatenation. -/
theorem registerAll_eq_file (excl : Nat → Nat → Bool) (files : List (List Sym)) :
    registerAll excl files = registerFile excl [] files.flatten := by
  unfold registerAll registerFile
  rw [List.foldl_flatten]

theorem insertSym_length_le (excl : Nat → Nat → Bool) (tbl : List Sym) (s : Sym) :
    (insertSym excl tbl s).length ≤ tbl.length + 1 := by
  unfold insertSym
  split <;> simp

theorem registerFile_length_le (excl : Nat → Nat → Bool) (file : List Sym) : ∀ (tbl : List Sym),
    (registerFile excl tbl file).length ≤ tbl.length + file.length := by
  induction file with
  | nil => intro tbl; simp [registerFile]
  | cons s rest ih =>
    intro tbl
    have h1 := ih (insertSym excl tbl s)
    have h2 := insertSym_length_le excl tbl s
    simp only [registerFile, List.foldl_cons, List.length_cons] at h1 ⊢
    omega

/-- One file on top of a table: every symbol is accepted iff none conflicts with the table or with an
    earlier symbol of the file. -/
theorem registerFile_exact (excl : Nat → Nat → Bool) (file : List Sym) : ∀ (tbl : List Sym),
    registerFile excl tbl file = tbl ++ file ↔
      ((∀ t ∈ tbl, ∀ s ∈ file, conflict excl s t = false) ∧ FwdOK excl file) := by
  induction file with
  | nil => intro tbl; simp [registerFile, FwdOK]
  | cons s rest ih =>
    intro tbl
    have hstep : registerFile excl tbl (s :: rest) = registerFile excl (insertSym excl tbl s) rest := by
      simp [registerFile]
    rw [hstep]
    constructor
    · intro h
      by_cases hc : tbl.any (conflict excl s) = true
      · have hi : insertSym excl tbl s = tbl := by unfold insertSym; rw [if_pos hc]
        have hl := registerFile_length_le excl rest tbl
        rw [hi] at h
        rw [h] at hl
        simp at hl
        omega
      · have hc' : ∀ t ∈ tbl, conflict excl s t = false := by
          intro t ht
          cases hct : conflict excl s t with
          | false => rfl
          | true => exact absurd (List.any_eq_true.mpr ⟨t, ht, hct⟩) hc
        rw [insertSym_ok excl tbl s hc'] at h
        have h' : registerFile excl (tbl ++ [s]) rest = (tbl ++ [s]) ++ rest := by
          rw [h]; simp
        obtain ⟨ha, hb⟩ := (ih (tbl ++ [s])).mp h'
        refine ⟨?_, ?_⟩
        · intro t ht x hx
          rcases List.mem_cons.mp hx with rfl | hx
          · exact hc' t ht
          · exact ha t (List.mem_append_left _ ht) x hx
        · unfold FwdOK
          rw [List.pairwise_cons]
          exact ⟨fun x hx => ha s (List.mem_append_right _ List.mem_cons_self) x hx, hb⟩
    · rintro ⟨ha, hb⟩
      have hc' : ∀ t ∈ tbl, conflict excl s t = false := fun t ht => ha t ht s List.mem_cons_self
      unfold FwdOK at hb
      rw [List.pairwise_cons] at hb
      rw [insertSym_ok excl tbl s hc']
      have := (ih (tbl ++ [s])).mpr ⟨by
        intro t ht x hx
        rcases List.mem_append.mp ht with ht | ht
        · exact ha t ht x (List.mem_cons_of_mem _ hx)
        · rw [List.mem_singleton.mp ht]; exact hb.1 x hx, hb.2⟩
      rw [this]; simp

/-- The conflict test is symmetric when `exclusive` is. -/
theorem conflict_symm (excl : Nat → Nat → Bool) (hsym : ∀ a b, excl a b = excl b a) (a b : Sym) :
    conflict excl a b = conflict excl b a := by
  unfold conflict
  rw [hsym a.defctx b.defctx, Bool.beq_comm (a := a.name), Bool.beq_comm (a := a.ns)]

theorem fwdOK_iff_noConflict (excl : Nat → Nat → Bool) (hsym : ∀ a b, excl a b = excl b a) (l : List Sym) :
    FwdOK excl l ↔ NoConflict excl l := by
  unfold FwdOK NoConflict
  constructor
  · intro h
    exact h.imp (fun {a b} hab => ⟨by rw [conflict_symm excl hsym]; exact hab, hab⟩)
  · intro h
    exact h.imp (fun {a b} hab => hab.2)

end VerylModel.Lemmas.Register
