import VerylModel.Core.Pretty
/-!
Lemmas about M-Pretty (Core/Pretty.lean) used by Props/C28 (and by C08/C09/C13/C26).
-/
namespace VerylModel.Pretty

/-! ### The main loop: unfolding and invariant lifting -/

theorem renderFrames_nil (o : Opts) (s : St) : renderFrames o [] s = s := by
  rw [renderFrames]

theorem renderFrames_cons (o : Opts) (f : Frame) (fs : List Frame) (s : St) :
    renderFrames o (f :: fs) s
      = renderFrames o ((stepFrame o f fs s).1 ++ fs) (stepFrame o f fs s).2 := by
  rw [renderFrames]

/-- Invariant lifting: a predicate on (stack, state) preserved by every `render_frame` call holds
    at the end of the loop. -/
theorem renderFrames_inv (o : Opts) (P : List Frame → St → Prop)
    (hstep : ∀ f fs s, P (f :: fs) s → P ((stepFrame o f fs s).1 ++ fs) (stepFrame o f fs s).2)
    (fs : List Frame) (s : St) (h : P fs s) : P [] (renderFrames o fs s) := by
  fun_induction renderFrames o fs s with
  | case1 s => exact h
  | case2 f fs s ih => exact ih (hstep _ _ _ h)

/-! ### Position monotonicity and sorted anchors (needs nothing about `out`) -/

/-- Lexicographic `(l₁,c₁) ≤ (l₂,c₂)`. -/
def posLe (l₁ c₁ l₂ c₂ : Nat) : Prop := l₁ < l₂ ∨ (l₁ = l₂ ∧ c₁ ≤ c₂)

theorem posLe_refl (l c : Nat) : posLe l c l c := Or.inr ⟨rfl, Nat.le_refl _⟩

theorem posLe_trans {l₁ c₁ l₂ c₂ l₃ c₃ : Nat} (h₁ : posLe l₁ c₁ l₂ c₂) (h₂ : posLe l₂ c₂ l₃ c₃) :
    posLe l₁ c₁ l₃ c₃ := by
  unfold posLe at *; omega

/-- Control invariant: a queued indent means the line is still empty (`col = 0`), and a pending
    swallow only exists together with a queued indent. -/
def Ctl (s : St) : Prop :=
  (s.pending.isSome → s.col = 0) ∧ (s.swallow = true → s.pending.isSome)

/-- The position moved forward (lexicographically) and no anchor was recorded. -/
def Mono (s s' : St) : Prop :=
  posLe s.line s.col s'.line s'.col ∧ s'.ranchors = s.ranchors

theorem Mono.refl (s : St) : Mono s s := ⟨posLe_refl _ _, rfl⟩

theorem Mono.trans {a b c : St} (h₁ : Mono a b) (h₂ : Mono b c) : Mono a c :=
  ⟨posLe_trans h₁.1 h₂.1, h₂.2.trans h₁.2⟩

theorem flushPendingWith_mono (s : St) (i : Int) (o : Opts) (h : Ctl s) :
    Mono s (flushPendingWith s i o) ∧ (flushPendingWith s i o).pending = none
      ∧ (flushPendingWith s i o).swallow = s.swallow := by
  unfold flushPendingWith
  cases hp : s.pending with
  | none => simp [Mono, posLe, hp]
  | some p => have := h.1 (by simp [hp]); simp [Mono, posLe, this]

theorem flushPending_mono (s : St) (h : Ctl s) :
    Mono s (flushPending s) ∧ (flushPending s).pending = none
      ∧ (flushPending s).swallow = s.swallow := by
  unfold flushPending
  cases hp : s.pending with
  | none => simp [Mono, posLe, hp]
  | some p => have := h.1 (by simp [hp]); simp [Mono, posLe, this]

theorem writeText_mono (s : St) (t : List Char) :
    Mono s (writeText s t) ∧ (writeText s t).pending = s.pending ∧ (writeText s t).swallow = false := by
  simp only [writeText]
  split <;> simp [Mono, posLe] <;> omega

theorem writeFlat_mono (s : St) (t : List Char) :
    Mono s (writeFlat s t) ∧ (writeFlat s t).pending = s.pending ∧ (writeFlat s t).swallow = false := by
  simp [writeFlat, Mono, posLe]

theorem writeSpaces_mono (s : St) (w : Nat) :
    Mono s (writeSpaces s w) ∧ (writeSpaces s w).pending = s.pending ∧ (writeSpaces s w).swallow = false := by
  simp [writeSpaces, Mono, posLe]

theorem Ctl_of_none {s : St} (hp : s.pending = none) (hs : s.swallow = false) : Ctl s := by
  simp [Ctl, hp, hs]

theorem emitBreak_mono (s : St) (i : Int) (o : Opts) (h : Ctl s) :
    Mono s (emitBreak s i o) ∧ Ctl (emitBreak s i o) := by
  unfold emitBreak
  cases hs : s.swallow with
  | true =>
    have h0 := h.1 (h.2 hs)
    simp [Mono, posLe, Ctl, h0]
  | false => simp [Mono, posLe, Ctl]

theorem dedentBreak_mono (s : St) (l : Nat) (i : Int) (o : Opts) (h : Ctl s) :
    Mono s (emitBreak (dedentTruncate s l o) i o) ∧ Ctl (emitBreak (dedentTruncate s l o) i o) := by
  simp only [dedentTruncate]
  split
  · rename_i hw
    split
    · -- truncated: pending is none, hence no swallow, hence the break emits a newline
      have hsw : s.swallow = false := by
        cases hs : s.swallow with
        | false => rfl
        | true => have := h.2 hs; simp_all
      simp [emitBreak, hsw, Mono, posLe, Ctl]
    · exact emitBreak_mono s i o h
  · exact emitBreak_mono s i o h

theorem pushNewlines_props (o : Opts) (n : Nat) (s : St) :
    (pushNewlines o n s).line = s.line + n ∧ (pushNewlines o n s).ranchors = s.ranchors
      ∧ (pushNewlines o n s).pending = s.pending ∧ (pushNewlines o n s).swallow = s.swallow
      ∧ (pushNewlines o n s).col = if n = 0 then s.col else 0 := by
  induction n generalizing s with
  | zero => simp [pushNewlines]
  | succ n ih =>
    have := ih { s with rout := o.newline.reverse ++ s.rout, line := s.line + 1, col := 0 }
    simp only [pushNewlines]
    refine ⟨by rw [this.1]; simp only []; omega, this.2.1, this.2.2.1, this.2.2.2.1, ?_⟩
    rw [this.2.2.2.2]; split <;> simp

theorem commentLead_mono (o : Opts) (pw : Nat) (s : St) (c : CommentDoc) (h : Ctl s) :
    Mono s (commentLead o pw s c) ∧ (commentLead o pw s c).pending = none
      ∧ (commentLead o pw s c).swallow = false := by
  simp only [commentLead]
  split
  · rename_i hc
    have hp : s.pending = none := by
      cases hp : s.pending <;> simp_all
    split <;> simp [Mono, posLe, hp]
  · rename_i hc
    have hpn := pushNewlines_props o (max c.leadingNewlines 1 - if (s.swallow || s.pending.isSome) = true then 1 else 0)
      { s with swallow := false }
    simp only [Mono, posLe]
    refine ⟨⟨?_, hpn.2.1⟩, trivial, hpn.2.2.2.1⟩
    simp only [hpn.1]
    by_cases hal : (s.swallow || s.pending.isSome) = true
    · have h0 : s.col = 0 := by
        cases hs : s.swallow with
        | true => exact h.1 (h.2 hs)
        | false => simp [hs] at hal; exact h.1 hal
      simp [hal, h0]; omega
    · simp [hal]; omega

theorem commentBody_mono (o : Opts) (pw : Nat) (s : St) (c : CommentDoc)
    (hp : s.pending = none) (hs : s.swallow = false) :
    Mono s (commentBody o pw s c) ∧ Ctl (commentBody o pw s c) := by
  simp only [commentBody]
  split
  · simp [Mono, posLe, Ctl]
  · split
    · simp [Mono, posLe, Ctl, hp, hs]; omega
    · simp [Mono, posLe, Ctl, hp, hs]

/-- Recorded anchors are sorted (most recent first, non-increasing) and none lies beyond the
    current position. -/
def ASorted (s : St) : Prop :=
  List.Pairwise (fun a b => posLe b.dstLine b.dstCol a.dstLine a.dstCol) s.ranchors
    ∧ ∀ a ∈ s.ranchors, posLe a.dstLine a.dstCol s.line (s.col + 1)

theorem ASorted.mono {s s' : St} (h : ASorted s) (m : Mono s s') : ASorted s' := by
  refine ⟨by rw [m.2]; exact h.1, fun a ha => ?_⟩
  rw [m.2] at ha
  have := h.2 a ha
  have hm := m.1
  unfold posLe at *; omega

theorem ASorted.push (s : St) (h : ASorted s) (sl sc : Nat) (t : List Char) :
    ASorted { s with ranchors := { dstLine := s.line, dstCol := s.col + 1, srcLine := sl,
                                   srcCol := sc, text := t } :: s.ranchors } := by
  refine ⟨List.pairwise_cons.mpr ⟨fun b hb => h.2 b hb, h.1⟩, fun a ha => ?_⟩
  rcases List.mem_cons.mp ha with rfl | ha
  · exact posLe_refl _ _
  · exact h.2 a ha

/-- `Ctl ∧ ASorted` is the invariant of the loop. -/
def Good (s : St) : Prop := Ctl s ∧ ASorted s

theorem commentStep_good (o : Opts) (pw : Nat) (s : St) (c : CommentDoc) (h : Good s) :
    Good (commentStep o pw s c) := by
  obtain ⟨hc, ha⟩ := h
  have h1 := commentLead_mono o pw s c hc
  have a1 := ha.mono h1.1
  unfold commentStep
  have hA : ASorted (commentAnchor (commentLead o pw s c) c)
      ∧ (commentAnchor (commentLead o pw s c) c).pending = none
      ∧ (commentAnchor (commentLead o pw s c) c).swallow = false := by
    unfold commentAnchor
    split
    · exact ⟨ASorted.push _ a1 _ _ _, h1.2.1, h1.2.2⟩
    · exact ⟨a1, h1.2.1, h1.2.2⟩
  have h3 := commentBody_mono o pw _ c hA.2.1 hA.2.2
  exact ⟨h3.2, hA.1.mono h3.1⟩

theorem renderComments_good (o : Opts) (i : Int) (cs : List CommentDoc) (s : St) (h : Good s) :
    Good (renderComments o i cs s) := by
  unfold renderComments
  induction cs generalizing s with
  | nil => exact h
  | cons c cs ih => exact ih _ (commentStep_good o _ s c h)

theorem good_content {s s1 s2 : St} (h : Good s) (m1 : Mono s s1) (m2 : Mono s1 s2)
    (hp : s2.pending = none) (hs : s2.swallow = false) : Good s2 :=
  ⟨Ctl_of_none hp hs, (h.2.mono m1).mono m2⟩

theorem emitAnchored_good (s : St) (i : Int) (o : Opts) (t : List Char) (sl sc : Nat) (h : Good s) :
    Good (emitAnchored s i o t sl sc) := by
  have f := flushPendingWith_mono s i o h.1
  unfold emitAnchored
  have a1 := h.2.mono f.1
  have a2 : ASorted { flushPendingWith s i o with swallow := false } := ⟨a1.1, a1.2⟩
  have a3 := ASorted.push _ a2 sl sc t
  have w := writeText_mono
    { { flushPendingWith s i o with swallow := false } with
      ranchors := { dstLine := (flushPendingWith s i o).line, dstCol := (flushPendingWith s i o).col + 1,
                    srcLine := sl, srcCol := sc, text := t } :: (flushPendingWith s i o).ranchors } t
  exact ⟨Ctl_of_none (by rw [w.2.1]; exact f.2.1) w.2.2, a3.mono w.1⟩

/-- Every `render_frame` call preserves `Good`. -/
theorem stepFrame_good (o : Opts) (f : Frame) (fs : List Frame) (s : St) (h : Good s) :
    Good (stepFrame o f fs s).2 := by
  obtain ⟨i, m, d⟩ := f
  have fw := flushPendingWith_mono s i o h.1
  have fp := flushPending_mono s h.1
  cases d <;> simp only [stepFrame]
  case nil => exact h
  case text t =>
    have w := writeText_mono (flushPendingWith s i o) t
    exact good_content h fw.1 w.1 (by rw [w.2.1]; exact fw.2.1) w.2.2
  case concat => exact h
  case indent => exact h
  case group => exact h
  case forceFlat => exact h
  case line sep =>
    cases m
    · have w := writeFlat_mono (flushPending s) sep
      exact good_content h fp.1 w.1 (by rw [w.2.1]; exact fp.2.1) w.2.2
    · have e := emitBreak_mono s i o h.1
      exact ⟨e.2, h.2.mono e.1⟩
  case hardline =>
    cases m
    · have w := writeSpaces_mono (flushPending s) 1
      exact good_content h fp.1 w.1 (by rw [w.2.1]; exact fp.2.1) w.2.2
    · have e := emitBreak_mono s i o h.1
      exact ⟨e.2, h.2.mono e.1⟩
  case dedentHardline l =>
    cases m
    · have w := writeSpaces_mono (flushPending s) 1
      exact good_content h fp.1 w.1 (by rw [w.2.1]; exact fp.2.1) w.2.2
    · have e := dedentBreak_mono s l i o h.1
      exact ⟨e.2, h.2.mono e.1⟩
  case comments cs => exact renderComments_good o i cs s h
  case ifBreak t =>
    split
    · have w := writeFlat_mono (flushPendingWith s i o) t
      exact good_content h fw.1 w.1 (by rw [w.2.1]; exact fw.2.1) w.2.2
    · exact h
  case ifBreakPad w' =>
    split
    · have w := writeSpaces_mono (flushPendingWith s i o) w'
      exact good_content h fw.1 w.1 (by rw [w.2.1]; exact fw.2.1) w.2.2
    · exact h
  case pad w' =>
    split
    · have w := writeSpaces_mono (flushPendingWith s i o) w'
      exact good_content h fw.1 w.1 (by rw [w.2.1]; exact fw.2.1) w.2.2
    · exact h
  case ifFlatPad w' =>
    split
    · have w := writeSpaces_mono (flushPendingWith s i o) w'
      exact good_content h fw.1 w.1 (by rw [w.2.1]; exact fw.2.1) w.2.2
    · exact h
  case anchored t sl sc => exact emitAnchored_good s i o t sl sc h

theorem init_good : Good ({} : St) := by
  simp [Good, Ctl, ASorted]

theorem renderFrames_good (o : Opts) (fs : List Frame) (s : St) (h : Good s) :
    Good (renderFrames o fs s) :=
  renderFrames_inv o (fun _ s => Good s) (fun f fs s h => stepFrame_good o f fs s h) fs s h

/-! ### Content: what the document says, independent of layout -/

/-- The non-whitespace stream of a text. -/
def nonws (t : List Char) : List Char := t.filter (fun c => !isWs c)

/-- The newline string consists of whitespace only (true of "\n" and "\r\n"). -/
def NlWs (o : Opts) : Prop := ∀ c ∈ o.newline, isWs c = true

/- `Content m d c`: `c` is the concatenation, in document order, of the texts of `d` rendered in
mode `m`: every `Text`/`Anchored`/comment text, the separator of every `Line` laid out flat, the
text of every `IfBreak` whose enclosing group is broken. A group met in break mode is laid out
either flat or broken (the renderer chooses); below a flat group or a `ForceFlat` everything is
flat. Hard lines, pads and indentation contribute only whitespace and are left out. -/

mutual
def Content : Mode → Doc → List Char → Prop
  | _, .nil, c => c = []
  | _, .text t, c => c = t
  | m, .concat ds, c => ContentList m ds c
  | m, .indent _ d, c => Content m d c
  | .flat, .group d, c => Content .flat d c
  | .brk, .group d, c => Content .flat d c ∨ Content .brk d c
  | _, .forceFlat d, c => Content .flat d c
  | .flat, .line sep, c => c = sep
  | .brk, .line _, c => c = []
  | _, .hardline, c => c = []
  | _, .dedentHardline _, c => c = []
  | _, .comments cs, c => c = cs.flatMap (·.text)
  | .brk, .ifBreak t, c => c = t
  | .flat, .ifBreak _, c => c = []
  | _, .ifBreakPad _, c => c = []
  | _, .pad _, c => c = []
  | _, .ifFlatPad _, c => c = []
  | _, .anchored t _ _, c => c = t
def ContentList : Mode → List Doc → List Char → Prop
  | _, [], c => c = []
  | m, d :: ds, c => ∃ c₁ c₂, c = c₁ ++ c₂ ∧ Content m d c₁ ∧ ContentList m ds c₂
end

theorem Doc.size_mem {x : Doc} {ds : List Doc} (hx : x ∈ ds) : x.size ≤ Doc.sizeList ds := by
  induction ds with
  | nil => cases hx
  | cons y ys ih =>
    simp only [Doc.sizeList]
    rcases List.mem_cons.mp hx with rfl | hx
    · omega
    · have := ih hx; omega

theorem Doc.induct {P : Doc → Prop}
    (hconcat : ∀ ds, (∀ d ∈ ds, P d) → P (.concat ds))
    (hindent : ∀ off d, P d → P (.indent off d))
    (hgroup : ∀ d, P d → P (.group d))
    (hff : ∀ d, P d → P (.forceFlat d))
    (hleaf : ∀ d, d.size = 1 → (∀ ds, d ≠ .concat ds) → P d) : ∀ d, P d := by
  have aux : ∀ n d, d.size ≤ n → P d := by
    intro n
    induction n with
    | zero => intro d h; cases d <;> simp [Doc.size] at h
    | succ n ih =>
      intro d h
      cases d
      case concat ds =>
        apply hconcat
        intro x hx
        have := Doc.size_mem hx
        simp only [Doc.size] at h
        exact ih x (by omega)
      case indent off d => simp only [Doc.size] at h; exact hindent off d (ih d (by omega))
      case group d => simp only [Doc.size] at h; exact hgroup d (ih d (by omega))
      case forceFlat d => simp only [Doc.size] at h; exact hff d (ih d (by omega))
      all_goals (apply hleaf <;> simp [Doc.size])
  exact fun d => aux d.size d (Nat.le_refl _)

/-- Content of a frame stack (top first): the frames' contents in order. -/
def ContentFrames : List Frame → List Char → Prop
  | [], c => c = []
  | f :: fs, c => ∃ c₁ c₂, c = c₁ ++ c₂ ∧ Content f.mode f.doc c₁ ∧ ContentFrames fs c₂

theorem contentFrames_map_append (i : Int) (m : Mode) (ds : List Doc) (fs : List Frame) (c : List Char) :
    ContentFrames (ds.map (fun d => { indent := i, mode := m, doc := d : Frame }) ++ fs) c
      ↔ ∃ c₁ c₂, c = c₁ ++ c₂ ∧ ContentList m ds c₁ ∧ ContentFrames fs c₂ := by
  induction ds generalizing c with
  | nil =>
    simp only [List.map_nil, List.nil_append, ContentList]
    constructor
    · intro h; exact ⟨[], c, rfl, rfl, h⟩
    · rintro ⟨_, _, rfl, rfl, h⟩; simpa using h
  | cons d ds ih =>
    simp only [List.map_cons, List.cons_append, ContentFrames, ContentList, ih]
    constructor
    · rintro ⟨a, b, rfl, ha, b₁, b₂, rfl, hb₁, hb₂⟩
      exact ⟨a ++ b₁, b₂, by simp, ⟨a, b₁, rfl, ha, hb₁⟩, hb₂⟩
    · rintro ⟨x, b₂, rfl, ⟨a, b₁, rfl, ha, hb₁⟩, hb₂⟩
      exact ⟨a, b₁ ++ b₂, by simp, ha, b₁, b₂, rfl, hb₁, hb₂⟩

theorem nonws_append (a b : List Char) : nonws (a ++ b) = nonws a ++ nonws b := by
  simp [nonws]

theorem nonws_reverse (a : List Char) : nonws a.reverse = (nonws a).reverse := by
  simp [nonws]

theorem nonws_spaces (n : Nat) : nonws (spaces n) = [] := by
  simp [nonws, spaces, isWs]

theorem nonws_eq_nil_of_all {t : List Char} (h : ∀ c ∈ t, isWs c = true) : nonws t = [] := by
  simp only [nonws, List.filter_eq_nil_iff]
  intro c hc; simp [h c hc]

/-- Non-whitespace stream of the output written so far. -/
def St.nw (s : St) : List Char := nonws s.out

theorem nw_push (s s' : St) (x : List Char) (h : s'.rout = x ++ s.rout) :
    s'.nw = s.nw ++ nonws x.reverse := by
  simp [St.nw, St.out, h, nonws_append]

theorem nw_same (s s' : St) (h : s'.rout = s.rout) : s'.nw = s.nw := by
  simp [St.nw, St.out, h]

theorem flushPendingWith_nw (s : St) (i : Int) (o : Opts) : (flushPendingWith s i o).nw = s.nw := by
  unfold flushPendingWith
  split
  · rfl
  · rw [nw_push s _ (spaces _) rfl]; simp [nonws_reverse, nonws_spaces]

theorem flushPending_nw (s : St) : (flushPending s).nw = s.nw := by
  unfold flushPending
  split
  · rfl
  · rw [nw_push s _ (spaces _) rfl]; simp [nonws_reverse, nonws_spaces]

theorem writeText_nw (s : St) (t : List Char) : (writeText s t).nw = s.nw ++ nonws t := by
  simp only [writeText]
  split <;> (rw [nw_push s _ t.reverse rfl]; simp)

theorem writeFlat_nw (s : St) (t : List Char) : (writeFlat s t).nw = s.nw ++ nonws t := by
  rw [nw_push s _ t.reverse rfl]; simp

theorem writeSpaces_nw (s : St) (w : Nat) : (writeSpaces s w).nw = s.nw := by
  rw [nw_push s _ (spaces w) rfl]; simp [nonws_reverse, nonws_spaces]

theorem nonws_newline_reverse (o : Opts) (h : NlWs o) : nonws o.newline.reverse.reverse = [] := by
  simp only [List.reverse_reverse]; exact nonws_eq_nil_of_all h

theorem emitBreak_nw (s : St) (i : Int) (o : Opts) (h : NlWs o) : (emitBreak s i o).nw = s.nw := by
  simp only [emitBreak]
  split
  · exact nw_same _ _ rfl
  · rw [nw_push s _ o.newline.reverse rfl, nonws_newline_reverse o h]; simp

theorem dedentTruncate_nw (s : St) (l : Nat) (o : Opts) : (dedentTruncate s l o).nw = s.nw := by
  simp only [dedentTruncate]
  split
  · split
    · rename_i h
      have hall : nonws (s.rout.take (l * o.indentWidth)) = [] := by
        apply nonws_eq_nil_of_all
        intro c hc
        have := List.all_eq_true.mp h.2 c hc
        simp at this; simp [isWs, this]
      have : s.rout = s.rout.take (l * o.indentWidth) ++ s.rout.drop (l * o.indentWidth) := by simp
      simp only [St.nw, St.out, nonws_reverse]
      conv => rhs; rw [this, nonws_append, hall]
      simp
    · rfl
  · rfl

theorem pushNewlines_nw (o : Opts) (h : NlWs o) (n : Nat) (s : St) : (pushNewlines o n s).nw = s.nw := by
  induction n generalizing s with
  | zero => rfl
  | succ n ih =>
    simp only [pushNewlines]
    rw [ih, nw_push s _ o.newline.reverse rfl, nonws_newline_reverse o h]; simp

theorem commentLead_nw (o : Opts) (h : NlWs o) (pw : Nat) (s : St) (c : CommentDoc) :
    (commentLead o pw s c).nw = s.nw := by
  simp only [commentLead]
  split
  · split
    · rw [nw_push s _ [' '] rfl]; simp [nonws, isWs]
    · exact nw_same _ _ rfl
  · rw [nw_push (pushNewlines o _ { s with swallow := false }) _ (spaces pw) rfl, pushNewlines_nw o h]
    simp [nonws_reverse, nonws_spaces, St.nw, St.out]

theorem commentAnchor_nw (s : St) (c : CommentDoc) : (commentAnchor s c).nw = s.nw := by
  unfold commentAnchor; split <;> exact nw_same _ _ rfl

theorem commentBody_nw (o : Opts) (h : NlWs o) (pw : Nat) (s : St) (c : CommentDoc) :
    (commentBody o pw s c).nw = s.nw ++ nonws c.text := by
  simp only [commentBody]
  split
  · rw [nw_push s _ (o.newline.reverse ++ c.text.reverse) (by simp)]
    simp [nonws_append, nonws_eq_nil_of_all h]
  · split <;> (rw [nw_push s _ c.text.reverse rfl]; simp)

theorem commentStep_nw (o : Opts) (h : NlWs o) (pw : Nat) (s : St) (c : CommentDoc) :
    (commentStep o pw s c).nw = s.nw ++ nonws c.text := by
  unfold commentStep
  rw [commentBody_nw o h, commentAnchor_nw, commentLead_nw o h]

theorem renderComments_nw (o : Opts) (h : NlWs o) (i : Int) (cs : List CommentDoc) (s : St) :
    (renderComments o i cs s).nw = s.nw ++ nonws (cs.flatMap (·.text)) := by
  unfold renderComments
  induction cs generalizing s with
  | nil => simp [nonws]
  | cons c cs ih =>
    simp only [List.foldl_cons, List.flatMap_cons, nonws_append]
    rw [ih, commentStep_nw o h]; simp

theorem emitAnchored_nw (s : St) (i : Int) (o : Opts) (t : List Char) (sl sc : Nat) :
    (emitAnchored s i o t sl sc).nw = s.nw ++ nonws t := by
  unfold emitAnchored
  rw [writeText_nw]
  congr 1
  rw [← flushPendingWith_nw s i o]
  exact nw_same _ _ rfl

theorem contentFrames_leaf {f : Frame} {fs : List Frame} {e c' : List Char}
    (he : Content f.mode f.doc e) (h : ContentFrames fs c') : ContentFrames (f :: fs) (e ++ c') :=
  ⟨e, c', rfl, he, h⟩

/-- One `render_frame` call: whatever content the new stack stands for, the old stack stands for
    it preceded by what this call wrote (non-whitespace streams). -/
theorem stepFrame_content (o : Opts) (hnl : NlWs o) (f : Frame) (fs : List Frame) (s : St)
    (c' : List Char) (h : ContentFrames ((stepFrame o f fs s).1 ++ fs) c') :
    ∃ c, ContentFrames (f :: fs) c ∧ s.nw ++ nonws c = (stepFrame o f fs s).2.nw ++ nonws c' := by
  obtain ⟨i, m, d⟩ := f
  cases d <;> simp only [stepFrame] at h ⊢
  case nil => exact ⟨[] ++ c', contentFrames_leaf (by simp [Content]) h, by simp⟩
  case text t =>
    exact ⟨t ++ c', contentFrames_leaf (by simp [Content]) h,
      by simp [writeText_nw, flushPendingWith_nw, nonws_append]⟩
  case concat ds =>
    obtain ⟨c₁, c₂, rfl, h₁, h₂⟩ := (contentFrames_map_append i m ds fs c').mp h
    exact ⟨c₁ ++ c₂, ⟨c₁, c₂, rfl, by simpa [Content] using h₁, h₂⟩, rfl⟩
  case indent off d =>
    obtain ⟨c₁, c₂, rfl, h₁, h₂⟩ := h
    exact ⟨c₁ ++ c₂, ⟨c₁, c₂, rfl, by simpa [Content] using h₁, h₂⟩, rfl⟩
  case group d =>
    obtain ⟨c₁, c₂, rfl, h₁, h₂⟩ := h
    refine ⟨c₁ ++ c₂, ⟨c₁, c₂, rfl, ?_, h₂⟩, rfl⟩
    cases m
    · simpa [Content] using h₁
    · simp only [Content]
      have : ∀ m', Content m' d c₁ → Content .flat d c₁ ∨ Content .brk d c₁ := by
        intro m' hm; cases m'
        · exact Or.inl hm
        · exact Or.inr hm
      exact this _ h₁
  case forceFlat d =>
    obtain ⟨c₁, c₂, rfl, h₁, h₂⟩ := h
    exact ⟨c₁ ++ c₂, ⟨c₁, c₂, rfl, by simpa [Content] using h₁, h₂⟩, rfl⟩
  case line sep =>
    cases m
    · exact ⟨sep ++ c', contentFrames_leaf (by simp [Content]) h,
        by simp [writeFlat_nw, flushPending_nw, nonws_append]⟩
    · exact ⟨[] ++ c', contentFrames_leaf (by simp [Content]) h, by simp [emitBreak_nw _ _ _ hnl]⟩
  case hardline =>
    cases m
    · exact ⟨[] ++ c', contentFrames_leaf (by simp [Content]) h,
        by simp [writeSpaces_nw, flushPending_nw]⟩
    · exact ⟨[] ++ c', contentFrames_leaf (by simp [Content]) h, by simp [emitBreak_nw _ _ _ hnl]⟩
  case dedentHardline l =>
    cases m
    · exact ⟨[] ++ c', contentFrames_leaf (by simp [Content]) h,
        by simp [writeSpaces_nw, flushPending_nw]⟩
    · exact ⟨[] ++ c', contentFrames_leaf (by simp [Content]) h,
        by simp [emitBreak_nw _ _ _ hnl, dedentTruncate_nw]⟩
  case comments cs =>
    exact ⟨cs.flatMap (·.text) ++ c', contentFrames_leaf (by simp [Content]) h,
      by simp [renderComments_nw o hnl, nonws_append]⟩
  case ifBreak t =>
    cases m
    · exact ⟨[] ++ c', contentFrames_leaf (by simp [Content]) (by simpa using h), by simp⟩
    · exact ⟨t ++ c', contentFrames_leaf (by simp [Content]) (by simpa using h),
        by simp [writeFlat_nw, flushPendingWith_nw, nonws_append]⟩
  case ifBreakPad w =>
    refine ⟨[] ++ c', contentFrames_leaf (by simp [Content]) (by split at h <;> simpa using h), ?_⟩
    split <;> simp [writeSpaces_nw, flushPendingWith_nw]
  case pad w =>
    refine ⟨[] ++ c', contentFrames_leaf (by simp [Content]) (by split at h <;> simpa using h), ?_⟩
    split <;> simp [writeSpaces_nw, flushPendingWith_nw]
  case ifFlatPad w =>
    refine ⟨[] ++ c', contentFrames_leaf (by simp [Content]) (by split at h <;> simpa using h), ?_⟩
    split <;> simp [writeSpaces_nw, flushPendingWith_nw]
  case anchored t sl sc =>
    exact ⟨t ++ c', contentFrames_leaf (by simp [Content]) h,
      by simp [emitAnchored_nw, nonws_append]⟩

/-- T1 on the machine: the loop writes, modulo whitespace, exactly a content of its stack. -/
theorem renderFrames_content (o : Opts) (hnl : NlWs o) (fs : List Frame) (s : St) :
    ∃ c, ContentFrames fs c ∧ (renderFrames o fs s).nw = s.nw ++ nonws c := by
  fun_induction renderFrames o fs s with
  | case1 s => exact ⟨[], rfl, by simp [nonws]⟩
  | case2 f fs s ih =>
    obtain ⟨c', hc', he⟩ := ih
    obtain ⟨c, hc, hs⟩ := stepFrame_content o hnl f fs s c' hc'
    exact ⟨c, hc, by rw [he, hs]⟩

/-! ### Position bookkeeping (T3) -/

/-- Chars written since the last `'\n'`, on a REVERSED text. -/
def lastLen (r : List Char) : Nat := (r.takeWhile (· != '\n')).length

theorem lastLineLen_eq (t : List Char) : lastLineLen t = lastLen t.reverse := rfl

theorem countNl_append (a b : List Char) : countNl (a ++ b) = countNl a + countNl b := by
  simp [countNl]

theorem countNl_reverse (a : List Char) : countNl a.reverse = countNl a := by
  simp [countNl]

theorem countNl_spaces (n : Nat) : countNl (spaces n) = 0 := by
  simp [countNl, spaces, List.count_replicate]

theorem countNl_cons (c : Char) (a : List Char) :
    countNl (c :: a) = countNl a + (if c = '\n' then 1 else 0) := by
  simp [countNl, List.count_cons]

theorem lastLen_append_of_noNl (a r : List Char) (h : countNl a = 0) :
    lastLen (a ++ r) = a.length + lastLen r := by
  induction a with
  | nil => simp
  | cons c a ih =>
    rw [countNl_cons] at h
    have hc : c ≠ '\n' := by intro hc; simp [hc] at h
    have ha : countNl a = 0 := by omega
    simp only [lastLen, List.cons_append] at ih ⊢
    rw [List.takeWhile_cons_of_pos (by simpa using hc)]
    simp [ih ha]; omega

theorem lastLen_append_of_nl (a r : List Char) (h : countNl a ≠ 0) :
    lastLen (a ++ r) = lastLen a := by
  induction a with
  | nil => simp [countNl] at h
  | cons c a ih =>
    by_cases hc : c = '\n'
    · simp [lastLen, hc]
    · rw [countNl_cons] at h
      simp only [hc, if_false, Nat.add_zero] at h
      simp only [lastLen, List.cons_append] at ih ⊢
      rw [List.takeWhile_cons_of_pos (by simpa using hc), List.takeWhile_cons_of_pos (by simpa using hc)]
      simp [ih h]

theorem lastLen_spaces_append (n : Nat) (r : List Char) : lastLen (spaces n ++ r) = n + lastLen r := by
  rw [lastLen_append_of_noNl _ _ (countNl_spaces n)]; simp [spaces]

/-- The newline string ends the line: it is `pre ++ "\n"` with no other `'\n'` (true of "\n", "\r\n"). -/
def NlOK (o : Opts) : Prop := ∃ pre, o.newline = pre ++ ['\n'] ∧ countNl pre = 0

theorem NlOK.count {o : Opts} (h : NlOK o) (r : List Char) :
    countNl (o.newline.reverse ++ r) = 1 + countNl r := by
  obtain ⟨pre, hp, h0⟩ := h
  simp [hp, countNl_append, countNl_reverse, countNl_cons, h0]; omega

theorem NlOK.last {o : Opts} (h : NlOK o) (r : List Char) : lastLen (o.newline.reverse ++ r) = 0 := by
  obtain ⟨pre, hp, h0⟩ := h
  simp [hp, lastLen]

/-- `current_line` and `col` describe the text written so far. -/
def Pos (s : St) : Prop := s.line = 1 + countNl s.rout ∧ s.col = lastLen s.rout

/-- Anchor `a` points at its own text inside the (reversed) output `r`; `post` is what was written
    after it. -/
def Located (a : Anchor) (r : List Char) : Prop :=
  ∃ post pre, r = post ++ a.text.reverse ++ pre ∧ a.dstLine = 1 + countNl pre ∧ a.dstCol = 1 + lastLen pre

theorem Located.push {a : Anchor} {r : List Char} (h : Located a r) (x : List Char) : Located a (x ++ r) := by
  obtain ⟨post, pre, hr, hl, hc⟩ := h
  exact ⟨x ++ post, pre, by simp [hr], hl, hc⟩

theorem solid_iff (t : List Char) : solid t = true ↔ ∃ c tl, t.reverse = c :: tl ∧ c ≠ ' ' := by
  unfold solid
  cases h : t.reverse with
  | nil => simp
  | cons c tl => simp

/-- A `DedentHardline` truncation (removal of trailing spaces) cannot reach into a text that is
    non-empty and does not end in a space. -/
theorem Located.truncate {a : Anchor} {k : Nat} {r : List Char} (hs : solid a.text = true)
    (h : Located a (spaces k ++ r)) : Located a r := by
  obtain ⟨c, tl, ht, hne⟩ := (solid_iff _).mp hs
  induction k with
  | zero => simpa [spaces] using h
  | succ k ih =>
    apply ih
    obtain ⟨post, pre, hr, hl, hc⟩ := h
    have hsp : spaces (k + 1) = ' ' :: spaces k := by simp [spaces, List.replicate_succ]
    rw [hsp] at hr
    cases post with
    | nil => rw [ht] at hr; simp at hr; exact absurd hr.1.symm hne
    | cons p ps =>
      simp only [List.cons_append, List.cons.injEq] at hr
      exact ⟨ps, pre, hr.2, hl, hc⟩

/-- Every recorded anchor whose text is selected by `keep` is true. (`keep = solid`: texts a
    truncation cannot reach into; `keep = fun _ => true` for documents that never truncate.) -/
def ATrue (keep : List Char → Bool) (s : St) : Prop :=
  ∀ a ∈ s.ranchors, keep a.text = true → Located a s.rout

variable {keep : List Char → Bool}

theorem ATrue.push {s s' : St} (h : ATrue keep s) (x : List Char) (hr : s'.rout = x ++ s.rout)
    (ha : s'.ranchors = s.ranchors) : ATrue keep s' := by
  intro a hmem hs; rw [ha] at hmem; rw [hr]; exact (h a hmem hs).push x

/-! ### `Doc.all` and frame stacks -/

theorem Doc.allList_iff (p : Doc → Bool) (ds : List Doc) :
    Doc.allList p ds = true ↔ ∀ d ∈ ds, d.all p = true := by
  induction ds with
  | nil => simp [Doc.allList]
  | cons d ds ih => simp [Doc.allList, ih]

theorem Doc.all_self {p : Doc → Bool} {d : Doc} (h : d.all p = true) : p d = true := by
  cases d <;> simp [Doc.all] at h <;> first | exact h | exact h.1

/-- Every document on the stack satisfies the node predicate everywhere. -/
def FramesAll (p : Doc → Bool) (fs : List Frame) : Prop := ∀ f ∈ fs, f.doc.all p = true

theorem stepFrame_all_new (p : Doc → Bool) (o : Opts) (i : Int) (m : Mode) (d : Doc)
    (fs : List Frame) (s : St) (hf : d.all p = true) :
    FramesAll p (stepFrame o { indent := i, mode := m, doc := d } fs s).1 := by
  cases d <;> simp only [stepFrame] <;> (try split) <;>
    simp only [FramesAll, List.not_mem_nil, false_imp_iff, implies_true, List.mem_singleton,
      forall_eq, List.mem_map, forall_exists_index, and_imp, forall_apply_eq_imp_iff₂] <;>
    simp only [Doc.all, Bool.and_eq_true] at hf
  · exact (Doc.allList_iff p _).mp hf.2
  all_goals exact hf.2

theorem stepFrame_all (p : Doc → Bool) (o : Opts) (f : Frame) (fs : List Frame) (s : St)
    (h : FramesAll p (f :: fs)) : FramesAll p ((stepFrame o f fs s).1 ++ fs) := by
  have hf : f.doc.all p = true := h f (by simp)
  have hfs : FramesAll p fs := fun g hg => h g (by simp [hg])
  intro g hg
  rcases List.mem_append.mp hg with hg | hg
  · obtain ⟨i, m, d⟩ := f
    exact stepFrame_all_new p o i m d fs s hf g hg
  · exact hfs g hg

/-! ### T3: the invariant and its preservation -/

theorem take_eq_spaces {r : List Char} {k : Nat} (hk : k ≤ r.length)
    (h : (r.take k).all (· == ' ') = true) : r = spaces k ++ r.drop k := by
  have : r.take k = spaces k := by
    unfold spaces
    rw [List.eq_replicate_iff]
    refine ⟨by simp [hk], fun b hb => ?_⟩
    have := List.all_eq_true.mp h b hb
    simpa using this
  conv => lhs; rw [← List.take_append_drop k r, this]

theorem flushPendingWith_pos (s : St) (i : Int) (o : Opts) (hc : Ctl s) (hp : Pos s) (ha : ATrue keep s) :
    Pos (flushPendingWith s i o) ∧ ATrue keep (flushPendingWith s i o) := by
  unfold flushPendingWith
  cases hpe : s.pending with
  | none => exact ⟨hp, ha⟩
  | some pd =>
    have h0 : lastLen s.rout = 0 := by rw [← hp.2]; exact hc.1 (by simp [hpe])
    refine ⟨⟨?_, ?_⟩, ha.push (spaces _) rfl rfl⟩
    · simp [countNl_append, countNl_spaces, hp.1]
    · simp [lastLen_spaces_append, h0]

theorem flushPending_pos (s : St) (hc : Ctl s) (hp : Pos s) (ha : ATrue keep s) :
    Pos (flushPending s) ∧ ATrue keep (flushPending s) := by
  unfold flushPending
  cases hpe : s.pending with
  | none => exact ⟨hp, ha⟩
  | some pd =>
    have h0 : lastLen s.rout = 0 := by rw [← hp.2]; exact hc.1 (by simp [hpe])
    refine ⟨⟨?_, ?_⟩, ha.push (spaces _) rfl rfl⟩
    · simp [countNl_append, countNl_spaces, hp.1]
    · simp [lastLen_spaces_append, h0]

theorem pos_writeText_rout (r t : List Char) (line col : Nat) (hl : line = 1 + countNl r)
    (hc : col = lastLen r) :
    (if countNl t = 0 then line else line + countNl t) = 1 + countNl (t.reverse ++ r)
      ∧ (if countNl t = 0 then col + t.length else lastLineLen t) = lastLen (t.reverse ++ r) := by
  by_cases h : countNl t = 0
  · simp [h, countNl_append, countNl_reverse, hl, hc,
      lastLen_append_of_noNl _ r (by rw [countNl_reverse]; exact h)]; omega
  · simp [h, countNl_append, countNl_reverse, hl, lastLineLen_eq,
      lastLen_append_of_nl _ r (by rw [countNl_reverse]; exact h)]; omega

theorem writeText_pos (s : St) (t : List Char) (hp : Pos s) (ha : ATrue keep s) :
    Pos (writeText s t) ∧ ATrue keep (writeText s t) := by
  have := pos_writeText_rout s.rout t s.line s.col hp.1 hp.2
  simp only [writeText]
  split
  · rename_i h; simp only [h, if_true] at this
    exact ⟨⟨this.1, this.2⟩, ha.push t.reverse rfl rfl⟩
  · rename_i h; simp only [h, if_false] at this
    exact ⟨⟨this.1, this.2⟩, ha.push t.reverse rfl rfl⟩

theorem writeFlat_pos (s : St) (t : List Char) (ht : countNl t = 0) (hp : Pos s) (ha : ATrue keep s) :
    Pos (writeFlat s t) ∧ ATrue keep (writeFlat s t) := by
  have := pos_writeText_rout s.rout t s.line s.col hp.1 hp.2
  simp only [ht, if_true] at this
  exact ⟨⟨this.1, this.2⟩, ha.push t.reverse rfl rfl⟩

theorem writeSpaces_pos (s : St) (w : Nat) (hp : Pos s) (ha : ATrue keep s) :
    Pos (writeSpaces s w) ∧ ATrue keep (writeSpaces s w) := by
  refine ⟨⟨?_, ?_⟩, ha.push (spaces w) rfl rfl⟩
  · simp [writeSpaces, countNl_append, countNl_spaces, hp.1]
  · simp [writeSpaces, lastLen_spaces_append, hp.2]; omega

theorem emitBreak_pos (s : St) (i : Int) (o : Opts) (hn : NlOK o) (hp : Pos s) (ha : ATrue keep s) :
    Pos (emitBreak s i o) ∧ ATrue keep (emitBreak s i o) := by
  simp only [emitBreak]
  split
  · exact ⟨hp, ha⟩
  · refine ⟨⟨?_, ?_⟩, ha.push o.newline.reverse rfl rfl⟩
    · simp [hn.count, hp.1]; omega
    · simp [hn.last]

theorem dedentTruncate_pos (s : St) (l : Nat) (o : Opts)
    (hk : (∀ t, keep t = true → solid t = true) ∨ l * o.indentWidth = 0) (hp : Pos s) (ha : ATrue keep s) :
    Pos (dedentTruncate s l o) ∧ ATrue keep (dedentTruncate s l o) := by
  simp only [dedentTruncate]
  split
  · rename_i hout
    split
    · rename_i h
      have hr := take_eq_spaces h.1 h.2
      refine ⟨⟨?_, ?_⟩, ?_⟩
      · have := hp.1; rw [hr, countNl_append, countNl_spaces] at this; simpa using this
      · have := hp.2; rw [hr, lastLen_spaces_append] at this; simp only []; omega
      · intro a hmem hs
        have := ha a hmem hs
        rw [hr] at this
        rcases hk with hk | hk
        · exact this.truncate (hk _ hs)
        · exact absurd hout.1 (by omega)
    · exact ⟨hp, ha⟩
  · exact ⟨hp, ha⟩

theorem pushNewlines_pos (o : Opts) (hn : NlOK o) (n : Nat) (s : St) (hp : Pos s) (ha : ATrue keep s) :
    Pos (pushNewlines o n s) ∧ ATrue keep (pushNewlines o n s) := by
  induction n generalizing s with
  | zero => exact ⟨hp, ha⟩
  | succ n ih =>
    simp only [pushNewlines]
    apply ih
    · exact ⟨by simp [hn.count, hp.1]; omega, by simp [hn.last]⟩
    · exact ha.push o.newline.reverse rfl rfl

theorem lead_aux (o : Opts) (hn : NlOK o) (pw n : Nat) (s0 : St) (hp : Pos s0) (ha : ATrue keep s0)
    (h0 : n = 0 → s0.col = 0) :
    Pos { (pushNewlines o n s0) with rout := spaces pw ++ (pushNewlines o n s0).rout, col := pw, pending := none }
    ∧ ATrue keep
        { (pushNewlines o n s0) with rout := spaces pw ++ (pushNewlines o n s0).rout, col := pw, pending := none } := by
  have hpn := pushNewlines_pos o hn n s0 hp ha
  have hprops := pushNewlines_props o n s0
  have hcol0 : (pushNewlines o n s0).col = 0 := by
    rw [hprops.2.2.2.2]
    split
    · rename_i hz; exact h0 hz
    · rfl
  have hl0 : lastLen (pushNewlines o n s0).rout = 0 := by rw [← hpn.1.2]; exact hcol0
  refine ⟨⟨?_, ?_⟩, hpn.2.push (spaces pw) rfl rfl⟩
  · simp only [countNl_append, countNl_spaces]; rw [hpn.1.1]; omega
  · simp only [lastLen_spaces_append, hl0]; rfl

theorem commentLead_pos (o : Opts) (hn : NlOK o) (pw : Nat) (s : St) (c : CommentDoc)
    (hc : Ctl s) (hp : Pos s) (ha : ATrue keep s) :
    Pos (commentLead o pw s c) ∧ ATrue keep (commentLead o pw s c) := by
  simp only [commentLead]
  split
  · split
    · refine ⟨⟨?_, ?_⟩, ha.push [' '] rfl rfl⟩
      · simp [countNl_cons, hp.1]
      · have := lastLen_spaces_append 1 s.rout
        simp only [spaces, List.replicate_one, List.singleton_append] at this
        simp [this, hp.2]; omega
    · exact ⟨hp, ha⟩
  · rename_i hcond
    apply lead_aux o hn pw _ { s with swallow := false } hp ha
    intro hz
    have hal : (s.swallow || s.pending.isSome) = true := by
      by_cases hal : (s.swallow || s.pending.isSome) = true
      · exact hal
      · simp [hal] at hz <;> omega
    cases hs : s.swallow with
    | true => exact hc.1 (hc.2 hs)
    | false => simp [hs] at hal; exact hc.1 hal

theorem commentTail_pos (o : Opts) (hn : NlOK o) (pw : Nat) (s : St) (c : CommentDoc)
    (hp : Pos s) (ha : ATrue keep s) :
    Pos (commentBody o pw (commentAnchor s c) c) ∧ ATrue keep (commentBody o pw (commentAnchor s c) c) := by
  have hw := pos_writeText_rout s.rout c.text s.line s.col hp.1 hp.2
  -- position
  have hpos : Pos (commentBody o pw (commentAnchor s c) c) := by
    have hr : (commentAnchor s c).rout = s.rout ∧ (commentAnchor s c).line = s.line
        ∧ (commentAnchor s c).col = s.col := by
      unfold commentAnchor; split <;> simp
    simp only [commentBody]
    split
    · refine ⟨?_, ?_⟩
      · simp only [hr.1, hr.2.1, hn.count, countNl_append, countNl_reverse, hp.1]; omega
      · simp [hn.last]
    · split
      · rename_i hnls
        have h0 : countNl c.text ≠ 0 := by omega
        simp only [h0, if_false] at hw
        exact ⟨by simp only [hr.1, hr.2.1]; exact hw.1, by simp only [hr.1]; exact hw.2⟩
      · rename_i hnls
        have h0 : countNl c.text = 0 := by omega
        simp only [h0, if_true] at hw
        exact ⟨by simp only [hr.1, hr.2.1]; exact hw.1, by simp only [hr.1, hr.2.2]; exact hw.2⟩
  refine ⟨hpos, ?_⟩
  -- anchors
  have hrout : ∃ post, (commentBody o pw (commentAnchor s c) c).rout = post ++ c.text.reverse ++ s.rout
      ∧ (commentBody o pw (commentAnchor s c) c).ranchors = (commentAnchor s c).ranchors := by
    have hr : (commentAnchor s c).rout = s.rout := by unfold commentAnchor; split <;> simp
    simp only [commentBody]
    split
    · exact ⟨o.newline.reverse, by simp [hr], rfl⟩
    · split <;> exact ⟨[], by simp [hr], rfl⟩
  obtain ⟨post, hro, hanch⟩ := hrout
  intro a hmem hs
  rw [hanch] at hmem
  unfold commentAnchor at hmem
  split at hmem
  · rcases List.mem_cons.mp hmem with rfl | hmem
    · exact ⟨post, s.rout, hro, hp.1, by simp [hp.2]; omega⟩
    · rw [hro]; exact (ha a hmem hs).push _
  · rw [hro]; exact (ha a hmem hs).push _

/-- The loop invariant of T3. -/
def TInv (keep : List Char → Bool) (s : St) : Prop := Ctl s ∧ Pos s ∧ ATrue keep s

theorem commentStep_tinv (o : Opts) (hn : NlOK o) (pw : Nat) (s : St) (c : CommentDoc)
    (h : TInv keep s) : TInv keep (commentStep o pw s c) := by
  obtain ⟨hc, hp, ha⟩ := h
  have h1 := commentLead_mono o pw s c hc
  have p1 := commentLead_pos o hn pw s c hc hp ha
  have p2 := commentTail_pos o hn pw _ c p1.1 p1.2
  have hA : (commentAnchor (commentLead o pw s c) c).pending = none
      ∧ (commentAnchor (commentLead o pw s c) c).swallow = false := by
    unfold commentAnchor; split <;> exact ⟨h1.2.1, h1.2.2⟩
  have h3 := commentBody_mono o pw _ c hA.1 hA.2
  exact ⟨h3.2, p2.1, p2.2⟩

theorem renderComments_tinv (o : Opts) (hn : NlOK o) (i : Int) (cs : List CommentDoc) (s : St)
    (h : TInv keep s) : TInv keep (renderComments o i cs s) := by
  unfold renderComments
  induction cs generalizing s with
  | nil => exact h
  | cons c cs ih => exact ih _ (commentStep_tinv o hn _ s c h)

theorem emitAnchored_tinv (s : St) (i : Int) (o : Opts) (t : List Char) (sl sc : Nat)
    (h : TInv keep s) : TInv keep (emitAnchored s i o t sl sc) := by
  obtain ⟨hc, hp, ha⟩ := h
  have f := flushPendingWith_mono s i o hc
  have fp := flushPendingWith_pos s i o hc hp ha
  have hw := pos_writeText_rout (flushPendingWith s i o).rout t _ _ fp.1.1 fp.1.2
  unfold emitAnchored
  simp only [writeText]
  refine ⟨?_, ?_, ?_⟩
  · split <;> exact Ctl_of_none f.2.1 rfl
  · split
    · rename_i h0; simp only [h0, if_true] at hw; exact ⟨hw.1, hw.2⟩
    · rename_i h0; simp only [h0, if_false] at hw; exact ⟨hw.1, hw.2⟩
  · have key : ∀ a ∈ (Anchor.mk (flushPendingWith s i o).line ((flushPendingWith s i o).col + 1) sl sc t)
          :: (flushPendingWith s i o).ranchors,
        keep a.text = true → Located a (t.reverse ++ (flushPendingWith s i o).rout) := by
      intro a hmem hs
      rcases List.mem_cons.mp hmem with rfl | hmem
      · exact ⟨[], (flushPendingWith s i o).rout, by simp, fp.1.1, by simp [fp.1.2]; omega⟩
      · exact (fp.2 a hmem hs).push _
    split <;> exact key

theorem tinv_content {s s1 s2 : St} (_m1 : Mono s s1) (_m2 : Mono s1 s2)
    (hp : s2.pending = none) (hs : s2.swallow = false) (p : Pos s2 ∧ ATrue keep s2) : TInv keep s2 :=
  ⟨Ctl_of_none hp hs, p.1, p.2⟩

/-- Every `render_frame` call preserves the T3 invariant, for anchor-friendly nodes. -/
theorem stepFrame_tinv (o : Opts) (hn : NlOK o) (f : Frame) (fs : List Frame) (s : St)
    (hok : anchorNodeOK f.doc = true)
    (hk : (∀ t, keep t = true → solid t = true) ∨ noTruncNode o f.doc = true)
    (h : TInv keep s) : TInv keep (stepFrame o f fs s).2 := by
  obtain ⟨i, m, d⟩ := f
  obtain ⟨hc, hp, ha⟩ := h
  have fw := flushPendingWith_mono s i o hc
  have fwp := flushPendingWith_pos s i o hc hp ha
  have fp := flushPending_mono s hc
  have fpp := flushPending_pos s hc hp ha
  cases d <;> simp only [stepFrame]
  case nil => exact ⟨hc, hp, ha⟩
  case text t =>
    have w := writeText_mono (flushPendingWith s i o) t
    exact tinv_content fw.1 w.1 (by rw [w.2.1]; exact fw.2.1) w.2.2 (writeText_pos _ t fwp.1 fwp.2)
  case concat => exact ⟨hc, hp, ha⟩
  case indent => exact ⟨hc, hp, ha⟩
  case group => exact ⟨hc, hp, ha⟩
  case forceFlat => exact ⟨hc, hp, ha⟩
  case line sep =>
    have hsep : countNl sep = 0 := by simpa [anchorNodeOK] using hok
    cases m
    · have w := writeFlat_mono (flushPending s) sep
      exact tinv_content fp.1 w.1 (by rw [w.2.1]; exact fp.2.1) w.2.2 (writeFlat_pos _ sep hsep fpp.1 fpp.2)
    · have e := emitBreak_mono s i o hc
      have := emitBreak_pos s i o hn hp ha
      exact ⟨e.2, this.1, this.2⟩
  case hardline =>
    cases m
    · have w := writeSpaces_mono (flushPending s) 1
      exact tinv_content fp.1 w.1 (by rw [w.2.1]; exact fp.2.1) w.2.2 (writeSpaces_pos _ 1 fpp.1 fpp.2)
    · have e := emitBreak_mono s i o hc
      have := emitBreak_pos s i o hn hp ha
      exact ⟨e.2, this.1, this.2⟩
  case dedentHardline l =>
    cases m
    · have w := writeSpaces_mono (flushPending s) 1
      exact tinv_content fp.1 w.1 (by rw [w.2.1]; exact fp.2.1) w.2.2 (writeSpaces_pos _ 1 fpp.1 fpp.2)
    · have e := dedentBreak_mono s l i o hc
      have hk' : (∀ t, keep t = true → solid t = true) ∨ l * o.indentWidth = 0 := by
        rcases hk with hk | hk
        · exact Or.inl hk
        · exact Or.inr (by simpa [noTruncNode] using hk)
      have t := dedentTruncate_pos s l o hk' hp ha
      have := emitBreak_pos _ i o hn t.1 t.2
      exact ⟨e.2, this.1, this.2⟩
  case comments cs =>
    exact renderComments_tinv o hn i cs s ⟨hc, hp, ha⟩
  case ifBreak t =>
    have ht : countNl t = 0 := by simpa [anchorNodeOK] using hok
    split
    · have w := writeFlat_mono (flushPendingWith s i o) t
      exact tinv_content fw.1 w.1 (by rw [w.2.1]; exact fw.2.1) w.2.2 (writeFlat_pos _ t ht fwp.1 fwp.2)
    · exact ⟨hc, hp, ha⟩
  case ifBreakPad w' =>
    split
    · have w := writeSpaces_mono (flushPendingWith s i o) w'
      exact tinv_content fw.1 w.1 (by rw [w.2.1]; exact fw.2.1) w.2.2 (writeSpaces_pos _ w' fwp.1 fwp.2)
    · exact ⟨hc, hp, ha⟩
  case pad w' =>
    split
    · have w := writeSpaces_mono (flushPendingWith s i o) w'
      exact tinv_content fw.1 w.1 (by rw [w.2.1]; exact fw.2.1) w.2.2 (writeSpaces_pos _ w' fwp.1 fwp.2)
    · exact ⟨hc, hp, ha⟩
  case ifFlatPad w' =>
    split
    · have w := writeSpaces_mono (flushPendingWith s i o) w'
      exact tinv_content fw.1 w.1 (by rw [w.2.1]; exact fw.2.1) w.2.2 (writeSpaces_pos _ w' fwp.1 fwp.2)
    · exact ⟨hc, hp, ha⟩
  case anchored t sl sc =>
    exact emitAnchored_tinv s i o t sl sc ⟨hc, hp, ha⟩

theorem init_tinv : TInv keep ({} : St) := by
  simp [TInv, Ctl, Pos, ATrue, countNl, lastLen]

theorem renderFrames_tinv (o : Opts) (hn : NlOK o) (fs : List Frame) (s : St)
    (hfs : FramesAll anchorNodeOK fs)
    (hk : (∀ t, keep t = true → solid t = true) ∨ FramesAll (noTruncNode o) fs)
    (h : TInv keep s) : TInv keep (renderFrames o fs s) :=
  (renderFrames_inv o
    (fun fs s => FramesAll anchorNodeOK fs
      ∧ ((∀ t, keep t = true → solid t = true) ∨ FramesAll (noTruncNode o) fs) ∧ TInv keep s)
    (fun f fs s h => ⟨stepFrame_all _ o f fs s h.1,
      h.2.1.imp id (fun h' => stepFrame_all _ o f fs s h'),
      stepFrame_tinv o hn f fs s (Doc.all_self (h.1 f (by simp)))
        (h.2.1.imp id (fun h' => Doc.all_self (h' f (by simp)))) h.2.2⟩) fs s ⟨hfs, hk, h⟩).2.2

/-! ### `strip_trailing_whitespace` -/

/-- No trailing blank at the end of `l`. -/
def NoTrail (l : List Char) : Prop := ∀ c, l.getLast? = some c → isTrailWs c = false

/-- `Trimmed nl a b`: `b` is `a` with blanks (`' '`, `'\t'`) removed only immediately before an
    occurrence of `nl` or at the very end — and at each such place all of them are removed. -/
inductive Trimmed (nl : List Char) : List Char → List Char → Prop
  | last (l w : List Char) : (∀ c ∈ w, isTrailWs c = true) → NoTrail l → Trimmed nl (l ++ w) l
  | line (l w rest rest' : List Char) : (∀ c ∈ w, isTrailWs c = true) → NoTrail l →
      Trimmed nl rest rest' → Trimmed nl (l ++ w ++ nl ++ rest) (l ++ nl ++ rest')

theorem trimEndR_split (cur : List Char) :
    cur.reverse = (trimEndR cur).reverse ++ (cur.takeWhile isTrailWs).reverse
      ∧ (∀ c ∈ (cur.takeWhile isTrailWs).reverse, isTrailWs c = true)
      ∧ NoTrail (trimEndR cur).reverse := by
  refine ⟨?_, ?_, ?_⟩
  · rw [← List.reverse_append, trimEndR, List.takeWhile_append_dropWhile]
  · intro c hc
    have hall : (cur.takeWhile isTrailWs).all isTrailWs = true := List.all_takeWhile
    exact List.all_eq_true.mp hall c (List.mem_reverse.mp hc)
  · intro c hc
    rw [List.getLast?_reverse, trimEndR] at hc
    have := List.head?_dropWhile_not isTrailWs cur
    rw [hc] at this
    simpa using this

theorem stripGo_trimmed (nl : List Char) (hnl : nl ≠ []) (s cur : List Char) :
    Trimmed nl (cur.reverse ++ s) (stripGo nl hnl s cur) := by
  fun_induction stripGo nl hnl s cur with
  | case1 cur =>
    have := trimEndR_split cur
    rw [List.append_nil, this.1]
    exact Trimmed.last _ _ this.2.1 this.2.2
  | case2 c s cur hpre ih =>
    have := trimEndR_split cur
    have hs : c :: s = nl ++ (c :: s).drop nl.length := by
      exact (List.prefix_iff_eq_append.mp (List.isPrefixOf_iff_prefix.mp hpre)).symm
    rw [hs, this.1]
    have ih' : Trimmed nl (List.drop nl.length (c :: s)) (stripGo nl hnl (List.drop nl.length (c :: s)) []) := by
      simpa using ih
    have := Trimmed.line (nl := nl) _ _ _ _ this.2.1 this.2.2 ih'
    simpa [List.append_assoc] using this
  | case3 c s cur hpre ih =>
    simpa using ih

theorem isWs_of_isTrailWs {c : Char} (h : isTrailWs c = true) : isWs c = true := by
  simp only [isTrailWs, Bool.or_eq_true, beq_iff_eq] at h
  rcases h with rfl | rfl <;> decide

theorem Trimmed.nonws {nl a b : List Char} (h : Trimmed nl a b) : nonws a = nonws b := by
  induction h with
  | last l w hw _ =>
    rw [nonws_append, nonws_eq_nil_of_all (fun c hc => isWs_of_isTrailWs (hw c hc))]; simp
  | line l w rest rest' hw _ _ ih =>
    simp only [nonws_append, ih, nonws_eq_nil_of_all (fun c hc => isWs_of_isTrailWs (hw c hc))]; simp

/-- Blanks are the only chars removed, and the order of all other chars is kept. -/
theorem Trimmed.keeps {nl a b : List Char} (h : Trimmed nl a b) :
    b.filter (fun c => !isTrailWs c) = a.filter (fun c => !isTrailWs c) := by
  have hnil : ∀ w : List Char, (∀ c ∈ w, isTrailWs c = true) → w.filter (fun c => !isTrailWs c) = [] := by
    intro w hw
    rw [List.filter_eq_nil_iff]; intro c hc; simp [hw c hc]
  induction h with
  | last l w hw _ => simp [List.filter_append, hnil w hw]
  | line l w rest rest' hw _ _ ih => simp [List.filter_append, hnil w hw, ih]

theorem Trimmed.count_nl {nl a b : List Char} (h : Trimmed nl a b) : countNl b = countNl a := by
  have hz : ∀ w : List Char, (∀ c ∈ w, isTrailWs c = true) → countNl w = 0 := by
    intro w hw
    simp only [countNl, List.count_eq_zero]
    intro hmem
    have := hw _ hmem
    simp [isTrailWs] at this
  induction h with
  | last l w hw _ => simp [countNl_append, hz w hw]
  | line l w rest rest' hw _ _ ih => simp [countNl_append, hz w hw, ih]

theorem strip_trimmed (s nl : List Char) (h : nl ≠ []) :
    Trimmed nl s (stripTrailingWhitespace s nl) := by
  unfold stripTrailingWhitespace
  rw [dif_neg h]
  simpa using stripGo_trimmed nl h s []

theorem strip_nonws (s nl : List Char) : nonws (stripTrailingWhitespace s nl) = nonws s := by
  by_cases h : nl = []
  · unfold stripTrailingWhitespace
    rw [dif_pos h]
    simp only [nonws, List.filter_filter]
    congr 1; funext c
    by_cases hc : isTrailWs c = true
    · simp [hc, isWs_of_isTrailWs hc]
    · simp [hc]
  · exact ((strip_trimmed s nl h).nonws).symm

theorem strip_keeps (s nl : List Char) :
    (stripTrailingWhitespace s nl).filter (fun c => !isTrailWs c) = s.filter (fun c => !isTrailWs c) := by
  by_cases h : nl = []
  · unfold stripTrailingWhitespace
    rw [dif_pos h]; simp [List.filter_filter]
  · exact (strip_trimmed s nl h).keeps

/-! ### Structural induction on `Doc` and determinism of content for layout-neutral documents -/

theorem Doc.size_pos (d : Doc) : 0 < d.size := by
  cases d <;> simp [Doc.size] <;> omega

theorem nonws_all_ws {t : List Char} (h : t.all isWs = true) : nonws t = [] :=
  nonws_eq_nil_of_all (fun c hc => List.all_eq_true.mp h c hc)

theorem content_group_inv {m : Mode} {d : Doc} {c : List Char} (h : Content m (.group d) c) :
    ∃ m', Content m' d c := by
  cases m
  · exact ⟨.flat, by simpa [Content] using h⟩
  · simp only [Content] at h
    rcases h with h | h
    · exact ⟨.flat, h⟩
    · exact ⟨.brk, h⟩

/-- For documents whose `Line` separators and `IfBreak` texts are pure whitespace, the
    non-whitespace content does not depend on any layout choice. -/
theorem content_det (d : Doc) : d.all layoutNeutralNode = true →
    ∀ m m' c c', Content m d c → Content m' d c' → nonws c = nonws c' := by
  induction d using Doc.induct with
  | hconcat ds ih =>
    intro hall m m' c c' h h'
    simp only [Doc.all, Bool.and_eq_true] at hall
    have hds := (Doc.allList_iff _ ds).mp hall.2
    simp only [Content] at h h'
    clear hall
    induction ds generalizing c c' with
    | nil => simp only [ContentList] at h h'; rw [h, h']
    | cons x xs ihx =>
      simp only [ContentList] at h h'
      obtain ⟨a, b, rfl, ha, hb⟩ := h
      obtain ⟨a', b', rfl, ha', hb'⟩ := h'
      rw [nonws_append, nonws_append,
        ih x (by simp) (hds x (by simp)) m m' a a' ha ha',
        ihx (fun d hd => ih d (by simp [hd])) b b' hb hb' (fun d hd => hds d (by simp [hd]))]
  | hindent off d ih =>
    intro hall m m' c c' h h'
    simp only [Doc.all, Bool.and_eq_true] at hall
    exact ih hall.2 m m' c c' (by simpa [Content] using h) (by simpa [Content] using h')
  | hgroup d ih =>
    intro hall m m' c c' h h'
    simp only [Doc.all, Bool.and_eq_true] at hall
    obtain ⟨m₁, h₁⟩ := content_group_inv h
    obtain ⟨m₂, h₂⟩ := content_group_inv h'
    exact ih hall.2 m₁ m₂ c c' h₁ h₂
  | hff d ih =>
    intro hall m m' c c' h h'
    simp only [Doc.all, Bool.and_eq_true] at hall
    exact ih hall.2 .flat .flat c c' (by simpa [Content] using h) (by simpa [Content] using h')
  | hleaf d hsz hnc =>
    intro hall m m' c c' h h'
    cases d <;> simp [Doc.size] at hsz
    case concat ds => exact absurd rfl (hnc ds)
    case indent off d => have := Doc.size_pos d; omega
    case group d => have := Doc.size_pos d; omega
    case forceFlat d => have := Doc.size_pos d; omega
    case line sep =>
      have hs : nonws sep = [] := nonws_all_ws (by simpa [Doc.all, layoutNeutralNode] using hall)
      cases m <;> cases m' <;> simp only [Content] at h h' <;> subst h <;> subst h' <;>
        first | rfl | (rw [hs]; rfl)
    case ifBreak t =>
      have hs : nonws t = [] := nonws_all_ws (by simpa [Doc.all, layoutNeutralNode] using hall)
      cases m <;> cases m' <;> simp only [Content] at h h' <;> subst h <;> subst h' <;>
        first | rfl | (rw [hs]; rfl)
    all_goals (cases m <;> cases m' <;> simp only [Content] at h h' <;> subst h <;> subst h' <;> rfl)

/-! ### `fits_flat` -/

theorem fitsWork_nil (b : Int) : fitsWork [] b = decide (b ≥ 0) := by
  rw [fitsWork]

theorem fitsWork_cons (x : Doc) (i : Bool) (rest : List (Doc × Bool)) (b : Int) :
    fitsWork ((x, i) :: rest) b =
      if b < 0 then false
      else match fitsStep x i b with
        | .ret r => r
        | .cont push b' => fitsWork (push ++ rest) b' := by
  rw [fitsWork]
  split
  · rfl
  · split <;> simp_all

mutual
/-- Width of a document laid out flat (`none`: it cannot be flat — hard line or line comment). -/
def flatWidth : Doc → Option Nat
  | .nil => some 0
  | .text s => some s.length
  | .concat ds => flatWidthList ds
  | .indent _ d => flatWidth d
  | .group d => flatWidth d
  | .forceFlat d => flatWidth d
  | .line sep => some sep.length
  | .hardline => none
  | .dedentHardline _ => none
  | .comments cs =>
    if cs.any (·.isLine) then none else some (cs.foldl (fun a c => a + (c.text.length + 1)) 0)
  | .ifBreak _ => some 0
  | .ifBreakPad _ => some 0
  | .pad w => some w
  | .ifFlatPad w => some w
  | .anchored s _ _ => some s.length
def flatWidthList : List Doc → Option Nat
  | [] => some 0
  | d :: ds =>
    match flatWidth d, flatWidthList ds with
    | some a, some b => some (a + b)
    | _, _ => none
end

theorem foldl_comment_budget (cs : List CommentDoc) (b : Int) (n : Nat) :
    cs.foldl (fun b c => b - ((c.text.length : Int) + 1)) (b - n)
      = b - ((cs.foldl (fun a c => a + (c.text.length + 1)) n : Nat) : Int) := by
  induction cs generalizing n with
  | nil => simp
  | cons c cs ih =>
    simp only [List.foldl_cons]
    have : b - (n : Int) - ((c.text.length : Int) + 1) = b - ((n + (c.text.length + 1) : Nat) : Int) := by
      push_cast; omega
    rw [this, ih]

/-- Soundness of the `in_start` part of `fits_flat`: if the scan accepts, the candidate can be laid
    out flat, its flat width fits the budget, and the scan continued with what was left. -/
theorem fitsWork_start_sound (d : Doc) : ∀ (rest : List (Doc × Bool)) (b : Int),
    fitsWork ((d, true) :: rest) b = true →
    ∃ w, flatWidth d = some w ∧ (w : Int) ≤ b ∧ fitsWork rest (b - w) = true := by
  induction d using Doc.induct with
  | hconcat ds ih =>
    intro rest b h
    rw [fitsWork_cons] at h
    split at h
    · cases h
    · rename_i hb
      simp only [fitsStep] at h
      simp only [flatWidth]
      clear hb
      induction ds generalizing b with
      | nil =>
        simp only [List.map_nil, List.nil_append] at h
        refine ⟨0, rfl, ?_, by simpa using h⟩
        cases rest with
        | nil => rw [fitsWork_nil] at h; simpa using h
        | cons r rs =>
          obtain ⟨x, i⟩ := r
          rw [fitsWork_cons] at h
          split at h
          · cases h
          · simp; omega
      | cons x xs ihx =>
        simp only [List.map_cons, List.cons_append] at h
        obtain ⟨w₁, hw₁, hle₁, h₁⟩ := ih x (by simp) _ _ h
        obtain ⟨w₂, hw₂, hle₂, h₂⟩ := ihx (fun d hd => ih d (by simp [hd])) _ h₁
        refine ⟨w₁ + w₂, by simp [flatWidthList, hw₁, hw₂], by push_cast; omega, ?_⟩
        have : b - ((w₁ + w₂ : Nat) : Int) = b - w₁ - w₂ := by push_cast; omega
        rw [this]; exact h₂
  | hindent off d ih =>
    intro rest b h
    rw [fitsWork_cons] at h
    split at h
    · cases h
    · simp only [fitsStep, List.singleton_append] at h
      simpa [flatWidth] using ih rest b h
  | hgroup d ih =>
    intro rest b h
    rw [fitsWork_cons] at h
    split at h
    · cases h
    · simp only [fitsStep, List.singleton_append] at h
      simpa [flatWidth] using ih rest b h
  | hff d ih =>
    intro rest b h
    rw [fitsWork_cons] at h
    split at h
    · cases h
    · simp only [fitsStep, List.singleton_append] at h
      simpa [flatWidth] using ih rest b h
  | hleaf d hsz hnc =>
    intro rest b h
    rw [fitsWork_cons] at h
    split at h
    · cases h
    · rename_i hb
      have hfin : ∀ (w : Nat), fitsWork rest (b - w) = true → (w : Int) ≤ b := by
        intro w hw
        cases rest with
        | nil => rw [fitsWork_nil] at hw; simp at hw; omega
        | cons r rs =>
          obtain ⟨x, i⟩ := r
          rw [fitsWork_cons] at hw
          split at hw
          · cases hw
          · omega
      cases d <;> simp only [fitsStep, List.nil_append, if_true] at h
      case concat ds => exact absurd rfl (hnc ds)
      case indent off d => have := Doc.size_pos d; simp [Doc.size] at hsz; omega
      case group d => have := Doc.size_pos d; simp [Doc.size] at hsz; omega
      case forceFlat d => have := Doc.size_pos d; simp [Doc.size] at hsz; omega
      case nil => exact ⟨0, rfl, by omega, by simpa using h⟩
      case text s => exact ⟨s.length, rfl, hfin _ h, h⟩
      case line sep => exact ⟨sep.length, rfl, hfin _ h, h⟩
      case hardline => simp at h
      case dedentHardline l => simp at h
      case comments cs =>
        by_cases hany : (cs.any (·.isLine)) = true
        · simp [hany] at h
        · simp only [hany] at h
          have := foldl_comment_budget cs b 0
          simp at this
          rw [this] at h
          exact ⟨_, by simp [flatWidth, hany], hfin _ h, h⟩
      case ifBreak t => exact ⟨0, rfl, by omega, by simpa using h⟩
      case ifBreakPad w => exact ⟨0, rfl, by omega, by simpa using h⟩
      case pad w => exact ⟨w, rfl, hfin _ h, h⟩
      case ifFlatPad w => exact ⟨w, rfl, hfin _ h, h⟩
      case anchored s sl sc => exact ⟨s.length, rfl, hfin _ h, h⟩
/-! ### Changing the newline string (simulation between two runs) -/

/-- Replace every `'\n'` of a text by the string `nl`. -/
def expandNl (nl t : List Char) : List Char := t.flatMap (fun c => if c = '\n' then nl else [c])

/-- `expandNl` on a reversed text. -/
def expR (nl r : List Char) : List Char := r.flatMap (fun c => if c = '\n' then nl.reverse else [c])

theorem expR_append (nl a b : List Char) : expR nl (a ++ b) = expR nl a ++ expR nl b := by
  simp [expR]

theorem expR_noNl (nl t : List Char) (h : countNl t = 0) : expR nl t = t := by
  induction t with
  | nil => rfl
  | cons c t ih =>
    rw [countNl_cons] at h
    have hc : c ≠ '\n' := by intro hc; simp [hc] at h
    have : expR nl (c :: t) = c :: expR nl t := by simp [expR, hc]
    rw [this, ih (by omega)]

theorem expR_spaces (nl : List Char) (n : Nat) : expR nl (spaces n) = spaces n :=
  expR_noNl nl _ (countNl_spaces n)

theorem expR_nl (nl r : List Char) : expR nl ('\n' :: r) = nl.reverse ++ expR nl r := by
  simp [expR]

theorem expR_reverse (nl r : List Char) : (expR nl r).reverse = expandNl nl r.reverse := by
  induction r with
  | nil => rfl
  | cons c r ih =>
    have h1 : expR nl (c :: r) = (if c = '\n' then nl.reverse else [c]) ++ expR nl r := by simp [expR]
    have h2 : expandNl nl (r.reverse ++ [c]) = expandNl nl r.reverse ++ (if c = '\n' then nl else [c]) := by
      simp [expandNl]
    rw [h1, List.reverse_cons, h2, List.reverse_append, ih]
    split <;> simp

/-- The truncation test of `DedentHardline` sees the same trailing spaces before and after
    expansion, provided the newline string does not end in a space. -/
theorem expR_trunc (nl : List Char) (hnl : ∃ c tl, nl.reverse = c :: tl ∧ c ≠ ' ') (want : Nat) (r : List Char) :
    ((want ≤ r.length ∧ (r.take want).all (· == ' ') = true)
      ↔ (want ≤ (expR nl r).length ∧ ((expR nl r).take want).all (· == ' ') = true))
    ∧ ((want ≤ r.length ∧ (r.take want).all (· == ' ') = true) →
        expR nl (r.drop want) = (expR nl r).drop want) := by
  obtain ⟨c0, tl, hrev, hne⟩ := hnl
  induction want generalizing r with
  | zero => simp
  | succ n ih =>
    cases r with
    | nil => simp [expR]
    | cons c r =>
      by_cases hc : c = '\n'
      · subst hc
        rw [expR_nl, hrev]
        simp [hne]
      · have h1 : expR nl (c :: r) = c :: expR nl r := by simp [expR, hc]
        rw [h1]
        by_cases hsp : c = ' '
        · subst hsp
          have := ih r
          simp only [List.length_cons, Nat.add_le_add_iff_right, List.take_succ_cons, List.all_cons,
            beq_self_eq_true, Bool.true_and, List.drop_succ_cons]
          exact this
        · simp [hsp]


/-- The state of the run with newline string `nl`, as a function of the state of the run with "\n". -/
def X (nl : List Char) (s : St) : St := { s with rout := expR nl s.rout }

/-- Hypotheses shared by the simulation lemmas: `o` renders with "\n", `o'` is `o` with `nl`. -/
structure NlSim (o o' : Opts) (nl : List Char) : Prop where
  base : o.newline = ['\n']
  other : o' = { o with newline := nl }
  tail : ∃ c tl, nl.reverse = c :: tl ∧ c ≠ ' '

theorem NlSim.pad {o o' : Opts} {nl : List Char} (h : NlSim o o' nl) (i : Int) : padFor i o' = padFor i o := by
  simp [padFor, h.other]

theorem X_flushPending (nl : List Char) (s : St) : flushPending (X nl s) = X nl (flushPending s) := by
  obtain ⟨rout, col, line, swallow, pending, ranchors⟩ := s
  cases pending <;> simp [flushPending, X, expR_append, expR_spaces]

theorem X_flushPendingWith {o o' : Opts} {nl : List Char} (h : NlSim o o' nl) (s : St) (i : Int) :
    flushPendingWith (X nl s) i o' = X nl (flushPendingWith s i o) := by
  obtain ⟨rout, col, line, swallow, pending, ranchors⟩ := s
  cases pending <;> simp [flushPendingWith, X, expR_append, expR_spaces, h.pad]

theorem X_writeText (nl : List Char) (s : St) (t : List Char) (ht : countNl t = 0) :
    writeText (X nl s) t = X nl (writeText s t) := by
  simp [writeText, X, ht, expR_append, expR_noNl nl t.reverse (by rw [countNl_reverse]; exact ht)]

theorem X_writeFlat (nl : List Char) (s : St) (t : List Char) (ht : countNl t = 0) :
    writeFlat (X nl s) t = X nl (writeFlat s t) := by
  simp [writeFlat, X, expR_append, expR_noNl nl t.reverse (by rw [countNl_reverse]; exact ht)]

theorem X_writeSpaces (nl : List Char) (s : St) (w : Nat) :
    writeSpaces (X nl s) w = X nl (writeSpaces s w) := by
  simp [writeSpaces, X, expR_append, expR_spaces]

theorem X_emitBreak {o o' : Opts} {nl : List Char} (h : NlSim o o' nl) (s : St) (i : Int) :
    emitBreak (X nl s) i o' = X nl (emitBreak s i o) := by
  obtain ⟨rout, col, line, swallow, pending, ranchors⟩ := s
  have hp := h.pad i
  have hn : o'.newline = nl := by simp [h.other]
  cases swallow <;> simp [emitBreak, X, hp, hn, h.base, expR_nl]

theorem X_dedentTruncate {o o' : Opts} {nl : List Char} (h : NlSim o o' nl) (s : St) (l : Nat) :
    dedentTruncate (X nl s) l o' = X nl (dedentTruncate s l o) := by
  have hiw : o'.indentWidth = o.indentWidth := by simp [h.other]
  have ht := expR_trunc nl h.tail (l * o.indentWidth) s.rout
  simp only [dedentTruncate, X, hiw]
  by_cases h1 : l * o.indentWidth > 0 ∧ s.pending.isNone = true
  · simp only [h1, and_self, if_true]
    by_cases h2 : l * o.indentWidth ≤ s.rout.length ∧ (s.rout.take (l * o.indentWidth)).all (· == ' ') = true
    · have h2' := ht.1.mp h2
      simp only [h2, h2', and_self, if_true, ht.2 h2]
    · have h2' : ¬ (l * o.indentWidth ≤ (expR nl s.rout).length
          ∧ ((expR nl s.rout).take (l * o.indentWidth)).all (· == ' ') = true) := fun hh => h2 (ht.1.mpr hh)
      simp only [h2, h2', if_false]
  · simp only [h1, if_false]

theorem X_pushNewlines {o o' : Opts} {nl : List Char} (h : NlSim o o' nl) (n : Nat) (s : St) :
    pushNewlines o' n (X nl s) = X nl (pushNewlines o n s) := by
  induction n generalizing s with
  | zero => rfl
  | succ n ih =>
    simp only [pushNewlines]
    rw [← ih]
    congr 1
    simp [X, h.base, h.other, expR_nl]

theorem X_lead_tail (nl : List Char) (pw : Nat) (A B : St) (h : A = X nl B) :
    ({ A with rout := spaces pw ++ A.rout, col := pw, pending := none } : St)
      = X nl { B with rout := spaces pw ++ B.rout, col := pw, pending := none } := by
  subst h; simp [X, expR_append, expR_spaces]

theorem X_commentLead {o o' : Opts} {nl : List Char} (h : NlSim o o' nl) (pw : Nat) (s : St) (c : CommentDoc) :
    commentLead o' pw (X nl s) c = X nl (commentLead o pw s c) := by
  obtain ⟨rout, col, line, swallow, pending, ranchors⟩ := s
  by_cases h1 : c.leadingNewlines = 0 ∧ swallow = false ∧ pending.isSome = false
  · by_cases h2 : col > 0
    · simp [commentLead, X, h1, h2, expR]
    · simp [commentLead, X, h1, h2]
  · have := X_pushNewlines h (max c.leadingNewlines 1 - if (swallow || pending.isSome) = true then 1 else 0)
      ⟨rout, col, line, false, pending, ranchors⟩
    simp only [commentLead, X, h1, if_false]
    exact X_lead_tail nl pw _ _ this

theorem X_commentAnchor (nl : List Char) (s : St) (c : CommentDoc) :
    commentAnchor (X nl s) c = X nl (commentAnchor s c) := by
  unfold commentAnchor; split <;> rfl

theorem X_commentBody {o o' : Opts} {nl : List Char} (h : NlSim o o' nl) (pw : Nat) (s : St) (c : CommentDoc)
    (hc : countNl c.text = 0) :
    commentBody o' pw (X nl s) c = X nl (commentBody o pw s c) := by
  have ht := expR_noNl nl c.text.reverse (by rw [countNl_reverse]; exact hc)
  simp only [commentBody, hc]
  split
  · simp [X, h.base, h.other, expR_nl, expR_append, ht]
  · simp [X, expR_append, ht]

theorem X_renderComments {o o' : Opts} {nl : List Char} (h : NlSim o o' nl) (i : Int) (cs : List CommentDoc)
    (s : St) (hcs : cs.all (fun c => countNl c.text == 0) = true) :
    renderComments o' i cs (X nl s) = X nl (renderComments o i cs s) := by
  unfold renderComments
  rw [h.pad]
  induction cs generalizing s with
  | nil => rfl
  | cons c cs ih =>
    simp only [List.all_cons, Bool.and_eq_true, beq_iff_eq] at hcs
    simp only [List.foldl_cons]
    have : commentStep o' (padFor i o) (X nl s) c = X nl (commentStep o (padFor i o) s c) := by
      unfold commentStep
      rw [X_commentLead h, X_commentAnchor, X_commentBody h _ _ _ hcs.1]
    rw [this]
    exact ih _ (by simpa using hcs.2)

theorem X_emitAnchored {o o' : Opts} {nl : List Char} (h : NlSim o o' nl) (s : St) (i : Int) (t : List Char)
    (sl sc : Nat) (ht : countNl t = 0) :
    emitAnchored (X nl s) i o' t sl sc = X nl (emitAnchored s i o t sl sc) := by
  simp only [emitAnchored]
  rw [X_flushPendingWith h]
  exact X_writeText nl
    { flushPendingWith s i o with
      swallow := false,
      ranchors := { dstLine := (flushPendingWith s i o).line, dstCol := (flushPendingWith s i o).col + 1,
                    srcLine := sl, srcCol := sc, text := t } :: (flushPendingWith s i o).ranchors } t ht

/-- One `render_frame` call commutes with the expansion of newlines. -/
theorem X_stepFrame {o o' : Opts} {nl : List Char} (h : NlSim o o' nl) (f : Frame) (fs : List Frame) (s : St)
    (hf : nlFreeNode f.doc = true) :
    stepFrame o' f fs (X nl s) = ((stepFrame o f fs s).1, X nl (stepFrame o f fs s).2) := by
  obtain ⟨i, m, d⟩ := f
  have hmw : o'.maxWidth = o.maxWidth := by simp [h.other]
  have ecol : (X nl s).col = s.col := rfl
  cases d <;> simp only [stepFrame, nlFreeNode, beq_iff_eq] at hf ⊢
  case text t => rw [X_flushPendingWith h, X_writeText nl _ t hf]
  case group d => rw [hmw, ecol]
  case line sep =>
    cases m
    · simp only []; rw [X_flushPending, X_writeFlat nl _ sep hf]
    · simp only []; rw [X_emitBreak h]
  case hardline =>
    cases m
    · simp only []; rw [X_flushPending, X_writeSpaces]
    · simp only []; rw [X_emitBreak h]
  case dedentHardline l =>
    cases m
    · simp only []; rw [X_flushPending, X_writeSpaces]
    · simp only []; rw [X_dedentTruncate h, X_emitBreak h]
  case comments cs => rw [X_renderComments h i cs s hf]
  case ifBreak t => split <;> simp only [X_flushPendingWith h, X_writeFlat nl _ t hf]
  case ifBreakPad w => split <;> simp only [X_flushPendingWith h, X_writeSpaces]
  case pad w => split <;> simp only [X_flushPendingWith h, X_writeSpaces]
  case ifFlatPad w => split <;> simp only [X_flushPendingWith h, X_writeSpaces]
  case anchored t sl sc => rw [X_emitAnchored h s i t sl sc hf]

theorem X_renderFrames {o o' : Opts} {nl : List Char} (h : NlSim o o' nl) (fs : List Frame) (s : St)
    (hfs : FramesAll nlFreeNode fs) :
    renderFrames o' fs (X nl s) = X nl (renderFrames o fs s) := by
  fun_induction renderFrames o fs s with
  | case1 s => rw [renderFrames_nil]
  | case2 f fs s ih =>
    rw [renderFrames_cons, X_stepFrame h f fs s (Doc.all_self (hfs f (by simp)))]
    exact ih (stepFrame_all _ o f fs s hfs)

/-! ### Stripping commutes with LF → CRLF -/

theorem stripGo_nil (nl : List Char) (hnl : nl ≠ []) (cur : List Char) :
    stripGo nl hnl [] cur = (trimEndR cur).reverse := by
  rw [stripGo]

theorem stripGo_cons (nl : List Char) (hnl : nl ≠ []) (c : Char) (s cur : List Char) :
    stripGo nl hnl (c :: s) cur =
      if nl.isPrefixOf (c :: s) then
        (trimEndR cur).reverse ++ nl ++ stripGo nl hnl ((c :: s).drop nl.length) []
      else stripGo nl hnl s (c :: cur) := by
  rw [stripGo]

theorem expandNl_cons (nl : List Char) (c : Char) (t : List Char) :
    expandNl nl (c :: t) = (if c = '\n' then nl else [c]) ++ expandNl nl t := by
  simp [expandNl]

theorem expandNl_append (nl a b : List Char) : expandNl nl (a ++ b) = expandNl nl a ++ expandNl nl b := by
  simp [expandNl]

theorem expandNl_noNl (nl t : List Char) (h : countNl t = 0) : expandNl nl t = t := by
  induction t with
  | nil => rfl
  | cons c t ih =>
    rw [countNl_cons] at h
    have hc : c ≠ '\n' := by intro hc; simp [hc] at h
    rw [expandNl_cons, ih (by omega)]; simp [hc]

theorem countNl_trimEndR (cur : List Char) (h : countNl cur = 0) : countNl (trimEndR cur).reverse = 0 := by
  rw [countNl_reverse]
  have hs : (trimEndR cur).Sublist cur := List.dropWhile_sublist _
  have := hs.count_le '\n'
  unfold countNl at h ⊢; omega

/-- Stripping commutes with replacing "\n" by "\r\n", for texts without `'\r'`. -/
theorem stripGo_crlf (s : List Char) : ∀ (cur : List Char), '\r' ∉ s → countNl cur = 0 →
    stripGo ['\r', '\n'] (by simp) (expandNl ['\r', '\n'] s) cur
      = expandNl ['\r', '\n'] (stripGo ['\n'] (by simp) s cur) := by
  induction s with
  | nil =>
    intro cur _ hcur
    have : expandNl ['\r', '\n'] [] = [] := rfl
    rw [this, stripGo_nil, stripGo_nil, expandNl_noNl _ _ (countNl_trimEndR cur hcur)]
  | cons c s ih =>
    intro cur hcr hcur
    have hcr' : '\r' ∉ s := fun h => hcr (by simp [h])
    have hc : c ≠ '\r' := fun h => hcr (by simp [h])
    by_cases hn : c = '\n'
    · subst hn
      have e1 : expandNl ['\r', '\n'] ('\n' :: s) = '\r' :: '\n' :: expandNl ['\r', '\n'] s := by
        simp [expandNl_cons]
      rw [e1, stripGo_cons ['\r', '\n'], stripGo_cons ['\n']]
      simp only [List.isPrefixOf, beq_self_eq_true, Bool.true_and, if_true, List.length_cons,
        List.length_nil, List.drop_succ_cons, List.drop_zero]
      rw [ih [] hcr' rfl, expandNl_append, expandNl_append,
        expandNl_noNl _ _ (countNl_trimEndR cur hcur)]
      simp [expandNl]
    · have e1 : expandNl ['\r', '\n'] (c :: s) = c :: expandNl ['\r', '\n'] s := by
        simp [expandNl_cons, hn]
      rw [e1, stripGo_cons ['\r', '\n'], stripGo_cons ['\n']]
      have p1 : List.isPrefixOf ['\r', '\n'] (c :: expandNl ['\r', '\n'] s) = false := by
        simp [List.isPrefixOf, Ne.symm hc]
      have p2 : List.isPrefixOf ['\n'] (c :: s) = false := by
        simp [List.isPrefixOf, Ne.symm hn]
      rw [p1, p2]
      simp only [Bool.false_eq_true, if_false]
      exact ih (c :: cur) hcr' (by rw [countNl_cons, hcur]; simp [hn])

theorem strip_crlf (t : List Char) (h : '\r' ∉ t) :
    stripTrailingWhitespace (expandNl ['\r', '\n'] t) ['\r', '\n']
      = expandNl ['\r', '\n'] (stripTrailingWhitespace t ['\n']) := by
  unfold stripTrailingWhitespace
  rw [dif_neg (by simp), dif_neg (by simp)]
  exact stripGo_crlf t [] h rfl


/-! ### The decidable forms of the option hypotheses (what the driver evaluates) -/

theorem nlWsB_iff (o : Opts) : nlWsB o = true ↔ NlWs o := by
  simp [nlWsB, NlWs, List.all_eq_true]

theorem nlOkB_iff (o : Opts) : nlOkB o = true ↔ NlOK o := by
  unfold nlOkB NlOK
  constructor
  · intro h
    cases hr : o.newline.reverse with
    | nil => simp [hr] at h
    | cons c pre =>
      simp only [hr, Bool.and_eq_true, beq_iff_eq] at h
      refine ⟨pre.reverse, ?_, by rw [countNl_reverse]; exact h.2⟩
      have := congrArg List.reverse hr
      simpa [h.1] using this
  · rintro ⟨pre, hp, h0⟩
    simp [hp, countNl_reverse, h0]

end VerylModel.Pretty
