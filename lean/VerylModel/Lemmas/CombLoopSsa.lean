import VerylModel.Lemmas.CombLoopAtoms
/-!
`ssa_exact`: the SSA store with phi merges (`Store`, `ssaStmt`, `ssaEdges`) computes the same
dependency edges as the denotational live-in analysis (`liveIn`, `blockEdges`), for any key
granularity.
-/
namespace VerylModel.CombLoop

section
variable {κ : Type} [DecidableEq κ]

/-- Same elements. -/
def SEq (A B : List κ) : Prop := ∀ x, x ∈ A ↔ x ∈ B

local infix:50 " ≃ " => SEq

omit [DecidableEq κ] in
theorem SEq.refl (A : List κ) : A ≃ A := fun _ => Iff.rfl
omit [DecidableEq κ] in
theorem SEq.symm {A B : List κ} (h : A ≃ B) : B ≃ A := fun x => (h x).symm
omit [DecidableEq κ] in
theorem SEq.trans {A B C : List κ} (h : A ≃ B) (h' : B ≃ C) : A ≃ C := fun x => (h x).trans (h' x)

namespace Store

/-! ### the table of sources -/

theorem table_append (vs : List (Ver κ)) (v : Ver κ) :
    table (vs ++ [v]) = table vs ++ [evalVer (table vs) v] := by
  unfold table
  rw [List.foldl_append]
  rfl

theorem foldl_table_length (ws : List (Ver κ)) (init : List (List κ × List κ)) :
    (ws.foldl (fun tbl v => tbl ++ [evalVer tbl v]) init).length = init.length + ws.length := by
  induction ws generalizing init with
  | nil => simp
  | cons w ws ih => simp only [List.foldl_cons, ih]; simp; omega

theorem foldl_table_prefix (ws : List (Ver κ)) (init : List (List κ × List κ)) :
    ∃ ext, ws.foldl (fun tbl v => tbl ++ [evalVer tbl v]) init = init ++ ext := by
  induction ws generalizing init with
  | nil => exact ⟨[], by simp⟩
  | cons w ws ih =>
    obtain ⟨ext, h⟩ := ih (init ++ [evalVer init w])
    exact ⟨[evalVer init w] ++ ext, by simp only [List.foldl_cons, h, List.append_assoc]⟩

theorem table_length (vs : List (Ver κ)) : (table vs).length = vs.length := by
  unfold table
  rw [foldl_table_length]; simp

theorem table_prefix (vs ws : List (Ver κ)) : ∃ ext, table (vs ++ ws) = table vs ++ ext := by
  unfold table
  rw [List.foldl_append]
  exact foldl_table_prefix ws _

/-- Sources of a version: `(with, without)` the entry keys reached through phi nodes only. -/
def val (s : Store κ) (v : Nat) : List κ × List κ := (table s.vers).getD v ([], [])

/-- `s'` has all versions of `s` (and possibly more). -/
def Ext (s s' : Store κ) : Prop := ∃ ws, s'.vers = s.vers ++ ws

omit [DecidableEq κ] in
theorem Ext.refl (s : Store κ) : Ext s s := ⟨[], by simp⟩

omit [DecidableEq κ] in
theorem Ext.trans {s s' s'' : Store κ} (h : Ext s s') (h' : Ext s' s'') : Ext s s'' := by
  obtain ⟨w, h⟩ := h
  obtain ⟨w', h'⟩ := h'
  exact ⟨w ++ w', by rw [h', h, List.append_assoc]⟩

omit [DecidableEq κ] in
theorem Ext.length_le {s s' : Store κ} (h : Ext s s') : s.vers.length ≤ s'.vers.length := by
  obtain ⟨w, h⟩ := h
  rw [h]; simp

theorem Ext.val {s s' : Store κ} (h : Ext s s') {v : Nat} (hv : v < s.vers.length) :
    s'.val v = s.val v := by
  obtain ⟨w, h⟩ := h
  obtain ⟨ext, he⟩ := table_prefix s.vers w
  unfold Store.val
  rw [h, he, List.getD_eq_getElem?_getD, List.getD_eq_getElem?_getD,
    List.getElem?_append_left (by rw [table_length]; exact hv)]

theorem val_new (vs : List (Ver κ)) (v : Ver κ) :
    (table (vs ++ [v])).getD vs.length ([], []) = evalVer (table vs) v := by
  rw [table_append, List.getD_eq_getElem?_getD]
  have : vs.length = (table vs).length := (table_length vs).symm
  rw [this]
  simp

/-- The sources a read of `k` sees. -/
def rd (s : Store κ) (k : κ) : List κ × List κ :=
  match s.cur.lookup k with
  | some v => s.val v
  | none => ([k], [])

/-- Well-formed store: bindings and entries point at existing versions; an entry version has the
sources `([k], [])`. -/
structure OK (s : Store κ) : Prop where
  cur_lt : ∀ k v, s.cur.lookup k = some v → v < s.vers.length
  ent : ∀ k v, s.entries.lookup k = some v → v < s.vers.length ∧ s.val v = ([k], [])

theorem ok_empty : OK (Store.empty : Store κ) :=
  ⟨fun _ _ h => by simp [Store.empty] at h, fun _ _ h => by simp [Store.empty] at h⟩

/-! ### operations -/

theorem val_last {s s' : Store κ} {v : Ver κ} (h : s'.vers = s.vers ++ [v]) :
    s'.val s.vers.length = evalVer (table s.vers) v := by
  unfold Store.val
  rw [h, val_new]

/-- Appending one version keeps a store well formed. -/
theorem ok_extend {s s' : Store κ} (hs : OK s) {v : Ver κ} (hv : s'.vers = s.vers ++ [v])
    (hc : s'.cur = s.cur) (he : s'.entries = s.entries) : OK s' := by
  have hext : Ext s s' := ⟨[v], hv⟩
  refine ⟨?_, ?_⟩
  · intro k w h
    rw [hc] at h
    have := hs.cur_lt k w h
    rw [hv]; simp; omega
  · intro k w h
    rw [he] at h
    obtain ⟨h1, h2⟩ := hs.ent k w h
    exact ⟨by rw [hv]; simp; omega, (hext.val h1).trans h2⟩

theorem entry_spec {s : Store κ} (hs : OK s) (k : κ) :
    OK (s.entry k).1 ∧ Ext s (s.entry k).1 ∧ (s.entry k).1.cur = s.cur ∧
      (s.entry k).2 < (s.entry k).1.vers.length ∧ (s.entry k).1.val (s.entry k).2 = ([k], []) := by
  cases hl : s.entries.lookup k with
  | some v =>
    have e : s.entry k = (s, v) := by simp [Store.entry, hl]
    obtain ⟨h1, h2⟩ := hs.ent k v hl
    rw [e]
    exact ⟨hs, Ext.refl s, rfl, h1, h2⟩
  | none =>
    have e : s.entry k = ((⟨s.vers ++ [.entry k], (k, s.vers.length) :: s.entries, s.cur⟩ : Store κ),
        s.vers.length) := by simp [Store.entry, hl]
    rw [e]
    have hvers : (⟨s.vers ++ [.entry k], (k, s.vers.length) :: s.entries, s.cur⟩ : Store κ).vers =
        s.vers ++ [.entry k] := rfl
    have hext : Ext s (⟨s.vers ++ [.entry k], (k, s.vers.length) :: s.entries, s.cur⟩ : Store κ) :=
      ⟨[.entry k], rfl⟩
    have hval := val_last hvers
    refine ⟨⟨?_, ?_⟩, hext, rfl, by simp, hval⟩
    · intro k' v h
      have := hs.cur_lt k' v h
      simp; omega
    · intro k' v h
      simp only [List.lookup_cons] at h
      split at h
      · rename_i heq
        have hk : k' = k := by simpa using heq
        subst hk
        have hv : v = s.vers.length := (Option.some.inj h).symm
        subst hv
        exact ⟨by simp, hval⟩
      · obtain ⟨h1, h2⟩ := hs.ent k' v h
        exact ⟨by simp; omega, (hext.val h1).trans h2⟩

theorem rd_of_cur_eq {s s' : Store κ} (hs : OK s) (he : Ext s s') (hc : s'.cur = s.cur) (k : κ) :
    s'.rd k = s.rd k := by
  unfold Store.rd
  rw [hc]
  split
  · rename_i v hv
    exact he.val (hs.cur_lt k v hv)
  · rfl

theorem read_spec {s : Store κ} (hs : OK s) (k : κ) :
    OK (s.read k).1 ∧ Ext s (s.read k).1 ∧ (s.read k).1.cur = s.cur ∧
      (s.read k).2 < (s.read k).1.vers.length ∧ (s.read k).1.val (s.read k).2 = s.rd k := by
  cases h : s.cur.lookup k with
  | some v =>
    have e1 : s.read k = (s, v) := by simp [Store.read, h]
    have e2 : s.rd k = s.val v := by simp [Store.rd, h]
    rw [e1, e2]
    exact ⟨hs, Ext.refl s, rfl, hs.cur_lt k v h, rfl⟩
  | none =>
    have e1 : s.read k = s.entry k := by simp [Store.read, h]
    have e2 : s.rd k = ([k], []) := by simp [Store.rd, h]
    rw [e1, e2]
    exact entry_spec hs k

theorem readMany_spec {s : Store κ} (hs : OK s) (ks : List κ) :
    OK (s.readMany ks).1 ∧ Ext s (s.readMany ks).1 ∧ (s.readMany ks).1.cur = s.cur ∧
      (∀ v ∈ (s.readMany ks).2, v < (s.readMany ks).1.vers.length) ∧
      (∀ x, (∃ v ∈ (s.readMany ks).2, x ∈ ((s.readMany ks).1.val v).1) ↔
        ∃ k ∈ ks, x ∈ (s.rd k).1) := by
  induction ks generalizing s with
  | nil => exact ⟨hs, Ext.refl s, rfl, by simp [readMany], by simp [readMany]⟩
  | cons k ks ih =>
    obtain ⟨h1, h2, h3, h4, h5⟩ := read_spec hs k
    obtain ⟨g1, g2, g3, g4, g5⟩ := ih h1
    simp only [readMany]
    refine ⟨g1, h2.trans g2, g3.trans h3, ?_, ?_⟩
    · intro v hv
      rcases List.mem_cons.1 hv with rfl | hv
      · exact Nat.lt_of_lt_of_le h4 g2.length_le
      · exact g4 v hv
    · intro x
      have hrd : ∀ k', (s.read k).1.rd k' = s.rd k' := rd_of_cur_eq hs h2 h3
      constructor
      · rintro ⟨v, hv, hx⟩
        rcases List.mem_cons.1 hv with rfl | hv
        · rw [g2.val h4, h5] at hx
          exact ⟨k, List.mem_cons_self .., hx⟩
        · obtain ⟨k', hk', hx'⟩ := (g5 x).1 ⟨v, hv, hx⟩
          exact ⟨k', List.mem_cons_of_mem _ hk', by rw [← hrd k']; exact hx'⟩
      · rintro ⟨k', hk', hx⟩
        rcases List.mem_cons.1 hk' with rfl | hk'
        · refine ⟨_, List.mem_cons_self .., ?_⟩
          rw [g2.val h4, h5]; exact hx
        · obtain ⟨v, hv, hx'⟩ := (g5 x).2 ⟨k', hk', by rw [hrd k']; exact hx⟩
          exact ⟨v, List.mem_cons_of_mem _ hv, hx'⟩

theorem definition_spec {s : Store κ} (hs : OK s) (srcs : List Nat) :
    OK (s.definition srcs).1 ∧ Ext s (s.definition srcs).1 ∧ (s.definition srcs).1.cur = s.cur ∧
      (s.definition srcs).2 < (s.definition srcs).1.vers.length ∧
      (∀ x, x ∈ ((s.definition srcs).1.val (s.definition srcs).2).1 ↔ ∃ v ∈ srcs, x ∈ (s.val v).1) ∧
      ((s.definition srcs).1.val (s.definition srcs).2).2 =
        ((s.definition srcs).1.val (s.definition srcs).2).1 := by
  have hvers : (s.definition srcs).1.vers = s.vers ++ [.defn (addNew [] srcs)] := rfl
  have hext : Ext s (s.definition srcs).1 := ⟨_, hvers⟩
  have hval : (s.definition srcs).1.val (s.definition srcs).2 =
      evalVer (table s.vers) (.defn (addNew [] srcs)) := val_last hvers
  refine ⟨ok_extend hs hvers rfl rfl, hext, rfl, by rw [hvers]; simp [Store.definition], ?_, ?_⟩
  · intro x
    rw [hval]
    simp only [evalVer, mem_unions, List.mem_map]
    constructor
    · rintro ⟨_, ⟨v, hv, rfl⟩, hx⟩
      exact ⟨v, (mem_addNew.1 hv).resolve_left (by simp), hx⟩
    · rintro ⟨v, hv, hx⟩
      exact ⟨_, ⟨v, mem_addNew.2 (Or.inr hv), rfl⟩, hx⟩
  · rw [hval]; rfl

theorem bind_ok {s : Store κ} (hs : OK s) (k : κ) {v : Nat} (hv : v < s.vers.length) :
    OK (s.bind k v) := by
  refine ⟨?_, hs.ent⟩
  intro k' v' h
  simp only [Store.bind, List.lookup_cons] at h
  split at h
  · have : v' = v := (Option.some.inj h).symm
    subst this; exact hv
  · exact hs.cur_lt k' v' h

theorem rd_bind (s : Store κ) (k : κ) (v : Nat) (k' : κ) :
    (s.bind k v).rd k' = if k' = k then s.val v else s.rd k' := by
  unfold Store.rd Store.bind Store.val
  simp only [List.lookup_cons]
  by_cases h : k' = k
  · subst h; simp
  · have : (k' == k) = false := by simpa using h
    simp only [this, h, if_false]

theorem phi_spec {s : Store κ} (hs : OK s) (ins : List Nat)
    (hlt : ∀ v ∈ ins, v < s.vers.length) :
    OK (s.phi ins).1 ∧ Ext s (s.phi ins).1 ∧ (s.phi ins).1.cur = s.cur ∧
      (s.phi ins).2 < (s.phi ins).1.vers.length ∧
      (∀ x, x ∈ ((s.phi ins).1.val (s.phi ins).2).1 ↔ ∃ v ∈ ins, x ∈ (s.val v).1) ∧
      (∀ x, x ∈ ((s.phi ins).1.val (s.phi ins).2).2 ↔ ∃ v ∈ ins, x ∈ (s.val v).2) := by
  have hmem : ∀ v, v ∈ addNew [] ins ↔ v ∈ ins := fun v => by simp [mem_addNew]
  by_cases hone : ∃ v, addNew [] ins = [v]
  · obtain ⟨v, hv⟩ := hone
    have e : s.phi ins = (s, v) := by simp [Store.phi, hv]
    have hv' : ∀ w, w ∈ ins ↔ w = v := fun w => by rw [← hmem w, hv]; simp
    rw [e]
    refine ⟨hs, Ext.refl s, rfl, hlt v ((hv' v).2 rfl), ?_, ?_⟩
    · intro x
      constructor
      · exact fun h => ⟨v, (hv' v).2 rfl, h⟩
      · rintro ⟨w, hw, hx⟩
        rw [(hv' w).1 hw] at hx; exact hx
    · intro x
      constructor
      · exact fun h => ⟨v, (hv' v).2 rfl, h⟩
      · rintro ⟨w, hw, hx⟩
        rw [(hv' w).1 hw] at hx; exact hx
  · have e : s.phi ins = ((⟨s.vers ++ [.phi (addNew [] ins)], s.entries, s.cur⟩ : Store κ),
        s.vers.length) := by
      unfold Store.phi
      split
      · rename_i v hv
        exact absurd ⟨v, hv⟩ hone
      · rfl
    rw [e]
    have hvers : (⟨s.vers ++ [.phi (addNew [] ins)], s.entries, s.cur⟩ : Store κ).vers =
        s.vers ++ [.phi (addNew [] ins)] := rfl
    have hval := val_last hvers
    refine ⟨ok_extend hs hvers rfl rfl, ⟨_, hvers⟩, rfl, by simp, ?_, ?_⟩
    · intro x
      rw [hval]
      simp only [evalVer, mem_unions, List.mem_map]
      constructor
      · rintro ⟨_, ⟨v, hv, rfl⟩, hx⟩
        exact ⟨v, (hmem v).1 hv, hx⟩
      · rintro ⟨v, hv, hx⟩
        exact ⟨_, ⟨v, (hmem v).2 hv, rfl⟩, hx⟩
    · intro x
      rw [hval]
      simp only [evalVer, mem_unions, List.mem_map]
      constructor
      · rintro ⟨_, ⟨v, hv, rfl⟩, hx⟩
        exact ⟨v, (hmem v).1 hv, hx⟩
      · rintro ⟨v, hv, hx⟩
        exact ⟨_, ⟨v, (hmem v).2 hv, rfl⟩, hx⟩

/-! ### the store realises an environment -/

/-- Every key reads, in the store, the sources the environment gives it. -/
def Inv (s : Store κ) (env : Env κ) : Prop :=
  ∀ k, (s.rd k).1 ≃ lookup env k ∧ (s.rd k).2 ≃ (env k).deps

/-- The control versions `ctrl` carry the control dependencies `c`. -/
def CtrlRel (s : Store κ) (ctrl : List Nat) (c : List κ) : Prop :=
  (∀ v ∈ ctrl, v < s.vers.length) ∧ ∀ x, x ∈ c ↔ ∃ v ∈ ctrl, x ∈ (s.val v).1

theorem CtrlRel.ext {s s' : Store κ} {ctrl : List Nat} {c : List κ} (h : CtrlRel s ctrl c)
    (he : Ext s s') : CtrlRel s' ctrl c := by
  refine ⟨fun v hv => Nat.lt_of_lt_of_le (h.1 v hv) he.length_le, fun x => ?_⟩
  rw [h.2 x]
  constructor
  · rintro ⟨v, hv, hx⟩
    exact ⟨v, hv, by rw [he.val (h.1 v hv)]; exact hx⟩
  · rintro ⟨v, hv, hx⟩
    exact ⟨v, hv, by rw [← he.val (h.1 v hv)]; exact hx⟩

theorem Inv.ext {s s' : Store κ} {env : Env κ} (h : Inv s env) (hs : OK s) (he : Ext s s')
    (hc : s'.cur = s.cur) : Inv s' env := by
  intro k
  rw [rd_of_cur_eq hs he hc k]
  exact h k

theorem inv_empty : Inv (Store.empty : Store κ) Env.init := by
  intro k
  simp [Store.rd, Store.empty, lookup, Env.init, SEq]

end Store

open Store

theorem evalReads_spec (keysOf : Acc → List κ) {s : Store κ} {env : Env κ} (hs : OK s)
    (hi : Inv s env) (rs : List Acc) :
    OK (evalReads keysOf s rs).1 ∧ Ext s (evalReads keysOf s rs).1 ∧
      (evalReads keysOf s rs).1.cur = s.cur ∧
      (∀ v ∈ (evalReads keysOf s rs).2, v < (evalReads keysOf s rs).1.vers.length) ∧
      (∀ x, (∃ v ∈ (evalReads keysOf s rs).2, x ∈ ((evalReads keysOf s rs).1.val v).1) ↔
        x ∈ readAll keysOf env rs) := by
  unfold evalReads
  obtain ⟨h1, h2, h3, h4, h5⟩ := readMany_spec hs (addNew [] (rs.flatMap keysOf))
  refine ⟨h1, h2, h3, h4, fun x => ?_⟩
  rw [h5 x, mem_readAll]
  constructor
  · rintro ⟨k, hk, hx⟩
    have hk' := (mem_addNew.1 hk).resolve_left (by simp)
    obtain ⟨r, hr, hkr⟩ := List.mem_flatMap.1 hk'
    exact ⟨r, hr, k, hkr, ((hi k).1 x).1 hx⟩
  · rintro ⟨r, hr, k, hkr, hx⟩
    exact ⟨k, mem_addNew.2 (Or.inr (List.mem_flatMap.2 ⟨r, hr, hkr⟩)), ((hi k).1 x).2 hx⟩

/-- Rebinding some keys to `⟨false, D⟩` does not change what the statement reads, as a set, once
`D` contains it. -/
theorem reads_update (keysOf : Acc → List κ) (c D : List κ) (rs : List Acc) (env : Env κ)
    (h : ∀ x, x ∈ union c (readAll keysOf env rs) ↔ x ∈ D) (k : κ) :
    ∀ x, x ∈ union c (readAll keysOf (fun k' => if k' = k then ⟨false, D⟩ else env k') rs) ↔
      x ∈ D := by
  intro x
  rw [mem_union, mem_readAll]
  constructor
  · rintro (hx | ⟨r, hr, k', hk', hx⟩)
    · exact (h x).1 (mem_union.2 (Or.inl hx))
    · by_cases hkk : k' = k
      · subst hkk
        simpa [lookup] using hx
      · have : x ∈ lookup env k' := by simpa [lookup, hkk] using hx
        exact (h x).1 (mem_union.2 (Or.inr (mem_readAll.2 ⟨r, hr, k', hk', this⟩)))
  · intro hx
    rcases mem_union.1 ((h x).2 hx) with hc | hr
    · exact Or.inl hc
    · obtain ⟨r, hr, k', hk', hx'⟩ := mem_readAll.1 hr
      refine Or.inr ⟨r, hr, k', hk', ?_⟩
      by_cases hkk : k' = k
      · subst hkk
        simpa [lookup] using hx
      · simpa [lookup, hkk] using hx'

theorem writeKeys_spec (keysOf : Acc → List κ) (rs : List Acc) (ctrl : List Nat) (c D : List κ)
    (ks : List κ) :
    ∀ (s : Store κ) (env : Env κ), OK s → CtrlRel s ctrl c → Inv s env →
      (∀ x, x ∈ union c (readAll keysOf env rs) ↔ x ∈ D) →
      OK (writeKeys keysOf rs ctrl s ks) ∧ Ext s (writeKeys keysOf rs ctrl s ks) ∧
        (∃ pre, (writeKeys keysOf rs ctrl s ks).cur = pre ++ s.cur) ∧
        Inv (writeKeys keysOf rs ctrl s ks) (fun k' => if k' ∈ ks then ⟨false, D⟩ else env k') := by
  induction ks with
  | nil =>
    intro s env hs _ hi _
    exact ⟨hs, Ext.refl s, ⟨[], rfl⟩, by simpa [writeKeys] using hi⟩
  | cons k ks ih =>
    intro s env hs hc hi hD
    obtain ⟨h1, h2, h3, h4, h5⟩ := evalReads_spec keysOf hs hi rs
    obtain ⟨g1, g2, g3, g4, g5, g6⟩ :=
      definition_spec h1 (ctrl ++ (evalReads keysOf s rs).2)
    -- the store after binding `k`
    have hb := bind_ok g1 k g4
    have hext : Ext s (((evalReads keysOf s rs).1.definition
        (ctrl ++ (evalReads keysOf s rs).2)).1.bind k
        ((evalReads keysOf s rs).1.definition (ctrl ++ (evalReads keysOf s rs).2)).2) :=
      ⟨_, (h2.trans g2).choose_spec⟩
    have hc1 := hc.ext h2
    -- sources of the new definition = D
    have hsrc : ∀ x, x ∈ (((evalReads keysOf s rs).1.definition
        (ctrl ++ (evalReads keysOf s rs).2)).1.val
        ((evalReads keysOf s rs).1.definition (ctrl ++ (evalReads keysOf s rs).2)).2).1 ↔ x ∈ D := by
      intro x
      rw [g5 x, ← hD x, mem_union, hc1.2 x, ← h5 x]
      constructor
      · rintro ⟨v, hv, hx⟩
        rcases List.mem_append.1 hv with hv | hv
        · exact Or.inl ⟨v, hv, hx⟩
        · exact Or.inr ⟨v, hv, hx⟩
      · rintro (⟨v, hv, hx⟩ | ⟨v, hv, hx⟩)
        · exact ⟨v, List.mem_append.2 (Or.inl hv), hx⟩
        · exact ⟨v, List.mem_append.2 (Or.inr hv), hx⟩
    have hinv : Inv (((evalReads keysOf s rs).1.definition
        (ctrl ++ (evalReads keysOf s rs).2)).1.bind k
        ((evalReads keysOf s rs).1.definition (ctrl ++ (evalReads keysOf s rs).2)).2)
        (fun k' => if k' = k then ⟨false, D⟩ else env k') := by
      intro k'
      rw [rd_bind]
      by_cases hkk : k' = k
      · subst hkk
        simp only [if_true]
        refine ⟨fun x => ?_, fun x => ?_⟩
        · rw [hsrc x]; simp [lookup]
        · rw [g6, hsrc x]
      · have hl : lookup (fun k'' => if k'' = k then (⟨false, D⟩ : DV κ) else env k'') k' =
            lookup env k' := by simp [lookup, hkk]
        simp only [hkk, if_false]
        rw [rd_of_cur_eq hs (h2.trans g2) (g3.trans h3) k', hl]
        exact hi k'
    obtain ⟨i1, i2, ⟨pre, i3⟩, i4⟩ := ih _ _ hb (hc.ext hext) hinv (reads_update keysOf c D rs env hD k)
    simp only [writeKeys]
    refine ⟨i1, hext.trans i2, ⟨pre ++ [(k, ((evalReads keysOf s rs).1.definition
      (ctrl ++ (evalReads keysOf s rs).2)).2)], ?_⟩, ?_⟩
    · rw [i3]
      simp only [Store.bind, g3, h3, List.append_assoc, List.singleton_append]
    · have hfun : (fun k' => if k' ∈ ks then (⟨false, D⟩ : DV κ) else
          if k' = k then ⟨false, D⟩ else env k') =
          (fun k' => if k' ∈ k :: ks then (⟨false, D⟩ : DV κ) else env k') := by
        funext k'
        by_cases hk1 : k' ∈ ks
        · simp [hk1]
        · by_cases hkk : k' = k
          · simp [hkk]
          · simp [hk1, hkk]
      rw [hfun] at i4
      exact i4

/-! ### merging two branches -/

theorem lookup_append_none {β : Type} {pre base : List (κ × β)} {k : κ}
    (h : (pre ++ base).lookup k = none) : base.lookup k = none := by
  induction pre with
  | nil => simpa using h
  | cons e pre ih =>
    obtain ⟨k', v⟩ := e
    simp only [List.cons_append, List.lookup_cons] at h
    split at h
    · cases h
    · exact ih h

/-- The environment after `if … { t } else { e }` given the environments after the branches. -/
def mergedEnv (et ee : Env κ) : Env κ :=
  fun k => ⟨(et k).retain || (ee k).retain, union (et k).deps (ee k).deps⟩

theorem mem_lookup_merged {et ee : Env κ} {k x : κ} :
    x ∈ lookup (mergedEnv et ee) k ↔ x ∈ lookup et k ∨ x ∈ lookup ee k := by
  simp only [mem_lookup, mergedEnv, mem_union, Bool.or_eq_true]
  constructor
  · rintro ((h | h) | ⟨h | h, rfl⟩)
    · exact Or.inl (Or.inl h)
    · exact Or.inr (Or.inl h)
    · exact Or.inl (Or.inr ⟨h, rfl⟩)
    · exact Or.inr (Or.inr ⟨h, rfl⟩)
  · rintro ((h | ⟨h, rfl⟩) | (h | ⟨h, rfl⟩))
    · exact Or.inl (Or.inl h)
    · exact Or.inr ⟨Or.inl h, rfl⟩
    · exact Or.inl (Or.inr h)
    · exact Or.inr ⟨Or.inr h, rfl⟩

/-- `V` is what the merged environment prescribes for `k`. -/
def Tgt (et ee : Env κ) (k : κ) (V : List κ × List κ) : Prop :=
  V.1 ≃ lookup (mergedEnv et ee) k ∧ V.2 ≃ (mergedEnv et ee k).deps

/-- A branch either left `k` alone (it still reads the checkpoint's sources) or rebound it. -/
theorem branch_contrib {sb sx : Store κ} (hb : OK sb) (hx : OK sx) (he : Ext sb sx)
    (hpre : ∃ pre, sx.cur = pre ++ sb.cur) (k : κ) :
    (changed sx.cur sb.cur k = [] ∧ sx.rd k = sb.rd k) ∨
    (∃ v, changed sx.cur sb.cur k = [v] ∧ v < sx.vers.length ∧ sx.val v = sx.rd k) := by
  unfold changed
  cases hl : sx.cur.lookup k with
  | none =>
    obtain ⟨pre, hp⟩ := hpre
    have hbn : sb.cur.lookup k = none := lookup_append_none (by rw [← hp]; exact hl)
    exact Or.inl ⟨rfl, by simp [Store.rd, hl, hbn]⟩
  | some v =>
    by_cases hbv : sb.cur.lookup k = some v
    · refine Or.inl ⟨by simp [hbv], ?_⟩
      simp only [Store.rd, hl, hbv]
      exact he.val (hb.cur_lt k v hbv)
    · refine Or.inr ⟨v, by simp [hbv], hx.cur_lt k v hl, ?_⟩
      simp [Store.rd, hl]

theorem fallback_spec {sb s : Store κ} (hb : OK sb) (hs : OK s) (he : Ext sb s) (k : κ) :
    OK (s.fallback sb.cur k).1 ∧ Ext s (s.fallback sb.cur k).1 ∧
      (s.fallback sb.cur k).1.cur = s.cur ∧
      (s.fallback sb.cur k).2 < (s.fallback sb.cur k).1.vers.length ∧
      (s.fallback sb.cur k).1.val (s.fallback sb.cur k).2 = sb.rd k := by
  unfold Store.fallback
  cases hl : sb.cur.lookup k with
  | some v =>
    have hv := hb.cur_lt k v hl
    refine ⟨hs, Ext.refl s, rfl, Nat.lt_of_lt_of_le hv he.length_le, ?_⟩
    simp only [Store.rd, hl]
    exact he.val hv
  | none =>
    have : sb.rd k = ([k], []) := by simp [Store.rd, hl]
    rw [this]
    exact entry_spec hs k

/-- Inputs of the phi for `k` carry exactly the sources of the two branches (`sel` = which half
of the pair). -/
theorem merge_inputs {sb st se s : Store κ} (hb : OK sb) (ht : OK st) (hse : OK se) (hs : OK s)
    (hbt : Ext sb st) (hte : Ext st se) (hes : Ext se s)
    (hpt : ∃ pre, st.cur = pre ++ sb.cur) (hpe : ∃ pre, se.cur = pre ++ sb.cur) (k : κ)
    (hne : changed st.cur sb.cur k ++ changed se.cur sb.cur k ≠ []) :
    let ins := changed st.cur sb.cur k ++ changed se.cur sb.cur k
    let r := if ins.length < 2 then ((s.fallback sb.cur k).1, ins ++ [(s.fallback sb.cur k).2])
             else (s, ins)
    OK r.1 ∧ Ext s r.1 ∧ r.1.cur = s.cur ∧ (∀ v ∈ r.2, v < r.1.vers.length) ∧
      ∀ (sel : List κ × List κ → List κ) x,
        (∃ v ∈ r.2, x ∈ sel (r.1.val v)) ↔ x ∈ sel (st.rd k) ∨ x ∈ sel (se.rd k) := by
  intro ins r
  have hbs : Ext sb s := (hbt.trans hte).trans hes
  have hts : Ext st s := hte.trans hes
  obtain ⟨f1, f2, f3, f4, f5⟩ := fallback_spec hb hs hbs k
  rcases branch_contrib hb ht hbt hpt k with ⟨ct, rt⟩ | ⟨vt, ct, lt, et⟩ <;>
  rcases branch_contrib hb hse (hbt.trans hte) hpe k with ⟨ce, re⟩ | ⟨ve, ce, le, ee⟩
  · exact absurd (by rw [ct, ce]; rfl) hne
  · -- only the else branch rebound `k`
    have hr : r = ((s.fallback sb.cur k).1, [ve, (s.fallback sb.cur k).2]) := by
      simp [r, ins, ct, ce]
    rw [hr]
    refine ⟨f1, f2, f3, ?_, ?_⟩
    · intro v hv
      simp only [List.mem_cons, List.not_mem_nil, or_false] at hv
      rcases hv with rfl | rfl
      · exact Nat.lt_of_lt_of_le le (hes.trans f2).length_le
      · exact f4
    · intro sel x
      simp only [List.mem_cons, List.not_mem_nil, or_false, exists_eq_or_imp, exists_eq_left]
      rw [(hes.trans f2).val le, ee, f5, rt]
      exact Or.comm
  · have hr : r = ((s.fallback sb.cur k).1, [vt, (s.fallback sb.cur k).2]) := by
      simp [r, ins, ct, ce]
    rw [hr]
    refine ⟨f1, f2, f3, ?_, ?_⟩
    · intro v hv
      simp only [List.mem_cons, List.not_mem_nil, or_false] at hv
      rcases hv with rfl | rfl
      · exact Nat.lt_of_lt_of_le lt (hts.trans f2).length_le
      · exact f4
    · intro sel x
      simp only [List.mem_cons, List.not_mem_nil, or_false, exists_eq_or_imp, exists_eq_left]
      rw [(hts.trans f2).val lt, et, f5, re]
  · have hr : r = (s, [vt, ve]) := by
      simp [r, ins, ct, ce]
    rw [hr]
    refine ⟨hs, Ext.refl s, rfl, ?_, ?_⟩
    · intro v hv
      simp only [List.mem_cons, List.not_mem_nil, or_false] at hv
      rcases hv with rfl | rfl
      · exact Nat.lt_of_lt_of_le lt hts.length_le
      · exact Nat.lt_of_lt_of_le le hes.length_le
    · intro sel x
      simp only [List.mem_cons, List.not_mem_nil, or_false, exists_eq_or_imp, exists_eq_left]
      rw [hts.val lt, et, hes.val le, ee]

theorem mergeKeys_spec {sb st se : Store κ} {et ee : Env κ} (hb : OK sb) (ht : OK st)
    (hse : OK se) (hbt : Ext sb st) (hte : Ext st se)
    (hpt : ∃ pre, st.cur = pre ++ sb.cur) (hpe : ∃ pre, se.cur = pre ++ sb.cur)
    (hit : Inv st et) (hie : Inv se ee) (ks : List κ) :
    ∀ (s : Store κ) (Done : List κ), OK s → Ext se s → (∃ pre, s.cur = pre ++ sb.cur) →
      (∀ k, (k ∈ Done → Tgt et ee k (s.rd k)) ∧ (Tgt et ee k (s.rd k) ∨ s.rd k = sb.rd k)) →
      OK (mergeKeys st.cur se.cur sb.cur s ks) ∧ Ext se (mergeKeys st.cur se.cur sb.cur s ks) ∧
        (∃ pre, (mergeKeys st.cur se.cur sb.cur s ks).cur = pre ++ sb.cur) ∧
        ∀ k, ((k ∈ Done ∨ (k ∈ ks ∧ changed st.cur sb.cur k ++ changed se.cur sb.cur k ≠ [])) →
            Tgt et ee k ((mergeKeys st.cur se.cur sb.cur s ks).rd k)) ∧
          (Tgt et ee k ((mergeKeys st.cur se.cur sb.cur s ks).rd k) ∨
            (mergeKeys st.cur se.cur sb.cur s ks).rd k = sb.rd k) := by
  induction ks with
  | nil =>
    intro s Done hs hes hpre hR
    refine ⟨hs, hes, hpre, fun k => ⟨?_, (hR k).2⟩⟩
    rintro (h | ⟨h, _⟩)
    · exact (hR k).1 h
    · cases h
  | cons k ks ih =>
    intro s Done hs hes hpre hR
    by_cases hemp : changed st.cur sb.cur k ++ changed se.cur sb.cur k = []
    · have hstep : mergeKeys st.cur se.cur sb.cur s (k :: ks) = mergeKeys st.cur se.cur sb.cur s ks := by
        rw [mergeKeys]; simp [hemp]
      rw [hstep]
      obtain ⟨i1, i2, i3, i4⟩ := ih s Done hs hes hpre hR
      refine ⟨i1, i2, i3, fun k' => ⟨?_, (i4 k').2⟩⟩
      rintro (h | ⟨h, hne⟩)
      · exact (i4 k').1 (Or.inl h)
      · rcases List.mem_cons.1 h with rfl | h
        · exact absurd hemp hne
        · exact (i4 k').1 (Or.inr ⟨h, hne⟩)
    · obtain ⟨m1, m2, m3, m4, m5⟩ := merge_inputs hb ht hse hs hbt hte hes hpt hpe k hemp
      -- name the intermediate pair as in the definition
      generalize hr : (if (changed st.cur sb.cur k ++ changed se.cur sb.cur k).length < 2 then
          ((s.fallback sb.cur k).1,
            (changed st.cur sb.cur k ++ changed se.cur sb.cur k) ++ [(s.fallback sb.cur k).2])
          else (s, changed st.cur sb.cur k ++ changed se.cur sb.cur k)) = r at m1 m2 m3 m4 m5
      have hstep : mergeKeys st.cur se.cur sb.cur s (k :: ks) =
          mergeKeys st.cur se.cur sb.cur ((r.1.phi r.2).1.bind k (r.1.phi r.2).2) ks := by
        rw [mergeKeys]
        have : (changed st.cur sb.cur k ++ changed se.cur sb.cur k).isEmpty = false := by
          simpa using hemp
        simp only [this, Bool.false_eq_true, if_false, hr]
      rw [hstep]
      obtain ⟨p1, p2, p3, p4, p5, p6⟩ := phi_spec m1 r.2 m4
      have hs2 : OK ((r.1.phi r.2).1.bind k (r.1.phi r.2).2) := bind_ok p1 k p4
      have hext2 : Ext s ((r.1.phi r.2).1.bind k (r.1.phi r.2).2) := ⟨_, (m2.trans p2).choose_spec⟩
      have hpre2 : ∃ pre, ((r.1.phi r.2).1.bind k (r.1.phi r.2).2).cur = pre ++ sb.cur := by
        obtain ⟨pre, hp⟩ := hpre
        exact ⟨(k, (r.1.phi r.2).2) :: pre, by simp [Store.bind, p3, m3, hp]⟩
      have htgt : Tgt et ee k ((r.1.phi r.2).1.val (r.1.phi r.2).2) := by
        refine ⟨fun x => ?_, fun x => ?_⟩
        · rw [p5 x, m5 Prod.fst x, mem_lookup_merged, (hit k).1 x, (hie k).1 x]
        · rw [p6 x, m5 Prod.snd x, (hit k).2 x, (hie k).2 x]
          simp [mergedEnv, mem_union]
      have hR2 : ∀ k', (k' ∈ k :: Done → Tgt et ee k' (((r.1.phi r.2).1.bind k (r.1.phi r.2).2).rd k')) ∧
          (Tgt et ee k' (((r.1.phi r.2).1.bind k (r.1.phi r.2).2).rd k') ∨
            ((r.1.phi r.2).1.bind k (r.1.phi r.2).2).rd k' = sb.rd k') := by
        intro k'
        rw [rd_bind]
        by_cases hkk : k' = k
        · subst hkk
          simp only [if_true]
          exact ⟨fun _ => htgt, Or.inl htgt⟩
        · simp only [hkk, if_false]
          rw [rd_of_cur_eq hs (m2.trans p2) (p3.trans m3) k']
          refine ⟨fun h => ?_, (hR k').2⟩
          rcases List.mem_cons.1 h with h | h
          · exact absurd h hkk
          · exact (hR k').1 h
      obtain ⟨i1, i2, i3, i4⟩ := ih _ (k :: Done) hs2 (hes.trans hext2) hpre2 hR2
      refine ⟨i1, i2, i3, fun k' => ⟨?_, (i4 k').2⟩⟩
      rintro (h | ⟨h, hne⟩)
      · exact (i4 k').1 (Or.inl (List.mem_cons_of_mem _ h))
      · rcases List.mem_cons.1 h with rfl | h
        · exact (i4 k').1 (Or.inl (List.mem_cons_self ..))
        · exact (i4 k').1 (Or.inr ⟨h, hne⟩)

/-! ### statements -/

theorem changed_ne_nil_mem {c base : List (κ × Nat)} {k : κ} (h : changed c base k ≠ []) :
    k ∈ c.map (·.1) := by
  apply Classical.byContradiction
  intro hk
  have := lookup_none_of_not_mem c k hk
  simp [changed, this] at h

/-- Forget the bindings made since the checkpoint `sb` (same versions, `sb`'s bindings). -/
theorem rollback_ok {sb sx : Store κ} (hb : OK sb) (hx : OK sx) (he : Ext sb sx) :
    OK ({ sx with cur := sb.cur } : Store κ) :=
  ⟨fun k v h => Nat.lt_of_lt_of_le (hb.cur_lt k v h) he.length_le, hx.ent⟩

theorem ssaStmt_spec (keysOf : Acc → List κ) (stmt : Stmt) :
    ∀ (ctrl : List Nat) (c : List κ) (s : Store κ) (env : Env κ),
      OK s → CtrlRel s ctrl c → Inv s env →
      OK (ssaStmt keysOf stmt ctrl s) ∧ Ext s (ssaStmt keysOf stmt ctrl s) ∧
        (∃ pre, (ssaStmt keysOf stmt ctrl s).cur = pre ++ s.cur) ∧
        Inv (ssaStmt keysOf stmt ctrl s) (liveIn keysOf stmt c env) := by
  induction stmt with
  | skip =>
    intro ctrl c s env hs _ hi
    exact ⟨hs, Ext.refl s, ⟨[], rfl⟩, hi⟩
  | assign d rs =>
    intro ctrl c s env hs hc hi
    obtain ⟨w1, w2, w3, w4⟩ := writeKeys_spec keysOf rs ctrl c (union c (readAll keysOf env rs))
      (addNew [] (keysOf d)) s env hs hc hi (fun _ => Iff.rfl)
    refine ⟨w1, w2, w3, ?_⟩
    have hfun : (fun k' => if k' ∈ addNew [] (keysOf d) then
        (⟨false, union c (readAll keysOf env rs)⟩ : DV κ) else env k') =
        liveIn keysOf (.assign d rs) c env := by
      funext k'
      simp [liveIn, mem_addNew]
    rw [← hfun]
    exact w4
  | seq a b iha ihb =>
    intro ctrl c s env hs hc hi
    obtain ⟨a1, a2, ⟨prea, a3⟩, a4⟩ := iha ctrl c s env hs hc hi
    obtain ⟨b1, b2, ⟨preb, b3⟩, b4⟩ := ihb ctrl c _ _ a1 (hc.ext a2) a4
    exact ⟨b1, a2.trans b2, ⟨preb ++ prea, by simp only [ssaStmt, b3, a3, List.append_assoc]⟩, b4⟩
  | ite cond t e iht ihe =>
    intro ctrl c s env hs hc hi
    obtain ⟨e1, e2, e3, e4, e5⟩ := evalReads_spec keysOf hs hi cond
    -- checkpoint
    generalize hsb : (evalReads keysOf s cond).1 = sb at e1 e2 e3 e4 e5
    generalize hcv : (evalReads keysOf s cond).2 = cv at e4 e5
    have hib : Inv sb env := hi.ext hs e2 e3
    have hc' : CtrlRel sb (ctrl ++ cv) (union c (readAll keysOf env cond)) := by
      have h0 := hc.ext e2
      refine ⟨fun v hv => ?_, fun x => ?_⟩
      · rcases List.mem_append.1 hv with hv | hv
        · exact h0.1 v hv
        · exact e4 v hv
      · rw [mem_union, h0.2 x, ← e5 x]
        constructor
        · rintro (⟨v, hv, hx⟩ | ⟨v, hv, hx⟩)
          · exact ⟨v, List.mem_append.2 (Or.inl hv), hx⟩
          · exact ⟨v, List.mem_append.2 (Or.inr hv), hx⟩
        · rintro ⟨v, hv, hx⟩
          rcases List.mem_append.1 hv with hv | hv
          · exact Or.inl ⟨v, hv, hx⟩
          · exact Or.inr ⟨v, hv, hx⟩
    -- then branch
    obtain ⟨t1, t2, t3, t4⟩ := iht (ctrl ++ cv) _ sb env e1 hc' hib
    generalize hst : ssaStmt keysOf t (ctrl ++ cv) sb = st at t1 t2 t3 t4
    -- rollback, else branch
    have hrb : OK ({ st with cur := sb.cur } : Store κ) := rollback_ok e1 t1 t2
    have hext_rb : Ext sb ({ st with cur := sb.cur } : Store κ) := t2
    have hi_rb : Inv ({ st with cur := sb.cur } : Store κ) env := hib.ext e1 hext_rb rfl
    obtain ⟨u1, u2, u3, u4⟩ := ihe (ctrl ++ cv) _ _ env hrb (hc'.ext hext_rb) hi_rb
    generalize hse : ssaStmt keysOf e (ctrl ++ cv) ({ st with cur := sb.cur } : Store κ) = se
      at u1 u2 u3 u4
    have hte : Ext st se := u2
    have hbe : Ext sb se := t2.trans hte
    -- merge
    have hm0 : OK ({ se with cur := sb.cur } : Store κ) := rollback_ok e1 u1 hbe
    have hext_m0 : Ext se ({ se with cur := sb.cur } : Store κ) := ⟨[], by simp⟩
    have hR0 : ∀ k, (k ∈ ([] : List κ) → Tgt (liveIn keysOf t (union c (readAll keysOf env cond)) env)
          (liveIn keysOf e (union c (readAll keysOf env cond)) env) k
          (({ se with cur := sb.cur } : Store κ).rd k)) ∧
        (Tgt (liveIn keysOf t (union c (readAll keysOf env cond)) env)
          (liveIn keysOf e (union c (readAll keysOf env cond)) env) k
          (({ se with cur := sb.cur } : Store κ).rd k) ∨
          ({ se with cur := sb.cur } : Store κ).rd k = sb.rd k) := by
      intro k
      refine ⟨(fun h => nomatch h), Or.inr ?_⟩
      exact rd_of_cur_eq e1 (show Ext sb ({ se with cur := sb.cur } : Store κ) from hbe) rfl k
    obtain ⟨m1, m2, ⟨prem, m3⟩, m4⟩ := mergeKeys_spec e1 t1 u1 t2 hte t3 u3 t4 u4
      (addNew [] ((st.cur ++ se.cur).map (·.1))) _ [] hm0 hext_m0 ⟨[], rfl⟩ hR0
    have hfinal : ssaStmt keysOf (.ite cond t e) ctrl s =
        mergeKeys st.cur se.cur sb.cur ({ se with cur := sb.cur } : Store κ)
          (addNew [] ((st.cur ++ se.cur).map (·.1))) := by
      simp only [ssaStmt, hsb, hcv, hst, hse]
    rw [hfinal]
    refine ⟨m1, (e2.trans hbe).trans m2, ⟨prem, by rw [m3, e3]⟩, ?_⟩
    intro k
    show Tgt _ _ k _
    by_cases hch : changed st.cur sb.cur k ++ changed se.cur sb.cur k = []
    · rcases (m4 k).2 with h | h
      · exact h
      · rw [h]
        obtain ⟨hct, hce⟩ := List.append_eq_nil_iff.1 hch
        have rt : st.rd k = sb.rd k := by
          rcases branch_contrib e1 t1 t2 t3 k with ⟨_, r⟩ | ⟨v, hv, _⟩
          · exact r
          · rw [hct] at hv; cases hv
        have re : se.rd k = sb.rd k := by
          rcases branch_contrib e1 u1 hbe u3 k with ⟨_, r⟩ | ⟨v, hv, _⟩
          · exact r
          · rw [hce] at hv; cases hv
        refine ⟨fun x => ?_, fun x => ?_⟩
        · rw [mem_lookup_merged, ← (t4 k).1 x, ← (u4 k).1 x, rt, re, or_self]
        · have : x ∈ (mergedEnv (liveIn keysOf t (union c (readAll keysOf env cond)) env)
              (liveIn keysOf e (union c (readAll keysOf env cond)) env) k).deps ↔
              x ∈ (st.rd k).2 ∨ x ∈ (se.rd k).2 := by
            rw [(t4 k).2 x, (u4 k).2 x]; simp [mergedEnv, mem_union]
          rw [this, rt, re, or_self]
    · refine (m4 k).1 (Or.inr ⟨?_, hch⟩)
      rw [mem_addNew]
      right
      rw [List.map_append, List.mem_append]
      by_cases hct : changed st.cur sb.cur k = []
      · right
        apply changed_ne_nil_mem (base := sb.cur)
        intro hce
        exact hch (by rw [hct, hce]; rfl)
      · exact Or.inl (changed_ne_nil_mem hct)

/-- **ssa_exact** (edge form): the SSA store with phi merges yields exactly the dependency edges of
the denotational live-in analysis, for any key granularity. -/
theorem ssaEdges_iff (keysOf : Acc → List κ) (stmt : Stmt) (x k : κ) :
    (x, k) ∈ ssaEdges keysOf stmt ↔ (x, k) ∈ blockEdges keysOf stmt := by
  obtain ⟨_, _, _, hinv⟩ := ssaStmt_spec keysOf stmt [] [] Store.empty Env.init ok_empty
    ⟨(fun _ h => nomatch h), (fun x => by simp [Store.val])⟩ inv_empty
  rw [mem_blockEdges, ← (hinv k).2 x]
  unfold ssaEdges
  simp only [List.mem_flatMap, mem_unions, List.mem_map]
  constructor
  · rintro ⟨k', ⟨_, ⟨d, hd, rfl⟩, hk⟩, h⟩
    cases hl : (ssaStmt keysOf stmt [] Store.empty).cur.lookup k' with
    | none => simp [hl] at h
    | some v =>
      simp only [hl, List.mem_map, Prod.mk.injEq] at h
      obtain ⟨x', hx', rfl, rfl⟩ := h
      exact ⟨⟨d, hd, hk⟩, by simpa [Store.rd, hl, Store.val] using hx'⟩
  · rintro ⟨⟨d, hd, hk⟩, hx⟩
    refine ⟨k, ⟨_, ⟨d, hd, rfl⟩, hk⟩, ?_⟩
    cases hl : (ssaStmt keysOf stmt [] Store.empty).cur.lookup k with
    | none => simp [Store.rd, hl] at hx
    | some v =>
      simp only []
      exact List.mem_map.2 ⟨x, by simpa [Store.rd, hl, Store.val] using hx, rfl⟩

end

end VerylModel.CombLoop
