import VerylModel.Core.Aligner
/-!
Helper lemmas about M-Aligner (`Core/Aligner.lean`): the association-list map, the width invariant of
`Align`, and the simulation of a run by the same run on renamed locations.
-/
namespace VerylModel.Aligner

/-! ### The association list -/

theorem lookup_insert (m : Adds) (l l' : Loc) (v : Nat × PadKind) :
    (m.insert l v).lookup l' = if l = l' then some v else m.lookup l' := by
  simp [Adds.insert, Adds.lookup]

theorem lookup_addMerge (m : Adds) (l l' : Loc) (w : Nat) (k : PadKind) :
    (m.addMerge l w k).lookup l' =
      if l = l' then
        (match m.lookup l with
         | some (w0, k0) => some (w0 + w, k0.merge k)
         | none => some (w, k))
      else m.lookup l' := by
  unfold Adds.addMerge
  cases h : m.lookup l with
  | none => simp [Adds.lookup]
  | some v => obtain ⟨w0, k0⟩ := v; simp [Adds.lookup]

theorem merge_comm (a b : PadKind) : a.merge b = b.merge a := by
  cases a <;> cases b <;> rfl

theorem merge_assoc (a b c : PadKind) : (a.merge b).merge c = a.merge (b.merge c) := by
  cases a <;> cases b <;> cases c <;> rfl

/-! ### Width invariant: `max_width` is the maximum of the widths waiting in `rest` -/

def maxW : List (Loc × Nat × PadKind) → Nat
  | [] => 0
  | e :: es => max e.2.1 (maxW es)

theorem maxW_append (a b : List (Loc × Nat × PadKind)) : maxW (a ++ b) = max (maxW a) (maxW b) := by
  induction a with
  | nil => simp [maxW]
  | cons x xs ih => simp [maxW, ih, Nat.max_assoc]

theorem le_maxW {e : Loc × Nat × PadKind} {es : List (Loc × Nat × PadKind)} (h : e ∈ es) :
    e.2.1 ≤ maxW es := by
  induction es with
  | nil => cases h
  | cons x xs ih =>
    simp only [maxW]
    rcases List.mem_cons.mp h with rfl | h
    · exact Nat.le_max_left _ _
    · exact Nat.le_trans (ih h) (Nat.le_max_right _ _)

/-- The invariant of one `Align`. -/
def Align.Inv (a : Align) : Prop := a.maxWidth = maxW a.rest

theorem Align.inv_init : Align.Inv {} := rfl

theorem Align.finishGroup_inv (a : Align) : a.finishGroup.Inv := by
  simp [Align.Inv, Align.finishGroup, maxW]

theorem Align.pushItem_inv (a : Align) (loc : Loc) (kind : PadKind) (h : a.Inv) : (a.pushItem loc kind).Inv := by
  simp only [Align.Inv, Align.pushItem] at h ⊢
  simp [maxW_append, maxW, h]

theorem Align.finishItem_inv (a : Align) (h : a.Inv) : a.finishItem.Inv := by
  unfold Align.finishItem
  split
  · split
    · exact h
    · apply Align.pushItem_inv
      split
      · exact Align.finishGroup_inv _
      · exact h
  · exact h

theorem Align.startItem_inv (pk : PadKind) (a : Align) (h : a.Inv) : (a.startItem pk).Inv := by
  unfold Align.startItem; split <;> exact h

theorem Align.noteEnd_inv (line : Nat) (a : Align) (h : a.Inv) : (a.noteEnd line).Inv := by
  unfold Align.noteEnd; split
  · split <;> exact h
  · exact h

theorem Align.token_inv (loc : Loc) (a : Align) (h : a.Inv) : (a.token loc).Inv := by
  unfold Align.token; split <;> exact h

theorem Align.dummy_inv (loc : Loc) (a : Align) (h : a.Inv) : (a.dummy loc).Inv := by
  unfold Align.dummy; split <;> exact h

theorem Align.addWidth_inv (w : Nat) (a : Align) (h : a.Inv) : (a.addWidth w).Inv := by
  unfold Align.addWidth; split <;> exact h

theorem Align.clearHad_inv (a : Align) (h : a.Inv) : a.clearHad.Inv := h

/-- The invariant of an `Aligner`: every `Align` satisfies `Align.Inv`. -/
def Aligner.Inv (g : Aligner) : Prop := ∀ a ∈ g.aligns, a.Inv

theorem Aligner.inv_new (n : Nat) : (Aligner.new n).Inv := by
  intro a ha
  simp only [Aligner.new, List.mem_replicate] at ha
  rw [ha.2]; exact Align.inv_init

theorem mem_modify {α : Type} {f : α → α} {P : α → Prop} (hf : ∀ a, P a → P (f a)) :
    ∀ (l : List α) (k : Nat), (∀ a ∈ l, P a) → ∀ a ∈ l.modify k f, P a := by
  intro l
  induction l with
  | nil => intro k h a ha; simp at ha
  | cons x xs ih =>
    intro k h a ha
    cases k with
    | zero =>
      simp only [List.modify_zero_cons, List.mem_cons] at ha
      rcases ha with rfl | ha
      · exact hf x (h x (by simp))
      · exact h a (by simp [ha])
    | succ k =>
      simp only [List.modify_succ_cons, List.mem_cons] at ha
      rcases ha with rfl | ha
      · exact h a (by simp)
      · exact ih k (fun b hb => h b (by simp [hb])) a ha

theorem Aligner.onK_inv {f : Align → Align} (hf : ∀ a, a.Inv → (f a).Inv) (g g' : Aligner) (k : Nat)
    (h : g.Inv) (hs : g.onK k f = some g') : g'.Inv := by
  unfold Aligner.onK at hs
  split at hs
  · cases hs
    exact mem_modify (P := Align.Inv) hf g.aligns k h
  · cases hs

theorem Aligner.onAll_inv {f : Align → Align} (hf : ∀ a, a.Inv → (f a).Inv) (g : Aligner) (h : g.Inv) :
    (g.onAll f).Inv := by
  intro a ha
  simp only [Aligner.onAll, List.mem_map] at ha
  obtain ⟨b, hb, rfl⟩ := ha
  exact hf b (h b hb)

theorem Aligner.step_inv (g g' : Aligner) (op : Op) (h : g.Inv) (hs : g.step op = some g') : g'.Inv := by
  cases op <;> simp only [Aligner.step] at hs
  case start k pk => exact Aligner.onK_inv (Align.startItem_inv pk) g g' k h hs
  case finishItemK k => exact Aligner.onK_inv Align.finishItem_inv g g' k h hs
  case finishItem => cases hs; exact Aligner.onAll_inv Align.finishItem_inv g h
  case finishGroup => cases hs; exact Aligner.onAll_inv (fun a _ => a.finishGroup_inv) g h
  case finishGroupFor k => exact Aligner.onK_inv (fun a _ => a.finishItem.finishGroup_inv) g g' k h hs
  case clearHad => cases hs; exact Aligner.onAll_inv Align.clearHad_inv g h
  case clearHadK k => exact Aligner.onK_inv Align.clearHad_inv g g' k h hs
  case noteEnd => cases hs; exact Aligner.onAll_inv (Align.noteEnd_inv g.latest) g h
  case noteEndK k line => exact Aligner.onK_inv (Align.noteEnd_inv line) g g' k h hs
  case token loc =>
    cases hs
    refine Aligner.onAll_inv (Align.token_inv loc) _ ?_
    unfold Aligner.observe; split <;> exact h
  case tokenK k loc => exact Aligner.onK_inv (Align.token_inv loc) g g' k h hs
  case space n => cases hs; exact Aligner.onAll_inv (Align.addWidth_inv n) g h
  case addWidthK k n => exact Aligner.onK_inv (Align.addWidth_inv n) g g' k h hs
  case dummyK k loc => exact Aligner.onK_inv (Align.dummy_inv loc) g g' k h hs
  case autoK k b => exact Aligner.onK_inv (f := fun a => { a with disableAuto := b }) (fun a ha => ha) g g' k h hs
  case auto b => cases hs; exact Aligner.onAll_inv (f := fun a => { a with disableAuto := b }) (fun a ha => ha) g h
  case direct loc w pk => cases hs; exact h
  case gather => cases hs; exact h

theorem Aligner.run_inv (ops : List Op) : ∀ (g g' : Aligner), g.Inv → g.run ops = some g' → g'.Inv := by
  induction ops with
  | nil => intro g g' h hs; simp only [Aligner.run] at hs; cases hs; exact h
  | cons op ops ih =>
    intro g g' h hs
    simp only [Aligner.run] at hs
    split at hs
    · cases hs
    · next g1 h1 => exact ih g1 g' (Aligner.step_inv g g1 op h h1) hs

/-! ### What `finish_group` writes -/

/-- Folding the inserts of `finish_group`: the binding of `l` afterwards is that of the LAST entry of
    `es` with key `l`, if any, else the old one. -/
theorem lookup_foldl_insert (M : Nat) (es : List (Loc × Nat × PadKind)) (m : Adds) (l : Loc) :
    (es.foldl (fun m e => m.insert e.1 (M - e.2.1, e.2.2)) m).lookup l =
      match es.reverse.find? (fun e => e.1 = l) with
      | some e => some (M - e.2.1, e.2.2)
      | none => m.lookup l := by
  induction es generalizing m with
  | nil => simp
  | cons x xs ih =>
    simp only [List.foldl_cons, ih, List.reverse_cons, List.find?_append]
    cases hf : xs.reverse.find? (fun e => e.1 = l) with
    | some e => simp
    | none =>
      simp only [Option.none_or, List.find?_singleton, lookup_insert]
      by_cases hx : x.1 = l <;> simp [hx]

/-! ### Renaming locations -/

/-- A renaming of locations `ρ` together with the map `φ` it induces on line numbers. -/
structure Ren where
  ρ : Loc → Loc
  φ : Nat → Nat

/-- `P` is the set of line numbers that occur (0 = the initial reference line, and the lines of the
    tokens). On `P`, `φ` fixes 0, is strictly monotone and maps adjacent lines — and only those — to
    adjacent lines: it preserves the class `min (b - a) 2` of every gap. `ρ` keeps the token length
    and moves lines by `φ`. -/
structure Ren.OK (r : Ren) (P : Nat → Prop) : Prop where
  p0 : P 0
  zero : r.φ 0 = 0
  mono : ∀ a b, P a → P b → a < b → r.φ a < r.φ b
  adj : ∀ a b, P a → P b → a < b → (b - a = 1 ↔ r.φ b - r.φ a = 1)
  len : ∀ l, (r.ρ l).len = l.len
  line : ∀ l, (r.ρ l).line = r.φ l.line

theorem Ren.OK.lt_iff {r : Ren} {P : Nat → Prop} (h : r.OK P) (a b : Nat) (ha : P a) (hb : P b) :
    r.φ a < r.φ b ↔ a < b := by
  constructor
  · intro hl
    rcases Nat.lt_trichotomy a b with hab | hab | hab
    · exact hab
    · subst hab; omega
    · have := h.mono b a hb ha hab; omega
  · exact h.mono a b ha hb

theorem Ren.OK.gap_iff {r : Ren} {P : Nat → Prop} (h : r.OK P) (a b : Nat) (ha : P a) (hb : P b) :
    r.φ b - r.φ a > 1 ↔ b - a > 1 := by
  rcases Nat.lt_trichotomy a b with hab | hab | hab
  · have h1 := h.mono a b ha hb hab
    have h2 := h.adj a b ha hb hab
    constructor <;> intro hh <;> omega
  · subst hab; omega
  · have := h.mono b a hb ha hab; omega

def mapKeys (ρ : Loc → Loc) (m : List (Loc × Nat × PadKind)) : List (Loc × Nat × PadKind) :=
  m.map (fun e => (ρ e.1, e.2))

def Align.rename (r : Ren) (a : Align) : Align :=
  { a with line := r.φ a.line, rest := mapKeys r.ρ a.rest, additions := mapKeys r.ρ a.additions,
           lastLoc := a.lastLoc.map r.ρ }

def Aligner.rename (r : Ren) (g : Aligner) : Aligner :=
  { additions := mapKeys r.ρ g.additions, aligns := g.aligns.map (Align.rename r), latest := r.φ g.latest }

def Op.rename (r : Ren) : Op → Op
  | .noteEndK k line => .noteEndK k (r.φ line)
  | .token loc => .token (r.ρ loc)
  | .tokenK k loc => .tokenK k (r.ρ loc)
  | .dummyK k loc => .dummyK k (r.ρ loc)
  | .direct loc w pk => .direct (r.ρ loc) w pk
  | op => op

/-- The lines an operation mentions are in `P`. -/
def Op.LinesIn (P : Nat → Prop) : Op → Prop
  | .noteEndK _ line => P line
  | .token loc => P loc.line
  | .tokenK _ loc => P loc.line
  | .dummyK _ loc => P loc.line
  | _ => True

/-- The lines an `Align` remembers are in `P`. -/
def Align.LinesIn (P : Nat → Prop) (a : Align) : Prop :=
  P a.line ∧ ∀ loc, a.lastLoc = some loc → P loc.line

def Aligner.LinesIn (P : Nat → Prop) (g : Aligner) : Prop :=
  P g.latest ∧ ∀ a ∈ g.aligns, a.LinesIn P

/-! Preservation of `LinesIn`. -/

theorem Align.finishGroup_lines {P : Nat → Prop} (a : Align) (h : a.LinesIn P) : a.finishGroup.LinesIn P := h

theorem Align.finishItem_lines {P : Nat → Prop} (a : Align) (h : a.LinesIn P) : a.finishItem.LinesIn P := by
  unfold Align.finishItem
  split
  · split
    · next hl => exact ⟨h.1, fun loc hloc => h.2 loc (by simpa [Align.closeItem] using hloc)⟩
    · next loc hl =>
      have hp : P loc.line := h.2 loc hl
      refine ⟨hp, fun l' hl' => ?_⟩
      apply h.2 l'
      split at hl' <;> simpa [Align.pushItem, Align.finishGroup, Align.closeItem] using hl'
  · exact h

theorem Align.startItem_lines {P : Nat → Prop} (pk : PadKind) (a : Align) (h : a.LinesIn P) :
    (a.startItem pk).LinesIn P := by
  unfold Align.startItem; split <;> exact h

theorem Align.noteEnd_lines {P : Nat → Prop} (line : Nat) (hl : P line) (a : Align) (h : a.LinesIn P) :
    (a.noteEnd line).LinesIn P := by
  unfold Align.noteEnd
  split
  · split
    · exact ⟨hl, h.2⟩
    · exact h
  · exact h

theorem Align.token_lines {P : Nat → Prop} (loc : Loc) (hl : P loc.line) (a : Align) (h : a.LinesIn P) :
    (a.token loc).LinesIn P := by
  unfold Align.token
  split
  · exact ⟨h.1, fun l' hl' => by simp at hl'; subst hl'; exact hl⟩
  · exact h

theorem Align.dummy_lines {P : Nat → Prop} (loc : Loc) (hl : P loc.line) (a : Align) (h : a.LinesIn P) :
    (a.dummy loc).LinesIn P := by
  unfold Align.dummy
  split
  · exact ⟨h.1, fun l' hl' => by simp at hl'; subst hl'; exact hl⟩
  · exact h

theorem Align.addWidth_lines {P : Nat → Prop} (w : Nat) (a : Align) (h : a.LinesIn P) :
    (a.addWidth w).LinesIn P := by
  unfold Align.addWidth; split <;> exact h

theorem Aligner.onK_lines {P : Nat → Prop} {f : Align → Align} (hf : ∀ a, a.LinesIn P → (f a).LinesIn P)
    (g g' : Aligner) (k : Nat) (h : g.LinesIn P) (hs : g.onK k f = some g') : g'.LinesIn P := by
  unfold Aligner.onK at hs
  split at hs
  · cases hs
    exact ⟨h.1, mem_modify (P := Align.LinesIn P) hf g.aligns k h.2⟩
  · cases hs

theorem Aligner.onAll_lines {P : Nat → Prop} {f : Align → Align} (hf : ∀ a, a.LinesIn P → (f a).LinesIn P)
    (g : Aligner) (h : g.LinesIn P) : (g.onAll f).LinesIn P := by
  refine ⟨h.1, fun a ha => ?_⟩
  simp only [Aligner.onAll, List.mem_map] at ha
  obtain ⟨b, hb, rfl⟩ := ha
  exact hf b (h.2 b hb)

theorem Aligner.step_lines {P : Nat → Prop} (g g' : Aligner) (op : Op) (h : g.LinesIn P) (ho : op.LinesIn P)
    (hs : g.step op = some g') : g'.LinesIn P := by
  cases op <;> simp only [Aligner.step] at hs <;> simp only [Op.LinesIn] at ho
  case start k pk => exact Aligner.onK_lines (Align.startItem_lines pk) g g' k h hs
  case finishItemK k => exact Aligner.onK_lines Align.finishItem_lines g g' k h hs
  case finishItem => cases hs; exact Aligner.onAll_lines Align.finishItem_lines g h
  case finishGroup => cases hs; exact Aligner.onAll_lines Align.finishGroup_lines g h
  case finishGroupFor k =>
    exact Aligner.onK_lines (fun a ha => Align.finishGroup_lines _ (Align.finishItem_lines a ha)) g g' k h hs
  case clearHad => cases hs; exact Aligner.onAll_lines (f := Align.clearHad) (fun a ha => ha) g h
  case clearHadK k => exact Aligner.onK_lines (f := Align.clearHad) (fun a ha => ha) g g' k h hs
  case noteEnd => cases hs; exact Aligner.onAll_lines (Align.noteEnd_lines g.latest h.1) g h
  case noteEndK k line => exact Aligner.onK_lines (Align.noteEnd_lines line ho) g g' k h hs
  case token loc =>
    cases hs
    refine Aligner.onAll_lines (Align.token_lines loc ho) _ ?_
    unfold Aligner.observe
    split
    · exact ⟨ho, h.2⟩
    · exact h
  case tokenK k loc => exact Aligner.onK_lines (Align.token_lines loc ho) g g' k h hs
  case space n => cases hs; exact Aligner.onAll_lines (Align.addWidth_lines n) g h
  case addWidthK k n => exact Aligner.onK_lines (Align.addWidth_lines n) g g' k h hs
  case dummyK k loc => exact Aligner.onK_lines (Align.dummy_lines loc ho) g g' k h hs
  case autoK k b =>
    exact Aligner.onK_lines (f := fun a => { a with disableAuto := b }) (fun a ha => ha) g g' k h hs
  case auto b =>
    cases hs; exact Aligner.onAll_lines (f := fun a => { a with disableAuto := b }) (fun a ha => ha) g h
  case direct loc w pk => cases hs; exact h
  case gather => cases hs; exact h

/-! The simulation. -/

theorem foldl_insert_mapKeys (ρ : Loc → Loc) (M : Nat) (es : List (Loc × Nat × PadKind)) (m : Adds) :
    (mapKeys ρ es).foldl (fun m e => Adds.insert m e.1 (M - e.2.1, e.2.2)) (mapKeys ρ m)
      = mapKeys ρ (es.foldl (fun m e => Adds.insert m e.1 (M - e.2.1, e.2.2)) m) := by
  induction es generalizing m with
  | nil => rfl
  | cons x xs ih =>
    simp only [mapKeys, List.map_cons, List.foldl_cons] at ih ⊢
    exact ih (Adds.insert m x.1 (M - x.2.1, x.2.2))

theorem Align.finishGroup_rename (r : Ren) (a : Align) :
    (a.rename r).finishGroup = a.finishGroup.rename r := by
  simp only [Align.finishGroup, Align.rename, foldl_insert_mapKeys]
  simp [mapKeys]

theorem Align.cuts_rename (r : Ren) {P : Nat → Prop} (h : r.OK P) (a : Align) (loc : Loc)
    (ha : P a.line) (hl : P loc.line) : (a.rename r).cuts (r.ρ loc) = a.cuts loc := by
  simp only [Align.cuts, Align.rename, h.line]
  have h1 := h.lt_iff loc.line a.line hl ha
  have h2 := h.gap_iff a.line loc.line ha hl
  congr 2
  · exact decide_eq_decide.mpr h1
  · exact decide_eq_decide.mpr h2

theorem Align.closeItem_rename (r : Ren) (a : Align) : (a.rename r).closeItem = a.closeItem.rename r := rfl

theorem Align.pushItem_rename (r : Ren) {P : Nat → Prop} (h : r.OK P) (a : Align) (loc : Loc) (kind : PadKind) :
    (a.rename r).pushItem (r.ρ loc) kind = (a.pushItem loc kind).rename r := by
  simp [Align.pushItem, Align.rename, mapKeys, h.line]

theorem Align.finishItem_rename (r : Ren) {P : Nat → Prop} (h : r.OK P) (a : Align) (hin : a.LinesIn P) :
    (a.rename r).finishItem = a.finishItem.rename r := by
  unfold Align.finishItem
  by_cases he : a.enable = true
  · have he' : (a.rename r).enable = true := he
    simp only [he, he', if_true]
    cases hl : a.lastLoc with
    | none =>
      have hl' : (a.rename r).lastLoc = none := by simp [Align.rename, hl]
      simp only [hl']
      rfl
    | some loc =>
      have hl' : (a.rename r).lastLoc = some (r.ρ loc) := by simp [Align.rename, hl]
      have hp : (a.rename r).padKind = a.padKind := rfl
      have hc := Align.cuts_rename r h a.closeItem loc hin.1 (hin.2 loc hl)
      simp only [hl', hp, Align.closeItem_rename, hc]
      rw [← Align.pushItem_rename r h]
      congr 1
      split
      · exact Align.finishGroup_rename r _
      · rfl
  · have he' : ¬ (a.rename r).enable = true := he
    simp [he, he']

theorem Align.startItem_rename (r : Ren) (pk : PadKind) (a : Align) :
    (a.rename r).startItem pk = (a.startItem pk).rename r := by
  unfold Align.startItem
  by_cases he : a.enable = true
  · have he' : (a.rename r).enable = true := he
    simp [he, he']
  · have he' : ¬ (a.rename r).enable = true := he
    simp [he, Align.rename]

theorem Align.noteEnd_rename (r : Ren) {P : Nat → Prop} (h : r.OK P) (line : Nat) (hp : P line) (a : Align)
    (hin : a.LinesIn P) : (a.rename r).noteEnd (r.φ line) = (a.noteEnd line).rename r := by
  unfold Align.noteEnd
  by_cases hh : a.hadItem = true
  · have hh' : (a.rename r).hadItem = true := hh
    simp only [hh, hh', if_true]
    have hl : (a.rename r).line = r.φ a.line := rfl
    by_cases hc : line > a.line
    · have hc' : r.φ line > r.φ a.line := (h.lt_iff _ _ hin.1 hp).mpr hc
      simp [hc, hc', Align.rename]
    · have hc' : ¬ r.φ line > r.φ a.line := fun x => hc ((h.lt_iff _ _ hin.1 hp).mp x)
      simp [hc, hc', Align.rename]
  · have hh' : ¬ (a.rename r).hadItem = true := hh
    simp [hh, hh']

theorem Align.token_rename (r : Ren) {P : Nat → Prop} (h : r.OK P) (loc : Loc) (a : Align) :
    (a.rename r).token (r.ρ loc) = (a.token loc).rename r := by
  unfold Align.token
  by_cases he : a.enable = true
  · have he' : (a.rename r).enable = true := he
    simp [he, Align.rename, h.len]
  · have he' : ¬ (a.rename r).enable = true := he
    simp [he, he']

theorem Align.dummy_rename (r : Ren) (loc : Loc) (a : Align) :
    (a.rename r).dummy (r.ρ loc) = (a.dummy loc).rename r := by
  unfold Align.dummy
  by_cases he : a.enable = true
  · have he' : (a.rename r).enable = true := he
    simp [he, Align.rename]
  · have he' : ¬ (a.rename r).enable = true := he
    simp [he, he']

theorem Align.addWidth_rename (r : Ren) (w : Nat) (a : Align) :
    (a.rename r).addWidth w = (a.addWidth w).rename r := by
  unfold Align.addWidth
  by_cases he : a.enable = true
  · have he' : (a.rename r).enable = true := he
    simp [he, Align.rename]
  · have he' : ¬ (a.rename r).enable = true := he
    simp [he, he']

theorem modify_map {α : Type} (ren : α → α) (f f' : α → α) :
    ∀ (l : List α) (k : Nat), (∀ a ∈ l, f' (ren a) = ren (f a)) → (l.map ren).modify k f' = (l.modify k f).map ren := by
  intro l
  induction l with
  | nil => intro k _; simp
  | cons x xs ih =>
    intro k hf
    cases k with
    | zero => simp [hf x (by simp)]
    | succ k => simp [ih k (fun a ha => hf a (by simp [ha]))]

theorem Aligner.onK_rename (r : Ren) (f f' : Align → Align) (g : Aligner)
    (hf : ∀ a ∈ g.aligns, f' (a.rename r) = (f a).rename r) (k : Nat) :
    (g.rename r).onK k f' = (g.onK k f).map (Aligner.rename r) := by
  unfold Aligner.onK
  by_cases hk : k < g.aligns.length
  · have hk' : k < (g.rename r).aligns.length := by simpa [Aligner.rename] using hk
    have hm := modify_map (Align.rename r) f f' g.aligns k hf
    simp only [Aligner.rename] at hk' ⊢
    simp only [hk, hk', if_true, Option.map_some, hm]
    rfl
  · have hk' : ¬ k < (g.rename r).aligns.length := by simpa [Aligner.rename] using hk
    simp [hk, hk']

theorem Aligner.onAll_rename (r : Ren) (f f' : Align → Align) (g : Aligner)
    (hf : ∀ a ∈ g.aligns, f' (a.rename r) = (f a).rename r) : (g.rename r).onAll f' = (g.onAll f).rename r := by
  simp only [Aligner.onAll, Aligner.rename, List.map_map]
  congr 1
  apply List.map_congr_left
  intro a ha
  exact hf a ha

/-! Renaming and the key comparisons of `gather_additions` (needs an injective renaming). -/

theorem lookup_mapKeys (ρ : Loc → Loc) (hinj : ∀ a b, ρ a = ρ b → a = b) (m : Adds) (l : Loc) :
    Adds.lookup (mapKeys ρ m) (ρ l) = Adds.lookup m l := by
  induction m with
  | nil => rfl
  | cons x xs ih =>
    obtain ⟨k, v⟩ := x
    simp only [mapKeys, List.map_cons, Adds.lookup] at ih ⊢
    by_cases hk : k = l
    · simp [hk]
    · have : ¬ ρ k = ρ l := fun h => hk (hinj _ _ h)
      simp [hk, this, ih]

theorem addMerge_mapKeys (ρ : Loc → Loc) (hinj : ∀ a b, ρ a = ρ b → a = b) (m : Adds) (l : Loc) (w : Nat)
    (k : PadKind) : Adds.addMerge (mapKeys ρ m) (ρ l) w k = mapKeys ρ (Adds.addMerge m l w k) := by
  unfold Adds.addMerge
  rw [lookup_mapKeys ρ hinj]
  cases Adds.lookup m l with
  | none => simp [mapKeys]
  | some v => obtain ⟨w0, k0⟩ := v; simp [mapKeys]

theorem filter_mapKeys (ρ : Loc → Loc) (hinj : ∀ a b, ρ a = ρ b → a = b) (m : Adds) (k : Loc) :
    (mapKeys ρ m).filter (fun e => e.1 ≠ ρ k) = mapKeys ρ (m.filter (fun e => e.1 ≠ k)) := by
  induction m with
  | nil => rfl
  | cons x xs ih =>
    simp only [mapKeys, List.map_cons, List.filter_cons] at ih ⊢
    by_cases hx : x.1 = k
    · simp only [hx, ne_eq, not_true_eq_false, decide_false, Bool.false_eq_true, if_false]
      exact ih
    · have : ¬ ρ x.1 = ρ k := fun h => hx (hinj _ _ h)
      simp only [hx, this, ne_eq, not_false_eq_true, decide_true, if_true, List.map_cons]
      rw [ih]

theorem canon_mapKeys (ρ : Loc → Loc) (hinj : ∀ a b, ρ a = ρ b → a = b) (m : Adds) :
    Adds.canon (mapKeys ρ m) = mapKeys ρ (Adds.canon m) := by
  induction m with
  | nil => rfl
  | cons x xs ih =>
    obtain ⟨k, v⟩ := x
    simp only [mapKeys, List.map_cons, Adds.canon] at ih ⊢
    rw [ih]
    have := filter_mapKeys ρ hinj (Adds.canon xs) k
    simp only [mapKeys] at this
    rw [this]

theorem foldl_addMerge_mapKeys (ρ : Loc → Loc) (hinj : ∀ a b, ρ a = ρ b → a = b)
    (es : List (Loc × Nat × PadKind)) (m : Adds) :
    (mapKeys ρ es).foldl (fun m e => Adds.addMerge m e.1 e.2.1 e.2.2) (mapKeys ρ m)
      = mapKeys ρ (es.foldl (fun m e => Adds.addMerge m e.1 e.2.1 e.2.2) m) := by
  induction es generalizing m with
  | nil => rfl
  | cons x xs ih =>
    simp only [mapKeys, List.map_cons, List.foldl_cons] at ih ⊢
    have := addMerge_mapKeys ρ hinj m x.1 x.2.1 x.2.2
    simp only [mapKeys] at this
    rw [this]
    exact ih _

theorem gatherOne_rename (r : Ren) (hinj : ∀ a b, r.ρ a = r.ρ b → a = b) (m : Adds) (a : Align) :
    gatherOne (mapKeys r.ρ m) (a.rename r) = mapKeys r.ρ (gatherOne m a) := by
  unfold gatherOne
  have h1 : (a.rename r).additions = mapKeys r.ρ a.additions := rfl
  rw [h1, canon_mapKeys r.ρ hinj]
  have h2 : (mapKeys r.ρ (Adds.canon a.additions)).reverse = mapKeys r.ρ (Adds.canon a.additions).reverse := by
    simp [mapKeys]
  rw [h2]
  exact foldl_addMerge_mapKeys r.ρ hinj _ m

theorem foldl_gatherOne_rename (r : Ren) (hinj : ∀ a b, r.ρ a = r.ρ b → a = b) (as : List Align) (m : Adds) :
    (as.map (Align.rename r)).foldl gatherOne (mapKeys r.ρ m) = mapKeys r.ρ (as.foldl gatherOne m) := by
  induction as generalizing m with
  | nil => rfl
  | cons x xs ih =>
    simp only [List.map_cons, List.foldl_cons]
    rw [gatherOne_rename r hinj]
    exact ih _

theorem Aligner.step_rename (r : Ren) {P : Nat → Prop} (h : r.OK P) (hinj : ∀ a b, r.ρ a = r.ρ b → a = b)
    (g : Aligner) (op : Op) (hg : g.LinesIn P) (ho : op.LinesIn P) :
    (g.rename r).step (op.rename r) = (g.step op).map (Aligner.rename r) := by
  cases op <;> simp only [Aligner.step, Op.rename] <;> simp only [Op.LinesIn] at ho
  case start k pk => exact Aligner.onK_rename r _ _ g (fun a _ => Align.startItem_rename r pk a) k
  case finishItemK k => exact Aligner.onK_rename r _ _ g (fun a ha => Align.finishItem_rename r h a (hg.2 a ha)) k
  case finishItem => simp [Aligner.onAll_rename r _ _ g (fun a ha => Align.finishItem_rename r h a (hg.2 a ha))]
  case finishGroup => simp [Aligner.onAll_rename r _ _ g (fun a _ => Align.finishGroup_rename r a)]
  case finishGroupFor k =>
    refine Aligner.onK_rename r _ _ g (fun a ha => ?_) k
    rw [Align.finishItem_rename r h a (hg.2 a ha), Align.finishGroup_rename]
  case clearHad => simp [Aligner.onAll_rename r Align.clearHad Align.clearHad g (fun a _ => rfl)]
  case clearHadK k => exact Aligner.onK_rename r Align.clearHad Align.clearHad g (fun a _ => rfl) k
  case noteEnd =>
    have : (g.rename r).latest = r.φ g.latest := rfl
    simp [this, Aligner.onAll_rename r _ _ g (fun a ha => Align.noteEnd_rename r h g.latest hg.1 a (hg.2 a ha))]
  case noteEndK k line =>
    exact Aligner.onK_rename r _ _ g (fun a ha => Align.noteEnd_rename r h line ho a (hg.2 a ha)) k
  case token loc =>
    have hobs : (g.rename r).observe (r.ρ loc).line = (g.observe loc.line).rename r := by
      unfold Aligner.observe
      have hl : (g.rename r).latest = r.φ g.latest := rfl
      rw [h.line, hl]
      by_cases hc : loc.line > g.latest
      · have hc' : r.φ loc.line > r.φ g.latest := (h.lt_iff _ _ hg.1 ho).mpr hc
        simp [hc, hc', Aligner.rename]
      · have hc' : ¬ r.φ loc.line > r.φ g.latest := fun x => hc ((h.lt_iff _ _ hg.1 ho).mp x)
        simp [hc, hc']
    have hmem : ∀ a ∈ (g.observe loc.line).aligns, (a.rename r).token (r.ρ loc) = (a.token loc).rename r :=
      fun a _ => Align.token_rename r h loc a
    simp [hobs, Aligner.onAll_rename r _ _ (g.observe loc.line) hmem]
  case tokenK k loc => exact Aligner.onK_rename r _ _ g (fun a _ => Align.token_rename r h loc a) k
  case space n => simp [Aligner.onAll_rename r _ _ g (fun a _ => Align.addWidth_rename r n a)]
  case addWidthK k n => exact Aligner.onK_rename r _ _ g (fun a _ => Align.addWidth_rename r n a) k
  case dummyK k loc => exact Aligner.onK_rename r _ _ g (fun a _ => Align.dummy_rename r loc a) k
  case autoK k b =>
    exact Aligner.onK_rename r (fun a => { a with disableAuto := b }) (fun a => { a with disableAuto := b }) g
      (fun a _ => rfl) k
  case auto b =>
    simp [Aligner.onAll_rename r (fun a => { a with disableAuto := b }) (fun a => { a with disableAuto := b }) g
      (fun a _ => rfl)]
  case direct loc w pk =>
    simp only [Option.map_some, Aligner.rename]
    rw [addMerge_mapKeys r.ρ hinj]
  case gather =>
    simp only [Option.map_some, Aligner.rename]
    rw [foldl_gatherOne_rename r hinj]

theorem Aligner.run_rename (r : Ren) {P : Nat → Prop} (h : r.OK P) (hinj : ∀ a b, r.ρ a = r.ρ b → a = b)
    (ops : List Op) : ∀ g : Aligner, g.LinesIn P → (∀ op ∈ ops, op.LinesIn P) →
      (g.rename r).run (ops.map (Op.rename r)) = (g.run ops).map (Aligner.rename r) := by
  induction ops with
  | nil => intro g _ _; rfl
  | cons op ops ih =>
    intro g hg ho
    simp only [List.map_cons, Aligner.run, Aligner.step_rename r h hinj g op hg (ho op (by simp))]
    cases hs : g.step op with
    | none => rfl
    | some g1 =>
      have hg1 := Aligner.step_lines g g1 op hg (ho op (by simp)) hs
      simpa using ih g1 hg1 (fun o ho' => ho o (by simp [ho']))

theorem Aligner.new_rename (r : Ren) {P : Nat → Prop} (h : r.OK P) (n : Nat) :
    (Aligner.new n).rename r = Aligner.new n := by
  simp [Aligner.new, Aligner.rename, Align.rename, mapKeys, h.zero]

theorem Aligner.new_lines {P : Nat → Prop} (h0 : P 0) (n : Nat) : (Aligner.new n).LinesIn P := by
  refine ⟨h0, fun a ha => ?_⟩
  simp only [Aligner.new, List.mem_replicate] at ha
  rw [ha.2]
  exact ⟨h0, fun loc hl => by simp at hl⟩

end VerylModel.Aligner
