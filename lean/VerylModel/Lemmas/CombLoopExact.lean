import VerylModel.Lemmas.CombLoopBridge
/-!
Exactness through instances when every child port is accessed as a whole: port-level summaries
then lose nothing, and every cycle of the detector's graph is a bit-level cycle.
-/
namespace VerylModel.CombLoop

/-! ### sources of dependency edges are keys of accesses -/

section Sources
variable {κ : Type} [DecidableEq κ]

theorem liveIn_deps_sub (keysOf : Acc → List κ) (P : κ → Prop) (st : Stmt)
    (hP : ∀ a ∈ st.accs, ∀ x ∈ keysOf a, P x) :
    ∀ (c : List κ) (env : Env κ), (∀ x ∈ c, P x) → (∀ k, ∀ x ∈ (env k).deps, P x) →
      ∀ k, ∀ x ∈ (liveIn keysOf st c env k).deps, P x := by
  have hread : ∀ (rs : List Acc) (env : Env κ), (∀ a ∈ rs, ∀ x ∈ keysOf a, P x) →
      (∀ k, ∀ x ∈ (env k).deps, P x) → ∀ x ∈ readAll keysOf env rs, P x := by
    intro rs env hrs henv x hx
    obtain ⟨r, hr, k, hk, hxk⟩ := mem_readAll.1 hx
    rcases mem_lookup.1 hxk with h | ⟨_, rfl⟩
    · exact henv k x h
    · exact hrs r hr x hk
  induction st with
  | skip => intro c env _ henv; exact henv
  | assign d rs =>
    intro c env hc henv k x hx
    simp only [liveIn] at hx
    split at hx
    · rcases mem_union.1 hx with h | h
      · exact hc x h
      · exact hread rs env (fun a ha => hP a (by simp [Stmt.accs, ha])) henv x h
    · exact henv k x hx
  | seq a b iha ihb =>
    intro c env hc henv
    simp only [liveIn]
    exact ihb (fun a' ha => hP a' (by simp [Stmt.accs, ha])) c _ hc
      (iha (fun a' ha => hP a' (by simp [Stmt.accs, ha])) c env hc henv)
  | ite cond t e iht ihe =>
    intro c env hc henv k x hx
    have hc' : ∀ x ∈ union c (readAll keysOf env cond), P x := by
      intro x hx
      rcases mem_union.1 hx with h | h
      · exact hc x h
      · exact hread cond env (fun a ha => hP a (by simp [Stmt.accs, ha])) henv x h
    simp only [liveIn] at hx
    rcases mem_union.1 hx with h | h
    · exact iht (fun a' ha => hP a' (by simp [Stmt.accs, ha])) _ env hc' henv k x h
    · exact ihe (fun a' ha => hP a' (by simp [Stmt.accs, ha])) _ env hc' henv k x h

/-- Both ends of a dependency edge are keys of accesses of the block. -/
theorem blockEdges_ends {keysOf : Acc → List κ} {st : Stmt} {x k : κ}
    (h : (x, k) ∈ blockEdges keysOf st) :
    (∃ a ∈ st.accs, x ∈ keysOf a) ∧ (∃ a ∈ st.accs, k ∈ keysOf a) := by
  obtain ⟨⟨d, hd, hk⟩, hx⟩ := mem_blockEdges.1 h
  refine ⟨?_, d, st.dsts_sub_accs d hd, hk⟩
  exact liveIn_deps_sub keysOf (fun x => ∃ a ∈ st.accs, x ∈ keysOf a) st
    (fun a ha x hx => ⟨a, ha, hx⟩) [] Env.init (fun _ h => nomatch h)
    (fun _ _ h => by simp [Env.init] at h) k x hx

end Sources

/-! ### whole ports -/

/-- Every access of a child to a connected port variable is the whole port `[0, width)`. -/
def Design.WholePorts (d : Design) : Prop :=
  ∀ i ∈ d.insts, ∀ c, d.children[i.child]? = some c →
    ∀ pa ∈ i.ins ++ i.outs, ∀ a' ∈ c.accs, a'.var = pa.1 → a'.lo = 0 ∧ a'.hi = width pa.2

theorem mem_cutsOf {accs : List Acc} {v x : Nat} (h : x ∈ cutsOf accs v) :
    ∃ a ∈ accs, a.var = v ∧ (x = a.lo ∨ x = a.hi) := by
  unfold cutsOf at h
  simp only [mem_addNew, List.mem_flatMap, List.mem_filter, decide_eq_true_eq] at h
  rcases h with h | ⟨a, ⟨ha, hv⟩, hx⟩
  · cases h
  · exact ⟨a, ha, hv, by simpa using hx⟩

/-- In a child whose port `p` is only accessed as `[0, W)`, every wired bit of `p` lies in the atomic
range `(p, 0)`, and every graph node of variable `p` is that range. -/
theorem whole_port_atom {c : Flat} {p W : Nat}
    (hw : ∀ a' ∈ c.accs, a'.var = p → a'.lo = 0 ∧ a'.hi = W) {k : Nat} (hk : k < W) :
    atomOf (flatCuts c) (p, k) = (p, 0) := by
  simp only [atomOf]
  congr 1
  have hle := maxCutLE_le (flatCuts c p) k
  rcases maxCutLE_mem_or (flatCuts c p) k with h | h
  · obtain ⟨a, ha, hv, hx⟩ := mem_cutsOf h
    obtain ⟨h0, hW⟩ := hw a ha hv
    rcases hx with hx | hx
    · rw [hx, h0]
    · rw [hx, hW] at hle; omega
  · exact h

theorem whole_port_node {c : Flat} {p W : Nat}
    (hw : ∀ a' ∈ c.accs, a'.var = p → a'.lo = 0 ∧ a'.hi = W) {A : Atom} (hA : A.1 = p)
    (hacc : ∃ a ∈ c.accs, A ∈ atomsOf (flatCuts c) a) : A = (p, 0) := by
  obtain ⟨a, ha, hAa⟩ := hacc
  obtain ⟨hv, hcut, hlo, hhi⟩ := mem_atomsOf.1 hAa
  have hvp : a.var = p := by rw [← hv, hA]
  obtain ⟨h0, hW⟩ := hw a ha hvp
  obtain ⟨a2, ha2, hv2, hx⟩ := mem_cutsOf (accs := c.accs) (v := a.var) hcut
  obtain ⟨h02, hW2⟩ := hw a2 ha2 (hv2.trans hvp)
  have : A.2 = 0 := by
    rcases hx with hx | hx
    · rw [hx, h02]
    · rw [hx, hW2] at hhi; omega
  obtain ⟨v, x⟩ := A
  simp only at hA this
  rw [hA, this]

theorem flat_edge_ends {c : Flat} {A B : Atom} (h : (A, B) ∈ flatRangeGraphD c) :
    (∃ a ∈ c.accs, A ∈ atomsOf (flatCuts c) a) ∧ (∃ a ∈ c.accs, B ∈ atomsOf (flatCuts c) a) := by
  obtain ⟨st, hst, he⟩ := List.mem_flatMap.1 h
  obtain ⟨⟨a, ha, hA⟩, ⟨b, hb, hB⟩⟩ := blockEdges_ends he
  exact ⟨⟨a, c.block_accs_sub hst a ha, hA⟩, ⟨b, c.block_accs_sub hst b hb, hB⟩⟩

/-- With whole ports, a summary entry means every wired input bit reaches every wired output bit. -/
theorem summary_bits {c : Flat} {p q Wp Wq : Nat} (hpq : p ≠ q)
    (hwp : ∀ a' ∈ c.accs, a'.var = p → a'.lo = 0 ∧ a'.hi = Wp)
    (hwq : ∀ a' ∈ c.accs, a'.var = q → a'.lo = 0 ∧ a'.hi = Wq)
    (hsm : (p, q) ∈ summaryOf c (flatRangeGraphD c)) {k k' : Nat} (hk : k < Wp) (hk' : k' < Wq) :
    Path (flatBitGraph c) (p, k) (q, k') := by
  obtain ⟨_, _, A, _, hAp, B, hBq, hAB⟩ := mem_summaryOf.1 hsm
  rcases hAB with rfl | hpath
  · exact absurd (hAp.symm.trans hBq) hpq
  · obtain ⟨_, e1⟩ := hpath.src_mem
    obtain ⟨_, e2⟩ := hpath.dst_mem
    have hA := whole_port_node hwp hAp (flat_edge_ends e1).1
    have hB := whole_port_node hwq hBq (flat_edge_ends e2).2
    exact flat_path_lift (atomic_cutsOf c.accs) hpath (p, k) (q, k')
      ((whole_port_atom hwp hk).trans hA.symm) ((whole_port_atom hwq hk').trans hB.symm)

/-! ### lifting the detector's paths to the inlined graph -/

theorem mem_zipIdx_of_mem {α : Type} {l : List α} {x : α} (h : x ∈ l) : ∃ j, (j, x) ∈ zipIdx l 0 := by
  obtain ⟨n, hn⟩ := List.mem_iff_getElem?.1 h
  exact ⟨n, mem_zipIdx.2 ⟨Nat.zero_le _, by simpa using hn⟩⟩

theorem child_path_in_design {d : Design} {j : Nat} {i : Inst} {c : Flat}
    (hji : (j, i) ∈ zipIdx d.insts 0) (hc : d.children[i.child]? = some c) {x y : Bit}
    (h : Path (flatBitGraph c) x y) : Path (bitGraph d) (j + 1, x) (j + 1, y) :=
  h.map (fun b => ((j + 1, b) : HBit))
    (fun _ _ hab => edgeKind_iff.2 (.child j i c hji hc rfl rfl hab))

theorem bits_of_atom {cuts : Nat → List Nat} {a : Acc} (hlo : a.lo ∈ cuts a.var)
    (hhi : a.hi ∈ cuts a.var) {A : Atom} (hA : A ∈ atomsOf cuts a) {s : Bit}
    (hs : atomOf cuts s = A) : ∃ k, k < width a ∧ s = (a.var, a.lo + k) := by
  have hmem := (mem_bits_iff_atom hlo hhi s).2 (by rw [hs]; exact hA)
  obtain ⟨h1, h2, h3⟩ := mem_bits.1 hmem
  obtain ⟨v, x⟩ := s
  simp only at h1 h2 h3
  refine ⟨x - a.lo, by unfold width; omega, ?_⟩
  rw [h1]
  congr 1
  omega

/-- With whole ports every edge of the detector's top graph is a path of the inlined bit graph,
between any bits of the two ranges. -/
theorem top_edge_lift {d : Design} (hwf : d.WF) (hwp : d.WholePorts) {A B : Atom}
    (h : (A, B) ∈ topRangeGraphD d) {s b : Bit} (hs : atomOf d.topCuts s = A)
    (hb : atomOf d.topCuts b = B) : Path (bitGraph d) (0, s) (0, b) := by
  rcases List.mem_append.1 h with h | h
  · subst hs; subst hb
    have := (blocks_edge_rel (top_blocks_atomic d) s b).2 h
    exact .single (edgeKind_iff.2 (.top rfl rfl this))
  · obtain ⟨i, hi, h⟩ := List.mem_flatMap.1 h
    cases hc : d.children[i.child]? with
    | none => simp [hc] at h
    | some c =>
      simp only [hc] at h
      obtain ⟨p, a, q, dd, hpa, hqd, hpin, hqout, hsm, hA, hB⟩ := mem_instEdges.1 h
      obtain ⟨j, hji⟩ := mem_zipIdx_of_mem hi
      obtain ⟨a1, a2⟩ := inst_in_atomic hi hpa
      obtain ⟨d1, d2⟩ := inst_out_atomic hi hqd
      obtain ⟨k, hk, rfl⟩ := bits_of_atom a1 a2 hA hs
      obtain ⟨k', hk', rfl⟩ := bits_of_atom d1 d2 hB hb
      have hcm : c ∈ d.children := List.mem_of_getElem? hc
      have hne : p ≠ q := fun e => hwf.1 c hcm p hpin (e ▸ hqout)
      have hwpp := hwp i hi c hc (p, a) (List.mem_append.2 (Or.inl hpa))
      have hwpq := hwp i hi c hc (q, dd) (List.mem_append.2 (Or.inr hqd))
      have hchild := summary_bits hne hwpp hwpq hsm hk hk'
      exact (Path.cons (edgeKind_iff.2 (.portIn j i c p a k hji hc hpa hk rfl rfl))
        (child_path_in_design hji hc hchild)).snoc
        (edgeKind_iff.2 (.portOut j i c q dd k' hji hc hqd hk' rfl rfl))

theorem top_edge_surj {d : Design} {A B : Atom} (h : (A, B) ∈ topRangeGraphD d) :
    atomOf d.topCuts B = B := by
  rcases List.mem_append.1 h with h | h
  · exact blocks_edge_surj h
  · obtain ⟨i, _, h⟩ := List.mem_flatMap.1 h
    cases hc : d.children[i.child]? with
    | none => simp [hc] at h
    | some c =>
      simp only [hc] at h
      obtain ⟨_, _, _, dd, _, _, _, _, _, _, hB⟩ := mem_instEdges.1 h
      exact atomOf_self_of_mem hB

theorem top_path_lift {d : Design} (hwf : d.WF) (hwp : d.WholePorts) {A B : Atom}
    (h : Path (topRangeGraphD d) A B) :
    ∀ s b, atomOf d.topCuts s = A → atomOf d.topCuts b = B → Path (bitGraph d) (0, s) (0, b) := by
  induction h with
  | single e => exact fun s b hs hb => top_edge_lift hwf hwp e hs hb
  | cons e _ ih =>
    intro s b hs hb
    exact (top_edge_lift hwf hwp e hs (top_edge_surj e)).trans (ih _ b (top_edge_surj e) hb)

theorem hier_complete_D {d : Design} (hwf : d.WF) (hwp : d.WholePorts)
    (h : HasCycle (topRangeGraphD d)) : HasCycle (bitGraph d) := by
  obtain ⟨A, hp⟩ := h
  obtain ⟨_, e⟩ := hp.dst_mem
  have hA := top_edge_surj e
  exact ⟨(0, A), top_path_lift hwf hwp hp A A hA hA⟩

end VerylModel.CombLoop
