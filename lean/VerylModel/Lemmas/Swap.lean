import VerylModel.Core.Swap
/-! Lemmas for C33 (`Props/C33.lean`): generic hybrid runs, the dispatch model, the constant cone. -/
namespace VerylModel.Swap

/-! ## Generic hybrid runs -/

section Generic
variable {σ ι ο : Type} (R : σ → σ → Prop)

theorem hrun_rel (htrans : ∀ a b c, R a b → R b c → R a c)
    (f g : ι → σ → σ)
    (agree : ∀ i s, R (g i s) (f i s))
    (cf : ∀ i s t, R s t → R (f i s) (f i t))
    (sched : Nat → Bool) :
    ∀ (ins : List ι) (n : Nat) (s t : σ), R s t → R (hrun f g sched n ins s) (run f ins t) := by
  intro ins
  induction ins with
  | nil => intro n s t h; simpa [hrun, run] using h
  | cons i is ih =>
    intro n s t h
    simp only [hrun, run]
    apply ih
    by_cases hs : sched n = true
    · simp only [hs, if_true]; exact htrans _ _ _ (agree i s) (cf i s t h)
    · simp only [hs]; exact cf i s t h

theorem htrace_rel (htrans : ∀ a b c, R a b → R b c → R a c)
    (f g : ι → σ → σ)
    (agree : ∀ i s, R (g i s) (f i s))
    (cf : ∀ i s t, R s t → R (f i s) (f i t))
    (sched : Nat → Bool) :
    ∀ (ins : List ι) (n : Nat) (s t : σ), R s t →
      (htrace f g sched n ins s).length = (trace f ins t).length ∧
      ∀ p ∈ (htrace f g sched n ins s).zip (trace f ins t), R p.1 p.2 := by
  intro ins
  induction ins with
  | nil => intro n s t _; simp [htrace, trace]
  | cons i is ih =>
    intro n s t h
    have hstep : R (if sched n = true then g i s else f i s) (f i t) := by
      by_cases hs : sched n = true
      · simp only [hs, if_true]; exact htrans _ _ _ (agree i s) (cf i s t h)
      · simp only [hs]; exact cf i s t h
    obtain ⟨hl, hp⟩ := ih (n + 1) _ _ hstep
    refine ⟨by simp only [htrace, trace, List.length_cons, hl], ?_⟩
    intro p hp'
    simp only [htrace, trace, List.zip_cons_cons, List.mem_cons] at hp'
    rcases hp' with rfl | hp'
    · exact hstep
    · exact hp p hp'

theorem htrace_obs (htrans : ∀ a b c, R a b → R b c → R a c)
    (f g : ι → σ → σ)
    (agree : ∀ i s, R (g i s) (f i s))
    (cf : ∀ i s t, R s t → R (f i s) (f i t))
    (obs : σ → ο) (hobs : ∀ s t, R s t → obs s = obs t)
    (sched : Nat → Bool) :
    ∀ (ins : List ι) (n : Nat) (s t : σ), R s t →
      (htrace f g sched n ins s).map obs = (trace f ins t).map obs := by
  intro ins
  induction ins with
  | nil => intro n s t _; simp [htrace, trace]
  | cons i is ih =>
    intro n s t h
    have hstep : R (if sched n = true then g i s else f i s) (f i t) := by
      by_cases hs : sched n = true
      · simp only [hs, if_true]; exact htrans _ _ _ (agree i s) (cf i s t h)
      · simp only [hs]; exact cf i s t h
    simp only [htrace, trace, List.map_cons]
    rw [ih (n + 1) _ _ hstep, hobs _ _ hstep]

end Generic

theorem Eqv.refl (loc : Nat → Bool) (s : Nat → Nat) : Eqv loc s s := fun _ _ => rfl
theorem Eqv.symm {loc : Nat → Bool} {s t : Nat → Nat} (h : Eqv loc s t) : Eqv loc t s :=
  fun a ha => (h a ha).symm
theorem Eqv.trans {loc : Nat → Bool} {s t u : Nat → Nat} (h1 : Eqv loc s t) (h2 : Eqv loc t u) :
    Eqv loc s u := fun a ha => (h1 a ha).trans (h2 a ha)

/-! ## Hypotheses on the engines -/

/-- The constant cone's outputs already hold in `s` (up to `R`). -/
def KOk {σ : Type} (R : σ → σ → Prop) (E : Eng σ) (s : σ) : Prop := R (E.cC s) s

/-- What the C backend promises about a design (up to `R` = equality outside localised state),
    `p` = number of comb passes. -/
structure Hyp {σ : Type} (R : σ → σ → Prop) (E : Eng σ) (p : Nat) : Prop where
  refl : ∀ s, R s s
  symm : ∀ s t, R s t → R t s
  trans : ∀ a b c, R a b → R b c → R a c
  /-- nothing reads what `R` ignores -/
  cg_jS : ∀ s t, R s t → R (E.jS s) (E.jS t)
  cg_cC : ∀ s t, R s t → R (E.cC s) (E.cC t)
  cg_cM : ∀ s t, R s t → R (E.cM s) (E.cM t)
  cg_jE : ∀ e s t, R s t → R (E.jE e s) (E.jE e t)
  cg_commit : ∀ s t, R s t → R (E.commit s) (E.commit t)
  cg_setIn : ∀ v s t, R s t → R (E.setIn v s) (E.setIn v t)
  cg_setRst : ∀ b s t, R s t → R (E.setRst b s) (E.setRst b t)
  /-- the two engines compute the same function -/
  agree_settle : ∀ s, R (iter E.cM p (E.cC s)) (E.jS s)
  agree_event : ∀ e s, R (E.cE e s) (E.jE e s)
  /-- a JIT settle recomputes every comb value: what C wrote before does not matter -/
  absorb_cM : ∀ s, R (E.jS (E.cM s)) (E.jS s)
  absorb_cC : ∀ s, R (E.jS (E.cC s)) (E.jS s)
  /-- the JIT evaluates the constant statements in every settle -/
  kok_jS : ∀ s, KOk R E (E.jS s)
  /-- only the constant cone writes the constant cone's outputs -/
  keep_jE : ∀ e s, KOk R E s → KOk R E (E.jE e s)
  keep_cE : ∀ e s, KOk R E s → KOk R E (E.cE e s)
  keep_commit : ∀ s, KOk R E s → KOk R E (E.commit s)
  keep_setIn : ∀ v s, KOk R E s → KOk R E (E.setIn v s)
  keep_setRst : ∀ b s, KOk R E s → KOk R E (E.setRst b s)

section Dispatch
variable {σ : Type} {R : σ → σ → Prop} {E : Eng σ}

theorem runMicro_append (E : Eng σ) (xs ys : List Micro) (s : σ) :
    E.runMicro (xs ++ ys) s = E.runMicro ys (E.runMicro xs s) := by
  induction xs generalizing s with
  | nil => rfl
  | cons x xs ih => simp only [List.cons_append, Eng.runMicro]; exact ih _

theorem KOk_resp {p : Nat} (H : Hyp R E p) {s t : σ} (h : R s t) (hk : KOk R E s) : KOk R E t := by
  unfold KOk at *
  exact H.trans _ _ _ (H.cg_cC _ _ (H.symm _ _ h)) (H.trans _ _ _ hk h)

theorem iter_cg {p : Nat} (H : Hyp R E p) : ∀ (n : Nat) (s t : σ), R s t → R (iter E.cM n s) (iter E.cM n t) := by
  intro n
  induction n with
  | zero => intro s t h; simpa [iter] using h
  | succ n ih => intro s t h; simp only [iter]; exact ih _ _ (H.cg_cM _ _ h)

/-- A main loop that fell back ended in a JIT settle, which absorbs the C passes before it. -/
theorem mainLoop_fb {p : Nat} (H : Hyp R E p) (g : Nat → Bool) :
    ∀ (n a : Nat) (s : σ), (mainLoop g n a).2.1 = true →
      R (E.runMicro (mainLoop g n a).2.2 s) (E.jS s) := by
  intro n
  induction n with
  | zero => intro a s h; simp [mainLoop] at h
  | succ n ih =>
    intro a s h
    by_cases hg : g a = true
    · simp only [mainLoop, hg, if_true] at h ⊢
      simp only [Eng.runMicro, Eng.micro]
      exact H.trans _ _ _ (ih (a + 1) (E.cM s) h) (H.absorb_cM s)
    · simp only [mainLoop, hg] at h ⊢
      exact H.refl _

/-- A main loop that did not fall back ran the C function `n` times, and its first attempt was
    served. -/
theorem mainLoop_nofb (g : Nat → Bool) :
    ∀ (n a : Nat) (s : σ), (mainLoop g n a).2.1 = false →
      E.runMicro (mainLoop g n a).2.2 s = iter E.cM n s ∧ (0 < n → g a = true) := by
  intro n
  induction n with
  | zero => intro a s _; simp [mainLoop, Eng.runMicro, iter]
  | succ n ih =>
    intro a s h
    by_cases hg : g a = true
    · simp only [mainLoop, hg, if_true] at h ⊢
      simp only [Eng.runMicro, Eng.micro, iter]
      exact ⟨(ih (a + 1) (E.cM s) h).1, fun _ => trivial⟩
    · simp [mainLoop, hg] at h

theorem mainLoop_never (n a : Nat) : mainLoop never (n + 1) a = (a + 1, true, [Micro.jSettle]) := by
  simp [mainLoop, never]

/-- In a run that never leaves the JIT every settle is one JIT settle. -/
theorem settle_never (c : Cfg) (d : DSt) (t : σ) :
    E.runMicro (settle never c d).2 t = E.jS t ∧ (settle never c d).1.dirty = d.dirty := by
  unfold settle
  by_cases hc : c.comb = true
  · obtain ⟨n, hn⟩ : ∃ n, max c.passes 1 = n + 1 := ⟨max c.passes 1 - 1, by omega⟩
    simp only [hc, if_true, hn, mainLoop_never]
    simp [never, Eng.runMicro, Eng.micro]
  · simp [hc, Eng.runMicro, Eng.micro]

/-- Whatever mixture of C and JIT dispatches serves a settle, the result is the JIT settle's,
    unless the C main function runs before the constant cone was ever evaluated. -/
theorem settle_hyb (H : Hyp R E (max c.passes 1)) (g : Nat → Bool) (d : DSt) (s : σ)
    (hK : d.constDone = true → KOk R E s)
    (hA : KOk R E s ∨ ¬(c.comb = true ∧ d.constDone = false ∧ g d.att = false ∧ g (d.att + 1) = true)) :
    R (E.runMicro (settle g c d).2 s) (E.jS s) := by
  unfold settle
  by_cases hc : c.comb = true
  · simp only [hc, if_true]
    rw [runMicro_append]
    generalize hloop : mainLoop g (max c.passes 1) (if d.constDone = true then d.att else d.att + 1) = r
    by_cases hr0 : (!d.constDone && g d.att) = true
    · -- the constant cone runs now
      simp only [hr0, if_true, Eng.runMicro, Eng.micro]
      by_cases hfb : r.2.1 = true
      · have := mainLoop_fb H g (max c.passes 1) (if d.constDone = true then d.att else d.att + 1) (E.cC s) (by rw [hloop]; exact hfb)
        rw [hloop] at this
        exact H.trans _ _ _ this (H.absorb_cC s)
      · have hfb' : r.2.1 = false := by simpa using hfb
        have := (mainLoop_nofb (E := E) g (max c.passes 1) (if d.constDone = true then d.att else d.att + 1) (E.cC s) (by rw [hloop]; exact hfb')).1
        rw [hloop] at this
        rw [this]
        exact H.agree_settle s
    · have hr0' : (!d.constDone && g d.att) = false := by simpa using hr0
      simp only [hr0', Bool.false_eq_true, if_false, Eng.runMicro]
      by_cases hfb : r.2.1 = true
      · have := mainLoop_fb H g (max c.passes 1) (if d.constDone = true then d.att else d.att + 1) s (by rw [hloop]; exact hfb)
        rw [hloop] at this
        exact this
      · have hfb' : r.2.1 = false := by simpa using hfb
        have hm := mainLoop_nofb (E := E) g (max c.passes 1) (if d.constDone = true then d.att else d.att + 1) s (by rw [hloop]; exact hfb')
        rw [hloop] at hm
        rw [hm.1]
        -- the C main function ran without the constant cone: its outputs must already hold
        have hk : KOk R E s := by
          by_cases hcd : d.constDone = true
          · exact hK hcd
          · have hcd' : d.constDone = false := by simpa using hcd
            rcases hA with hk | hA
            · exact hk
            · exfalso
              apply hA
              have h1 : g (d.att + 1) = true := by
                have := hm.2 (by omega)
                simpa [hcd'] using this
              have h0 : g d.att = false := by simpa [hcd'] using hr0'
              exact ⟨hc, hcd', h0, h1⟩
        exact H.trans _ _ _ (H.symm _ _ (iter_cg H _ _ _ hk)) (H.agree_settle s)
  · simp only [hc, Bool.false_eq_true, if_false, Eng.runMicro, Eng.micro]
    exact H.refl _

theorem settle_fields (g : Nat → Bool) (c : Cfg) (d : DSt) :
    (settle g c d).1.settles = d.settles + 1 ∧ (settle g c d).1.dirty = d.dirty := by
  unfold settle
  by_cases hc : c.comb = true <;> simp [hc]

/-- The simulation invariant between a hybrid run (`k`) and the JIT-only run (`n`). -/
def Inv (R : σ → σ → Prop) (E : Eng σ) (xk xn : DSt × σ) : Prop :=
  xk.1.dirty = xn.1.dirty ∧ R xk.2 xn.2 ∧
  (xk.1.settles = 0 → xk.1.att = 0 ∧ xk.1.constDone = false ∧ xk.1.dirty = true) ∧
  (0 < xk.1.settles → KOk R E xk.2)

/-- The first-settle gap: the constant-cone attempt (number 0) is refused and the main attempt
    (number 1) is served. -/
def FirstSettleGap (c : Cfg) (g : Nat → Bool) : Prop := c.comb = true ∧ g 0 = false ∧ g 1 = true

theorem ensure_inv (H : Hyp R E (max c.passes 1)) (g : Nat → Bool) (hno : ¬ FirstSettleGap c g)
    (dk dn : DSt) (sk sn : σ) (h : Inv R E (dk, sk) (dn, sn)) :
    Inv R E ((ensure g c dk).1, E.runMicro (ensure g c dk).2 sk)
            ((ensure never c dn).1, E.runMicro (ensure never c dn).2 sn) ∧
    0 < (ensure g c dk).1.settles := by
  obtain ⟨hd, hr, h0, hk⟩ := h
  simp only at hd hr h0 hk
  unfold ensure
  by_cases hdirty : dk.dirty = true
  · have hdn : dn.dirty = true := by rw [← hd]; exact hdirty
    simp only [hdirty, hdn, if_true]
    have hKk : dk.constDone = true → KOk R E sk := by
      intro hcd
      by_cases hs : dk.settles = 0
      · have := (h0 hs).2.1; rw [this] at hcd; cases hcd
      · exact hk (by omega)
    have hA : KOk R E sk ∨ ¬(c.comb = true ∧ dk.constDone = false ∧ g dk.att = false ∧ g (dk.att + 1) = true) := by
      by_cases hs : dk.settles = 0
      · right
        intro ⟨hc, _, hg0, hg1⟩
        have ha := (h0 hs).1
        rw [ha] at hg0 hg1
        exact hno ⟨hc, hg0, hg1⟩
      · left; exact hk (by omega)
    have hsk := settle_hyb H g dk sk hKk hA
    have hsn := settle_never (E := E) c dn sn
    have hf := settle_fields g c dk
    have hres : R (E.runMicro (settle g c dk).2 sk) (E.runMicro (settle never c dn).2 sn) := by
      rw [hsn.1]; exact H.trans _ _ _ hsk (H.cg_jS _ _ hr)
    refine ⟨⟨rfl, hres, ?_, ?_⟩, ?_⟩
    · intro hz
      have hz' : (settle g c dk).1.settles = 0 := hz
      omega
    · intro _
      exact KOk_resp H (H.symm _ _ hsk) (H.kok_jS sk)
    · show 0 < (settle g c dk).1.settles
      omega
  · have hdirty' : dk.dirty = false := by simpa using hdirty
    have hdn : dn.dirty = false := by rw [← hd]; exact hdirty'
    have hs : 0 < dk.settles := by
      by_cases hs : dk.settles = 0
      · have := (h0 hs).2.2; rw [hdirty'] at this; cases this
      · omega
    simp only [hdirty', hdn, Bool.false_eq_true, if_false, Eng.runMicro]
    exact ⟨⟨hd, hr, h0, hk⟩, hs⟩

theorem event_inv {p : Nat} (H : Hyp R E p) (g : Nat → Bool) (e : Nat)
    (dk dn : DSt) (sk sn : σ) (h : Inv R E (dk, sk) (dn, sn)) (hs : 0 < dk.settles) :
    Inv R E ((event g c e dk).1, E.runMicro (event g c e dk).2 sk)
            ((event never c e dn).1, E.runMicro (event never c e dn).2 sn) ∧
    0 < (event g c e dk).1.settles := by
  obtain ⟨hd, hr, h0, hk⟩ := h
  simp only at hd hr h0 hk
  have hkk := hk hs
  unfold event
  by_cases hev : c.ev e = true
  · by_cases hg : g dk.att = true
    · simp only [hev, hg, if_true, never, Bool.false_eq_true, if_false, Eng.runMicro, Eng.micro]
      refine ⟨⟨hd, H.trans _ _ _ (H.agree_event e sk) (H.cg_jE e _ _ hr), ?_, ?_⟩, hs⟩
      · intro hz; have hz' : dk.settles = 0 := hz; omega
      · intro _; exact H.keep_cE e sk hkk
    · simp only [hev, hg, if_true, never, Bool.false_eq_true, if_false, Eng.runMicro, Eng.micro]
      refine ⟨⟨hd, H.cg_jE e _ _ hr, ?_, ?_⟩, hs⟩
      · intro hz; have hz' : dk.settles = 0 := hz; omega
      · intro _; exact H.keep_jE e sk hkk
  · simp only [hev, Bool.false_eq_true, if_false, Eng.runMicro, Eng.micro]
    refine ⟨⟨hd, H.cg_jE e _ _ hr, ?_, ?_⟩, hs⟩
    · intro hz; have hz' : dk.settles = 0 := hz; omega
    · intro _; exact H.keep_jE e sk hkk

/-- An engine-independent write (inputs, reset level, commit) followed by `comb_dirty = true`. -/
theorem plain_inv (f : σ → σ) (hcg : ∀ s t, R s t → R (f s) (f t))
    (hkeep : ∀ s, KOk R E s → KOk R E (f s))
    (dk dn : DSt) (sk sn : σ) (h : Inv R E (dk, sk) (dn, sn)) :
    Inv R E ({ dk with dirty := true }, f sk) ({ dn with dirty := true }, f sn) := by
  obtain ⟨_, hr, h0, hk⟩ := h
  simp only at hr h0 hk
  refine ⟨rfl, hcg _ _ hr, ?_, ?_⟩
  · intro hz
    have hz' : dk.settles = 0 := hz
    exact ⟨(h0 hz').1, (h0 hz').2.1, rfl⟩
  · intro hs
    have hs' : 0 < dk.settles := hs
    exact hkeep _ (hk hs')

theorem dirty_eta (d : DSt) : ({ { d with dirty := true } with dirty := true } : DSt) = { d with dirty := true } := rfl

theorem machStep_inv (H : Hyp R E (max c.passes 1)) (g : Nat → Bool) (hno : ¬ FirstSettleGap c g)
    (o : Op) (xk xn : DSt × σ) (h : Inv R E xk xn) :
    Inv R E (machStep g c E xk o) (machStep never c E xn o) := by
  obtain ⟨dk, sk⟩ := xk
  obtain ⟨dn, sn⟩ := xn
  cases o with
  | new =>
    simp only [machStep, opStep, Eng.runMicro, Eng.micro]
    exact plain_inv _ (H.cg_setRst false) (H.keep_setRst false) dk dn sk sn h
  | set v =>
    simp only [machStep, opStep, Eng.runMicro, Eng.micro]
    exact plain_inv _ (H.cg_setIn v) (H.keep_setIn v) dk dn sk sn h
  | get =>
    simp only [machStep, opStep]
    exact (ensure_inv H g hno dk dn sk sn h).1
  | step =>
    simp only [machStep, opStep, runMicro_append, Eng.runMicro, Eng.micro]
    have h1 := ensure_inv H g hno dk dn sk sn h
    have h2 := event_inv (c := c) H g 0 _ _ _ _ h1.1 h1.2
    exact plain_inv _ H.cg_commit H.keep_commit _ _ _ _ h2.1
  | stepReset =>
    simp only [machStep, opStep, runMicro_append, Eng.runMicro, Eng.micro, List.cons_append, List.nil_append]
    have h0 := plain_inv _ (H.cg_setRst true) (H.keep_setRst true) dk dn sk sn h
    have h1 := ensure_inv H g hno _ _ _ _ h0
    have h2 := event_inv (c := c) H g 0 _ _ _ _ h1.1 h1.2
    have h3 := event_inv (c := c) H g 1 _ _ _ _ h2.1 h2.2
    have h4 := plain_inv _ H.cg_commit H.keep_commit _ _ _ _ h3.1
    have h5 := plain_inv _ (H.cg_setRst false) (H.keep_setRst false) _ _ _ _ h4
    exact h5

theorem machRun_inv (H : Hyp R E (max c.passes 1)) (g : Nat → Bool) (hno : ¬ FirstSettleGap c g) :
    ∀ (ops : List Op) (xk xn : DSt × σ), Inv R E xk xn →
      Inv R E (machRun g c E ops xk) (machRun never c E ops xn) := by
  intro ops
  induction ops with
  | nil => intro xk xn h; exact h
  | cons o os ih => intro xk xn h; exact ih _ _ (machStep_inv H g hno o xk xn h)

theorem inv_init {s t : σ} (h : R s t) : Inv R E (({} : DSt), s) (({} : DSt), t) :=
  ⟨rfl, h, fun _ => ⟨rfl, rfl, rfl⟩, fun hs => absurd hs (Nat.lt_irrefl 0)⟩

end Dispatch

/-! ## Constant cone once / every settle -/

section Once
variable {σ ι : Type} {R : σ → σ → Prop}

theorem iter_rel (f : σ → σ) (hcg : ∀ s t, R s t → R (f s) (f t)) :
    ∀ (n : Nat) (s t : σ), R s t → R (iter f n s) (iter f n t) := by
  intro n
  induction n with
  | zero => intro s t h; simpa [iter] using h
  | succ n ih => intro s t h; simp only [iter]; exact ih _ _ (hcg _ _ h)

theorem iter_keep (P : σ → Prop) (f : σ → σ) (hk : ∀ s, P s → P (f s)) :
    ∀ (n : Nat) (s : σ), P s → P (iter f n s) := by
  intro n
  induction n with
  | zero => intro s h; simpa [iter] using h
  | succ n ih => intro s h; simp only [iter]; exact ih _ (hk _ h)

theorem runOnce_rel
    (hsymm : ∀ s t, R s t → R t s) (htrans : ∀ a b c, R a b → R b c → R a c)
    (cC cM : σ → σ) (p : Nat) (x : ι → σ → σ)
    (cg_cC : ∀ s t, R s t → R (cC s) (cC t))
    (cg_cM : ∀ s t, R s t → R (cM s) (cM t))
    (cg_x : ∀ i s t, R s t → R (x i s) (x i t))
    (idem : ∀ s, R (cC (cC s)) (cC s))
    (keep_cM : ∀ s, R (cC s) s → R (cC (cM s)) (cM s))
    (keep_x : ∀ i s, R (cC s) s → R (cC (x i s)) (x i s)) :
    ∀ (ts : List (Tr ι)) (s t : σ) (done : Bool), R s t → (done = true → R (cC s) s) →
      R (runOnce cC cM p x ts (s, done)).1 (runEvery cC cM p x ts t) := by
  intro ts
  induction ts with
  | nil => intro s t done h _; simpa [runOnce, runEvery] using h
  | cons tr ts ih =>
    intro s t done h hk
    cases tr with
    | settle =>
      simp only [runOnce, runEvery]
      by_cases hd : done = true
      · simp only [hd, if_true]
        apply ih
        · have h1 : R s (cC t) := htrans _ _ _ (hsymm _ _ (hk hd)) (cg_cC _ _ h)
          exact iter_rel cM cg_cM p _ _ h1
        · intro _
          exact iter_keep (fun s => R (cC s) s) cM keep_cM p s (hk hd)
      · simp only [hd]
        apply ih
        · exact iter_rel cM cg_cM p _ _ (cg_cC _ _ h)
        · intro _
          exact iter_keep (fun s => R (cC s) s) cM keep_cM p (cC s) (idem s)
    | other i =>
      simp only [runOnce, runEvery]
      apply ih
      · exact cg_x i _ _ h
      · intro hd; exact keep_x i s (hk hd)

end Once

/-! ## The concrete machine satisfies the hypotheses -/

theorem toy_kok (s : Toy) : KOk ToyR toyEng s ↔ s.k = 7 := by
  unfold KOk ToyR toyEng
  constructor
  · intro h; exact h.2.2.2.1.symm
  · intro h; simp [h]

theorem toyHyp : Hyp ToyR toyEng (max toyCfg.passes 1) where
  refl := by intro s; simp [ToyR]
  symm := by
    intro s t h; unfold ToyR at *
    exact ⟨h.1.symm, h.2.1.symm, h.2.2.1.symm, h.2.2.2.1.symm, h.2.2.2.2.1.symm, h.2.2.2.2.2.symm⟩
  trans := by
    intro a b c h1 h2; unfold ToyR at *
    exact ⟨h1.1.trans h2.1, h1.2.1.trans h2.2.1, h1.2.2.1.trans h2.2.2.1, h1.2.2.2.1.trans h2.2.2.2.1,
      h1.2.2.2.2.1.trans h2.2.2.2.2.1, h1.2.2.2.2.2.trans h2.2.2.2.2.2⟩
  cg_jS := by intro s t h; unfold ToyR at *; simp [toyEng, h.1, h.2.1, h.2.2.1, h.2.2.2.2.2]
  cg_cC := by intro s t h; unfold ToyR at *; simp [toyEng, h.1, h.2.1, h.2.2.1, h.2.2.2.2.1, h.2.2.2.2.2]
  cg_cM := by intro s t h; unfold ToyR at *; simp [toyEng, h.1, h.2.1, h.2.2.1, h.2.2.2.1, h.2.2.2.2.2]
  cg_jE := by intro e s t h; unfold ToyR at *; simp [toyEng, h.1, h.2.1, h.2.2.1, h.2.2.2.1, h.2.2.2.2.1]
  cg_commit := by intro s t h; unfold ToyR at *; simp [toyEng, h.1, h.2.1, h.2.2.1, h.2.2.2.1, h.2.2.2.2.1, h.2.2.2.2.2]
  cg_setIn := by intro v s t h; unfold ToyR at *; simp [toyEng, h.2.1, h.2.2.1, h.2.2.2.1, h.2.2.2.2.1, h.2.2.2.2.2]
  cg_setRst := by intro b s t h; unfold ToyR at *; simp [toyEng, h.1, h.2.1, h.2.2.2.1, h.2.2.2.2.1, h.2.2.2.2.2]
  agree_settle := by intro s; simp [ToyR, toyEng, toyCfg, iter]
  agree_event := by intro e s; simp [ToyR, toyEng]
  absorb_cM := by intro s; simp [ToyR, toyEng]
  absorb_cC := by intro s; simp [ToyR, toyEng]
  kok_jS := by intro s; rw [toy_kok]; simp [toyEng]
  keep_jE := by intro e s; rw [toy_kok, toy_kok]; simp [toyEng]
  keep_cE := by intro e s; rw [toy_kok, toy_kok]; simp [toyEng]
  keep_commit := by intro s; rw [toy_kok, toy_kok]; simp [toyEng]
  keep_setIn := by intro v s; rw [toy_kok, toy_kok]; simp [toyEng]
  keep_setRst := by intro b s; rw [toy_kok, toy_kok]; simp [toyEng]

end VerylModel.Swap
