import VerylModel.Core.Sim
import VerylModel.Lemmas.SimFrame
/-!
A generic ordered combinational statement language for the specification lemmas of the simulator
optimisation passes (C03): full-width `dst := f(reads)`, partial `dst[lo +: w] := f(reads)`,
guards (`if`), sequential blocks. Expressions are semantic objects: an evaluation function
together with a read set it provably depends on only (`f(reads)`); storage is canonical — a full
store masks to the declared width `wd dst`.
-/
namespace VerylModel.Passes
open VerylModel.Sim (updF updF_same updF_other splice)

abbrev St := Nat → Nat

/-- `f(reads)`: a total function of the store that only looks at `reads` -/
structure PExpr where
  reads : List Nat
  eval : St → Nat
  loc : ∀ σ σ' : St, (∀ x ∈ reads, σ x = σ' x) → eval σ = eval σ'

mutual
inductive PStmt where
  | assign (dst : Nat) (e : PExpr)
  | part (dst lo w : Nat) (e : PExpr)
  | ite (c : PExpr) (t e : PStmts)
inductive PStmts where
  | nil
  | cons (s : PStmt) (ss : PStmts)
end

def PStmts.append : PStmts → PStmts → PStmts
  | .nil, b => b
  | .cons s a, b => .cons s (PStmts.append a b)

instance : Append PStmts := ⟨PStmts.append⟩

theorem nil_append (b : PStmts) : (PStmts.nil ++ b) = b := rfl
theorem cons_append (s : PStmt) (a b : PStmts) : (PStmts.cons s a ++ b) = PStmts.cons s (a ++ b) := rfl

def single (s : PStmt) : PStmts := .cons s .nil

section
variable (wd : Nat → Nat)

mutual
def execS : PStmt → St → St
  | .assign d e, σ => updF σ d (e.eval σ % 2 ^ wd d)
  | .part d lo w e, σ => updF σ d (splice (σ d) lo w (e.eval σ % 2 ^ w))
  | .ite c t e, σ => if c.eval σ ≠ 0 then exec t σ else exec e σ
def exec : PStmts → St → St
  | .nil, σ => σ
  | .cons s ss, σ => exec ss (execS s σ)
end

theorem exec_append : ∀ (a b : PStmts) (σ : St), exec wd (a ++ b) σ = exec wd b (exec wd a σ)
  | .nil, _, _ => rfl
  | .cons s a, b, σ => by
    rw [cons_append, exec, exec, exec_append a b]

theorem exec_single (s : PStmt) (σ : St) : exec wd (single s) σ = execS wd s σ := by
  simp [single, exec]

end

/-! ### syntactic read / write sets -/

mutual
def readsS : PStmt → List Nat
  | .assign _ e => e.reads
  | .part d _ _ e => d :: e.reads
  | .ite c t e => c.reads ++ readsSs t ++ readsSs e
def readsSs : PStmts → List Nat
  | .nil => []
  | .cons s ss => readsS s ++ readsSs ss
end

mutual
def writesS : PStmt → List Nat
  | .assign d _ => [d]
  | .part d _ _ _ => [d]
  | .ite _ t e => writesSs t ++ writesSs e
def writesSs : PStmts → List Nat
  | .nil => []
  | .cons s ss => writesS s ++ writesSs ss
end

theorem readsSs_append : ∀ (a b : PStmts), readsSs (a ++ b) = readsSs a ++ readsSs b
  | .nil, _ => rfl
  | .cons s a, b => by rw [cons_append, readsSs, readsSs, readsSs_append a b, List.append_assoc]

theorem writesSs_append : ∀ (a b : PStmts), writesSs (a ++ b) = writesSs a ++ writesSs b
  | .nil, _ => rfl
  | .cons s a, b => by rw [cons_append, writesSs, writesSs, writesSs_append a b, List.append_assoc]

section
variable (wd : Nat → Nat)

/-! ### frame: a statement changes only what it writes -/

mutual
theorem execS_frame (x : Nat) : ∀ (s : PStmt) (σ : St), x ∉ writesS s → execS wd s σ x = σ x
  | .assign d e, σ, h => by
    simp only [writesS, List.mem_singleton] at h
    simp only [execS]
    exact updF_other _ _ _ _ h
  | .part d lo w e, σ, h => by
    simp only [writesS, List.mem_singleton] at h
    simp only [execS]
    exact updF_other _ _ _ _ h
  | .ite c t e, σ, h => by
    simp only [writesS, List.mem_append, not_or] at h
    simp only [execS]
    split
    · exact exec_frame x t σ h.1
    · exact exec_frame x e σ h.2
theorem exec_frame (x : Nat) : ∀ (ss : PStmts) (σ : St), x ∉ writesSs ss → exec wd ss σ x = σ x
  | .nil, _, _ => rfl
  | .cons s ss, σ, h => by
    simp only [writesSs, List.mem_append, not_or] at h
    simp only [exec]
    rw [exec_frame x ss _ h.2, execS_frame x s σ h.1]
end

/-! ### agreement outside a set of "invisible" offsets -/

/-- the two stores agree on every offset outside `dead` -/
def AgreeOff (dead : Nat → Prop) (σ σ' : St) : Prop := ∀ x, ¬ dead x → σ x = σ' x

theorem agreeOff_eval {dead : Nat → Prop} {σ σ' : St} (h : AgreeOff dead σ σ') (e : PExpr)
    (hr : ∀ x ∈ e.reads, ¬ dead x) : e.eval σ = e.eval σ' :=
  e.loc σ σ' (fun x hx => h x (hr x hx))

theorem agreeOff_upd {dead : Nat → Prop} {σ σ' : St} (h : AgreeOff dead σ σ') (d : Nat) (v : Nat) :
    AgreeOff dead (updF σ d v) (updF σ' d v) := by
  intro x hx
  by_cases hxd : x = d
  · subst hxd
    rw [updF_same, updF_same]
  · rw [updF_other _ _ _ _ hxd, updF_other _ _ _ _ hxd]
    exact h x hx

mutual
/-- statements whose reads avoid `dead` map stores that agree outside `dead` to such stores -/
theorem agreeOff_execS {dead : Nat → Prop} : ∀ (s : PStmt) {σ σ' : St}, AgreeOff dead σ σ' → (∀ x ∈ readsS s, ¬ dead x) →
    AgreeOff dead (execS wd s σ) (execS wd s σ')
  | .assign d e, σ, σ', h, hr => by
    simp only [execS, readsS] at hr ⊢
    rw [agreeOff_eval h e hr]
    exact agreeOff_upd h d _
  | .part d lo w e, σ, σ', h, hr => by
    simp only [readsS, List.mem_cons, forall_eq_or_imp] at hr
    simp only [execS]
    rw [agreeOff_eval h e hr.2, h d hr.1]
    exact agreeOff_upd h d _
  | .ite c t e, σ, σ', h, hr => by
    simp only [readsS, List.mem_append] at hr
    simp only [execS]
    rw [agreeOff_eval h c (fun x hx => hr x (Or.inl (Or.inl hx)))]
    split
    · exact agreeOff_execSs t h (fun x hx => hr x (Or.inl (Or.inr hx)))
    · exact agreeOff_execSs e h (fun x hx => hr x (Or.inr hx))
theorem agreeOff_execSs {dead : Nat → Prop} : ∀ (ss : PStmts) {σ σ' : St}, AgreeOff dead σ σ' → (∀ x ∈ readsSs ss, ¬ dead x) →
    AgreeOff dead (exec wd ss σ) (exec wd ss σ')
  | .nil, _, _, h, _ => h
  | .cons s ss, σ, σ', h, hr => by
    simp only [readsSs, List.mem_append] at hr
    simp only [exec]
    exact agreeOff_execSs ss (agreeOff_execS s h (fun x hx => hr x (Or.inl hx))) (fun x hx => hr x (Or.inr hx))
end

end

end VerylModel.Passes
