import VerylModel.Core.ClockDomain
/-! Helper lemmas about the clock-domain lattice (`compatible` is an equivalence on the non-`None`
domains, `merge` is an associative "first id-bearing, else first non-None" selection). -/
namespace VerylModel.ClockDomain

namespace Dom

/-- Equivalence class of a domain: `none` for `None`; `some none` for `Implicit`; `some (some id)`
for `Explicit id` / `Inferred id`. -/
def cls : Dom → Option (Option Nat)
  | none => Option.none
  | implicit => some Option.none
  | explicit id => some (some id)
  | inferred id => some (some id)

theorem cls_eq_none {d : Dom} : d.cls = Option.none ↔ d = none := by
  cases d <;> simp [cls]

theorem cls_implicit {d : Dom} : d.cls = some Option.none ↔ d = implicit := by
  cases d <;> simp [cls]

theorem domainId_of_cls {a b : Dom} (h : a.cls = b.cls) : a.domainId = b.domainId := by
  cases a <;> cases b <;> simp_all [cls, domainId]

theorem compatible_iff_cls (a b : Dom) :
    a.compatible b = true ↔ (a.cls = Option.none ∨ b.cls = Option.none ∨ a.cls = b.cls) := by
  cases a <;> cases b <;> simp [compatible, domainId, cls]

theorem compatible_refl (a : Dom) : a.compatible a = true := by
  rw [compatible_iff_cls]; simp

theorem compatible_comm (a b : Dom) : a.compatible b = b.compatible a := by
  rw [Bool.eq_iff_iff, compatible_iff_cls, compatible_iff_cls]
  constructor <;> (intro h; rcases h with h | h | h <;> simp [h])

theorem compatible_none_left (a : Dom) : none.compatible a = true := by
  cases a <;> rfl

theorem compatible_none_right (a : Dom) : a.compatible none = true := by
  cases a <;> rfl

theorem merge_none_left (a : Dom) : none.merge a = a := by cases a <;> rfl
theorem merge_none_right (a : Dom) : a.merge none = a := by cases a <;> rfl

theorem merge_eq_none {a b : Dom} : a.merge b = none ↔ a = none ∧ b = none := by
  cases a <;> cases b <;> simp [merge, domainId]

theorem merge_assoc (a b c : Dom) : (a.merge b).merge c = a.merge (b.merge c) := by
  cases a <;> cases b <;> cases c <;> simp [merge, domainId]

/-- `merge` returns one of its arguments' classes: the left one unless it is `None`, or it is
`Implicit` while the right one is not `None`. -/
theorem cls_merge (a b : Dom) :
    (a.merge b).cls =
      if a.cls = Option.none then b.cls
      else if b.cls = Option.none then a.cls
      else if a.cls = some Option.none then b.cls else a.cls := by
  cases a <;> cases b <;> simp [merge, domainId, cls]

/-- For compatible operands the merged domain is compatible with `c` exactly when both are. -/
theorem compatible_merge {a b : Dom} (h : a.compatible b = true) (c : Dom) :
    (a.merge b).compatible c = (a.compatible c && b.compatible c) := by
  rw [Bool.eq_iff_iff, Bool.and_eq_true]
  simp only [compatible_iff_cls, cls_merge] at *
  cases a <;> cases b <;> cases c <;> simp_all [cls]

/-- Class-preserving relabelling commutes with `merge`. -/
theorem cls_merge_congr {a a' b b' : Dom} (ha : a.cls = a'.cls) (hb : b.cls = b'.cls) :
    (a.merge b).cls = (a'.merge b').cls := by
  simp [cls_merge, ha, hb]

theorem compatible_congr {a a' b b' : Dom} (ha : a.cls = a'.cls) (hb : b.cls = b'.cls) :
    a.compatible b = a'.compatible b' := by
  rw [Bool.eq_iff_iff, compatible_iff_cls, compatible_iff_cls, ha, hb]

end Dom

/-- Merge of a list of domains in order. -/
def mergeAll : List Dom → Dom
  | [] => Dom.none
  | a :: l => a.merge (mergeAll l)

theorem mergeAll_append (l₁ l₂ : List Dom) :
    mergeAll (l₁ ++ l₂) = (mergeAll l₁).merge (mergeAll l₂) := by
  induction l₁ with
  | nil => simp [mergeAll, Dom.merge_none_left]
  | cons a l ih => simp [mergeAll, ih, Dom.merge_assoc]

/-- Pairwise compatibility of a list of domains. -/
def Consistent (ds : List Dom) : Prop := ∀ a ∈ ds, ∀ b ∈ ds, a.compatible b = true

theorem Consistent.nil : Consistent [] := by intro a ha; cases ha

theorem consistent_cons {a : Dom} {l : List Dom} :
    Consistent (a :: l) ↔ (∀ b ∈ l, a.compatible b = true) ∧ Consistent l := by
  constructor
  · intro h
    exact ⟨fun b hb => h a (by simp) b (by simp [hb]), fun x hx y hy => h x (by simp [hx]) y (by simp [hy])⟩
  · rintro ⟨h1, h2⟩ x hx y hy
    simp only [List.mem_cons] at hx hy
    rcases hx with rfl | hx <;> rcases hy with rfl | hy
    · exact Dom.compatible_refl _
    · exact h1 _ hy
    · rw [Dom.compatible_comm]; exact h1 _ hx
    · exact h2 _ hx _ hy

theorem consistent_append {l₁ l₂ : List Dom} :
    Consistent (l₁ ++ l₂) ↔
      Consistent l₁ ∧ Consistent l₂ ∧ ∀ a ∈ l₁, ∀ b ∈ l₂, a.compatible b = true := by
  constructor
  · intro h
    refine ⟨fun x hx y hy => h x (by simp [hx]) y (by simp [hy]),
      fun x hx y hy => h x (by simp [hx]) y (by simp [hy]),
      fun x hx y hy => h x (by simp [hx]) y (by simp [hy])⟩
  · rintro ⟨h1, h2, h3⟩ x hx y hy
    simp only [List.mem_append] at hx hy
    rcases hx with hx | hx <;> rcases hy with hy | hy
    · exact h1 _ hx _ hy
    · exact h3 _ hx _ hy
    · rw [Dom.compatible_comm]; exact h3 _ hy _ hx
    · exact h2 _ hx _ hy

/-- The merge of a consistent list is compatible with `c` exactly when every element is:
merging never launders a concrete domain. -/
theorem mergeAll_compatible {ds : List Dom} (h : Consistent ds) (c : Dom) :
    (mergeAll ds).compatible c = ds.all (fun d => d.compatible c) := by
  induction ds generalizing c with
  | nil => simp [mergeAll, Dom.compatible_none_left]
  | cons a l ih =>
    have ⟨h1, h2⟩ := consistent_cons.mp h
    have hc : a.compatible (mergeAll l) = true := by
      rw [Dom.compatible_comm, ih h2]
      simp only [List.all_eq_true]
      intro d hd; rw [Dom.compatible_comm]; exact h1 d hd
    simp [mergeAll, Dom.compatible_merge hc, ih h2]

theorem mergeAll_compatible_right {ds : List Dom} (h : Consistent ds) (c : Dom) :
    c.compatible (mergeAll ds) = ds.all (fun d => c.compatible d) := by
  rw [Dom.compatible_comm, mergeAll_compatible h]
  congr 1; funext d; exact Dom.compatible_comm _ _

/-- For two consistent lists, the merged roots are compatible iff the lists are cross-compatible. -/
theorem mergeAll_cross {l₁ l₂ : List Dom} (h₁ : Consistent l₁) (h₂ : Consistent l₂) :
    (mergeAll l₁).compatible (mergeAll l₂) = true ↔ ∀ a ∈ l₁, ∀ b ∈ l₂, a.compatible b = true := by
  rw [mergeAll_compatible h₁, List.all_eq_true]
  constructor
  · intro h a ha b hb
    have := h a ha
    rw [mergeAll_compatible_right h₂, List.all_eq_true] at this
    exact this b hb
  · intro h a ha
    rw [mergeAll_compatible_right h₂, List.all_eq_true]
    exact h a ha

theorem mergeAll_eq_none {ds : List Dom} : mergeAll ds = Dom.none ↔ ∀ d ∈ ds, d = Dom.none := by
  induction ds with
  | nil => simp [mergeAll]
  | cons a l ih => simp [mergeAll, Dom.merge_eq_none, ih]

theorem check_eq_nil {u : Bool} {a b : Dom} : check u a b = [] ↔ (u = true ∨ a.compatible b = true) := by
  unfold check
  cases u <;> cases h : a.compatible b <;> simp

end VerylModel.ClockDomain
