import VerylModel.Core.ExprRef
/-! The reference evaluator is well-formed: a value computed in a `w`-bit context fits in `w` bits. -/
namespace VerylModel.ExprRef

theorem ext_lt (v fw w : Nat) (s : Bool) : ext v fw w s < 2 ^ w := by
  unfold ext
  split
  · exact Nat.mod_lt _ (Nat.two_pow_pos w)
  · rename_i h
    have h1 : 2 ^ fw ≤ 2 ^ w := Nat.pow_le_pow_right (by decide) (by omega)
    have h2 := Nat.mod_lt v (Nat.two_pow_pos fw)
    split <;> omega

theorem ofInt_lt (w : Nat) (i : Int) : ofInt w i < 2 ^ w := by
  unfold ofInt
  have hpos : (0 : Int) < ((2 ^ w : Nat) : Int) := by exact_mod_cast Nat.two_pow_pos w
  have h1 := Int.emod_nonneg i (Int.ne_of_gt hpos)
  have h2 := Int.emod_lt_of_pos i hpos
  omega

theorem div_lt_of_lt {x y n : Nat} (h : x < n) : x / y < n := Nat.lt_of_le_of_lt (Nat.div_le_self _ _) h
theorem mod_lt_of_lt {x y n : Nat} (h : x < n) : x % y < n := Nat.lt_of_le_of_lt (Nat.mod_le _ _) h

theorem eval_lt (env : Env) (e : Expr) : ∀ w s v, eval env e w s = some v → v < 2 ^ w := by
  induction e with
  | port i =>
    intro w s v h
    simp only [eval, Option.some.injEq] at h
    subst h; exact ext_lt _ _ _ _
  | lit lw ls lv =>
    intro w s v h
    simp only [eval, Option.some.injEq] at h
    subst h; exact ext_lt _ _ _ _
  | un op a ih =>
    intro w s v h
    have hp := Nat.two_pow_pos w
    cases op
    case plus => exact ih _ _ _ (by simpa only [eval] using h)
    case neg =>
      simp only [eval, Option.map_eq_some_iff] at h
      obtain ⟨x, _, rfl⟩ := h
      exact Nat.mod_lt _ hp
    case bnot =>
      simp only [eval, Option.map_eq_some_iff] at h
      obtain ⟨x, _, rfl⟩ := h
      omega
    all_goals
      simp only [eval, Option.map_eq_some_iff] at h
      obtain ⟨x, _, rfl⟩ := h
      exact ext_lt _ _ _ _
  | bin op a b iha ihb =>
    intro w s v h
    have hp := Nat.two_pow_pos w
    cases op
    -- arithmetic / bitwise: both operands in the context (w, s)
    case add | sub | mul =>
      simp only [eval, BinOp.isArith, if_true] at h
      split at h
      · simp only [Option.some.injEq] at h
        subst h; exact Nat.mod_lt _ hp
      · cases h
    case div =>
      simp only [eval, BinOp.isArith, if_true] at h
      split at h
      · rename_i x y hx hy
        split at h
        · cases h
        · split at h <;> simp only [Option.some.injEq] at h <;> subst h
          · exact ofInt_lt _ _
          · exact div_lt_of_lt (iha _ _ _ hx)
      · cases h
    case mod =>
      simp only [eval, BinOp.isArith, if_true] at h
      split at h
      · rename_i x y hx hy
        split at h
        · cases h
        · split at h <;> simp only [Option.some.injEq] at h <;> subst h
          · exact ofInt_lt _ _
          · exact mod_lt_of_lt (iha _ _ _ hx)
      · cases h
    case band =>
      simp only [eval, BinOp.isArith, if_true] at h
      split at h
      · rename_i x y hx hy
        simp only [Option.some.injEq] at h
        subst h; exact Nat.lt_of_le_of_lt Nat.and_le_left (iha _ _ _ hx)
      · cases h
    case bor =>
      simp only [eval, BinOp.isArith, if_true] at h
      split at h
      · rename_i x y hx hy
        simp only [Option.some.injEq] at h
        subst h; exact Nat.or_lt_two_pow (iha _ _ _ hx) (ihb _ _ _ hy)
      · cases h
    case bxor =>
      simp only [eval, BinOp.isArith, if_true] at h
      split at h
      · rename_i x y hx hy
        simp only [Option.some.injEq] at h
        subst h; exact Nat.xor_lt_two_pow (iha _ _ _ hx) (ihb _ _ _ hy)
      · cases h
    case bxnor =>
      simp only [eval, BinOp.isArith, if_true] at h
      split at h
      · simp only [Option.some.injEq] at h
        subst h; omega
      · cases h
    -- comparisons and logical operators: a 1-bit result zero-extended
    case eq | ne | lt | le | gt | ge | land | lor =>
      simp only [eval, BinOp.isArith, BinOp.isShift, BinOp.isCmp, if_true, if_false, Bool.false_eq_true] at h
      split at h
      · simp only [Option.some.injEq] at h
        subst h; exact ext_lt _ _ _ _
      · cases h
    -- shifts: left operand in the context, amount self-determined
    case shl | ashl =>
      simp only [eval, BinOp.isArith, BinOp.isShift, if_true, if_false, Bool.false_eq_true] at h
      split at h
      · simp only [Option.some.injEq] at h
        subst h
        split
        · exact hp
        · exact Nat.mod_lt _ hp
      · cases h
    case shr =>
      simp only [eval, BinOp.isArith, BinOp.isShift, if_true, if_false, Bool.false_eq_true] at h
      split at h
      · rename_i x k hx hk
        simp only [Option.some.injEq] at h
        subst h
        split
        · exact hp
        · exact div_lt_of_lt (iha _ _ _ hx)
      · cases h
    case ashr =>
      simp only [eval, BinOp.isArith, BinOp.isShift, if_true, if_false, Bool.false_eq_true] at h
      split at h
      · rename_i x k hx hk
        split at h <;> simp only [Option.some.injEq] at h <;> subst h
        · split
          · split <;> omega
          · exact ofInt_lt _ _
        · split
          · exact hp
          · exact div_lt_of_lt (iha _ _ _ hx)
      · cases h
  | ite c a b _ iha ihb =>
    intro w s v h
    simp only [eval] at h
    split at h
    · rename_i cv x y _ hx hy
      simp only [Option.some.injEq] at h
      subst h
      split
      · exact iha _ _ _ hx
      · exact ihb _ _ _ hy
    · cases h
  | cat a b _ _ =>
    intro w s v h
    simp only [eval] at h
    split at h
    · simp only [Option.some.injEq] at h
      subst h; exact ext_lt _ _ _ _
    · cases h

end VerylModel.ExprRef
