import VerylModel.Core.EmitModel
/-! Bounds and extension lemmas shared by the C01 theorems. -/
namespace VerylModel.SV

theorem two_pow_pos' (w : Nat) : 0 < 2 ^ w := Nat.pos_of_ne_zero (by simp)

theorem ext_lt (v fw tw : Nat) (s : Bool) : ext v fw tw s < 2 ^ tw := by
  unfold ext
  split
  · exact Nat.mod_lt _ (two_pow_pos' tw)
  · rename_i h
    have hle : 2 ^ fw ≤ 2 ^ tw := Nat.pow_le_pow_right (by decide) (by omega)
    have hm : v % 2 ^ fw < 2 ^ fw := Nat.mod_lt _ (two_pow_pos' fw)
    split <;> omega

theorem eval_lt (env : Env) (e : Expr) (w : Nat) (s : Bool) (v : Nat) (h : eval env e w s = some v) : v < 2 ^ w := by
  have hp := two_pow_pos' w
  cases e with
  | var id => simp only [eval, Option.some.injEq] at h; subst h; exact Nat.mod_lt _ hp
  | bitsel id i => simp only [eval, Option.some.injEq] at h; subst h; exact Nat.mod_lt _ hp
  | partsel id hi lo => simp only [eval, Option.some.injEq] at h; subst h; exact Nat.mod_lt _ hp
  | lit lw ls lv => simp only [eval, Option.some.injEq] at h; subst h; exact Nat.mod_lt _ hp
  | dec d => simp only [eval, Option.some.injEq] at h; subst h; exact Nat.mod_lt _ hp
  | fill b => simp only [eval, Option.some.injEq] at h; subst h; exact Nat.mod_lt _ hp
  | un op a =>
    cases op <;> simp only [eval, Option.map_eq_some_iff] at h <;> obtain ⟨x, _, rfl⟩ := h <;> exact Nat.mod_lt _ hp
  | bin op a b =>
    simp only [eval] at h
    split at h
    · split at h
      · simp only [Option.map_eq_some_iff] at h; obtain ⟨x, _, rfl⟩ := h; exact Nat.mod_lt _ hp
      · cases h
    · split at h
      · split at h
        · simp only [Option.some.injEq] at h; subst h; exact Nat.mod_lt _ hp
        · cases h
      · split at h
        · split at h
          · simp only [Option.map_eq_some_iff] at h; obtain ⟨x, _, rfl⟩ := h; exact Nat.mod_lt _ hp
          · cases h
        · split at h
          · split at h
            · simp only [Option.some.injEq] at h; subst h; exact Nat.mod_lt _ hp
            · cases h
          · split at h
            · simp only [Option.some.injEq] at h; subst h; exact Nat.mod_lt _ hp
            · cases h
  | cond c a b =>
    simp only [eval] at h
    split at h
    · simp only [Option.some.injEq] at h; subst h; exact Nat.mod_lt _ hp
    · cases h
  | cat a b =>
    simp only [eval] at h
    split at h
    · simp only [Option.some.injEq] at h; subst h; exact Nat.mod_lt _ hp
    · cases h
  | rep n a => simp only [eval, Option.map_eq_some_iff] at h; obtain ⟨x, _, rfl⟩ := h; exact Nat.mod_lt _ hp
  | sizeCast n a => simp only [eval, Option.map_eq_some_iff] at h; obtain ⟨x, _, rfl⟩ := h; exact Nat.mod_lt _ hp
  | typeCast n a => simp only [eval, Option.map_eq_some_iff] at h; obtain ⟨x, _, rfl⟩ := h; exact Nat.mod_lt _ hp
  | signCast sg a => simp only [eval, Option.map_eq_some_iff] at h; obtain ⟨x, _, rfl⟩ := h; exact Nat.mod_lt _ hp

end VerylModel.SV
