import VerylModel.Core.LsState
/-! Invariant of the language-server table model and its preservation by every notification. -/
namespace VerylModel.LsState

/-! ### list facts about `view`, `mk`, filters -/

theorem view_append (f : Nat) (A B : List Entry) : view f (A ++ B) = view f A ++ view f B := by
  simp [view, List.filter_append]

theorem view_nil (f : Nat) : view f [] = [] := rfl

theorem mem_mk {e : Entry} {f g : Nat} {ps : List Nat} (h : e ∈ mk f g ps) : e.file = f ∧ e.gen = g := by
  simp only [mk, List.mem_map] at h
  obtain ⟨p, _, rfl⟩ := h
  exact ⟨rfl, rfl⟩

theorem mk_payload (f g : Nat) (ps : List Nat) : (mk f g ps).map (·.payload) = ps := by
  induction ps with
  | nil => rfl
  | cons p ps ih => simp only [mk, List.map_cons] at ih ⊢; rw [ih]

theorem view_mk_same (f g : Nat) (ps : List Nat) : view f (mk f g ps) = ps := by
  unfold view
  rw [List.filter_eq_self.mpr, mk_payload]
  intro a ha
  simp [(mem_mk ha).1]

theorem view_mk_other {x f : Nat} (g : Nat) (ps : List Nat) (h : x ≠ f) : view x (mk f g ps) = [] := by
  unfold view
  rw [List.filter_eq_nil_iff.mpr]
  · rfl
  · intro a ha
    simp [(mem_mk ha).1]
    exact fun e => h e.symm

theorem view_drop_same (f : Nat) (T : List Entry) : view f (T.filter (fun e => e.file != f)) = [] := by
  unfold view
  rw [List.filter_filter, List.filter_eq_nil_iff.mpr]
  · rfl
  · intro a _
    simp

theorem view_drop_other {x f : Nat} (T : List Entry) (h : x ≠ f) :
    view x (T.filter (fun e => e.file != f)) = view x T := by
  unfold view
  rw [List.filter_filter]
  congr 1
  apply List.filter_congr
  intro a _
  by_cases ha : a.file = x
  · simp [ha, h]
  · simp [ha]

/-- filter by (file, generation) -/
def viewG (f g : Nat) (T : List Entry) : List Nat :=
  (T.filter (fun e => e.file == f && e.gen == g)).map (·.payload)

theorem viewG_append (f g : Nat) (A B : List Entry) : viewG f g (A ++ B) = viewG f g A ++ viewG f g B := by
  simp [viewG, List.filter_append]

theorem viewG_mk_same (f g : Nat) (ps : List Nat) : viewG f g (mk f g ps) = ps := by
  unfold viewG
  rw [List.filter_eq_self.mpr, mk_payload]
  intro a ha
  simp [(mem_mk ha).1, (mem_mk ha).2]

theorem viewG_mk_other_file {x f : Nat} (g g' : Nat) (ps : List Nat) (h : x ≠ f) :
    viewG x g' (mk f g ps) = [] := by
  unfold viewG
  rw [List.filter_eq_nil_iff.mpr]
  · rfl
  · intro a ha
    simp [(mem_mk ha).1]
    intro e
    exact absurd e.symm h

theorem viewG_old (f g : Nat) (T : List Entry) (n : Nat) (hle : ∀ e ∈ T, e.gen ≤ n) (hg : n < g) :
    viewG f g T = [] := by
  unfold viewG
  rw [List.filter_eq_nil_iff.mpr]
  · rfl
  · intro a ha
    have := hle a ha
    simp
    intro _
    omega

/-- What a table should show for `f` given a record `cur` of the buffers. -/
def curExpected (cfg : Cfg) (cur : Nat → Option (Nat × Nat)) (t f : Nat) : List Nat :=
  match cur f with
  | some (c, _) => cfg.ana t f c
  | none => []

theorem curExpected_none {cfg : Cfg} {cur : Nat → Option (Nat × Nat)} {t f : Nat} (h : cur f = none) :
    curExpected cfg cur t f = [] := by
  unfold curExpected; rw [h]

theorem curExpected_some {cfg : Cfg} {cur : Nat → Option (Nat × Nat)} {t f c g : Nat} (h : cur f = some (c, g)) :
    curExpected cfg cur t f = cfg.ana t f c := by
  unfold curExpected; rw [h]

theorem curExpected_congr {cfg : Cfg} {cur cur' : Nat → Option (Nat × Nat)} {t f : Nat} (h : cur f = cur' f) :
    curExpected cfg cur t f = curExpected cfg cur' t f := by
  unfold curExpected; rw [h]

theorem view_block_same (cfg : Cfg) (t : Nat) (cur : Nat → Option (Nat × Nat)) (f : Nat) :
    view f (block cfg t cur f) = curExpected cfg cur t f := by
  unfold block curExpected
  cases cur f with
  | none => rfl
  | some cg => obtain ⟨c, g⟩ := cg; exact view_mk_same f g _

theorem view_block_other (cfg : Cfg) (t : Nat) (cur : Nat → Option (Nat × Nat)) {f x : Nat} (h : f ≠ x) :
    view f (block cfg t cur x) = [] := by
  unfold block
  cases cur x with
  | none => rfl
  | some cg => obtain ⟨c, g⟩ := cg; exact view_mk_other g _ h

/-- One block per known file: the view of `f` is exactly `f`'s block. -/
theorem view_rebuild (cfg : Cfg) (t : Nat) (cur : Nat → Option (Nat × Nat)) (f : Nat) :
    ∀ known : List Nat, known.Nodup →
      view f (rebuild cfg t cur known) = if f ∈ known then curExpected cfg cur t f else [] := by
  intro known
  induction known with
  | nil => intro _; rfl
  | cons x xs ih =>
    intro hnd
    have hx : x ∉ xs := (List.nodup_cons.mp hnd).1
    have hxs := ih (List.nodup_cons.mp hnd).2
    unfold rebuild at hxs ⊢
    rw [List.flatMap_cons, view_append, hxs]
    by_cases hxf : f = x
    · subst hxf
      rw [view_block_same]
      simp [hx]
    · rw [view_block_other cfg t cur hxf]
      simp [hxf]

/-! ### the invariant -/

/-- What a table should show for `f` given the server's own record of the buffers. -/
def expectedCur (cfg : Cfg) (s : State) (t f : Nat) : List Nat := curExpected cfg s.cur t f

structure Inv (cfg : Cfg) (s : State) : Prop where
  gen_le : ∀ f c g, s.cur f = some (c, g) → g ≤ s.gen
  known_mem : ∀ f c g, s.cur f = some (c, g) → f ∈ s.known
  nodup : s.known.Nodup
  dropped : ∀ t, cfg.cls t = .dropped → ∀ f, view f (s.tbl t) = expectedCur cfg s t f
  fresh_le : ∀ t, cfg.cls t = .freshKeyed → ∀ e ∈ s.tbl t, e.gen ≤ s.gen
  fresh : ∀ t, cfg.cls t = .freshKeyed → ∀ f c g, s.cur f = some (c, g) → viewG f g (s.tbl t) = cfg.ana t f c

theorem inv_init (cfg : Cfg) : Inv cfg init where
  gen_le := by intro f c g h; simp [init] at h
  known_mem := by intro f c g h; simp [init] at h
  nodup := by simp [init]
  dropped := by
    intro t _ f
    show view f [] = curExpected cfg (fun _ => none) t f
    rw [curExpected_none rfl]; rfl
  fresh_le := by intro t _ e h; simp [init] at h
  fresh := by intro t _ f c g h; simp [init] at h

theorem inv_analyse {cfg : Cfg} {s : State} (h : Inv cfg s) (f c : Nat) : Inv cfg (analyse cfg s f c) where
  gen_le := by
    intro x c' g' hc
    simp only [analyse] at hc ⊢
    by_cases hx : x = f
    · simp [hx] at hc; omega
    · simp [hx] at hc; have := h.gen_le x c' g' hc; omega
  known_mem := by
    intro x c' g' hc
    simp only [analyse] at hc ⊢
    by_cases hx : x = f
    · subst hx; by_cases hm : x ∈ s.known <;> simp [hm]
    · simp [hx] at hc
      have := h.known_mem x c' g' hc
      by_cases hm : f ∈ s.known <;> simp [hm, this]
  nodup := by
    simp only [analyse]
    by_cases hm : f ∈ s.known
    · simp [hm, h.nodup]
    · simp [hm, h.nodup]
  dropped := by
    intro t ht x
    simp only [analyse, expectedCur, ht, dropTable]
    rw [view_append]
    by_cases hx : x = f
    · subst hx
      rw [view_drop_same, view_mk_same, curExpected_some (c := c) (g := s.gen + 1) (by simp)]
      rfl
    · rw [view_drop_other _ hx, view_mk_other _ _ hx, h.dropped t ht x, List.append_nil]
      exact curExpected_congr (by simp [hx])
  fresh_le := by
    intro t ht e he
    simp only [analyse, ht, dropTable, List.mem_append] at he ⊢
    rcases he with he | he
    · have := h.fresh_le t ht e he; omega
    · have := (mem_mk he).2; omega
  fresh := by
    intro t ht x c' g' hc
    simp only [analyse, ht, dropTable] at hc ⊢
    rw [viewG_append]
    by_cases hx : x = f
    · subst hx
      simp at hc
      obtain ⟨rfl, rfl⟩ := hc
      rw [viewG_old x (s.gen + 1) (s.tbl t) s.gen (h.fresh_le t ht) (by omega), viewG_mk_same]
      rfl
    · simp [hx] at hc
      rw [viewG_mk_other_file _ _ _ hx, h.fresh t ht x c' g' hc]
      simp

theorem inv_remove {cfg : Cfg} {s : State} (h : Inv cfg s) (f : Nat) : Inv cfg (remove cfg s f) where
  gen_le := by
    intro x c' g' hc
    simp only [remove] at hc ⊢
    by_cases hx : x = f
    · simp [hx] at hc
    · simp [hx] at hc; exact h.gen_le x c' g' hc
  known_mem := by
    intro x c' g' hc
    simp only [remove] at hc ⊢
    by_cases hx : x = f
    · simp [hx] at hc
    · simp [hx] at hc; exact h.known_mem x c' g' hc
  nodup := by simp only [remove]; exact h.nodup
  dropped := by
    intro t ht x
    simp only [remove, expectedCur, ht, dropTable]
    by_cases hx : x = f
    · subst hx
      rw [view_drop_same, curExpected_none (by simp)]
    · rw [view_drop_other _ hx, h.dropped t ht x]
      exact curExpected_congr (by simp [hx])
  fresh_le := by
    intro t ht e he
    simp only [remove, ht, dropTable] at he ⊢
    exact h.fresh_le t ht e he
  fresh := by
    intro t ht x c' g' hc
    simp only [remove, ht, dropTable] at hc ⊢
    by_cases hx : x = f
    · simp [hx] at hc
    · simp [hx] at hc; exact h.fresh t ht x c' g' hc

theorem inv_step {cfg : Cfg} {s : State} (h : Inv cfg s) (n : Note) : Inv cfg (step cfg s n) := by
  cases n with
  | opn f c => exact inv_analyse h f c
  | change f c => exact inv_analyse h f c
  | save f => exact h
  | close f => exact h
  | rename f g c => exact inv_analyse (inv_remove h f) g c
  | delete f => exact inv_remove h f
  | rescan f =>
    simp only [step]
    cases hc : s.cur f with
    | none => exact h
    | some cg => obtain ⟨c, g⟩ := cg; exact inv_analyse h f c

theorem inv_run {cfg : Cfg} {s : State} (h : Inv cfg s) (hist : List Note) : Inv cfg (run cfg s hist) := by
  induction hist generalizing s with
  | nil => exact h
  | cons n ns ih => exact ih (inv_step h n)

/-- Under the invariant every non-leaky table shows, for every file, exactly the analysis of the
    content the server last recorded for that file. -/
theorem obs_of_inv {cfg : Cfg} {s : State} (h : Inv cfg s) (t f : Nat) (hl : cfg.cls t ≠ .leaky) :
    obs cfg s t f = expectedCur cfg s t f := by
  unfold obs
  cases hc : cfg.cls t with
  | leaky => exact absurd hc hl
  | dropped => simpa using h.dropped t hc f
  | recomputed =>
    simp only
    rw [view_rebuild cfg t s.cur f s.known h.nodup]
    unfold expectedCur
    cases hcur : s.cur f with
    | none => rw [curExpected_none hcur]; simp
    | some cg =>
      obtain ⟨c, g⟩ := cg
      simp [h.known_mem f c g hcur]
  | freshKeyed =>
    simp only
    unfold expectedCur
    cases hcur : s.cur f with
    | none => rw [curExpected_none hcur]
    | some cg =>
      obtain ⟨c, g⟩ := cg
      rw [curExpected_some hcur]
      exact h.fresh t hc f c g hcur

/-! ### the server's record of the buffers is the specification's -/

def Agree (s : State) (b : Bufs) : Prop := ∀ f, (s.cur f).map Prod.fst = b f

theorem agree_init : Agree init noBufs := by intro f; rfl

theorem agree_step {cfg : Cfg} {s : State} {b : Bufs} (h : Agree s b) (n : Note) :
    Agree (step cfg s n) (bufStep b n) := by
  intro x
  cases n with
  | opn f c => by_cases hx : x = f <;> simp [step, analyse, bufStep, hx]; exact h x
  | change f c => by_cases hx : x = f <;> simp [step, analyse, bufStep, hx]; exact h x
  | save f => exact h x
  | close f => exact h x
  | rename f g c =>
    by_cases hg : x = g
    · simp [step, analyse, remove, bufStep, hg]
    · by_cases hf : x = f
      · simp [step, analyse, remove, bufStep, hf]
      · simp [step, analyse, remove, bufStep, hg, hf]; exact h x
  | delete f => by_cases hx : x = f <;> simp [step, remove, bufStep, hx]; exact h x
  | rescan f =>
    simp only [step, bufStep]
    cases hc : s.cur f with
    | none => exact h x
    | some cg =>
      obtain ⟨c, g⟩ := cg
      by_cases hx : x = f
      · subst hx
        have := h x
        simp [hc] at this
        simp [analyse, ← this]
      · simp [analyse, hx]; exact h x

theorem agree_run {cfg : Cfg} {s : State} {b : Bufs} (h : Agree s b) (hist : List Note) :
    Agree (run cfg s hist) (bufsOf b hist) := by
  induction hist generalizing s b with
  | nil => exact h
  | cons n ns ih => exact ih (agree_step h n)

theorem expectedCur_eq {cfg : Cfg} {s : State} {b : Bufs} (h : Agree s b) (t f : Nat) :
    expectedCur cfg s t f = expected cfg b t f := by
  unfold expectedCur expected
  have := h f
  cases hc : s.cur f with
  | none => rw [hc] at this; rw [curExpected_none hc, ← this]; rfl
  | some cg => obtain ⟨c, g⟩ := cg; rw [hc] at this; rw [curExpected_some hc, ← this]; rfl

end VerylModel.LsState
