import VerylModel.Lemmas.WideBits
/-! Helper lemmas for C18 (part A): wide_shl / wide_lshr / wide_ashr. -/
namespace VerylModel.Wide

theorem rd_testBit (a : List Nat) (i j : Nat) (hj : j < 64) : (rd a i).testBit j = bitAt a (64 * i + j) :=
  (bitAt_mul_add a i j hj).symm

theorem bitAt_congr (a : List Nat) {k k' : Nat} (h : k = k') : bitAt a k = bitAt a k' := by rw [h]

theorem zeros_words (n : Nat) : Words (mapWords n fun _ => 0) := mapWords_words _ _ fun _ _ => W_pos

theorem shl_word_lt (lo hi bs : Nat) (hhi : hi < W) : ((lo <<< bs) % W) ||| (hi >>> (64 - bs)) < W := by
  apply or_lt_W (Nat.mod_lt _ W_pos)
  rw [Nat.shiftRight_eq_div_pow]
  exact Nat.lt_of_le_of_lt (Nat.div_le_self _ _) hhi

theorem shl_words (n : Nat) (a : List Nat) (amount : Nat) (ha : Words a) : Words (shl n a amount) := by
  unfold shl
  simp only
  split
  · exact zeros_words n
  · apply mapWords_words
    intro i _
    have hlo : (if i ≥ amount / 64 then rd a (i - amount / 64) else 0) < W := by
      split
      · exact rd_lt ha _
      · exact W_pos
    have hhi : (if i > amount / 64 then rd a (i - amount / 64 - 1) else 0) < W := by
      split
      · exact rd_lt ha _
      · exact W_pos
    split
    · exact hlo
    · exact shl_word_lt _ _ _ hhi

/-- bit `k` of `wide_shl`'s result. -/
theorem bitAt_shl (n : Nat) (a : List Nat) (amount : Nat) (ha : Words a) (k : Nat) :
    bitAt (shl n a amount) k = (decide (k < 64 * n) && (decide (amount ≤ k) && bitAt a (k - amount))) := by
  have hj : k % 64 < 64 := Nat.mod_lt _ (by decide)
  unfold shl
  simp only
  split
  · rename_i hws
    rw [bitAt_mapWords]
    by_cases h : k < 64 * n
    · have : ¬ amount ≤ k := by omega
      simp [this]
    · simp [h]
  · rename_i hws
    rw [bitAt_mapWords]
    by_cases hi : k / 64 < n
    · have hk : k < 64 * n := by omega
      simp only [hi, hk, decide_true, Bool.true_and]
      by_cases hbs : amount % 64 = 0
      · simp only [hbs, if_true]
        by_cases h1 : k / 64 ≥ amount / 64
        · have h2 : amount ≤ k := by omega
          simp only [h1, if_true, h2, decide_true, Bool.true_and]
          rw [rd_testBit _ _ _ hj]
          exact bitAt_congr a (by omega)
        · have h2 : ¬ amount ≤ k := by omega
          simp [h1, h2]
      · simp only [hbs, if_false]
        rw [Nat.testBit_or, W_eq, Nat.testBit_mod_two_pow, Nat.testBit_shiftLeft, Nat.testBit_shiftRight]
        simp only [hj, decide_true, Bool.true_and]
        by_cases hjb : k % 64 ≥ amount % 64
        · -- the high part contributes nothing
          have hhi : (if k / 64 > amount / 64 then rd a (k / 64 - amount / 64 - 1) else 0).testBit (64 - amount % 64 + k % 64) = false := by
            apply word_testBit_ge
            · split
              · exact rd_lt ha _
              · exact W_pos
            · omega
          rw [hhi, Bool.or_false]
          simp only [hjb, decide_true, Bool.true_and]
          by_cases h1 : k / 64 ≥ amount / 64
          · have h2 : amount ≤ k := by omega
            simp only [h1, if_true, h2, decide_true, Bool.true_and]
            rw [rd_testBit _ _ _ (by omega)]
            exact bitAt_congr a (by omega)
          · have h2 : ¬ amount ≤ k := by omega
            simp [h1, h2]
        · simp only [hjb, decide_false, Bool.false_and, Bool.false_or]
          by_cases h1 : k / 64 > amount / 64
          · have h2 : amount ≤ k := by omega
            simp only [h1, if_true, h2, decide_true, Bool.true_and]
            rw [rd_testBit _ _ _ (by omega)]
            exact bitAt_congr a (by omega)
          · have h2 : ¬ amount ≤ k := by omega
            simp [h1, h2]
    · have hk : ¬ k < 64 * n := by omega
      simp [hi, hk]

theorem shl_toNat (n : Nat) (a : List Nat) (amount : Nat) (ha : Words a) :
    toNat (shl n a amount) = (toNat a * 2 ^ amount) % 2 ^ (64 * n) := by
  apply toNat_eq_of_bits (shl_words n a amount ha)
  intro k
  rw [bitAt_shl n a amount ha, Nat.testBit_mod_two_pow, Nat.testBit_mul_two_pow, testBit_toNat ha]

-- ── lshr ────────────────────────────────────────────────────────────────────────────────────

theorem lshr_word_lt (lo hi bs : Nat) (hlo : lo < W) : (lo >>> bs) ||| ((hi <<< (64 - bs)) % W) < W := by
  apply or_lt_W _ (Nat.mod_lt _ W_pos)
  rw [Nat.shiftRight_eq_div_pow]
  exact Nat.lt_of_le_of_lt (Nat.div_le_self _ _) hlo

theorem lshr_words (n : Nat) (a : List Nat) (amount : Nat) (ha : Words a) : Words (lshr n a amount) := by
  unfold lshr
  simp only
  split
  · exact zeros_words n
  · apply mapWords_words
    intro i _
    have hlo : (if i + amount / 64 < n then rd a (i + amount / 64) else 0) < W := by
      split
      · exact rd_lt ha _
      · exact W_pos
    split
    · exact hlo
    · exact lshr_word_lt _ _ _ hlo

/-- bit `k` of `wide_lshr`'s result (source bits at or above `64 n` read as 0). -/
theorem bitAt_lshr (n : Nat) (a : List Nat) (amount : Nat) (ha : Words a) (k : Nat) :
    bitAt (lshr n a amount) k = (decide (k + amount < 64 * n) && bitAt a (k + amount)) := by
  have hj : k % 64 < 64 := Nat.mod_lt _ (by decide)
  unfold lshr
  simp only
  split
  · rename_i hws
    rw [bitAt_mapWords]
    have : ¬ k + amount < 64 * n := by omega
    simp [this]
  · rename_i hws
    rw [bitAt_mapWords]
    by_cases hi : k / 64 < n
    · simp only [hi, decide_true, Bool.true_and]
      by_cases hbs : amount % 64 = 0
      · simp only [hbs, if_true]
        by_cases h1 : k / 64 + amount / 64 < n
        · have h2 : k + amount < 64 * n := by omega
          simp only [h1, if_true, h2, decide_true, Bool.true_and]
          rw [rd_testBit _ _ _ hj]
          exact bitAt_congr a (by omega)
        · have h2 : ¬ k + amount < 64 * n := by omega
          simp [h1, h2]
      · simp only [hbs, if_false]
        rw [Nat.testBit_or, W_eq, Nat.testBit_mod_two_pow, Nat.testBit_shiftLeft, Nat.testBit_shiftRight]
        simp only [hj, decide_true, Bool.true_and]
        by_cases hjb : amount % 64 + k % 64 < 64
        · -- comes from the low source word
          have hge : ¬ k % 64 ≥ 64 - amount % 64 := by omega
          simp only [hge, decide_false, Bool.false_and, Bool.or_false]
          by_cases h1 : k / 64 + amount / 64 < n
          · have h2 : k + amount < 64 * n := by omega
            simp only [h1, if_true, h2, decide_true, Bool.true_and]
            rw [rd_testBit _ _ _ hjb]
            exact bitAt_congr a (by omega)
          · have h2 : ¬ k + amount < 64 * n := by omega
            simp [h1, h2]
        · -- comes from the high source word; the low word's bit index is ≥ 64
          have hlo : (if k / 64 + amount / 64 < n then rd a (k / 64 + amount / 64) else 0).testBit (amount % 64 + k % 64) = false := by
            apply word_testBit_ge
            · split
              · exact rd_lt ha _
              · exact W_pos
            · omega
          have hge : k % 64 ≥ 64 - amount % 64 := by omega
          rw [hlo, Bool.false_or]
          simp only [hge, decide_true, Bool.true_and]
          by_cases h1 : k / 64 + amount / 64 + 1 < n
          · have h2 : k + amount < 64 * n := by omega
            simp only [h1, if_true, h2, decide_true, Bool.true_and]
            rw [rd_testBit _ _ _ (by omega)]
            exact bitAt_congr a (by omega)
          · have h2 : ¬ k + amount < 64 * n := by omega
            simp [h1, h2]
    · have hk : ¬ k + amount < 64 * n := by omega
      simp [hi, hk]

theorem lshr_toNat (n : Nat) (a : List Nat) (amount : Nat) (hla : a.length = n) (ha : Words a) :
    toNat (lshr n a amount) = toNat a / 2 ^ amount := by
  apply toNat_eq_of_bits (lshr_words n a amount ha)
  intro k
  rw [bitAt_lshr n a amount ha, Nat.testBit_div_two_pow, testBit_toNat ha]
  by_cases h : k + amount < 64 * n
  · simp [h]
  · have : bitAt a (k + amount) = false := bitAt_of_length_le (by omega)
    simp [h, this]

end VerylModel.Wide
