import VerylModel.Lemmas.BitsReduce
set_option linter.unusedSimpArgs false
set_option linter.unusedVariables false
/-! Equality operators: image comparison of op.rs vs. §11.4.5. -/
namespace VerylModel.Bits
open Ref Impl

theorem packN_eq_zero {n : Nat} {f : Nat → Bool} (h : ∀ i, i < n → f i = false) : packN n f = 0 := by
  apply Nat.eq_of_testBit_eq; intro i
  rw [testBit_packN, Nat.zero_testBit]
  by_cases hi : i < n
  · simp [h i hi]
  · simp [hi]

theorem ext_mask_zero (x : V4) (W : Nat) (s : Bool) (h : x.mask = 0) : (ext x W s).mask = 0 := by
  unfold ext BV.ofFn
  apply packN_eq_zero
  intro i _
  unfold extBit V4.bit bitOf
  simp only [h, Nat.zero_testBit]
  split
  · simp
  · split
    · simp
    · split
      · simp
      · rfl

theorem bitOf_eq_b1 (p m i : Nat) : (bitOf p m i == B4.b1) = (p.testBit i && !m.testBit i) := by
  unfold bitOf; cases p.testBit i <;> cases m.testBit i <;> rfl

/-- The "image" comparison of `Op::Eq`/`Op::Ne` (`payload & !mask_xz` of both sides): the images
    differ iff at some position exactly one side is a known 1. -/
theorem img_ne_iff (pa ma pb mb W K : Nat) (hpa : pa < 2 ^ W) (hpb : pb < 2 ^ W) (hK : W ≤ K) :
    ((pa &&& (ma ^^^ (2 ^ K - 1))) != (pb &&& (mb ^^^ (2 ^ K - 1)))) =
      anyLt W (fun i => (bitOf pa ma i == .b1) != (bitOf pb mb i == .b1)) := by
  rw [Bool.eq_iff_iff, anyLt_iff]
  have key : ∀ i, i < W → ((pa &&& (ma ^^^ (2 ^ K - 1))).testBit i = (bitOf pa ma i == .b1) ∧
      (pb &&& (mb ^^^ (2 ^ K - 1))).testBit i = (bitOf pb mb i == .b1)) := by
    intro i hi
    have : i < K := by omega
    simp [Nat.testBit_and, Nat.testBit_xor, testBit_mask, this, bitOf_eq_b1]
  constructor
  · intro h
    have hne : (pa &&& (ma ^^^ (2 ^ K - 1))) ≠ (pb &&& (mb ^^^ (2 ^ K - 1))) := by simpa using h
    obtain ⟨i, hi⟩ := exists_testBit_ne_of_ne hne
    have hiW : i < W := by
      apply Classical.byContradiction; intro hc
      apply hi
      simp [Nat.testBit_and, testBit_of_lt hpa (Nat.le_of_not_lt hc), testBit_of_lt hpb (Nat.le_of_not_lt hc)]
    refine ⟨i, hiW, ?_⟩
    rw [← (key i hiW).1, ← (key i hiW).2]
    simpa using hi
  · rintro ⟨i, hiW, hb⟩
    rw [← (key i hiW).1, ← (key i hiW).2] at hb
    have : (pa &&& (ma ^^^ (2 ^ K - 1))) ≠ (pb &&& (mb ^^^ (2 ^ K - 1))) := by
      intro h; rw [h] at hb; simp at hb
    simpa using this

/-- No position where one side is X/Z and the other a known 1 (the only situation in which
    `Op::Eq`/`Op::Ne` leave IEEE). -/
def noXFacingOne (W : Nat) (a b : BV) : Prop :=
  ∀ i, i < W → ¬ (a.bit i = .b1 ∧ (b.bit i).known = false) ∧ ¬ (b.bit i = .b1 ∧ (a.bit i).known = false)

theorem eqBV_eq_flags (W : Nat) (a b : BV) (K : Nat) (hpa : a.payload < 2 ^ W) (hpb : b.payload < 2 ^ W)
    (hK : W ≤ K) (H : noXFacingOne W a b) :
    eqBV W a b = b4_0x ((a.payload &&& (a.mask ^^^ (2 ^ K - 1))) != (b.payload &&& (b.mask ^^^ (2 ^ K - 1))))
      (a.mask != 0 || b.mask != 0) := by
  unfold eqBV b4_0x BV.hasXZ
  rw [img_ne_iff _ _ _ _ W K hpa hpb hK]
  have : anyLt W (fun i => (a.bit i).known && (b.bit i).known && (a.bit i != b.bit i)) =
      anyLt W (fun i => (bitOf a.payload a.mask i == .b1) != (bitOf b.payload b.mask i == .b1)) := by
    rw [Bool.eq_iff_iff, anyLt_iff, anyLt_iff]
    constructor
    · rintro ⟨i, hi, hb⟩
      refine ⟨i, hi, ?_⟩
      unfold BV.bit at hb
      revert hb
      cases bitOf a.payload a.mask i <;> cases bitOf b.payload b.mask i <;> decide
    · rintro ⟨i, hi, hb⟩
      refine ⟨i, hi, ?_⟩
      have h1 := (H i hi).1
      have h2 := (H i hi).2
      unfold BV.bit at h1 h2 ⊢
      revert hb h1 h2
      cases bitOf a.payload a.mask i <;> cases bitOf b.payload b.mask i <;> decide
  rw [this]

theorem noXFacingOne_of_known (W : Nat) (a b : BV) (ha : a.mask = 0) (hb : b.mask = 0) :
    noXFacingOne W a b := by
  intro i _
  unfold BV.bit bitOf
  simp only [ha, hb, Nat.zero_testBit]
  cases a.payload.testBit i <;> cases b.payload.testBit i <;> decide

/-! ### wildcard equality -/

theorem bne_zero_eq_anyLt (n W : Nat) (f : Nat → Bool)
    (h : ∀ i, n.testBit i = (decide (i < W) && f i)) : (n != 0) = anyLt W f := by
  rw [Bool.eq_iff_iff, bne_zero_iff, anyLt_iff]
  constructor
  · rintro ⟨i, hi⟩
    rw [h] at hi
    simp only [Bool.and_eq_true, decide_eq_true_eq] at hi
    exact ⟨i, hi.1, hi.2⟩
  · rintro ⟨i, hiW, hf⟩
    exact ⟨i, by rw [h]; simp [hiW, hf]⟩

/-- `==?` flags of both arms vs. §11.4.6 (`K` = 64 or the width). -/
theorem wild_flags_eq (a b : V4) (W K : Nat) (ha : a.wf) (hb : b.wf) (hwa : a.width = W) (hwb : b.width = W)
    (hK : W ≤ K) :
    eqwBV W a.toBV b.toBV =
      b4_0x ((((a.payload ^^^ b.payload) &&& (b.mask ^^^ (2 ^ K - 1))) &&& (a.mask ^^^ (2 ^ K - 1))) != 0)
        ((a.mask &&& (b.mask ^^^ (2 ^ K - 1))) != 0) := by
  unfold eqwBV b4_0x
  rw [bne_zero_eq_anyLt _ W (fun i => (b.toBV.bit i).known && (a.toBV.bit i).known && (a.toBV.bit i != b.toBV.bit i)),
      bne_zero_eq_anyLt _ W (fun i => (b.toBV.bit i).known && !(a.toBV.bit i).known)]
  · intro i
    simp only [Nat.testBit_and, Nat.testBit_xor, testBit_mask, BV.bit, bitOf, V4.toBV]
    by_cases h : i < W
    · have : i < K := by omega
      simp only [h, this, decide_true, Bool.true_and, Bool.xor_true]
      cases a.payload.testBit i <;> cases a.mask.testBit i <;> cases b.payload.testBit i <;>
        cases b.mask.testBit i <;> rfl
    · simp [h, testBit_ge_false ha hwa h]
  · intro i
    simp only [Nat.testBit_and, Nat.testBit_xor, testBit_mask, BV.bit, bitOf, V4.toBV]
    by_cases h : i < W
    · have : i < K := by omega
      simp only [h, this, decide_true, Bool.true_and, Bool.xor_true]
      cases a.payload.testBit i <;> cases a.mask.testBit i <;> cases b.payload.testBit i <;>
        cases b.mask.testBit i <;> rfl
    · simp [h, testBit_ge_false ha hwa h, testBit_ge_false hb hwb h]

theorem Big.wildFlags_eq_ref (a b : V4) (W : Nat) (ha : a.wf) (hb : b.wf) (hwa : a.width = W)
    (hwb : b.width = W) :
    eqwBV W a.toBV b.toBV = b4_0x (Big.wildFlags a b).1 (Big.wildFlags a b).2 := by
  rw [wild_flags_eq a b W W ha hb hwa hwb (Nat.le_refl _)]
  simp [Big.wildFlags, Big.genMask, hwb]

theorem U64.wildFlags_eq_ref (a b : V4) (W : Nat) (h64 : W ≤ 64) (ha : a.wf) (hb : b.wf)
    (hwa : a.width = W) (hwb : b.width = W) :
    eqwBV W a.toBV b.toBV = b4_0x (U64.wildFlags a b).1 (U64.wildFlags a b).2 := by
  rw [wild_flags_eq a b W 64 ha hb hwa hwb h64]
  simp [U64.wildFlags, U64.not, U64.MAX]

end VerylModel.Bits
