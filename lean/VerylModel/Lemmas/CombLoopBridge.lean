import VerylModel.Lemmas.CombLoopHier
import VerylModel.Lemmas.CombLoopSsa
/-!
The detector graphs built with the SSA store have the same edges as those built with `liveIn`.
-/
namespace VerylModel.CombLoop

theorem hasCycle_of_edges_iff {α : Type} {g g' : Graph α} (h : ∀ e, e ∈ g ↔ e ∈ g') :
    HasCycle g ↔ HasCycle g' :=
  ⟨HasCycle.mono (fun e => (h e).1), HasCycle.mono (fun e => (h e).2)⟩

theorem Path.congr {α : Type} {g g' : Graph α} (h : ∀ e, e ∈ g ↔ e ∈ g') {a b : α} :
    Path g a b ↔ Path g' a b :=
  ⟨Path.mono (fun e => (h e).1), Path.mono (fun e => (h e).2)⟩

theorem flatMap_edges_congr {κ : Type} [DecidableEq κ] (keysOf : Acc → List κ) (blocks : List Stmt)
    (e : κ × κ) : e ∈ blocks.flatMap (ssaEdges keysOf) ↔ e ∈ blocks.flatMap (blockEdges keysOf) := by
  obtain ⟨x, k⟩ := e
  simp only [List.mem_flatMap]
  constructor
  · rintro ⟨st, hst, h⟩
    exact ⟨st, hst, (ssaEdges_iff keysOf st x k).1 h⟩
  · rintro ⟨st, hst, h⟩
    exact ⟨st, hst, (ssaEdges_iff keysOf st x k).2 h⟩

theorem flatRangeGraph_edges (m : Flat) (e : Atom × Atom) :
    e ∈ flatRangeGraph m ↔ e ∈ flatRangeGraphD m :=
  flatMap_edges_congr _ _ e

theorem summaryOf_congr (m : Flat) {g g' : Graph Atom} (h : ∀ e, e ∈ g ↔ e ∈ g') (pq : Nat × Nat) :
    pq ∈ summaryOf m g ↔ pq ∈ summaryOf m g' := by
  obtain ⟨p, q⟩ := pq
  rw [mem_summaryOf, mem_summaryOf]
  have hn : ∀ A, A ∈ graphNodes g ↔ A ∈ graphNodes g' := by
    intro A
    rw [mem_graphNodes, mem_graphNodes]
    constructor
    · rintro ⟨e, he, hA⟩; exact ⟨e, (h e).1 he, hA⟩
    · rintro ⟨e, he, hA⟩; exact ⟨e, (h e).2 he, hA⟩
  constructor
  · rintro ⟨hp, hq, A, hA, hAp, B, hB, hAB⟩
    exact ⟨hp, hq, A, (hn A).1 hA, hAp, B, hB, hAB.imp id (Path.congr h).1⟩
  · rintro ⟨hp, hq, A, hA, hAp, B, hB, hAB⟩
    exact ⟨hp, hq, A, (hn A).2 hA, hAp, B, hB, hAB.imp id (Path.congr h).2⟩

theorem topRangeGraph_edges (d : Design) (e : Atom × Atom) :
    e ∈ topRangeGraph d ↔ e ∈ topRangeGraphD d := by
  unfold topRangeGraph topRangeGraphD
  rw [List.mem_append, List.mem_append, flatMap_edges_congr]
  apply or_congr Iff.rfl
  unfold topInstEdges
  simp only [List.mem_flatMap]
  apply exists_congr
  intro i
  apply and_congr Iff.rfl
  cases hc : d.children[i.child]? with
  | none => exact Iff.rfl
  | some c =>
    obtain ⟨A, B⟩ := e
    simp only [mem_instEdges]
    constructor
    · rintro ⟨p, a, q, dd, h1, h2, h3, h4, h5, h6⟩
      exact ⟨p, a, q, dd, h1, h2, h3, h4, (summaryOf_congr c (flatRangeGraph_edges c) (p, q)).1 h5, h6⟩
    · rintro ⟨p, a, q, dd, h1, h2, h3, h4, h5, h6⟩
      exact ⟨p, a, q, dd, h1, h2, h3, h4, (summaryOf_congr c (flatRangeGraph_edges c) (p, q)).2 h5, h6⟩

theorem detVerdict_eq_D (d : Design) : detVerdict d = detVerdictD d := by
  unfold detVerdict detVerdictD
  congr 1
  · congr 1
    funext c
    exact hasCycle_congr (hasCycle_of_edges_iff (flatRangeGraph_edges c))
  · exact hasCycle_congr (hasCycle_of_edges_iff (topRangeGraph_edges d))

end VerylModel.CombLoop
