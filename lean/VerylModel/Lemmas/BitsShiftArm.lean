import VerylModel.Lemmas.BitsShift
import VerylModel.Lemmas.BitsCmp
set_option linter.unusedSimpArgs false
set_option linter.unusedVariables false
/-! Prologue of the shift arms. -/
namespace VerylModel.Bits
open Ref Impl

/-- `Value::to_shift_amount` on a canonical, sized operand: `None` iff it has X/Z; otherwise an
    amount that a `w`-bit shift cannot tell from the true one (saturation at `usize::MAX`). -/
theorem toShiftAmount_spec (y : Val) (w : Nat) (hy : y.canon) (h0y : 0 < y.width) (hw64 : w < 2 ^ 64) :
    (y.v.mask ≠ 0 → toShiftAmount y = none) ∧
    (y.v.mask = 0 → ∃ n, toShiftAmount y = some n ∧ amtOk n y.v.payload w) := by
  cases y with
  | u64 v =>
    simp only [toShiftAmount, Val.v_u64]
    constructor
    · intro h; rw [if_pos h]
    · intro h; rw [if_neg (by omega)]; exact ⟨_, rfl, Or.inl rfl⟩
  | big v =>
    simp only [toShiftAmount, Val.v_big]
    constructor
    · intro h; rw [if_pos h]
    · intro h; rw [if_neg (by omega)]
      refine ⟨_, rfl, ?_⟩
      by_cases hp : v.payload < 2 ^ 64
      · rw [if_pos hp]; exact Or.inl rfl
      · rw [if_neg hp]; exact Or.inr ⟨by omega, by omega⟩

theorem expand_self (v : Val) (w : Nat) (us : Bool) (hw : v.width = w) (hw0 : 0 < w) :
    expand v w us = some v := by
  unfold expand
  rw [if_pos ⟨by omega, by omega⟩]

/-- A shift arm equals the reference as soon as its BigUint arm does (any `w`) and its U64 arm
    agrees with the BigUint arm for `w ≤ 64`. -/
theorem shiftArm_eq_ref (x y : Val) (w : Nat) (s : Bool) (fu fb : V4 → Nat → Option V4)
    (R : BV → V4 → BV)
    (hx : x.canon) (hy : y.canon) (hwx : x.width ≤ w) (h0y : 0 < y.width) (hw0 : 0 < w) (hw64 : w < 2 ^ 64)
    (hRx : ∀ a, y.v.mask ≠ 0 → R a y.v = allX w)
    (hbig : ∀ (a : V4) (n : Nat), a.wf → a.width = w → y.v.mask = 0 → amtOk n y.v.payload w →
      ∃ r, fb a n = some r ∧ r.toBV = R a.toBV y.v ∧ r.width = w)
    (hu64 : w ≤ 64 → ∀ (a : V4) (n : Nat), a.wf → a.width = w → fu a n = fb a n) :
    ∃ v, shiftArm x y w s fu fb = some v ∧ v.v.toBV = R (ext x.v w s) y.v := by
  obtain ⟨a, ha, hawf, hwa, he⟩ := unaryCtx_spec x w s hx hwx hw0
  obtain ⟨hnone, hsome⟩ := toShiftAmount_spec y w hy h0y hw64
  unfold shiftArm
  simp only [he, Option.bind_eq_bind, Option.bind_some]
  by_cases hm : y.v.mask = 0
  · obtain ⟨n, hn, hamt⟩ := hsome hm
    obtain ⟨r, hr, hrr, hrw⟩ := hbig a n hawf hwa hm hamt
    rw [hn]
    by_cases h : 64 < w
    · simp only [h, if_true, hr, Option.bind_some]
      rw [expand_self (.big r) w false hrw hw0]
      exact ⟨_, rfl, by rw [Val.v_big, hrr, ha]⟩
    · simp only [h, if_false, hu64 (by omega) a n hawf hwa, hr, Option.bind_some]
      rw [expand_self (.u64 r) w false hrw hw0]
      exact ⟨_, rfl, by rw [Val.v_u64, hrr, ha]⟩
  · rw [hnone hm, hRx _ hm]
    by_cases h : 64 < w
    · simp only [h, if_true]
      exact ⟨_, rfl, rfl⟩
    · simp only [h, if_false]
      refine ⟨_, rfl, ?_⟩
      simp [U64.newX, V4.toBV, allX, U64.genMask_eq (show w ≤ 64 by omega)]

end VerylModel.Bits
