import VerylModel.Core.EmitModel
/-! T1 of C01: `gather_context` = IEEE 1800 sizing on the subset `ctxOK`. -/
namespace VerylModel.Emit
open VerylModel.SV

/-- the subset on which `gather_context` agrees with IEEE 1800 §11.6.1/§11.8.1; every excluded form
has a witness below -/
def ctxOK (decls : List Decl) : VExpr → Bool
  | .var _ => true
  | .bitsel id _ => !(decls.getD id { width := 1, signed := false }).signed
  | .partsel id _ _ => !(decls.getD id { width := 1, signed := false }).signed
  | .lit _ _ _ => true
  | .dec _ => true
  | .fill _ => false
  | .un _ a => ctxOK decls a
  | .bin op a b =>
    ctxOK decls a && ctxOK decls b &&
    (match op with
     | .lt | .le | .gt | .ge => !((gather decls a).s && (gather decls b).s)
     | _ => true)
  | .ifx c a b => ctxOK decls c && ctxOK decls a && ctxOK decls b
  | .cat a b => ctxOK decls a && ctxOK decls b
  | .rep _ a => ctxOK decls a
  | .asNum _ a => ctxOK decls a && !(gather decls a).s
  | .asInt _ _ _ => false
  | .sysSigned _ a => ctxOK decls a

/-- the `(width, signed)` that `gather_context` computes for an expression is the
IEEE 1800 self-determined size (Table 11-21) and type (§11.8.1) of the emitted expression. -/
theorem gather_eq_ieee (decls : List Decl) (vals : List Nat) (e : VExpr) (h : ctxOK decls e = true) :
    gather decls e =
      ⟨size { decls := decls, vals := vals } (emitExpr e), sgn { decls := decls, vals := vals } (emitExpr e)⟩ := by
  induction e with
  | var id => simp [gather, size, sgn, emitExpr, Env.decl]
  | bitsel id i =>
    simp only [ctxOK, Bool.not_eq_true'] at h
    simp only [gather, size, sgn, emitExpr, h]
  | partsel id hi lo =>
    simp only [ctxOK, Bool.not_eq_true'] at h
    simp only [gather, size, sgn, emitExpr, h]
  | lit w s v => simp [gather, size, sgn, emitExpr]
  | dec v => simp [gather, size, sgn, emitExpr]
  | fill b => simp [ctxOK] at h
  | un op a ih =>
    simp only [ctxOK] at h
    have := ih h
    simp only [gather, size, sgn, emitExpr]
    split <;> simp_all
  | bin op a b iha ihb =>
    simp only [ctxOK, Bool.and_eq_true] at h
    have ha := iha h.1.1
    have hb := ihb h.1.2
    have h3 := h.2
    cases op <;>
      simp_all [gather, size, sgn, emitExpr, BinOp.isArith, BinOp.isShift, BinOp.isCmp] <;>
      (intro hs; rcases h.2 with h' | h' <;> simp_all)
  | ifx c a b _ iha ihb =>
    simp only [ctxOK, Bool.and_eq_true] at h
    have ha := iha h.1.2
    have hb := ihb h.2
    simp_all [gather, size, sgn, emitExpr]
  | cat a b iha ihb =>
    simp only [ctxOK, Bool.and_eq_true] at h
    have ha := iha h.1
    have hb := ihb h.2
    simp_all [gather, size, sgn, emitExpr]
  | rep n a ih =>
    simp only [ctxOK] at h
    have := ih h
    simp_all [gather, size, sgn, emitExpr]
  | asNum n a ih =>
    simp only [ctxOK, Bool.and_eq_true, Bool.not_eq_true'] at h
    have := ih h.1
    simp_all [gather, size, sgn, emitExpr]
  | asInt sg w a _ => simp [ctxOK] at h
  | sysSigned s a ih =>
    simp only [ctxOK] at h
    have := ih h
    simp_all [gather, size, sgn, emitExpr]


end VerylModel.Emit
