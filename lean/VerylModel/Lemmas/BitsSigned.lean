import VerylModel.Lemmas.BitsCmp
set_option linter.unusedSimpArgs false
set_option linter.unusedVariables false
/-! Signed readings: `((p << sh) as i64) >> sh`, `to_bigint`, two's complement. -/
namespace VerylModel.Bits
open Ref Impl

theorem testBit_msb (p W : Nat) (hW : 0 < W) (hp : p < 2 ^ W) :
    p.testBit (W - 1) = decide (2 ^ (W - 1) ≤ p) := by
  have hpow : 2 ^ W = 2 ^ (W - 1) * 2 := by rw [← Nat.pow_succ]; congr 1; omega
  by_cases h : 2 ^ (W - 1) ≤ p
  · have : p = 2 ^ (W - 1) + (p - 2 ^ (W - 1)) := by omega
    rw [this, Nat.testBit_two_pow_add_eq, Nat.testBit_lt_two_pow (by omega)]
    simp [h]
  · rw [Nat.testBit_lt_two_pow (by omega)]; simp [h]

/-- Two's-complement reading, with the sign decided by comparison instead of a bit test. -/
theorem toInt_eq (a : BV) (W : Nat) (hW : 0 < W) (hwa : a.width = W) (hp : a.payload < 2 ^ W) :
    a.toInt = if 2 ^ (W - 1) ≤ a.payload then (a.payload : Int) - ((2 ^ W : Nat) : Int) else (a.payload : Int) := by
  unfold BV.toInt
  rw [hwa, testBit_msb _ _ hW hp]
  have : W ≠ 0 := by omega
  simp [this]

/-- `((p << sh) as i64) >> sh` with `sh = 64 - W` is sign extension from `W` bits. -/
theorem U64.sext_eq (p W : Nat) (hW : 0 < W) (h64 : W ≤ 64) (hp : p < 2 ^ W) :
    U64.sext p (64 - W) =
      some (if 2 ^ (W - 1) ≤ p then (p : Int) - ((2 ^ W : Nat) : Int) else (p : Int)) := by
  have hsh : 64 - W < 64 := by omega
  have hpow64 : 2 ^ 64 = 2 ^ W * 2 ^ (64 - W) := by rw [← Nat.pow_add]; congr 1; omega
  have hpow63 : 2 ^ 63 = 2 ^ (W - 1) * 2 ^ (64 - W) := by rw [← Nat.pow_add]; congr 1; omega
  have hpos : 0 < 2 ^ (64 - W) := Nat.two_pow_pos _
  have hq : p * 2 ^ (64 - W) < 2 ^ 64 := by rw [hpow64]; exact Nat.mul_lt_mul_of_pos_right hp hpos
  have hne : ((2 ^ (64 - W) : Nat) : Int) ≠ 0 := by
    have : (0 : Int) < ((2 ^ (64 - W) : Nat) : Int) := Int.ofNat_lt.mpr hpos
    omega
  unfold U64.sext U64.shl U64.sar
  simp only [hsh, if_true, Option.bind_eq_bind, Option.bind_some, Nat.shiftLeft_eq, Nat.mod_eq_of_lt hq]
  congr 1
  unfold U64.toI64
  by_cases h : 2 ^ (W - 1) ≤ p
  · have h63 : ¬ p * 2 ^ (64 - W) < 2 ^ 63 := by
      rw [hpow63]; intro hc
      have := Nat.lt_of_mul_lt_mul_right hc
      omega
    rw [if_neg h63, if_pos h]
    have : ((p * 2 ^ (64 - W) : Nat) : Int) - ((2 ^ 64 : Nat) : Int) =
        ((p : Int) - ((2 ^ W : Nat) : Int)) * ((2 ^ (64 - W) : Nat) : Int) := by
      rw [hpow64, Int.natCast_mul, Int.natCast_mul, Int.sub_mul]
    rw [this, Int.mul_ediv_cancel _ hne]
  · have h63 : p * 2 ^ (64 - W) < 2 ^ 63 := by
      rw [hpow63]; exact Nat.mul_lt_mul_of_pos_right (by omega) hpos
    rw [if_pos h63, if_neg h, Int.natCast_mul, Int.mul_ediv_cancel _ hne]

theorem U64.sext_eq_toInt (a : V4) (W : Nat) (hW : 0 < W) (h64 : W ≤ 64) (ha : a.wf) (hwa : a.width = W) :
    U64.sext a.payload (64 - W) = some a.toBV.toInt := by
  have hp : a.payload < 2 ^ W := by rw [← hwa]; exact ha.1
  rw [U64.sext_eq _ _ hW h64 hp, toInt_eq a.toBV W hW hwa hp]; rfl

theorem U64.sext_isSome (p sh : Nat) (h : sh < 64) : ∃ z, U64.sext p sh = some z := by
  unfold U64.sext U64.shl U64.sar
  simp [h]

theorem Big.toBigint_eq_toInt (a : V4) (W : Nat) (hW : 0 < W) (ha : a.wf) (hwa : a.width = W)
    (hm : a.mask = 0) : Big.toBigint a = some (some a.toBV.toInt) := by
  have hp : a.payload < 2 ^ W := by rw [← hwa]; exact ha.1
  unfold Big.toBigint
  have h1 : 1 ≤ a.width := by omega
  simp only [hm, ne_eq, not_true_eq_false, if_false, usub, h1, if_true, Option.bind_eq_bind, Option.bind_some]
  rw [toInt_eq a.toBV W hW hwa hp, hwa, testBit_msb _ _ hW hp]
  by_cases h : 2 ^ (W - 1) ≤ a.payload
  · simp only [h, decide_true, if_true, Big.genMask, neg_twos hp, V4.toBV]
    have hpos : 0 < 2 ^ (W - 1) := Nat.two_pow_pos _
    have hlt : 2 ^ W - a.payload < 2 ^ W := by omega
    rw [Nat.mod_eq_of_lt hlt, Int.natCast_sub (Nat.le_of_lt hp)]
    congr 2; omega
  · simp [h, V4.toBV]

theorem Big.toBigint_xz (a : V4) (hm : a.mask ≠ 0) : Big.toBigint a = some none := by
  unfold Big.toBigint; rw [if_pos hm]

end VerylModel.Bits
