import VerylModel.Core.Reloc
/-! Lemmas for C34 (`Props/C34.lean`). -/
namespace VerylModel.Reloc

/-! ## Cache -/

/-- Every stored entry is what the builder returns for its key. -/
def CacheOk {V : Type} (build : Nat → Option V) (c : List (Nat × V)) : Prop :=
  ∀ k v, cacheGet c k = some v → build k = some v

theorem cacheOk_nil {V : Type} (build : Nat → Option V) : CacheOk build [] := by
  intro k v h; simp [cacheGet] at h

theorem buildCached_ok {V : Type} (build : Nat → Option V) (c : List (Nat × V)) (k : Nat)
    (h : CacheOk build c) :
    (buildCached build c k).1 = build k ∧ CacheOk build (buildCached build c k).2 := by
  unfold buildCached
  cases hg : cacheGet c k with
  | some v => exact ⟨(h k v hg).symm, h⟩
  | none =>
    cases hb : build k with
    | none => exact ⟨rfl, h⟩
    | some v =>
      refine ⟨rfl, ?_⟩
      intro k' v' hk'
      simp only [cacheGet] at hk'
      by_cases he : k = k'
      · subst he; simp only [if_true] at hk'; cases hk'; exact hb
      · simp only [he, if_false] at hk'; exact h k' v' hk'

theorem runCached_const {I V : Type} (build : I → Nat → Option V) (ir : I) :
    ∀ (ks : List Nat) (c : List (Nat × V)), CacheOk (build ir) c →
      runCached build (ks.map (fun k => (ir, k))) c = ks.map (build ir) := by
  intro ks
  induction ks with
  | nil => intro c _; rfl
  | cons k ks ih =>
    intro c h
    obtain ⟨h1, h2⟩ := buildCached_ok (build ir) c k h
    simp only [List.map_cons, runCached, h1]
    rw [ih _ h2]

/-! ## Relocation -/

theorem rd_shift (b d : Base) (m : Mem) (l : Loc) : rd (b.add d) (shift d m) l = rd b m l := by
  unfold rd shift Base.add Base.of
  cases l.ff <;> simp <;> (split <;> first | omega | (congr 1; omega))

theorem wr_shift (b d : Base) (m : Mem) (l : Loc) (v : Nat) :
    wr (b.add d) (shift d m) l v = shift d (wr b m l v) := by
  funext sp a
  unfold wr shift Base.add Base.of
  cases hl : l.ff <;> cases sp <;> simp <;> (repeat' split) <;> first | rfl | omega | (exfalso; omega) | skip
  all_goals (first | rfl | omega | (rename_i h1 h2; exfalso; omega) | (rename_i h1 h2 h3; exfalso; omega))

theorem stepIns_shift (b d : Base) (m : Mem) (i : Ins) (hi : i.relative = true) :
    stepIns (b.add d) (shift d m) i = shift d (stepIns b m i) := by
  cases i with
  | mov dst src => simp only [stepIns, rd_shift, wr_shift]
  | addc dst src c => simp only [stepIns, rd_shift, wr_shift]
  | add2 dst s1 s2 => simp only [stepIns, rd_shift, wr_shift]
  | absRd dst sp a => simp [Ins.relative] at hi

theorem runChunk_shift (b d : Base) :
    ∀ (is : List Ins) (m : Mem), is.all Ins.relative = true →
      runChunk (b.add d) is (shift d m) = shift d (runChunk b is m) := by
  intro is
  induction is with
  | nil => intro m _; rfl
  | cons i is ih =>
    intro m h
    simp only [List.all_cons, Bool.and_eq_true] at h
    simp only [runChunk, stepIns_shift b d m i h.1]
    exact ih _ h.2

theorem rd_region (sz b1 b2 : Base) (m1 m2 : Mem) (h : SameRegion sz b1 b2 m1 m2) (l : Loc)
    (hl : l.inside sz = true) : rd b2 m2 l = rd b1 m1 l := by
  unfold rd
  exact h l.ff l.off (by simpa [Loc.inside] using hl)

theorem wr_region (sz b1 b2 : Base) (m1 m2 : Mem) (h : SameRegion sz b1 b2 m1 m2) (l : Loc) (v : Nat) :
    SameRegion sz b1 b2 (wr b1 m1 l v) (wr b2 m2 l v) := by
  intro sp off hoff
  unfold wr
  by_cases hs : sp = l.ff
  · subst hs
    by_cases ho : off = l.off
    · subst ho; simp
    · have h1 : ¬ (b2.of l.ff + off = b2.of l.ff + l.off) := by omega
      have h2 : ¬ (b1.of l.ff + off = b1.of l.ff + l.off) := by omega
      simp only [h1, h2, and_false, if_false]
      exact h _ _ hoff
  · simp only [hs, false_and, if_false]
    exact h _ _ hoff

theorem stepIns_region (sz b1 b2 : Base) (m1 m2 : Mem) (h : SameRegion sz b1 b2 m1 m2) (i : Ins)
    (hi : i.confined sz = true) : SameRegion sz b1 b2 (stepIns b1 m1 i) (stepIns b2 m2 i) := by
  cases i with
  | mov dst src =>
    simp only [Ins.confined, Bool.and_eq_true] at hi
    simp only [stepIns, rd_region sz b1 b2 m1 m2 h src hi.2]
    exact wr_region sz b1 b2 m1 m2 h dst _
  | addc dst src c =>
    simp only [Ins.confined, Bool.and_eq_true] at hi
    simp only [stepIns, rd_region sz b1 b2 m1 m2 h src hi.2]
    exact wr_region sz b1 b2 m1 m2 h dst _
  | add2 dst s1 s2 =>
    simp only [Ins.confined, Bool.and_eq_true] at hi
    simp only [stepIns, rd_region sz b1 b2 m1 m2 h s1 hi.1.2, rd_region sz b1 b2 m1 m2 h s2 hi.2]
    exact wr_region sz b1 b2 m1 m2 h dst _
  | absRd dst sp a => simp [Ins.confined] at hi

theorem runChunk_region (sz b1 b2 : Base) :
    ∀ (is : List Ins) (m1 m2 : Mem), confined sz is = true → SameRegion sz b1 b2 m1 m2 →
      SameRegion sz b1 b2 (runChunk b1 is m1) (runChunk b2 is m2) := by
  intro is
  induction is with
  | nil => intro m1 m2 _ h; exact h
  | cons i is ih =>
    intro m1 m2 hc h
    simp only [confined, List.all_cons, Bool.and_eq_true] at hc
    simp only [runChunk]
    exact ih _ _ (by simpa [confined] using hc.2) (stepIns_region sz b1 b2 m1 m2 h i hc.1)

/-- Outside its region a confined chunk changes nothing. -/
theorem wr_frame (sz b : Base) (m : Mem) (l : Loc) (v : Nat) (hl : l.inside sz = true) (sp : Bool) (a : Nat)
    (ha : a < b.of sp ∨ b.of sp + sz.of sp ≤ a) : wr b m l v sp a = m sp a := by
  unfold wr
  have hl' : l.off < sz.of l.ff := by simpa [Loc.inside] using hl
  by_cases hs : sp = l.ff
  · subst hs
    have : ¬ (a = b.of l.ff + l.off) := by omega
    simp [this]
  · simp [hs]

theorem stepIns_frame (sz b : Base) (m : Mem) (i : Ins) (hi : i.confined sz = true) (sp : Bool) (a : Nat)
    (ha : a < b.of sp ∨ b.of sp + sz.of sp ≤ a) : stepIns b m i sp a = m sp a := by
  cases i with
  | mov dst src =>
    simp only [Ins.confined, Bool.and_eq_true] at hi
    exact wr_frame sz b m dst _ hi.1 sp a ha
  | addc dst src c =>
    simp only [Ins.confined, Bool.and_eq_true] at hi
    exact wr_frame sz b m dst _ hi.1 sp a ha
  | add2 dst s1 s2 =>
    simp only [Ins.confined, Bool.and_eq_true] at hi
    exact wr_frame sz b m dst _ hi.1.1 sp a ha
  | absRd dst sp' a' => simp [Ins.confined] at hi

theorem runChunk_frame (sz b : Base) :
    ∀ (is : List Ins) (m : Mem), confined sz is = true → ∀ (sp : Bool) (a : Nat),
      (a < b.of sp ∨ b.of sp + sz.of sp ≤ a) → runChunk b is m sp a = m sp a := by
  intro is
  induction is with
  | nil => intro m _ sp a _; rfl
  | cons i is ih =>
    intro m hc sp a ha
    simp only [confined, List.all_cons, Bool.and_eq_true] at hc
    simp only [runChunk]
    rw [ih _ (by simpa [confined] using hc.2) sp a ha]
    exact stepIns_frame sz b m i hc.1 sp a ha

end VerylModel.Reloc
