import VerylModel.Lemmas.BitsSigned
set_option linter.unusedSimpArgs false
set_option linter.unusedVariables false
/-! Panic-freedom helpers for the arms whose value theorem is only partial (Eq, Ne, LogicAnd, Pow). -/
namespace VerylModel.Bits
open Ref Impl

theorem cmpArm_total (x y : Val) (w : Nat) (sgn : Bool) (mk : Bool → Bool → V4)
    (f g : V4 → V4 → Bool × Bool) (hx : x.canon) (hy : y.canon) (hW : 0 < max x.width y.width) (hw0 : 0 < w)
    (hmk : ∀ p q, ∃ v, finishBit (mk p q) w = some v) :
    ∃ v, cmpArm x y w sgn mk (fun a b => some (f a b)) (fun a b => some (g a b)) = some v := by
  obtain ⟨a, b, _, _, _, _, _, _, harm⟩ :=
    cmpArm_spec x y w sgn mk (fun a b => some (f a b)) (fun a b => some (g a b)) hx hy hW
  by_cases h : 64 < max x.width y.width
  · rw [harm (g a b).1 (g a b).2 (by rw [if_pos h])]; exact hmk _ _
  · rw [harm (f a b).1 (f a b).2 (by rw [if_neg h])]; exact hmk _ _

theorem mk0x_total (w : Nat) (hw0 : 0 < w) (p q : Bool) : ∃ v, finishBit (U64.newBit0x p q) w = some v := by
  obtain ⟨v, h, _⟩ := finishBit_0x p q w hw0; exact ⟨v, h⟩

theorem mk1x_total (w : Nat) (hw0 : 0 < w) (p q : Bool) : ∃ v, finishBit (U64.newBit1x p q) w = some v := by
  obtain ⟨v, h, _⟩ := finishBit_1x p q w hw0; exact ⟨v, h⟩

/-- The power arm never panics inside the caller invariant. -/
theorem pow_total (x y : Val) (w : Nat) (s : Bool) (hx : x.canon) (hy : y.canon) (hwx : x.width ≤ w)
    (h0y : 0 < y.width) (hw0 : 0 < w) : ∃ v, evalBinary .Pow x y w s = some v := by
  obtain ⟨a, ha, hawf, hwa, he⟩ := unaryCtx_spec x w s hx hwx hw0
  simp only [evalBinary, he, Option.bind_eq_bind, Option.bind_some]
  have hyneg : ∃ b, powYNegative y = some b := by
    unfold powYNegative
    cases y with
    | u64 v =>
      have h64 : v.width ≤ 64 := hy.1
      rw [Val.width_u64] at h0y
      have hsh : v.width - 1 < 64 := by omega
      by_cases hs : (Val.u64 v).signed = true
      · rw [if_pos hs, Val.v_u64, if_pos (by omega)]
        simp only [U64.shr, hsh, if_true, Option.bind_eq_bind, Option.bind_some]
        exact ⟨_, rfl⟩
      · rw [if_neg hs]; exact ⟨_, rfl⟩
    | big v =>
      by_cases hs : (Val.big v).signed = true
      · rw [if_pos hs]
        by_cases hw : (Val.big v).v.width > 0
        · rw [if_pos hw]; exact ⟨_, rfl⟩
        · rw [if_neg hw]; exact ⟨_, rfl⟩
      · rw [if_neg hs]; exact ⟨_, rfl⟩
  obtain ⟨b, hb⟩ := hyneg
  rw [hb]
  simp only [Option.bind_some]
  cases b
  · -- non-negative exponent
    simp only [Bool.false_eq_true, if_false]
    by_cases h : 64 < w
    · simp only [h, if_true]
      cases hn : toShiftAmount y with
      | none => exact ⟨_, rfl⟩
      | some n =>
        simp only [Big.powOp]
        by_cases hm : a.mask ≠ 0
        · rw [if_pos hm]; exact ⟨_, rfl⟩
        · rw [if_neg hm]
          by_cases hs : a.signed = true
          · rw [if_pos hs, Big.toBigint_eq_toInt a w hw0 hawf hwa (by omega)]; exact ⟨_, rfl⟩
          · rw [if_neg hs]; exact ⟨_, rfl⟩
    · simp only [h, if_false]
      have h64 : w ≤ 64 := by omega
      cases hn : toShiftAmount y with
      | none => exact ⟨_, rfl⟩
      | some n =>
        simp only [U64.powOp]
        by_cases hm : a.mask ≠ 0
        · rw [if_pos hm]; exact ⟨_, rfl⟩
        · rw [if_neg hm]
          by_cases hs : a.signed = true
          · rw [if_pos hs]
            have hm0 : a.mask = 0 := by omega
            have hmsb := U64.msb_eq (v := a.payload) (width := a.width) (by omega) (by omega)
            simp only [U64.toI64Val, hm0, ne_eq, not_true_eq_false, if_false, hs, if_true, hmsb,
              Option.bind_eq_bind, Option.bind_some]
            exact ⟨_, rfl⟩
          · rw [if_neg hs]; exact ⟨_, rfl⟩
  · simp only [if_true]
    by_cases h : 64 < w
    · simp only [h, if_true]; exact ⟨_, rfl⟩
    · simp only [h, if_false]; exact ⟨_, rfl⟩

theorem finishBit_total (b : V4) (w : Nat) (hb : b.wf) (hw1 : b.width = 1) (hw0 : 0 < w) :
    ∃ v, finishBit b w = some v := by
  obtain ⟨v, h, _⟩ := finishBit_spec b w hb hw1 hw0; exact ⟨v, h⟩


end VerylModel.Bits
