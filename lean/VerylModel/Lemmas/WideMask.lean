import VerylModel.Lemmas.WideBits
/-! Helper lemmas for C18 (part A): in-place loops (`d.set`), masks, reductions, sign bit, `sext_word`. -/
namespace VerylModel.Wide

theorem rd_set (d : List Nat) (w v i : Nat) : rd (d.set w v) i = if i = w ∧ w < d.length then v else rd d i := by
  unfold rd
  rw [List.getD_eq_getElem?_getD, List.getD_eq_getElem?_getD, List.getElem?_set]
  by_cases h : w = i
  · subst h
    by_cases h2 : w < d.length <;> simp [h2]
  · have : ¬ i = w := fun e => h e.symm
    simp [h, this]

theorem Words.set {d : List Nat} (h : Words d) (w v : Nat) (hv : v < W) : Words (d.set w v) := by
  intro x hx
  rcases List.mem_or_eq_of_mem_set hx with h1 | h1
  · exact h x h1
  · exact h1 ▸ hv

/-- a loop `for i in s..s+len { wr(d, i, f i) }`. -/
theorem foldl_set_spec (f : Nat → Nat) (len s : Nat) (d : List Nat) :
    let r := (List.range' s len).foldl (fun d i => d.set i (f i)) d
    r.length = d.length ∧
    ∀ i, rd r i = if s ≤ i ∧ i < s + len ∧ i < d.length then f i else rd d i := by
  induction len generalizing s d with
  | zero =>
    simp
    intros
    omega
  | succ len ih =>
    simp only [List.range'_succ, List.foldl_cons]
    have := ih (s + 1) (d.set s (f s))
    simp only [List.length_set] at this
    refine ⟨this.1, ?_⟩
    intro i
    rw [this.2 i, rd_set]
    by_cases h1 : i = s
    · subst h1
      have : ¬ (i + 1 ≤ i ∧ i < i + 1 + len ∧ i < d.length) := by omega
      simp only [this, if_false]
      by_cases h2 : i < d.length
      · have : i ≤ i ∧ i < i + (len + 1) ∧ i < d.length := by omega
        simp [h2]
      · have : ¬ (i ≤ i ∧ i < i + (len + 1) ∧ i < d.length) := by omega
        simp [h2]
    · by_cases h3 : s + 1 ≤ i ∧ i < s + 1 + len ∧ i < d.length
      · have : s ≤ i ∧ i < s + (len + 1) ∧ i < d.length := by omega
        simp [h3, this]
      · have : ¬ (s ≤ i ∧ i < s + (len + 1) ∧ i < d.length) := by omega
        simp [h3, this, h1]

theorem foldl_set_words (f : Nat → Nat) (hf : ∀ i, f i < W) (len s : Nat) (d : List Nat) (hd : Words d) :
    Words ((List.range' s len).foldl (fun d i => d.set i (f i)) d) := by
  induction len generalizing s d with
  | zero => simpa using hd
  | succ len ih =>
    simp only [List.range'_succ, List.foldl_cons]
    exact ih _ _ (hd.set _ _ (hf _))

theorem zeroFrom_length (d : List Nat) (s n : Nat) : (zeroFrom d s n).length = d.length :=
  (foldl_set_spec (fun _ => 0) (n - s) s d).1

theorem rd_zeroFrom (d : List Nat) (s n i : Nat) (hn : n ≤ d.length) :
    rd (zeroFrom d s n) i = if s ≤ i ∧ i < n then 0 else rd d i := by
  have := (foldl_set_spec (fun _ => 0) (n - s) s d).2 i
  unfold zeroFrom
  rw [this]
  by_cases h : s ≤ i ∧ i < n
  · have : s ≤ i ∧ i < s + (n - s) ∧ i < d.length := by omega
    simp [h, this]
  · have : ¬ (s ≤ i ∧ i < s + (n - s) ∧ i < d.length) := by omega
    simp [h, this]

theorem zeroFrom_words (d : List Nat) (s n : Nat) (hd : Words d) : Words (zeroFrom d s n) :=
  foldl_set_words (fun _ => 0) (fun _ => W_pos) _ _ _ hd

-- ── sign bit ────────────────────────────────────────────────────────────────────────────────

theorem signBit_eq (a : List Nat) (width : Nat) : signBit a width = (bitAt a (width - 1)).toNat := by
  unfold signBit bitAt
  rw [Nat.and_one_is_mod, Nat.shiftRight_eq_div_pow, Nat.toNat_testBit]

theorem signBit_le_one (a : List Nat) (width : Nat) : signBit a width ≤ 1 := by
  rw [signBit_eq]; cases bitAt a (width - 1) <;> simp

theorem signBit_eq_one (a : List Nat) (width : Nat) : signBit a width = 1 ↔ bitAt a (width - 1) = true := by
  rw [signBit_eq]; cases bitAt a (width - 1) <;> simp

-- ── sext_word ───────────────────────────────────────────────────────────────────────────────

theorem W_sub_one_testBit (j : Nat) : (W - 1).testBit j = decide (j < 64) := by
  rw [W_eq, Nat.testBit_two_pow_sub_one]

theorem two_pow_lt_W {t : Nat} (h : t < 64) : 2 ^ t < W := by
  rw [W_eq]; exact Nat.pow_lt_pow_right (by decide) h

theorem sextWord_lt (a : List Nat) (i width sign : Nat) (ha : Words a) : sextWord a i width sign < W := by
  unfold sextWord
  simp only
  split
  · have := W_pos
    split <;> omega
  · split
    · exact rd_lt ha _
    · rename_i h1 h2
      have hm : 2 ^ (width - i * 64) - 1 < W := by
        have := two_pow_lt_W (t := width - i * 64) (by omega)
        have := Nat.two_pow_pos (width - i * 64)
        omega
      apply or_lt_W (and_lt_W hm)
      split
      · exact notW_lt _
      · exact W_pos

theorem testBit_sextWord (a : List Nat) (i width sign j : Nat) (hj : j < 64) :
    (sextWord a i width sign).testBit j =
      if 64 * i + j < width then bitAt a (64 * i + j) else decide (sign = 1) := by
  unfold sextWord
  simp only
  split
  · rename_i h
    have : ¬ 64 * i + j < width := by omega
    simp only [this, if_false]
    split
    · simp [W_sub_one_testBit, *]
    · simp [*]
  · rename_i h
    split
    · rename_i h2
      have : 64 * i + j < width := by omega
      simp only [this, if_true]
      exact rd_testBit' a i j hj
    · rename_i h2
      have hm : 2 ^ (width - i * 64) - 1 < W := by
        have := two_pow_lt_W (t := width - i * 64) (by omega)
        have := Nat.two_pow_pos (width - i * 64)
        omega
      rw [Nat.testBit_or, Nat.testBit_and, Nat.testBit_two_pow_sub_one]
      by_cases h3 : 64 * i + j < width
      · have h4 : j < width - i * 64 := by omega
        simp only [h3, if_true, h4, decide_true, Bool.and_true]
        have : (if sign = 1 then notW (2 ^ (width - i * 64) - 1) else 0).testBit j = false := by
          split
          · rw [testBit_notW hm, Nat.testBit_two_pow_sub_one]; simp [h4]
          · simp
        rw [this, Bool.or_false]
        exact rd_testBit' a i j hj
      · have h4 : ¬ j < width - i * 64 := by omega
        simp only [h3, if_false, h4, decide_false, Bool.and_false, Bool.false_or]
        split
        · rw [testBit_notW hm, Nat.testBit_two_pow_sub_one]; simp [*]
        · simp [*]
where
  rd_testBit' (a : List Nat) (i j : Nat) (hj : j < 64) : (rd a i).testBit j = bitAt a (64 * i + j) :=
    (bitAt_mul_add a i j hj).symm


-- ── wide_apply_mask ─────────────────────────────────────────────────────────────────────────

theorem applyMask_length (dst : List Nat) (p : Nat) : (applyMask dst p).length = dst.length := by
  unfold applyMask
  simp only
  split
  · rfl
  · rw [zeroFrom_length]; split <;> simp

theorem applyMask_words (dst : List Nat) (p : Nat) (hd : Words dst) : Words (applyMask dst p) := by
  unfold applyMask
  simp only
  split
  · exact hd
  · apply zeroFrom_words
    split
    · exact hd.set _ _ (and_lt_W (by
        have := two_pow_lt_W (t := unpackWidth p % 64) (Nat.mod_lt _ (by decide))
        have := Nat.two_pow_pos (unpackWidth p % 64)
        omega))
    · exact hd

theorem bitAt_applyMask (dst : List Nat) (p k : Nat) (hw : unpackWidth p ≠ 0) (hnb : unpackNb p ≠ 0)
    (hn : nw (unpackNb p) ≤ dst.length) :
    bitAt (applyMask dst p) k =
      if k < 64 * nw (unpackNb p) then (decide (k < unpackWidth p) && bitAt dst k) else bitAt dst k := by
  have hj : k % 64 < 64 := Nat.mod_lt _ (by decide)
  unfold applyMask
  simp only [hw, hnb, or_self, if_false]
  generalize unpackWidth p = w at *
  generalize nw (unpackNb p) = n at *
  unfold bitAt
  rw [rd_zeroFrom _ _ _ _ (by split <;> simp [hn])]
  by_cases hz : (w / 64 + if w % 64 > 0 then 1 else 0) ≤ k / 64 ∧ k / 64 < n
  · have h1 : k < 64 * n := by omega
    have h2 : ¬ k < w := by
      obtain ⟨hz1, _⟩ := hz
      split at hz1 <;> omega
    simp [hz, h1, h2]
  · simp only [hz, if_false]
    by_cases hset : w % 64 > 0 ∧ w / 64 < n
    · simp only [hset, and_self, if_true, rd_set]
      by_cases hi : k / 64 = w / 64
      · have h1 : k < 64 * n := by omega
        have h3 : w / 64 < dst.length := by omega
        simp only [hi, h3, and_self, if_true, h1, Nat.testBit_and, Nat.testBit_two_pow_sub_one]
        have : (k < w) ↔ (k % 64 < w % 64) := by omega
        rw [Bool.and_comm]
        simp [this]
      · simp only [hi, false_and, if_false]
        by_cases h1 : k < 64 * n
        · have h2 : k < w := by
            have : ¬ ((w / 64 + 1) ≤ k / 64 ∧ k / 64 < n) := by simpa [hset.1] using hz
            omega
          simp [h1, h2]
        · simp [h1]
    · simp only [hset, if_false]
      by_cases h1 : k < 64 * n
      · have h2 : k < w := by
          by_cases hr : w % 64 > 0
          · omega
          · have : ¬ ((w / 64 + 0) ≤ k / 64 ∧ k / 64 < n) := by simpa [hr] using hz
            omega
        simp [h1, h2]
      · simp [h1]

-- ── wide_fill_ones ──────────────────────────────────────────────────────────────────────────

theorem fillOnes_length (dst : List Nat) (p : Nat) : (fillOnes dst p).length = dst.length := by
  unfold fillOnes
  simp only
  split
  · rfl
  · rw [zeroFrom_length]
    have := (foldl_set_spec (fun _ => W - 1) (min (unpackWidth p / 64) (nw (unpackNb p))) 0 dst).1
    rw [List.range_eq_range']
    split <;> simp [this]

theorem fillOnes_words (dst : List Nat) (p : Nat) (hd : Words dst) : Words (fillOnes dst p) := by
  unfold fillOnes
  simp only
  split
  · exact hd
  · apply zeroFrom_words
    rw [List.range_eq_range']
    have h0 := foldl_set_words (fun _ => W - 1) (fun _ => by have := W_pos; omega)
      (min (unpackWidth p / 64) (nw (unpackNb p))) 0 dst hd
    split
    · exact h0.set _ _ (by
        have := two_pow_lt_W (t := unpackWidth p % 64) (Nat.mod_lt _ (by decide))
        have := Nat.two_pow_pos (unpackWidth p % 64)
        omega)
    · exact h0

theorem bitAt_fillOnes (dst : List Nat) (p k : Nat) (hnb : unpackNb p ≠ 0) (hn : nw (unpackNb p) ≤ dst.length) :
    bitAt (fillOnes dst p) k =
      if k < 64 * nw (unpackNb p) then decide (k < unpackWidth p) else bitAt dst k := by
  have hj : k % 64 < 64 := Nat.mod_lt _ (by decide)
  unfold fillOnes
  simp only [hnb, if_false]
  generalize unpackWidth p = w at *
  generalize nw (unpackNb p) = n at *
  rw [List.range_eq_range']
  have h0 := foldl_set_spec (fun _ => W - 1) (min (w / 64) n) 0 dst
  simp only at h0
  generalize (List.range' 0 (min (w / 64) n)).foldl (fun d i => d.set i (W - 1)) dst = d0 at *
  obtain ⟨h0l, h0r'⟩ := h0
  have h0r : ∀ i, rd d0 i = if i < min (w / 64) n then W - 1 else rd dst i := by
    intro i
    rw [h0r' i]
    by_cases h : i < min (w / 64) n
    · have : 0 ≤ i ∧ i < 0 + min (w / 64) n ∧ i < dst.length := by omega
      rw [if_pos this, if_pos h]
    · have : ¬ (0 ≤ i ∧ i < 0 + min (w / 64) n ∧ i < dst.length) := by omega
      rw [if_neg this, if_neg h]
  clear h0r'
  unfold bitAt
  rw [rd_zeroFrom _ _ _ _ (by split <;> simp [hn, h0l])]
  by_cases hz : (w / 64 + if w % 64 > 0 then 1 else 0) ≤ k / 64 ∧ k / 64 < n
  · have h1 : k < 64 * n := by omega
    have h2 : ¬ k < w := by
      obtain ⟨hz1, _⟩ := hz
      split at hz1 <;> omega
    simp [hz, h1, h2]
  · simp only [hz, if_false]
    by_cases hset : w % 64 > 0 ∧ w / 64 < n
    · simp only [hset, and_self, if_true, rd_set]
      by_cases hi : k / 64 = w / 64
      · have h1 : k < 64 * n := by omega
        have h3 : w / 64 < d0.length := by omega
        simp only [hi, h3, and_self, if_true, h1, Nat.testBit_two_pow_sub_one]
        have : (k < w) ↔ (k % 64 < w % 64) := by omega
        simp [this]
      · simp only [hi, false_and, if_false, h0r]
        by_cases h1 : k < 64 * n
        · have hlt : ¬ ((w / 64 + 1) ≤ k / 64 ∧ k / 64 < n) := by simpa [hset.1] using hz
          have h2 : k < w := by omega
          have h4 : k / 64 < min (w / 64) n := by omega
          rw [if_pos h4, W_sub_one_testBit]
          simp [h1, h2, hj]
        · have h4 : ¬ (k / 64 < min (w / 64) n) := by omega
          rw [if_neg h4]
          simp [h1]
    · simp only [hset, if_false, h0r]
      by_cases h1 : k < 64 * n
      · have h2 : k < w := by
          by_cases hr : w % 64 > 0
          · omega
          · have : ¬ ((w / 64 + 0) ≤ k / 64 ∧ k / 64 < n) := by simpa [hr] using hz
            omega
        have h4 : k / 64 < min (w / 64) n := by
          by_cases hr : w % 64 > 0
          · omega
          · have : ¬ ((w / 64 + 0) ≤ k / 64 ∧ k / 64 < n) := by simpa [hr] using hz
            omega
        rw [if_pos h4, W_sub_one_testBit]
        simp [h1, h2, hj]
      · have h4 : ¬ (k / 64 < min (w / 64) n) := by omega
        rw [if_neg h4]
        simp [h1]

end VerylModel.Wide
