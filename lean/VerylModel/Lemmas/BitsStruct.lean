import VerylModel.Lemmas.BitsShift
import VerylModel.Lemmas.BitsCmp
set_option linter.unusedSimpArgs false
set_option linter.unusedVariables false
/-! `Value::{trunc, select, concat, assign}`. -/
namespace VerylModel.Bits
open Ref Impl

/-! ### trunc -/

theorem truncBits_eq_ext (x : V4) (w : Nat) (hx : x.wf) (h : w < x.width) :
    (⟨w, x.payload &&& (2 ^ w - 1), x.mask &&& (2 ^ w - 1)⟩ : BV) = ext x w false := by
  apply BV.eq_ofFn (w := w) rfl (and_mask_lt _ _) (and_mask_lt _ _)
  intro i hi
  have hne : x.width ≠ 0 := by omega
  have hiw : i < x.width := by omega
  simp [Nat.testBit_and, testBit_mask, hi, extBit, hne, hiw, V4.bit, bitOf]

theorem trunc_u64_eq (v : V4) (w : Nat) :
    Impl.trunc (.u64 v) w = if v.width = 0 then some (fill v w)
      else if v.width ≤ w then some (.u64 v) else some (.u64 (U64.trunc v w)) := rfl

theorem trunc_big_eq (v : V4) (w : Nat) :
    Impl.trunc (.big v) w = if v.width = 0 then none
      else if v.width ≤ w then some (.big v)
      else match Big.toValueU64 (Big.trunc v w) with
        | some y => some (.u64 y)
        | none => some (.big (Big.trunc v w)) := rfl

theorem trunc_spec (x : Val) (w : Nat) (hx : x.canon) :
    ∃ v, Impl.trunc x w = some v ∧ v.v.toBV = Ref.trunc x.v w := by
  cases x with
  | u64 v =>
    show ∃ r, Impl.trunc (.u64 v) w = some r ∧ r.v.toBV = Ref.trunc v w
    unfold Ref.trunc
    rw [trunc_u64_eq]
    by_cases hz : v.width = 0
    · rw [if_pos hz]
      have hwf : V4.wfIn v := hx.2
      obtain ⟨a, _⟩ := fill_eq_ext v w false hwf hz
      refine ⟨_, rfl, ?_⟩
      rw [a, if_neg (by omega)]
    · rw [if_neg hz]
      have hvwf : v.wf := by
        have := hx.2; simp only [V4.wfIn] at this; rw [if_neg hz] at this; exact this
      by_cases hle : v.width ≤ w
      · rw [if_pos hle, if_pos ⟨hle, hz⟩]; exact ⟨_, rfl, rfl⟩
      · rw [if_neg hle, if_neg (by omega)]
        refine ⟨_, rfl, ?_⟩
        have h64 : w ≤ 64 := by have := hx.1; omega
        rw [Val.v_u64, ← truncBits_eq_ext v w hvwf (by omega)]
        simp [U64.trunc, V4.toBV, U64.genMask_eq h64]
  | big v =>
    show ∃ r, Impl.trunc (.big v) w = some r ∧ r.v.toBV = Ref.trunc v w
    unfold Ref.trunc
    rw [trunc_big_eq]
    have hz : v.width ≠ 0 := by have := hx.1; omega
    rw [if_neg hz]
    by_cases hle : v.width ≤ w
    · rw [if_pos hle, if_pos ⟨hle, hz⟩]; exact ⟨_, rfl, rfl⟩
    · rw [if_neg hle, if_neg (by omega)]
      have e : (Big.trunc v w).toBV = ext v w false := by
        rw [← truncBits_eq_ext v w hx.2 (by omega)]
        simp [Big.trunc, V4.toBV, Big.genMask]
      cases hto : Big.toValueU64 (Big.trunc v w) with
      | none => exact ⟨_, rfl, e⟩
      | some y =>
        refine ⟨_, rfl, ?_⟩
        unfold Big.toValueU64 at hto
        split at hto
        · cases hto; exact e
        · cases hto

/-! ### select (index in range) -/

theorem select_bits (x : V4) (beg end_ : Nat) (hx : x.wf) (hbe : end_ ≤ beg) (hb : beg < x.width) :
    (⟨beg - end_ + 1, (x.payload >>> end_) &&& (2 ^ (beg - end_ + 1) - 1),
      (x.mask >>> end_) &&& (2 ^ (beg - end_ + 1) - 1)⟩ : BV) = Ref.select x beg end_ := by
  unfold Ref.select
  rw [if_neg (by omega)]
  apply BV.eq_ofFn (w := beg - end_ + 1) rfl (and_mask_lt _ _) (and_mask_lt _ _)
  intro i hi
  have h1 : i + end_ < x.width := by omega
  have h2 : end_ + i < x.width := by omega
  simp [Nat.testBit_and, testBit_mask, hi, Nat.testBit_shiftRight, h1, h2, V4.bit, bitOf, Nat.add_comm]

theorem select_spec (x : Val) (beg end_ : Nat) (hx : x.canon) (hbe : end_ ≤ beg) (hb : beg < x.width)
    (hw64 : x.width < 2 ^ 64) :
    ∃ v, Impl.select x beg end_ = some v ∧ v.v.toBV = Ref.select x.v beg end_ := by
  have h0 : 0 < x.width := by omega
  have hwf := canon_wf_of_pos hx h0
  have hlt : beg - end_ + 1 < 2 ^ 64 := by omega
  cases x with
  | u64 v =>
    simp only [Val.width_u64, Val.v_u64] at *
    have h64 : v.width ≤ 64 := hx.1
    have hw' : beg - end_ + 1 ≤ 64 := by omega
    have he : end_ < 64 := by omega
    unfold Impl.select U64.select
    simp only [show ¬ beg < end_ by omega, if_false, uadd, hlt, if_true, show ¬ end_ ≥ 64 by omega,
      U64.shr, he, Option.bind_eq_bind, Option.bind_some, Option.map_some, U64.genMask_eq hw']
    exact ⟨_, rfl, select_bits v beg end_ hwf hbe hb⟩
  | big v =>
    simp only [Val.width_big, Val.v_big] at *
    unfold Impl.select Big.select
    simp only [show ¬ beg < end_ by omega, if_false, uadd, hlt, if_true, Option.bind_eq_bind,
      Option.bind_some, Big.genMask]
    have e := select_bits v beg end_ hwf hbe hb
    split
    · rename_i y hto
      refine ⟨_, rfl, ?_⟩
      unfold Big.toValueU64 at hto
      split at hto
      · cases hto; exact e
      · cases hto
    · exact ⟨_, rfl, e⟩

/-! ### concat -/

theorem concat_bits (a b : V4) (ha : a.wf) (hb : b.wf) :
    (⟨a.width + b.width, (a.payload <<< b.width) ||| b.payload, (a.mask <<< b.width) ||| b.mask⟩ : BV) =
      Ref.concat a b := by
  unfold Ref.concat
  have hshl : ∀ p, p < 2 ^ a.width → (p <<< b.width) < 2 ^ (a.width + b.width) := by
    intro p hp; rw [Nat.shiftLeft_eq, Nat.pow_add]
    exact Nat.mul_lt_mul_of_pos_right hp (Nat.two_pow_pos _)
  have hle : 2 ^ b.width ≤ 2 ^ (a.width + b.width) := Nat.pow_le_pow_right (by decide) (by omega)
  apply BV.eq_ofFn (w := a.width + b.width) rfl
  · exact Nat.or_lt_two_pow (hshl _ ha.1) (Nat.lt_of_lt_of_le hb.1 hle)
  · exact Nat.or_lt_two_pow (hshl _ ha.2) (Nat.lt_of_lt_of_le hb.2 hle)
  intro i hi
  simp only [Nat.testBit_or, Nat.testBit_shiftLeft, V4.bit, bitOf]
  by_cases h : i < b.width
  · have : ¬ i ≥ b.width := by omega
    simp [h, this]
  · have h2 : i ≥ b.width := by omega
    simp [h, h2, testBit_of_lt hb.1 h2, testBit_of_lt hb.2 h2]

theorem concat_spec (x y : Val) (hx : x.canon) (hy : y.canon) (hxw : x.v.wf) (hyw : y.v.wf)
    (hw64 : x.width + y.width < 2 ^ 64) :
    ∃ v, Impl.concat x y = some v ∧ v.v.toBV = Ref.concat x.v y.v := by
  unfold Impl.concat
  simp only [uadd, hw64, if_true, Option.bind_eq_bind, Option.bind_some]
  have e := concat_bits x.v y.v hxw hyw
  by_cases h : x.width + y.width > 64
  · rw [if_pos h]; exact ⟨_, rfl, e⟩
  · rw [if_neg h]
    cases x with
    | big a => have := hx.1; simp only [Val.width_big] at h; omega
    | u64 a =>
      cases y with
      | big b => have := hy.1; simp only [Val.width_big] at h; omega
      | u64 b =>
        simp only [Val.width_u64, Val.v_u64] at *
        by_cases h64 : b.width = 64
        · have ha0 : a.width = 0 := by omega
          have hap : a.payload = 0 := by have := hxw.1; rw [ha0] at this; omega
          have ham : a.mask = 0 := by have := hxw.2; rw [ha0] at this; omega
          simp only [h64, ne_eq, not_true_eq_false, if_false]
          refine ⟨_, rfl, ?_⟩
          rw [Val.v_u64, ← e]
          simp [V4.toBV, hap, ham, ha0, h64]
        · have hsh : b.width < 64 := by omega
          have hmod : ∀ p, p < 2 ^ a.width → (p <<< b.width) % 2 ^ 64 = p <<< b.width := by
            intro p hp
            apply Nat.mod_eq_of_lt
            rw [Nat.shiftLeft_eq]
            have : 2 ^ 64 = 2 ^ (64 - b.width) * 2 ^ b.width := by rw [← Nat.pow_add]; congr 1; omega
            rw [this]
            apply Nat.mul_lt_mul_of_pos_right _ (Nat.two_pow_pos _)
            exact Nat.lt_of_lt_of_le hp (Nat.pow_le_pow_right (by decide) (by omega))
          simp only [ne_eq, h64, not_false_eq_true, if_true, U64.shl, hsh, Option.bind_eq_bind,
            Option.bind_some, hmod _ hxw.1, hmod _ hxw.2]
          exact ⟨_, rfl, e⟩

end VerylModel.Bits

namespace VerylModel.Bits
open Ref Impl

/-! ### assign (window in range) -/

theorem assign_core (x v : V4) (beg end_ R vp vm : Nat) (hx : x.wf) (hbe : end_ ≤ beg) (hb : beg < x.width)
    (hR : ∀ i, R.testBit i = decide (end_ ≤ i ∧ i ≤ beg))
    (hvp : ∀ i, end_ ≤ i → i ≤ beg → vp.testBit i = v.payload.testBit (i - end_))
    (hvm : ∀ i, end_ ≤ i → i ≤ beg → vm.testBit i = v.mask.testBit (i - end_)) :
    (⟨x.width, (x.payload &&& ((2 ^ x.width - 1) ^^^ R)) ||| (vp &&& R),
      (x.mask &&& ((2 ^ x.width - 1) ^^^ R)) ||| (vm &&& R)⟩ : BV) = Ref.assign x v beg end_ := by
  unfold Ref.assign
  apply BV.eq_ofFn (w := x.width) rfl
  · apply lt_of_testBit_false; intro i hi
    have : ¬ (end_ ≤ i ∧ i ≤ beg) := by omega
    simp [Nat.testBit_or, Nat.testBit_and, hR, this, testBit_of_lt hx.1 hi]
  · apply lt_of_testBit_false; intro i hi
    have : ¬ (end_ ≤ i ∧ i ≤ beg) := by omega
    simp [Nat.testBit_or, Nat.testBit_and, hR, this, testBit_of_lt hx.2 hi]
  intro i hi
  simp only [Nat.testBit_or, Nat.testBit_and, Nat.testBit_xor, testBit_mask, hR, hi, decide_true, V4.bit, bitOf]
  by_cases h : end_ ≤ i ∧ i ≤ beg
  · simp [h, hvp i h.1 h.2, hvm i h.1 h.2]
  · simp [h]

theorem Big.genMaskRange_testBit (beg end_ R : Nat) (h : Big.genMaskRange beg end_ = some R) (i : Nat) :
    R.testBit i = decide (end_ ≤ i ∧ i ≤ beg) := by
  unfold Big.genMaskRange uadd at h
  split at h
  · simp only [Option.bind_eq_bind, Option.bind_some, Option.some.injEq] at h
    rw [← h]
    simp only [Big.genMask, Nat.testBit_and, Nat.testBit_xor, testBit_mask]
    by_cases h1 : i < beg + 1 <;> by_cases h2 : i < end_ <;> simp [h1, h2] <;> omega
  · simp at h

theorem U64.genMaskRange_testBit (beg end_ R : Nat) (hbeg : beg < 64) (h : U64.genMaskRange beg end_ = some R)
    (i : Nat) : R.testBit i = decide (end_ ≤ i ∧ i ≤ beg) := by
  unfold U64.genMaskRange uadd at h
  split at h
  · simp only [Option.bind_eq_bind, Option.bind_some, Option.some.injEq] at h
    rw [← h]
    by_cases he : end_ ≤ 64
    · simp only [U64.genMask_eq (show beg + 1 ≤ 64 by omega), U64.genMask_eq he, Nat.testBit_and,
        testBit_not64, testBit_mask]
      by_cases h1 : i < beg + 1 <;> by_cases h2 : i < end_ <;> by_cases h3 : i < 64 <;>
        simp [h1, h2, h3] <;> omega
    · have hge : end_ ≥ 64 := by omega
      simp only [U64.genMask_eq (show beg + 1 ≤ 64 by omega), U64.genMask, hge, if_true, U64.MAX, Nat.testBit_and,
        testBit_not64, testBit_mask]
      by_cases h1 : i < beg + 1 <;> by_cases h3 : i < 64 <;> simp [h1, h3] <;> omega
  · simp at h

end VerylModel.Bits

namespace VerylModel.Bits
open Ref Impl

theorem assign_u64_eq (x v : V4) (beg end_ : Nat) :
    Impl.assign (.u64 x) (.u64 v) beg end_ = (U64.assign x v beg end_).map .u64 := rfl

theorem assign_big_eq (x : V4) (value : Val) (beg end_ : Nat) :
    Impl.assign (.big x) value beg end_ = (Big.assign x value.v beg end_).map .big := rfl

/-- `Value::assign` with the window inside the destination, value in the destination's
    representation (or any representation for a BigUint destination). -/
theorem assign_spec (x value : Val) (beg end_ : Nat) (hx : x.canon) (hbe : end_ ≤ beg) (hb : beg < x.width)
    (hw64 : x.width < 2 ^ 64)
    (hrep : ∀ a, x = .u64 a → ∃ b, value = .u64 b ∧ b.payload < 2 ^ 64 ∧ b.mask < 2 ^ 64) :
    ∃ r, Impl.assign x value beg end_ = some r ∧ r.v.toBV = Ref.assign x.v value.v beg end_ := by
  have h0 : 0 < x.width := by omega
  have hwf := canon_wf_of_pos hx h0
  cases x with
  | u64 a =>
    obtain ⟨b, hb1, hb2, hb3⟩ := hrep a rfl
    subst hb1
    simp only [Val.width_u64, Val.v_u64] at *
    have h64 : a.width ≤ 64 := hx.1
    have he : end_ < 64 := by omega
    have hbeg : beg < 64 := by omega
    rw [assign_u64_eq]
    unfold U64.assign
    have hlt : beg + 1 < 2 ^ 64 := by omega
    have hR : ∃ R, U64.genMaskRange beg end_ = some R := by
      unfold U64.genMaskRange uadd; simp [hlt]
    obtain ⟨R, hR⟩ := hR
    simp only [show ¬ end_ ≥ 64 by omega, if_false, U64.shl, he, if_true, hR, Option.bind_eq_bind,
      Option.bind_some, Option.map_some, U64.genMask_eq h64]
    refine ⟨_, rfl, ?_⟩
    have := assign_core a b beg end_ R ((b.payload <<< end_) % 2 ^ 64) ((b.mask <<< end_) % 2 ^ 64) hwf hbe hb
      (U64.genMaskRange_testBit beg end_ R hbeg hR)
      (fun i h1 h2 => by
        have : i < 64 := by omega
        rw [Nat.testBit_mod_two_pow, Nat.testBit_shiftLeft]; simp [this, h1])
      (fun i h1 h2 => by
        have : i < 64 := by omega
        rw [Nat.testBit_mod_two_pow, Nat.testBit_shiftLeft]; simp [this, h1])
    rw [← this]; rfl
  | big a =>
    simp only [Val.width_big, Val.v_big] at *
    rw [assign_big_eq]
    unfold Big.assign
    have hlt : beg + 1 < 2 ^ 64 := by omega
    have hR : ∃ R, Big.genMaskRange beg end_ = some R := by
      unfold Big.genMaskRange uadd; simp [hlt]
    obtain ⟨R, hR⟩ := hR
    simp only [hR, Option.bind_eq_bind, Option.bind_some, Option.map_some, Big.genMask]
    refine ⟨_, rfl, ?_⟩
    have := assign_core a value.v beg end_ R (value.v.payload <<< end_) (value.v.mask <<< end_) hwf hbe hb
      (Big.genMaskRange_testBit beg end_ R hR)
      (fun i h1 h2 => by simp [Nat.testBit_shiftLeft, h1])
      (fun i h1 h2 => by simp [Nat.testBit_shiftLeft, h1])
    rw [← this]; rfl

end VerylModel.Bits
