import VerylModel.Lemmas.SimSettle
import VerylModel.Lemmas.SimFrame
/-!
From the syntax of a design to the acyclicity certificate of `SimSettle`:
`checkDesign bodies vr` is an executable check (data-flow check of every `always_comb`/`assign`
unit, single driver per variable, a variable ranking `vr` under which every unit reads only
lower-ranked driven variables); if it succeeds, the units of the design satisfy `Acyclic`.
`D2` and `D4` are local domains.
-/
namespace VerylModel.Sim

mutual
def readsS : Stmt → List Nat
  | .set l r => rhsVars r ++ (if l.full then [] else [l.var])
  | .setDyn v _ _ idx r => rhsVars idx ++ rhsVars r ++ [v]
  | .ite c t e => rhsVars c ++ readsSs t ++ readsSs e
  | .case sel arms d => rhsVars sel ++ readsArms arms ++ readsSs d
  | .disp _ _ => []
def readsSs : Stmts → List Nat
  | .nil => []
  | .cons s ss => readsS s ++ readsSs ss
def readsArms : Arms → List Nat
  | .nil => []
  | .cons _ _ b rest => readsSs b ++ readsArms rest
end

/-- the variables a unit reads from outside (reads of its own targets must come after their full
definition: `flowSs` checks that) -/
def extReads (b : Stmts) : List Nat := (readsSs b).filter (fun x => !(targetsSs b).contains x)

def unitOf (D : Dom) (b : Stmts) : CombUnit D.Val := { run := fun f => (execSs D b ⟨f⟩).get, W := targetsSs b, R := extReads b }

def unitCheck (b : Stmts) : Bool :=
  match flowSs (extReads b) b with
  | some S' => subset (targetsSs b) S'
  | none => false

theorem unitOk_of_check (D : Dom) (L : DomLocal D) (b : Stmts) (h : unitCheck b = true) : UnitOk (unitOf D b) := by
  unfold unitCheck at h
  split at h
  · rename_i S' hf
    constructor
    · intro σ x hx
      exact execSs_frame D x b ⟨σ⟩ hx
    · intro σ σ' ha x hx
      exact flowSs_sound D L (extReads b) b S' ⟨σ⟩ ⟨σ'⟩ hf ha x (subset_mem h hx)
  · cases h

def disjoint (a b : List Nat) : Bool := a.all (fun x => !b.contains x)

def pairwiseDisjoint : List (List Nat) → Bool
  | [] => true
  | w :: ws => ws.all (disjoint w) && pairwiseDisjoint ws

def rankOf (vr : List Nat) (W : List Nat) : Nat :=
  match W with
  | [] => 0
  | w :: _ => vr.getD w 0

def allTargets (bs : List Stmts) : List Nat := bs.flatMap targetsSs

def checkDesign (bs : List Stmts) (vr : List Nat) : Bool :=
  bs.all unitCheck &&
  bs.all (fun b => (targetsSs b).all (fun w => vr.getD w 0 == rankOf vr (targetsSs b))) &&
  bs.all (fun b => (extReads b).all (fun r => !(allTargets bs).contains r || decide (vr.getD r 0 < rankOf vr (targetsSs b)))) &&
  bs.all (fun b => decide (rankOf vr (targetsSs b) < bs.length)) &&
  pairwiseDisjoint (bs.map targetsSs)

theorem disjoint_false {a b : List Nat} (h : disjoint a b = true) {x : Nat} (ha : x ∈ a) (hb : x ∈ b) : False := by
  simp only [disjoint, List.all_eq_true] at h
  have := h x ha
  simp [hb] at this

theorem pairwise_single : ∀ (bs : List Stmts), pairwiseDisjoint (bs.map targetsSs) = true →
    ∀ b ∈ bs, ∀ b' ∈ bs, ∀ x, x ∈ targetsSs b → x ∈ targetsSs b' → b = b'
  | [], _, b, hb, _, _, _, _, _ => by cases hb
  | c :: cs, h, b, hb, b', hb', x, hx, hx' => by
    simp only [List.map_cons, pairwiseDisjoint, Bool.and_eq_true, List.all_eq_true, List.mem_map,
      forall_exists_index, and_imp, forall_apply_eq_imp_iff₂] at h
    cases List.mem_cons.mp hb with
    | inl e =>
      cases List.mem_cons.mp hb' with
      | inl e' => rw [e, e']
      | inr m' =>
        subst e
        exact (disjoint_false (h.1 b' m') hx hx').elim
    | inr m =>
      cases List.mem_cons.mp hb' with
      | inl e' =>
        subst e'
        exact (disjoint_false (h.1 b m) hx' hx).elim
      | inr m' => exact pairwise_single cs h.2 b m b' m' x hx hx'

theorem acyclic_of_check (D : Dom) (L : DomLocal D) (bs : List Stmts) (vr : List Nat) (h : checkDesign bs vr = true) :
    Acyclic (bs.map (unitOf D)) (fun u => rankOf vr u.W) bs.length := by
  simp only [checkDesign, Bool.and_eq_true, List.all_eq_true] at h
  obtain ⟨⟨⟨⟨h1, h2⟩, h3⟩, h4⟩, h5⟩ := h
  constructor
  · intro u hu
    obtain ⟨b, hb, rfl⟩ := List.mem_map.mp hu
    exact unitOk_of_check D L b (h1 b hb)
  · intro u hu
    obtain ⟨b, hb, rfl⟩ := List.mem_map.mp hu
    simpa [unitOf] using h4 b hb
  · intro u hu v hv x hxr hxw
    obtain ⟨b, hb, rfl⟩ := List.mem_map.mp hu
    obtain ⟨b', hb', rfl⟩ := List.mem_map.mp hv
    simp only [unitOf] at hxr hxw ⊢
    have hall : x ∈ allTargets bs := by
      simp only [allTargets, List.mem_flatMap]
      exact ⟨b', hb', hxw⟩
    have := h3 b hb x hxr
    simp only [Bool.or_eq_true, Bool.not_eq_true', decide_eq_true_eq] at this
    cases this with
    | inl hc => simp [hall] at hc
    | inr hlt =>
      have := h2 b' hb' x hxw
      simp only [beq_iff_eq] at this
      rw [← this]
      exact hlt
  · intro u hu v hv x hx hx'
    obtain ⟨b, hb, rfl⟩ := List.mem_map.mp hu
    obtain ⟨b', hb', rfl⟩ := List.mem_map.mp hv
    simp only [unitOf] at hx hx'
    rw [pairwise_single bs h5 b hb b' hb' x hx hx']

/-! ### `pass`/`settle` of a design are `passU`/`iterU` of its units -/

def bodiesOf : List Decl → List Stmts
  | [] => []
  | .comb b :: ds => b :: bodiesOf ds
  | .ff _ _ _ :: ds => bodiesOf ds

theorem pass_eq_passU (D : Dom) : ∀ (ds : List Decl) (σ : Store D),
    (pass D ds σ).get = passU ((bodiesOf ds).map (unitOf D)) σ.get
  | [], _ => rfl
  | .comb b :: ds, σ => by
    have := pass_eq_passU D ds (execSs D b σ)
    simpa [pass, passU, bodiesOf, runComb, unitOf] using this
  | .ff _ _ _ :: ds, σ => by
    have := pass_eq_passU D ds σ
    simpa [pass, passU, bodiesOf, runComb] using this

theorem settle_eq_iterU (D : Dom) (ds : List Decl) : ∀ (n : Nat) (σ : Store D),
    (settle D ds n σ).get = iterU ((bodiesOf ds).map (unitOf D)) n σ.get
  | 0, _ => rfl
  | n + 1, σ => by
    rw [settle, iterU, settle_eq_iterU D ds n, pass_eq_passU]

theorem iterU_succ_last {V : Type} (l : List (CombUnit V)) : ∀ (n : Nat) (σ : Nat → V),
    iterU l (n + 1) σ = passU l (iterU l n σ)
  | 0, _ => rfl
  | n + 1, σ => by
    rw [iterU, iterU_succ_last l n, iterU]

theorem iterU_more {V : Type} {us l : List (CombUnit V)} {rk : CombUnit V → Nat} {N : Nat} (A : Acyclic us rk N)
    (hl : ∀ v, v ∈ l ↔ v ∈ us) (σ : Nat → V) : ∀ k, iterU l (N + k) σ = iterU l N σ
  | 0 => rfl
  | k + 1 => by
    rw [← Nat.add_assoc, iterU_succ_last, iterU_more A hl σ k, settle_stable A hl]

/-! ### the two concrete domains are local -/

theorem env2_congr (σ σ' : Nat → Option Nat) : ∀ (ls : List Leaf), (∀ x ∈ ls.map (·.var), σ x = σ' x) → env2 σ ls = env2 σ' ls
  | [], _ => rfl
  | l :: ls, h => by
    have h1 : σ l.var = σ' l.var := h l.var (by simp)
    have h2 := env2_congr σ σ' ls (fun x hx => h x (by simp only [List.map_cons, List.mem_cons]; exact Or.inr hx))
    simp only [env2, h1, h2]

theorem env4_congr (σ σ' : Nat → V4) : ∀ (ls : List Leaf), (∀ x ∈ ls.map (·.var), σ x = σ' x) → env4 σ ls = env4 σ' ls
  | [], _ => rfl
  | l :: ls, h => by
    have h1 : σ l.var = σ' l.var := h l.var (by simp)
    have h2 := env4_congr σ σ' ls (fun x hx => h x (by simp only [List.map_cons, List.mem_cons]; exact Or.inr hx))
    simp only [env4, h1, h2]

theorem write2_full (l : Lhs) (hf : l.full = true) (a b n : Option Nat) : write2 a l n = write2 b l n := by
  simp [write2, hf]

theorem write4_full (l : Lhs) (hf : l.full = true) (a b n : V4) : write4 a l n = write4 b l n := by
  simp [write4, hf]

theorem D2_local : DomLocal D2 := by
  constructor
  · intro σ σ' r w h
    show rhs2 σ r w = rhs2 σ' r w
    simp only [rhs2, env2_congr σ σ' r.leaves h]
  · intro σ σ' r h
    show cond2 σ r = cond2 σ' r
    simp only [cond2, env2_congr σ σ' r.leaves h]
  · intro σ σ' r lw lv h
    show cond2 σ (eqLabel r lw lv) = cond2 σ' (eqLabel r lw lv)
    simp only [cond2, eqLabel, env2_congr σ σ' r.leaves h]
  · intro σ σ' r h
    show arg2 σ r = arg2 σ' r
    simp only [arg2, env2_congr σ σ' r.leaves h]
  · intro σ σ' r h
    show idx2 σ r = idx2 σ' r
    simp only [idx2, env2_congr σ σ' r.leaves h]
  · intro l hf a b n
    exact write2_full l hf a b n

theorem D4_local : DomLocal D4 := by
  constructor
  · intro σ σ' r w h
    show rhs4 σ r w = rhs4 σ' r w
    simp only [rhs4, env4_congr σ σ' r.leaves h]
  · intro σ σ' r h
    show cond4 σ r = cond4 σ' r
    simp only [cond4, env4_congr σ σ' r.leaves h]
  · intro σ σ' r lw lv h
    show cond4 σ (eqLabel r lw lv) = cond4 σ' (eqLabel r lw lv)
    simp only [cond4, eqLabel, env4_congr σ σ' r.leaves h]
  · intro σ σ' r h
    show arg4 σ r = arg4 σ' r
    simp only [arg4, env4_congr σ σ' r.leaves h]
  · intro σ σ' r h
    show idx4 σ r = idx4 σ' r
    simp only [idx4, env4_congr σ σ' r.leaves h]
  · intro l hf a b n
    exact write4_full l hf a b n

end VerylModel.Sim
