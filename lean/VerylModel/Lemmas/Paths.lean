import VerylModel.Core.Paths
/-! Helper lemmas for C25 (core Lean only). -/
namespace VerylModel.Paths
open VerylModel.Graph

theorem usedFiles_mem (paths : List Nat) : ∀ (cands : List Sym) (f : Nat),
    f ∈ usedFiles paths cands ↔ f ∈ paths ∧ ∃ s ∈ cands, s.file = some f
  | [], f => by simp [usedFiles]
  | s :: ss, f => by
    have ih := usedFiles_mem paths ss f
    unfold usedFiles
    cases hf : s.file with
    | none =>
      simp only [ih]
      constructor
      · rintro ⟨h1, s', hs', h2⟩
        exact ⟨h1, s', List.mem_cons_of_mem _ hs', h2⟩
      · rintro ⟨h1, s', hs', h2⟩
        rcases List.mem_cons.mp hs' with hs' | hs'
        · subst hs'; rw [hf] at h2; cases h2
        · exact ⟨h1, s', hs', h2⟩
    | some g =>
      simp only
      split
      · rename_i hc
        simp only [Bool.and_eq_true, List.contains_eq_mem, decide_eq_true_eq, Bool.not_eq_eq_eq_not,
          Bool.not_true, decide_eq_false_iff_not] at hc
        simp only [List.mem_cons, ih]
        constructor
        · rintro (h | ⟨h1, s', hs', h2⟩)
          · subst h; exact ⟨hc.1, s, Or.inl rfl, hf⟩
          · exact ⟨h1, s', Or.inr hs', h2⟩
        · rintro ⟨h1, s', hs', h2⟩
          rcases hs' with hs' | hs'
          · subst hs'; rw [hf] at h2; cases h2; exact Or.inl rfl
          · exact Or.inr ⟨h1, s', hs', h2⟩
      · rename_i hc
        simp only [Bool.and_eq_true, List.contains_eq_mem, decide_eq_true_eq, Bool.not_eq_eq_eq_not,
          Bool.not_true, decide_eq_false_iff_not, not_and, Decidable.not_not] at hc
        simp only [ih]
        constructor
        · rintro ⟨h1, s', hs', h2⟩
          exact ⟨h1, s', List.mem_cons_of_mem _ hs', h2⟩
        · rintro ⟨h1, s', hs', h2⟩
          rcases List.mem_cons.mp hs' with hs' | hs'
          · subst hs'
            rw [hf] at h2
            cases h2
            exact ih.mp (hc h1)
          · exact ⟨h1, s', hs', h2⟩

theorem usedFiles_nodup (paths : List Nat) : ∀ (cands : List Sym), (usedFiles paths cands).Nodup
  | [] => by simp [usedFiles]
  | s :: ss => by
    have ih := usedFiles_nodup paths ss
    unfold usedFiles
    cases hf : s.file with
    | none => exact ih
    | some g =>
      simp only
      split
      · rename_i hc
        simp only [Bool.and_eq_true, List.contains_eq_mem, decide_eq_true_eq, Bool.not_eq_eq_eq_not,
          Bool.not_true, decide_eq_false_iff_not] at hc
        exact List.nodup_cons.mpr ⟨hc.2, ih⟩
      · exact ih

theorem topoFiles_sub : ∀ (topo : List Sym) (used : List Nat) (f : Nat), f ∈ topoFiles topo used → f ∈ used
  | [], _, _, h => by simp [topoFiles] at h
  | s :: ss, used, f, h => by
    unfold topoFiles at h
    split at h
    · rename_i g _ _
      split at h
      · rename_i hc
        rcases List.mem_cons.mp h with h | h
        · subst h; simpa using hc
        · have := topoFiles_sub ss _ f h
          exact (List.mem_filter.mp this).1
      · exact topoFiles_sub ss used f h
    · exact topoFiles_sub ss used f h

theorem topoFiles_nodup : ∀ (topo : List Sym) (used : List Nat), (topoFiles topo used).Nodup
  | [], _ => by simp [topoFiles]
  | s :: ss, used => by
    unfold topoFiles
    split
    · rename_i g _ _
      split
      · refine List.nodup_cons.mpr ⟨?_, topoFiles_nodup ss _⟩
        intro hc
        have := topoFiles_sub ss _ g hc
        simp at this
      · exact topoFiles_nodup ss used
    · exact topoFiles_nodup ss used

theorem insertSorted_perm (x : Nat) : ∀ (l : List Nat), (insertSorted x l).Perm (x :: l)
  | [] => by simp [insertSorted]
  | y :: ys => by
    unfold insertSorted
    split
    · exact List.Perm.refl _
    · exact ((insertSorted_perm x ys).cons y).trans (List.Perm.swap x y ys)

theorem sortNat_perm : ∀ (l : List Nat), (sortNat l).Perm l
  | [] => by simp [sortNat]
  | x :: xs => by
    unfold sortNat
    exact (insertSorted_perm x _).trans ((sortNat_perm xs).cons x)

theorem before_append_right {l : List Nat} {x y : Nat} (h : Before l x y) (r : List Nat) : Before (l ++ r) x y := by
  obtain ⟨l1, l2, l3, h⟩ := h
  exact ⟨l1, l2, l3 ++ r, by simp [h]⟩

theorem topoFiles_emit {s : Sym} {g : Nat} (ss : List Sym) {used : List Nat}
    (hc : s.comp = true) (hf : s.file = some g) (hg : g ∈ used) :
    topoFiles (s :: ss) used = g :: topoFiles ss (used.filter (· ≠ g)) := by
  rw [topoFiles]
  simp [hc, hf, hg]

theorem topoFiles_pass {s : Sym} (ss : List Sym) {used : List Nat}
    (h : ∀ g, s.comp = true → s.file = some g → g ∉ used) :
    topoFiles (s :: ss) used = topoFiles ss used := by
  rw [topoFiles]
  split
  · rename_i g hc hf
    simp [h g hc hf]
  · rfl

/-- Walking over symbols none of which is a component of file `fb` keeps `fb` available, and every
    file that was available is still available or has been emitted. -/
theorem topoFiles_skip (fb : Nat) : ∀ (t rest : List Sym) (used : List Nat), fb ∈ used →
    (∀ s ∈ t, ¬ (s.comp = true ∧ s.file = some fb)) →
    ∃ pre used', topoFiles (t ++ rest) used = pre ++ topoFiles rest used' ∧ fb ∈ used' ∧
      ∀ f ∈ used, f ∈ used' ∨ f ∈ pre
  | [], rest, used, hb, _ => ⟨[], used, by simp, hb, fun f hf => Or.inl hf⟩
  | s :: t, rest, used, hb, hno => by
    have hno' : ∀ s' ∈ t, ¬ (s'.comp = true ∧ s'.file = some fb) := fun s' hs' => hno s' (List.mem_cons_of_mem _ hs')
    have hs := hno s List.mem_cons_self
    simp only [List.cons_append]
    by_cases hemit : ∃ g, s.comp = true ∧ s.file = some g ∧ g ∈ used
    · obtain ⟨g, hc, hf, hg⟩ := hemit
      have hne : fb ≠ g := by
        intro h; subst h; exact hs ⟨hc, hf⟩
      have hb' : fb ∈ used.filter (· ≠ g) := by simp [hb, hne]
      obtain ⟨pre, used', h1, h2, h3⟩ := topoFiles_skip fb t rest _ hb' hno'
      refine ⟨g :: pre, used', ?_, h2, ?_⟩
      · rw [topoFiles_emit _ hc hf hg, h1]
        rfl
      · intro f hf'
        by_cases hfg : f = g
        · subst hfg; exact Or.inr List.mem_cons_self
        · have : f ∈ used.filter (· ≠ g) := by simp [hf', hfg]
          rcases h3 f this with h | h
          · exact Or.inl h
          · exact Or.inr (List.mem_cons_of_mem _ h)
    · rw [topoFiles_pass]
      · exact topoFiles_skip fb t rest used hb hno'
      · intro g hc hf hg
        exact hemit ⟨g, hc, hf, hg⟩

end VerylModel.Paths
