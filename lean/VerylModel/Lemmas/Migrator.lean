import VerylModel.Core.Migrator
import VerylModel.Lemmas.TokenPos
/-! Helper lemmas for C23 (M-Migrator). -/
namespace VerylModel.Migrator
open VerylModel.TokenPos

/-- `a` is not after `b` in (line, column) order. -/
def PosLE (a b : Nat × Nat) : Prop := a.1 < b.1 ∨ (a.1 = b.1 ∧ a.2 ≤ b.2)

instance (a b : Nat × Nat) : Decidable (PosLE a b) := by unfold PosLE; infer_instance

/-- The two newline strings the migrator can use. -/
def NlOk (nl : Text) : Prop := nl = [10] ∨ nl = [13, 10]

/-- A separator: some newlines followed by some spaces. -/
def IsSep (nl : Text) (s : Text) : Prop := ∃ a b, s = repeatText a nl ++ List.replicate b 32

/-- `out` is the texts in order, each preceded by a separator. -/
inductive Interleaved (nl : Text) : List Text → Text → Prop
  | nil : Interleaved nl [] []
  | cons {sep t : Text} {ts : List Text} {out : Text} :
      IsSep nl sep → Interleaved nl ts out → Interleaved nl (t :: ts) (sep ++ t ++ out)

theorem Interleaved.snoc {nl : Text} {ts : List Text} {out sep t : Text}
    (h : Interleaved nl ts out) (hs : IsSep nl sep) : Interleaved nl (ts ++ [t]) (out ++ sep ++ t) := by
  induction h with
  | nil =>
    have := Interleaved.cons (t := t) hs Interleaved.nil
    simpa using this
  | @cons sep' t' ts' out' hs' _ ih =>
    have := Interleaved.cons (t := t') hs' ih
    simpa [List.append_assoc] using this

theorem pushSep_isSep (nl : Text) (s : St) (x : MTok) : IsSep nl (pushSep nl s x) :=
  ⟨_, _, rfl⟩

theorem foldl_interleaved (colAfter : Nat → Text → Nat) (nl : Text) (xs : List MTok) :
    ∀ (s : St) (done : List Text), Interleaved nl done s.out →
      Interleaved nl (done ++ xs.map (·.text)) (xs.foldl (pushTokenWith colAfter nl) s).out := by
  induction xs with
  | nil => intro s done h; simpa using h
  | cons x rest ih =>
    intro s done h
    have h1 : Interleaved nl (done ++ [x.text]) (pushTokenWith colAfter nl s x).out := by
      simpa [pushTokenWith] using h.snoc (pushSep_isSep nl s x)
    have := ih (pushTokenWith colAfter nl s x) (done ++ [x.text]) h1
    simpa [List.append_assoc] using this

/-! ### positions -/

theorem advanceAll_append (lc : Nat × Nat) (a b : Text) :
    advanceAll lc (a ++ b) = advanceAll (advanceAll lc a) b := advanceWAll_append _ lc a b

theorem advanceAll_spaces (lc : Nat × Nat) (n : Nat) :
    advanceAll lc (List.replicate n 32) = (lc.1, lc.2 + n) := by
  induction n generalizing lc with
  | zero => simp [advanceAll, advanceWAll]
  | succ n ih =>
    have := ih (lc.1, lc.2 + 1)
    simp only [advanceAll] at this ⊢
    simp [List.replicate_succ, advanceWAll, advanceW, this]; omega

theorem advanceAll_nl (nl : Text) (hnl : NlOk nl) (lc : Nat × Nat) :
    advanceAll lc nl = (lc.1 + 1, 1) := by
  rcases hnl with h | h <;> subst h <;> simp [advanceAll, advanceWAll, advanceW]

theorem advanceAll_newlines (nl : Text) (hnl : NlOk nl) (lc : Nat × Nat) (n : Nat) (hn : 0 < n) :
    advanceAll lc (repeatText n nl) = (lc.1 + n, 1) := by
  induction n generalizing lc with
  | zero => omega
  | succ n ih =>
    simp only [repeatText, advanceAll_append, advanceAll_nl nl hnl]
    by_cases h0 : n = 0
    · subst h0; simp [repeatText, advanceAll, advanceWAll]
    · rw [ih _ (by omega)]; simp; omega

/-- The state's (line, column) is where its output really ends. -/
def Sync (s : St) : Prop := advanceAll (1, 1) s.out = (s.line, s.col)

/-- The token starts at or after the state's position. -/
def Fits (s : St) (x : MTok) : Prop := PosLE (s.line, s.col) (x.line, x.col)

/-- `colAfter` tells the truth about this text. -/
def Honest (colAfter : Nat → Text → Nat) (x : MTok) : Prop :=
  colAfter x.col x.text = (advanceAll (x.line, x.col) x.text).2

/-- The token's text stands in `out` exactly at the token's own (line, column). -/
def Lands (out : Text) (x : MTok) : Prop :=
  ∃ pre post, out = pre ++ x.text ++ post ∧ advanceAll (1, 1) pre = (x.line, x.col)

theorem Lands.append {out : Text} {x : MTok} (h : Lands out x) (more : Text) : Lands (out ++ more) x := by
  obtain ⟨pre, post, ho, hp⟩ := h
  exact ⟨pre, post ++ more, by simp [ho], hp⟩

/-- In sync and with the token ahead, the separator brings the output exactly to the token's place. -/
theorem sep_reaches (nl : Text) (hnl : NlOk nl) (s : St) (x : MTok) (hsync : Sync s) (hfit : Fits s x)
    (hcol : 1 ≤ x.col) :
    advanceAll (1, 1) (s.out ++ pushSep nl s x) = (x.line, x.col) ∧
    colReset s x + spacesOf s x = x.col := by
  unfold Sync at hsync
  unfold Fits PosLE at hfit
  simp only at hfit
  rw [advanceAll_append, hsync]
  unfold pushSep
  rw [advanceAll_append]
  by_cases hn : newlinesOf s x > 0
  · have hlt : s.line < x.line := by unfold newlinesOf at hn; omega
    rw [advanceAll_newlines nl hnl _ _ hn, advanceAll_spaces]
    have hr : colReset s x = 1 := by simp [colReset, hn]
    simp only [spacesOf, hr]
    constructor
    · simp only [newlinesOf]
      have : s.line + (x.line - s.line) = x.line := by omega
      have h2 : 1 + (x.col - 1) = x.col := by omega
      simp [this, h2]
    · omega
  · have h0 : newlinesOf s x = 0 := by omega
    have hr : colReset s x = s.col := by simp [colReset, h0]
    have hline : s.line = x.line ∧ s.col ≤ x.col := by
      unfold newlinesOf at h0
      rcases hfit with h | h
      · omega
      · exact h
    simp only [h0, repeatText, advanceAll_spaces, spacesOf, hr]
    constructor
    · simp [advanceAll, advanceWAll, hline.1]; omega
    · omega

/-- One `push_token` step: sync is kept and the token lands at its own position. -/
theorem push_sync (colAfter : Nat → Text → Nat) (nl : Text) (hnl : NlOk nl) (s : St) (x : MTok)
    (hsync : Sync s) (hfit : Fits s x) (hcol : 1 ≤ x.col) (hon : Honest colAfter x) :
    Sync (pushTokenWith colAfter nl s x) ∧ Lands (pushTokenWith colAfter nl s x).out x ∧
    ((pushTokenWith colAfter nl s x).line, (pushTokenWith colAfter nl s x).col) =
      advanceAll (x.line, x.col) x.text := by
  obtain ⟨hreach, hcolsum⟩ := sep_reaches nl hnl s x hsync hfit hcol
  have hend : ((pushTokenWith colAfter nl s x).line, (pushTokenWith colAfter nl s x).col) =
      advanceAll (x.line, x.col) x.text := by
    unfold Honest at hon
    simp only [pushTokenWith, hcolsum, hon]
    unfold advanceAll
    rw [advanceWAll_eq]
  refine ⟨?_, ⟨s.out ++ pushSep nl s x, [], by simp [pushTokenWith], hreach⟩, hend⟩
  unfold Sync
  rw [hend]
  have hout : (pushTokenWith colAfter nl s x).out = (s.out ++ pushSep nl s x) ++ x.text := by
    simp [pushTokenWith]
  rw [hout, advanceAll_append, hreach]

/-- The coded column update tells the truth about every text. -/
theorem honest_coded (x : MTok) : Honest colAfterCoded x := by
  unfold Honest colAfterCoded advanceAll
  rw [advanceWAll_eq]
  by_cases h0 : countNl x.text = 0
  · simp [h0, lenW_one, lastSeg_of_noNl x.text h0]
  · have : countNl x.text > 0 := by omega
    simp [h0, this, lenW_one]; omega

theorem posLE_init (x : MTok) (hl : 1 ≤ x.line) (hc : 1 ≤ x.col) : PosLE (1, 1) (x.line, x.col) := by
  unfold PosLE
  simp only
  omega

/-- Folding over tokens that are in source order: every one of them lands at its position. -/
theorem foldl_lands (colAfter : Nat → Text → Nat) (nl : Text) (hnl : NlOk nl) (xs : List MTok) :
    ∀ (s : St), Sync s → (∀ x ∈ xs, Fits s x) → (∀ x ∈ xs, 1 ≤ x.col) → (∀ x ∈ xs, Honest colAfter x) →
      List.Pairwise (fun x y : MTok => PosLE (advanceAll (x.line, x.col) x.text) (y.line, y.col)) xs →
      (∀ x ∈ xs, Lands (xs.foldl (pushTokenWith colAfter nl) s).out x) ∧
      ∀ z, Lands s.out z → Lands (xs.foldl (pushTokenWith colAfter nl) s).out z := by
  induction xs with
  | nil => intro s _ _ _ _ _; exact ⟨by simp, fun z h => by simpa using h⟩
  | cons x rest ih =>
    intro s hsync hfit hcol hon hord
    rw [List.pairwise_cons] at hord
    obtain ⟨hs', hland, hend⟩ :=
      push_sync colAfter nl hnl s x hsync (hfit x (by simp)) (hcol x (by simp)) (hon x (by simp))
    have hfit' : ∀ y ∈ rest, Fits (pushTokenWith colAfter nl s x) y := by
      intro y hy
      unfold Fits
      rw [hend]
      exact hord.1 y hy
    obtain ⟨h1, h2⟩ := ih (pushTokenWith colAfter nl s x) hs' hfit'
      (fun y hy => hcol y (by simp [hy])) (fun y hy => hon y (by simp [hy])) hord.2
    constructor
    · intro y hy
      simp only [List.mem_cons] at hy
      rcases hy with hy | hy
      · subst hy; exact h2 _ hland
      · exact h1 y hy
    · intro z hz
      apply h2
      have : (pushTokenWith colAfter nl s x).out = s.out ++ (pushSep nl s x ++ x.text) := by
        simp [pushTokenWith]
      rw [this]
      exact hz.append _

end VerylModel.Migrator
