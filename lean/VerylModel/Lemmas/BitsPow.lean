import VerylModel.Lemmas.BitsDiv
set_option linter.unusedSimpArgs false
set_option linter.unusedVariables false
/-! Power operator: `pow_mod_width`, Table 11-4, U64 vs BigUint. -/
namespace VerylModel.Bits
open Ref Impl

theorem powModAux_lt (fuel b e m : Nat) (hm : 0 < m) : powModAux fuel b e m < m := by
  cases fuel with
  | zero => exact Nat.mod_lt _ hm
  | succ f =>
    simp only [powModAux]
    split
    · exact Nat.mod_lt _ hm
    · split <;> exact Nat.mod_lt _ hm

theorem powMod_lt (b e m : Nat) (hm : 0 < m) : powMod b e m < m := powModAux_lt _ _ _ _ hm

theorem powMod_zero_exp (b m : Nat) : powMod b 0 m = 1 % m := by
  simp [powMod, powModAux]

theorem ofInt_small (w n : Nat) (h : n < 2 ^ w) : ofInt w (n : Int) = ⟨w, n, 0⟩ := by
  rw [ofInt_natCast, Nat.mod_eq_of_lt h]

theorem ofInt_neg_small (w n : Nat) (h : n < 2 ^ w) : ofInt w (-(n : Int)) = ⟨w, (2 ^ w - n) % 2 ^ w, 0⟩ := by
  rw [← ofInt_natCast]
  apply ofInt_congr
  have h1 : ((2 ^ w - n : Nat) : Int) = - (n : Int) + ((2 ^ w : Nat) : Int) * 1 := by
    rw [Int.natCast_sub (Nat.le_of_lt h)]; omega
  rw [h1, Int.add_mul_emod_self_left]

/-- `pow_mod_width` against the reference's sign handling. -/
theorem powModWidth_eq_ref (b : Int) (n w : Nat) :
    (⟨w, Big.powModWidth b.natAbs (decide (b < 0)) n w, 0⟩ : BV) =
      (if b < 0 ∧ (n : Int) % 2 = 1 then ofInt w (- (powMod b.natAbs n (2 ^ w) : Int))
       else ofInt w (powMod b.natAbs n (2 ^ w) : Int)) := by
  have hpos : 0 < 2 ^ w := Nat.two_pow_pos w
  have hmod : Big.genMask w + 1 = 2 ^ w := by unfold Big.genMask; omega
  have hr := powMod_lt b.natAbs n (2 ^ w) hpos
  unfold Big.powModWidth
  simp only [hmod]
  generalize hrdef : powMod b.natAbs n (2 ^ w) = r at hr ⊢
  by_cases hneg : b < 0
  · by_cases hodd : n % 2 = 1
    · have hodd' : (n : Int) % 2 = 1 := by omega
      have hR : (if b < 0 ∧ (n : Int) % 2 = 1 then ofInt w (-(r : Int)) else ofInt w (r : Int)) =
          ofInt w (-(r : Int)) := if_pos ⟨hneg, hodd'⟩
      rw [hR, ofInt_neg_small _ _ hr]
      by_cases hz : r = 0
      · simp [hneg, hodd, hz]
      · simp [hneg, hodd, hz]
    · have hodd' : ¬ ((n : Int) % 2 = 1) := by omega
      have hR : (if b < 0 ∧ (n : Int) % 2 = 1 then ofInt w (-(r : Int)) else ofInt w (r : Int)) =
          ofInt w (r : Int) := if_neg (fun h => hodd' h.2)
      rw [hR, ofInt_small _ _ hr]
      simp [hneg, hodd]
  · have hR : (if b < 0 ∧ (n : Int) % 2 = 1 then ofInt w (-(r : Int)) else ofInt w (r : Int)) =
        ofInt w (r : Int) := if_neg (fun h => hneg h.1)
    rw [hR, ofInt_small _ _ hr]
    simp [hneg]

end VerylModel.Bits

namespace VerylModel.Bits
open Ref Impl

/-- Non-negative exponent: reference value in the form `pow_mod_width` produces. -/
theorem powBV_nonneg (a : BV) (y : V4) (w n : Nat) (bs : Bool) (ha : a.mask = 0) (hy : y.mask = 0)
    (he : val y.toBV y.signed = (n : Int)) :
    powBV a y w bs =
      (if val a bs < 0 ∧ (n : Int) % 2 = 1 then ofInt w (- (powMod (val a bs).natAbs n (2 ^ w) : Int))
       else ofInt w (powMod (val a bs).natAbs n (2 ^ w) : Int)) := by
  unfold powBV BV.hasXZ
  simp only [ha, hy, bne_self_eq_false, Bool.or_self, Bool.false_eq_true, if_false, he]
  have hnn : ¬ ((n : Int) < 0) := by omega
  rw [if_neg hnn]
  by_cases h0 : n = 0
  · subst h0
    simp only [Int.natCast_zero, if_true, powMod_zero_exp]
    have : ¬ (val a bs < 0 ∧ (0 : Int) % 2 = 1) := by omega
    rw [if_neg this]
    apply ofInt_congr
    rw [Int.natCast_emod, Int.emod_emod]
    rfl
  · have : ¬ ((n : Int) = 0) := by omega
    rw [if_neg this, Int.toNat_natCast]

theorem Big.powOp_eq_ref (a y : V4) (n w : Nat) (hw0 : 0 < w) (ha : a.wf) (hwa : a.width = w)
    (hy : y.mask = 0) (he : val y.toBV y.signed = (n : Int)) :
    ∃ r, Big.powOp a (some n) w = some r ∧ r.toBV = powBV a.toBV y w a.signed := by
  simp only [Big.powOp]
  by_cases hm : a.mask ≠ 0
  · rw [if_pos hm]
    refine ⟨_, rfl, ?_⟩
    unfold powBV BV.hasXZ
    have : (a.toBV.mask != 0 || y.mask != 0) = true := by
      have : (a.toBV.mask != 0) = true := by simpa [V4.toBV] using hm
      rw [this]; rfl
    rw [if_pos this]; rfl
  · rw [if_neg hm]
    have hm0 : a.mask = 0 := by omega
    rw [powBV_nonneg a.toBV y w n a.signed hm0 hy he]
    by_cases hs : a.signed = true
    · rw [if_pos hs, Big.toBigint_eq_toInt a w hw0 ha hwa hm0]
      simp only [Option.bind_eq_bind, Option.bind_some]
      refine ⟨_, rfl, ?_⟩
      have hv : val a.toBV a.signed = a.toBV.toInt := by rw [hs]; rfl
      rw [hv, ← powModWidth_eq_ref]; rfl
    · rw [if_neg hs]
      refine ⟨_, rfl, ?_⟩
      have hs' : a.signed = false := by simpa using hs
      have hv : val a.toBV a.signed = (a.payload : Int) := by rw [hs']; rfl
      rw [hv, ← powModWidth_eq_ref]
      simp [Big.new, V4.toBV]
      rfl

end VerylModel.Bits

namespace VerylModel.Bits
open Ref Impl

theorem ofInt_one (w : Nat) (hw0 : 0 < w) : ofInt w 1 = ⟨w, 1, 0⟩ := by
  have : (1 : Nat) < 2 ^ w := Nat.one_lt_two_pow (by omega)
  exact ofInt_small w 1 this

theorem ofInt_zero (w : Nat) : ofInt w 0 = ⟨w, 0, 0⟩ := ofInt_small w 0 (Nat.two_pow_pos w)

theorem ofInt_neg_one (w : Nat) (hw0 : 0 < w) : ofInt w (-1) = ⟨w, 2 ^ w - 1, 0⟩ := by
  have h1 : (1 : Nat) < 2 ^ w := Nat.one_lt_two_pow (by omega)
  have := ofInt_neg_small w 1 h1
  rw [Nat.mod_eq_of_lt (by omega)] at this
  exact this

/-- Parity of a negative signed exponent = its lowest payload bit. -/
theorem neg_exp_parity (y : V4) (hyw : 0 < y.width) (hy : y.wf) (he : val y.toBV y.signed < 0) :
    (val y.toBV y.signed % 2 = 0) ↔ y.payload.testBit 0 = false := by
  have hs : y.signed = true := by
    cases h : y.signed with
    | true => rfl
    | false => rw [h] at he; simp [val, V4.toBV] at he; omega
  rw [hs] at he ⊢
  have hv : val y.toBV true = y.toBV.toInt := rfl
  rw [hv] at he ⊢
  rw [toInt_eq y.toBV y.width hyw rfl hy.1] at he ⊢
  have hpow : 2 ^ y.width = 2 ^ (y.width - 1) * 2 := by rw [← Nat.pow_succ]; congr 1; omega
  have hc : ((2 ^ y.width : Nat) : Int) = ((2 ^ (y.width - 1) : Nat) : Int) * 2 := by rw [hpow]; simp
  rw [Nat.testBit_zero]
  have hp : y.toBV.payload = y.payload := rfl
  by_cases h : 2 ^ (y.width - 1) ≤ y.toBV.payload
  · rw [if_pos h] at he ⊢
    constructor
    · intro h2; simp; omega
    · intro h2; simp at h2; omega
  · rw [if_neg h] at he; omega

/-- Table 11-4, negative exponent (2-state exponent): the table of `Op::Pow` is the IEEE one. -/
theorem Big.powNeg_eq_ref (a y : V4) (w : Nat) (hw0 : 0 < w) (ha : a.wf) (hwa : a.width = w)
    (hy : y.mask = 0) (hyw : 0 < y.width) (hywf : y.wf) (he : val y.toBV y.signed < 0) :
    (Big.powNeg a w (y.payload.testBit 0)).toBV = powBV a.toBV y w a.signed := by
  have hpa : a.payload < 2 ^ w := by rw [← hwa]; exact ha.1
  have hpar := neg_exp_parity y hyw hywf he
  unfold Big.powNeg powBV BV.hasXZ
  simp only [Big.genMask, Nat.and_two_pow_sub_one_eq_mod, Nat.mod_eq_of_lt hpa]
  generalize hY : val y.toBV y.signed = Y at he hpar ⊢
  by_cases hm : a.mask ≠ 0
  · have h1 : (a.toBV.mask != 0 || y.mask != 0) = true := by
      have : (a.toBV.mask != 0) = true := by simpa [V4.toBV] using hm
      rw [this]; rfl
    rw [if_pos (Or.inl hm), if_pos h1]; rfl
  · have hm0 : a.mask = 0 := by omega
    have h1 : ¬ ((a.toBV.mask != 0 || y.mask != 0) = true) := by simp [V4.toBV, hm0, hy]
    rw [if_neg h1]
    simp only [he, if_true]
    have hpow : 2 ^ w = 2 ^ (w - 1) * 2 := by rw [← Nat.pow_succ]; congr 1; omega
    have hc : ((2 ^ w : Nat) : Int) = ((2 ^ (w - 1) : Nat) : Int) * 2 := by rw [hpow]; simp
    have hp1 : 0 < 2 ^ (w - 1) := Nat.two_pow_pos _
    -- the base as an integer
    have hb : val a.toBV a.signed =
        if a.signed = true ∧ 2 ^ (w - 1) ≤ a.payload then (a.payload : Int) - ((2 ^ w : Nat) : Int)
        else (a.payload : Int) := by
      cases hs : a.signed with
      | false => simp [val, V4.toBV]
      | true =>
        have hv : val a.toBV true = a.toBV.toInt := rfl
        rw [hv, toInt_eq a.toBV w hw0 hwa hpa]
        by_cases hc2 : 2 ^ (w - 1) ≤ a.payload
        · rw [if_pos (show 2 ^ (w - 1) ≤ a.toBV.payload from hc2), if_pos ⟨rfl, hc2⟩]; rfl
        · rw [if_neg (show ¬ 2 ^ (w - 1) ≤ a.toBV.payload from hc2), if_neg (fun h => hc2 h.2)]; rfl
    rw [hb]
    by_cases hp0 : a.payload = 0
    · have hcond : ¬ (a.signed = true ∧ 2 ^ (w - 1) ≤ a.payload) := by omega
      rw [if_pos (Or.inr hp0), if_neg hcond, hp0]
      simp [Big.newX, V4.toBV, allX, Big.genMask]
    · rw [if_neg (by omega)]
      by_cases hp1' : a.payload = 1
      · rw [if_pos hp1']
        by_cases hcond : a.signed = true ∧ 2 ^ (w - 1) ≤ a.payload
        · -- w = 1, base = -1 (1-bit signed 1)
          have hw1 : 2 ^ (w - 1) = 1 := by omega
          have h2w : 2 ^ w = 2 := by omega
          rw [if_pos hcond, hp1', h2w]
          simp only [Big.new, V4.toBV]
          have e1 : ((1 : Nat) : Int) - ((2 : Nat) : Int) = -1 := by decide
          rw [e1]
          simp only [show ¬ ((-1 : Int) = 0) by decide, show ¬ ((-1 : Int) = 1) by decide, if_false, if_true]
          have ho : ofInt w 1 = ⟨w, 1, 0⟩ := ofInt_one w hw0
          have hn : ofInt w (-1) = ⟨w, 1, 0⟩ := by rw [ofInt_neg_one w hw0, h2w]
          by_cases hev : Y % 2 = 0
          · rw [if_pos hev, ho]
          · rw [if_neg hev, hn]
        · rw [if_neg hcond, hp1']
          simp only [Big.new, V4.toBV, Int.natCast_one, show ¬ ((1 : Int) = 0) by decide, if_false, if_true]
          exact (ofInt_one w hw0).symm
      · rw [if_neg hp1']
        by_cases hall : a.signed = true ∧ a.payload = 2 ^ w - 1
        · rw [if_pos hall]
          have hcond : a.signed = true ∧ 2 ^ (w - 1) ≤ a.payload := ⟨hall.1, by omega⟩
          rw [if_pos hcond]
          have e1 : (a.payload : Int) - ((2 ^ w : Nat) : Int) = -1 := by
            rw [hall.2, Int.natCast_sub (Nat.two_pow_pos w)]; omega
          rw [e1]
          simp only [show ¬ ((-1 : Int) = 0) by decide, show ¬ ((-1 : Int) = 1) by decide, if_false, if_true]
          by_cases hev : Y % 2 = 0
          · have := hpar.mp hev
            rw [if_pos hev, this]
            simp [Big.new, V4.toBV, ofInt_one w hw0]
          · have : y.payload.testBit 0 = true := by
              cases h : y.payload.testBit 0 with
              | true => rfl
              | false => exact absurd (hpar.mpr h) hev
            rw [if_neg hev, this]
            simp [Big.new, V4.toBV, ofInt_neg_one w hw0]
        · rw [if_neg hall]
          simp only [Big.new, V4.toBV]
          rw [← ofInt_zero w]
          by_cases hcond : a.signed = true ∧ 2 ^ (w - 1) ≤ a.payload
          · rw [if_pos hcond]
            have hne : a.payload ≠ 2 ^ w - 1 := fun h => hall ⟨hcond.1, h⟩
            have n0 : ¬ ((a.payload : Int) - ((2 ^ w : Nat) : Int) = 0) := by omega
            have n1 : ¬ ((a.payload : Int) - ((2 ^ w : Nat) : Int) = 1) := by omega
            have n2 : ¬ ((a.payload : Int) - ((2 ^ w : Nat) : Int) = -1) := by omega
            rw [if_neg n0, if_neg n1, if_neg n2]
          · rw [if_neg hcond]
            have n0 : ¬ ((a.payload : Int) = 0) := by omega
            have n1 : ¬ ((a.payload : Int) = 1) := by omega
            have n2 : ¬ ((a.payload : Int) = -1) := by omega
            rw [if_neg n0, if_neg n1, if_neg n2]

end VerylModel.Bits

namespace VerylModel.Bits
open Ref Impl

theorem U64.powNeg_eq_big (v : V4) (w : Nat) (o : Bool) (h64 : w ≤ 64) : U64.powNeg v w o = Big.powNeg v w o := by
  unfold U64.powNeg Big.powNeg
  simp only [U64.genMask_eq h64, Big.genMask, U64.newX_eq_big h64, U64.new, Big.new]
  rfl

/-- `ValueU64::to_i64` on a signed known value = two's-complement reading. -/
theorem U64.toI64Val_eq (a : V4) (w : Nat) (hw0 : 0 < w) (h64 : w ≤ 64) (ha : a.wf) (hwa : a.width = w)
    (hm : a.mask = 0) (hs : a.signed = true) : U64.toI64Val a = some (some a.toBV.toInt) := by
  have hpa : a.payload < 2 ^ w := by rw [← hwa]; exact ha.1
  have hmsb := U64.msb_eq (v := a.payload) (width := a.width) (by omega) (by omega)
  unfold U64.toI64Val
  simp only [hm, ne_eq, not_true_eq_false, if_false, hs, if_true, hmsb, Option.bind_eq_bind, Option.bind_some]
  rw [toInt_eq a.toBV w hw0 hwa hpa, hwa, testBit_msb _ _ hw0 hpa]
  have hpow64 : 2 ^ 64 = 2 ^ w * 2 ^ (64 - w) := by rw [← Nat.pow_add]; congr 1; omega
  have hpow : 2 ^ w = 2 ^ (w - 1) * 2 := by rw [← Nat.pow_succ]; congr 1; omega
  have hle : 2 ^ w ≤ 2 ^ 64 := Nat.pow_le_pow_right (by decide) h64
  have hlew : 2 ^ (w - 1) ≤ 2 ^ 63 := Nat.pow_le_pow_right (by decide) (by omega)
  have hposw := Nat.two_pow_pos w
  congr 2
  by_cases h : 2 ^ (w - 1) ≤ a.payload
  · simp only [h, decide_true, if_true]
    have hnot : U64.not (2 ^ w - 1) = 2 ^ 64 - 2 ^ w := by
      unfold U64.not U64.MAX
      rw [xor_mask_eq_sub (show 2 ^ w - 1 < 2 ^ 64 by omega)]
      omega
    have hor : a.payload ||| (2 ^ 64 - 2 ^ w) = (2 ^ 64 - 2 ^ w) + a.payload := by
      have : 2 ^ 64 - 2 ^ w = 2 ^ w * (2 ^ (64 - w) - 1) := by rw [Nat.mul_sub, ← hpow64, Nat.mul_one]
      rw [this, Nat.or_comm, ← Nat.two_pow_add_eq_or_of_lt hpa]
    rw [U64.genMask_eq h64, hnot, hor]
    unfold U64.toI64
    have hbig : ¬ (2 ^ 64 - 2 ^ w + a.payload < 2 ^ 63) := by omega
    rw [if_neg hbig, if_pos (show 2 ^ (w - 1) ≤ a.toBV.payload from h)]
    show ((2 ^ 64 - 2 ^ w + a.payload : Nat) : Int) - ((2 ^ 64 : Nat) : Int) = (a.payload : Int) - ((2 ^ w : Nat) : Int)
    rw [Int.natCast_add, Int.natCast_sub hle]
    omega
  · simp only [h, decide_false, Bool.false_eq_true, if_false]
    unfold U64.toI64
    have : a.payload < 2 ^ 63 := by omega
    rw [if_pos this, if_neg (show ¬ 2 ^ (w - 1) ≤ a.toBV.payload from h)]; rfl

/-- The U64 power arm (incl. the `.to_u64().unwrap_or(0)` of the caller) agrees with the BigUint
    arm for `w ≤ 64`. -/
theorem U64.powOp_eq_big (a : V4) (n : Option Nat) (w : Nat) (hw0 : 0 < w) (h64 : w ≤ 64) (ha : a.wf)
    (hwa : a.width = w) :
    (U64.powOp a n w).map (fun r => { r with payload := if r.payload < 2 ^ 64 then r.payload else 0 }) =
      Big.powOp a n w := by
  have hlt : ∀ mag neg e, Big.powModWidth mag neg e w < 2 ^ 64 := by
    intro mag neg e
    have hpos : 0 < 2 ^ w := Nat.two_pow_pos w
    have hmod : Big.genMask w + 1 = 2 ^ w := by unfold Big.genMask; omega
    have hle : 2 ^ w ≤ 2 ^ 64 := Nat.pow_le_pow_right (by decide) h64
    unfold Big.powModWidth
    simp only [hmod]
    split
    · exact Nat.lt_of_lt_of_le (Nat.mod_lt _ hpos) hle
    · exact Nat.lt_of_lt_of_le (powMod_lt _ _ _ hpos) hle
  cases n with
  | none => simp [U64.powOp, Big.powOp, U64.newX, Big.newX, U64.genMask_eq h64, Big.genMask]
  | some n =>
    simp only [U64.powOp, Big.powOp]
    by_cases hm : a.mask ≠ 0
    · rw [if_pos hm, if_pos hm]
      simp [U64.newX, Big.newX, U64.genMask_eq h64, Big.genMask]
    · rw [if_neg hm, if_neg hm]
      have hm0 : a.mask = 0 := by omega
      by_cases hs : a.signed = true
      · rw [if_pos hs, if_pos hs, U64.toI64Val_eq a w hw0 h64 ha hwa hm0 hs,
          Big.toBigint_eq_toInt a w hw0 ha hwa hm0]
        simp [U64.new, Big.new, hlt]
      · rw [if_neg hs, if_neg hs]
        simp [U64.new, Big.new, hlt]

/-- `y_negative` of the power arm is "the exponent, read with its own signedness, is negative". -/
theorem powYNegative_spec (y : Val) (hy : y.canon) (h0y : 0 < y.width) :
    powYNegative y = some (decide (val y.v.toBV y.v.signed < 0)) := by
  have hwf := canon_wf_of_pos hy h0y
  have hyw : y.width = y.v.width := rfl
  rw [hyw] at h0y
  have hp : y.v.toBV.payload = y.v.payload := rfl
  have key : (y.v.payload.testBit (y.v.width - 1)) = decide (y.v.toBV.toInt < 0) := by
    rw [testBit_msb _ _ h0y hwf.1, toInt_eq y.v.toBV y.v.width h0y rfl hwf.1]
    have hpow : 2 ^ y.v.width = 2 ^ (y.v.width - 1) * 2 := by rw [← Nat.pow_succ]; congr 1; omega
    by_cases h : 2 ^ (y.v.width - 1) ≤ y.v.toBV.payload
    · rw [if_pos h]
      have : (y.v.toBV.payload : Int) - ((2 ^ y.v.width : Nat) : Int) < 0 := by
        have := hwf.1
        omega
      rw [decide_eq_true (show 2 ^ (y.v.width - 1) ≤ y.v.payload from h), decide_eq_true this]
    · rw [if_neg h]
      have : ¬ ((y.v.toBV.payload : Int) < 0) := by omega
      rw [decide_eq_false (show ¬ 2 ^ (y.v.width - 1) ≤ y.v.payload from h), decide_eq_false this]
  unfold powYNegative
  by_cases hs : y.signed = true
  · have hs' : y.v.signed = true := hs
    rw [if_pos hs, if_pos (show y.v.width > 0 from h0y), hs']
    have hv : val y.v.toBV true = y.v.toBV.toInt := rfl
    rw [hv, ← key]
    cases y with
    | u64 v =>
      have h64 : v.width ≤ 64 := hy.1
      simp only [Val.v_u64] at h0y ⊢
      have hsh : v.width - 1 < 64 := by omega
      simp only [U64.shr, hsh, if_true, Option.bind_eq_bind, Option.bind_some, and_one_beq_one,
        Nat.testBit_shiftRight, Nat.add_zero]
    | big v => rfl
  · have hs' : y.v.signed = false := by
      have : y.signed = false := by simpa using hs
      exact this
    rw [if_neg hs, hs']
    have : ¬ (val y.v.toBV false < 0) := by simp [val]
    simp [this]


theorem powModAux_eq (fuel : Nat) : ∀ (b e m : Nat), e < 2 ^ fuel → powModAux fuel b e m = b ^ e % m := by
  induction fuel with
  | zero =>
    intro b e m h
    have : e = 0 := by simpa using h
    subst this; simp [powModAux]
  | succ fuel ih =>
    intro b e m h
    simp only [powModAux]
    by_cases he : e = 0
    · subst he; simp
    · rw [if_neg he]
      have hh : e / 2 < 2 ^ fuel := by rw [Nat.pow_succ] at h; omega
      rw [ih b (e / 2) m hh]
      by_cases hodd : e % 2 = 1
      · rw [if_pos hodd]
        have hsplit : e = e / 2 + e / 2 + 1 := by omega
        conv => rhs; rw [hsplit, Nat.pow_succ, Nat.pow_add]
        rw [Nat.mul_mod (b ^ (e / 2) * b ^ (e / 2)) b m, Nat.mul_mod (b ^ (e / 2)) (b ^ (e / 2)) m]
      · rw [if_neg hodd]
        have hsplit : e = e / 2 + e / 2 := by omega
        conv => rhs; rw [hsplit, Nat.pow_add]
        rw [Nat.mul_mod (b ^ (e / 2)) (b ^ (e / 2)) m]

/-- The reference's square-and-multiply is exponentiation modulo `m`. -/
theorem powMod_eq (b e m : Nat) : powMod b e m = b ^ e % m :=
  powModAux_eq _ b e m Nat.lt_log2_self


end VerylModel.Bits
