import VerylModel.Lemmas.Crash
import VerylModel.Props.C04
/-! Facts about `mkPlan` and the state invariant `Good` (used by `Props/C05`). -/
namespace VerylModel.Crash
open VerylModel.Incremental VerylModel.Props

variable {now : Nat}

theorem mem_changed {fs : FS} {p : Path} {d : Bytes} {o : Path × Bytes} :
    o ∈ changed fs p d ↔ (content (fs p) ≠ some (.raw d) ∧ o = (p, d)) := by
  unfold changed
  split <;> simp [*]

theorem mem_mkPlan_outs {pol : Policy} {E : Env} {w : World} {mt : File → Nat} {fs : FS} {o : Path × Bytes} :
    o ∈ (mkPlan pol E w mt now true fs).outs ↔
      ∃ g ∈ emitted pol E w mt true fs,
        (content (fs (.sv g)) ≠ some (.raw (E.an w g)) ∧ o = (.sv g, E.an w g)) ∨
        (content (fs (.map g)) ≠ some (.raw (E.anMap w g)) ∧ o = (.map g, E.anMap w g)) := by
  simp [mkPlan, List.mem_flatMap, mem_changed]

theorem mkPlan_wf (pol : Policy) (E : Env) (w : World) (mt : File → Nat) (emit : Bool) (fs : FS) :
    (mkPlan pol E w mt now emit fs).wf := by
  intro o ho
  cases emit with
  | false => simp [mkPlan] at ho
  | true =>
    obtain ⟨g, _, ⟨_, rfl⟩ | ⟨_, rfl⟩⟩ := mem_mkPlan_outs.mp ho
    · exact ⟨g, Or.inl rfl⟩
    · exact ⟨g, Or.inr rfl⟩

theorem mkPlan_data (pol : Policy) (E : Env) (w : World) (mt : File → Nat) (fs : FS) :
    ∀ o ∈ (mkPlan pol E w mt now true fs).outs, o.2 = outData E w o.1 := by
  intro o ho
  obtain ⟨g, _, ⟨_, rfl⟩ | ⟨_, rfl⟩⟩ := mem_mkPlan_outs.mp ho <;> rfl

theorem emitted_of_mem_outs {pol : Policy} {E : Env} {w : World} {mt : File → Nat} {fs : FS} {f : File} {p : Path}
    (hp : p = .sv f ∨ p = .map f) (h : p ∈ (mkPlan pol E w mt now true fs).outs.map (·.1)) :
    f ∈ emitted pol E w mt true fs := by
  obtain ⟨o, ho, rfl⟩ := List.mem_map.mp h
  obtain ⟨g, hg, ⟨_, rfl⟩ | ⟨_, rfl⟩⟩ := mem_mkPlan_outs.mp ho <;> rcases hp with h | h <;> simp at h <;> subst h <;> exact hg

/-- After the phases up to the emit loop: emitted files have complete outputs, the others are untouched. -/
theorem pre_outputs (pol : Policy) (mode : OutMode) (E : Env) (w : World) (mt : File → Nat) (fs : FS) (f : File) :
    (f ∈ emitted pol E w mt true fs →
      OutputsOk E w (run now fs (stepsOf ((mkPlan pol E w mt now true fs).pre mode))) f) ∧
    (f ∉ emitted pol E w mt true fs →
      run now fs (stepsOf ((mkPlan pol E w mt now true fs).pre mode)) (.sv f) = fs (.sv f) ∧
      run now fs (stepsOf ((mkPlan pol E w mt now true fs).pre mode)) (.map f) = fs (.map f)) := by
  have hsv := run_pre_out (now := now) mode (mkPlan pol E w mt now true fs) (outData E w) (mkPlan_data pol E w mt fs) fs
    (.sv f) ⟨f, Or.inl rfl⟩
  have hmap := run_pre_out (now := now) mode (mkPlan pol E w mt now true fs) (outData E w) (mkPlan_data pol E w mt fs) fs
    (.map f) ⟨f, Or.inr rfl⟩
  constructor
  · intro hem
    constructor
    · by_cases hin : Path.sv f ∈ (mkPlan pol E w mt now true fs).outs.map (·.1)
      · exact hsv.1 hin
      · rw [hsv.2 hin]
        apply Classical.byContradiction
        intro hne
        exact hin (List.mem_map.mpr ⟨(.sv f, E.an w f), mem_mkPlan_outs.mpr ⟨f, hem, Or.inl ⟨hne, rfl⟩⟩, rfl⟩)
    · by_cases hin : Path.map f ∈ (mkPlan pol E w mt now true fs).outs.map (·.1)
      · exact hmap.1 hin
      · rw [hmap.2 hin]
        apply Classical.byContradiction
        intro hne
        exact hin (List.mem_map.mpr ⟨(.map f, E.anMap w f), mem_mkPlan_outs.mpr ⟨f, hem, Or.inr ⟨hne, rfl⟩⟩, rfl⟩)
  · intro hem
    exact ⟨hsv.2 (fun h => hem (emitted_of_mem_outs (Or.inl rfl) h)),
           hmap.2 (fun h => hem (emitted_of_mem_outs (Or.inr rfl) h))⟩

/-- A complete run, seen at an output path, is the run of its phases before the manifest write. -/
theorem build_out_eq (pol : Policy) (mode : OutMode) (E : Env) (w : World) (mt : File → Nat) (emit : Bool) (fs : FS)
    (p : Path) (hp : IsOut p) :
    build pol mode E w mt now emit fs p = run now fs (stepsOf ((mkPlan pol E w mt now emit fs).pre mode)) p := by
  simp only [build, Plan.steps, Plan.blocks, stepsOf_append, run_append]
  rw [run_blocks_other _ p hp.real (post_other _ (Or.inl hp)), run_blocks_other _ p hp.real (mid_other _ (Or.inl hp))]

theorem mem_emitted {pol : Policy} {E : Env} {w : World} {mt : File → Nat} {emit : Bool} {fs : FS} {f : File} :
    f ∈ emitted pol E w mt emit fs ↔ f ∈ w.files ∧ f ∈ missFinal pol E w mt emit fs := by
  simp [emitted]

theorem not_missSet_of_not_missFinal {pol : Policy} {E : Env} {w : World} {mt : File → Nat} {emit : Bool} {fs : FS} {f : File}
    (h : f ∉ missFinal pol E w mt emit fs) :
    f ∉ missSet (openMan E.key fs).files w.hash (fresh pol fs mt) emit w.files := by
  intro h'
  apply h
  simp only [missFinal, List.mem_append]
  exact Or.inl h'

theorem not_miss_hash {w w' : World} {c : File → Bool} {d : File → List File} {fr : File → Bool} {emit : Bool} {f : File}
    (hf : f ∈ w'.files) (h : f ∉ missSet (saveManifest w c d) w'.hash fr emit w'.files) : w'.hash f = w.hash f := by
  have h0 : f ∉ miss0 (saveManifest w c d) w'.hash fr emit w'.files := fun x => h (C04.mem_missSet_of_miss0 x)
  unfold miss0 at h0
  simp only [List.mem_filter, hf, true_and, Bool.not_eq_true', Bool.not_eq_false] at h0
  unfold isHit at h0
  rw [C04.lookup_saveManifest] at h0
  by_cases hfw : f ∈ w.files
  · simp only [hfw, if_true, Bool.and_eq_true, beq_iff_eq] at h0
    exact h0.1.1.1.symm
  · simp [hfw] at h0

/-- From a `Good` state the next complete `build` gives every file the clean outputs
    (C04's `miss_superset` supplies that a non-missed file is a sound hit). -/
theorem build_correct (pol : Policy) (mode : OutMode) (E : Env) (w2 : World) (mt2 : File → Nat) (fs : FS) (wm : World)
    (hg : Good pol E fs wm (fun f => w2.hash f = wm.hash f))
    (hs : C04.DepSound (an' E) E.deps wm w2) (hd : C04.NoDeletedDep E.deps wm w2) :
    ∀ f ∈ w2.files, OutputsOk E w2 (build pol mode E w2 mt2 now true fs) f := by
  intro f hf
  unfold OutputsOk
  rw [build_out_eq pol mode E w2 mt2 true fs (.sv f) ⟨f, Or.inl rfl⟩,
      build_out_eq pol mode E w2 mt2 true fs (.map f) ⟨f, Or.inr rfl⟩]
  have hpre := pre_outputs (now := now) pol mode E w2 mt2 fs f
  by_cases hem : f ∈ emitted pol E w2 mt2 true fs
  · exact hpre.1 hem
  · rw [(hpre.2 hem).1, (hpre.2 hem).2]
    have hmf : f ∉ missFinal pol E w2 mt2 true fs := fun h => hem (mem_emitted.mpr ⟨hf, h⟩)
    have hms := not_missSet_of_not_missFinal hmf
    rw [hg.1] at hms
    obtain ⟨hfw, han, hfr⟩ := C04.miss_superset (an' E) E.deps wm w2 (E.cach wm) (fresh pol fs mt2) true hs hd f hf hms
    have hh := not_miss_hash hf hms
    have hok := hg.2 f hfw hh mt2 (hfr rfl)
    have h1 : E.an w2 f = E.an wm f := congrArg Prod.fst han
    have h2 : E.anMap w2 f = E.anMap wm f := congrArg Prod.snd han
    rw [h1, h2]
    exact hok


/-! ### what a crash leaves behind -/

theorem openMan_congr {key : Nat} {a b : FS} (h : a .manifest = b .manifest) : openMan key a = openMan key b := by
  unfold openMan; rw [h]

theorem fresh_congr {pol : Policy} {a b : FS} {mt : File → Nat} {f : File}
    (hi : a .info = b .info) (hs : a (.sv f) = b (.sv f)) (hm : a (.map f) = b (.map f)) :
    fresh pol a mt f = fresh pol b mt f := by
  unfold fresh stampOf; rw [hi, hs, hm]

theorem stampOf_congr {a b : FS} {f : File} (hi : a .info = b .info) : stampOf a f = stampOf b f := by
  unfold stampOf; rw [hi]

/-- Under the repaired staleness test a file one of whose outputs was (re)written at time `t`, later
    than every recorded stamp, is stale. -/
theorem fresh_fixed_touched {fs : FS} {mt : File → Nat} {f : File} {t : Nat}
    (hst : ∀ st, stampOf fs f = some st → st < t)
    (hp : (∃ c, fs (.sv f) = some ⟨c, t⟩) ∨ (∃ c, fs (.map f) = some ⟨c, t⟩)) :
    fresh .fixed fs mt f = false := by
  unfold fresh
  cases h : stampOf fs f with
  | none => rfl
  | some st =>
    have hlt := hst st h
    rcases hp with ⟨c, hc⟩ | ⟨c, hc⟩
    · simp [hc, hlt]
    · cases hsv : fs (.sv f) with
      | none => rfl
      | some o => simp [hc, hlt]

theorem mkPlan_manifest_some {pol : Policy} {E : Env} {w : World} {mt : File → Nat} {emit : Bool} {fs : FS} {m : Man}
    (h : (mkPlan pol E w mt now emit fs).manifest = some m) : m = newManifest pol E w mt emit fs := by
  simp only [mkPlan] at h
  split at h
  · exact (Option.some.inj h).symm
  · cases h

theorem mkPlan_manifest_none {pol : Policy} {E : Env} {w : World} {mt : File → Nat} {emit : Bool} {fs : FS}
    (h : (mkPlan pol E w mt now emit fs).manifest = none) : openMan E.key fs = newManifest pol E w mt emit fs := by
  simp only [mkPlan] at h
  split at h
  · cases h
  · rename_i hs
    simp only [Bool.not_eq_true', Bool.not_eq_false, Bool.and_eq_true, decide_eq_true_eq] at hs
    simpa using hs.2

theorem openMan_of_new {E : Env} {fs : FS} {m : Man} {t : Nat} (hk : m.key = E.key)
    (h : fs .manifest = some ⟨.man m, t⟩) : openMan E.key fs = m := by
  unfold openMan; simp [h, hk]

/-- The state a crash leaves is `Good` for the old manifest's world or for the crashed run's world,
    given either the repaired staleness test (and a clock that moved on) or that every file the
    crashed run was rewriting differs, in the next run, from what the old manifest recorded. -/
theorem crash_good (pol : Policy) (mode : OutMode) (E : Env) (w w1 w2 : World) (mt1 : File → Nat) (t2 : Nat)
    (fs1 : FS) (n : Nat)
    (hg : Good pol E fs1 w (fun _ => True))
    (hs1 : C04.DepSound (an' E) E.deps w w1) (hd1 : C04.NoDeletedDep E.deps w w1)
    (hcond : (pol = .fixed ∧ ∀ f st, stampOf fs1 f = some st → st < t2) ∨
             (∀ f ∈ emitted pol E w1 mt1 true fs1, f ∈ w.files → w2.hash f ≠ w.hash f)) :
    Good pol E (crash t2 fs1 ((mkPlan pol E w1 mt1 t2 true fs1).steps mode) n) w (fun f => w2.hash f = w.hash f) ∨
    Good pol E (crash t2 fs1 ((mkPlan pol E w1 mt1 t2 true fs1).steps mode) n) w1 (fun f => w2.hash f = w1.hash f) := by
  rcases crash_cases (now := t2) mode (mkPlan pol E w1 mt1 t2 true fs1) (mkPlan_wf pol E w1 mt1 true fs1) fs1 n with
    ⟨hman, hinfo, houts⟩ | ⟨houts, hman⟩
  · left
    refine ⟨?_, ?_⟩
    · unfold ManOf; rw [openMan_congr hman]; exact hg.1
    · intro f hfw hH mt hfr
      have touched : ∀ p, (p = Path.sv f ∨ p = Path.map f) →
          p ∈ (mkPlan pol E w1 mt1 t2 true fs1).outs.map (·.1) →
          (∃ c, crash t2 fs1 ((mkPlan pol E w1 mt1 t2 true fs1).steps mode) n p = some ⟨c, t2⟩) → False := by
        intro p hp hin hc
        rcases hcond with ⟨hpol, hclock⟩ | hB
        · subst hpol
          have hst : ∀ st, stampOf (crash t2 fs1 ((mkPlan .fixed E w1 mt1 t2 true fs1).steps mode) n) f = some st → st < t2 := by
            intro st h; rw [stampOf_congr hinfo] at h; exact hclock f st h
          have : fresh .fixed (crash t2 fs1 ((mkPlan .fixed E w1 mt1 t2 true fs1).steps mode) n) mt f = false := by
            apply fresh_fixed_touched hst
            rcases hp with rfl | rfl
            · exact Or.inl hc
            · exact Or.inr hc
          rw [this] at hfr; cases hfr
        · exact hB f (emitted_of_mem_outs hp hin) hfw hH
      rcases houts (.sv f) ⟨f, Or.inl rfl⟩ with hsv | ⟨hin, hc⟩
      · rcases houts (.map f) ⟨f, Or.inr rfl⟩ with hmp | ⟨hin, hc⟩
        · have hok := hg.2 f hfw trivial mt (by rw [← fresh_congr hinfo hsv hmp]; exact hfr)
          unfold OutputsOk; rw [hsv, hmp]; exact hok
        · exact absurd hc (fun h => touched _ (Or.inr rfl) hin h)
      · exact absurd hc (fun h => touched _ (Or.inl rfl) hin h)
  · right
    refine ⟨?_, ?_⟩
    · unfold ManOf
      cases hm : (mkPlan pol E w1 mt1 t2 true fs1).manifest with
      | none =>
        rw [hm] at hman
        rw [openMan_congr hman, mkPlan_manifest_none hm]; rfl
      | some m =>
        rw [hm] at hman
        have := mkPlan_manifest_some hm
        subst this
        rw [openMan_of_new rfl hman]; rfl
    · intro f hf1 _ _ _
      unfold OutputsOk
      rw [houts (.sv f) ⟨f, Or.inl rfl⟩, houts (.map f) ⟨f, Or.inr rfl⟩]
      have hpre := pre_outputs (now := t2) pol mode E w1 mt1 fs1 f
      by_cases hem : f ∈ emitted pol E w1 mt1 true fs1
      · exact hpre.1 hem
      · rw [(hpre.2 hem).1, (hpre.2 hem).2]
        have hmf : f ∉ missFinal pol E w1 mt1 true fs1 := fun h => hem (mem_emitted.mpr ⟨hf1, h⟩)
        have hms := not_missSet_of_not_missFinal hmf
        rw [hg.1] at hms
        obtain ⟨hfw, han, hfr⟩ := C04.miss_superset (an' E) E.deps w w1 (E.cach w) (fresh pol fs1 mt1) true hs1 hd1 f hf1 hms
        have hok := hg.2 f hfw trivial mt1 (hfr rfl)
        have h1 : E.an w1 f = E.an w f := congrArg Prod.fst han
        have h2 : E.anMap w1 f = E.anMap w f := congrArg Prod.snd han
        rw [h1, h2]
        exact hok

end VerylModel.Crash
