import VerylModel.Core.CompTiming
/-! Helper lemmas for C35 (timing): `fireAll` over a component list split at one component. -/
namespace VerylModel.CompTiming

theorem stageAll_append {κ : Type} (s : Store) (a b : List (Comp κ)) :
    stageAll s (a ++ b) = stageAll s a ++ stageAll s b := by
  simp [stageAll]

theorem stageAll_drives {κ : Type} (s : Store) (cs : List (Comp κ)) (v : Nat)
    (h : ∀ c ∈ cs, c.drives v = none) : ∀ c ∈ stageAll s cs, c.drives v = none := by
  intro c hc
  simp only [stageAll, List.mem_map] at hc
  obtain ⟨c0, hc0, rfl⟩ := hc
  have := h c0 hc0
  split <;> simpa using this

/-- A variable no component of the list drives is not touched by `fire_components`. -/
theorem fireAll_undriven {κ : Type} (v : Nat) : ∀ (cs : List (Comp κ)) (s : Store),
    (∀ c ∈ cs, c.drives v = none) → (fireAll s cs).1 v = s v := by
  intro cs
  induction cs with
  | nil => intro s _; rfl
  | cons c cs ih =>
    intro s h
    have hc := h c (by simp)
    have hrest : ∀ c' ∈ cs, c'.drives v = none := fun c' hc' => h c' (by simp [hc'])
    simp only [fireAll]
    split
    · rw [ih _ hrest]
      simp [applyOutputs, hc]
    · exact ih _ hrest

theorem fireAll_append_fst {κ : Type} : ∀ (a b : List (Comp κ)) (s : Store),
    (fireAll s (a ++ b)).1 = (fireAll (fireAll s a).1 b).1 := by
  intro a
  induction a with
  | nil => intro b s; rfl
  | cons c a ih =>
    intro b s
    simp only [List.cons_append, fireAll]
    split <;> simp [ih]

theorem fireAll_append_snd {κ : Type} : ∀ (a b : List (Comp κ)) (s : Store),
    (fireAll s (a ++ b)).2 = (fireAll s a).2 ++ (fireAll (fireAll s a).1 b).2 := by
  intro a
  induction a with
  | nil => intro b s; rfl
  | cons c a ih =>
    intro b s
    simp only [List.cons_append, fireAll]
    split <;> simp [ih]

theorem fireAll_length {κ : Type} : ∀ (cs : List (Comp κ)) (s : Store), (fireAll s cs).2.length = cs.length := by
  intro cs
  induction cs with
  | nil => intro s; rfl
  | cons c cs ih => intro s; simp only [fireAll]; split <;> simp [ih]

end VerylModel.CompTiming
