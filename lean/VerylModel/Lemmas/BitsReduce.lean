import VerylModel.Lemmas.BitsCmp
set_option linter.unusedSimpArgs false
set_option linter.unusedVariables false
/-! Reduction operators: folds of truth tables vs. the flag formulas of op.rs. -/
namespace VerylModel.Bits
open Ref Impl

theorem foldl_range_succ {β : Type} (f : β → Nat → β) (b : β) (n : Nat) :
    (List.range (n + 1)).foldl f b = f ((List.range n).foldl f b) n := by
  rw [List.range_succ, List.foldl_append]; rfl

theorem or_step (A B : Bool) (c : B4) :
    (if A then B4.b1 else if B then .bx else .b0).or c =
      if (A || c == .b1) then .b1 else if (B || !c.known) then .bx else .b0 := by
  cases A <;> cases B <;> cases c <;> rfl

theorem and_step (A B : Bool) (c : B4) :
    (if A then B4.b0 else if B then .bx else .b1).and c =
      if (A || c == .b0) then .b0 else if (B || !c.known) then .bx else .b1 := by
  cases A <;> cases B <;> cases c <;> rfl

/-- §11.4.9 reduction OR, closed form. -/
theorem reduce_or_eq (x : V4) (n : Nat) :
    (List.range n).foldl (fun acc i => B4.or acc (x.bit i)) .b0 =
      (if anyLt n (fun i => x.bit i == .b1) then .b1
       else if anyLt n (fun i => !(x.bit i).known) then .bx else .b0) := by
  induction n with
  | zero => rfl
  | succ n ih =>
    rw [foldl_range_succ, ih]
    simp only [anyLt]
    exact or_step _ _ _

theorem reduce_or_eq_truth (x : V4) : reduce B4.or .b0 x = truth x := by
  unfold reduce truth; exact reduce_or_eq x x.width

/-- §11.4.9 reduction AND, closed form. -/
theorem reduce_and_eq (x : V4) (n : Nat) :
    (List.range n).foldl (fun acc i => B4.and acc (x.bit i)) .b1 =
      (if anyLt n (fun i => x.bit i == .b0) then .b0
       else if anyLt n (fun i => !(x.bit i).known) then .bx else .b1) := by
  induction n with
  | zero => rfl
  | succ n ih =>
    rw [foldl_range_succ, ih]
    simp only [anyLt]
    exact and_step _ _ _

theorem exists_testBit_ne_of_ne {a b : Nat} (h : a ≠ b) : ∃ i, a.testBit i ≠ b.testBit i := by
  apply Classical.byContradiction
  intro hc
  apply h
  apply Nat.eq_of_testBit_eq
  intro i
  apply Classical.byContradiction
  intro hne
  exact hc ⟨i, hne⟩

theorem bit_eq_b0 (x : V4) (i : Nat) :
    (x.bit i == B4.b0) = (!x.payload.testBit i && !x.mask.testBit i) := by
  unfold V4.bit bitOf
  cases x.payload.testBit i <;> cases x.mask.testBit i <;> rfl

/-- "has a definite 0 bit", as the reduction-AND arms compute it. -/
theorem definite_zero_iff (x : V4) (hx : x.wf) :
    ((x.payload ||| x.mask) != 2 ^ x.width - 1) = anyLt x.width (fun i => x.bit i == .b0) := by
  rw [Bool.eq_iff_iff, anyLt_iff]
  constructor
  · intro h
    have hne : (x.payload ||| x.mask) ≠ 2 ^ x.width - 1 := by simpa using h
    obtain ⟨i, hi⟩ := exists_testBit_ne_of_ne hne
    rw [Nat.testBit_or, testBit_mask] at hi
    have hiw : i < x.width := by
      apply Classical.byContradiction; intro hc
      rw [testBit_of_lt hx.1 (Nat.le_of_not_lt hc), testBit_of_lt hx.2 (Nat.le_of_not_lt hc)] at hi
      simp [hc] at hi
    refine ⟨i, hiw, ?_⟩
    rw [bit_eq_b0]
    simp only [hiw, decide_true] at hi
    cases hp : x.payload.testBit i <;> cases hm : x.mask.testBit i <;> simp_all
  · rintro ⟨i, hiw, hb⟩
    rw [bit_eq_b0] at hb
    have : (x.payload ||| x.mask).testBit i ≠ (2 ^ x.width - 1).testBit i := by
      rw [Nat.testBit_or, testBit_mask]
      simp only [hiw, decide_true]
      cases hp : x.payload.testBit i <;> cases hm : x.mask.testBit i <;> simp_all
    have hne : (x.payload ||| x.mask) ≠ 2 ^ x.width - 1 := fun h => this (by rw [h])
    simpa using hne

theorem rand_flags (x : V4) (hx : x.wf) :
    reduce B4.and .b1 x = b4_0x ((x.payload ||| x.mask) != 2 ^ x.width - 1) (x.mask != 0) := by
  unfold reduce b4_0x
  rw [reduce_and_eq, definite_zero_iff x hx, mask_ne_zero_iff x hx]

theorem b4_1x_eq_not_0x (z x : Bool) : b4_1x z x = (b4_0x z x).not := by
  cases z <;> cases x <;> rfl

/-- The mask the reduction arms use for a canonical value. -/
theorem red_mask_eq (x : Val) (hx : x.canon) :
    (redMask x) = 2 ^ x.v.width - 1 := by
  cases x with
  | u64 v => exact U64.genMask_eq hx.1
  | big v => rfl

/-! ### reduction XOR / XNOR -/

/-- Parity of `f 0 … f (K-1)`. -/
def xorF : Nat → (Nat → Bool) → Bool
  | 0, _ => false
  | K + 1, f => xorF K f ^^ f K

theorem xorF_congr {K : Nat} {f g : Nat → Bool} (h : ∀ i, i < K → f i = g i) : xorF K f = xorF K g := by
  induction K with
  | zero => rfl
  | succ K ih =>
    simp only [xorF]
    rw [ih (fun i hi => h i (Nat.lt_succ_of_lt hi)), h K (Nat.lt_succ_self K)]

theorem xorF_shift (K : Nat) (f : Nat → Bool) : xorF (K + 1) f = (f 0 ^^ xorF K (fun i => f (i + 1))) := by
  induction K with
  | zero => simp [xorF]
  | succ K ih =>
    rw [xorF, ih]
    simp only [xorF]
    cases f 0 <;> cases xorF K (fun i => f (i + 1)) <;> cases f (K + 1) <;> rfl

theorem xorF_zero (K : Nat) : xorF K (fun _ => false) = false := by
  induction K with
  | zero => rfl
  | succ K ih => simp [xorF, ih]

theorem popcountAux_parity (fuel : Nat) : ∀ (n K : Nat), n < 2 ^ fuel → n < 2 ^ K →
    (popcountAux fuel n % 2 == 1) = xorF K n.testBit := by
  induction fuel with
  | zero =>
    intro n K h1 _
    have : n = 0 := by simpa using h1
    subst this
    have : xorF K (Nat.testBit 0) = false := by
      rw [show (Nat.testBit 0) = (fun _ => false) from funext Nat.zero_testBit]; exact xorF_zero K
    simp [popcountAux, this]
  | succ fuel ih =>
    intro n K h1 h2
    simp only [popcountAux]
    by_cases hn : n = 0
    · subst hn
      have : xorF K (Nat.testBit 0) = false := by
        rw [show (Nat.testBit 0) = (fun _ => false) from funext Nat.zero_testBit]; exact xorF_zero K
      simp [this]
    · rw [if_neg hn]
      cases K with
      | zero => simp at h2; omega
      | succ K =>
        rw [xorF_shift]
        have hfun : (fun i => n.testBit (i + 1)) = (n / 2).testBit := funext (fun i => Nat.testBit_add_one n i)
        rw [hfun]
        have hh1 : n / 2 < 2 ^ fuel := by rw [Nat.pow_succ] at h1; omega
        have hh2 : n / 2 < 2 ^ K := by rw [Nat.pow_succ] at h2; omega
        rw [← ih (n / 2) K hh1 hh2, Nat.testBit_zero]
        rcases Nat.mod_two_eq_zero_or_one n with h | h <;>
          rcases Nat.mod_two_eq_zero_or_one (popcountAux fuel (n / 2)) with h' | h' <;>
          simp [Nat.add_mod, h, h']

theorem popcount_parity (n K : Nat) (h : n < 2 ^ K) : (popcount n % 2 == 1) = xorF K n.testBit :=
  popcountAux_parity _ n K Nat.lt_log2_self h

theorem xor_step (A P : Bool) (c : B4) :
    (if A then B4.bx else if P then .b1 else .b0).xor c =
      if (A || !c.known) then .bx else if (P ^^ (c == .b1)) then .b1 else .b0 := by
  cases A <;> cases P <;> cases c <;> rfl

/-- §11.4.9 reduction XOR, closed form. -/
theorem reduce_xor_eq (x : V4) (n : Nat) :
    (List.range n).foldl (fun acc i => B4.xor acc (x.bit i)) .b0 =
      (if anyLt n (fun i => !(x.bit i).known) then .bx
       else if xorF n (fun i => x.bit i == .b1) then .b1 else .b0) := by
  induction n with
  | zero => rfl
  | succ n ih =>
    rw [foldl_range_succ, ih]
    simp only [anyLt, xorF]
    exact xor_step _ _ _

/-- Reduction XOR from the two things the Rust computes: "any X/Z" and the parity of the ones. -/
theorem rxor_flags (x : V4) (hx : x.wf) :
    reduce B4.xor .b0 x =
      (if x.mask ≠ 0 then .bx else if (popcount x.payload % 2 == 1) then .b1 else .b0) := by
  unfold reduce
  rw [reduce_xor_eq, ← mask_ne_zero_iff x hx]
  by_cases hm : x.mask ≠ 0
  · have : (x.mask != 0) = true := by simpa using hm
    rw [if_pos this, if_pos hm]
  · have hm0 : x.mask = 0 := by omega
    have : ¬ ((x.mask != 0) = true) := by simp [hm0]
    rw [if_neg this, if_neg hm, popcount_parity x.payload x.width hx.1]
    have : xorF x.width (fun i => x.bit i == .b1) = xorF x.width x.payload.testBit := by
      apply xorF_congr
      intro i _
      rw [bit_eq_b1, hm0, Nat.zero_testBit]; simp
    rw [this]

end VerylModel.Bits
