/-
C21 — lemmas about `Core/Aig.lean`: edges, stability of node functions under appending nodes,
soundness of `mk_and` (constant rules, swap, hash-cons hit) and of the derived constructors.
-/
import VerylModel.Core.Aig
import VerylModel.Lemmas.Npn

namespace VerylModel.Lemmas.Aig
open VerylModel.Gen.Npn VerylModel.Core.Npn VerylModel.Core.Aig VerylModel.Lemmas.Npn

/-! ### Edges -/

theorem eNeg_eq_testBit (e : Nat) : eNeg e = e.testBit 0 := by
  unfold eNeg
  rw [Nat.testBit_zero, Nat.and_one_is_mod]
  by_cases h : e % 2 = 1 <;> simp [h]

theorem eNode_eNew (i : Nat) (b : Bool) : eNode (eNew i b) = i := by
  unfold eNode eNew
  rw [Nat.shiftRight_or_distrib, Nat.shiftLeft_shiftRight]
  cases b <;> simp

theorem eNeg_eNew (i : Nat) (b : Bool) : eNeg (eNew i b) = b := by
  rw [eNeg_eq_testBit]
  unfold eNew
  rw [Nat.testBit_or, Nat.testBit_shiftLeft]
  cases b <;> simp

theorem eNode_negateIf (e : Nat) (c : Bool) : eNode (eNegateIf e c) = eNode e := by
  unfold eNode eNegateIf
  rw [Nat.shiftRight_xor_distrib]
  cases c <;> simp

theorem eNeg_negateIf (e : Nat) (c : Bool) : eNeg (eNegateIf e c) = (eNeg e ^^ c) := by
  rw [eNeg_eq_testBit, eNeg_eq_testBit]
  unfold eNegateIf
  rw [Nat.testBit_xor]
  cases c <;> simp

theorem eNegate_eq (e : Nat) : eNegate e = eNegateIf e true := rfl

theorem eNode_negate (e : Nat) : eNode (eNegate e) = eNode e := eNode_negateIf e true
theorem eNeg_negate (e : Nat) : eNeg (eNegate e) = !eNeg e := by
  rw [eNegate_eq, eNeg_negateIf]; simp

theorem edgeVal_negateIf (vals : List Bool) (e : Nat) (c : Bool) :
    edgeVal vals (eNegateIf e c) = (edgeVal vals e ^^ c) := by
  unfold edgeVal
  rw [eNode_negateIf, eNeg_negateIf]
  cases vals.getD (eNode e) false <;> cases eNeg e <;> cases c <;> rfl

theorem edgeVal_negate (vals : List Bool) (e : Nat) : edgeVal vals (eNegate e) = !edgeVal vals e := by
  rw [eNegate_eq, edgeVal_negateIf]; simp

/-- An edge is determined by its node and polarity. -/
theorem edge_ext {a b : Nat} (hn : eNode a = eNode b) (hp : eNeg a = eNeg b) : a = b := by
  apply Nat.eq_of_testBit_eq
  intro i
  cases i with
  | zero => rw [← eNeg_eq_testBit, ← eNeg_eq_testBit, hp]
  | succ i =>
    have h1 : a.testBit (i + 1) = (eNode a).testBit i := by
      unfold eNode; rw [Nat.testBit_shiftRight, Nat.add_comm]
    have h2 : b.testBit (i + 1) = (eNode b).testBit i := by
      unfold eNode; rw [Nat.testBit_shiftRight, Nat.add_comm]
    rw [h1, h2, hn]

theorem eNode_const0 : eNode const0 = 0 := rfl
theorem eNeg_const0 : eNeg const0 = false := rfl
theorem eNode_const1 : eNode const1 = 0 := rfl
theorem eNeg_const1 : eNeg const1 = true := rfl

/-! ### Node functions are stable under appending nodes -/

/-- The evaluation loop started from given values. -/
def evalFrom (env : Nat → Bool) (vals : List Bool) (ms : List Node) : List Bool :=
  ms.foldl (fun vals n => vals ++ [nodeVal env vals n]) vals

theorem evalNodes_eq (env : Nat → Bool) (ns : List Node) : evalNodes env ns = evalFrom env [] ns := rfl

theorem evalFrom_append (env : Nat → Bool) (vals : List Bool) (ns ms : List Node) :
    evalFrom env vals (ns ++ ms) = evalFrom env (evalFrom env vals ns) ms := by
  unfold evalFrom; rw [List.foldl_append]

theorem evalFrom_ext (env : Nat → Bool) (vals : List Bool) (ms : List Node) :
    ∃ ext, evalFrom env vals ms = vals ++ ext ∧ ext.length = ms.length := by
  induction ms generalizing vals with
  | nil => exact ⟨[], by simp [evalFrom], rfl⟩
  | cons n rest ih =>
    obtain ⟨ext, h1, h2⟩ := ih (vals ++ [nodeVal env vals n])
    refine ⟨nodeVal env vals n :: ext, ?_, by simp [h2]⟩
    show evalFrom env (vals ++ [nodeVal env vals n]) rest = _
    rw [h1]; simp

theorem evalFrom_length (env : Nat → Bool) (vals : List Bool) (ms : List Node) :
    (evalFrom env vals ms).length = vals.length + ms.length := by
  obtain ⟨ext, h1, h2⟩ := evalFrom_ext env vals ms
  rw [h1, List.length_append, h2]

theorem evalNodes_length (env : Nat → Bool) (ns : List Node) : (evalNodes env ns).length = ns.length := by
  rw [evalNodes_eq, evalFrom_length]; simp

theorem getD_append_left' {α : Type} (l1 l2 : List α) (d : α) {i : Nat} (h : i < l1.length) :
    (l1 ++ l2).getD i d = l1.getD i d := by
  rw [List.getD_eq_getElem?_getD, List.getD_eq_getElem?_getD, List.getElem?_append_left h]

theorem edgeVal_append (vals ext : List Bool) {e : Nat} (h : eNode e < vals.length) :
    edgeVal (vals ++ ext) e = edgeVal vals e := by
  unfold edgeVal; rw [getD_append_left' _ _ _ h]

theorem edgeVal_evalFrom (env : Nat → Bool) (vals : List Bool) (ms : List Node) {e : Nat}
    (h : eNode e < vals.length) : edgeVal (evalFrom env vals ms) e = edgeVal vals e := by
  obtain ⟨ext, h1, _⟩ := evalFrom_ext env vals ms
  rw [h1, edgeVal_append _ _ h]

/-- Appending nodes does not change the function of an existing edge. -/
theorem edgeVal_evalNodes_append (env : Nat → Bool) (ns ms : List Node) {e : Nat} (h : eNode e < ns.length) :
    edgeVal (evalNodes env (ns ++ ms)) e = edgeVal (evalNodes env ns) e := by
  rw [evalNodes_eq, evalFrom_append, ← evalNodes_eq]
  exact edgeVal_evalFrom env _ ms (by rw [evalNodes_length]; exact h)

theorem evalNodes_snoc (env : Nat → Bool) (ns : List Node) (n : Node) :
    evalNodes env (ns ++ [n]) = evalNodes env ns ++ [nodeVal env (evalNodes env ns) n] := by
  rw [evalNodes_eq, evalFrom_append]; rfl

/-- Fan-ins refer to earlier nodes. -/
def Topo (nodes : List Node) : Prop :=
  ∀ i a b, nodes[i]? = some (Node.and a b) → eNode a < i ∧ eNode b < i

/-- Invariant of `AigModule`: node 0 is the constant, nodes are in topological order. -/
def Good (g : Aig) : Prop := g.nodes[0]? = some Node.const ∧ Topo g.nodes

theorem getD_at (env : Nat → Bool) (pre : List Node) (n : Node) (post : List Node) :
    (evalNodes env (pre ++ n :: post)).getD pre.length false = nodeVal env (evalNodes env pre) n := by
  have : pre ++ n :: post = (pre ++ [n]) ++ post := by simp
  rw [this, evalNodes_eq, evalFrom_append, ← evalNodes_eq, evalNodes_snoc]
  obtain ⟨ext, h1, _⟩ := evalFrom_ext env (evalNodes env pre ++ [nodeVal env (evalNodes env pre) n]) post
  rw [h1, List.append_assoc, List.getD_eq_getElem?_getD,
    List.getElem?_append_right (by rw [evalNodes_length]; exact Nat.le_refl _), evalNodes_length]
  simp

theorem split_at {α : Type} {l : List α} {i : Nat} {x : α} (h : l[i]? = some x) :
    l = l.take i ++ x :: l.drop (i + 1) ∧ (l.take i).length = i := by
  obtain ⟨hi, hx⟩ := List.getElem?_eq_some_iff.mp h
  refine ⟨?_, by rw [List.length_take]; omega⟩
  rw [← hx, ← List.drop_eq_getElem_cons hi, List.take_append_drop]

/-- Value of a constant / input / AND node in a topologically ordered graph. -/
theorem val_const (env : Nat → Bool) {nodes : List Node} {i : Nat} (h : nodes[i]? = some Node.const) :
    (evalNodes env nodes).getD i false = false := by
  obtain ⟨h1, h2⟩ := split_at h
  rw [h1]
  have := getD_at env (nodes.take i) Node.const (nodes.drop (i + 1))
  rw [h2] at this
  rw [this]; rfl

theorem val_input (env : Nat → Bool) {nodes : List Node} {i o : Nat} (h : nodes[i]? = some (Node.input o)) :
    (evalNodes env nodes).getD i false = env o := by
  obtain ⟨h1, h2⟩ := split_at h
  rw [h1]
  have := getD_at env (nodes.take i) (Node.input o) (nodes.drop (i + 1))
  rw [h2] at this
  rw [this]; rfl

theorem val_and (env : Nat → Bool) {nodes : List Node} (ht : Topo nodes) {i a b : Nat}
    (h : nodes[i]? = some (Node.and a b)) :
    (evalNodes env nodes).getD i false
      = (edgeVal (evalNodes env nodes) a && edgeVal (evalNodes env nodes) b) := by
  obtain ⟨ha, hb⟩ := ht i a b h
  obtain ⟨h1, h2⟩ := split_at h
  have h3 := getD_at env (nodes.take i) (Node.and a b) (nodes.drop (i + 1))
  rw [h2, ← h1] at h3
  rw [h3]
  show (edgeVal (evalNodes env (nodes.take i)) a && edgeVal (evalNodes env (nodes.take i)) b) = _
  have e1 := edgeVal_evalNodes_append env (nodes.take i) (Node.and a b :: nodes.drop (i + 1)) (e := a) (by omega)
  have e2 := edgeVal_evalNodes_append env (nodes.take i) (Node.and a b :: nodes.drop (i + 1)) (e := b) (by omega)
  rw [← h1] at e1 e2
  rw [e1, e2]

/-! ### `mk_and` -/

/-- `g'` is `g` with nodes appended; still a well-formed graph. -/
structure Extends (g g' : Aig) : Prop where
  ext : ∃ e, g'.nodes = g.nodes ++ e
  good : Good g'
  sinks : g'.sinks = g.sinks

theorem Extends.refl {g : Aig} (h : Good g) : Extends g g := ⟨⟨[], by simp⟩, h, rfl⟩

theorem Extends.trans {g1 g2 g3 : Aig} (h12 : Extends g1 g2) (h23 : Extends g2 g3) : Extends g1 g3 := by
  obtain ⟨e1, h1⟩ := h12.ext
  obtain ⟨e2, h2⟩ := h23.ext
  exact ⟨⟨e1 ++ e2, by rw [h2, h1, List.append_assoc]⟩, h23.good, by rw [h23.sinks, h12.sinks]⟩

theorem Extends.length_le {g g' : Aig} (h : Extends g g') : g.nodes.length ≤ g'.nodes.length := by
  obtain ⟨e, h1⟩ := h.ext
  rw [h1, List.length_append]; omega

/-- Existing edges keep their function in an extension. -/
theorem Extends.edgeVal {g g' : Aig} (h : Extends g g') (env : Nat → Bool) {e : Nat}
    (he : eNode e < g.nodes.length) :
    edgeVal (evalNodes env g'.nodes) e = edgeVal (evalNodes env g.nodes) e := by
  obtain ⟨x, h1⟩ := h.ext
  rw [h1, edgeVal_evalNodes_append env _ _ he]

theorem good_const0 {g : Aig} (hg : Good g) (env : Nat → Bool) :
    edgeVal (evalNodes env g.nodes) const0 = false := by
  unfold edgeVal
  rw [eNode_const0, eNeg_const0, val_const env hg.1]; rfl

theorem good_const1 {g : Aig} (hg : Good g) (env : Nat → Bool) :
    edgeVal (evalNodes env g.nodes) const1 = true := by
  unfold edgeVal
  rw [eNode_const1, eNeg_const1, val_const env hg.1]; rfl

theorem good_pos {g : Aig} (hg : Good g) : 0 < g.nodes.length := by
  have := hg.1
  cases h : g.nodes with
  | nil => rw [h] at this; simp at this
  | cons a l => simp

theorem topo_snoc_and {nodes : List Node} (ht : Topo nodes) {a b : Nat}
    (ha : eNode a < nodes.length) (hb : eNode b < nodes.length) : Topo (nodes ++ [Node.and a b]) := by
  intro i x y h
  by_cases hi : i < nodes.length
  · rw [List.getElem?_append_left hi] at h
    exact ht i x y h
  · rw [List.getElem?_append_right (by omega)] at h
    have : i - nodes.length = 0 := by
      cases hk : i - nodes.length with
      | zero => rfl
      | succ k => rw [hk] at h; simp at h
    rw [this] at h
    simp at h
    obtain ⟨rfl, rfl⟩ := h
    omega

theorem topo_snoc_input {nodes : List Node} (ht : Topo nodes) (o : Nat) : Topo (nodes ++ [Node.input o]) := by
  intro i x y h
  by_cases hi : i < nodes.length
  · rw [List.getElem?_append_left hi] at h
    exact ht i x y h
  · rw [List.getElem?_append_right (by omega)] at h
    cases hk : i - nodes.length with
    | zero => rw [hk] at h; simp at h
    | succ k => rw [hk] at h; simp at h

theorem isAnd_iff (a b : Nat) (n : Node) : isAnd a b n = true ↔ n = Node.and a b := by
  cases n <;> simp [isAnd]

/-- The specification of `mk_and`'s result. -/
structure AndSpec (g : Aig) (a b : Nat) (r : Aig × Nat) : Prop where
  ext : Extends g r.1
  lt : eNode r.2 < r.1.nodes.length
  val : ∀ env, edgeVal (evalNodes env r.1.nodes) r.2
      = (edgeVal (evalNodes env g.nodes) a && edgeVal (evalNodes env g.nodes) b)

theorem mkAnd_core {g : Aig} (hg : Good g) {a b : Nat} (ha : eNode a < g.nodes.length)
    (hb : eNode b < g.nodes.length) :
    AndSpec g a b (match g.nodes.findIdx? (isAnd a b) with
      | some idx => (g, eNew idx false)
      | none => ({ g with nodes := g.nodes ++ [Node.and a b] }, eNew g.nodes.length false)) := by
  cases hf : g.nodes.findIdx? (isAnd a b) with
  | some idx =>
    simp only []
    obtain ⟨hlt, hp, _⟩ := List.findIdx?_eq_some_iff_getElem.mp hf
    have hnode : g.nodes[idx]? = some (Node.and a b) := by
      rw [List.getElem?_eq_getElem hlt, (isAnd_iff a b _).mp hp]
    refine ⟨Extends.refl hg, by rw [eNode_eNew]; exact hlt, ?_⟩
    intro env
    unfold edgeVal
    rw [eNode_eNew, eNeg_eNew, val_and env hg.2 hnode]
    simp [edgeVal]
  | none =>
    simp only []
    have hgood : Good { g with nodes := g.nodes ++ [Node.and a b] } := by
      refine ⟨?_, topo_snoc_and hg.2 ha hb⟩
      show (g.nodes ++ [Node.and a b])[0]? = _
      rw [List.getElem?_append_left (good_pos hg)]; exact hg.1
    refine ⟨⟨⟨[Node.and a b], rfl⟩, hgood, rfl⟩, ?_, ?_⟩
    · rw [eNode_eNew]; simp
    · intro env
      show edgeVal (evalNodes env (g.nodes ++ [Node.and a b])) _ = _
      rw [evalNodes_snoc]
      unfold edgeVal
      rw [eNode_eNew, eNeg_eNew, List.getD_eq_getElem?_getD,
        List.getElem?_append_right (by rw [evalNodes_length]; exact Nat.le_refl _), evalNodes_length]
      simp [nodeVal, edgeVal]

theorem mkAnd_spec {g : Aig} (hg : Good g) {a b : Nat} (ha : eNode a < g.nodes.length)
    (hb : eNode b < g.nodes.length) : AndSpec g a b (mkAnd g a b) := by
  unfold mkAnd
  have h0 := good_const0 hg
  have h1 := good_const1 hg
  have hpos := good_pos hg
  split
  · rename_i h
    refine ⟨Extends.refl hg, by simpa [eNode_const0] using hpos, ?_⟩
    intro env
    simp only [Bool.or_eq_true, beq_iff_eq] at h
    rcases h with h | h <;> subst h <;> simp [h0 env]
  split
  · rename_i h
    simp only [beq_iff_eq] at h; subst h
    exact ⟨Extends.refl hg, hb, fun env => by simp [h1 env]⟩
  split
  · rename_i h
    simp only [beq_iff_eq] at h; subst h
    exact ⟨Extends.refl hg, ha, fun env => by simp [h1 env]⟩
  split
  · rename_i h
    simp only [beq_iff_eq] at h; subst h
    exact ⟨Extends.refl hg, ha, fun env => by simp⟩
  split
  · rename_i h
    simp only [beq_iff_eq] at h; subst h
    refine ⟨Extends.refl hg, by simpa [eNode_const0] using hpos, ?_⟩
    intro env
    rw [edgeVal_negate, h0 env]; simp
  · by_cases hab : a > b
    · simp only [hab, if_true]
      have := mkAnd_core hg hb ha
      exact ⟨this.ext, this.lt, fun env => (this.val env).trans (Bool.and_comm _ _)⟩
    · simp only [hab, if_false]
      exact mkAnd_core hg ha hb

/-! ### Derived constructors and `lower_cell` -/

/-- Edge `e` of `g` is in range and computes `A` (a Boolean function of the input valuation). -/
def Has (g : Aig) (e : Nat) (A : (Nat → Bool) → Bool) : Prop :=
  eNode e < g.nodes.length ∧ ∀ env, edgeVal (evalNodes env g.nodes) e = A env

theorem Has.mono {g g' : Aig} {e : Nat} {A : (Nat → Bool) → Bool} (h : Has g e A) (hx : Extends g g') :
    Has g' e A :=
  ⟨Nat.lt_of_lt_of_le h.1 hx.length_le, fun env => by rw [hx.edgeVal env h.1, h.2 env]⟩

theorem Has.congr {g : Aig} {e : Nat} {A B : (Nat → Bool) → Bool} (h : Has g e A) (hab : ∀ env, A env = B env) :
    Has g e B := ⟨h.1, fun env => by rw [h.2 env, hab env]⟩

theorem Has.negateIf {g : Aig} {e : Nat} {A : (Nat → Bool) → Bool} (h : Has g e A) (c : Bool) :
    Has g (eNegateIf e c) (fun env => A env ^^ c) :=
  ⟨by rw [eNode_negateIf]; exact h.1, fun env => by rw [edgeVal_negateIf, h.2 env]⟩

theorem Has.negate {g : Aig} {e : Nat} {A : (Nat → Bool) → Bool} (h : Has g e A) :
    Has g (eNegate e) (fun env => !A env) :=
  ⟨by rw [eNode_negate]; exact h.1, fun env => by rw [edgeVal_negate, h.2 env]⟩

theorem has_const0 {g : Aig} (hg : Good g) : Has g const0 (fun _ => false) :=
  ⟨by rw [eNode_const0]; exact good_pos hg, good_const0 hg⟩

theorem mkAnd_has {g : Aig} (hg : Good g) {a b : Nat} {A B : (Nat → Bool) → Bool} (ha : Has g a A) (hb : Has g b B) :
    Extends g (mkAnd g a b).1 ∧ Has (mkAnd g a b).1 (mkAnd g a b).2 (fun env => A env && B env) := by
  have h := mkAnd_spec hg ha.1 hb.1
  exact ⟨h.ext, h.lt, fun env => by rw [h.val env, ha.2 env, hb.2 env]⟩

theorem mkOr_has {g : Aig} (hg : Good g) {a b : Nat} {A B : (Nat → Bool) → Bool} (ha : Has g a A) (hb : Has g b B) :
    Extends g (mkOr g a b).1 ∧ Has (mkOr g a b).1 (mkOr g a b).2 (fun env => A env || B env) := by
  obtain ⟨h1, h2⟩ := mkAnd_has hg ha.negate hb.negate
  refine ⟨h1, ?_⟩
  exact h2.negate.congr (fun env => by cases A env <;> cases B env <;> rfl)

theorem mkXor_has {g : Aig} (hg : Good g) {a b : Nat} {A B : (Nat → Bool) → Bool} (ha : Has g a A) (hb : Has g b B) :
    Extends g (mkXor g a b).1 ∧ Has (mkXor g a b).1 (mkXor g a b).2 (fun env => A env ^^ B env) := by
  obtain ⟨x1, h1⟩ := mkAnd_has hg ha hb.negate
  obtain ⟨x2, h2⟩ := mkAnd_has x1.good (ha.negate.mono x1) (hb.mono x1)
  obtain ⟨x3, h3⟩ := mkOr_has x2.good (h1.mono x2) h2
  refine ⟨x1.trans (x2.trans x3), ?_⟩
  exact h3.congr (fun env => by cases A env <;> cases B env <;> rfl)

theorem mkMux_has {g : Aig} (hg : Good g) {s d0 d1 : Nat} {S D0 D1 : (Nat → Bool) → Bool}
    (hs : Has g s S) (h0 : Has g d0 D0) (h1 : Has g d1 D1) :
    Extends g (mkMux g s d0 d1).1 ∧
      Has (mkMux g s d0 d1).1 (mkMux g s d0 d1).2 (fun env => if S env then D1 env else D0 env) := by
  obtain ⟨x1, t⟩ := mkAnd_has hg hs h1
  obtain ⟨x2, e⟩ := mkAnd_has x1.good (hs.negate.mono x1) (h0.mono x1)
  obtain ⟨x3, h3⟩ := mkOr_has x2.good (t.mono x2) e
  refine ⟨x1.trans (x2.trans x3), ?_⟩
  exact h3.congr (fun env => by cases S env <;> cases D0 env <;> cases D1 env <;> rfl)

/-- `lower_cell` computes the function of its expression tree. -/
theorem lowerExpr_has (x : List Nat) (X : (Nat → Bool) → List Bool) (e : LExpr) :
    ∀ {g : Aig}, Good g → (∀ k, Has g (x.getD k const0) (fun env => (X env).getD k false)) →
      Extends g (lowerExpr g x e).1 ∧ Has (lowerExpr g x e).1 (lowerExpr g x e).2 (fun env => evalExpr (X env) e) := by
  induction e with
  | inp i => intro g hg hx; exact ⟨Extends.refl hg, hx i⟩
  | not a ih =>
    intro g hg hx
    obtain ⟨x1, h1⟩ := ih hg hx
    exact ⟨x1, h1.negate⟩
  | and a b iha ihb =>
    intro g hg hx
    obtain ⟨x1, h1⟩ := iha hg hx
    obtain ⟨x2, h2⟩ := ihb x1.good (fun k => (hx k).mono x1)
    obtain ⟨x3, h3⟩ := mkAnd_has x2.good (h1.mono x2) h2
    exact ⟨x1.trans (x2.trans x3), h3⟩
  | or a b iha ihb =>
    intro g hg hx
    obtain ⟨x1, h1⟩ := iha hg hx
    obtain ⟨x2, h2⟩ := ihb x1.good (fun k => (hx k).mono x1)
    obtain ⟨x3, h3⟩ := mkOr_has x2.good (h1.mono x2) h2
    exact ⟨x1.trans (x2.trans x3), h3⟩
  | xor a b iha ihb =>
    intro g hg hx
    obtain ⟨x1, h1⟩ := iha hg hx
    obtain ⟨x2, h2⟩ := ihb x1.good (fun k => (hx k).mono x1)
    obtain ⟨x3, h3⟩ := mkXor_has x2.good (h1.mono x2) h2
    exact ⟨x1.trans (x2.trans x3), h3⟩
  | mux s d0 d1 ihs ih0 ih1 =>
    intro g hg hx
    obtain ⟨x1, h1⟩ := ihs hg hx
    obtain ⟨x2, h2⟩ := ih0 x1.good (fun k => (hx k).mono x1)
    obtain ⟨x3, h3⟩ := ih1 x2.good (fun k => ((hx k).mono x1).mono x2)
    obtain ⟨x4, h4⟩ := mkMux_has x3.good ((h1.mono x2).mono x3) (h2.mono x3) h3
    exact ⟨x1.trans (x2.trans (x3.trans x4)), h4⟩

theorem evalExpr_congr {x y : List Bool} (e : LExpr) (h : ∀ k, x.getD k false = y.getD k false) :
    evalExpr x e = evalExpr y e := by
  induction e with
  | inp i => exact h i
  | not a ih => simp only [evalExpr, ih]
  | and a b iha ihb => simp only [evalExpr, iha, ihb]
  | or a b iha ihb => simp only [evalExpr, iha, ihb]
  | xor a b iha ihb => simp only [evalExpr, iha, ihb]
  | mux s d0 d1 ihs ih0 ih1 => simp only [evalExpr, ihs, ih0, ih1]

theorem cellEval_congr {x y : List Bool} (kind : Nat) (h : ∀ k, x.getD k false = y.getD k false) :
    cellEval kind x = cellEval kind y := by
  unfold cellEval
  simp only [h 0, h 1, h 2, h 3]

/-- The tree of every kind computes the kind's documented function (22 kinds × 16 input rows). -/
theorem lowerTable_chk : ((List.range 22).all fun kind => (List.range 16).all fun m =>
    let x := [m.testBit 0, m.testBit 1, m.testBit 2, m.testBit 3]
    (lowerTable[kind]?).map (evalExpr x) == some (cellEval kind x)) = true := by decide +kernel

/-! ### Template matcher -/

theorem orElse_eq_some {α : Type} {o : Option α} {f : Unit → Option α} {v : α} :
    o.orElse f = some v → o = some v ∨ (o = none ∧ f () = some v) := by
  cases o <;> simp [Option.orElse]

theorem neg_of_ne {a b : Bool} (h : ¬ a = b) : b = !a := by cases a <;> cases b <;> simp_all

/-- The positive edge among two edges of the same node with opposite polarity. -/
theorem edgeVal_pick_pos (vals : List Bool) {p q : Nat} (hn : eNode p = eNode q) (hp : ¬ eNeg p = eNeg q) :
    edgeVal vals (if (!eNeg p) = true then p else q) = vals.getD (eNode p) false ∧
    edgeVal vals p = (vals.getD (eNode p) false ^^ eNeg p) ∧
    edgeVal vals q = (vals.getD (eNode p) false ^^ !eNeg p) := by
  have hq := neg_of_ne hp
  unfold edgeVal
  rw [← hn, hq]
  cases h : eNeg p <;> simp [h, ← hn, hq]

theorem xorCombo_sound (vals : List Bool) {p0 p1 q0 q1 x y : Nat} {t : Bool}
    (h : xorCombo p0 p1 q0 q1 = some (x, y, t)) :
    (!(edgeVal vals p0 && edgeVal vals p1) && !(edgeVal vals q0 && edgeVal vals q1))
      = ((edgeVal vals x ^^ edgeVal vals y) ^^ !t) := by
  unfold xorCombo at h
  split at h
  · rename_i hc
    simp only [Bool.and_eq_true, beq_iff_eq, bne_iff_ne, ne_eq] at hc
    obtain ⟨⟨⟨⟨hn0, hp0⟩, hn1⟩, hp1⟩, _⟩ := hc
    simp only [Option.some.injEq, Prod.mk.injEq] at h
    obtain ⟨rfl, rfl, rfl⟩ := h
    obtain ⟨hx, hP0, hQ0⟩ := edgeVal_pick_pos vals hn0 hp0
    obtain ⟨hy, hP1, hQ1⟩ := edgeVal_pick_pos vals hn1 hp1
    rw [hx, hy, hP0, hQ0, hP1, hQ1]
    cases vals.getD (eNode p0) false <;> cases vals.getD (eNode p1) false <;>
      cases eNeg p0 <;> cases eNeg p1 <;> rfl
  · simp at h

theorem matchXorPair_sound (vals : List Bool) {a0 a1 b0 b1 x y : Nat} {t : Bool}
    (h : matchXorPair a0 a1 b0 b1 = some (x, y, t)) :
    (!(edgeVal vals a0 && edgeVal vals a1) && !(edgeVal vals b0 && edgeVal vals b1))
      = ((edgeVal vals x ^^ edgeVal vals y) ^^ !t) := by
  unfold matchXorPair at h
  rcases orElse_eq_some h with h | ⟨_, h⟩
  · exact xorCombo_sound vals h
  · rcases orElse_eq_some h with h | ⟨_, h⟩
    · rw [← xorCombo_sound vals h, Bool.and_comm (edgeVal vals b0)]
    · rcases orElse_eq_some h with h | ⟨_, h⟩
      · rw [← xorCombo_sound vals h, Bool.and_comm (edgeVal vals a0)]
      · rw [← xorCombo_sound vals h, Bool.and_comm (edgeVal vals a0), Bool.and_comm (edgeVal vals b0)]

theorem muxCombo_sound (vals : List Bool) {sa da sb db s d0 d1 : Nat}
    (h : muxCombo sa da sb db = some (s, d0, d1)) :
    (!(edgeVal vals sa && edgeVal vals da) && !(edgeVal vals sb && edgeVal vals db))
      = !(if edgeVal vals s then edgeVal vals d1 else edgeVal vals d0) := by
  unfold muxCombo at h
  by_cases hc : (eNode sa == eNode sb && eNeg sa != eNeg sb) = true
  · rw [if_pos hc] at h
    simp only [Bool.and_eq_true, beq_iff_eq, bne_iff_ne, ne_eq] at hc
    obtain ⟨hn, hp⟩ := hc
    obtain ⟨hs, hSA, hSB⟩ := edgeVal_pick_pos vals hn hp
    cases hneg : eNeg sa
    · simp only [hneg, Bool.not_false, if_true] at h
      split at h
      · simp only [Option.some.injEq, Prod.mk.injEq] at h
        obtain ⟨rfl, rfl, rfl⟩ := h
        rw [hSA, hSB, hneg]
        cases vals.getD (eNode sa) false <;> cases edgeVal vals da <;> cases edgeVal vals db <;> rfl
      · simp at h
    · simp only [hneg, Bool.not_true, Bool.false_eq_true, if_false] at h
      split at h
      · simp only [Option.some.injEq, Prod.mk.injEq] at h
        obtain ⟨rfl, rfl, rfl⟩ := h
        rw [hSA, hSB, hneg]
        cases vals.getD (eNode sa) false <;> cases edgeVal vals da <;> cases edgeVal vals db <;> rfl
      · simp at h
  · rw [if_neg hc] at h; simp at h

theorem matchMuxPair_sound (vals : List Bool) {a0 a1 b0 b1 s d0 d1 : Nat}
    (h : matchMuxPair a0 a1 b0 b1 = some (s, d0, d1)) :
    (!(edgeVal vals a0 && edgeVal vals a1) && !(edgeVal vals b0 && edgeVal vals b1))
      = !(if edgeVal vals s then edgeVal vals d1 else edgeVal vals d0) := by
  unfold matchMuxPair at h
  rcases orElse_eq_some h with h | ⟨_, h⟩
  · exact muxCombo_sound vals h
  · rcases orElse_eq_some h with h | ⟨_, h⟩
    · rw [← muxCombo_sound vals h, Bool.and_comm (edgeVal vals b0)]
    · rcases orElse_eq_some h with h | ⟨_, h⟩
      · rw [← muxCombo_sound vals h, Bool.and_comm (edgeVal vals a0)]
      · rw [← muxCombo_sound vals h, Bool.and_comm (edgeVal vals a0), Bool.and_comm (edgeVal vals b0)]

/-- What `inner_of` guarantees about an absorbed fan-in: it is the AND of `f0`, `f1`, reached through an
edge of polarity `edgeNegated`. -/
def InnerOk (vals : List Bool) (fanin : Nat) (o : Option InnerAnd) : Prop :=
  ∀ a, o = some a → a.edgeNegated = eNeg fanin ∧
    vals.getD (eNode fanin) false = (edgeVal vals a.f0 && edgeVal vals a.f1)

theorem cellEval_xor2 (a b : Bool) : cellEval kXor2 [a, b] = (a ^^ b) := rfl
theorem cellEval_xnor2 (a b : Bool) : cellEval kXnor2 [a, b] = !(a ^^ b) := rfl
theorem cellEval_or2 (a b : Bool) : cellEval kOr2 [a, b] = (a || b) := rfl
theorem cellEval_nor2 (a b : Bool) : cellEval kNor2 [a, b] = !(a || b) := rfl
theorem cellEval_and3 (a b c : Bool) : cellEval kAnd3 [a, b, c] = (a && b && c) := rfl
theorem cellEval_oa21 (a b c : Bool) : cellEval kOa21 [a, b, c] = ((a || b) && c) := rfl
theorem cellEval_aoi21 (a b c : Bool) : cellEval kAoi21 [a, b, c] = !((a && b) || c) := rfl
theorem cellEval_aoi22 (a b c d : Bool) : cellEval kAoi22 [a, b, c, d] = !((a && b) || (c && d)) := rfl
theorem cellEval_mux2 (s d0 d1 : Bool) : cellEval kMux2 [s, d0, d1] = (if s then d1 else d0) := rfl

theorem pickOr_sound (vals : List Bool) (f0 f1 pos neg : Nat) :
    cellEval (pickOrPolarity f0 f1 pos neg).kind ((pickOrPolarity f0 f1 pos neg).inputs.map (edgeVal vals))
      = ((edgeVal vals f0 && edgeVal vals f1) ^^ (pickOrPolarity f0 f1 pos neg).outputIsNegated) := by
  unfold pickOrPolarity
  simp only []
  split
  · simp only [List.map_cons, List.map_nil, cellEval_or2, edgeVal_negate]
    cases edgeVal vals f0 <;> cases edgeVal vals f1 <;> rfl
  · simp only [List.map_cons, List.map_nil, cellEval_nor2, edgeVal_negate]
    cases edgeVal vals f0 <;> cases edgeVal vals f1 <;> rfl

theorem pickXor_sound (vals : List Bool) (x y ia ib : Nat) (t : Bool) (pos neg : Nat) (top : Bool)
    (h : top = ((edgeVal vals x ^^ edgeVal vals y) ^^ !t)) :
    cellEval (pickXorPolarity x y ia ib t pos neg).kind ((pickXorPolarity x y ia ib t pos neg).inputs.map (edgeVal vals))
      = (top ^^ (pickXorPolarity x y ia ib t pos neg).outputIsNegated) := by
  unfold pickXorPolarity
  simp only [List.map_cons, List.map_nil]
  subst h
  cases decide (pos ≥ neg) <;> cases t <;> cases edgeVal vals x <;> cases edgeVal vals y <;> rfl

/-- T4 (general form): whatever `try_match` returns, the emitted cell computes the matched AND node's
function, complemented iff `output_is_negated`. -/
theorem tryMatch_sound (vals : List Bool) (fanin0 fanin1 : Nat) (in0 in1 : Option InnerAnd) (pos neg : Nat)
    (h0 : InnerOk vals fanin0 in0) (h1 : InnerOk vals fanin1 in1) {m : CompoundMatch}
    (hm : tryMatch fanin0 fanin1 in0 in1 pos neg = some m) :
    cellEval m.kind (m.inputs.map (edgeVal vals))
      = ((edgeVal vals fanin0 && edgeVal vals fanin1) ^^ m.outputIsNegated) := by
  unfold tryMatch at hm
  cases in0 with
  | some a =>
    obtain ⟨ha1, ha2⟩ := h0 a rfl
    have hA : edgeVal vals fanin0 = ((edgeVal vals a.f0 && edgeVal vals a.f1) ^^ a.edgeNegated) := by
      unfold edgeVal at *; rw [ha2, ha1]
    cases in1 with
    | some b =>
      obtain ⟨hb1, hb2⟩ := h1 b rfl
      have hB : edgeVal vals fanin1 = ((edgeVal vals b.f0 && edgeVal vals b.f1) ^^ b.edgeNegated) := by
        unfold edgeVal at *; rw [hb2, hb1]
      simp only [] at hm
      split at hm
      · rename_i hneg
        simp only [Bool.and_eq_true] at hneg
        rw [hA, hB, hneg.1, hneg.2]
        cases hx : matchXorPair a.f0 a.f1 b.f0 b.f1 with
        | some r =>
          obtain ⟨x, y, t⟩ := r
          simp only [hx, Option.some.injEq] at hm
          subst hm
          apply pickXor_sound
          rw [← matchXorPair_sound vals hx]
          cases (edgeVal vals a.f0 && edgeVal vals a.f1) <;> cases (edgeVal vals b.f0 && edgeVal vals b.f1) <;> rfl
        | none =>
          simp only [hx] at hm
          cases hmx : matchMuxPair a.f0 a.f1 b.f0 b.f1 with
          | some r =>
            obtain ⟨s, d0, d1⟩ := r
            simp only [hmx, Option.some.injEq] at hm
            subst hm
            simp only [List.map_cons, List.map_nil, cellEval_mux2]
            have := matchMuxPair_sound vals hmx
            cases hh : (if edgeVal vals s = true then edgeVal vals d1 else edgeVal vals d0) <;>
              rw [hh] at this <;>
              cases h1' : (edgeVal vals a.f0 && edgeVal vals a.f1) <;>
              cases h2' : (edgeVal vals b.f0 && edgeVal vals b.f1) <;> simp_all
          | none =>
            simp only [hmx, Option.some.injEq] at hm
            subst hm
            simp only [List.map_cons, List.map_nil, cellEval_aoi22]
            cases (edgeVal vals a.f0 && edgeVal vals a.f1) <;> cases (edgeVal vals b.f0 && edgeVal vals b.f1) <;> rfl
      · split at hm
        · rename_i hneg
          simp only [Bool.and_eq_true] at hneg
          simp only [Option.some.injEq] at hm
          subst hm
          exact pickOr_sound vals fanin0 fanin1 pos neg
        · simp at hm
    | none =>
      simp only [] at hm
      have hL : edgeVal vals fanin1 = (vals.getD (eNode fanin1) false ^^ eNeg fanin1) := rfl
      cases he : a.edgeNegated <;> cases hl : eNeg fanin1 <;> simp only [he, hl] at hm
      · simp only [Option.some.injEq] at hm; subst hm
        simp only [List.map_cons, List.map_nil, cellEval_and3]
        rw [hA, he]; simp
      · simp at hm
      · simp only [Option.some.injEq] at hm; subst hm
        simp only [List.map_cons, List.map_nil, cellEval_oa21, edgeVal_negate]
        rw [hA, he]
        cases edgeVal vals a.f0 <;> cases edgeVal vals a.f1 <;> cases edgeVal vals fanin1 <;> rfl
      · simp only [Option.some.injEq] at hm; subst hm
        simp only [List.map_cons, List.map_nil, cellEval_aoi21, edgeVal_negate]
        rw [hA, he]
        cases edgeVal vals a.f0 <;> cases edgeVal vals a.f1 <;> cases edgeVal vals fanin1 <;> rfl
  | none =>
    cases in1 with
    | some b =>
      obtain ⟨hb1, hb2⟩ := h1 b rfl
      have hB : edgeVal vals fanin1 = ((edgeVal vals b.f0 && edgeVal vals b.f1) ^^ b.edgeNegated) := by
        unfold edgeVal at *; rw [hb2, hb1]
      simp only [] at hm
      cases he : b.edgeNegated <;> cases hl : eNeg fanin0 <;> simp only [he, hl] at hm
      · simp only [Option.some.injEq] at hm; subst hm
        simp only [List.map_cons, List.map_nil, cellEval_and3]
        rw [hB, he]
        cases edgeVal vals b.f0 <;> cases edgeVal vals b.f1 <;> cases edgeVal vals fanin0 <;> rfl
      · simp at hm
      · simp only [Option.some.injEq] at hm; subst hm
        simp only [List.map_cons, List.map_nil, cellEval_oa21, edgeVal_negate]
        rw [hB, he]
        cases edgeVal vals b.f0 <;> cases edgeVal vals b.f1 <;> cases edgeVal vals fanin0 <;> rfl
      · simp only [Option.some.injEq] at hm; subst hm
        simp only [List.map_cons, List.map_nil, cellEval_aoi21, edgeVal_negate]
        rw [hB, he]
        cases edgeVal vals b.f0 <;> cases edgeVal vals b.f1 <;> cases edgeVal vals fanin0 <;> rfl
    | none =>
      simp only [] at hm
      split at hm
      · rename_i hneg
        simp only [Bool.and_eq_true] at hneg
        simp only [Option.some.injEq] at hm
        subst hm
        exact pickOr_sound vals fanin0 fanin1 pos neg
      · simp at hm

/-! ### `instantiate_pattern` -/

theorem getD_snoc {α : Type} (l : List α) (x d : α) (k : Nat) :
    (l ++ [x]).getD k d = if k < l.length then l.getD k d else if k = l.length then x else d := by
  rw [List.getD_eq_getElem?_getD]
  by_cases h : k < l.length
  · rw [List.getElem?_append_left h, if_pos h, List.getD_eq_getElem?_getD]
  · rw [List.getElem?_append_right (by omega), if_neg h]
    by_cases h2 : k = l.length
    · subst h2; simp
    · rw [if_neg h2]
      have : k - l.length ≠ 0 := by omega
      cases hk : k - l.length with
      | zero => exact absurd hk this
      | succ n => simp

/-- Invariant of the loop of `instantiate_pattern`: `node_edges[k]` computes value `k` of the pattern. -/
def EdgesHave (g : Aig) (ne : List Nat) (V : (Nat → Bool) → List Bool) : Prop :=
  (∀ env, (V env).length = ne.length) ∧ ∀ k, Has g (ne.getD k const0) (fun env => (V env).getD k false)

theorem EdgesHave.mono {g g' : Aig} {ne : List Nat} {V : (Nat → Bool) → List Bool}
    (h : EdgesHave g ne V) (hx : Extends g g') : EdgesHave g' ne V :=
  ⟨h.1, fun k => (h.2 k).mono hx⟩

theorem resolvePatEdge_has {g : Aig} {ne : List Nat} {V : (Nat → Bool) → List Bool}
    (h : EdgesHave g ne V) (pe : PatEdge) :
    Has g (resolvePatEdge ne pe) (fun env => edgeB (V env) pe) :=
  (h.2 pe.node).negateIf pe.neg

theorem instStep_has {g : Aig} (hg : Good g) {ne : List Nat} {V : (Nat → Bool) → List Bool}
    (h : EdgesHave g ne V) (ab : PatEdge × PatEdge) :
    Extends g (instStep (g, ne) ab).1 ∧
      EdgesHave (instStep (g, ne) ab).1 (instStep (g, ne) ab).2 (fun env => stepB (V env) ab) := by
  have ha := resolvePatEdge_has h ab.1
  have hb := resolvePatEdge_has h ab.2
  obtain ⟨x1, h1⟩ := mkAnd_has hg ha hb
  refine ⟨x1, ?_, ?_⟩
  · intro env
    show (stepB (V env) ab).length = (ne ++ [_]).length
    unfold stepB
    rw [List.length_append, List.length_append, h.1 env]
    rfl
  · intro k
    show Has _ ((ne ++ [_]).getD k const0) _
    rw [getD_snoc]
    by_cases hk : k < ne.length
    · rw [if_pos hk]
      refine ((h.2 k).mono x1).congr ?_
      intro env
      unfold stepB
      rw [getD_snoc, if_pos (by rw [h.1 env]; exact hk)]
    · rw [if_neg hk]
      by_cases hk2 : k = ne.length
      · rw [if_pos hk2]
        refine h1.congr ?_
        intro env
        unfold stepB
        rw [getD_snoc, if_neg (by rw [h.1 env]; exact hk), if_pos (by rw [h.1 env]; exact hk2)]
      · rw [if_neg hk2]
        refine (has_const0 x1.good).congr ?_
        intro env
        unfold stepB
        rw [getD_snoc, if_neg (by rw [h.1 env]; exact hk), if_neg (by rw [h.1 env]; exact hk2)]

theorem instFold_has (ands : List (PatEdge × PatEdge)) :
    ∀ {g : Aig} {ne : List Nat} {V : (Nat → Bool) → List Bool}, Good g → EdgesHave g ne V →
      Extends g (ands.foldl instStep (g, ne)).1 ∧
      EdgesHave (ands.foldl instStep (g, ne)).1 (ands.foldl instStep (g, ne)).2
        (fun env => ands.foldl stepB (V env)) := by
  induction ands with
  | nil => intro g ne V hg h; exact ⟨Extends.refl hg, h⟩
  | cons ab rest ih =>
    intro g ne V hg h
    obtain ⟨x1, h1⟩ := instStep_has hg h ab
    obtain ⟨x2, h2⟩ := ih (g := (instStep (g, ne) ab).1) (ne := (instStep (g, ne) ab).2) x1.good h1
    exact ⟨x1.trans x2, h2⟩

/-- `instantiate_pattern` builds an edge computing the pattern's function of the variable edges. -/
theorem instantiatePattern_has {g : Aig} (hg : Good g) {ve : List Nat} {V : (Nat → Bool) → List Bool}
    (h : EdgesHave g ve V) (pat : Pattern) :
    Extends g (instantiatePattern g pat ve).1 ∧
      Has (instantiatePattern g pat ve).1 (instantiatePattern g pat ve).2 (fun env => evalB pat (V env)) := by
  obtain ⟨x1, h1⟩ := instFold_has pat.ands hg h
  exact ⟨x1, resolvePatEdge_has h1 pat.output⟩

/-! ### The cut function (`compute_cut_tt`) -/

theorem snoc_induction {α : Type} {P : List α → Prop} (hnil : P [])
    (hsnoc : ∀ l a, P l → P (l ++ [a])) : ∀ l, P l := by
  intro l
  have h : ∀ k : List α, P k.reverse := by
    intro k
    induction k with
    | nil => exact hnil
    | cons a k ih => rw [List.reverse_cons]; exact hsnoc _ _ ih
  have := h l.reverse
  rwa [List.reverse_reverse] at this

theorem cutTtVals_snoc (leaves : List Nat) (ns : List Node) (n : Node) :
    cutTtVals leaves (ns ++ [n])
      = cutTtVals leaves ns ++ [cutTtNode leaves (cutTtVals leaves ns) (cutTtVals leaves ns).length n] := by
  unfold cutTtVals; rw [List.foldl_append]; rfl

theorem coveredVals_snoc (leaves : List Nat) (ns : List Node) (n : Node) :
    coveredVals leaves (ns ++ [n])
      = coveredVals leaves ns ++ [coveredNode leaves (coveredVals leaves ns) (coveredVals leaves ns).length n] := by
  unfold coveredVals; rw [List.foldl_append]; rfl

theorem cutTtVals_length (leaves : List Nat) (ns : List Node) : (cutTtVals leaves ns).length = ns.length := by
  induction ns using snoc_induction with
  | hnil => rfl
  | hsnoc l a ih => rw [cutTtVals_snoc, List.length_append, ih]; simp

theorem coveredVals_length (leaves : List Nat) (ns : List Node) : (coveredVals leaves ns).length = ns.length := by
  induction ns using snoc_induction with
  | hnil => rfl
  | hsnoc l a ih => rw [coveredVals_snoc, List.length_append, ih]; simp

theorem topo_prefix {ns : List Node} {n : Node} (h : Topo (ns ++ [n])) : Topo ns := by
  intro i a b hi
  apply h i a b
  have : i < ns.length := (List.getElem?_eq_some_iff.mp hi).1
  rw [List.getElem?_append_left this]; exact hi

theorem varTt_testBit : ∀ pos < 4, ∀ z < 16, (varTt.getD pos 0).testBit z = z.testBit pos := by decide

theorem idxOf?_some {l : List Nat} {x pos : Nat} (h : l.idxOf? x = some pos) : pos < l.length ∧ l.getD pos 0 = x := by
  unfold List.idxOf? at h
  obtain ⟨hlt, hp, _⟩ := List.findIdx?_eq_some_iff_getElem.mp h
  refine ⟨hlt, ?_⟩
  rw [List.getD_eq_getElem?_getD, List.getElem?_eq_getElem hlt]
  simpa using hp

theorem idxOf?_none {l : List Nat} {x : Nat} (h : l.idxOf? x = none) : l.contains x = false := by
  unfold List.idxOf? at h
  rw [List.findIdx?_eq_none_iff] at h
  cases hc : l.contains x with
  | false => rfl
  | true =>
    rw [List.contains_iff_mem] at hc
    have := h x hc
    simp at this

theorem idxOf?_isSome_of_contains {l : List Nat} {x : Nat} (h : l.contains x = true) : ∃ pos, l.idxOf? x = some pos := by
  cases hi : l.idxOf? x with
  | some pos => exact ⟨pos, rfl⟩
  | none => rw [idxOf?_none hi] at h; simp at h

/-- The table `compute_cut_tt` assigns to a covered node, read at the row `z` given by the leaf values,
is the node's value. -/
theorem cut_function (leaves : List Nat) (hl : leaves.length ≤ 4) (env : Nat → Bool) (z : Nat) (hz : z < 16) :
    ∀ nodes, Topo nodes →
      (∀ pos, pos < leaves.length → leaves.getD pos 0 < nodes.length →
        z.testBit pos = (evalNodes env nodes).getD (leaves.getD pos 0) false) →
      ∀ idx, idx < nodes.length → (coveredVals leaves nodes).getD idx false = true →
        (evalNodes env nodes).getD idx false = ((cutTtVals leaves nodes).getD idx 0).testBit z := by
  intro nodes
  induction nodes using snoc_induction with
  | hnil => intro _ _ idx hidx; simp at hidx
  | hsnoc ns n ih =>
    intro ht hleaf idx hidx hcov
    have htp := topo_prefix ht
    have hlen : (evalNodes env ns).length = ns.length := evalNodes_length env ns
    have hleaf' : ∀ pos, pos < leaves.length → leaves.getD pos 0 < ns.length →
        z.testBit pos = (evalNodes env ns).getD (leaves.getD pos 0) false := by
      intro pos hp hlt
      have := hleaf pos hp (by rw [List.length_append]; omega)
      rw [this, evalNodes_snoc, getD_append_left' _ _ _ (by rw [hlen]; exact hlt)]
    have ih' := ih htp hleaf'
    rw [evalNodes_snoc, cutTtVals_snoc]
    rw [coveredVals_snoc] at hcov
    by_cases hlt : idx < ns.length
    · rw [getD_append_left' _ _ _ (by rw [hlen]; exact hlt),
        getD_append_left' _ _ _ (by rw [cutTtVals_length]; exact hlt)]
      rw [getD_append_left' _ _ _ (by rw [coveredVals_length]; exact hlt)] at hcov
      exact ih' idx hlt hcov
    · have hidx' : idx = ns.length := by rw [List.length_append] at hidx; simp at hidx; omega
      subst hidx'
      rw [getD_snoc, if_neg (by rw [hlen]; omega), if_pos hlen.symm,
        getD_snoc, if_neg (by rw [cutTtVals_length]; omega), if_pos (cutTtVals_length leaves ns).symm]
      rw [getD_snoc, if_neg (by rw [coveredVals_length]; omega), if_pos (coveredVals_length leaves ns).symm] at hcov
      rw [cutTtVals_length]
      rw [coveredVals_length] at hcov
      unfold cutTtNode
      cases hi : leaves.idxOf? ns.length with
      | some pos =>
        simp only []
        obtain ⟨hp, hget⟩ := idxOf?_some hi
        rw [varTt_testBit pos (by omega) z hz]
        have := hleaf pos hp (by rw [hget, List.length_append]; simp)
        rw [this, hget, evalNodes_snoc, getD_snoc, if_neg (by rw [hlen]; omega), if_pos hlen.symm]
      | none =>
        simp only []
        unfold coveredNode at hcov
        rw [idxOf?_none hi] at hcov
        cases n with
        | const => simp [nodeVal]
        | input o => simp at hcov
        | and a b =>
          simp only [Bool.false_or, Bool.and_eq_true] at hcov
          obtain ⟨ha, hb⟩ := ht ns.length a b (by simp)
          have va := ih' (eNode a) ha hcov.1
          have vb := ih' (eNode b) hb hcov.2
          simp only [nodeVal, edgeVal]
          rw [va, vb, Nat.testBit_and]
          congr 1
          · cases eNeg a <;> simp [testBit_not16, hz]
          · cases eNeg b <;> simp [testBit_not16, hz]

/-! ### Replacing a cut by a library pattern -/

/-- Leaf values padded to four by repeating the first (`leaf_edges[i] = leaf_edges[0]` for the rest). -/
def padVals (lv : List Bool) : List Bool :=
  (List.range 4).map fun i => if i < lv.length then lv.getD i false else lv.getD 0 false

/-- Values of the four variable edges: `leaf[perm[i]] ^ in_neg bit i`. -/
def varVals (lv : List Bool) (t : Transform) : List Bool :=
  (List.range 4).map fun i => (padVals lv).getD (t.perm.getD i 0) false ^^ t.inNeg.testBit i

theorem range4 : List.range 4 = [0, 1, 2, 3] := by decide

theorem getD_map_range4 {α : Type} (f : Nat → α) (d : α) (k : Nat) :
    ((List.range 4).map f).getD k d = if k < 4 then f k else d := by
  rw [range4]
  match k with
  | 0 => rfl
  | 1 => rfl
  | 2 => rfl
  | 3 => rfl
  | k + 4 =>
    have : ¬ k + 4 < 4 := by omega
    simp [this]

theorem padLeafEdges_has {g : Aig} (hg : Good g) {leafEdges : List Nat} {LV : (Nat → Bool) → List Bool}
    (hlen : ∀ env, (LV env).length = leafEdges.length)
    (h : ∀ i, Has g (leafEdges.getD i const0) (fun env => (LV env).getD i false)) (j : Nat) :
    Has g ((padLeafEdges leafEdges).getD j const0) (fun env => (padVals (LV env)).getD j false) := by
  unfold padLeafEdges
  rw [getD_map_range4]
  by_cases hj : j < 4
  · rw [if_pos hj]
    by_cases hjl : j < leafEdges.length
    · rw [if_pos hjl]
      refine (h j).congr ?_
      intro env
      unfold padVals
      rw [getD_map_range4, if_pos hj, if_pos (by rw [hlen env]; exact hjl)]
    · rw [if_neg hjl]
      refine (h 0).congr ?_
      intro env
      unfold padVals
      rw [getD_map_range4, if_pos hj, if_neg (by rw [hlen env]; exact hjl)]
  · rw [if_neg hj]
    refine (has_const0 hg).congr ?_
    intro env
    unfold padVals
    rw [getD_map_range4, if_neg hj]

theorem varEdges_have {g : Aig} (hg : Good g) {leafEdges : List Nat} {LV : (Nat → Bool) → List Bool}
    (hlen : ∀ env, (LV env).length = leafEdges.length)
    (h : ∀ i, Has g (leafEdges.getD i const0) (fun env => (LV env).getD i false)) (t : Transform) :
    EdgesHave g (varEdges leafEdges t) (fun env => varVals (LV env) t) := by
  refine ⟨fun env => by simp [varVals, varEdges], ?_⟩
  intro k
  unfold varEdges
  simp only []
  rw [getD_map_range4]
  by_cases hk : k < 4
  · rw [if_pos hk]
    refine ((padLeafEdges_has hg hlen h (t.perm.getD k 0)).negateIf _).congr ?_
    intro env
    unfold varVals
    rw [getD_map_range4, if_pos hk, testBit_shift_and_one]
  · rw [if_neg hk]
    refine (has_const0 hg).congr ?_
    intro env
    unfold varVals
    rw [getD_map_range4, if_neg hk]

theorem exists_bits4 (a b c d : Bool) :
    ∃ m, m < 16 ∧ [m.testBit 0, m.testBit 1, m.testBit 2, m.testBit 3] = [a, b, c, d] := by
  cases a <;> cases b <;> cases c <;> cases d
  · exact ⟨0, by decide, by decide⟩
  · exact ⟨8, by decide, by decide⟩
  · exact ⟨4, by decide, by decide⟩
  · exact ⟨12, by decide, by decide⟩
  · exact ⟨2, by decide, by decide⟩
  · exact ⟨10, by decide, by decide⟩
  · exact ⟨6, by decide, by decide⟩
  · exact ⟨14, by decide, by decide⟩
  · exact ⟨1, by decide, by decide⟩
  · exact ⟨9, by decide, by decide⟩
  · exact ⟨5, by decide, by decide⟩
  · exact ⟨13, by decide, by decide⟩
  · exact ⟨3, by decide, by decide⟩
  · exact ⟨11, by decide, by decide⟩
  · exact ⟨7, by decide, by decide⟩
  · exact ⟨15, by decide, by decide⟩

theorem varVals_eq (lv : List Bool) (t : Transform) :
    varVals lv t = [(varVals lv t).getD 0 false, (varVals lv t).getD 1 false,
      (varVals lv t).getD 2 false, (varVals lv t).getD 3 false] := by
  unfold varVals; rw [range4]; rfl

/-- The pattern for `t.apply f`, fed with the transformed leaf values and complemented by `out_neg`,
computes `f` at the row made of the (padded) leaf values. -/
theorem pattern_at_leaves (pat : Pattern) (t : Transform) (ht : t.perm ∈ allPerms) (f : Nat)
    (hpat : pat.tt = t.apply f) (lv : List Bool) {z : Nat} (hz : z < 16)
    (hzb : ∀ j < 4, z.testBit j = (padVals lv).getD j false) :
    (evalB pat (varVals lv t) ^^ t.outNeg) = f.testBit z := by
  obtain ⟨m, hm, hbits⟩ := exists_bits4 ((varVals lv t).getD 0 false) ((varVals lv t).getD 1 false)
    ((varVals lv t).getD 2 false) ((varVals lv t).getD 3 false)
  rw [varVals_eq lv t, ← hbits, ← testBit_tt pat hm, hpat, testBit_apply t f hm]
  have hx := xor_and15_lt hm t.inNeg
  have hz' := permIndex_lt ht hx
  have : permIndex t.perm (m ^^^ (t.inNeg &&& 15)) = z := by
    apply eq_of_testBit_lt (n := 4) hz' hz
    intro j hj
    have hi := permInv_lt ht hj
    rw [permIndex_bit ht hx hj, Nat.testBit_xor, testBit_and15 _ hi, hzb j hj]
    have hmb : m.testBit ((permInv t.perm).getD j 0) = (varVals lv t).getD ((permInv t.perm).getD j 0) false := by
      have := bits4_getD m hi
      rw [← this, hbits, ← varVals_eq]
    rw [hmb]
    unfold varVals
    rw [getD_map_range4, if_pos hi, perm_permInv ht hj]
    cases (padVals lv).getD j false <;> cases t.inNeg.testBit ((permInv t.perm).getD j 0) <;> rfl
  rw [this]
  cases f.testBit z <;> cases t.outNeg <;> rfl

theorem topo_take {nodes : List Node} (h : Topo nodes) (k : Nat) : Topo (nodes.take k) := by
  intro i a b hi
  apply h i a b
  rw [List.getElem?_take] at hi
  split at hi
  · exact hi
  · simp at hi

theorem evalNodes_take_getD (env : Nat → Bool) (nodes : List Node) (k : Nat) {i : Nat} (hi : i < k)
    (hk : k ≤ nodes.length) :
    (evalNodes env (nodes.take k)).getD i false = (evalNodes env nodes).getD i false := by
  have h : nodes = nodes.take k ++ nodes.drop k := (List.take_append_drop k nodes).symm
  have hr : (evalNodes env nodes) = evalFrom env (evalNodes env (nodes.take k)) (nodes.drop k) := by
    conv => lhs; rw [h]
    rw [evalNodes_eq, evalFrom_append, ← evalNodes_eq]
  obtain ⟨ext, h1, _⟩ := evalFrom_ext env (evalNodes env (nodes.take k)) (nodes.drop k)
  rw [hr, h1, getD_append_left' _ _ _ (by rw [evalNodes_length, List.length_take]; omega)]

theorem exists_row (lv : List Bool) : ∃ z, z < 16 ∧ ∀ j < 4, z.testBit j = (padVals lv).getD j false := by
  obtain ⟨m, hm, hb⟩ := exists_bits4 ((padVals lv).getD 0 false) ((padVals lv).getD 1 false)
    ((padVals lv).getD 2 false) ((padVals lv).getD 3 false)
  refine ⟨m, hm, ?_⟩
  intro j hj
  rw [← bits4_getD m hj, hb]
  match j, hj with
  | 0, _ => rfl
  | 1, _ => rfl
  | 2, _ => rfl
  | 3, _ => rfl

/-- T3. Replacing the cone of `root` over the cut `leaves` (a cut: every path from `root` meets a leaf)
by ANY pattern whose table is the transformed cut table, instantiated on edges that compute the leaves'
functions in the new graph, yields an edge computing `root`'s function — and only appends nodes, so
every correspondence established before stays valid. -/
theorem cut_replace (old : List Node) (hto : Topo old) (root : Nat) (hroot : root < old.length)
    (leaves : List Nat) (hl : leaves.length ≤ 4)
    (hcov : (coveredVals leaves (old.take (root + 1))).getD root false = true)
    (f : Nat) (hf : cutTt old root leaves = some f)
    (pat : Pattern) (t : Transform) (htp : t.perm ∈ allPerms) (hpat : pat.tt = t.apply f)
    (g : Aig) (hg : Good g) (leafEdges : List Nat) (hlen : leafEdges.length = leaves.length)
    (hinv : ∀ i, i < leaves.length →
      Has g (leafEdges.getD i const0) (fun env => (evalNodes env old).getD (leaves.getD i 0) false)) :
    Extends g (replaceCut g pat leafEdges t).1 ∧
      Has (replaceCut g pat leafEdges t).1 (replaceCut g pat leafEdges t).2
        (fun env => (evalNodes env old).getD root false) := by
  -- the leaf values as a list
  let LV : (Nat → Bool) → List Bool := fun env => leaves.map fun l => (evalNodes env old).getD l false
  have hLVlen : ∀ env, (LV env).length = leafEdges.length := fun env => by simp [LV, hlen]
  have hLVget : ∀ env i, i < leaves.length → (LV env).getD i false = (evalNodes env old).getD (leaves.getD i 0) false := by
    intro env i hi
    simp only [LV]
    rw [List.getD_eq_getElem?_getD, List.getElem?_map, List.getElem?_eq_getElem hi]
    rw [List.getD_eq_getElem?_getD (l := leaves), List.getElem?_eq_getElem hi]
    rfl
  have hh : ∀ i, Has g (leafEdges.getD i const0) (fun env => (LV env).getD i false) := by
    intro i
    by_cases hi : i < leaves.length
    · exact (hinv i hi).congr (fun env => (hLVget env i hi).symm)
    · have e1 : leafEdges.getD i const0 = const0 := by
        rw [List.getD_eq_getElem?_getD, List.getElem?_eq_none (by rw [hlen]; omega)]; rfl
      rw [e1]
      refine (has_const0 hg).congr ?_
      intro env
      rw [List.getD_eq_getElem?_getD, List.getElem?_eq_none (by rw [hLVlen env, hlen]; omega)]
      rfl
  have hve := varEdges_have hg hLVlen hh t
  obtain ⟨x1, h1⟩ := instantiatePattern_has hg hve pat
  refine ⟨x1, ?_⟩
  refine (h1.negateIf t.outNeg).congr ?_
  intro env
  obtain ⟨z, hz, hzb⟩ := exists_row (LV env)
  rw [pattern_at_leaves pat t htp f hpat (LV env) hz hzb]
  -- `f` is the cut table of `root`
  unfold cutTt at hf
  split at hf
  · simp at hf
  split at hf
  · simp at hf
  simp only [Option.some.injEq] at hf
  subst hf
  have hk : root + 1 ≤ old.length := by omega
  have hcut := cut_function leaves hl env z hz (old.take (root + 1)) (topo_take hto _) ?_ root
    (by rw [List.length_take]; omega) hcov
  · rw [← hcut, evalNodes_take_getD env old (root + 1) (by omega) hk]
  · intro pos hp hlt
    rw [List.length_take] at hlt
    have hpl : pos < 4 := by omega
    rw [evalNodes_take_getD env old (root + 1) (by omega) hk, hzb pos hpl]
    unfold padVals
    rw [getD_map_range4, if_pos hpl, if_pos (by rw [hLVlen env, hlen]; exact hp), hLVget env pos hp]

/-! ### The word-level evaluators are the Boolean semantics, bit by bit -/

theorem getD_map_testBit (vals : List Nat) (i j : Nat) :
    (vals.map (·.testBit j)).getD i false = (vals.getD i 0).testBit j := by
  rw [List.getD_eq_getElem?_getD, List.getD_eq_getElem?_getD, List.getElem?_map]
  cases vals[i]? <;> simp

theorem edgeW_testBit (mask : Nat) (vals : List Nat) (e j : Nat) (hj : mask.testBit j = true) :
    (edgeW mask vals e).testBit j = edgeVal (vals.map (·.testBit j)) e := by
  unfold edgeW edgeVal
  rw [Nat.testBit_xor, getD_map_testBit]
  cases eNeg e <;> simp [hj]

theorem nodeW_testBit (mask : Nat) (envW : Nat → Nat) (vals : List Nat) (n : Node) (j : Nat)
    (hj : mask.testBit j = true) :
    (nodeW mask envW vals n).testBit j = nodeVal (fun o => (envW o).testBit j) (vals.map (·.testBit j)) n := by
  cases n with
  | const => simp [nodeW, nodeVal]
  | input o => simp [nodeW, nodeVal, Nat.testBit_and, hj]
  | and a b => simp only [nodeW, nodeVal, Nat.testBit_and, edgeW_testBit mask vals _ j hj]

theorem evalNodesW_testBit (mask : Nat) (envW : Nat → Nat) (nodes : List Node) (j : Nat)
    (hj : mask.testBit j = true) :
    (evalNodesW mask envW nodes).map (·.testBit j) = evalNodes (fun o => (envW o).testBit j) nodes := by
  unfold evalNodesW evalNodes
  have : ∀ (vals : List Nat),
      (nodes.foldl (fun vals n => vals ++ [nodeW mask envW vals n]) vals).map (·.testBit j)
        = nodes.foldl (fun vals n => vals ++ [nodeVal (fun o => (envW o).testBit j) vals n]) (vals.map (·.testBit j)) := by
    induction nodes with
    | nil => intro vals; rfl
    | cons n rest ih =>
      intro vals
      simp only [List.foldl_cons]
      rw [ih]
      simp only [List.map_append, List.map_cons, List.map_nil, nodeW_testBit mask envW vals n j hj]
  simpa using this []

theorem testBit_ite (c : Prop) [Decidable c] (a b j : Nat) :
    (if c then a else b).testBit j = if c then a.testBit j else b.testBit j := by
  split <;> rfl

theorem cellEvalW_testBit (mask kind : Nat) (x : List Nat) (j : Nat) (hj : mask.testBit j = true) :
    (cellEvalW mask kind x).testBit j = cellEval kind (x.map (·.testBit j)) := by
  unfold cellEvalW cellEval
  simp only [getD_map_testBit, testBit_ite, Nat.testBit_and, Nat.testBit_or, Nat.testBit_xor, hj,
    Bool.xor_true, Nat.zero_testBit]
  generalize (x.getD 0 0).testBit j = a
  generalize (x.getD 1 0).testBit j = b
  generalize (x.getD 2 0).testBit j = c
  generalize (x.getD 3 0).testBit j = d
  cases a <;> cases b <;> cases c <;> cases d <;> simp

theorem evalCellsW_testBit (mask : Nat) (inputs : List Nat) (cells : List (Nat × List Nat)) (j : Nat)
    (hj : mask.testBit j = true) :
    (evalCellsW mask inputs cells).map (·.testBit j) = evalCells (inputs.map (·.testBit j)) cells := by
  unfold evalCellsW evalCells
  induction cells generalizing inputs with
  | nil => rfl
  | cons c rest ih =>
    simp only [List.foldl_cons]
    rw [ih]
    congr 1
    simp only [List.map_append, List.map_cons, List.map_nil, Nat.testBit_and, hj, Bool.and_true,
      cellEvalW_testBit mask c.1 _ j hj, List.map_map]
    congr 3
    apply List.map_congr_left
    intro n _
    simp only [Function.comp_apply, getD_map_testBit]

end VerylModel.Lemmas.Aig
