import VerylModel.Lemmas.BitsBitwise
set_option linter.unusedSimpArgs false
set_option linter.unusedVariables false
/-! Prologues of the arms of `eval_value_unary/binary` (expand + representation match). -/
namespace VerylModel.Bits
open Ref Impl

/-- What the prologue `x.expand(width, signed); y.expand(width, signed)` + the representation
    match of a context-determined arm establishes. -/
theorem arithArm_spec (x y : Val) (w : Nat) (s : Bool) (fu fb : V4 → V4 → Option V4)
    (hx : x.canon) (hy : y.canon) (hwx : x.width ≤ w) (hwy : y.width ≤ w) (hw0 : 0 < w) :
    ∃ a b : V4, a.toBV = ext x.v w s ∧ b.toBV = ext y.v w s ∧ a.wf ∧ b.wf ∧ a.width = w ∧ b.width = w ∧
      arithArm x y w s fu fb = (if 64 < w then (fb a b).map .big else (fu a b).map .u64) := by
  obtain ⟨x', hx1, hx2, hx3, hx4, hx5, _⟩ := expand_spec x w s hx hwx hw0
  obtain ⟨y', hy1, hy2, hy3, hy4, hy5, _⟩ := expand_spec y w s hy hwy hw0
  refine ⟨x'.v, y'.v, hx2, hy2, hx5, hy5, hx4, hy4, ?_⟩
  unfold arithArm
  simp only [hx1, hy1, Option.bind_eq_bind, Option.bind_some]
  by_cases h : 64 < w
  · simp only [h, decide_true, if_true] at hx3 hy3 ⊢
    cases x' <;> cases y' <;> simp_all [both]
  · simp only [h, decide_false, if_false] at hx3 hy3 ⊢
    cases x' <;> cases y' <;> simp_all [both]

/-- A context-determined binary arm equals the reference as soon as (1) its BigUint arm equals
    the reference on operands already sized to `w` (any `w`), and (2) its U64 arm agrees with the
    BigUint arm for `w ≤ 64`. -/
theorem ctxArm_eq_ref (x y : Val) (w : Nat) (s : Bool) (fu fb : V4 → V4 → Option V4)
    (R : BV → BV → BV)
    (hx : x.canon) (hy : y.canon) (hwx : x.width ≤ w) (hwy : y.width ≤ w) (hw0 : 0 < w)
    (hbig : ∀ a b : V4, a.wf → b.wf → a.width = w → b.width = w →
      ∃ r, fb a b = some r ∧ r.toBV = R a.toBV b.toBV)
    (hu64 : w ≤ 64 → ∀ a b : V4, a.wf → b.wf → a.width = w → b.width = w → fu a b = fb a b) :
    ∃ v, arithArm x y w s fu fb = some v ∧ v.v.toBV = R (ext x.v w s) (ext y.v w s) ∧
         v.isBig = decide (64 < w) := by
  obtain ⟨a, b, ha, hb, hawf, hbwf, hwa, hwb, harm⟩ := arithArm_spec x y w s fu fb hx hy hwx hwy hw0
  obtain ⟨r, hr, hrr⟩ := hbig a b hawf hbwf hwa hwb
  rw [harm]
  by_cases h : 64 < w
  · rw [if_pos h, hr]
    exact ⟨.big r, rfl, by rw [← ha, ← hb]; exact hrr, by simp [h]⟩
  · rw [if_neg h, hu64 (by omega) a b hawf hbwf hwa hwb, hr]
    exact ⟨.u64 r, rfl, by rw [← ha, ← hb]; exact hrr, by simp [h]⟩

theorem resize_eq_expand (v : Val) (w : Nat) (s : Bool) (h : v.width ≤ w) :
    resize v w s = expand v w s := by
  unfold resize
  have : ¬ v.width > w := by omega
  rw [if_neg this]

/-- Unary context-determined arm (`+`, `-`, `~`): prologue. -/
theorem unaryCtx_spec (x : Val) (w : Nat) (s : Bool) (hx : x.canon) (hwx : x.width ≤ w) (hw0 : 0 < w) :
    ∃ a : V4, a.toBV = ext x.v w s ∧ a.wf ∧ a.width = w ∧
      expand x w s = some (if 64 < w then .big a else .u64 a) := by
  obtain ⟨x', hx1, hx2, hx3, hx4, hx5, _⟩ := expand_spec x w s hx hwx hw0
  refine ⟨x'.v, hx2, hx5, hx4, ?_⟩
  rw [hx1]
  by_cases h : 64 < w
  · simp only [h, decide_true, if_true] at hx3 ⊢
    cases x' <;> simp_all
  · simp only [h, decide_false, if_false] at hx3 ⊢
    cases x' <;> simp_all

/-! ### unary minus -/

theorem ofInt_neg (a : BV) (w : Nat) (s : Bool) (hwa : a.width = w) (hp : a.payload < 2 ^ w) :
    ofInt w (- val a s) = ⟨w, (2 ^ w - a.payload) % 2 ^ w, 0⟩ := by
  rw [← ofInt_natCast]
  apply ofInt_congr
  have h1 : ((2 ^ w - a.payload : Nat) : Int) = - (a.payload : Int) + ((2 ^ w : Nat) : Int) * 1 := by
    rw [Int.natCast_sub (Nat.le_of_lt hp)]; omega
  rw [h1, Int.add_mul_emod_self_left]
  apply emod_neg_congr
  rw [← hwa]; exact val_emod a s

theorem Big.neg_eq_ref (a : V4) (w : Nat) (s : Bool) (ha : a.wf) (hwa : a.width = w) :
    (Big.neg a w).toBV = minusBV a.toBV w s := by
  have hp : a.payload < 2 ^ w := by rw [← hwa]; exact ha.1
  unfold Big.neg minusBV BV.hasXZ
  by_cases hm : a.mask ≠ 0
  · rw [if_pos hm]
    have : (a.toBV.mask != 0) = true := by simpa [V4.toBV] using hm
    rw [if_pos this]; rfl
  · rw [if_neg hm]
    have : ¬ ((a.toBV.mask != 0) = true) := by simpa [V4.toBV] using hm
    rw [if_neg this, ofInt_neg a.toBV w s hwa hp]
    simp only [V4.toBV, Big.genMask, neg_twos hp, hwa]
    have hm0 : a.mask = 0 := by omega
    rw [hm0]

/-- The U64 arm of unary minus (`wrapping_add`) agrees with the BigUint arm for every `w ≤ 64`,
    width 64 / operand 0 included. -/
theorem U64.neg_eq_big (a : V4) (w : Nat) (h64 : w ≤ 64) (ha : a.wf) (hwa : a.width = w) :
    U64.neg a w = Big.neg a w := by
  have hp : a.payload < 2 ^ w := by rw [← hwa]; exact ha.1
  unfold U64.neg Big.neg
  by_cases hm : a.mask ≠ 0
  · rw [if_pos hm, if_pos hm, U64.newX_eq_big h64]
  · rw [if_neg hm, if_neg hm]
    simp only [U64.genMask_eq h64, Big.genMask, U64.wadd, Nat.and_two_pow_sub_one_eq_mod, mod64_mod h64]

/-- The arm before /repo commit c18109e agreed with the BigUint arm only away from width 64,
    operand 0 … -/
theorem U64.negOld_eq_big (a : V4) (w : Nat) (h64 : w ≤ 64) (ha : a.wf) (hwa : a.width = w)
    (hok : w < 64 ∨ a.payload ≠ 0 ∨ a.mask ≠ 0) : U64.negOld a w = some (Big.neg a w) := by
  have hp : a.payload < 2 ^ w := by rw [← hwa]; exact ha.1
  unfold U64.negOld Big.neg
  by_cases hm : a.mask ≠ 0
  · rw [if_pos hm, if_pos hm, U64.newX_eq_big h64]
  · rw [if_neg hm, if_neg hm]
    simp only [U64.genMask_eq h64, Big.genMask, xor_mask_eq_sub hp, U64.add]
    have hlt : 2 ^ w - 1 - a.payload + 1 < 2 ^ 64 := by
      have hle : 2 ^ w ≤ 2 ^ 64 := Nat.pow_le_pow_right (by decide) h64
      have hpos := Nat.two_pow_pos w
      rcases hok with h | h | h
      · have : 2 ^ w < 2 ^ 64 := Nat.pow_lt_pow_right (by decide) h
        omega
      · omega
      · exact absurd h hm
    rw [if_pos hlt]
    rfl

/-- … and panicked there. -/
theorem U64.negOld_overflow : U64.negOld ⟨64, 0, 0, false⟩ 64 = none := by decide

end VerylModel.Bits
