import VerylModel.Core.Register
/-! Helper lemmas for C24 (M-Register). Core Lean only. -/
namespace VerylModel.Lemmas.Register
open VerylModel.Register

theorem insertSym_ok (excl : Nat → Nat → Bool) (tbl : List Sym) (s : Sym)
    (h : ∀ t ∈ tbl, conflict excl s t = false) : insertSym excl tbl s = tbl ++ [s] := by
  unfold insertSym
  have : tbl.any (conflict excl s) = false := by
    rw [List.any_eq_false]
    intro t ht
    simp [h t ht]
  simp [this]

theorem registerFile_ok (excl : Nat → Nat → Bool) (file : List Sym) : ∀ (tbl : List Sym),
    NoConflict excl (tbl ++ file) → registerFile excl tbl file = tbl ++ file := by
  induction file with
  | nil => intro tbl _; simp [registerFile]
  | cons s rest ih =>
    intro tbl h
    have h' : NoConflict excl ((tbl ++ [s]) ++ rest) := by simpa [NoConflict] using h
    have hs : ∀ t ∈ tbl, conflict excl s t = false := by
      intro t ht
      unfold NoConflict at h
      rw [List.pairwise_append] at h
      exact (h.2.2 t ht s List.mem_cons_self).2
    have := ih (tbl ++ [s]) h'
    simp only [registerFile, List.foldl_cons] at this ⊢
    rw [insertSym_ok excl tbl s hs, this]
    simp

theorem registerAll_aux (excl : Nat → Nat → Bool) (files : List (List Sym)) : ∀ (tbl : List Sym),
    NoConflict excl (tbl ++ files.flatten) →
    files.foldl (registerFile excl) tbl = tbl ++ files.flatten := by
  induction files with
  | nil => intro tbl _; simp
  | cons f rest ih =>
    intro tbl h
    have h1 : NoConflict excl (tbl ++ f) := by
      unfold NoConflict at h ⊢
      rw [List.flatten_cons, ← List.append_assoc] at h
      exact (List.pairwise_append.mp h).1
    have h2 : NoConflict excl ((tbl ++ f) ++ rest.flatten) := by
      simpa [NoConflict, List.append_assoc] using h
    simp only [List.foldl_cons, List.flatten_cons]
    rw [registerFile_ok excl f tbl h1, ih (tbl ++ f) h2, List.append_assoc]

theorem noConflict_perm (excl : Nat → Nat → Bool) {l l' : List Sym} (p : l'.Perm l)
    (h : NoConflict excl l) : NoConflict excl l' := by
  unfold NoConflict at h ⊢
  exact (p.pairwise_iff (fun h => ⟨h.2, h.1⟩)).mpr h

theorem keyDisjoint_noConflict (excl : Nat → Nat → Bool) {l : List Sym} (h : KeyDisjoint l) :
    NoConflict excl l := by
  unfold KeyDisjoint at h
  unfold NoConflict
  apply h.imp
  intro a b hab
  constructor
  · simp only [conflict, Bool.and_eq_false_iff, beq_eq_false_iff_ne]
    by_cases hn : a.name = b.name
    · by_cases hs : a.ns = b.ns
      · exact absurd ⟨hs, hn⟩ hab
      · exact Or.inr (Or.inl hs)
    · exact Or.inl hn
  · simp only [conflict, Bool.and_eq_false_iff, beq_eq_false_iff_ne]
    by_cases hn : b.name = a.name
    · by_cases hs : b.ns = a.ns
      · exact absurd ⟨hs.symm, hn.symm⟩ hab
      · exact Or.inr (Or.inl hs)
    · exact Or.inl hn

theorem key_unique {l : List Sym} (h : KeyDisjoint l) {x y : Sym} (hx : x ∈ l) (hy : y ∈ l)
    (hk : x.ns = y.ns ∧ x.name = y.name) : x = y := by
  unfold KeyDisjoint at h
  induction l with
  | nil => cases hx
  | cons a rest ih =>
    rw [List.pairwise_cons] at h
    rcases List.mem_cons.mp hx with rfl | hx' <;> rcases List.mem_cons.mp hy with rfl | hy'
    · rfl
    · exact absurd hk (h.1 _ hy')
    · exact absurd ⟨hk.1.symm, hk.2.symm⟩ (h.1 _ hx')
    · exact ih h.2 hx' hy'

theorem find_perm {l l' : List Sym} (p : l'.Perm l) (h : KeyDisjoint l) (ns : List Nat) (name : Nat) :
    find l' ns name = find l ns name := by
  have h' : KeyDisjoint l' := by
    unfold KeyDisjoint at h ⊢
    exact (p.pairwise_iff (fun hab hba => hab ⟨hba.1.symm, hba.2.symm⟩)).mpr h
  unfold find
  cases hf : l.find? (fun s => s.ns == ns && s.name == name) with
  | none =>
    rw [List.find?_eq_none] at hf ⊢
    intro x hx
    exact hf x (p.subset hx)
  | some x =>
    have hx := List.mem_of_find?_eq_some hf
    have hpx := List.find?_some hf
    cases hf' : l'.find? (fun s => s.ns == ns && s.name == name) with
    | none =>
      rw [List.find?_eq_none] at hf'
      exact absurd hpx (hf' x (p.symm.subset hx))
    | some y =>
      have hy := List.mem_of_find?_eq_some hf'
      have hpy := List.find?_some hf'
      simp only [Bool.and_eq_true, beq_iff_eq] at hpx hpy
      have := key_unique h hx (p.subset hy) ⟨hpx.1.trans hpy.1.symm, hpx.2.trans hpy.2.symm⟩
      rw [this]

end VerylModel.Lemmas.Register
