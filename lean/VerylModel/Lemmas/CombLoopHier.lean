import VerylModel.Lemmas.CombLoopAtoms
/-!
Flat modules: the atom-level graph is the exact quotient of the bit-level graph.
Hierarchy: every path of the inlined bit-level graph between top-level bits is matched by a path of
the top module's atom-level graph with port-level summary edges.
-/
namespace VerylModel.CombLoop

/-! ### flat modules -/

theorem Flat.block_accs_sub (m : Flat) {st : Stmt} (h : st ∈ m.blocks) : ∀ a ∈ st.accs, a ∈ m.accs :=
  fun _ ha => List.mem_flatMap.2 ⟨st, h, ha⟩

/-- Edges of a list of blocks at the two granularities correspond. -/
theorem blocks_edge_rel {cuts : Nat → List Nat} {blocks : List Stmt}
    (hat : ∀ st ∈ blocks, Atomic cuts st.accs) (s b : Bit) :
    (s, b) ∈ blocks.flatMap (blockEdges Acc.bits) ↔
      (atomOf cuts s, atomOf cuts b) ∈ blocks.flatMap (blockEdges (atomsOf cuts)) := by
  simp only [List.mem_flatMap]
  constructor
  · rintro ⟨st, hst, h⟩
    exact ⟨st, hst, (blockEdges_rel (hat st hst) s b).1 h⟩
  · rintro ⟨st, hst, h⟩
    exact ⟨st, hst, (blockEdges_rel (hat st hst) s b).2 h⟩

theorem blocks_edge_surj {cuts : Nat → List Nat} {blocks : List Stmt} {A B : Atom}
    (h : (A, B) ∈ blocks.flatMap (blockEdges (atomsOf cuts))) : atomOf cuts B = B := by
  obtain ⟨_, _, h⟩ := List.mem_flatMap.1 h
  exact blockEdges_surj h

/-- Paths of a flat module's bit graph map to paths of its atom graph. -/
theorem flat_path_map {cuts : Nat → List Nat} {m : Flat} (hat : Atomic cuts m.accs) {x y : Bit}
    (h : Path (flatBitGraph m) x y) :
    Path (m.blocks.flatMap (blockEdges (atomsOf cuts))) (atomOf cuts x) (atomOf cuts y) :=
  h.map (atomOf cuts) (fun a b hab =>
    (blocks_edge_rel (fun _ hst => hat.mono (m.block_accs_sub hst)) a b).1 hab)

/-- Paths of a flat module's atom graph lift to paths between *any* bits of the end ranges. -/
theorem flat_path_lift {cuts : Nat → List Nat} {m : Flat} (hat : Atomic cuts m.accs) {A B : Atom}
    (h : Path (m.blocks.flatMap (blockEdges (atomsOf cuts))) A B) :
    ∀ x y, atomOf cuts x = A → atomOf cuts y = B → Path (flatBitGraph m) x y :=
  h.lift (atomOf cuts)
    (fun A B hAB a b ha hb => by
      subst ha; subst hb
      exact (blocks_edge_rel (fun st hst => hat.mono (m.block_accs_sub hst)) a b).2 hAB)
    (fun A B hAB => ⟨B, blocks_edge_surj hAB⟩)

theorem flat_cycle_iff {cuts : Nat → List Nat} {m : Flat} (hat : Atomic cuts m.accs) :
    HasCycle (m.blocks.flatMap (blockEdges (atomsOf cuts))) ↔ HasCycle (flatBitGraph m) := by
  constructor
  · rintro ⟨A, h⟩
    obtain ⟨_, e⟩ := h.dst_mem
    have hA := blocks_edge_surj e
    exact ⟨A, flat_path_lift hat h A A hA hA⟩
  · rintro ⟨a, h⟩
    exact ⟨_, flat_path_map hat h⟩

/-! ### membership in the inlined graph -/

theorem mem_zipIdx {α : Type} {l : List α} {n j : Nat} {x : α} :
    (j, x) ∈ zipIdx l n ↔ n ≤ j ∧ l[j - n]? = some x := by
  induction l generalizing n with
  | nil => simp [zipIdx]
  | cons y l ih =>
    simp only [zipIdx, List.mem_cons, Prod.mk.injEq, ih]
    constructor
    · rintro (⟨rfl, rfl⟩ | ⟨h1, h2⟩)
      · simp
      · refine ⟨by omega, ?_⟩
        have : j - n = (j - (n + 1)) + 1 := by omega
        rw [this, List.getElem?_cons_succ]; exact h2
    · rintro ⟨h1, h2⟩
      by_cases hj : j = n
      · subst hj
        simp at h2
        exact Or.inl ⟨rfl, h2.symm⟩
      · right
        refine ⟨by omega, ?_⟩
        have : j - n = (j - (n + 1)) + 1 := by omega
        rw [this, List.getElem?_cons_succ] at h2; exact h2

theorem zipIdx_unique {α : Type} {l : List α} {n j : Nat} {x y : α}
    (hx : (j, x) ∈ zipIdx l n) (hy : (j, y) ∈ zipIdx l n) : x = y := by
  have h1 := (mem_zipIdx.1 hx).2
  have h2 := (mem_zipIdx.1 hy).2
  rw [h1] at h2
  exact Option.some.inj h2

theorem zipIdx_mem {α : Type} {l : List α} {n j : Nat} {x : α} (hx : (j, x) ∈ zipIdx l n) : x ∈ l :=
  List.mem_of_getElem? (mem_zipIdx.1 hx).2

theorem mem_atScope {s : Nat} {g : Graph Bit} {x y : HBit} :
    (x, y) ∈ atScope s g ↔ x.1 = s ∧ y.1 = s ∧ (x.2, y.2) ∈ g := by
  obtain ⟨sx, bx⟩ := x
  obtain ⟨sy, b_y⟩ := y
  unfold atScope
  simp only [List.mem_map, Prod.mk.injEq]
  constructor
  · rintro ⟨⟨a, b⟩, h, ⟨rfl, rfl⟩, rfl, rfl⟩
    exact ⟨rfl, rfl, h⟩
  · rintro ⟨rfl, rfl, h⟩
    exact ⟨(bx, b_y), h, ⟨rfl, rfl⟩, rfl, rfl⟩

theorem mem_portEdges {j : Nat} {i : Inst} {x y : HBit} :
    (x, y) ∈ portEdges j i ↔
      (∃ p a k, (p, a) ∈ i.ins ∧ k < width a ∧ x = (0, a.var, a.lo + k) ∧ y = (j + 1, p, k)) ∨
      (∃ q dd k, (q, dd) ∈ i.outs ∧ k < width dd ∧ x = (j + 1, q, k) ∧ y = (0, dd.var, dd.lo + k)) := by
  unfold portEdges
  simp only [List.mem_append, List.mem_flatMap, List.mem_map, List.mem_range, Prod.mk.injEq]
  constructor
  · rintro (⟨⟨p, a⟩, hpa, k, hk, rfl, rfl⟩ | ⟨⟨q, dd⟩, hqd, k, hk, rfl, rfl⟩)
    · exact Or.inl ⟨p, a, k, hpa, hk, rfl, rfl⟩
    · exact Or.inr ⟨q, dd, k, hqd, hk, rfl, rfl⟩
  · rintro (⟨p, a, k, hpa, hk, rfl, rfl⟩ | ⟨q, dd, k, hqd, hk, rfl, rfl⟩)
    · exact Or.inl ⟨(p, a), hpa, k, hk, rfl, rfl⟩
    · exact Or.inr ⟨(q, dd), hqd, k, hk, rfl, rfl⟩

/-- The four kinds of edges of the inlined graph. -/
inductive EdgeKind (d : Design) (x y : HBit) : Prop
  | top : x.1 = 0 → y.1 = 0 → (x.2, y.2) ∈ flatBitGraph d.top → EdgeKind d x y
  | portIn (j : Nat) (i : Inst) (c : Flat) (p : Nat) (a : Acc) (k : Nat) :
      (j, i) ∈ zipIdx d.insts 0 → d.children[i.child]? = some c → (p, a) ∈ i.ins → k < width a →
      x = (0, a.var, a.lo + k) → y = (j + 1, p, k) → EdgeKind d x y
  | child (j : Nat) (i : Inst) (c : Flat) :
      (j, i) ∈ zipIdx d.insts 0 → d.children[i.child]? = some c → x.1 = j + 1 → y.1 = j + 1 →
      (x.2, y.2) ∈ flatBitGraph c → EdgeKind d x y
  | portOut (j : Nat) (i : Inst) (c : Flat) (q : Nat) (dd : Acc) (k : Nat) :
      (j, i) ∈ zipIdx d.insts 0 → d.children[i.child]? = some c → (q, dd) ∈ i.outs → k < width dd →
      x = (j + 1, q, k) → y = (0, dd.var, dd.lo + k) → EdgeKind d x y

theorem edgeKind_iff {d : Design} {x y : HBit} : (x, y) ∈ bitGraph d ↔ EdgeKind d x y := by
  unfold bitGraph
  simp only [List.mem_append, List.mem_flatMap]
  constructor
  · rintro (h | ⟨⟨j, i⟩, hji, h⟩)
    · obtain ⟨h1, h2, h3⟩ := mem_atScope.1 h
      exact .top h1 h2 h3
    · unfold instBitEdges at h
      split at h
      · cases h
      · rename_i c hc
        rcases List.mem_append.1 h with h | h
        · rcases mem_portEdges.1 h with ⟨p, a, k, hpa, hk, hx, hy⟩ | ⟨q, dd, k, hqd, hk, hx, hy⟩
          · exact .portIn j i c p a k hji hc hpa hk hx hy
          · exact .portOut j i c q dd k hji hc hqd hk hx hy
        · obtain ⟨h1, h2, h3⟩ := mem_atScope.1 h
          exact .child j i c hji hc h1 h2 h3
  · intro h
    cases h with
    | top h1 h2 h3 => exact Or.inl (mem_atScope.2 ⟨h1, h2, h3⟩)
    | portIn j i c p a k hji hc hpa hk hx hy =>
      refine Or.inr ⟨(j, i), hji, ?_⟩
      unfold instBitEdges
      simp only [hc]
      exact List.mem_append.2 (Or.inl (mem_portEdges.2 (Or.inl ⟨p, a, k, hpa, hk, hx, hy⟩)))
    | child j i c hji hc h1 h2 h3 =>
      refine Or.inr ⟨(j, i), hji, ?_⟩
      unfold instBitEdges
      simp only [hc]
      exact List.mem_append.2 (Or.inr (mem_atScope.2 ⟨h1, h2, h3⟩))
    | portOut j i c q dd k hji hc hqd hk hx hy =>
      refine Or.inr ⟨(j, i), hji, ?_⟩
      unfold instBitEdges
      simp only [hc]
      exact List.mem_append.2 (Or.inl (mem_portEdges.2 (Or.inr ⟨q, dd, k, hqd, hk, hx, hy⟩)))

/-! ### well-formed designs and summaries -/

/-- Ports are used in their direction: a child's input and output ports are distinct variables, and
an instance connects `ins` to input ports and `outs` to output ports of its child. -/
def Design.WF (d : Design) : Prop :=
  (∀ c ∈ d.children, ∀ p ∈ c.inputs, p ∉ c.outputs) ∧
  (∀ i ∈ d.insts, ∀ c, d.children[i.child]? = some c →
    (∀ pa ∈ i.ins, pa.1 ∈ c.inputs) ∧ (∀ qd ∈ i.outs, qd.1 ∈ c.outputs))

theorem mem_graphNodes {α : Type} [DecidableEq α] {g : Graph α} {x : α} :
    x ∈ graphNodes g ↔ ∃ e ∈ g, x = e.1 ∨ x = e.2 := by
  unfold graphNodes
  simp [mem_addNew, List.mem_flatMap]

theorem mem_summaryOf {m : Flat} {g : Graph Atom} {p q : Nat} :
    (p, q) ∈ summaryOf m g ↔
      p ∈ m.inputs ∧ q ∈ m.outputs ∧
        ∃ A ∈ graphNodes g, A.1 = p ∧ ∃ B, B.1 = q ∧ (B = A ∨ Path g A B) := by
  unfold summaryOf
  simp only [List.mem_flatMap, List.mem_map, List.mem_filter, Prod.mk.injEq, List.any_eq_true,
    decide_eq_true_eq]
  have hnd : ∀ p', ((graphNodes g).filter (fun n => decide (n.1 = p'))).Nodup := fun p' =>
    List.Nodup.sublist List.filter_sublist (nodup_addNew List.nodup_nil)
  constructor
  · rintro ⟨p', hp', q', ⟨hq', B, hB, hBq⟩, rfl, rfl⟩
    refine ⟨hp', hq', ?_⟩
    rcases (mem_closure (hnd p')).1 hB with h | ⟨A, hA, hp⟩
    · have := List.mem_filter.1 h
      exact ⟨B, this.1, by simpa using this.2, B, hBq, Or.inl rfl⟩
    · have := List.mem_filter.1 hA
      exact ⟨A, this.1, by simpa using this.2, B, hBq, Or.inr hp⟩
  · rintro ⟨hp, hq, A, hA, hAp, B, hBq, hAB⟩
    refine ⟨p, hp, q, ⟨hq, B, ?_, hBq⟩, rfl, rfl⟩
    have hAS : A ∈ (graphNodes g).filter (fun n => decide (n.1 = p)) :=
      List.mem_filter.2 ⟨hA, by simpa using hAp⟩
    rcases hAB with rfl | hp'
    · exact (mem_closure (hnd p)).2 (Or.inl hAS)
    · exact (mem_closure (hnd p)).2 (Or.inr ⟨A, hAS, hp'⟩)

theorem mem_instEdges {cuts : Nat → List Nat} {c : Flat} {sm : Summary} {i : Inst} {A B : Atom} :
    (A, B) ∈ instEdges cuts c sm i ↔
      ∃ p a q dd, (p, a) ∈ i.ins ∧ (q, dd) ∈ i.outs ∧ p ∈ c.inputs ∧ q ∈ c.outputs ∧ (p, q) ∈ sm ∧
        A ∈ atomsOf cuts a ∧ B ∈ atomsOf cuts dd := by
  unfold instEdges
  simp only [List.mem_flatMap]
  constructor
  · rintro ⟨⟨p, a⟩, hpa, h⟩
    split at h
    · rename_i hp
      obtain ⟨⟨q, dd⟩, hqd, h⟩ := List.mem_flatMap.1 h
      split at h
      · rename_i hq
        obtain ⟨r, hr, h⟩ := List.mem_flatMap.1 h
        obtain ⟨w, hw, h⟩ := List.mem_map.1 h
        simp only [Prod.mk.injEq] at h
        obtain ⟨rfl, rfl⟩ := h
        exact ⟨p, a, q, dd, hpa, hqd, hp, hq.1, hq.2, hr, hw⟩
      · cases h
    · cases h
  · rintro ⟨p, a, q, dd, hpa, hqd, hp, hq, hsm, hA, hB⟩
    refine ⟨(p, a), hpa, ?_⟩
    simp only [hp, if_true]
    refine List.mem_flatMap.2 ⟨(q, dd), hqd, ?_⟩
    simp only [hq, hsm, and_self, if_true]
    exact List.mem_flatMap.2 ⟨A, hA, List.mem_map.2 ⟨B, hB, rfl⟩⟩

/-! ### soundness through instances -/

section Sound
variable {d : Design}

theorem top_blocks_atomic (d : Design) : ∀ st ∈ d.top.blocks, Atomic d.topCuts st.accs := by
  intro st hst
  refine (atomic_cutsOf d.topAccs).mono (fun a ha => ?_)
  exact List.mem_append.2 (Or.inl (d.top.block_accs_sub hst a ha))

theorem inst_in_atomic {i : Inst} (hi : i ∈ d.insts) {p : Nat} {a : Acc} (h : (p, a) ∈ i.ins) :
    a.lo ∈ d.topCuts a.var ∧ a.hi ∈ d.topCuts a.var := by
  apply atomic_cutsOf d.topAccs a
  refine List.mem_append.2 (Or.inr (List.mem_flatMap.2 ⟨i, hi, ?_⟩))
  exact List.mem_append.2 (Or.inl (List.mem_map.2 ⟨(p, a), h, rfl⟩))

theorem inst_out_atomic {i : Inst} (hi : i ∈ d.insts) {q : Nat} {a : Acc} (h : (q, a) ∈ i.outs) :
    a.lo ∈ d.topCuts a.var ∧ a.hi ∈ d.topCuts a.var := by
  apply atomic_cutsOf d.topAccs a
  refine List.mem_append.2 (Or.inr (List.mem_flatMap.2 ⟨i, hi, ?_⟩))
  exact List.mem_append.2 (Or.inr (List.mem_map.2 ⟨(q, a), h, rfl⟩))

theorem wired_bit_mem (a : Acc) {k : Nat} (hk : k < width a) : (a.var, a.lo + k) ∈ a.bits := by
  rw [mem_bits]
  unfold width at hk
  exact ⟨rfl, by simp, by simp; omega⟩

theorem topQ_block {s b : Bit} (h : (s, b) ∈ flatBitGraph d.top) :
    (atomOf d.topCuts s, atomOf d.topCuts b) ∈ topRangeGraphD d :=
  List.mem_append.2 (Or.inl ((blocks_edge_rel (top_blocks_atomic d) s b).1 h))

theorem atomOf_fst (cuts : Nat → List Nat) (b : Bit) : (atomOf cuts b).1 = b.1 := rfl

/-- A bit-level path through a child from a wired input bit to a wired output bit is covered by
the port-level summary edge of the instance. -/
theorem topQ_inst (hwf : d.WF) {i : Inst} {c : Flat} (hi : i ∈ d.insts)
    (hc : d.children[i.child]? = some c) {p q : Nat} {a dd : Acc}
    (hpa : (p, a) ∈ i.ins) (hqd : (q, dd) ∈ i.outs) {k k' : Nat} (hk : k < width a)
    (hk' : k' < width dd)
    (hr : (p, k) = (q, k') ∨ Path (flatBitGraph c) (p, k) (q, k')) :
    (atomOf d.topCuts (a.var, a.lo + k), atomOf d.topCuts (dd.var, dd.lo + k')) ∈ topRangeGraphD d := by
  have hcm : c ∈ d.children := List.mem_of_getElem? hc
  obtain ⟨hp, hq⟩ := hwf.2 i hi c hc
  have hpin := hp _ hpa
  have hqout := hq _ hqd
  have hne : p ≠ q := fun h => hwf.1 c hcm p hpin (h ▸ hqout)
  have hpath : Path (flatBitGraph c) (p, k) (q, k') := by
    rcases hr with h | h
    · exact absurd (congrArg Prod.fst h) hne
    · exact h
  have hQ := flat_path_map (atomic_cutsOf c.accs) hpath
  have hsm : (p, q) ∈ summaryOf c (flatRangeGraphD c) := by
    refine mem_summaryOf.2 ⟨hpin, hqout, atomOf (flatCuts c) (p, k), ?_, rfl,
      atomOf (flatCuts c) (q, k'), rfl, Or.inr hQ⟩
    obtain ⟨z, hz⟩ := hQ.src_mem
    exact mem_graphNodes.2 ⟨_, hz, Or.inl rfl⟩
  refine List.mem_append.2 (Or.inr (List.mem_flatMap.2 ⟨i, hi, ?_⟩))
  simp only [hc]
  refine mem_instEdges.2 ⟨p, a, q, dd, hpa, hqd, hpin, hqout, hsm, ?_, ?_⟩
  · obtain ⟨h1, h2⟩ := inst_in_atomic hi hpa
    exact (mem_bits_iff_atom h1 h2 _).1 (wired_bit_mem a hk)
  · obtain ⟨h1, h2⟩ := inst_out_atomic hi hqd
    exact (mem_bits_iff_atom h1 h2 _).1 (wired_bit_mem dd hk')

/-- What a node `u` on the way to the top-level bit `b` contributes at atom level: a top-level
node is `R`-related to `b`; a child node reached from the wired input bit `(p, k)` of its
instance yields a path from the range of the actual's bit to the range of `b`. -/
def Covers (d : Design) (R : Atom → Atom → Prop) (b u : HBit) : Prop :=
  (u.1 = 0 → R (atomOf d.topCuts u.2) (atomOf d.topCuts b.2)) ∧
  (∀ j i c p a k, (j, i) ∈ zipIdx d.insts 0 → d.children[i.child]? = some c → u.1 = j + 1 →
    (p, a) ∈ i.ins → k < width a → ((p, k) = u.2 ∨ Path (flatBitGraph c) (p, k) u.2) →
    Path (topRangeGraphD d) (atomOf d.topCuts (a.var, a.lo + k)) (atomOf d.topCuts b.2))

theorem covers_step (hwf : d.WF) {b u w : HBit} (he : (u, w) ∈ bitGraph d)
    (hw : Covers d (fun x y => x = y ∨ Path (topRangeGraphD d) x y) b w) :
    Covers d (Path (topRangeGraphD d)) b u := by
  have ext : ∀ {x y z : Atom}, (x, y) ∈ topRangeGraphD d →
      (y = z ∨ Path (topRangeGraphD d) y z) → Path (topRangeGraphD d) x z := by
    intro x y z hxy hyz
    rcases hyz with rfl | h
    · exact .single hxy
    · exact .cons hxy h
  cases edgeKind_iff.1 he with
  | top h1 h2 h3 =>
    refine ⟨fun _ => ext (topQ_block h3) (hw.1 h2), ?_⟩
    intro j i c p a k _ _ hu
    omega
  | portIn j i c p a k hji hc hpa hk hx hy =>
    subst hx; subst hy
    refine ⟨fun _ => hw.2 j i c p a k hji hc rfl hpa hk (Or.inl rfl), ?_⟩
    intro j' i' c' p' a' k' _ _ hu
    simp at hu
  | child j i c hji hc h1 h2 h3 =>
    refine ⟨fun h0 => by omega, ?_⟩
    intro j' i' c' p a k hji' hc' hu hpa hk hr
    have hj : j' = j := by omega
    subst hj
    have hi' := zipIdx_unique hji' hji
    subst hi'
    rw [hc] at hc'
    have hcc : c = c' := Option.some.inj hc'
    subst hcc
    have hr' : (p, k) = w.2 ∨ Path (flatBitGraph c) (p, k) w.2 := by
      rcases hr with h | h
      · exact Or.inr (h ▸ .single h3)
      · exact Or.inr (h.snoc h3)
    exact hw.2 j' i' c p a k hji hc h2 hpa hk hr'
  | portOut j i c q dd k hji hc hqd hk hx hy =>
    subst hx; subst hy
    refine ⟨fun h0 => by simp at h0, ?_⟩
    intro j' i' c' p a k0 hji' hc' hu hpa hk0 hr
    have hj : j' = j := by simpa using hu.symm
    subst hj
    have hi' := zipIdx_unique hji' hji
    subst hi'
    rw [hc] at hc'
    have hcc : c = c' := Option.some.inj hc'
    subst hcc
    exact ext (topQ_inst hwf (zipIdx_mem hji) hc hpa hqd hk0 hk hr) (hw.1 rfl)

/-- Every path of the inlined graph that ends in a top-level bit is covered. -/
theorem covers_path (hwf : d.WF) {u b : HBit} (h : Path (bitGraph d) u b) (hb : b.1 = 0) :
    Covers d (Path (topRangeGraphD d)) b u := by
  have base : Covers d (fun x y => x = y ∨ Path (topRangeGraphD d) x y) b b :=
    ⟨fun _ => Or.inl rfl, fun j _ _ _ _ _ _ _ hu => by omega⟩
  induction h with
  | single e => exact covers_step hwf e base
  | cons e _ ih =>
    have := ih hb base
    exact covers_step hwf e ⟨fun h0 => Or.inr (this.1 h0), this.2⟩

/-- A path that starts inside instance `j` either stays inside (a path of the child's own graph) or
passes through a top-level node. -/
theorem child_path_cases {u v : HBit} (h : Path (bitGraph d) u v) {j : Nat} (hu : u.1 = j + 1) :
    (∃ i c, (j, i) ∈ zipIdx d.insts 0 ∧ d.children[i.child]? = some c ∧ v.1 = j + 1 ∧
        Path (flatBitGraph c) u.2 v.2) ∨
    (∃ t, t.1 = 0 ∧ Path (bitGraph d) u t ∧ (t = v ∨ Path (bitGraph d) t v)) := by
  induction h with
  | @single u v e =>
    cases edgeKind_iff.1 e with
    | top h1 _ _ => omega
    | portIn j' i c p a k _ _ _ _ hx _ => subst hx; simp at hu
    | child j' i c hji hc h1 h2 h3 =>
      have : j' = j := by omega
      subst this
      exact Or.inl ⟨i, c, hji, hc, h2, .single h3⟩
    | portOut j' i c q dd k _ _ _ _ _ hy =>
      exact Or.inr ⟨v, by subst hy; rfl, .single e, Or.inl rfl⟩
  | @cons u w v e hp ih =>
    cases edgeKind_iff.1 e with
    | top h1 _ _ => omega
    | portIn j' i c p a k _ _ _ _ hx _ => subst hx; simp at hu
    | child j' i c hji hc h1 h2 h3 =>
      have : j' = j := by omega
      subst this
      rcases ih h2 with ⟨i', c', hji', hc', hv, hpath⟩ | ⟨t, ht, hwt, htv⟩
      · have hi' := zipIdx_unique hji' hji
        subst hi'
        rw [hc] at hc'
        have hcc : c = c' := Option.some.inj hc'
        subst hcc
        exact Or.inl ⟨i', c, hji, hc, hv, .cons h3 hpath⟩
      · exact Or.inr ⟨t, ht, .cons e hwt, htv⟩
    | portOut j' i c q dd k _ _ _ _ _ hy =>
      exact Or.inr ⟨w, by subst hy; rfl, .single e, Or.inr hp⟩

/-- Soundness through instances (`liveIn` form): a cycle of the inlined bit-level graph shows up
as a cycle of the top module's atom-level graph with port-level summary edges, or lies inside one
child (whose own graph then has it). -/
theorem hier_sound_D (hwf : d.WF) (h : HasCycle (bitGraph d)) :
    HasCycle (topRangeGraphD d) ∨ ∃ c ∈ d.children, HasCycle (flatBitGraph c) := by
  obtain ⟨a, hp⟩ := h
  have top_case : ∀ t : HBit, t.1 = 0 → Path (bitGraph d) t t → HasCycle (topRangeGraphD d) :=
    fun t ht hpt => ⟨_, (covers_path hwf hpt ht).1 ht⟩
  rcases Nat.eq_zero_or_pos a.1 with h0 | hpos
  · exact Or.inl (top_case a h0 hp)
  · obtain ⟨j, hj⟩ : ∃ j, a.1 = j + 1 := ⟨a.1 - 1, by omega⟩
    rcases child_path_cases hp hj with ⟨i, c, _, hc, _, hpath⟩ | ⟨t, ht, hat, hta⟩
    · exact Or.inr ⟨c, List.mem_of_getElem? hc, ⟨_, hpath⟩⟩
    · rcases hta with rfl | hta
      · omega
      · exact Or.inl (top_case t ht (hta.trans hat))

end Sound

end VerylModel.CombLoop
