import VerylModel.Lemmas.AssignMulti
/-! Lemmas for the unassigned-bit rule and the read-before-assign check of C15. -/
namespace VerylModel.AssignTable

/-! ### Recorded reads -/

mutual
theorem acc_stmt (cx : Cx) (v base : Nat) : ∀ (s : Stmt) (st : St),
    (evalStmt cx v base st s).acc = st.acc ||| recReadsStmt v s
  | .assign reads w, st => by
    simp only [evalStmt, recReadsStmt]
    split <;> rfl
  | .ifs c thn els, st => by
    simp only [evalStmt, recReadsStmt]
    rw [acc_block cx v _ els, acc_block cx v _ thn, Nat.or_assoc]
  | .case c arms dflt exh, st => by
    simp only [evalStmt, recReadsStmt]
    rw [acc_block cx v _ dflt]
    simp only
    rw [acc_arms cx v _ arms, Nat.or_assoc]
theorem acc_block (cx : Cx) (v base : Nat) : ∀ (b : Block) (st : St),
    (evalBlock cx v base st b).acc = st.acc ||| recReadsBlock v b
  | .nil, st => by simp [evalBlock, recReadsBlock]
  | .cons s b, st => by
    simp only [evalBlock, recReadsBlock]
    rw [acc_block cx v base b, acc_stmt cx v base s, Nat.or_assoc]
theorem acc_arms (cx : Cx) (v base : Nat) : ∀ (bs : Blocks) (st : St),
    (evalArms cx v base st bs).1.acc = st.acc ||| recReadsBlocks v bs
  | .nil, st => by simp [evalArms, recReadsBlocks]
  | .cons b r, st => by
    simp only [evalArms, recReadsBlocks]
    rw [acc_arms cx v base r, acc_block cx v base b, Nat.or_assoc]
end

theorem procEval_acc (a : Bool) (v : Nat) (p : Proc) : (procEval a v p).acc = procRecReads v p := by
  cases p with
  | comb body => simp [procEval, procRecReads, acc_block]
  | ff body => simp [procEval, procRecReads, acc_block]
  | inst outs ins =>
    simp only [procEval, procRecReads]
    have : ∀ (l : List (Nat × Nat)) (st : St),
        (l.foldl (fun st (o : Nat × Nat) => if o.1 = v then { st with e := st.e.add o.2 false false } else st) st).acc
          = st.acc := by
      intro l
      induction l with
      | nil => intro st; rfl
      | cons o l ih =>
        intro st
        simp only [List.foldl_cons]
        rw [ih]
        split <;> rfl
    exact this outs {}

theorem moduleFold_acc (a : Bool) (v : Nat) : ∀ (ps : List Proc) (m : MSt),
    (ps.foldl (moduleStep a v) m).acc = m.acc ||| foldOr (ps.map (procRecReads v))
  | [], m => by simp [foldOr_nil]
  | p :: ps, m => by
    simp only [List.foldl_cons, List.map_cons, foldOr_cons]
    rw [moduleFold_acc a v ps]
    simp only [moduleStep, procEval_acc, Nat.or_assoc]

theorem verdict_unassigned_eq (info : VarInfo) (v : Nat) (procs : List Proc) :
    (verdict info v procs).unassigned = unassignedRule info (assignedBy v procs) (recordedReads v procs) := by
  simp only [verdict, moduleFold, assignedBy, recordedReads]
  rw [moduleFold_mask info.always v procs {} Entry.Wf.zero, moduleFold_acc]
  simp

/-! ### The rule, bit by bit -/

theorem fullMask_testBit (w i : Nat) : (fullMask w).testBit i = decide (i < w) :=
  Nat.testBit_two_pow_sub_one w i

theorem andNot_testBit (a b i : Nat) : (andNot a b).testBit i = (a.testBit i && !b.testBit i) := by
  simp only [andNot, Nat.testBit_xor, Nat.testBit_and]
  cases a.testBit i <;> cases b.testBit i <;> rfl

theorem unassignedBits_ne_zero {w assigned : Nat} :
    fullMask w ^^^ (fullMask w &&& assigned) ≠ 0 ↔ ∃ i, i < w ∧ assigned.testBit i = false := by
  rw [ne_zero_iff_bit]
  constructor
  · rintro ⟨i, hi⟩
    have := andNot_testBit (fullMask w) assigned i
    simp only [andNot] at this
    rw [this, fullMask_testBit] at hi
    refine ⟨i, ?_, ?_⟩
    · cases h : decide (i < w)
      · rw [h] at hi; simp at hi
      · exact of_decide_eq_true h
    · cases h : assigned.testBit i
      · rfl
      · rw [h] at hi; simp at hi
  · rintro ⟨i, hw, ha⟩
    refine ⟨i, ?_⟩
    have := andNot_testBit (fullMask w) assigned i
    simp only [andNot] at this
    rw [this, fullMask_testBit, ha]
    simp [hw]

theorem reads_unassigned_ne_zero {w assigned reads : Nat} :
    reads &&& (fullMask w ^^^ (fullMask w &&& assigned)) ≠ 0 ↔
      ∃ i, i < w ∧ reads.testBit i = true ∧ assigned.testBit i = false := by
  rw [and_ne_zero_iff]
  constructor
  · rintro ⟨i, hr, hi⟩
    have := andNot_testBit (fullMask w) assigned i
    simp only [andNot] at this
    rw [this, fullMask_testBit] at hi
    refine ⟨i, ?_, hr, ?_⟩
    · cases h : decide (i < w)
      · rw [h] at hi; simp at hi
      · exact of_decide_eq_true h
    · cases h : assigned.testBit i
      · rfl
      · rw [h] at hi; simp at hi
  · rintro ⟨i, hw, hr, ha⟩
    refine ⟨i, hr, ?_⟩
    have := andNot_testBit (fullMask w) assigned i
    simp only [andNot] at this
    rw [this, fullMask_testBit, ha]
    simp [hw]

theorem unassignedRule_iff (info : VarInfo) (assigned reads : Nat) :
    unassignedRule info assigned reads = true ↔
      info.kind ≠ VarKind.input ∧ (∃ i, i < info.width ∧ assigned.testBit i = false) ∧
      (assigned = 0 ∨ info.kind = VarKind.output ∨
        ∃ i, i < info.width ∧ reads.testBit i = true ∧ assigned.testBit i = false) := by
  unfold unassignedRule
  by_cases hk : info.kind = VarKind.input
  · simp [hk]
  · simp only [hk, if_false]
    have hub := @unassignedBits_ne_zero info.width assigned
    have hru := @reads_unassigned_ne_zero info.width assigned reads
    by_cases hfull : assigned = fullMask info.width
    · simp only [hfull, if_true]
      have : ¬ ∃ i, i < info.width ∧ (fullMask info.width).testBit i = false := by
        rintro ⟨i, hw, hi⟩
        rw [fullMask_testBit] at hi
        simp [hw] at hi
      simp [this]
    · simp only [hfull, if_false]
      by_cases hu : fullMask info.width ^^^ (fullMask info.width &&& assigned) = 0
      · have hne : ¬ ∃ i, i < info.width ∧ assigned.testBit i = false := by
          intro h; exact (hub.mpr h) hu
        simp [hu, hne]
      · have hex := hub.mp hu
        simp only [hu, if_false]
        by_cases ha : assigned = 0
        · simp [ha, hk] at *
          exact hex
        · by_cases ho : info.kind = VarKind.output
          · simp [ho, hex, ha]
          · by_cases hr : reads &&& (fullMask info.width ^^^ (fullMask info.width &&& assigned)) = 0
            · have hnr : ¬ ∃ i, i < info.width ∧ reads.testBit i = true ∧ assigned.testBit i = false := by
                intro h; exact (hru.mpr h) hr
              simp [ha, ho, hr, hu, hnr, hk]
            · have hr' := hru.mp hr
              simp [ha, ho, hr, hu, hk, hex, hr']

/-! ### Read before assign, straight-line blocks -/

theorem checkRefered_bit {r : Ref} {m : Nat} (h : checkRefered r m = true) :
    ∃ i, r.maskRef.testBit i = true ∧ m.testBit i = true ∧ r.maskAssign.testBit i = false := by
  unfold checkRefered at h
  rw [Bool.and_eq_true] at h
  obtain ⟨h1, h2⟩ := h
  have h1' : r.maskRef &&& m ≠ 0 := by simpa using h1
  have h2' : r.maskRef &&& m &&& r.maskAssign = 0 := by simpa using h2
  obtain ⟨i, hr, hm⟩ := and_ne_zero_iff.mp h1'
  refine ⟨i, hr, hm, ?_⟩
  have := congrArg (fun z => z.testBit i) h2'
  simp only [Nat.testBit_and, hr, hm, Bool.true_and, Nat.zero_testBit] at this
  exact this

/-- Invariant tying the code's `refernced` entry to the reference's bookkeeping. -/
def RbaInv (r : Ref) (ru asg : Nat) : Prop :=
  r.maskAssign = asg ∧ ∀ i, r.maskRef.testBit i = true → asg.testBit i = false → ru.testBit i = true

theorem rba_sound_aux (cx : Cx) (v base : Nat) : ∀ (b : Block) (st : St) (ru asg : Nat) (f : Bool),
    RbaInv st.r ru asg → rbaRef v ru asg b = some f →
    (evalBlock cx v base st b).rba = true → st.rba = true ∨ f = true
  | .nil, st, ru, asg, f, _, _, h => by
    left; simpa [evalBlock] using h
  | .cons (.assign reads w) b, st, ru, asg, f, hinv, href, h => by
    simp only [rbaRef] at href
    simp only [evalBlock, evalStmt] at h
    -- invariant after recording the reads
    have hinv1 : RbaInv (Ref.mk (st.r.maskRef ||| readMask v reads) st.r.maskAssign)
        (ru ||| andNot (readMask v reads) asg) asg := by
      refine ⟨hinv.1, ?_⟩
      intro i hr ha
      simp only [Nat.testBit_or, Bool.or_eq_true] at hr ⊢
      rcases hr with hr | hr
      · exact Or.inl (hinv.2 i hr ha)
      · right; rw [andNot_testBit, hr, ha]; rfl
    by_cases hd : w.dst = v
    · simp only [hd, if_true] at href h
      cases hrec : rbaRef v (ru ||| andNot (readMask v reads) asg) (asg ||| w.mask) b with
      | none => rw [hrec] at href; simp at href
      | some f' =>
        rw [hrec] at href
        simp only [Option.map_some, Option.some.injEq] at href
        have hinv2 : RbaInv (Ref.mk (st.r.maskRef ||| readMask v reads) (st.r.maskAssign ||| w.mask))
            (ru ||| andNot (readMask v reads) asg) (asg ||| w.mask) := by
          refine ⟨by simp [hinv.1], ?_⟩
          intro i hr ha
          simp only [Nat.testBit_or, Bool.or_eq_false_iff] at ha
          exact hinv1.2 i hr ha.1
        have := rba_sound_aux cx v base b _ _ _ f' hinv2 hrec h
        rcases this with hst | hf
        · simp only [Bool.or_eq_true, Bool.and_eq_true] at hst
          rcases hst with hst | ⟨_, hchk⟩
          · exact Or.inl hst
          · right
            obtain ⟨i, hr, hm, ha⟩ := checkRefered_bit hchk
            simp only at hr ha
            rw [hinv.1] at ha
            have hru := hinv1.2 i hr ha
            rw [← href]
            simp only [Bool.or_eq_true, decide_eq_true_eq]
            left
            apply and_ne_zero_iff.mpr
            exact ⟨i, hru, by rw [andNot_testBit, hm, ha]; rfl⟩
        · right; rw [← href, hf]; simp
    · simp only [hd, if_false] at href h
      exact rba_sound_aux cx v base b
        (St.mk st.e (Ref.mk (st.r.maskRef ||| readMask v reads) st.r.maskAssign) (st.acc ||| readMask v reads)
          st.unc st.rba) _ _ f hinv1 href h
  | .cons (.ifs _ _ _) b, st, ru, asg, f, _, href, _ => by simp [rbaRef] at href
  | .cons (.case _ _ _ _) b, st, ru, asg, f, _, href, _ => by simp [rbaRef] at href

end VerylModel.AssignTable
