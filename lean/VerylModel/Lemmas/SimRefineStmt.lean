import VerylModel.Lemmas.SimRefine
import VerylModel.Lemmas.SimFrame
import VerylModel.Lemmas.SimNba
/-!
C02, T3 at the statement / step / trace level: the simulation relation
`Rel σ2 σ4 := ∀ x v, σ2 x = some v → σ4 x = (v, 0)` ("whatever the 2-state reference knows, the
4-state reference knows and agrees") is preserved by blocking execution, by nonblocking
evaluation + commit, by settling, by a clock step and hence along every trace.
-/
namespace VerylModel.Sim
open VerylModel.ExprRef

def RelV (a : Option Nat) (b : V4) : Prop := ∀ v, a = some v → b = (v, 0)

def Rel (σ2 : Store D2) (σ4 : Store D4) : Prop := ∀ x, RelV (σ2 x) (σ4 x)

theorem relV_none (b : V4) : RelV none b := fun _ h => by cases h

theorem rel_upd {σ2 : Store D2} {σ4 : Store D4} (h : Rel σ2 σ4) (i : Nat) {a : Option Nat} {b : V4} (hv : RelV a b) :
    Rel (upd σ2 i a) (upd σ4 i b) := by
  intro x
  by_cases hx : x = i
  · subst hx
    rw [upd_same, upd_same]
    exact hv
  · rw [upd_other _ _ _ _ hx, upd_other _ _ _ _ hx]
    exact h x

/-! ### the domain operations -/

theorem env_lift {σ2 : Store D2} {σ4 : Store D4} (h : Rel σ2 σ4) : ∀ (ls : List Leaf) (env : Env),
    env2 σ2 ls = some env → env4 σ4 ls = liftEnv env
  | [], env, he => by
    simp only [env2, Option.some.injEq] at he
    subst he
    rfl
  | l :: ls, env, he => by
    simp only [env2] at he
    cases hv : σ2 l.var with
    | none => simp only [hv] at he; cases he
    | some v =>
      cases henv : env2 σ2 ls with
      | none => simp only [hv, henv] at he; cases he
      | some env' =>
        simp only [hv, henv, Option.some.injEq] at he
        subst he
        have h4 : σ4 l.var = (v, 0) := h l.var v hv
        simp only [env4, env_lift h ls env' henv, h4, liftEnv, List.map_cons, liftPort]
        simp [slice]

theorem rhs_lift {σ2 : Store D2} {σ4 : Store D4} (h : Rel σ2 σ4) (r : Rhs) (wo : Nat) : RelV (rhs2 σ2 r wo) (rhs4 σ4 r wo) := by
  intro v hv
  simp only [rhs2] at hv
  split at hv
  · rename_i env henv
    simp only [assign, Option.map_eq_some_iff] at hv
    obtain ⟨x, hx, rfl⟩ := hv
    simp only [rhs4, assign4, env_lift h r.leaves env henv, erase_liftEnv, eval4_lift env r.body _ _ x hx, Nat.zero_mod]
  · cases hv

theorem clr_zero (v : Nat) : clr v 0 = v := by simp [clr]

theorem cond_lift {σ2 : Store D2} {σ4 : Store D4} (h : Rel σ2 σ4) (r : Rhs) (b : Bool) (hb : cond2 σ2 r = some b) :
    cond4 σ4 r = some b := by
  simp only [cond2] at hb
  split at hb
  · rename_i env henv
    simp only [selfVal, Option.map_eq_some_iff] at hb
    obtain ⟨x, hx, rfl⟩ := hb
    simp only [cond4, selfVal4, env_lift h r.leaves env henv, erase_liftEnv, eval4_lift env r.body _ _ x hx, known1, clr_zero]
  · cases hb

theorem splice_zero (lo w : Nat) : splice 0 lo w 0 = 0 := by simp [splice]

theorem idx_lift {σ2 : Store D2} {σ4 : Store D4} (h : Rel σ2 σ4) (r : Rhs) (i : Nat) (hi : idx2 σ2 r = some i) :
    idx4 σ4 r = some i := by
  simp only [idx2] at hi
  split at hi
  · rename_i env henv
    simp only [selfVal] at hi
    simp only [idx4, selfVal4, env_lift h r.leaves env henv, erase_liftEnv, eval4_lift env r.body _ _ i hi, if_true]
  · cases hi

theorem write_lift {o2 n2 : Option Nat} {o4 n4 : V4} (ho : RelV o2 o4) (hn : RelV n2 n4) (l : Lhs) :
    RelV (write2 o2 l n2) (write4 o4 l n4) := by
  intro v hv
  simp only [write2] at hv
  simp only [write4]
  split at hv
  · rename_i hf
    simp only [hf, if_true]
    exact hn v hv
  · rename_i hf
    simp only [hf, if_false, Bool.false_eq_true]
    split at hv
    · rename_i o n
      simp only [Option.some.injEq] at hv
      subst hv
      rw [ho o rfl, hn n rfl]
      simp only [splice_zero]
    · cases hv

/-! ### blocking execution -/

theorem rel_poison_frame {σ2 : Store D2} {σ4 τ4 : Store D4} (h : Rel σ2 σ4) (L : List Nat)
    (hf : ∀ x, x ∉ L → τ4 x = σ4 x) : Rel (poisonList D2 L σ2) τ4 := by
  intro x
  by_cases hx : x ∈ L
  · rw [poisonList_in D2 L σ2 x hx]
    exact relV_none _
  · rw [poisonList_notin D2 L σ2 x hx, hf x hx]
    exact h x

def caseRes (D : Dom) (sel : Rhs) (arms : Arms) (d : Stmts) (σ : Store D) : Store D :=
  match execArms D sel (targetsSs d) arms σ with
  | some σ' => σ'
  | none => execSs D d σ

theorem caseRes_frame (D : Dom) (sel : Rhs) (arms : Arms) (d : Stmts) (σ : Store D) (x : Nat)
    (h1 : x ∉ targetsArms arms) (h2 : x ∉ targetsSs d) : caseRes D sel arms d σ x = σ x := by
  unfold caseRes
  cases heq : execArms D sel (targetsSs d) arms σ with
  | some σ' => exact execArms_frame D x sel (targetsSs d) arms σ σ' heq h1 h2
  | none => exact execSs_frame D x d σ h2

theorem caseRes_cons_true (D : Dom) (sel : Rhs) (lw lv : Nat) (b : Stmts) (rest : Arms) (d : Stmts) (σ : Store D)
    (h : D.arm σ sel lw lv = some true) : caseRes D sel (.cons lw lv b rest) d σ = execSs D b σ := by
  simp only [caseRes, execArms, h]

theorem caseRes_cons_false (D : Dom) (sel : Rhs) (lw lv : Nat) (b : Stmts) (rest : Arms) (d : Stmts) (σ : Store D)
    (h : D.arm σ sel lw lv = some false) : caseRes D sel (.cons lw lv b rest) d σ = caseRes D sel rest d σ := by
  simp only [caseRes, execArms, h]

theorem caseRes_cons_none (D : Dom) (sel : Rhs) (lw lv : Nat) (b : Stmts) (rest : Arms) (d : Stmts) (σ : Store D)
    (h : D.arm σ sel lw lv = none) :
    caseRes D sel (.cons lw lv b rest) d σ = poisonList D (targetsSs b ++ targetsArms rest ++ targetsSs d) σ := by
  simp only [caseRes, execArms, h]

theorem caseRes_nil (D : Dom) (sel : Rhs) (d : Stmts) (σ : Store D) : caseRes D sel .nil d σ = execSs D d σ := by
  simp only [caseRes, execArms]

mutual
theorem relS : ∀ (s : Stmt) (σ2 : Store D2) (σ4 : Store D4), Rel σ2 σ4 → Rel (execS D2 s σ2) (execS D4 s σ4)
  | .set l r, σ2, σ4, h => by
    simp only [execS]
    exact rel_upd h l.var (write_lift (h l.var) (rhs_lift h r l.width) l)
  | .setDyn v vw w idx r, σ2, σ4, h => by
    simp only [execS]
    cases hi : idx2 σ2 idx with
    | none =>
      intro x
      by_cases hx : x = v
      · subst hx
        rw [upd_same]
        exact relV_none _
      · rw [upd_other _ _ _ _ hx]
        cases hi4 : idx4 σ4 idx with
        | none =>
          simp only []
          rw [upd_other _ _ _ _ hx]
          exact h x
        | some j =>
          simp only []
          split
          · rw [upd_other _ _ _ _ hx]
            exact h x
          · exact h x
    | some i =>
      rw [idx_lift h idx i hi]
      simp only []
      split
      · exact rel_upd h v (write_lift (h v) (rhs_lift h r w) (dynLhs v w i))
      · exact h
  | .ite c t e, σ2, σ4, h => by
    simp only [execS]
    cases hc : cond2 σ2 c with
    | none =>
      apply rel_poison_frame h
      intro x hx
      simp only [List.mem_append, not_or] at hx
      cases hc4 : cond4 σ4 c with
      | none => exact poisonList_notin D4 _ σ4 x (by simp [hx.1, hx.2])
      | some b4 =>
        cases b4 with
        | true => exact execSs_frame D4 x t σ4 hx.1
        | false => exact execSs_frame D4 x e σ4 hx.2
    | some b =>
      have h4 : cond4 σ4 c = some b := cond_lift h c b hc
      rw [h4]
      cases b with
      | true => exact relSs t σ2 σ4 h
      | false => exact relSs e σ2 σ4 h
  | .case sel arms d, σ2, σ4, h => by
    have := relArms sel d (fun σ2 σ4 h => relSs d σ2 σ4 h) arms σ2 σ4 h
    unfold caseRes at this
    simp only [execS]
    exact this
  | .disp _ _, σ2, σ4, h => by
    simpa only [execS] using h
theorem relSs : ∀ (ss : Stmts) (σ2 : Store D2) (σ4 : Store D4), Rel σ2 σ4 → Rel (execSs D2 ss σ2) (execSs D4 ss σ4)
  | .nil, σ2, σ4, h => by simpa only [execSs] using h
  | .cons s ss, σ2, σ4, h => by
    simp only [execSs]
    exact relSs ss _ _ (relS s σ2 σ4 h)
theorem relArms (sel : Rhs) (d : Stmts)
    (ihd : ∀ (σ2 : Store D2) (σ4 : Store D4), Rel σ2 σ4 → Rel (execSs D2 d σ2) (execSs D4 d σ4)) :
    ∀ (arms : Arms) (σ2 : Store D2) (σ4 : Store D4), Rel σ2 σ4 → Rel (caseRes D2 sel arms d σ2) (caseRes D4 sel arms d σ4)
  | .nil, σ2, σ4, h => by
    rw [caseRes_nil, caseRes_nil]
    exact ihd σ2 σ4 h
  | .cons lw lv b rest, σ2, σ4, h => by
    cases hc : cond2 σ2 (eqLabel sel lw lv) with
    | none =>
      rw [caseRes_cons_none D2 sel lw lv b rest d σ2 hc]
      apply rel_poison_frame h
      intro x hx
      simp only [List.mem_append, not_or] at hx
      exact caseRes_frame D4 sel (.cons lw lv b rest) d σ4 x (by simp [targetsArms, hx.1.1, hx.1.2]) hx.2
    | some c =>
      have h4 : cond4 σ4 (eqLabel sel lw lv) = some c := cond_lift h (eqLabel sel lw lv) c hc
      cases c with
      | true =>
        rw [caseRes_cons_true D2 sel lw lv b rest d σ2 hc, caseRes_cons_true D4 sel lw lv b rest d σ4 h4]
        exact relSs b σ2 σ4 h
      | false =>
        rw [caseRes_cons_false D2 sel lw lv b rest d σ2 hc, caseRes_cons_false D4 sel lw lv b rest d σ4 h4]
        exact relArms sel d ihd rest σ2 σ4 h
end

/-! ### nonblocking evaluation + commit -/

theorem commit_poisonEvs (D : Dom) (xs : List Nat) (dd : Bool) (τ : Store D) :
    commit D (poisonEvs D xs dd) τ = poisonList D xs τ := by
  simp only [poisonEvs, commit_append]
  have h1 : ∀ (ys : List Nat) (τ : Store D), commit D (ys.map Ev.poisonVar) τ = poisonList D ys τ := by
    intro ys
    induction ys with
    | nil => intro τ; rfl
    | cons y ys ih =>
      intro τ
      simp only [List.map_cons, commit_cons, applyEv, poisonList]
      exact ih _
  rw [h1]
  cases dd <;> rfl

def nbCase (D : Dom) (sel : Rhs) (arms : Arms) (d : Stmts) (σ : Store D) : List (Ev D.Val) :=
  match nbArms D sel (targetsSs d) (hasDispSs d) arms σ with
  | some evs => evs
  | none => nbSs D d σ

theorem nbCase_targets (D : Dom) (sel : Rhs) (arms : Arms) (d : Stmts) (σ : Store D) (x : Nat)
    (h : x ∈ evTargets (nbCase D sel arms d σ)) : x ∈ targetsArms arms ∨ x ∈ targetsSs d := by
  unfold nbCase at h
  cases ha : nbArms D sel (targetsSs d) (hasDispSs d) arms σ with
  | none =>
    simp only [ha] at h
    exact Or.inr (nbSs_targets D x d σ h)
  | some evs =>
    simp only [ha] at h
    exact nbArms_targets D x sel (targetsSs d) (hasDispSs d) arms σ evs ha h

mutual
theorem relNbS : ∀ (s : Stmt) (σ2 : Store D2) (σ4 : Store D4), Rel σ2 σ4 → ∀ (τ2 : Store D2) (τ4 : Store D4), Rel τ2 τ4 →
    Rel (commit D2 (nbS D2 s σ2) τ2) (commit D4 (nbS D4 s σ4) τ4)
  | .set l r, σ2, σ4, h, τ2, τ4, ht => by
    simp only [nbS]
    exact rel_upd ht l.var (write_lift (ht l.var) (rhs_lift h r l.width) l)
  | .setDyn v vw w idx r, σ2, σ4, h, τ2, τ4, ht => by
    simp only [nbS]
    cases hi : idx2 σ2 idx with
    | none =>
      intro x
      by_cases hx : x = v
      · subst hx
        show RelV ((upd τ2 x none).get x) _
        rw [upd_same]
        exact relV_none _
      · show RelV ((upd τ2 v none).get x) _
        rw [upd_other _ _ _ _ hx]
        cases hi4 : idx4 σ4 idx with
        | none =>
          show RelV (τ2.get x) ((upd τ4 v D4.poison).get x)
          rw [upd_other _ _ _ _ hx]
          exact ht x
        | some j =>
          simp only []
          split
          · show RelV (τ2.get x) ((upd τ4 v _).get x)
            rw [upd_other _ _ _ _ hx]
            exact ht x
          · exact ht x
    | some i =>
      rw [idx_lift h idx i hi]
      simp only []
      split
      · exact rel_upd ht v (write_lift (ht v) (rhs_lift h r w) (dynLhs v w i))
      · exact ht
  | .ite c t e, σ2, σ4, h, τ2, τ4, ht => by
    simp only [nbS]
    cases hc : cond2 σ2 c with
    | none =>
      simp only [commit_poisonEvs]
      apply rel_poison_frame ht
      intro x hx
      apply commit_frame
      intro hx4
      simp only [List.mem_append, not_or] at hx
      cases hc4 : cond4 σ4 c with
      | none =>
        simp only [hc4, evTargets_poisonEvs, List.mem_append] at hx4
        cases hx4 with
        | inl h1 => exact hx.1 h1
        | inr h1 => exact hx.2 h1
      | some b4 =>
        cases b4 with
        | true =>
          simp only [hc4] at hx4
          exact hx.1 (nbSs_targets D4 x t σ4 hx4)
        | false =>
          simp only [hc4] at hx4
          exact hx.2 (nbSs_targets D4 x e σ4 hx4)
    | some b =>
      have h4 : cond4 σ4 c = some b := cond_lift h c b hc
      rw [h4]
      cases b with
      | true => exact relNbSs t σ2 σ4 h τ2 τ4 ht
      | false => exact relNbSs e σ2 σ4 h τ2 τ4 ht
  | .case sel arms d, σ2, σ4, h, τ2, τ4, ht => by
    have := relNbArms sel d σ2 σ4 h (fun τ2 τ4 ht => relNbSs d σ2 σ4 h τ2 τ4 ht) arms τ2 τ4 ht
    unfold nbCase at this
    simp only [nbS]
    exact this
  | .disp _ _, σ2, σ4, h, τ2, τ4, ht => by
    simp only [nbS]
    exact ht
theorem relNbSs : ∀ (ss : Stmts) (σ2 : Store D2) (σ4 : Store D4), Rel σ2 σ4 → ∀ (τ2 : Store D2) (τ4 : Store D4), Rel τ2 τ4 →
    Rel (commit D2 (nbSs D2 ss σ2) τ2) (commit D4 (nbSs D4 ss σ4) τ4)
  | .nil, σ2, σ4, h, τ2, τ4, ht => by
    simp only [nbSs]
    exact ht
  | .cons s ss, σ2, σ4, h, τ2, τ4, ht => by
    simp only [nbSs]
    rw [commit_append (D := D2), commit_append (D := D4)]
    exact relNbSs ss σ2 σ4 h _ _ (relNbS s σ2 σ4 h τ2 τ4 ht)
theorem relNbArms (sel : Rhs) (d : Stmts) (σ2 : Store D2) (σ4 : Store D4) (h : Rel σ2 σ4)
    (ihd : ∀ (τ2 : Store D2) (τ4 : Store D4), Rel τ2 τ4 → Rel (commit D2 (nbSs D2 d σ2) τ2) (commit D4 (nbSs D4 d σ4) τ4)) :
    ∀ (arms : Arms) (τ2 : Store D2) (τ4 : Store D4), Rel τ2 τ4 →
      Rel (commit D2 (nbCase D2 sel arms d σ2) τ2) (commit D4 (nbCase D4 sel arms d σ4) τ4)
  | .nil, τ2, τ4, ht => by
    simp only [nbCase, nbArms]
    exact ihd τ2 τ4 ht
  | .cons lw lv b rest, τ2, τ4, ht => by
    cases hc : cond2 σ2 (eqLabel sel lw lv) with
    | none =>
      have e2 : nbCase D2 sel (.cons lw lv b rest) d σ2 =
          poisonEvs D2 (targetsSs b ++ targetsArms rest ++ targetsSs d) (hasDispSs b || hasDispArms rest || hasDispSs d) := by
        simp only [nbCase, nbArms, hc]
      rw [e2, commit_poisonEvs]
      apply rel_poison_frame ht
      intro x hx
      apply commit_frame
      intro hx4
      simp only [List.mem_append, not_or] at hx
      cases nbCase_targets D4 sel (.cons lw lv b rest) d σ4 x hx4 with
      | inl h1 =>
        simp only [targetsArms, List.mem_append] at h1
        cases h1 with
        | inl h2 => exact hx.1.1 h2
        | inr h2 => exact hx.1.2 h2
      | inr h1 => exact hx.2 h1
    | some c =>
      have h4 : cond4 σ4 (eqLabel sel lw lv) = some c := cond_lift h (eqLabel sel lw lv) c hc
      cases c with
      | true =>
        have e2 : nbCase D2 sel (.cons lw lv b rest) d σ2 = nbSs D2 b σ2 := by simp only [nbCase, nbArms, hc]
        have e4 : nbCase D4 sel (.cons lw lv b rest) d σ4 = nbSs D4 b σ4 := by simp only [nbCase, nbArms, h4]
        rw [e2, e4]
        exact relNbSs b σ2 σ4 h τ2 τ4 ht
      | false =>
        have e2 : nbCase D2 sel (.cons lw lv b rest) d σ2 = nbCase D2 sel rest d σ2 := by simp only [nbCase, nbArms, hc]
        have e4 : nbCase D4 sel (.cons lw lv b rest) d σ4 = nbCase D4 sel rest d σ4 := by simp only [nbCase, nbArms, h4]
        rw [e2, e4]
        exact relNbArms sel d σ2 σ4 h ihd rest τ2 τ4 ht
end

/-! ### settle, step, run -/

theorem rel_pass : ∀ (ds : List Decl) (σ2 : Store D2) (σ4 : Store D4), Rel σ2 σ4 → Rel (pass D2 ds σ2) (pass D4 ds σ4)
  | [], _, _, h => h
  | .comb b :: ds, σ2, σ4, h => by
    simp only [pass, List.foldl_cons, runComb]
    exact rel_pass ds _ _ (relSs b σ2 σ4 h)
  | .ff _ _ _ :: ds, σ2, σ4, h => by
    simp only [pass, List.foldl_cons, runComb]
    exact rel_pass ds _ _ h

theorem rel_settle (ds : List Decl) : ∀ (n : Nat) (σ2 : Store D2) (σ4 : Store D4), Rel σ2 σ4 →
    Rel (settle D2 ds n σ2) (settle D4 ds n σ4)
  | 0, _, _, h => h
  | n + 1, σ2, σ4, h => by
    simp only [settle]
    exact rel_settle ds n _ _ (rel_pass ds σ2 σ4 h)

theorem rel_events (reset : Bool) (σ2 : Store D2) (σ4 : Store D4) (h : Rel σ2 σ4) : ∀ (ds : List Decl) (τ2 : Store D2) (τ4 : Store D4),
    Rel τ2 τ4 → Rel (commit D2 (events D2 ds reset σ2) τ2) (commit D4 (events D4 ds reset σ4) τ4)
  | [], _, _, ht => ht
  | .comb _ :: ds, τ2, τ4, ht => by
    simp only [events, List.flatMap_cons, ffEvents, List.nil_append]
    exact rel_events reset σ2 σ4 h ds τ2 τ4 ht
  | .ff hr rst body :: ds, τ2, τ4, ht => by
    simp only [events, List.flatMap_cons, ffEvents]
    rw [commit_append (D := D2), commit_append (D := D4)]
    exact rel_events reset σ2 σ4 h ds _ _ (relNbSs _ σ2 σ4 h τ2 τ4 ht)

/-- known 2-state inputs against the same inputs embedded -/
theorem rel_setInputs : ∀ (is : List Nat) (vs : List Nat) (σ2 : Store D2) (σ4 : Store D4), Rel σ2 σ4 →
    Rel (setInputs is (vs.map some) σ2) (setInputs is (vs.map lift) σ4)
  | [], [], _, _, h => h
  | [], _ :: _, _, _, h => h
  | _ :: _, [], _, _, h => h
  | i :: is, v :: vs, σ2, σ4, h => by
    show Rel (setInputs is (vs.map some) (upd σ2 i (some v))) (setInputs is (vs.map lift) (upd σ4 i (lift v)))
    apply rel_setInputs is vs
    apply rel_upd h
    intro v' hv'
    cases hv'
    rfl

theorem lookup_tabulate (D : Dom) (n : Nat) (σ : Store D) (i : Nat) :
    lookup D (tabulate D n σ) i = if i < n then σ i else D.poison := by
  simp only [lookup, tabulate, List.getD_eq_getElem?_getD, List.getElem?_map]
  split
  · rename_i h
    rw [List.getElem?_range h]
    rfl
  · rename_i h
    rw [List.getElem?_eq_none (by simpa using Nat.le_of_not_lt h)]
    rfl

theorem rel_tabulate (n : Nat) {σ2 : Store D2} {σ4 : Store D4} (h : Rel σ2 σ4) :
    Rel (lookup D2 (tabulate D2 n σ2)) (lookup D4 (tabulate D4 n σ4)) := by
  intro x
  rw [lookup_tabulate, lookup_tabulate]
  split
  · exact h x
  · exact relV_none _

def RelT (t2 : List (Option Nat)) (t4 : List V4) : Prop := Rel (lookup D2 t2) (lookup D4 t4)

theorem rel_step (dsg : Design) (t2 : List (Option Nat)) (t4 : List V4) (h : RelT t2 t4) (reset : Bool) (ins : List Nat) :
    RelT (step D2 dsg t2 reset (ins.map some)).1 (step D4 dsg t4 reset (ins.map lift)).1 := by
  simp only [step, RelT]
  apply rel_tabulate
  apply rel_settle
  have h1 := rel_settle dsg.decls dsg.decls.length _ _ (rel_setInputs dsg.inputs ins _ _ h)
  exact rel_events reset _ _ h1 dsg.decls _ _ h1

/-- port-wise: a known 2-state observation is the 4-state observation -/
def RelObs (a : List (Option Nat)) (b : List V4) : Prop :=
  a.length = b.length ∧ ∀ (j v : Nat), a[j]? = some (some v) → b[j]? = some (v, 0)

theorem relObs_map (obs : List Nat) {σ2 : Store D2} {σ4 : Store D4} (h : Rel σ2 σ4) : RelObs (obs.map σ2) (obs.map σ4) := by
  constructor
  · simp
  · intro j v hj
    simp only [List.getElem?_map, Option.map_eq_some_iff] at hj ⊢
    obtain ⟨x, hx, hv⟩ := hj
    exact ⟨x, hx, h x v hv⟩

def RelTrace : List (List (Option Nat) × List (Ev (Option Nat))) → List (List V4 × List (Ev V4)) → Prop
  | [], [] => True
  | a :: as, b :: bs => RelObs a.1 b.1 ∧ RelTrace as bs
  | _, _ => False

theorem rel_run (dsg : Design) : ∀ (stim : List (Bool × List Nat)) (t2 : List (Option Nat)) (t4 : List V4), RelT t2 t4 →
    RelTrace (run D2 dsg t2 (stim.map fun c => (c.1, c.2.map some))) (run D4 dsg t4 (stim.map fun c => (c.1, c.2.map lift)))
  | [], _, _, _ => trivial
  | (reset, ins) :: rest, t2, t4, h => by
    simp only [List.map_cons, run, RelTrace]
    have hs := rel_step dsg t2 t4 h reset ins
    exact ⟨relObs_map dsg.observed hs, rel_run dsg rest _ _ hs⟩

end VerylModel.Sim
