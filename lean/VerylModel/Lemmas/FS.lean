import VerylModel.Core.FS
/-! Helper lemmas about M-FS: invariants over `Reach`, schedules, solo runs. -/
namespace VerylModel.FS

/-- Invariant principle for `Reach`. -/
theorem reach_inv {Inv : Sys → Prop} {s0 s : Sys} (h0 : Inv s0)
    (hstep : ∀ a i e b, Inv a → Step a i e b → Inv b) (hr : Reach s0 s) : Inv s := by
  induction hr with
  | refl => exact h0
  | tail _ hs ih => exact hstep _ _ _ _ ih hs

theorem Reach.trans {a b c : Sys} (h1 : Reach a b) (h2 : Reach b c) : Reach a c := by
  induction h2 with
  | refl => exact h1
  | tail _ hs ih => exact Reach.tail ih hs

/-- A schedule that `exec` can run is an interleaving. -/
theorem exec_reach : ∀ (sched : List Pid) (s s' : Sys), exec s sched = some s' → Reach s s'
  | [], s, s', h => by
    simp [exec] at h; subst h; exact Reach.refl _
  | i :: is, s, s', h => by
    unfold exec at h
    split at h
    · rename_i e fs' p' hst
      have h1 : Reach s ⟨fs', upd s.procs i p'⟩ := Reach.tail (Reach.refl _) (Step.mk hst)
      exact Reach.trans h1 (exec_reach is _ _ h)
    · cases h

theorem upd_self_eq {β : Type} (f : Pid → β) (i : Pid) (v : β) (j : Pid) :
    upd f i v j = if j = i then v else f j := rfl

/-- Step inversion. -/
theorem Step.inv {s : Sys} {i : Pid} {e : Ev} {s' : Sys} (h : Step s i e s') :
    ∃ fs' p', step1 i s.fs (s.procs i) = some (e, fs', p') ∧ s' = ⟨fs', upd s.procs i p'⟩ := by
  cases h with
  | mk hst => exact ⟨_, _, hst, rfl⟩

theorem step1_done (me : Pid) (fs : FS) (o : List (Path × Option Content)) :
    step1 me fs ⟨.done, o⟩ = none := rfl

theorem done_no_step {me : Pid} {x : FS × Proc} (h : x.2.prog = .done) : step1 me x.1 x.2 = none := by
  obtain ⟨fsx, ⟨px, ox⟩⟩ := x
  simp at h; subst h; rfl

theorem step1_idle (me : Pid) (fs : FS) : step1 me fs Proc.idle = none := rfl

theorem SoloStar.trans {me : Pid} {x y z : FS × Proc} (h1 : SoloStar me x y) (h2 : SoloStar me y z) :
    SoloStar me x z := by
  induction h1 with
  | refl => exact h2
  | head hst _ ih => exact SoloStar.head hst (ih h2)

theorem SoloStar.tail {me : Pid} {x y : FS × Proc} {e : Ev} {fs' : FS} {p' : Proc}
    (h : SoloStar me x y) (hst : step1 me y.1 y.2 = some (e, fs', p')) : SoloStar me x (fs', p') :=
  SoloStar.trans h (SoloStar.head hst (SoloStar.refl _))

/-- Solo runs are deterministic: two complete runs from the same state end in the same state. -/
theorem solo_unique {me : Pid} {x y z : FS × Proc} (hy : SoloStar me x y) (hz : SoloStar me x z)
    (dy : y.2.prog = .done) (dz : z.2.prog = .done) : y = z := by
  induction hy with
  | refl x =>
    cases hz with
    | refl => rfl
    | head hst _ =>
      rw [done_no_step dy] at hst; cases hst
  | head hst hy' ih =>
    cases hz with
    | refl =>
      rw [done_no_step dz] at hst; cases hst
    | head hst' hz' =>
      rw [hst] at hst'
      cases hst'
      exact ih hz' dy

/-- A complete solo run is computed by `runSolo` (given enough fuel). -/
theorem solo_runSolo {me : Pid} {x y : FS × Proc} (h : SoloStar me x y) (dy : y.2.prog = .done) :
    ∃ n, ∀ m, n ≤ m → runSolo me m x = y := by
  induction h with
  | refl x =>
    refine ⟨0, fun m _ => ?_⟩
    cases m <;> simp [runSolo, done_no_step dy]
  | head hst _ ih =>
    obtain ⟨n, hn⟩ := ih dy
    refine ⟨n + 1, fun m hm => ?_⟩
    cases m with
    | zero => omega
    | succ m =>
      simp only [runSolo, hst]
      exact hn m (by omega)

/-! ## Atomic replacement discipline -/

def FilesOk (S : Path → Prop) (V : Path → Content → Prop) (fs : FS) : Prop :=
  ∀ p, S p → ∀ c, fs.files p = some c → V p c
def ObsOk (S : Path → Prop) (V : Path → Content → Prop) (o : List (Path × Option Content)) : Prop :=
  ∀ p c, (p, some c) ∈ o → S p → V p c

theorem filesOk_set {S V fs p v} (h : FilesOk S V fs) (hv : S p → ∀ c, v = some c → V p c) :
    FilesOk S V (fs.setFile p v) := by
  intro q hq c hc
  simp only [FS.setFile, upd] at hc
  split at hc
  · rename_i heq; subst heq; exact hv hq c hc
  · exact h q hq c hc

theorem filesOk_setLock {S V fs l v} (h : FilesOk S V fs) : FilesOk S V (fs.setLock l v) := h

theorem step1_atomic {S V me fs pr e fs' p'} (ha : pr.prog.AtomicOn S V) (hf : FilesOk S V fs)
    (ho : ObsOk S V pr.obs) (hst : step1 me fs pr = some (e, fs', p')) :
    p'.prog.AtomicOn S V ∧ FilesOk S V fs' ∧ ObsOk S V p'.obs := by
  obtain ⟨prog, obs⟩ := pr
  cases prog <;> simp only [step1, Prog.AtomicOn] at ha hst
  case done => cases hst
  case mkdirAll p k =>
    cases hst
    refine ⟨ha.2, ?_, ho⟩
    unfold FS.mkdir; split
    · exact filesOk_set hf (fun hp => absurd hp ha.1)
    · exact hf
  case lock l k =>
    split at hst
    · cases hst; exact ⟨ha, hf, ho⟩
    · cases hst
  case tryLock l a b =>
    split at hst <;> cases hst
    · exact ⟨ha.1, hf, ho⟩
    · exact ⟨ha.2, hf, ho⟩
  case unlock l k =>
    cases hst
    refine ⟨ha, ?_, ho⟩
    unfold FS.release; split
    · exact hf
    · exact hf
  case openTrunc p k =>
    cases hst
    exact ⟨ha.2, filesOk_set hf (fun hp => absurd hp ha.1), ho⟩
  case writeChunk p c k =>
    cases hst
    refine ⟨ha.2, ?_, ho⟩
    unfold FS.append; split
    · exact filesOk_set hf (fun hp => absurd hp ha.1)
    · exact hf
  case renameTmp p c k =>
    cases hst
    exact ⟨ha.2, filesOk_set hf (fun hp c' hc' => by cases hc'; exact ha.1 hp), ho⟩
  case read p k =>
    cases hst
    refine ⟨ha, hf, ?_⟩
    intro q c hq hS
    simp only [List.mem_append, List.mem_singleton, Prod.mk.injEq] at hq
    rcases hq with hq | ⟨rfl, hq⟩
    · exact ho q c hq hS
    · exact hf q hS c hq.symm
  case unlink p k =>
    cases hst
    exact ⟨ha, filesOk_set hf (fun _ c' hc' => by cases hc'), ho⟩
  case ifExists p a b =>
    cases hst
    refine ⟨?_, hf, ho⟩
    simp only
    split
    · exact ha.1
    · exact ha.2

/-! ## Blocking -/

theorem blocked_is_lock {me fs} {pr : Proc} (hnd : pr.prog ≠ .done) (hb : step1 me fs pr = none) :
    ∃ l k, pr.prog = .lock l k ∧ (fs.locks l).isSome := by
  obtain ⟨prog, obs⟩ := pr
  cases prog <;> simp only [step1] at hb hnd <;> try (first | contradiction | cases hb)
  case lock l k =>
    refine ⟨l, k, rfl, ?_⟩
    split at hb
    · cases hb
    · rename_i h; simp [h]
  case tryLock l a b =>
    split at hb <;> cases hb

theorem blockingLocks_step {me fs pr e fs' p'} (hst : step1 me fs pr = some (e, fs', p')) :
    ∀ l, l ∈ p'.prog.blockingLocks → l ∈ pr.prog.blockingLocks := by
  obtain ⟨prog, obs⟩ := pr
  intro l hl
  cases prog <;> simp only [step1] at hst
  case done => cases hst
  case lock l' k =>
    split at hst
    · cases hst; simp [Prog.blockingLocks]; exact Or.inr hl
    · cases hst
  case tryLock l' a b =>
    split at hst <;> cases hst <;> simp [Prog.blockingLocks] <;> simp_all
  case ifExists p a b =>
    cases hst
    simp only [Prog.blockingLocks, List.mem_append]
    simp only at hl
    split at hl
    · exact Or.inl hl
    · exact Or.inr hl
  all_goals (cases hst; simpa [Prog.blockingLocks] using hl)

/-! ## Lock-bracketed commands -/

theorem setLock_locks_ne {fs : FS} {l l' : LockId} {v} (h : l ≠ l') : (fs.setLock l' v).locks l = fs.locks l := by
  simp [FS.setLock, upd, h]
theorem setLock_locks_same {fs : FS} {l : LockId} {v} : (fs.setLock l v).locks l = v := by
  simp [FS.setLock]
@[simp] theorem setFile_locks {fs : FS} {p v} : (fs.setFile p v).locks = fs.locks := rfl
@[simp] theorem setLock_files {fs : FS} {l v} : (fs.setLock l v).files = fs.files := rfl

theorem setFile_files_ne {fs : FS} {p q : Path} {v} (h : q ≠ p) : (fs.setFile p v).files q = fs.files q := by
  simp [FS.setFile, upd, h]
theorem setFile_files_same {fs : FS} {p : Path} {v} : (fs.setFile p v).files p = v := by
  simp [FS.setFile]
@[simp] theorem mkdir_locks {fs : FS} {p} : (fs.mkdir p).locks = fs.locks := by
  unfold FS.mkdir; split <;> rfl
theorem mkdir_files_ne {fs : FS} {p q : Path} (h : q ≠ p) : (fs.mkdir p).files q = fs.files q := by
  unfold FS.mkdir; split
  · exact setFile_files_ne h
  · rfl
theorem mkdir_files_none {fs : FS} {p : Path} (h : fs.files p = none) : fs.mkdir p = fs.setFile p (some []) := by
  unfold FS.mkdir; rw [h]
theorem mkdir_isSome {fs : FS} {p : Path} : ((fs.mkdir p).files p).isSome := by
  unfold FS.mkdir; split
  · simp [setFile_files_same]
  · rename_i h; simp [h]
@[simp] theorem append_locks {fs : FS} {p c} : (fs.append p c).locks = fs.locks := by
  unfold FS.append; split <;> rfl
theorem append_files_ne {fs : FS} {p q : Path} {c} (h : q ≠ p) : (fs.append p c).files q = fs.files q := by
  unfold FS.append; split
  · exact setFile_files_ne h
  · rfl
theorem append_some {fs : FS} {p : Path} {c old} (h : fs.files p = some old) :
    fs.append p c = fs.setFile p (some (old ++ [c])) := by
  unfold FS.append; rw [h]
@[simp] theorem release_files {fs : FS} {me l} : (fs.release me l).files = fs.files := by
  unfold FS.release; split <;> rfl
theorem release_locks_ne {fs : FS} {me} {l l' : LockId} (h : l ≠ l') : (fs.release me l').locks l = fs.locks l := by
  unfold FS.release; split
  · exact setLock_locks_ne h
  · rfl
theorem release_held {fs : FS} {me} {l : LockId} (h : fs.locks l = some me) : fs.release me l = fs.setLock l none := by
  unfold FS.release; rw [if_pos h]

theorem bracket_step {L me fs pr e fs' p'} (hB : Bracket L pr.prog) (hl : fs.locks L = some me)
    (hst : step1 me fs pr = some (e, fs', p')) :
    (Bracket L p'.prog ∧ fs'.locks L = some me) ∨ (p'.prog = .done ∧ fs'.locks L = none) := by
  obtain ⟨prog, obs⟩ := pr
  simp only at hB
  cases hB <;> simp only [step1] at hst
  case last =>
    cases hst
    right
    simp [release_held hl, setLock_locks_same]
  case mkdirAll p k hk =>
    cases hst; left; exact ⟨hk, by simp [hl]⟩
  case lock l' k hne hk =>
    split at hst
    · cases hst; left; exact ⟨hk, by rw [setLock_locks_ne (Ne.symm hne)]; exact hl⟩
    · cases hst
  case tryLock l' a b hne ha hb =>
    split at hst <;> cases hst
    · left; exact ⟨ha, by rw [setLock_locks_ne (Ne.symm hne)]; exact hl⟩
    · left; exact ⟨hb, hl⟩
  case unlock l' k hne hk =>
    cases hst; left; exact ⟨hk, by rw [release_locks_ne (Ne.symm hne)]; exact hl⟩
  case openTrunc p k hk => cases hst; left; exact ⟨hk, hl⟩
  case writeChunk p c k hk =>
    cases hst; left; exact ⟨hk, by simp [hl]⟩
  case renameTmp p c k hk => cases hst; left; exact ⟨hk, hl⟩
  case read p k hk => cases hst; left; exact ⟨hk, hl⟩
  case unlink p k hk => cases hst; left; exact ⟨hk, hl⟩
  case ifExists p a b ha hb =>
    cases hst; left; refine ⟨?_, hl⟩
    simp only
    split
    · exact ha
    · exact hb

theorem bracket_ne_done {L} : ¬ Bracket L .done := by intro h; cases h

/-- Where a lock-bracketed command `lock L k` started at `fsS` is. -/
def Phase (L : LockId) (me : Pid) (k : Prog) (fsS fs : FS) (pr : Proc) : Prop :=
  SoloStar me (fsS, ⟨.lock L k, []⟩) (fs, pr) ∧
  ((pr = ⟨.lock L k, []⟩ ∧ fs = fsS) ∨ (Bracket L pr.prog ∧ fs.locks L = some me) ∨
   (pr.prog = .done ∧ fs.locks L = none))

theorem enter_step {L me fs k o e fs' p'} (hst : step1 me fs ⟨.lock L k, o⟩ = some (e, fs', p')) :
    fs.locks L = none ∧ fs' = fs.setLock L (some me) ∧ p' = ⟨k, o⟩ := by
  simp only [step1] at hst
  split at hst
  · rename_i h; cases hst; exact ⟨h, rfl, rfl⟩
  · cases hst

theorem phase_start {L me k fsS} : Phase L me k fsS fsS ⟨.lock L k, []⟩ :=
  ⟨SoloStar.refl _, Or.inl ⟨rfl, rfl⟩⟩

theorem phase_step {L me k fsS fs pr e fs' p'} (hk : Bracket L k) (hp : Phase L me k fsS fs pr)
    (hst : step1 me fs pr = some (e, fs', p')) : Phase L me k fsS fs' p' := by
  obtain ⟨hsolo, hc⟩ := hp
  have hsolo' : SoloStar me (fsS, ⟨.lock L k, []⟩) (fs', p') := SoloStar.tail hsolo hst
  rcases hc with ⟨rfl, rfl⟩ | ⟨hB, hl⟩ | ⟨hd, _⟩
  · obtain ⟨_, rfl, rfl⟩ := enter_step hst
    exact ⟨hsolo', Or.inr (Or.inl ⟨hk, setLock_locks_same⟩)⟩
  · exact ⟨hsolo', Or.inr (bracket_step hB hl hst)⟩
  · rw [done_no_step (x := (fs, pr)) hd] at hst; cases hst

/-- `x` runs first, `y` second. -/
def Ord (L : LockId) (x y : Pid) (kX kY : Prog) (fs0 : FS) (s : Sys) : Prop :=
  (s.procs y = ⟨.lock L kY, []⟩ ∧ Phase L x kX fs0 s.fs (s.procs x)) ∨
  (∃ fsm, (s.procs x).prog = .done ∧ SoloStar x (fs0, ⟨.lock L kX, []⟩) (fsm, s.procs x) ∧
          fsm.locks L = none ∧ Phase L y kY fsm s.fs (s.procs y))

theorem ord_step {L x y kX kY fs0 s i e s'} (hxy : x ≠ y) (hX : Bracket L kX) (hY : Bracket L kY)
    (h0 : fs0.locks L = none) (hidle : ∀ j, j ≠ x → j ≠ y → s.procs j = Proc.idle)
    (ho : Ord L x y kX kY fs0 s) (hs : Step s i e s') :
    Ord L x y kX kY fs0 s' ∨ Ord L y x kY kX fs0 s' := by
  obtain ⟨fs', p', hst, rfl⟩ := hs.inv
  by_cases hix : i = x
  · subst hix
    rcases ho with ⟨hy, hp⟩ | ⟨fsm, hd, _, _, _⟩
    · left; left
      exact ⟨by simp [upd, Ne.symm hxy, hy], by simpa using phase_step hX hp hst⟩
    · rw [done_no_step (x := (s.fs, s.procs i)) hd] at hst; cases hst
  · by_cases hiy : i = y
    · subst hiy
      rcases ho with ⟨hy, hsolo, hc⟩ | ⟨fsm, hd, hsolo, hfree, hp⟩
      · rw [hy] at hst
        obtain ⟨hl, rfl, rfl⟩ := enter_step hst
        rcases hc with ⟨hx0, hfs⟩ | ⟨_, hlx⟩ | ⟨hd, _⟩
        · -- x has not started: y goes first
          right; left
          refine ⟨by simp [upd, hxy, hx0], ?_⟩
          simp only [upd_same]
          rw [hfs]
          refine ⟨SoloStar.head (e := .lock L) (fs' := fs0.setLock L (some i)) (p' := ⟨kY, []⟩) ?_ (SoloStar.refl _),
                  Or.inr (Or.inl ⟨hY, setLock_locks_same⟩)⟩
          simp [step1, h0]
        · rw [hlx] at hl; cases hl
        · -- x is finished: y second
          left; right
          refine ⟨s.fs, by simp [upd, hxy, hd], by simpa [upd, hxy] using hsolo, hl, ?_⟩
          simp only [upd_same]
          refine ⟨SoloStar.head (e := .lock L) (fs' := s.fs.setLock L (some i)) (p' := ⟨kY, []⟩) ?_ (SoloStar.refl _),
                  Or.inr (Or.inl ⟨hY, setLock_locks_same⟩)⟩
          simp [step1, hl]
      · left; right
        exact ⟨fsm, by simp [upd, hxy, hd], by simpa [upd, hxy] using hsolo, hfree,
               by simpa using phase_step hY hp hst⟩
    · rw [hidle i hix hiy, step1_idle] at hst; cases hst

/-! ## Dependency checkout (lock, then test) -/

/-- No checkout in progress: the checkout's `Veryl.toml` is absent, or the checkout is complete. -/
def Quiet (dp tf : Path) (cs : Content) (fs : FS) : Prop :=
  fs.files tf = none ∨ (fs.files tf = some cs ∧ (fs.files dp).isSome)

/-- Program points of `depCheckout` with what is known there. -/
inductive DepPt (dd dp tf : Path) (cs : Content) (me : Pid) (fs : FS) : Proc → Prop where
  | idle : DepPt dd dp tf cs me fs ⟨.done, []⟩
  | start : DepPt dd dp tf cs me fs ⟨depCheckout dd dp tf cs, []⟩
  | waiting : DepPt dd dp tf cs me fs ⟨.lock .deps
      (.ifExists dp (.ifExists tf (.unlock .deps (.read tf .done)) (cloneBody tf cs))
        (.mkdirAll dp (cloneBody tf cs))), []⟩
  | locked : fs.locks .deps = some me → Quiet dp tf cs fs → DepPt dd dp tf cs me fs
      ⟨.ifExists dp (.ifExists tf (.unlock .deps (.read tf .done)) (cloneBody tf cs))
        (.mkdirAll dp (cloneBody tf cs)), []⟩
  | present : fs.locks .deps = some me → Quiet dp tf cs fs → (fs.files dp).isSome →
      DepPt dd dp tf cs me fs ⟨.ifExists tf (.unlock .deps (.read tf .done)) (cloneBody tf cs), []⟩
  | absent : fs.locks .deps = some me → fs.files dp = none → fs.files tf = none →
      DepPt dd dp tf cs me fs ⟨.mkdirAll dp (cloneBody tf cs), []⟩
  | clone : fs.locks .deps = some me → (fs.files dp).isSome → fs.files tf = none →
      DepPt dd dp tf cs me fs ⟨cloneBody tf cs, []⟩
  | writing (pre suf : Content) : cs = pre ++ suf → fs.locks .deps = some me → (fs.files dp).isSome →
      fs.files tf = some pre →
      DepPt dd dp tf cs me fs ⟨writeChunks tf suf (.unlock .deps (.read tf .done)), []⟩
  | reading : fs.files tf = some cs → DepPt dd dp tf cs me fs ⟨.read tf .done, []⟩
  | finished : DepPt dd dp tf cs me fs ⟨.done, [(tf, some cs)]⟩

theorem depPt_congr {dd dp tf cs me fs fs' pr} (h : DepPt dd dp tf cs me fs pr)
    (h1 : fs'.files dp = fs.files dp) (h2 : fs'.files tf = fs.files tf)
    (h3 : fs'.locks .deps = fs.locks .deps) : DepPt dd dp tf cs me fs' pr := by
  cases h
  case idle => exact .idle
  case start => exact .start
  case waiting => exact .waiting
  case locked a b => exact .locked (h3 ▸ a) (by unfold Quiet at *; rw [h1, h2]; exact b)
  case present a b c => exact .present (h3 ▸ a) (by unfold Quiet at *; rw [h1, h2]; exact b) (h1 ▸ c)
  case absent a b c => exact .absent (h3 ▸ a) (h1 ▸ b) (h2 ▸ c)
  case clone a b c => exact .clone (h3 ▸ a) (h1 ▸ b) (h2 ▸ c)
  case writing pre suf e a b c => exact .writing pre suf e (h3 ▸ a) (h1 ▸ b) (h2 ▸ c)
  case reading a => exact .reading (h2 ▸ a)
  case finished => exact .finished

/-- A process that does not hold the lock is at an outside point; it only cares that a complete
    `Veryl.toml` stays complete. -/
theorem depPt_other {dd dp tf cs me fs fs' pr} (h : DepPt dd dp tf cs me fs pr)
    (hl : fs.locks .deps ≠ some me) (hf : fs.files tf = some cs → fs'.files tf = some cs) :
    DepPt dd dp tf cs me fs' pr := by
  cases h
  case idle => exact .idle
  case start => exact .start
  case waiting => exact .waiting
  case reading a => exact .reading (hf a)
  case finished => exact .finished
  all_goals contradiction

theorem quiet_congr {dp tf cs} {fs fs' : FS} (h : Quiet dp tf cs fs) (h1 : fs'.files dp = fs.files dp)
    (h2 : fs'.files tf = fs.files tf) : Quiet dp tf cs fs' := by
  unfold Quiet at *; rw [h1, h2]; exact h

theorem dep_step {dd dp tf : Path} {cs : Content} (h1 : dd ≠ dp) (h2 : dd ≠ tf) (h3 : dp ≠ tf)
    {s : Sys} {i : Pid} {e : Ev} {s' : Sys}
    (hI : ∀ j, DepPt dd dp tf cs j s.fs (s.procs j))
    (hQ : s.fs.locks .deps = none → Quiet dp tf cs s.fs) (hs : Step s i e s') :
    (∀ j, DepPt dd dp tf cs j s'.fs (s'.procs j)) ∧ (s'.fs.locks .deps = none → Quiet dp tf cs s'.fs) := by
  obtain ⟨fs', p', hst, rfl⟩ := hs.inv
  -- it suffices to give the new point of `i`, the frame for the others, and the global part
  suffices h : DepPt dd dp tf cs i fs' p' ∧ (∀ j, j ≠ i → DepPt dd dp tf cs j fs' (s.procs j)) ∧
      (fs'.locks .deps = none → Quiet dp tf cs fs') by
    refine ⟨fun j => ?_, h.2.2⟩
    by_cases hj : j = i
    · subst hj; simpa using h.1
    · simpa [upd, hj] using h.2.1 j hj
  have hi := hI i
  generalize hpr : s.procs i = pr at hi hst
  -- others, when `i` holds the lock
  have others_locked : fs'.locks = s.fs.locks ∨ True → s.fs.locks .deps = some i →
      (s.fs.files tf = some cs → fs'.files tf = some cs) →
      ∀ j, j ≠ i → DepPt dd dp tf cs j fs' (s.procs j) := by
    intro _ hl hf j hj
    refine depPt_other (hI j) ?_ hf
    rw [hl]; intro h; cases h; exact hj rfl
  cases hi
  case idle => simp [step1] at hst
  case finished => simp [step1] at hst
  case start =>
    simp only [step1, depCheckout] at hst
    cases hst
    refine ⟨.waiting, fun j _ => depPt_congr (hI j) (mkdir_files_ne (Ne.symm h1)) (mkdir_files_ne (Ne.symm h2)) (by simp), ?_⟩
    intro hl; rw [mkdir_locks] at hl
    exact quiet_congr (hQ hl) (mkdir_files_ne (Ne.symm h1)) (mkdir_files_ne (Ne.symm h2))
  case waiting =>
    obtain ⟨hl, rfl, rfl⟩ := enter_step hst
    refine ⟨.locked setLock_locks_same (hQ hl), fun j _ => depPt_other (hI j) (by rw [hl]; simp) (fun h => h), ?_⟩
    intro h; rw [setLock_locks_same] at h; cases h
  case locked hl hq =>
    simp only [step1] at hst
    cases hst
    refine ⟨?_, fun j _ => hI j, hQ⟩
    split
    · rename_i hd; exact .present hl hq hd
    · rename_i hd
      have hd' : s.fs.files dp = none := by simpa using hd
      refine .absent hl hd' ?_
      rcases hq with h | ⟨_, h⟩
      · exact h
      · rw [hd'] at h; cases h
  case present hl hq hd =>
    simp only [step1] at hst
    cases hst
    refine ⟨?_, fun j _ => hI j, hQ⟩
    split
    · rename_i ht
      rcases hq with h | ⟨h, _⟩
      · rw [h] at ht; cases ht
      · exact .writing cs [] (by simp) hl hd h
    · rename_i ht
      exact .clone hl hd (by simpa using ht)
  case absent hl hd ht =>
    simp only [step1, mkdir_files_none hd] at hst
    cases hst
    refine ⟨.clone hl (by rw [setFile_files_same]; rfl) (by rw [setFile_files_ne (Ne.symm h3)]; exact ht),
            others_locked (Or.inr trivial) hl (fun h => by rw [setFile_files_ne (Ne.symm h3)]; exact h), ?_⟩
    intro h; rw [setFile_locks, hl] at h; cases h
  case clone hl hd ht =>
    simp only [step1, cloneBody] at hst
    cases hst
    refine ⟨.writing [] cs (by simp) hl (by rw [setFile_files_ne h3]; exact hd) setFile_files_same,
            others_locked (Or.inr trivial) hl (fun h => by rw [ht] at h; cases h), ?_⟩
    intro h; rw [setFile_locks, hl] at h; cases h
  case writing pre suf hcs hl hd ht =>
    cases suf with
    | nil =>
      simp only [writeChunks, step1, release_held hl] at hst
      cases hst
      have hpre : pre = cs := by simpa using hcs.symm
      subst hpre
      refine ⟨.reading (by simpa using ht), fun j hj => depPt_other (hI j) (by rw [hl]; intro h; cases h; exact hj rfl) (fun h => h), ?_⟩
      intro _; exact Or.inr ⟨by simpa using ht, by simpa using hd⟩
    | cons c suf =>
      simp only [writeChunks, step1, append_some ht] at hst
      cases hst
      refine ⟨.writing (pre ++ [c]) suf (by simp [hcs]) hl (by rw [setFile_files_ne h3]; exact hd) setFile_files_same,
              others_locked (Or.inr trivial) hl ?_, ?_⟩
      · intro h; rw [ht] at h
        have : pre = pre ++ c :: suf := by rw [← hcs]; exact Option.some.inj h
        have := congrArg List.length this
        simp at this
      · intro h; rw [setFile_locks, hl] at h; cases h
  case reading ht =>
    simp only [step1] at hst
    cases hst
    refine ⟨?_, fun j _ => hI j, hQ⟩
    simp only [List.nil_append, ht]
    exact .finished

/-! ## Solo runs of the combinators -/

theorem upd_upd {α β : Type} [DecidableEq α] (f : α → β) (k : α) (v w : β) : upd (upd f k v) k w = upd f k w := by
  funext x; simp only [upd]; split <;> rfl

theorem upd_eq_self {α β : Type} [DecidableEq α] (f : α → β) (k : α) : upd f k (f k) = f := by
  funext x; simp only [upd]; split
  · rename_i h; rw [h]
  · rfl

/-- A solo run of process `i` is an interleaving in which only `i` moves. -/
theorem reach_solo {i : Pid} {x y : FS × Proc} (h : SoloStar i x y) :
    ∀ procs : Pid → Proc, procs i = x.2 → Reach ⟨x.1, procs⟩ ⟨y.1, upd procs i y.2⟩ := by
  induction h with
  | refl x =>
    intro procs hp
    rw [← hp, upd_eq_self]; exact Reach.refl _
  | head hst _ ih =>
    intro procs hp
    rename_i x z e fs' p' _
    have h1 : Step ⟨x.1, procs⟩ i e ⟨fs', upd procs i p'⟩ := Step.mk (by simpa [hp] using hst)
    have h2 := ih (upd procs i p') (by simp)
    rw [upd_upd] at h2
    exact Reach.trans (Reach.tail (Reach.refl _) h1) h2

theorem solo_readAll (me : Pid) (fs : FS) (k : Prog) :
    ∀ (ps : List Path) (o : List (Path × Option Content)),
      SoloStar me (fs, ⟨readAll ps k, o⟩) (fs, ⟨k, o ++ ps.map (fun p => (p, fs.files p))⟩)
  | [], o => by simpa [readAll] using SoloStar.refl _
  | p :: ps, o => by
    refine SoloStar.head (e := .read p (fs.files p)) (fs' := fs) (p' := ⟨readAll ps k, o ++ [(p, fs.files p)]⟩) rfl ?_
    have := solo_readAll me fs k ps (o ++ [(p, fs.files p)])
    simpa [List.append_assoc] using this

theorem setFile_setFile (fs : FS) (p : Path) (a b : Option Content) :
    (fs.setFile p a).setFile p b = fs.setFile p b := by
  simp only [FS.setFile, upd_upd]

theorem solo_writeChunks (me : Pid) (p : Path) (k : Prog) (o : List (Path × Option Content)) :
    ∀ (suf pre : Content) (fs : FS), fs.files p = some pre →
      SoloStar me (fs, ⟨writeChunks p suf k, o⟩) (fs.setFile p (some (pre ++ suf)), ⟨k, o⟩)
  | [], pre, fs, h => by
    have : fs.setFile p (some (pre ++ [])) = fs := by
      simp only [List.append_nil, FS.setFile, ← h, upd_eq_self]
    rw [this]; exact SoloStar.refl _
  | c :: suf, pre, fs, h => by
    refine SoloStar.head (e := .write p c) (fs' := fs.setFile p (some (pre ++ [c]))) (p' := ⟨writeChunks p suf k, o⟩) ?_ ?_
    · simp [writeChunks, step1, append_some h]
    · have := solo_writeChunks me p k o suf (pre ++ [c]) (fs.setFile p (some (pre ++ [c]))) setFile_files_same
      simpa [setFile_setFile, List.append_assoc] using this

theorem solo_plainWrite (me : Pid) (p : Path) (c : Content) (k : Prog) (o : List (Path × Option Content)) (fs : FS) :
    SoloStar me (fs, ⟨plainWrite p c k, o⟩) (fs.setFile p (some c), ⟨k, o⟩) := by
  refine SoloStar.head (e := .trunc p) (fs' := fs.setFile p (some [])) (p' := ⟨writeChunks p c k, o⟩) rfl ?_
  have := solo_writeChunks me p k o c [] (fs.setFile p (some [])) setFile_files_same
  simpa [setFile_setFile] using this

end VerylModel.FS
