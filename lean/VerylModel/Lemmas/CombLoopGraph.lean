import VerylModel.Core.CombLoop
/-!
Graph lemmas for C14: list-set operations, `closure`/`hasCycle` are a decision procedure for
"there is a closed path", and cycles transfer along graph quotients.
-/
namespace VerylModel.CombLoop

section Sets
variable {α : Type} [DecidableEq α]

theorem mem_union {A B : List α} {x : α} : x ∈ union A B ↔ x ∈ A ∨ x ∈ B := by
  unfold union
  simp only [List.mem_append, List.mem_filter, decide_eq_true_eq]
  constructor
  · rintro (h | ⟨h, _⟩)
    · exact Or.inl h
    · exact Or.inr h
  · rintro (h | h)
    · exact Or.inl h
    · by_cases hx : x ∈ A
      · exact Or.inl hx
      · exact Or.inr ⟨h, hx⟩

theorem mem_unions {ls : List (List α)} {x : α} : x ∈ unions ls ↔ ∃ l ∈ ls, x ∈ l := by
  induction ls with
  | nil => simp [unions]
  | cons l ls ih =>
    simp only [unions, mem_union, ih, List.mem_cons]
    constructor
    · rintro (h | ⟨l', h1, h2⟩)
      · exact ⟨l, Or.inl rfl, h⟩
      · exact ⟨l', Or.inr h1, h2⟩
    · rintro ⟨l', h1 | h1, h2⟩
      · subst h1; exact Or.inl h2
      · exact Or.inr ⟨l', h1, h2⟩

theorem mem_addNew {S xs : List α} {y : α} : y ∈ addNew S xs ↔ y ∈ S ∨ y ∈ xs := by
  induction xs generalizing S with
  | nil => simp [addNew]
  | cons x xs ih =>
    unfold addNew
    split
    · rename_i hx
      rw [ih]
      constructor
      · rintro (h | h)
        · exact Or.inl h
        · exact Or.inr (List.mem_cons_of_mem _ h)
      · rintro (h | h)
        · exact Or.inl h
        · rcases List.mem_cons.1 h with h | h
          · subst h; exact Or.inl hx
          · exact Or.inr h
    · rw [ih]
      simp only [List.mem_cons]
      constructor
      · rintro ((h | h) | h)
        · exact Or.inr (Or.inl h)
        · exact Or.inl h
        · exact Or.inr (Or.inr h)
      · rintro (h | h | h)
        · exact Or.inl (Or.inr h)
        · exact Or.inl (Or.inl h)
        · exact Or.inr h

theorem nodup_addNew {S xs : List α} (h : S.Nodup) : (addNew S xs).Nodup := by
  induction xs generalizing S with
  | nil => simpa [addNew] using h
  | cons x xs ih =>
    unfold addNew
    split
    · exact ih h
    · rename_i hx
      exact ih (List.nodup_cons.2 ⟨hx, h⟩)

theorem length_addNew_ge {S xs : List α} : S.length ≤ (addNew S xs).length := by
  induction xs generalizing S with
  | nil => simp [addNew]
  | cons x xs ih =>
    unfold addNew
    split
    · exact ih
    · exact Nat.le_trans (by simp) (ih (S := x :: S))

theorem subset_of_length_addNew {S xs : List α} (h : (addNew S xs).length = S.length) :
    ∀ x ∈ xs, x ∈ S := by
  induction xs generalizing S with
  | nil => simp
  | cons x xs ih =>
    unfold addNew at h
    split at h
    · rename_i hx
      intro y hy
      rcases List.mem_cons.1 hy with hy | hy
      · subst hy; exact hx
      · exact ih h y hy
    · have := length_addNew_ge (S := x :: S) (xs := xs)
      simp at this
      omega

end Sets

section Paths
variable {α : Type}

/-- A path with at least one edge. -/
inductive Path (g : Graph α) : α → α → Prop
  | single {a b} : (a, b) ∈ g → Path g a b
  | cons {a b c} : (a, b) ∈ g → Path g b c → Path g a c

/-- A closed path: what the SCC pass reports (component of size > 1, or a self edge). -/
def HasCycle (g : Graph α) : Prop := ∃ a, Path g a a

theorem Path.trans {g : Graph α} {a b c : α} (h1 : Path g a b) (h2 : Path g b c) : Path g a c := by
  induction h1 with
  | single e => exact .cons e h2
  | cons e _ ih => exact .cons e (ih h2)

theorem Path.snoc {g : Graph α} {a b c : α} (h1 : Path g a b) (e : (b, c) ∈ g) : Path g a c :=
  h1.trans (.single e)

theorem Path.mono {g g' : Graph α} (hs : ∀ e, e ∈ g → e ∈ g') {a b : α} (h : Path g a b) :
    Path g' a b := by
  induction h with
  | single e => exact .single (hs _ e)
  | cons e _ ih => exact .cons (hs _ e) ih

theorem Path.src_mem {g : Graph α} {a b : α} (h : Path g a b) : ∃ c, (a, c) ∈ g := by
  cases h with
  | single e => exact ⟨_, e⟩
  | cons e _ => exact ⟨_, e⟩

theorem Path.dst_mem {g : Graph α} {a b : α} (h : Path g a b) : ∃ c, (c, b) ∈ g := by
  induction h with
  | single e => exact ⟨_, e⟩
  | cons _ _ ih => exact ih

theorem HasCycle.mono {g g' : Graph α} (hs : ∀ e, e ∈ g → e ∈ g') : HasCycle g → HasCycle g' :=
  fun ⟨a, h⟩ => ⟨a, h.mono hs⟩

/-- Edge-preserving maps preserve paths. -/
theorem Path.map {β : Type} {g : Graph α} {q : Graph β} (f : α → β)
    (hom : ∀ a b, (a, b) ∈ g → (f a, f b) ∈ q) {a b : α} (h : Path g a b) : Path q (f a) (f b) := by
  induction h with
  | single e => exact .single (hom _ _ e)
  | cons e _ ih => exact .cons (hom _ _ e) ih

theorem HasCycle.map {β : Type} {g : Graph α} {q : Graph β} (f : α → β)
    (hom : ∀ a b, (a, b) ∈ g → (f a, f b) ∈ q) : HasCycle g → HasCycle q :=
  fun ⟨a, h⟩ => ⟨f a, h.map f hom⟩

/-- If every edge of the quotient lifts to *all* pairs of preimages (the fibres are sets of graph
twins) and every target of a quotient edge has a preimage, paths lift. -/
theorem Path.lift {β : Type} {g : Graph α} {q : Graph β} (f : α → β)
    (lift : ∀ A B, (A, B) ∈ q → ∀ a b, f a = A → f b = B → (a, b) ∈ g)
    (surj : ∀ A B, (A, B) ∈ q → ∃ b, f b = B)
    {A B : β} (h : Path q A B) : ∀ a b, f a = A → f b = B → Path g a b := by
  induction h with
  | single e => exact fun a b ha hb => .single (lift _ _ e a b ha hb)
  | cons e _ ih =>
    intro a b ha hb
    obtain ⟨c, hc⟩ := surj _ _ e
    exact .cons (lift _ _ e a c ha hc) (ih c b hc hb)

theorem HasCycle.lift {β : Type} {g : Graph α} {q : Graph β} (f : α → β)
    (lift : ∀ A B, (A, B) ∈ q → ∀ a b, f a = A → f b = B → (a, b) ∈ g)
    (surj : ∀ A B, (A, B) ∈ q → ∃ b, f b = B) : HasCycle q → HasCycle g := by
  rintro ⟨A, h⟩
  obtain ⟨_, e⟩ := h.dst_mem
  obtain ⟨a, ha⟩ := surj _ _ e
  exact ⟨a, h.lift f lift surj a a ha ha⟩

end Paths

section Closure
variable {α : Type} [DecidableEq α]

theorem mem_succs {g : Graph α} {S : List α} {y : α} : y ∈ succs g S ↔ ∃ x ∈ S, (x, y) ∈ g := by
  unfold succs
  simp only [List.mem_map, List.mem_filter, decide_eq_true_eq]
  constructor
  · rintro ⟨⟨x, y'⟩, ⟨he, hx⟩, rfl⟩
    exact ⟨x, hx, he⟩
  · rintro ⟨x, hx, he⟩
    exact ⟨(x, y), ⟨he, hx⟩, rfl⟩

theorem closure_sound {g : Graph α} {n : Nat} {S : List α} {y : α} (h : y ∈ closure g n S) :
    y ∈ S ∨ ∃ x ∈ S, Path g x y := by
  induction n generalizing S with
  | zero => exact Or.inl h
  | succ n ih =>
    unfold closure at h
    simp only at h
    split at h
    · exact Or.inl h
    · rcases ih h with h | ⟨x, hx, hp⟩
      · rcases mem_addNew.1 h with h | h
        · exact Or.inl h
        · obtain ⟨x, hx, he⟩ := mem_succs.1 h
          exact Or.inr ⟨x, hx, .single he⟩
      · rcases mem_addNew.1 hx with hx | hx
        · exact Or.inr ⟨x, hx, hp⟩
        · obtain ⟨x', hx', he⟩ := mem_succs.1 hx
          exact Or.inr ⟨x', hx', .cons he hp⟩

/-- With enough fuel the result contains `S` and is closed under successors. -/
theorem closure_closed {g : Graph α} (U : List α) (hU : ∀ e ∈ g, e.2 ∈ U) {n : Nat} {S : List α}
    (hS : S.Nodup) (hSU : ∀ x ∈ S, x ∈ U) (hn : U.length < n + S.length) :
    (∀ x ∈ S, x ∈ closure g n S) ∧
    (∀ x ∈ closure g n S, ∀ y, (x, y) ∈ g → y ∈ closure g n S) := by
  induction n generalizing S with
  | zero =>
    have := List.Nodup.length_le_of_subset hS (fun x hx => hSU x hx)
    omega
  | succ n ih =>
    unfold closure
    simp only
    split
    · rename_i hlen
      refine ⟨fun x hx => hx, fun x hx y he => ?_⟩
      exact subset_of_length_addNew hlen y (mem_succs.2 ⟨x, hx, he⟩)
    · rename_i hlen
      have hge := length_addNew_ge (S := S) (xs := succs g S)
      have hS' : (addNew S (succs g S)).Nodup := nodup_addNew hS
      have hSU' : ∀ x ∈ addNew S (succs g S), x ∈ U := by
        intro x hx
        rcases mem_addNew.1 hx with hx | hx
        · exact hSU x hx
        · obtain ⟨x', _, he⟩ := mem_succs.1 hx
          exact hU _ he
      obtain ⟨h1, h2⟩ := ih hS' hSU' (by omega)
      exact ⟨fun x hx => h1 x (mem_addNew.2 (Or.inl hx)), h2⟩

theorem closure_complete {g : Graph α} (U : List α) (hU : ∀ e ∈ g, e.2 ∈ U) {n : Nat} {S : List α}
    (hS : S.Nodup) (hSU : ∀ x ∈ S, x ∈ U) (hn : U.length < n + S.length)
    {x y : α} (hx : x ∈ S) (hp : Path g x y) : y ∈ closure g n S := by
  obtain ⟨h1, h2⟩ := closure_closed U hU hS hSU hn
  have : ∀ x y, Path g x y → x ∈ closure g n S → y ∈ closure g n S := by
    intro x y hp
    induction hp with
    | single e => exact fun hx => h2 _ hx _ e
    | cons e _ ih => exact fun hx => ih (h2 _ hx _ e)
  exact this x y hp (h1 x hx)

/-- `closure` with the fuel used in the model computes exactly the nodes reachable from `S`. -/
theorem mem_closure {g : Graph α} {S : List α} (hS : S.Nodup) {y : α} :
    y ∈ closure g (g.length + 1) S ↔ y ∈ S ∨ ∃ x ∈ S, Path g x y := by
  have hU : ∀ e ∈ g, e.2 ∈ S ++ g.map (·.2) :=
    fun e he => List.mem_append.2 (Or.inr (List.mem_map.2 ⟨e, he, rfl⟩))
  have hSU : ∀ x ∈ S, x ∈ S ++ g.map (·.2) := fun x hx => List.mem_append.2 (Or.inl hx)
  have hn : (S ++ g.map (·.2)).length < (g.length + 1) + S.length := by
    simp; omega
  constructor
  · exact closure_sound
  · rintro (h | ⟨x, hx, hp⟩)
    · exact (closure_closed _ hU hS hSU hn).1 y h
    · exact closure_complete _ hU hS hSU hn hx hp

/-! ### `hasCycle` (peeling sinks) decides `HasCycle` -/

theorem mem_trim {g : Graph α} {e : α × α} : e ∈ trim g ↔ e ∈ g ∧ ∃ z, (e.2, z) ∈ g := by
  unfold trim
  simp only [List.mem_filter, decide_eq_true_eq, mem_addNew, List.mem_map]
  constructor
  · rintro ⟨he, h | ⟨e', he', h⟩⟩
    · cases h
    · refine ⟨he, e'.2, ?_⟩
      rw [← h]; exact he'
  · rintro ⟨he, z, hz⟩
    exact ⟨he, Or.inr ⟨(e.2, z), hz, rfl⟩⟩

theorem Path.trim {g : Graph α} {a b : α} (h : Path g a b) (hb : ∃ c, (b, c) ∈ g) :
    Path (trim g) a b := by
  induction h with
  | single e => exact .single (mem_trim.2 ⟨e, hb⟩)
  | cons e hp ih => exact .cons (mem_trim.2 ⟨e, hp.src_mem⟩) (ih hb)

theorem hasCycle_trim {g : Graph α} : HasCycle (trim g) ↔ HasCycle g :=
  ⟨HasCycle.mono (fun _ he => (mem_trim.1 he).1), fun ⟨a, h⟩ => ⟨a, h.trim h.src_mem⟩⟩

theorem hasCycle_trimLoop {g : Graph α} (n : Nat) : HasCycle (trimLoop n g) ↔ HasCycle g := by
  induction n generalizing g with
  | zero => exact Iff.rfl
  | succ n ih =>
    unfold trimLoop
    simp only
    split
    · exact Iff.rfl
    · exact ih.trans hasCycle_trim

/-- With enough fuel the loop ends in a graph without sinks among its edge targets. -/
theorem trimLoop_fixed {g : Graph α} {n : Nat} (hn : g.length < n) :
    ∀ e ∈ trimLoop n g, ∃ z, (e.2, z) ∈ trimLoop n g := by
  induction n generalizing g with
  | zero => omega
  | succ n ih =>
    unfold trimLoop
    simp only
    split
    · rename_i hlen
      intro e he
      have hall := List.length_filter_eq_length_iff.1 hlen
      have : e ∈ VerylModel.CombLoop.trim g := by
        unfold VerylModel.CombLoop.trim
        exact List.mem_filter.2 ⟨he, hall e he⟩
      exact (mem_trim.1 this).2
    · rename_i hlen
      have hle : (VerylModel.CombLoop.trim g).length ≤ g.length := List.length_filter_le _ _
      exact ih (by omega)

/-- A non-empty finite graph in which every edge can be continued has a closed path. -/
theorem hasCycle_of_no_sink {g : Graph α} (hne : g ≠ [])
    (hs : ∀ e ∈ g, ∃ z, (e.2, z) ∈ g) : HasCycle g := by
  -- walk: every visited node has a path to the current node; a repeat closes a cycle
  have walk : ∀ (n : Nat) (visited : List α) (a : α), visited.Nodup →
      (∀ v ∈ visited, v ∈ g.map (·.1)) → (∃ z, (a, z) ∈ g) →
      (∀ v ∈ visited, Path g v a) → (g.map (·.1)).length < n + visited.length → HasCycle g := by
    intro n
    induction n with
    | zero =>
      intro visited a hnd hsub _ _ hlen
      have := List.Nodup.length_le_of_subset hnd (fun x hx => hsub x hx)
      omega
    | succ n ih =>
      intro visited a hnd hsub ⟨z, hz⟩ hpath hlen
      by_cases hav : a ∈ visited
      · exact ⟨a, hpath a hav⟩
      · refine ih (a :: visited) z (List.nodup_cons.2 ⟨hav, hnd⟩) ?_ (hs _ hz) ?_ (by simp only [List.length_cons]; omega)
        · intro v hv
          rcases List.mem_cons.1 hv with rfl | hv
          · exact List.mem_map.2 ⟨(v, z), hz, rfl⟩
          · exact hsub v hv
        · intro v hv
          rcases List.mem_cons.1 hv with rfl | hv
          · exact .single hz
          · exact (hpath v hv).snoc hz
  cases g with
  | nil => exact absurd rfl hne
  | cons e g' =>
    obtain ⟨z, hz⟩ := hs e (List.mem_cons_self ..)
    exact walk ((List.map (·.1) (e :: g')).length + 1) [] e.2 List.nodup_nil (by simp) ⟨z, hz⟩
      (by simp) (by simp)

/-- `hasCycle` decides `HasCycle`. -/
theorem hasCycle_iff {g : Graph α} : hasCycle g = true ↔ HasCycle g := by
  unfold hasCycle
  rw [← hasCycle_trimLoop (g.length + 1)]
  constructor
  · intro h
    apply hasCycle_of_no_sink
    · intro h0; rw [h0] at h; simp at h
    · exact trimLoop_fixed (by omega)
  · rintro ⟨a, hp⟩
    obtain ⟨c, hc⟩ := hp.src_mem
    cases h0 : trimLoop (g.length + 1) g with
    | nil => rw [h0] at hc; cases hc
    | cons _ _ => simp

instance {g : Graph α} : Decidable (HasCycle g) := decidable_of_iff _ hasCycle_iff

theorem hasCycle_congr {β : Type} [DecidableEq β] {g : Graph α} {q : Graph β}
    (h : HasCycle g ↔ HasCycle q) : hasCycle g = hasCycle q := by
  rw [Bool.eq_iff_iff, hasCycle_iff, hasCycle_iff]
  exact h

end Closure

end VerylModel.CombLoop
