/-
C21 — lemmas about `Core/Npn.lean`: bit-level meaning of the truth-table loops, the generic
"fold keeping the first strict minimum" lemma, and the fold form of `npnCanonical`.
-/
import VerylModel.Core.Npn

namespace VerylModel.Lemmas.Npn
open VerylModel.Core.Npn VerylModel.Gen.Npn

theorem testBit_and_one (x k : Nat) : (x &&& 1).testBit k = (decide (k = 0) && x.testBit 0) := by
  rw [Nat.testBit_and]
  cases k with
  | zero => simp
  | succ k => 
    have : Nat.testBit 1 (k+1) = false := by
      apply Nat.testBit_lt_two_pow
      exact Nat.one_lt_two_pow (by omega)
    simp [this]

theorem testBit_packBits (f : Nat → Nat) (n j : Nat) :
    (packBits f n).testBit j = (decide (j < n) && (f j).testBit 0) := by
  unfold packBits
  induction n with
  | zero => simp
  | succ n ih =>
    rw [List.range_succ, List.foldl_append]
    simp only [List.foldl_cons, List.foldl_nil]
    rw [Nat.testBit_or, ih, Nat.testBit_shiftLeft, testBit_and_one]
    by_cases h1 : j < n
    · have : ¬ j ≥ n := by omega
      have h3 : j < n + 1 := by omega
      simp [h1, this, h3]
    · by_cases h2 : j = n
      · subst h2; simp
      · have : ¬ j < n + 1 := by omega
        have h4 : j - n ≠ 0 := by omega
        simp [h1, this, h4]

theorem packBits_lt (f : Nat → Nat) (n : Nat) : packBits f n < 2 ^ n := by
  apply Nat.lt_pow_two_of_testBit
  intro i hi
  rw [testBit_packBits]
  have : ¬ i < n := by omega
  simp [this]

theorem packBits16_mod (f : Nat → Nat) : packBits f 16 % 65536 = packBits f 16 :=
  Nat.mod_eq_of_lt (packBits_lt f 16)

theorem testBit_permTt (tt : Nat) (perm : List Nat) (m : Nat) :
    (permTt tt perm).testBit m = (decide (m < 16) && tt.testBit (permIndex perm m)) := by
  unfold permTt permTtBound
  rw [packBits16_mod, testBit_packBits, Nat.testBit_shiftRight]
  simp

theorem testBit_flipInputs (tt mask m : Nat) :
    (flipInputs tt mask).testBit m = (decide (m < 16) && tt.testBit (m ^^^ (mask &&& 15))) := by
  unfold flipInputs flipBound flipMask
  simp only []
  rw [packBits16_mod, testBit_packBits, Nat.testBit_shiftRight]
  simp

theorem permTt_lt (tt : Nat) (perm : List Nat) : permTt tt perm < 65536 := by
  unfold permTt; exact Nat.mod_lt _ (by decide)

theorem flipInputs_lt (tt mask : Nat) : flipInputs tt mask < 65536 := by
  unfold flipInputs; exact Nat.mod_lt _ (by decide)

theorem not16_lt {t : Nat} (h : t < 65536) : not16 t < 65536 := by
  unfold not16
  exact Nat.xor_lt_two_pow (n := 16) h (by decide)

theorem testBit_not16 (t m : Nat) : (not16 t).testBit m = (t.testBit m ^^ decide (m < 16)) := by
  unfold not16
  rw [Nat.testBit_xor]
  have : (65535 : Nat) = 2 ^ 16 - 1 := by decide
  rw [this, Nat.testBit_two_pow_sub_one]

theorem apply_lt (t : Transform) (tt : Nat) : t.apply tt < 65536 := by
  unfold Transform.apply
  simp only []
  split
  · exact not16_lt (flipInputs_lt _ _)
  · exact flipInputs_lt _ _

theorem xor_and15_lt {m : Nat} (h : m < 16) (k : Nat) : m ^^^ (k &&& 15) < 16 := by
  have h2 : k &&& 15 < 16 := by
    have := @Nat.and_le_right k 15
    omega
  exact Nat.xor_lt_two_pow (n := 4) h h2

/-- Pointwise meaning of a transform. -/
theorem testBit_apply (t : Transform) (tt : Nat) {m : Nat} (hm : m < 16) :
    (t.apply tt).testBit m = (tt.testBit (permIndex t.perm (m ^^^ (t.inNeg &&& 15))) ^^ t.outNeg) := by
  have hx := xor_and15_lt hm t.inNeg
  unfold Transform.apply
  simp only []
  split
  · rename_i h
    rw [testBit_not16, testBit_flipInputs, testBit_permTt]
    simp [hm, hx, h]
  · rename_i h
    rw [testBit_flipInputs, testBit_permTt]
    simp [hm, hx, h]

/-- One step of a "keep the first strict minimum" loop. -/
def minStep {α : Type} (g : α → Nat) (acc : Nat × α) (x : α) : Nat × α :=
  if g x < acc.1 then (g x, x) else acc

theorem foldl_minStep_spec {α : Type} (g : α → Nat) (l : List α) (init : Nat × α) :
    (l.foldl (minStep g) init).1 ≤ init.1 ∧
    (∀ x ∈ l, (l.foldl (minStep g) init).1 ≤ g x) ∧
    (l.foldl (minStep g) init = init ∨
      ((l.foldl (minStep g) init).2 ∈ l ∧ (l.foldl (minStep g) init).1 = g (l.foldl (minStep g) init).2)) := by
  induction l generalizing init with
  | nil => simp
  | cons a l ih =>
    simp only [List.foldl_cons]
    have h := ih (minStep g init a)
    obtain ⟨h1, h2, h3⟩ := h
    have hs : (minStep g init a).1 ≤ init.1 ∧ (minStep g init a).1 ≤ g a := by
      unfold minStep; split <;> simp <;> omega
    refine ⟨by omega, ?_, ?_⟩
    · intro x hx
      rcases List.mem_cons.mp hx with rfl | hx
      · omega
      · exact h2 x hx
    · rcases h3 with h3 | ⟨h3, h4⟩
      · rw [h3]
        unfold minStep
        split
        · right; simp
        · left; rfl
      · right; exact ⟨List.mem_cons_of_mem _ h3, h4⟩

theorem canonInner_eq (tt : Nat) (perm : List Nat) (acc : Nat × Transform) (n : Nat) :
    canonInner (permTt tt perm) perm acc n
      = [(⟨perm, n, false⟩ : Transform), ⟨perm, n, true⟩].foldl (minStep (fun t => t.apply tt)) acc := by
  simp [canonInner, minStep, Transform.apply]

theorem canonOuter_eq (tt : Nat) (acc : Nat × Transform) (perm : List Nat) (ns : List Nat) :
    ns.foldl (canonInner (permTt tt perm) perm) acc
      = (ns.flatMap fun n => [(⟨perm, n, false⟩ : Transform), ⟨perm, n, true⟩]).foldl (minStep (fun t => t.apply tt)) acc := by
  rw [List.foldl_flatMap]
  have h : canonInner (permTt tt perm) perm = fun acc n => [(⟨perm, n, false⟩ : Transform), ⟨perm, n, true⟩].foldl (minStep (fun t => t.apply tt)) acc := by
    funext acc n
    exact canonInner_eq tt perm acc n
  rw [h]

theorem canonFold_eq (tt : Nat) (ps : List (List Nat)) (ns : List Nat) (acc : Nat × Transform) :
    ps.foldl (fun acc perm => ns.foldl (canonInner (permTt tt perm) perm) acc) acc
      = (ps.flatMap fun p => ns.flatMap fun n => [(⟨p, n, false⟩ : Transform), ⟨p, n, true⟩]).foldl
          (minStep (fun t => t.apply tt)) acc := by
  rw [List.foldl_flatMap]
  have h : (fun acc perm => ns.foldl (canonInner (permTt tt perm) perm) acc) = fun (acc : Nat × Transform) p => (ns.flatMap fun n => [(⟨p, n, false⟩ : Transform), ⟨p, n, true⟩]).foldl (minStep (fun t => t.apply tt)) acc := by
    funext acc perm
    exact canonOuter_eq tt acc perm ns
  rw [h]

theorem npnCanonical_eq_foldl (tt : Nat) :
    npnCanonical tt = all768.foldl (minStep (fun t => t.apply tt)) (tt, Transform.identity) := by
  unfold npnCanonical all768
  exact canonFold_eq tt allPerms (List.range inNegBound) _

/-! ### Finite facts about the generated permutation table (`decide +kernel` on Boolean checks) -/

/-- `r[i] = p[q[i]]`: the permutation with `permIndex r = permIndex p ∘ permIndex q`. -/
def permComp (p q : List Nat) : List Nat := q.map fun k => p.getD k 0

theorem perms_sound_chk : (allPerms.all fun p => p.length == 4 && p.all (· < 4) && decide p.Nodup) = true := by
  decide +kernel

theorem perms_complete_chk : ((List.range 4).all fun a => (List.range 4).all fun b => (List.range 4).all fun c =>
    (List.range 4).all fun d => !(decide [a, b, c, d].Nodup) || allPerms.contains [a, b, c, d]) = true := by
  decide +kernel

theorem permIndex_chk : (allPerms.all fun p => (List.range 16).all fun m =>
    decide (permIndex p m < 16) && (List.range 4).all fun j =>
      (permIndex p m).testBit j == m.testBit ((permInv p).getD j 0)) = true := by decide +kernel

theorem permInv_chk : (allPerms.all fun p => allPerms.contains (permInv p) && (permInv (permInv p) == p) &&
    (permComp p (permInv p) == identityPerm) && (List.range 4).all fun j =>
      decide ((permInv p).getD j 0 < 4)) = true := by decide +kernel

theorem permInv_right_chk : (allPerms.all fun p => (List.range 4).all fun j =>
    p.getD ((permInv p).getD j 0) 0 == j) = true := by decide +kernel

theorem permComp_mem_chk : (allPerms.all fun p => allPerms.all fun q => allPerms.contains (permComp p q)) = true := by
  decide +kernel

theorem permComp_inv_chk : (allPerms.all fun p => allPerms.all fun q =>
    (permInv (permComp p q) == permComp (permInv q) (permInv p))) = true := by decide +kernel

theorem perms_sound : ∀ p ∈ allPerms, p.length = 4 ∧ (∀ x ∈ p, x < 4) ∧ p.Nodup := by
  intro p hp
  have h := perms_sound_chk
  simp only [List.all_eq_true, Bool.and_eq_true, beq_iff_eq, decide_eq_true_eq] at h
  obtain ⟨⟨h1, h2⟩, h3⟩ := h p hp
  exact ⟨h1, h2, h3⟩

theorem perms_complete4 {a b c d : Nat} (ha : a < 4) (hb : b < 4) (hc : c < 4) (hd : d < 4)
    (hn : [a, b, c, d].Nodup) : [a, b, c, d] ∈ allPerms := by
  have h := perms_complete_chk
  simp only [List.all_eq_true, List.mem_range, Bool.or_eq_true, Bool.not_eq_true', decide_eq_false_iff_not,
    List.contains_iff_mem] at h
  rcases h a ha b hb c hc d hd with h | h
  · exact absurd hn h
  · exact h

theorem permIndex_lt {p : List Nat} (hp : p ∈ allPerms) {m : Nat} (hm : m < 16) : permIndex p m < 16 := by
  have h := permIndex_chk
  simp only [List.all_eq_true, List.mem_range, Bool.and_eq_true, decide_eq_true_eq, beq_iff_eq] at h
  exact (h p hp m hm).1

theorem permIndex_bit {p : List Nat} (hp : p ∈ allPerms) {m : Nat} (hm : m < 16) {j : Nat} (hj : j < 4) :
    (permIndex p m).testBit j = m.testBit ((permInv p).getD j 0) := by
  have h := permIndex_chk
  simp only [List.all_eq_true, List.mem_range, Bool.and_eq_true, decide_eq_true_eq, beq_iff_eq] at h
  exact (h p hp m hm).2 j hj

theorem permInv_mem {p : List Nat} (hp : p ∈ allPerms) : permInv p ∈ allPerms := by
  have h := permInv_chk
  simp only [List.all_eq_true, List.mem_range, Bool.and_eq_true, decide_eq_true_eq, beq_iff_eq,
    List.contains_iff_mem] at h
  exact (h p hp).1.1.1

theorem permInv_permInv {p : List Nat} (hp : p ∈ allPerms) : permInv (permInv p) = p := by
  have h := permInv_chk
  simp only [List.all_eq_true, List.mem_range, Bool.and_eq_true, decide_eq_true_eq, beq_iff_eq,
    List.contains_iff_mem] at h
  exact (h p hp).1.1.2

theorem permComp_permInv {p : List Nat} (hp : p ∈ allPerms) : permComp p (permInv p) = identityPerm := by
  have h := permInv_chk
  simp only [List.all_eq_true, List.mem_range, Bool.and_eq_true, decide_eq_true_eq, beq_iff_eq,
    List.contains_iff_mem] at h
  exact (h p hp).1.2

theorem permInv_lt {p : List Nat} (hp : p ∈ allPerms) {j : Nat} (hj : j < 4) : (permInv p).getD j 0 < 4 := by
  have h := permInv_chk
  simp only [List.all_eq_true, List.mem_range, Bool.and_eq_true, decide_eq_true_eq, beq_iff_eq,
    List.contains_iff_mem] at h
  exact (h p hp).2 j hj

theorem perm_permInv {p : List Nat} (hp : p ∈ allPerms) {j : Nat} (hj : j < 4) :
    p.getD ((permInv p).getD j 0) 0 = j := by
  have h := permInv_right_chk
  simp only [List.all_eq_true, List.mem_range, beq_iff_eq] at h
  exact h p hp j hj

theorem permComp_mem {p q : List Nat} (hp : p ∈ allPerms) (hq : q ∈ allPerms) : permComp p q ∈ allPerms := by
  have h := permComp_mem_chk
  simp only [List.all_eq_true, List.contains_iff_mem] at h
  exact h p hp q hq

theorem permInv_permComp {p q : List Nat} (hp : p ∈ allPerms) (hq : q ∈ allPerms) :
    permInv (permComp p q) = permComp (permInv q) (permInv p) := by
  have h := permComp_inv_chk
  simp only [List.all_eq_true, beq_iff_eq] at h
  exact h p hp q hq

/-! ### The 768 transforms form a group acting on truth tables -/

theorem eq_of_testBit_lt {n : Nat} {a b : Nat} (ha : a < 2 ^ n) (hb : b < 2 ^ n)
    (h : ∀ j < n, a.testBit j = b.testBit j) : a = b := by
  apply Nat.eq_of_testBit_eq
  intro i
  by_cases hi : i < n
  · exact h i hi
  · have h1 : a < 2 ^ i := Nat.lt_of_lt_of_le ha (Nat.pow_le_pow_right (by decide) (by omega))
    have h2 : b < 2 ^ i := Nat.lt_of_lt_of_le hb (Nat.pow_le_pow_right (by decide) (by omega))
    rw [Nat.testBit_lt_two_pow h1, Nat.testBit_lt_two_pow h2]

theorem mem_all768 (t : Transform) : t ∈ all768 ↔ t.perm ∈ allPerms ∧ t.inNeg < 16 := by
  unfold all768 inNegBound
  simp only [List.mem_flatMap, List.mem_range, List.mem_cons, List.not_mem_nil, or_false]
  constructor
  · rintro ⟨p, hp, n, hn, h | h⟩ <;> subst h <;> exact ⟨hp, hn⟩
  · rintro ⟨hp, hn⟩
    refine ⟨t.perm, hp, t.inNeg, hn, ?_⟩
    cases t with
    | mk p n o => cases o <;> simp

theorem identity_mem : Transform.identity ∈ all768 := by
  rw [mem_all768]; decide

theorem permIndex_id {m : Nat} (hm : m < 16) : permIndex identityPerm m = m := by
  have hid : identityPerm ∈ allPerms := by decide
  apply eq_of_testBit_lt (n := 4) (permIndex_lt hid hm) hm
  intro j hj
  rw [permIndex_bit hid hm hj]
  have : ∀ j < 4, (permInv identityPerm).getD j 0 = j := by decide
  rw [this j hj]

theorem identity_apply {tt : Nat} (h : tt < 65536) : Transform.identity.apply tt = tt := by
  apply eq_of_testBit_lt (n := 16) (apply_lt _ _) h
  intro m hm
  rw [testBit_apply _ _ hm]
  have h0 : m ^^^ (Transform.identity.inNeg &&& 15) = m := by
    show m ^^^ (0 &&& 15) = m
    simp
  rw [h0]
  show (tt.testBit (permIndex identityPerm m) ^^ false) = _
  rw [permIndex_id hm]; simp

/-- T1 (see `Props/C21.lean`). -/
theorem npnCanonical_spec (tt : Nat) (h : tt < 65536) :
    (npnCanonical tt).2.apply tt = (npnCanonical tt).1 ∧
    (npnCanonical tt).2 ∈ all768 ∧
    ∀ t' ∈ all768, (npnCanonical tt).1 ≤ t'.apply tt := by
  rw [npnCanonical_eq_foldl]
  obtain ⟨_, h2, h3⟩ := foldl_minStep_spec (fun t : Transform => t.apply tt) all768 (tt, Transform.identity)
  refine ⟨?_, ?_, h2⟩
  · rcases h3 with h3 | ⟨_, h4⟩
    · rw [h3]; exact identity_apply h
    · exact h4.symm
  · rcases h3 with h3 | ⟨h3, _⟩
    · rw [h3]; exact identity_mem
    · exact h3

/-- The transform `t₂ ∘ t₁` ("first `t₁`, then `t₂`"). -/
def _root_.VerylModel.Core.Npn.Transform.comp (t1 t2 : Transform) : Transform :=
  ⟨permComp t1.perm t2.perm, (t2.inNeg &&& 15) ^^^ permIndex (permInv t2.perm) (t1.inNeg &&& 15), t1.outNeg ^^ t2.outNeg⟩

theorem and15_lt (k : Nat) : k &&& 15 < 16 := by
  have := @Nat.and_le_right k 15
  omega

theorem and15_of_lt {k : Nat} (h : k < 16) : k &&& 15 = k := by
  have : (15 : Nat) = 2 ^ 4 - 1 := by decide
  rw [this, Nat.and_two_pow_sub_one_eq_mod]
  exact Nat.mod_eq_of_lt h

theorem permIndex_comp {p q : List Nat} (hp : p ∈ allPerms) (hq : q ∈ allPerms) {m : Nat} (hm : m < 16) :
    permIndex (permComp p q) m = permIndex p (permIndex q m) := by
  have hc := permComp_mem hp hq
  have hqm := permIndex_lt hq hm
  apply eq_of_testBit_lt (n := 4) (permIndex_lt hc hm) (permIndex_lt hp hqm)
  intro j hj
  rw [permIndex_bit hc hm hj, permIndex_bit hp hqm hj, permIndex_bit hq hm (permInv_lt hp hj),
    permInv_permComp hp hq]
  congr 1
  unfold permComp
  have hl : (permInv p).length = 4 := (perms_sound _ (permInv_mem hp)).1
  rw [List.getD_eq_getElem?_getD, List.getElem?_map, List.getD_eq_getElem?_getD]
  have : j < (permInv p).length := by omega
  simp [List.getElem?_eq_getElem this]

theorem permIndex_xor {p : List Nat} (hp : p ∈ allPerms) {a b : Nat} (ha : a < 16) (hb : b < 16) :
    permIndex p (a ^^^ b) = permIndex p a ^^^ permIndex p b := by
  have hab : a ^^^ b < 16 := Nat.xor_lt_two_pow (n := 4) ha hb
  apply eq_of_testBit_lt (n := 4) (permIndex_lt hp hab)
    (Nat.xor_lt_two_pow (n := 4) (permIndex_lt hp ha) (permIndex_lt hp hb))
  intro j hj
  rw [Nat.testBit_xor, permIndex_bit hp hab hj, permIndex_bit hp ha hj, permIndex_bit hp hb hj, Nat.testBit_xor]

theorem permIndex_inv_cancel {p : List Nat} (hp : p ∈ allPerms) {m : Nat} (hm : m < 16) :
    permIndex p (permIndex (permInv p) m) = m := by
  rw [← permIndex_comp hp (permInv_mem hp) hm, permComp_permInv hp, permIndex_id hm]

theorem comp_mem {t1 t2 : Transform} (h1 : t1 ∈ all768) (h2 : t2 ∈ all768) : t1.comp t2 ∈ all768 := by
  rw [mem_all768] at *
  refine ⟨permComp_mem h1.1 h2.1, ?_⟩
  exact Nat.xor_lt_two_pow (n := 4) (and15_lt _) (permIndex_lt (permInv_mem h2.1) (and15_lt _))

theorem comp_apply {t1 t2 : Transform} (h1 : t1 ∈ all768) (h2 : t2 ∈ all768) (tt : Nat) :
    (t1.comp t2).apply tt = t2.apply (t1.apply tt) := by
  have hm1 := (mem_all768 _).mp h1
  have hm2 := (mem_all768 _).mp h2
  apply eq_of_testBit_lt (n := 16) (apply_lt _ _) (apply_lt _ _)
  intro m hm
  rw [testBit_apply _ _ hm, testBit_apply _ _ hm]
  have hx2 : m ^^^ (t2.inNeg &&& 15) < 16 := xor_and15_lt hm _
  have hs2 := permIndex_lt hm2.1 hx2
  rw [testBit_apply _ _ hs2]
  have hk : permIndex (permInv t2.perm) (t1.inNeg &&& 15) < 16 := permIndex_lt (permInv_mem hm2.1) (and15_lt _)
  have hn3 : (t1.comp t2).inNeg < 16 := ((mem_all768 _).mp (comp_mem h1 h2)).2
  rw [and15_of_lt hn3]
  show (tt.testBit (permIndex (permComp t1.perm t2.perm) (m ^^^ ((t2.inNeg &&& 15) ^^^ permIndex (permInv t2.perm) (t1.inNeg &&& 15))))
      ^^ (t1.outNeg ^^ t2.outNeg)) = _
  have hx3 : m ^^^ ((t2.inNeg &&& 15) ^^^ permIndex (permInv t2.perm) (t1.inNeg &&& 15)) < 16 :=
    Nat.xor_lt_two_pow (n := 4) hm (Nat.xor_lt_two_pow (n := 4) (and15_lt _) hk)
  rw [permIndex_comp hm1.1 hm2.1 hx3, ← Nat.xor_assoc, permIndex_xor hm2.1 hx2 hk,
    permIndex_inv_cancel hm2.1 (and15_lt _)]
  cases t1.outNeg <;> cases t2.outNeg <;> simp

/-- Inverse transform. -/
def _root_.VerylModel.Core.Npn.Transform.inv (t : Transform) : Transform :=
  ⟨permInv t.perm, permIndex (permInv (permInv t.perm)) (t.inNeg &&& 15), t.outNeg⟩

theorem inv_mem {t : Transform} (h : t ∈ all768) : t.inv ∈ all768 := by
  rw [mem_all768] at *
  exact ⟨permInv_mem h.1, permIndex_lt (permInv_mem (permInv_mem h.1)) (and15_lt _)⟩

theorem comp_inv {t : Transform} (h : t ∈ all768) : t.comp t.inv = Transform.identity := by
  have hm := (mem_all768 _).mp h
  unfold Transform.comp Transform.inv Transform.identity
  simp only []
  rw [permComp_permInv hm.1, and15_of_lt (permIndex_lt (permInv_mem (permInv_mem hm.1)) (and15_lt _))]
  simp [identityInNeg, identityOutNeg]

theorem inv_apply {t : Transform} (h : t ∈ all768) {tt : Nat} (htt : tt < 65536) :
    t.inv.apply (t.apply tt) = tt := by
  rw [← comp_apply h (inv_mem h), comp_inv h, identity_apply htt]

/-! ### Boolean (pointwise) semantics of a pattern; substitution lemma for `transform_pattern` -/

def edgeB (vals : List Bool) (e : PatEdge) : Bool := vals.getD e.node false ^^ e.neg

def stepB (vals : List Bool) (ab : PatEdge × PatEdge) : List Bool :=
  vals ++ [edgeB vals ab.1 && edgeB vals ab.2]

def evalB (p : Pattern) (env : List Bool) : Bool := edgeB (p.ands.foldl stepB env) p.output

theorem testBit_negMask (b : Bool) {m : Nat} (hm : m < 16) : (negMask b).testBit m = b := by
  unfold negMask
  cases b
  · simp
  · have : (65535 : Nat) = 2 ^ 16 - 1 := by decide
    simp only [if_true]
    rw [this, Nat.testBit_two_pow_sub_one]; simp [hm]

theorem testBit_edge (values : List Nat) (e : PatEdge) {m : Nat} (hm : m < 16) :
    (values.getD e.node 0 ^^^ negMask e.neg).testBit m = edgeB (values.map (·.testBit m)) e := by
  unfold edgeB
  rw [Nat.testBit_xor, testBit_negMask _ hm]
  congr 1
  rw [List.getD_eq_getElem?_getD, List.getD_eq_getElem?_getD, List.getElem?_map]
  cases values[e.node]? <;> simp

theorem map_foldl_evalStep (ands : List (PatEdge × PatEdge)) (values : List Nat) {m : Nat} (hm : m < 16) :
    (ands.foldl evalStep values).map (·.testBit m) = ands.foldl stepB (values.map (·.testBit m)) := by
  induction ands generalizing values with
  | nil => rfl
  | cons ab rest ih =>
    simp only [List.foldl_cons]
    rw [ih]
    congr 1
    unfold evalStep stepB
    simp only [List.map_append, List.map_cons, List.map_nil, Nat.testBit_and]
    rw [testBit_edge _ _ hm, testBit_edge _ _ hm]

theorem testBit_eval (p : Pattern) (vars : List Nat) {m : Nat} (hm : m < 16) :
    (p.eval vars).testBit m = evalB p (vars.map (·.testBit m)) := by
  unfold Pattern.eval evalB
  simp only []
  rw [testBit_edge _ _ hm, map_foldl_evalStep _ _ hm]

theorem varTt_bits : ∀ m < 16, varTt.map (·.testBit m) = [m.testBit 0, m.testBit 1, m.testBit 2, m.testBit 3] := by
  decide

theorem testBit_tt (p : Pattern) {m : Nat} (hm : m < 16) :
    p.tt.testBit m = evalB p [m.testBit 0, m.testBit 1, m.testBit 2, m.testBit 3] := by
  unfold Pattern.tt
  rw [testBit_eval _ _ hm, varTt_bits m hm]
/-- The environment seen by the original pattern after `transform_pattern` substituted its variables. -/
def substEnv (vs : List (Nat × Bool)) (env : List Bool) : List Bool :=
  [0, 1, 2, 3].map fun j => env.getD (vs.getD j (0, false)).1 false ^^ (vs.getD j (0, false)).2

theorem getD4 (a b c d : Bool) (rest : List Bool) {i : Nat} (hi : i < 4) :
    ([a, b, c, d] ++ rest).getD i false = [a, b, c, d].getD i false := by
  match i, hi with
  | 0, _ => rfl
  | 1, _ => rfl
  | 2, _ => rfl
  | 3, _ => rfl

theorem edgeB_mapEdge (vs : List (Nat × Bool)) (env rest : List Bool) (henv : env.length = 4)
    (hvs : ∀ j < 4, (vs.getD j (0, false)).1 < 4) (e : PatEdge) :
    edgeB (env ++ rest) (mapEdge vs e) = edgeB (substEnv vs env ++ rest) e := by
  match env, henv with
  | [a, b, c, d], _ =>
  unfold mapEdge edgeB
  by_cases h : e.node < 4
  · simp only [h, if_true]
    rw [getD4 _ _ _ _ _ (hvs _ h)]
    have hs : (substEnv vs [a, b, c, d] ++ rest).getD e.node false
        = ([a, b, c, d].getD (vs.getD e.node (0, false)).1 false ^^ (vs.getD e.node (0, false)).2) := by
      unfold substEnv
      match e.node, h with
      | 0, _ => rfl
      | 1, _ => rfl
      | 2, _ => rfl
      | 3, _ => rfl
    rw [hs]
    cases ([a, b, c, d].getD (vs.getD e.node (0, false)).1 false) <;> cases e.neg <;>
      cases (vs.getD e.node (0, false)).2 <;> rfl
  · simp only [h, if_false]
    have h4 : 4 ≤ e.node := by omega
    have hl : (substEnv vs [a, b, c, d]).length = 4 := by simp [substEnv]
    rw [List.getD_eq_getElem?_getD, List.getD_eq_getElem?_getD,
      List.getElem?_append_right (by simpa using h4), List.getElem?_append_right (by omega), hl]
    rfl

theorem foldl_stepB_subst (vs : List (Nat × Bool)) (env : List Bool) (henv : env.length = 4)
    (hvs : ∀ j < 4, (vs.getD j (0, false)).1 < 4) (ands : List (PatEdge × PatEdge)) (rest : List Bool) :
    ∃ rest', (ands.map fun ab => (mapEdge vs ab.1, mapEdge vs ab.2)).foldl stepB (env ++ rest) = env ++ rest' ∧
      ands.foldl stepB (substEnv vs env ++ rest) = substEnv vs env ++ rest' := by
  induction ands generalizing rest with
  | nil => exact ⟨rest, rfl, rfl⟩
  | cons ab tl ih =>
    simp only [List.map_cons, List.foldl_cons]
    have h1 : stepB (env ++ rest) (mapEdge vs ab.1, mapEdge vs ab.2)
        = env ++ (rest ++ [edgeB (substEnv vs env ++ rest) ab.1 && edgeB (substEnv vs env ++ rest) ab.2]) := by
      unfold stepB
      simp only []
      rw [edgeB_mapEdge vs env rest henv hvs, edgeB_mapEdge vs env rest henv hvs, List.append_assoc]
    have h2 : stepB (substEnv vs env ++ rest) ab
        = substEnv vs env ++ (rest ++ [edgeB (substEnv vs env ++ rest) ab.1 && edgeB (substEnv vs env ++ rest) ab.2]) := by
      unfold stepB
      rw [List.append_assoc]
    rw [h1, h2]
    exact ih _

/-- Substitution lemma: the transformed pattern on `env` = the original on the substituted environment. -/
theorem evalB_transformPattern (p : Pattern) (t : Transform) (env : List Bool) (henv : env.length = 4)
    (hvs : ∀ j < 4, ((varSubst t).getD j (0, false)).1 < 4) :
    evalB (transformPattern p t) env = (evalB p (substEnv (varSubst t) env) ^^ t.outNeg) := by
  unfold evalB transformPattern
  simp only []
  obtain ⟨rest', h1, h2⟩ := foldl_stepB_subst (varSubst t) env henv hvs p.ands []
  simp only [List.append_nil] at h1 h2
  rw [h1, h2]
  have := edgeB_mapEdge (varSubst t) env rest' henv hvs p.output
  rw [← this]
  unfold edgeB
  simp only []
  cases ((env ++ rest').getD (mapEdge (varSubst t) p.output).node false) <;>
    cases (mapEdge (varSubst t) p.output).neg <;> cases t.outNeg <;> rfl

theorem negMask_lt (b : Bool) : negMask b < 65536 := by cases b <;> decide

theorem foldl_evalStep_lt (ands : List (PatEdge × PatEdge)) (values : List Nat)
    (h : ∀ v ∈ values, v < 65536) : ∀ v ∈ ands.foldl evalStep values, v < 65536 := by
  induction ands generalizing values with
  | nil => exact h
  | cons ab rest ih =>
    simp only [List.foldl_cons]
    apply ih
    intro v hv
    unfold evalStep at hv
    simp only [List.mem_append, List.mem_singleton] at hv
    rcases hv with hv | hv
    · exact h v hv
    · subst hv
      have hg : ∀ i, values.getD i 0 < 65536 := by
        intro i
        rw [List.getD_eq_getElem?_getD]
        cases hi : values[i]? with
        | none => simp
        | some x => simpa using h x (List.mem_of_getElem? hi)
      have h1 : values.getD ab.1.node 0 ^^^ negMask ab.1.neg < 65536 :=
        Nat.xor_lt_two_pow (n := 16) (hg _) (negMask_lt _)
      exact Nat.lt_of_le_of_lt Nat.and_le_left h1

theorem eval_lt (p : Pattern) (vars : List Nat) (h : ∀ v ∈ vars, v < 65536) : p.eval vars < 65536 := by
  unfold Pattern.eval
  simp only []
  have hall := foldl_evalStep_lt p.ands vars h
  have hg : (p.ands.foldl evalStep vars).getD p.output.node 0 < 65536 := by
    rw [List.getD_eq_getElem?_getD]
    cases hi : (p.ands.foldl evalStep vars)[p.output.node]? with
    | none => simp
    | some x => simpa using hall x (List.mem_of_getElem? hi)
  exact Nat.xor_lt_two_pow (n := 16) hg (negMask_lt _)

theorem tt_lt (p : Pattern) : p.tt < 65536 := eval_lt p varTt (by decide)

theorem testBit_shift_and_one (n i : Nat) : (((n >>> i) &&& 1) != 0) = n.testBit i := by
  unfold Nat.testBit
  rw [Nat.and_comm]

theorem varSubst_getD (t : Transform) {j : Nat} (hj : j < 4) :
    (varSubst t).getD j (0, false)
      = ((permInv t.perm).getD j 0, t.inNeg.testBit ((permInv t.perm).getD j 0)) := by
  unfold varSubst
  simp only [testBit_shift_and_one]
  match j, hj with
  | 0, _ => rfl
  | 1, _ => rfl
  | 2, _ => rfl
  | 3, _ => rfl

theorem bits4_getD (m : Nat) {i : Nat} (hi : i < 4) :
    [m.testBit 0, m.testBit 1, m.testBit 2, m.testBit 3].getD i false = m.testBit i := by
  match i, hi with
  | 0, _ => rfl
  | 1, _ => rfl
  | 2, _ => rfl
  | 3, _ => rfl

theorem testBit_and15 (n : Nat) {i : Nat} (hi : i < 4) : (n &&& 15).testBit i = n.testBit i := by
  have : (15 : Nat) = 2 ^ 4 - 1 := by decide
  rw [Nat.testBit_and, this, Nat.testBit_two_pow_sub_one]; simp [hi]

/-- T2. -/
theorem transformPattern_tt (p : Pattern) (t : Transform) (ht : t.perm ∈ allPerms) :
    (transformPattern p t).tt = t.apply p.tt := by
  apply eq_of_testBit_lt (n := 16) (tt_lt _) (apply_lt _ _)
  intro m hm
  have hvs : ∀ j < 4, ((varSubst t).getD j (0, false)).1 < 4 := by
    intro j hj
    rw [varSubst_getD t hj]
    exact permInv_lt ht hj
  have hx := xor_and15_lt hm t.inNeg
  rw [testBit_tt _ hm, evalB_transformPattern p t _ rfl hvs, testBit_apply _ _ hm, testBit_tt _ (permIndex_lt ht hx)]
  congr 2
  unfold substEnv
  simp only [List.map_cons, List.map_nil]
  have key : ∀ j < 4, ([m.testBit 0, m.testBit 1, m.testBit 2, m.testBit 3].getD
        ((varSubst t).getD j (0, false)).1 false ^^ ((varSubst t).getD j (0, false)).2)
      = (permIndex t.perm (m ^^^ (t.inNeg &&& 15))).testBit j := by
    intro j hj
    have hi := permInv_lt ht hj
    rw [varSubst_getD t hj, bits4_getD m hi, permIndex_bit ht hx hj, Nat.testBit_xor, testBit_and15 _ hi]
  rw [key 0 (by decide), key 1 (by decide), key 2 (by decide), key 3 (by decide)]

end VerylModel.Lemmas.Npn
