import VerylModel.Lemmas.BitsEq
import VerylModel.Lemmas.BitsShiftArm
import VerylModel.Lemmas.BitsRel
import VerylModel.Lemmas.BitsDiv
import VerylModel.Lemmas.BitsStruct
import VerylModel.Lemmas.BitsPow
set_option linter.unusedSimpArgs false
set_option linter.unusedVariables false
/-! Glue lemmas used by Props/C17.lean. -/
namespace VerylModel.Bits
open Ref Impl

/-- `&` sizes its operands with `resize` (trunc when wider); inside the caller invariant that is
    `expand`, and the arm is the common context-determined arm. -/
theorem evalBinary_band_eq (x y : Val) (w : Nat) (s : Bool) (hwx : x.width ≤ w) (hwy : y.width ≤ w) :
    evalBinary .BitAnd x y w s =
      arithArm x y w s (fun a b => some (U64.andOp a b w)) (fun a b => some (Big.andOp a b w)) := by
  simp only [evalBinary, arithArm, resize_eq_expand _ _ _ hwx, resize_eq_expand _ _ _ hwy]
  cases expand x w s <;> cases expand y w s <;> simp [both]


/-- Flags of the reduction / logical-not arms on a canonical operand. -/
theorem red_flags (x : Val) (hx : x.canon) (h0 : 0 < x.width) :
    truth x.v = b4_1x ((x.v.payload &&& (x.v.mask ^^^
        (redMask x))) != 0) (x.v.mask != 0) ∧
    reduce B4.and .b1 x.v = b4_0x ((x.v.payload ||| x.v.mask) !=
        (redMask x)) (x.v.mask != 0) := by
  rw [red_mask_eq x hx]
  have hwf := canon_wf_of_pos hx h0
  exact ⟨truth_eq x.v hwf x.v.width (Nat.le_refl _), rand_flags x.v hwf⟩


/-- Flags of the `==`/`!=` arms vs. §11.4.5, for operands sized to `W`, when no X/Z bit faces a
    known 1. -/
theorem eq_flags_spec (a b : V4) (W : Nat) (ha : a.wf) (hb : b.wf) (hwa : a.width = W) (hwb : b.width = W)
    (H : noXFacingOne W a.toBV b.toBV) :
    eqBV W a.toBV b.toBV = b4_0x (Big.eqFlags a b).1 (Big.eqFlags a b).2 ∧
    (W ≤ 64 → U64.eqFlags a b = Big.eqFlags a b) := by
  have hpa : a.payload < 2 ^ W := by rw [← hwa]; exact ha.1
  have hpb : b.payload < 2 ^ W := by rw [← hwb]; exact hb.1
  constructor
  · rw [eqBV_eq_flags W a.toBV b.toBV W hpa hpb (Nat.le_refl _) H]
    simp [Big.eqFlags, Big.genMask, hwa, hwb, V4.toBV]
  · intro h64
    have e1 := img_ne_iff a.payload a.mask b.payload b.mask W 64 hpa hpb h64
    have e2 := img_ne_iff a.payload a.mask b.payload b.mask W W hpa hpb (Nat.le_refl _)
    simp only [U64.eqFlags, Big.eqFlags, U64.not, U64.MAX, Big.genMask, hwa, hwb, e1, e2]


theorem shlBV_xz (a : BV) (y : V4) (w : Nat) (h : y.mask ≠ 0) : shlBV a y w = allX w := by
  unfold shlBV; simp [h]
theorem lshrBV_xz (a : BV) (y : V4) (w : Nat) (h : y.mask ≠ 0) : lshrBV a y w = allX w := by
  unfold lshrBV; simp [h]
theorem ashrBV_xz (a : BV) (y : V4) (w : Nat) (s : Bool) (h : y.mask ≠ 0) : ashrBV a y w s = allX w := by
  unfold ashrBV; simp [h]


end VerylModel.Bits
