import VerylModel.Core.LL
/-!
Lemmas for C10: the termination measure of the LL machine and the depth invariant.

Measure of a configuration: `(maxErrs - errs, |input|, mu stack)` ordered lexicographically, where
`mu` weighs only the *transparent prefix* of the stack (what can reach the top without the input
getting shorter): a non-terminal of rank `r` weighs `(M+2)^(r+1)`, markers and terminals weigh 1, and
everything below the first non-transparent symbol weighs nothing.
-/
namespace VerylModel.LL

/-- Weight of a non-terminal of rank `r` when right-hand sides have at most `M` symbols. -/
def wt (M r : Nat) : Nat := (M + 2) ^ (r + 1)

def mu (c : Cert) (M : Nat) : List Item → Nat
  | [] => 0
  | .e _ :: s => 1 + mu c M s
  | .t a :: s => 1 + (if a = 0 then mu c M s else 0)
  | .n A :: s => wt M (c.rank A) + (if c.null A = true then mu c M s else 0)

theorem wt_pos (M r : Nat) : 0 < wt M r := Nat.pow_pos (by omega)

theorem wt_le_of_lt {M r r' : Nat} (h : r < r') : wt M r ≤ (M + 2) ^ r' :=
  Nat.pow_le_pow_right (by omega) h

/-- Weight of a right-hand side (suffix) pushed above `e p :: s`. -/
theorem mu_rhs_le (c : Cert) (M l p : Nat) (s : List Item) (α : List Sym)
    (hp : prefixOk c l α = true) :
    mu c M (α.map Sym.toItem ++ .e p :: s)
      ≤ α.length * (M + 2) ^ (c.rank l)
        + (if α.all (Sym.transparent c) = true then 1 + mu c M s else 0) := by
  have hB : 0 < (M + 2) ^ (c.rank l) := Nat.pow_pos (by omega)
  induction α with
  | nil => simp [mu]
  | cons x rest ih =>
    cases x with
    | t a =>
      simp only [List.map_cons, Sym.toItem, List.cons_append, mu, List.length_cons, List.all_cons,
        Sym.transparent, Nat.succ_mul]
      by_cases ha : a = 0
      · subst ha
        have := ih (by simpa [prefixOk] using hp)
        simp only [if_true, beq_self_eq_true, Bool.true_and]
        omega
      · have hne : (a == 0) = false := by simp [ha]
        simp only [ha, if_false, hne, Bool.false_and]
        simp
        omega
    | n i =>
      simp only [prefixOk, Bool.and_eq_true, Nat.blt_eq] at hp
      have hw := wt_le_of_lt (M := M) hp.1
      simp only [List.map_cons, Sym.toItem, List.cons_append, mu, List.length_cons, List.all_cons,
        Sym.transparent, Nat.succ_mul]
      by_cases hn : c.null i = true
      · have := ih (by simpa [hn] using hp.2)
        simp only [hn, if_true, Bool.true_and]
        omega
      · have hn' : c.null i = false := by simpa using hn
        simp only [hn', Bool.false_and]
        simp
        omega

/-- Expanding a certified production strictly decreases `mu`. -/
theorem mu_expand_lt (c : Cert) (M p : Nat) (P : Prod) (s : List Item)
    (hok : prodOk c M P = true) :
    mu c M (P.rhs.map Sym.toItem ++ .e p :: s) < mu c M (.n P.lhs :: s) := by
  simp only [prodOk, Bool.and_eq_true, Nat.ble_eq] at hok
  obtain ⟨⟨hclosed, hpre⟩, hlen⟩ := hok
  have h1 := mu_rhs_le c M P.lhs p s P.rhs hpre
  have hB : 0 < (M + 2) ^ (c.rank P.lhs) := Nat.pow_pos (by omega)
  have hlenB : P.rhs.length * (M + 2) ^ (c.rank P.lhs) ≤ M * (M + 2) ^ (c.rank P.lhs) :=
    Nat.mul_le_mul_right _ hlen
  have hw' : wt M (c.rank P.lhs) = M * (M + 2) ^ (c.rank P.lhs) + 2 * (M + 2) ^ (c.rank P.lhs) := by
    rw [← Nat.add_mul]
    simp [wt, Nat.pow_succ, Nat.mul_comm]
  simp only [mu]
  cases hall : P.rhs.all (Sym.transparent c) with
  | true =>
    have hnull : c.null P.lhs = true := by
      simp only [closedOk, hall, Bool.not_true, Bool.false_or] at hclosed
      exact hclosed
    simp only [hall, if_true] at h1
    simp only [hnull, if_true]
    omega
  | false =>
    simp only [hall, Bool.false_eq_true, if_false] at h1
    have : 0 ≤ (if c.null P.lhs = true then mu c M s else 0) := Nat.zero_le _
    omega

/-- The certificate holds for every production the machine can index. -/
def Certified (m : Machine) (c : Cert) (M : Nat) : Prop :=
  ∀ p P, m.prod? p = some P → prodOk c M P = true

/-- Termination measure. -/
def measureOf (m : Machine) (c : Cert) (M : Nat) (cfg : Config) : Nat × Nat × Nat :=
  (m.maxErrs - cfg.errs, cfg.input.length, mu c M cfg.stack)

theorem step_decreases (m : Machine) (c : Cert) (M : Nat) (hc : Certified m c M)
    {x y : Config} (h : Step m x y) :
    Prod.Lex (· < ·) (Prod.Lex (· < ·) (· < ·)) (measureOf m c M y) (measureOf m c M x) := by
  cases h with
  | consume hla =>
    rename_i a s inp d e
    simp only [measureOf]
    apply Prod.Lex.right
    cases inp with
    | nil =>
      -- the padding EOI was matched: `a = 0`, the input stays empty, the stack loses one entry
      have ha : a = 0 := by simpa [la] using hla.symm
      subst ha
      simp only [List.tail_nil, List.length_nil]
      apply Prod.Lex.right
      simp [mu]
    | cons tk rest =>
      apply Prod.Lex.left
      simp
  | expand hp hl hcap =>
    rename_i A s inp d e p P
    simp only [measureOf]
    apply Prod.Lex.right
    apply Prod.Lex.right
    subst hl
    exact mu_expand_lt c M p P s (hc p P hp)
  | endProd hp hd =>
    simp only [measureOf]
    apply Prod.Lex.right
    apply Prod.Lex.right
    simp [mu]
  | recover he =>
    simp only [measureOf]
    apply Prod.Lex.left
    omega

/-! ### Depth invariant -/

/-- Number of end-of-production markers of non-push productions on the stack
(= productions currently open that count towards the depth). -/
def openCount (m : Machine) : List Item → Nat
  | [] => 0
  | .e p :: s => (match m.prod? p with
      | some P => if P.push then 0 else 1
      | none => 0) + openCount m s
  | _ :: s => openCount m s

/-- Every marker on the stack names an existing production. -/
def markersOk (m : Machine) : List Item → Prop
  | [] => True
  | .e p :: s => (m.prod? p).isSome ∧ markersOk m s
  | _ :: s => markersOk m s

theorem openCount_rhs (m : Machine) (α : List Sym) (s : List Item) :
    openCount m (α.map Sym.toItem ++ s) = openCount m s := by
  induction α with
  | nil => rfl
  | cons x rest ih => cases x <;> simpa [Sym.toItem, openCount] using ih

theorem markersOk_rhs (m : Machine) (α : List Sym) (s : List Item) :
    markersOk m (α.map Sym.toItem ++ s) ↔ markersOk m s := by
  induction α with
  | nil => exact Iff.rfl
  | cons x rest ih => cases x <;> simpa [Sym.toItem, markersOk] using ih

structure Inv (m : Machine) (cfg : Config) : Prop where
  depth_eq : cfg.depth = openCount m cfg.stack
  within : withinCap m.cap cfg.depth = true
  markers : markersOk m cfg.stack

theorem inv_init (m : Machine) (start : Nat) (inp : List Nat) : Inv m (init start inp) := by
  refine ⟨rfl, ?_, trivial⟩
  cases h : m.cap <;> simp [init, withinCap]

theorem withinCap_mono {cap : Option Nat} {d d' : Nat} (h : d' ≤ d) (hd : withinCap cap d = true) :
    withinCap cap d' = true := by
  cases cap with
  | none => rfl
  | some c => simp only [withinCap, decide_eq_true_eq] at *; omega

theorem inv_step (m : Machine) {x y : Config} (hx : Inv m x) (h : Step m x y) : Inv m y := by
  obtain ⟨hd, hw, hm⟩ := hx
  cases h with
  | consume hla => exact ⟨by simpa [openCount] using hd, hw, by simpa [markersOk] using hm⟩
  | expand hp hl hcap =>
    rename_i A s inp d e p P
    refine ⟨?_, hcap, ?_⟩
    · simp only [openCount_rhs, openCount, hp, pushDepth]
      simp only [openCount] at hd
      cases P.push <;> simp <;> omega
    · rw [markersOk_rhs]
      simp only [markersOk] at hm ⊢
      exact ⟨by simp [hp], hm⟩
  | endProd hp hpos =>
    rename_i s inp d e p P
    simp only [openCount, hp] at hd
    simp only [markersOk] at hm
    refine ⟨?_, ?_, hm.2⟩
    · simp only [popDepth]
      cases hpush : P.push <;> simp [hpush] at hd ⊢ <;> omega
    · exact withinCap_mono (by simp only [popDepth]; split <;> omega) hw
  | recover he => exact ⟨hd, hw, hm⟩

theorem inv_reach (m : Machine) {x y : Config} (hx : Inv m x) (h : Reach m x y) : Inv m y := by
  induction h with
  | refl => exact hx
  | tail _ hs ih => exact inv_step m ih hs

end VerylModel.LL
