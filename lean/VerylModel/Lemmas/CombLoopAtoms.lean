import VerylModel.Lemmas.CombLoopGraph
/-!
Atomic ranges: a partition whose cut points contain both ends of every access makes the
atom-level live-in analysis the exact quotient of the bit-level one.
-/
namespace VerylModel.CombLoop

/-! ### association-list environments denote function environments -/

section Table
variable {κ : Type} [DecidableEq κ]

theorem lookup_map_self {β : Type} (f : κ → β) (U : List κ) (k : κ) :
    (U.map (fun k => (k, f k))).lookup k = if k ∈ U then some (f k) else none := by
  induction U with
  | nil => simp
  | cons u U ih =>
    simp only [List.map_cons, List.lookup_cons]
    by_cases h : k = u
    · subst h; simp
    · have h1 : (k == u) = false := by simpa using h
      simp only [h1, ih, List.mem_cons, h, false_or]

theorem lookup_none_of_not_mem {β : Type} (t : List (κ × β)) (k : κ) (h : k ∉ t.map (·.1)) :
    t.lookup k = none := by
  induction t with
  | nil => rfl
  | cons e t ih =>
    obtain ⟨k', v⟩ := e
    simp only [List.map_cons, List.mem_cons, not_or] at h
    have h1 : (k == k') = false := by simpa using h.1
    simp only [List.lookup_cons, h1]
    exact ih h.2

theorem TEnv.get_nil : TEnv.get ([] : TEnv κ) = Env.init := by
  funext k; rfl

theorem TEnv.get_assign (ks : List κ) (v : DV κ) (t : TEnv κ) (k : κ) :
    (TEnv.get (ks.map (fun k => (k, v)) ++ t)) k = if k ∈ ks then v else t.get k := by
  induction ks with
  | nil => simp
  | cons u ks ih =>
    unfold TEnv.get at ih ⊢
    simp only [List.map_cons, List.cons_append, List.lookup_cons]
    by_cases h : k = u
    · subst h; simp
    · have h1 : (k == u) = false := by simpa using h
      simp only [h1, List.mem_cons, h, false_or]
      exact ih

theorem TEnv.get_merge (tt te : TEnv κ) (k : κ) :
    (TEnv.get ((addNew [] ((tt ++ te).map (·.1))).map (fun k =>
      (k, (⟨(tt.get k).retain || (te.get k).retain, union (tt.get k).deps (te.get k).deps⟩ : DV κ))))) k
    = ⟨(tt.get k).retain || (te.get k).retain, union (tt.get k).deps (te.get k).deps⟩ := by
  by_cases hk : k ∈ addNew [] ((tt ++ te).map (·.1))
  · unfold TEnv.get
    rw [lookup_map_self, if_pos hk]
  · have hk' := hk
    rw [mem_addNew] at hk'
    simp only [List.not_mem_nil, false_or, List.map_append, List.mem_append, not_or] at hk'
    unfold TEnv.get
    rw [lookup_map_self, if_neg hk, lookup_none_of_not_mem tt k hk'.1,
      lookup_none_of_not_mem te k hk'.2]
    simp [union]

theorem liveInT_get (keysOf : Acc → List κ) (st : Stmt) :
    ∀ (c : List κ) (t : TEnv κ), (liveInT keysOf st c t).get = liveIn keysOf st c t.get := by
  induction st with
  | skip => intro c t; rfl
  | assign d rs =>
    intro c t
    funext k
    simp only [liveInT, liveIn]
    exact TEnv.get_assign _ _ _ _
  | seq a b iha ihb =>
    intro c t
    simp only [liveInT, liveIn, ihb, iha]
  | ite cond th el iht ihe =>
    intro c t
    funext k
    simp only [liveInT, liveIn]
    rw [TEnv.get_merge, iht, ihe]

end Table

/-! ### membership in the generic analysis -/

section Generic
variable {κ : Type} [DecidableEq κ]

theorem mem_readAll {keysOf : Acc → List κ} {env : Env κ} {rs : List Acc} {s : κ} :
    s ∈ readAll keysOf env rs ↔ ∃ r ∈ rs, ∃ k ∈ keysOf r, s ∈ lookup env k := by
  unfold readAll
  rw [mem_unions]
  constructor
  · rintro ⟨l, hl, h⟩
    obtain ⟨r, hr, rfl⟩ := List.mem_map.1 hl
    obtain ⟨l2, hl2, h⟩ := mem_unions.1 h
    obtain ⟨k, hk, rfl⟩ := List.mem_map.1 hl2
    exact ⟨r, hr, k, hk, h⟩
  · rintro ⟨r, hr, k, hk, h⟩
    exact ⟨_, List.mem_map.2 ⟨r, hr, rfl⟩, mem_unions.2 ⟨_, List.mem_map.2 ⟨k, hk, rfl⟩, h⟩⟩

omit [DecidableEq κ] in
theorem mem_lookup {env : Env κ} {k s : κ} :
    s ∈ lookup env k ↔ s ∈ (env k).deps ∨ ((env k).retain = true ∧ s = k) := by
  unfold lookup
  cases h : (env k).retain <;> simp

theorem mem_blockEdges {keysOf : Acc → List κ} {st : Stmt} {x k : κ} :
    (x, k) ∈ blockEdges keysOf st ↔
      (∃ d ∈ st.dsts, k ∈ keysOf d) ∧ x ∈ (liveIn keysOf st [] Env.init k).deps := by
  unfold blockEdges
  simp only [liveInT_get, TEnv.get_nil]
  simp only [List.mem_flatMap, List.mem_map, mem_unions, Prod.mk.injEq]
  constructor
  · rintro ⟨k', ⟨_, ⟨d, hd, rfl⟩, hk⟩, x', hx, rfl, rfl⟩
    exact ⟨⟨d, hd, hk⟩, hx⟩
  · rintro ⟨⟨d, hd, hk⟩, hx⟩
    exact ⟨k, ⟨_, ⟨d, hd, rfl⟩, hk⟩, x, hx, rfl, rfl⟩

end Generic

theorem Stmt.dsts_sub_accs (st : Stmt) : ∀ d ∈ st.dsts, d ∈ st.accs := by
  induction st with
  | skip => simp [Stmt.dsts]
  | assign d rs => simp [Stmt.dsts, Stmt.accs]
  | seq a b iha ihb =>
    intro d hd
    simp only [Stmt.dsts, List.mem_append] at hd
    simp only [Stmt.accs, List.mem_append]
    exact hd.elim (fun h => Or.inl (iha d h)) (fun h => Or.inr (ihb d h))
  | ite c t e iht ihe =>
    intro d hd
    simp only [Stmt.dsts, List.mem_append] at hd
    simp only [Stmt.accs, List.mem_append]
    exact hd.elim (fun h => Or.inl (Or.inr (iht d h))) (fun h => Or.inr (ihe d h))

/-! ### cut points -/

theorem foldl_max_ge_init (l : List Nat) (i : Nat) : i ≤ l.foldl max i := by
  induction l generalizing i with
  | nil => simp
  | cons x l ih => exact Nat.le_trans (Nat.le_max_left i x) (ih (max i x))

theorem foldl_max_ge_mem (l : List Nat) (i : Nat) : ∀ x ∈ l, x ≤ l.foldl max i := by
  induction l generalizing i with
  | nil => simp
  | cons y l ih =>
    intro x hx
    rcases List.mem_cons.1 hx with hx | hx
    · subst hx
      exact Nat.le_trans (Nat.le_max_right i x) (foldl_max_ge_init l (max i x))
    · exact ih (max i y) x hx

theorem foldl_max_mem_or (l : List Nat) (i : Nat) : l.foldl max i ∈ l ∨ l.foldl max i = i := by
  induction l generalizing i with
  | nil => simp
  | cons y l ih =>
    simp only [List.foldl_cons]
    rcases ih (max i y) with h | h
    · exact Or.inl (List.mem_cons_of_mem _ h)
    · rw [h]
      rcases Nat.le_total i y with hle | hle
      · rw [Nat.max_eq_right hle]; exact Or.inl (List.mem_cons_self ..)
      · rw [Nat.max_eq_left hle]; exact Or.inr rfl

theorem maxCutLE_le (cs : List Nat) (b : Nat) : maxCutLE cs b ≤ b := by
  unfold maxCutLE
  rcases foldl_max_mem_or (cs.filter (· ≤ b)) 0 with h | h
  · have := (List.mem_filter.1 h).2
    simpa using this
  · rw [h]; exact Nat.zero_le _

theorem le_maxCutLE {cs : List Nat} {b c : Nat} (hc : c ∈ cs) (hcb : c ≤ b) : c ≤ maxCutLE cs b := by
  unfold maxCutLE
  exact foldl_max_ge_mem _ 0 c (List.mem_filter.2 ⟨hc, by simpa using hcb⟩)

theorem maxCutLE_mem_or (cs : List Nat) (b : Nat) : maxCutLE cs b ∈ cs ∨ maxCutLE cs b = 0 := by
  unfold maxCutLE
  rcases foldl_max_mem_or (cs.filter (· ≤ b)) 0 with h | h
  · exact Or.inl (List.mem_filter.1 h).1
  · exact Or.inr h

theorem maxCutLE_self {cs : List Nat} {c : Nat} (hc : c ∈ cs) : maxCutLE cs c = c :=
  Nat.le_antisymm (maxCutLE_le cs c) (le_maxCutLE hc (Nat.le_refl c))

theorem mem_bits {a : Acc} {b : Bit} : b ∈ a.bits ↔ b.1 = a.var ∧ a.lo ≤ b.2 ∧ b.2 < a.hi := by
  obtain ⟨v, x⟩ := b
  unfold Acc.bits
  simp only [List.mem_map, List.mem_range, Prod.mk.injEq]
  constructor
  · rintro ⟨i, hi, rfl, rfl⟩
    exact ⟨rfl, by omega, by omega⟩
  · rintro ⟨rfl, h1, h2⟩
    exact ⟨x - a.lo, by omega, rfl, by omega⟩

theorem mem_atomsOf {cuts : Nat → List Nat} {a : Acc} {A : Atom} :
    A ∈ atomsOf cuts a ↔ A.1 = a.var ∧ A.2 ∈ cuts a.var ∧ a.lo ≤ A.2 ∧ A.2 < a.hi := by
  obtain ⟨v, c⟩ := A
  unfold atomsOf
  simp only [List.mem_map, List.mem_filter, decide_eq_true_eq, Prod.mk.injEq]
  constructor
  · rintro ⟨c', ⟨h1, h2, h3⟩, rfl, rfl⟩
    exact ⟨rfl, h1, h2, h3⟩
  · rintro ⟨rfl, h1, h2, h3⟩
    exact ⟨c, ⟨h1, h2, h3⟩, rfl, rfl⟩

/-- The partition is atomic for a set of accesses: both ends of every access are cut points. -/
def Atomic (cuts : Nat → List Nat) (accs : List Acc) : Prop :=
  ∀ a ∈ accs, a.lo ∈ cuts a.var ∧ a.hi ∈ cuts a.var

theorem Atomic.mono {cuts : Nat → List Nat} {l l' : List Acc} (h : Atomic cuts l')
    (hs : ∀ a ∈ l, a ∈ l') : Atomic cuts l := fun a ha => h a (hs a ha)

theorem atomic_cutsOf (accs : List Acc) : Atomic (cutsOf accs) accs := by
  intro a ha
  unfold cutsOf
  simp only [mem_addNew, List.mem_flatMap, List.mem_filter, decide_eq_true_eq]
  exact ⟨Or.inr ⟨a, ⟨ha, rfl⟩, by simp⟩, Or.inr ⟨a, ⟨ha, rfl⟩, by simp⟩⟩

/-- A bit lies in an access iff its atomic range overlaps the access. -/
theorem mem_bits_iff_atom {cuts : Nat → List Nat} {a : Acc}
    (hlo : a.lo ∈ cuts a.var) (hhi : a.hi ∈ cuts a.var) (b : Bit) :
    b ∈ a.bits ↔ atomOf cuts b ∈ atomsOf cuts a := by
  obtain ⟨v, x⟩ := b
  rw [mem_bits, mem_atomsOf]
  simp only [atomOf]
  constructor
  · rintro ⟨rfl, h1, h2⟩
    have hle := maxCutLE_le (cuts a.var) x
    have hge := le_maxCutLE hlo h1
    refine ⟨rfl, ?_, hge, by omega⟩
    rcases maxCutLE_mem_or (cuts a.var) x with h | h
    · exact h
    · have : a.lo = 0 := by omega
      rw [h, ← this]; exact hlo
  · rintro ⟨rfl, _, h2, h3⟩
    have hle := maxCutLE_le (cuts a.var) x
    refine ⟨rfl, by omega, ?_⟩
    apply Nat.lt_of_not_le
    intro hx
    have := le_maxCutLE hhi hx
    omega

/-- An atomic range of an access is the range of its own lowest bit. -/
theorem atomOf_self_of_mem {cuts : Nat → List Nat} {a : Acc} {A : Atom} (h : A ∈ atomsOf cuts a) :
    atomOf cuts A = A := by
  obtain ⟨v, c⟩ := A
  obtain ⟨rfl, h1, _, _⟩ := mem_atomsOf.1 h
  simp only [atomOf]
  rw [maxCutLE_self h1]

/-! ### the atom-level analysis is the quotient of the bit-level analysis -/

section Quotient
variable (cuts : Nat → List Nat)

def SetRel (B : List Bit) (A : List Atom) : Prop := ∀ s, s ∈ B ↔ atomOf cuts s ∈ A

def EnvRel (eB : Env Bit) (eA : Env Atom) : Prop :=
  ∀ b, (eB b).retain = (eA (atomOf cuts b)).retain ∧ SetRel cuts (eB b).deps (eA (atomOf cuts b)).deps

variable {cuts}

theorem SetRel.union {B B' : List Bit} {A A' : List Atom} (h : SetRel cuts B A)
    (h' : SetRel cuts B' A') : SetRel cuts (union B B') (union A A') := by
  intro s
  rw [mem_union, mem_union, h s, h' s]

theorem readAll_rel {eB : Env Bit} {eA : Env Atom} {rs : List Acc} (hat : Atomic cuts rs)
    (he : EnvRel cuts eB eA) :
    SetRel cuts (readAll Acc.bits eB rs) (readAll (atomsOf cuts) eA rs) := by
  intro s
  rw [mem_readAll, mem_readAll]
  constructor
  · rintro ⟨r, hr, k, hk, hs⟩
    obtain ⟨hlo, hhi⟩ := hat r hr
    refine ⟨r, hr, atomOf cuts k, (mem_bits_iff_atom hlo hhi k).1 hk, ?_⟩
    rcases mem_lookup.1 hs with hs | ⟨hret, rfl⟩
    · exact mem_lookup.2 (Or.inl (((he k).2 s).1 hs))
    · exact mem_lookup.2 (Or.inr ⟨(he s).1 ▸ hret, rfl⟩)
  · rintro ⟨r, hr, K, hK, hs⟩
    obtain ⟨hlo, hhi⟩ := hat r hr
    rcases mem_lookup.1 hs with hs | ⟨hret, hsK⟩
    · -- any bit of the atom will do: take its lowest one
      have hKK := atomOf_self_of_mem hK
      have hKb : K ∈ r.bits := (mem_bits_iff_atom hlo hhi K).2 (by rw [hKK]; exact hK)
      refine ⟨r, hr, K, hKb, mem_lookup.2 (Or.inl ?_)⟩
      apply ((he K).2 s).2
      rw [hKK]; exact hs
    · have hsb : s ∈ r.bits := (mem_bits_iff_atom hlo hhi s).2 (by rw [hsK]; exact hK)
      refine ⟨r, hr, s, hsb, mem_lookup.2 (Or.inr ⟨?_, rfl⟩)⟩
      rw [(he s).1, hsK]; exact hret

theorem liveIn_rel (st : Stmt) :
    ∀ (cB : List Bit) (cA : List Atom) (eB : Env Bit) (eA : Env Atom),
      Atomic cuts st.accs → SetRel cuts cB cA → EnvRel cuts eB eA →
      EnvRel cuts (liveIn Acc.bits st cB eB) (liveIn (atomsOf cuts) st cA eA) := by
  induction st with
  | skip => intro cB cA eB eA _ _ he; simpa [liveIn] using he
  | assign d rs =>
    intro cB cA eB eA hat hc he
    have hd := hat d (by simp [Stmt.accs])
    have hrs : Atomic cuts rs := hat.mono (fun a ha => by simp [Stmt.accs, ha])
    have hD := hc.union (readAll_rel hrs he)
    simp only [liveIn]
    intro b
    by_cases hb : b ∈ d.bits
    · have hb' := (mem_bits_iff_atom hd.1 hd.2 b).1 hb
      refine ⟨?_, ?_⟩
      · simp only [hb, hb', if_true]
      · simp only [hb, hb', if_true]; exact hD
    · have hb' : atomOf cuts b ∉ atomsOf cuts d := fun h => hb ((mem_bits_iff_atom hd.1 hd.2 b).2 h)
      simp only [hb, hb', if_false]
      exact he b
  | seq a b iha ihb =>
    intro cB cA eB eA hat hc he
    simp only [liveIn]
    have ha : Atomic cuts a.accs := hat.mono (fun x hx => by simp [Stmt.accs, hx])
    have hb : Atomic cuts b.accs := hat.mono (fun x hx => by simp [Stmt.accs, hx])
    exact ihb _ _ _ _ hb hc (iha _ _ _ _ ha hc he)
  | ite c t e iht ihe =>
    intro cB cA eB eA hat hc he
    have hcond : Atomic cuts c := hat.mono (fun x hx => by simp [Stmt.accs, hx])
    have ht : Atomic cuts t.accs := hat.mono (fun x hx => by simp [Stmt.accs, hx])
    have hee : Atomic cuts e.accs := hat.mono (fun x hx => by simp [Stmt.accs, hx])
    have hc' := hc.union (readAll_rel hcond he)
    have h1 := iht _ _ _ _ ht hc' he
    have h2 := ihe _ _ _ _ hee hc' he
    simp only [liveIn]
    intro b
    refine ⟨?_, (h1 b).2.union (h2 b).2⟩
    dsimp only
    rw [(h1 b).1, (h2 b).1]

theorem envRel_init : EnvRel cuts (Env.init : Env Bit) (Env.init : Env Atom) := by
  intro b
  refine ⟨rfl, fun s => ?_⟩
  simp [Env.init]

/-- Edge correspondence for one block: `s → b` at bit level iff `atom s → atom b` at atom level. -/
theorem blockEdges_rel {st : Stmt} (hat : Atomic cuts st.accs) (s b : Bit) :
    (s, b) ∈ blockEdges Acc.bits st ↔
      (atomOf cuts s, atomOf cuts b) ∈ blockEdges (atomsOf cuts) st := by
  have hrel := liveIn_rel st [] [] Env.init Env.init hat (fun s => by simp) envRel_init
  rw [mem_blockEdges, mem_blockEdges, ← (hrel b).2 s]
  constructor
  · rintro ⟨⟨d, hd, hb⟩, hs⟩
    obtain ⟨hlo, hhi⟩ := hat d (st.dsts_sub_accs d hd)
    exact ⟨⟨d, hd, (mem_bits_iff_atom hlo hhi b).1 hb⟩, hs⟩
  · rintro ⟨⟨d, hd, hb⟩, hs⟩
    obtain ⟨hlo, hhi⟩ := hat d (st.dsts_sub_accs d hd)
    exact ⟨⟨d, hd, (mem_bits_iff_atom hlo hhi b).2 hb⟩, hs⟩

/-- Every target of an atom-level block edge is the atomic range of some bit. -/
theorem blockEdges_surj {st : Stmt} {A B : Atom}
    (h : (A, B) ∈ blockEdges (atomsOf cuts) st) : atomOf cuts B = B := by
  obtain ⟨⟨d, _, hB⟩, _⟩ := mem_blockEdges.1 h
  exact atomOf_self_of_mem hB

end Quotient

end VerylModel.CombLoop
