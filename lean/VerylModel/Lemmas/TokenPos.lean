import VerylModel.Core.TokenPos
/-! Helper lemmas for C12 (M-TokenPos). -/
namespace VerylModel.TokenPos

theorem utf8Size_pos (c : Nat) : 1 ≤ utf8Size c := by
  unfold utf8Size
  split
  · omega
  · split
    · omega
    · split <;> omega

theorem utf8Size_ascii {c : Nat} (h : c < 128) : utf8Size c = 1 := by
  unfold utf8Size; simp [h]

theorem lenW_append (w : Nat → Nat) (a b : Text) : lenW w (a ++ b) = lenW w a + lenW w b := by
  induction a with
  | nil => simp [lenW]
  | cons c cs ih => simp [lenW, ih]; omega

theorem utf8Len_append (a b : Text) : utf8Len (a ++ b) = utf8Len a + utf8Len b :=
  lenW_append _ a b

theorem utf8Len_nil : utf8Len [] = 0 := rfl

theorem utf8Len_cons (c : Nat) (cs : Text) : utf8Len (c :: cs) = utf8Size c + utf8Len cs := rfl

theorem lenW_one (t : Text) : lenW (fun _ => 1) t = t.length := by
  induction t with
  | nil => rfl
  | cons c cs ih => simp [lenW, ih]; omega

theorem length_le_utf8Len (t : Text) : t.length ≤ utf8Len t := by
  induction t with
  | nil => simp [utf8Len, lenW]
  | cons c cs ih =>
    have := utf8Size_pos c
    simp [utf8Len_cons]; omega

theorem utf8Len_ascii (t : Text) (h : ∀ c ∈ t, c < 128) : utf8Len t = t.length := by
  induction t with
  | nil => rfl
  | cons c cs ih =>
    have h1 := utf8Size_ascii (h c (by simp))
    have h2 := ih (fun x hx => h x (by simp [hx]))
    simp [utf8Len_cons, h1, h2]; omega

theorem countNl_append (a b : Text) : countNl (a ++ b) = countNl a + countNl b := by
  induction a with
  | nil => simp [countNl]
  | cons c cs ih => simp [countNl, ih]; omega

/-! ### positions -/

theorem advanceWAll_append (w : Nat → Nat) (lc : Nat × Nat) (a b : Text) :
    advanceWAll w lc (a ++ b) = advanceWAll w (advanceWAll w lc a) b := by
  induction a generalizing lc with
  | nil => rfl
  | cons c cs ih => simp [advanceWAll, ih]

/-- Closed form of walking over a text: line = lines passed, column from the last line. -/
theorem advanceWAll_eq (w : Nat → Nat) (lc : Nat × Nat) (p : Text) :
    advanceWAll w lc p =
      (lc.1 + countNl p, if countNl p = 0 then lc.2 + lenW w p else lenW w (lastSeg p) + 1) := by
  induction p generalizing lc with
  | nil => simp [advanceWAll, countNl, lenW]
  | cons c cs ih =>
    simp only [advanceWAll, ih, advanceW, countNl, lenW, lastSeg]
    by_cases hc : c = 10
    · by_cases h0 : countNl cs = 0
      · simp [hc, h0]; omega
      · simp [hc, h0]; omega
    · by_cases h0 : countNl cs = 0
      · simp [hc, h0]; omega
      · simp [hc, h0]

theorem lastSeg_of_noNl (p : Text) (h : countNl p = 0) : lastSeg p = p := by
  induction p with
  | nil => rfl
  | cons c cs ih =>
    simp only [countNl] at h
    have hc : c ≠ 10 := by intro hc; simp [hc] at h
    have h0 : countNl cs = 0 := by omega
    simp [lastSeg, h0, hc]

theorem stepCoded_eq (lc : Nat × Nat) (p : Text) : stepCoded lc p = advanceWAll (fun _ => 1) lc p := by
  rw [advanceWAll_eq]
  unfold stepCoded
  simp [lenW_one]

theorem lineColFrom_append (pre rest : Text) (k : Nat) (lc : Nat × Nat) :
    lineColFrom (pre ++ rest) (utf8Len pre + k) lc = lineColFrom rest k (advanceAll lc pre) := by
  induction pre generalizing lc with
  | nil => simp [utf8Len, lenW, advanceAll, advanceWAll]
  | cons c cs ih =>
    have hp := utf8Size_pos c
    have hne : utf8Size c + utf8Len cs + k ≠ 0 := by omega
    have hsub : utf8Size c + utf8Len cs + k - utf8Size c = utf8Len cs + k := by omega
    simp only [List.cons_append, lineColFrom, utf8Len_cons, hne, if_false, hsub, ih]
    simp [advanceAll, advanceWAll]

theorem lineColFrom_zero (rest : Text) (lc : Nat × Nat) : lineColFrom rest 0 lc = lc := by
  cases rest <;> simp [lineColFrom]

/-- The reference position of the character after a prefix `pre` is obtained by walking `pre`. -/
theorem lineCol_prefix (pre rest : Text) : lineCol (pre ++ rest) (utf8Len pre) = advanceAll (1, 1) pre := by
  have := lineColFrom_append pre rest 0 (1, 1)
  simpa [lineCol, lineColFrom_zero] using this

theorem isPrefix_append (t post : Text) : isPrefix t (t ++ post) = true := by
  induction t with
  | nil => cases post <;> rfl
  | cons c cs ih => simp [isPrefix, ih]

theorem occursAt_zero (src text : Text) : occursAt src 0 text = isPrefix text src := by
  cases src <;> simp [occursAt]

theorem occursAt_append (pre text post : Text) :
    occursAt (pre ++ (text ++ post)) (utf8Len pre) text = true := by
  induction pre with
  | nil => simp [utf8Len, lenW, occursAt_zero, isPrefix_append]
  | cons c cs ih =>
    have hp := utf8Size_pos c
    have hne : utf8Size c + utf8Len cs ≠ 0 := by omega
    simp only [List.cons_append, occursAt, utf8Len_cons, hne, if_false]
    have hsub : utf8Size c + utf8Len cs - utf8Size c = utf8Len cs := by omega
    simp [hsub, ih]

theorem isPrefix_sound (t s : Text) (h : isPrefix t s = true) : ∃ post, s = t ++ post := by
  induction t generalizing s with
  | nil => exact ⟨s, rfl⟩
  | cons a as ih =>
    cases s with
    | nil => simp [isPrefix] at h
    | cons b bs =>
      simp [isPrefix] at h
      obtain ⟨post, hp⟩ := ih bs h.2
      exact ⟨post, by simp [h.1, hp]⟩

/-- `occursAt` means what it should: the text stands at a character boundary `pos` bytes in. -/
theorem occursAt_sound (src : Text) (pos : Nat) (text : Text) (h : occursAt src pos text = true) :
    ∃ pre post, src = pre ++ text ++ post ∧ utf8Len pre = pos := by
  induction src generalizing pos with
  | nil =>
    simp [occursAt] at h
    obtain ⟨post, hp⟩ := isPrefix_sound text [] h.2
    exact ⟨[], post, by simpa using hp, by simp [utf8Len, lenW, h.1]⟩
  | cons c cs ih =>
    by_cases h0 : pos = 0
    · simp [occursAt, h0] at h
      obtain ⟨post, hp⟩ := isPrefix_sound text (c :: cs) h
      exact ⟨[], post, by simpa using hp, by simp [utf8Len, lenW, h0]⟩
    · simp [occursAt, h0] at h
      obtain ⟨pre, post, hs, hl⟩ := ih (pos - utf8Size c) h.2
      refine ⟨c :: pre, post, by simp [hs], ?_⟩
      simp [utf8Len_cons, hl]; omega

/-! ### scanner -/

def joinPairs (ps : List (Text × Text)) : Text := ps.flatMap (fun p => p.1 ++ p.2)

theorem joinPairs_cons (g m : Text) (rest : List (Text × Text)) :
    joinPairs ((g, m) :: rest) = g ++ m ++ joinPairs rest := by
  simp [joinPairs]

theorem takeLine_append (t : Text) : (takeLine t).1 ++ (takeLine t).2 = t := by
  induction t with
  | nil => rfl
  | cons c cs ih =>
    by_cases hc : c = 10
    · simp [takeLine, hc]
    · simp [takeLine, hc, ih]

theorem takeBlock_append : ∀ (t : Text) (r : Text × Text), takeBlock t = some r → r.1 ++ r.2 = t
  | [], r, h => by simp [takeBlock] at h
  | [_], r, h => by simp [takeBlock] at h
  | c :: d :: cs, r, h => by
    simp only [takeBlock] at h
    by_cases hcd : c = 42 ∧ d = 47
    · simp [hcd] at h
      subst h; simp [hcd]
    · simp only [hcd, if_false] at h
      cases hb : takeBlock (d :: cs) with
      | none => simp [hb] at h
      | some r' =>
        simp [hb] at h
        have := takeBlock_append (d :: cs) r' hb
        subst h; simp [this]

theorem matchAt_append (t : Text) (r : Text × Text) (h : matchAt t = some r) : r.1 ++ r.2 = t := by
  match t, h with
  | c :: d :: cs, h =>
    simp only [matchAt] at h
    by_cases h1 : c = 47 ∧ d = 47
    · simp [h1] at h; subst h; simp [takeLine_append, h1]
    · simp only [h1, if_false] at h
      by_cases h2 : c = 47 ∧ d = 42
      · simp only [h2, and_self, if_true] at h
        cases hb : takeBlock cs with
        | none => simp [hb] at h
        | some r' =>
          simp [hb] at h
          have := takeBlock_append cs r' hb
          subst h; simp [this, h2]
      · simp [h2] at h
  | [], h => simp [matchAt] at h
  | [_], h => simp [matchAt] at h

theorem matchAt_len2 (t : Text) (r : Text × Text) (h : matchAt t = some r) : 2 ≤ r.1.length := by
  match t, h with
  | c :: d :: cs, h =>
    simp only [matchAt] at h
    by_cases h1 : c = 47 ∧ d = 47
    · simp [h1] at h; subst h; simp
    · simp only [h1, if_false] at h
      by_cases h2 : c = 47 ∧ d = 42
      · simp only [h2, and_self, if_true] at h
        cases hb : takeBlock cs with
        | none => simp [hb] at h
        | some r' => simp [hb] at h; subst h; simp
      · simp [h2] at h
  | [], h => simp [matchAt] at h
  | [_], h => simp [matchAt] at h

theorem joinPairs_consGap (c : Nat) (ps : List (Text × Text)) (h : ps ≠ []) :
    joinPairs (consGap c ps) = c :: joinPairs ps := by
  cases ps with
  | nil => exact absurd rfl h
  | cons p rest => obtain ⟨g, m⟩ := p; simp [consGap, joinPairs]

/-- The matches and the gaps between them are consecutive pieces of the text. -/
theorem scanFuel_partition (f : Nat) (t : Text) : ∃ tr, joinPairs (scanFuel f t) ++ tr = t := by
  induction f generalizing t with
  | zero => exact ⟨t, by simp [scanFuel, joinPairs]⟩
  | succ f ih =>
    cases t with
    | nil => exact ⟨[], by simp [scanFuel, joinPairs]⟩
    | cons c cs =>
      simp only [scanFuel]
      cases hm : matchAt (c :: cs) with
      | some r =>
        obtain ⟨tr, htr⟩ := ih r.2
        refine ⟨tr, ?_⟩
        have := matchAt_append _ _ hm
        simp only [joinPairs_cons, List.nil_append, List.append_assoc, htr, this]
      | none =>
        obtain ⟨tr, htr⟩ := ih cs
        by_cases he : scanFuel f cs = []
        · exact ⟨c :: cs, by simp [he, consGap, joinPairs]⟩
        · exact ⟨tr, by simp [joinPairs_consGap c _ he, htr]⟩

theorem mem_consGap {c : Nat} {ps : List (Text × Text)} {p : Text × Text} (h : p ∈ consGap c ps) :
    ∃ q ∈ ps, q.2 = p.2 := by
  cases ps with
  | nil => simp [consGap] at h
  | cons q rest =>
    obtain ⟨g, m⟩ := q
    simp [consGap] at h
    rcases h with h | h
    · exact ⟨(g, m), by simp, by simp [h]⟩
    · exact ⟨p, by simp [h], rfl⟩

/-- Every match has at least the two characters of its opener. -/
theorem scanFuel_len2 (f : Nat) (t : Text) : ∀ p ∈ scanFuel f t, 2 ≤ p.2.length := by
  induction f generalizing t with
  | zero => simp [scanFuel]
  | succ f ih =>
    cases t with
    | nil => simp [scanFuel]
    | cons c cs =>
      simp only [scanFuel]
      cases hm : matchAt (c :: cs) with
      | some r =>
        intro p hp
        simp at hp
        rcases hp with hp | hp
        · subst hp; exact matchAt_len2 _ _ hm
        · exact ih r.2 p hp
      | none =>
        intro p hp
        obtain ⟨q, hq, hqp⟩ := mem_consGap hp
        rw [← hqp]; exact ih cs q hq

/-- One more unit of fuel changes nothing once the fuel exceeds the length. -/
theorem scanFuel_stable (f : Nat) (t : Text) (h : t.length < f) :
    scanFuel f t = scanFuel (f + 1) t := by
  induction f generalizing t with
  | zero => omega
  | succ f ih =>
    cases t with
    | nil => simp [scanFuel]
    | cons c cs =>
      simp only [List.length_cons] at h
      rw [scanFuel, scanFuel]
      cases hm : matchAt (c :: cs) with
      | some r =>
        have h1 := matchAt_append _ _ hm
        have h2 := matchAt_len2 _ _ hm
        have hl : r.1.length + r.2.length = cs.length + 1 := by
          have := congrArg List.length h1
          simpa using this
        simp only [ih r.2 (by omega)]
      | none =>
        simp only [ih cs (by omega)]

/-- The fuel of `scanComments` is enough: more fuel finds nothing else. -/
theorem scanFuel_enough (k : Nat) (t : Text) :
    scanFuel (t.length + 1 + k) t = scanFuel (t.length + 1) t := by
  induction k with
  | zero => rfl
  | succ k ih =>
    rw [← ih]
    exact (scanFuel_stable (t.length + 1 + k) t (by omega)).symm

/-! ### the loop of `split_comment_token` -/

/-- What a produced token says, relative to the run: its text stands `off` bytes into the run, and
its (line, column) is what walking the text in front of it with column weight `w` gives. -/
def Good (w : Nat → Nat) (lc0 : Nat × Nat) (run : Text) (t : Tok) : Prop :=
  ∃ Q R, run = Q ++ t.text ++ R ∧ t.off = utf8Len Q ∧ (t.line, t.col) = advanceWAll w lc0 Q ∧
    t.len = utf8Len t.text

theorem splitLoop_good (w : Nat → Nat) (step : Nat × Nat → Text → Nat × Nat) (mkPos : Nat → Nat → Nat)
    (hstep : ∀ lc p, step lc p = advanceWAll w lc p) (lc0 : Nat × Nat) (run : Text) :
    ∀ (pairs : List (Text × Text)) (Q prevCom tr : Text) (lc : Nat × Nat) (prevPos : Nat),
      run = Q ++ prevCom ++ joinPairs pairs ++ tr → lc = advanceWAll w lc0 Q → prevPos = utf8Len Q →
      ∀ t ∈ splitLoop step mkPos lc prevPos prevCom pairs,
        Good w lc0 run t ∧ t.pos = mkPos t.off t.len := by
  intro pairs
  induction pairs with
  | nil => intro Q prevCom tr lc prevPos _ _ _ t ht; simp [splitLoop] at ht
  | cons p rest ih =>
    obtain ⟨gap, com⟩ := p
    intro Q prevCom tr lc prevPos hrun hlc hpos t ht
    simp only [splitLoop, List.mem_cons] at ht
    rcases ht with ht | ht
    · subst ht
      refine ⟨⟨Q ++ prevCom ++ gap, joinPairs rest ++ tr, ?_, ?_, ?_, rfl⟩, rfl⟩
      · simp [hrun, joinPairs_cons]
      · simp [hpos, utf8Len_append]
      · simp only [hstep, hlc, advanceWAll_append, List.append_assoc]
    · refine ih (Q ++ prevCom ++ gap) com tr (step lc (prevCom ++ gap))
        (prevPos + utf8Len (prevCom ++ gap)) ?_ ?_ ?_ t ht
      · simp [hrun, joinPairs_cons]
      · simp only [hstep, hlc, advanceWAll_append, List.append_assoc]
      · simp [hpos, utf8Len_append]

theorem splitLoop_lower (step : Nat × Nat → Text → Nat × Nat) (mkPos : Nat → Nat → Nat) :
    ∀ (pairs : List (Text × Text)) (prevCom : Text) (lc : Nat × Nat) (prevPos : Nat),
      ∀ t ∈ splitLoop step mkPos lc prevPos prevCom pairs, prevPos + utf8Len prevCom ≤ t.off := by
  intro pairs
  induction pairs with
  | nil => intro prevCom lc prevPos t ht; simp [splitLoop] at ht
  | cons p rest ih =>
    obtain ⟨gap, com⟩ := p
    intro prevCom lc prevPos t ht
    simp only [splitLoop, List.mem_cons] at ht
    rcases ht with ht | ht
    · subst ht; simp [utf8Len_append]
    · have := ih com _ _ t ht
      simp [utf8Len_append] at this ⊢; omega

/-- Tokens come out in increasing, non-overlapping order of their offsets. -/
theorem splitLoop_order (step : Nat × Nat → Text → Nat × Nat) (mkPos : Nat → Nat → Nat) :
    ∀ (pairs : List (Text × Text)) (prevCom : Text) (lc : Nat × Nat) (prevPos : Nat),
      List.Pairwise (fun a b : Tok => a.off + a.len ≤ b.off)
        (splitLoop step mkPos lc prevPos prevCom pairs) := by
  intro pairs
  induction pairs with
  | nil => intro _ _ _; simp [splitLoop]
  | cons p rest ih =>
    obtain ⟨gap, com⟩ := p
    intro prevCom lc prevPos
    simp only [splitLoop, List.pairwise_cons]
    exact ⟨fun b hb => splitLoop_lower step mkPos rest com _ _ b hb, ih com _ _⟩

theorem splitLoop_text_mem (step : Nat × Nat → Text → Nat × Nat) (mkPos : Nat → Nat → Nat) :
    ∀ (pairs : List (Text × Text)) (prevCom : Text) (lc : Nat × Nat) (prevPos : Nat),
      ∀ t ∈ splitLoop step mkPos lc prevPos prevCom pairs, ∃ p ∈ pairs, p.2 = t.text := by
  intro pairs
  induction pairs with
  | nil => intro prevCom lc prevPos t ht; simp [splitLoop] at ht
  | cons p rest ih =>
    obtain ⟨gap, com⟩ := p
    intro prevCom lc prevPos t ht
    simp only [splitLoop, List.mem_cons] at ht
    rcases ht with ht | ht
    · subst ht; exact ⟨(gap, com), by simp, rfl⟩
    · obtain ⟨q, hq, hqt⟩ := ih com _ _ t ht
      exact ⟨q, by simp [hq], hqt⟩

theorem pairwise_imp_mem {α : Type} {R S : α → α → Prop} {l : List α}
    (h : List.Pairwise R l) (himp : ∀ a b, a ∈ l → b ∈ l → R a b → S a b) : List.Pairwise S l := by
  induction l with
  | nil => simp
  | cons x xs ih =>
    rw [List.pairwise_cons] at h ⊢
    exact ⟨fun b hb => himp x b (by simp) (by simp [hb]) (h.1 b hb),
      ih h.2 (fun a b ha hb => himp a b (by simp [ha]) (by simp [hb]))⟩

end VerylModel.TokenPos
