import VerylModel.Lemmas.EmitEval
import VerylModel.Lemmas.EmitCtx
/-! `eval_eq_ieee`: on the modelled operator set the interpreter on the annotated tree computes the
IEEE 1800 value of the emitted expression. -/
namespace VerylModel.Emit
open VerylModel.SV

/-- what a parent operator working at context `c` sees of an operand value -/
def seen (v : Val) (c : Ctx) : Nat := (expand v c.w c.s).v % 2 ^ c.w

def dfltDecl : Decl := { width := 1, signed := false }

/-- operator set of `eval_eq_ieee` (everything else is outside the theorem, not outside the
differential runs): variables, selects of unsigned variables, sized and decimal literals, all unary
operators, `+ - * / % & | ^ ~^`, shifts, `&& ||`, `if`-expressions, concatenation and repeat -/
def evalOK (decls : List Decl) : VExpr → Bool
  | .var id => decide (0 < (decls.getD id dfltDecl).width)
  | .bitsel id _ => !(decls.getD id dfltDecl).signed
  | .partsel id hi lo => !(decls.getD id dfltDecl).signed && decide (lo ≤ hi)
  | .lit w _ v => decide (0 < w) && decide (v < 2 ^ w)
  | .dec v => decide (v < 2 ^ 32)
  | .fill _ => false
  | .un _ a => evalOK decls a
  | .bin op a b => evalOK decls a && evalOK decls b && (op.isArith || op.isShift || op == .land || op == .lor)
  | .ifx c a b => evalOK decls c && evalOK decls a && evalOK decls b
  | .cat a b => evalOK decls a && evalOK decls b
  | .rep n a => decide (0 < n) && evalOK decls a
  | .asNum _ _ => false
  | .asInt _ _ _ => false
  | .sysSigned _ _ => false

theorem gather_pos (decls : List Decl) (e : VExpr) (h : evalOK decls e = true) : 0 < (gather decls e).w := by
  induction e with
  | var id => simpa [evalOK, gather, dfltDecl] using h
  | bitsel id i => simp [gather]
  | partsel id hi lo =>
    simp only [evalOK, Bool.and_eq_true, decide_eq_true_eq] at h
    simp only [gather]; omega
  | lit w s v => simp only [evalOK, Bool.and_eq_true, decide_eq_true_eq] at h; simpa [gather] using h.1
  | dec v => simp [gather]
  | fill b => simp [evalOK] at h
  | un op a ih =>
    simp only [evalOK] at h
    simp only [gather]; split
    · simp
    · exact ih h
  | bin op a b iha ihb =>
    simp only [evalOK, Bool.and_eq_true] at h
    have ha := iha h.1.1
    simp only [gather]
    split
    · simp only; omega
    · split
      · exact ha
      · split <;> simp
  | ifx c a b _ iha _ =>
    simp only [evalOK, Bool.and_eq_true] at h
    have ha := iha h.1.2
    simp only [gather]; omega
  | cat a b iha _ =>
    simp only [evalOK, Bool.and_eq_true] at h
    have ha := iha h.1
    simp only [gather]; omega
  | rep n a ih =>
    simp only [evalOK, Bool.and_eq_true, decide_eq_true_eq] at h
    have ha := ih h.2
    simp only [gather]
    exact Nat.mul_pos h.1 ha
  | asNum n a _ => simp [evalOK] at h
  | asInt sg w a _ => simp [evalOK] at h
  | sysSigned s a _ => simp [evalOK] at h

theorem annot_ctx (decls : List Decl) (e : VExpr) (c : Ctx) (h : evalOK decls e = true) : (annot decls e c).ctx = c := by
  cases e with
  | var id => rfl
  | bitsel id i => rfl
  | partsel id hi lo => rfl
  | lit w s v => rfl
  | dec v => rfl
  | fill b => rfl
  | un op a => simp only [annot]; split <;> rfl
  | bin op a b =>
    simp only [annot]
    split
    · rfl
    · split
      · rfl
      · split <;> rfl
  | ifx cnd a b => rfl
  | cat a b => rfl
  | rep n a => rfl
  | asNum n a => simp [evalOK] at h
  | asInt sg w a => simp [evalOK] at h
  | sysSigned s a => simp [evalOK] at h

/-- invariant of an operand value evaluated at context `c` (`g` = its gathered context) -/
structure WFV (g c : Ctx) (v : Val) : Prop where
  pos : 0 < v.w
  wd : v.w = c.w ∨ v.w = g.w
  lt : v.v < 2 ^ v.w

/-- Veryl-side result vs IEEE result: both x, or a well-formed value that the parent sees as the IEEE value -/
def Rel (g c : Ctx) : Option Val → Option Nat → Prop
  | none, none => True
  | some v, some n => WFV g c v ∧ seen v c = n
  | _, _ => False

theorem seen_of_eq (v : Val) (c : Ctx) (hw : v.w = c.w) (hp : 0 < v.w) : seen v c = v.v % 2 ^ c.w := by
  unfold seen expand
  have : v.w ≥ c.w ∧ v.w ≠ 0 := ⟨by omega, by omega⟩
  simp [this]

theorem seen_of_lt (v : Val) (c : Ctx) (hp : 0 < v.w) (hw : v.w < c.w) :
    seen v c = ext v.v v.w c.w (v.s && c.s) := by
  unfold seen expand
  have h1 : ¬ (v.w ≥ c.w ∧ v.w ≠ 0) := by omega
  have h2 : ¬ (v.w = 0) := by omega
  simp only [h1, h2, if_false]
  exact Nat.mod_eq_of_lt (ext_lt _ _ _ _)

theorem seen_lt (v : Val) (c : Ctx) : seen v c < 2 ^ c.w := Nat.mod_lt _ (two_pow_pos' _)

/-- a leaf of width `w`, sign flag `f`, value `x < 2^w` in a context `c` with `w ≤ c.w`; `f'` is
the sign IEEE extends by (`c.s`), equal to `f && c.s` -/
theorem seen_leaf (w x : Nat) (f : Bool) (c : Ctx) (hp : 0 < w) (hle : w ≤ c.w) (hf : (f && c.s) = c.s) :
    seen ⟨w, f, x⟩ c = ext x w c.w c.s % 2 ^ c.w := by
  by_cases h : w = c.w
  · rw [seen_of_eq _ _ h hp]
    simp only [ext, h, Nat.le_refl, if_true, Nat.mod_mod]
  · rw [seen_of_lt _ _ hp (by simp only; omega)]
    simp only [hf]
    exact (Nat.mod_eq_of_lt (ext_lt _ _ _ _)).symm

theorem evalOK_ctxOK (decls : List Decl) (e : VExpr) (h : evalOK decls e = true) : ctxOK decls e = true := by
  induction e with
  | var id => rfl
  | bitsel id i => simpa [evalOK, ctxOK, dfltDecl] using h
  | partsel id hi lo =>
    simp only [evalOK, Bool.and_eq_true] at h
    simpa [ctxOK, dfltDecl] using h.1
  | lit w s v => rfl
  | dec v => rfl
  | fill b => simp [evalOK] at h
  | un op a ih => simp only [evalOK] at h; simpa [ctxOK] using ih h
  | bin op a b iha ihb =>
    simp only [evalOK, Bool.and_eq_true] at h
    have h3 := h.2
    simp only [ctxOK, iha h.1.1, ihb h.1.2, Bool.true_and]
    cases op <;> simp_all [BinOp.isArith, BinOp.isShift]
  | ifx c a b ihc iha ihb =>
    simp only [evalOK, Bool.and_eq_true] at h
    simp [ctxOK, ihc h.1.1, iha h.1.2, ihb h.2]
  | cat a b iha ihb =>
    simp only [evalOK, Bool.and_eq_true] at h
    simp [ctxOK, iha h.1, ihb h.2]
  | rep n a ih =>
    simp only [evalOK, Bool.and_eq_true] at h
    simpa [ctxOK] using ih h.2
  | asNum n a _ => simp [evalOK] at h
  | asInt sg w a _ => simp [evalOK] at h
  | sysSigned s a _ => simp [evalOK] at h

/-- size / type of the emitted operand in terms of the gathered context -/
theorem size_eq (decls : List Decl) (vals : List Nat) (e : VExpr) (h : evalOK decls e = true) :
    size { decls := decls, vals := vals } (emitExpr e) = (gather decls e).w := by
  rw [gather_eq_ieee decls vals e (evalOK_ctxOK decls e h)]

theorem sgn_eq (decls : List Decl) (vals : List Nat) (e : VExpr) (h : evalOK decls e = true) :
    sgn { decls := decls, vals := vals } (emitExpr e) = (gather decls e).s := by
  rw [gather_eq_ieee decls vals e (evalOK_ctxOK decls e h)]

/-- a self-determined operand: the value has exactly the gathered width and IS the IEEE value -/
theorem rel_selfdet (g : Ctx) (v : Val) (n : Nat) (h : Rel g g (some v) (some n)) :
    v.w = g.w ∧ v.v = n ∧ v.v < 2 ^ g.w ∧ 0 < g.w := by
  obtain ⟨⟨hp, hwd, hlt⟩, hs⟩ := h
  have hw : v.w = g.w := by rcases hwd with h | h <;> exact h
  rw [seen_of_eq v g hw hp] at hs
  rw [hw] at hlt hp
  exact ⟨hw, by rw [← hs, Nat.mod_eq_of_lt hlt], hlt, hp⟩

theorem parity_le_one (v k : Nat) : parity v k ≤ 1 := by
  cases k with
  | zero => simp [parity]
  | succ k => simp only [parity]; omega

theorem b2n_le_one (b : Bool) : b2n b ≤ 1 := by cases b <;> simp [b2n]

theorem reduce_le_one (op : UnOp) (v aw : Nat) : reduce op v aw ≤ 1 := by
  cases op <;> simp only [reduce] <;> first | exact b2n_le_one _ | exact parity_le_one _ _ | (have := parity_le_one v aw; omega)

/-- a 1-bit result in a context of `c.w > 0` bits -/
theorem rel_bit (g c : Ctx) (b : Nat) (hb : b ≤ 1) (hc : 0 < c.w) :
    Rel g c (some ⟨max c.w 1, false, b⟩) (some (ext b 1 c.w false % 2 ^ c.w)) := by
  have hm : max c.w 1 = c.w := by omega
  have h2 : 2 ≤ 2 ^ c.w := by
    calc 2 = 2 ^ 1 := rfl
      _ ≤ 2 ^ c.w := Nat.pow_le_pow_right (by decide) hc
  refine ⟨⟨by simp only [hm]; exact hc, Or.inl hm, ?_⟩, ?_⟩
  · simp only [hm]; omega
  · rw [seen_of_eq _ c hm (by simp only [hm]; exact hc)]
    simp only [ext]
    by_cases h1 : c.w ≤ 1
    · simp only [h1, if_true, Nat.mod_mod]
    · simp only [h1, if_false, Bool.false_and, Bool.false_eq_true, if_false]
      have : b % 2 ^ 1 = b := Nat.mod_eq_of_lt (by simp; omega)
      rw [this]

/-- the expanded value is below `2^(its width)` -/
theorem expand_lt (g c : Ctx) (v : Val) (h : WFV g c v) (hg : g.w ≤ c.w) (hc : 0 < c.w) :
    (expand v c.w c.s).v < 2 ^ (expand v c.w c.s).w := by
  unfold expand
  have hp := h.pos
  have hle : v.w ≤ c.w := by rcases h.wd with h | h <;> omega
  by_cases h1 : v.w ≥ c.w ∧ v.w ≠ 0
  · rw [if_pos h1]; exact h.lt
  · have h2 : ¬ v.w = 0 := by omega
    rw [if_neg h1, if_neg h2]
    exact ext_lt _ _ _ _

/-- a result of exactly the context width -/
theorem rel_full (g c : Ctx) (f : Bool) (r : Nat) (hc : 0 < c.w) :
    Rel g c (some ⟨c.w, f, r % 2 ^ c.w⟩) (some (r % 2 ^ c.w)) := by
  refine ⟨⟨hc, Or.inl rfl, Nat.mod_lt _ (two_pow_pos' _)⟩, ?_⟩
  rw [seen_of_eq _ c rfl hc]; simp

/-- `expand` to the context and what is seen of it -/
theorem expand_seen (g c : Ctx) (v : Val) (h : WFV g c v) (hg : g.w ≤ c.w) (hc : 0 < c.w) :
    (expand v c.w c.s).w = c.w ∧ (expand v c.w c.s).v % 2 ^ c.w = seen v c := by
  refine ⟨?_, rfl⟩
  unfold expand
  have hp := h.pos
  have hle : v.w ≤ c.w := by rcases h.wd with h | h <;> omega
  by_cases h1 : v.w ≥ c.w ∧ v.w ≠ 0
  · rw [if_pos h1]; omega
  · have h2 : ¬ v.w = 0 := by omega
    rw [if_neg h1, if_neg h2]

theorem rel_cases {g c : Ctx} {ov : Option Val} {on : Option Nat} (h : Rel g c ov on) :
    (ov = none ∧ on = none) ∨ ∃ v n, ov = some v ∧ on = some n ∧ WFV g c v ∧ seen v c = n := by
  cases ov <;> cases on <;> simp_all [Rel]

theorem evalA_bin (decls : List Decl) (vals : List Nat) (op : BinOp) (a b : AExpr) (c : Ctx) :
    evalA decls vals (.bin op a b c) =
      match evalA decls vals a, evalA decls vals b with
      | some x, some y => evalBin op x y (binCtx op a b c)
      | _, _ => none := by
  simp only [evalA]
  cases evalA decls vals a <;> cases evalA decls vals b <;> rfl

theorem binCtx_same (op : BinOp) (a b : AExpr) (c : Ctx) (ha : a.ctx = c) (hb : b.ctx = c) : binCtx op a b c = c := by
  cases op <;> simp [binCtx, ha, hb]

theorem binCtx_shift (op : BinOp) (a b : AExpr) (c : Ctx) (h : op.isShift = true ∨ op = .land ∨ op = .lor) :
    binCtx op a b c = c := by
  cases op <;> simp_all [binCtx, BinOp.isShift]

theorem evalA_ifx (decls : List Decl) (vals : List Nat) (cnd a b : AExpr) (c : Ctx) :
    evalA decls vals (.ifx cnd a b c) =
      match evalA decls vals cnd, evalA decls vals a, evalA decls vals b with
      | some cv, some x, some y =>
        some (if (if cv.v ≠ 0 then x else y).w < c.w then expand (if cv.v ≠ 0 then x else y) c.w (a.ctx.s && b.ctx.s)
              else (if cv.v ≠ 0 then x else y))
      | _, _, _ => none := by
  simp only [evalA]
  cases evalA decls vals cnd <;> cases evalA decls vals a <;> cases evalA decls vals b <;> rfl

theorem evalA_cat (decls : List Decl) (vals : List Nat) (a b : AExpr) (c : Ctx) :
    evalA decls vals (.cat a b c) =
      match evalA decls vals a, evalA decls vals b with
      | some x, some y => some (catVal x y)
      | _, _ => none := by
  simp only [evalA]
  cases evalA decls vals a <;> cases evalA decls vals b <;> rfl

/-- the selected branch, widened to the context when narrower -/
theorem rel_widen (g g' c : Ctx) (r : Val) (hwf : WFV g c r) (hg : g.w ≤ c.w) (hc : 0 < c.w) :
    WFV g' c (if r.w < c.w then expand r c.w c.s else r) ∧
    seen (if r.w < c.w then expand r c.w c.s else r) c = seen r c := by
  have hle : r.w ≤ c.w := by rcases hwf.wd with h | h <;> omega
  by_cases h : r.w < c.w
  · rw [if_pos h]
    obtain ⟨hew, _⟩ := expand_seen g c r hwf hg hc
    refine ⟨⟨by rw [hew]; exact hc, Or.inl hew, expand_lt g c r hwf hg hc⟩, ?_⟩
    rw [seen_of_eq _ c hew (by rw [hew]; exact hc)]
    rfl
  · rw [if_neg h]
    have he : r.w = c.w := by omega
    exact ⟨⟨hwf.pos, Or.inl he, hwf.lt⟩, rfl⟩

theorem cat_lt (x y a b : Nat) (hx : x < 2 ^ a) : x * 2 ^ b + y % 2 ^ b < 2 ^ (a + b) := by
  have hy : y % 2 ^ b < 2 ^ b := Nat.mod_lt _ (two_pow_pos' b)
  have h1 : (x + 1) * 2 ^ b ≤ 2 ^ a * 2 ^ b := Nat.mul_le_mul_right _ hx
  rw [Nat.pow_add]
  have h2 : (x + 1) * 2 ^ b = x * 2 ^ b + 2 ^ b := by rw [Nat.add_mul, Nat.one_mul]
  omega

theorem repVal_eq (x : Val) (n : Nat) : repVal x n = ⟨n * x.w, false, replicate x.v x.w n⟩ := by
  induction n with
  | zero => simp [repVal, replicate]
  | succ n ih => simp only [repVal, ih, catVal, replicate, Nat.succ_mul]

theorem replicate_lt (v aw n : Nat) : replicate v aw n < 2 ^ (n * aw) := by
  induction n with
  | zero => simp [replicate]
  | succ n ih =>
    simp only [replicate, Nat.succ_mul]
    exact cat_lt _ _ _ _ ih

theorem bitsOf_lt (v hi lo : Nat) : bitsOf v hi lo < 2 ^ (hi + 1 - lo) := Nat.mod_lt _ (two_pow_pos' _)

theorem evalA_rel (decls : List Decl) (vals : List Nat) (e : VExpr) :
    evalOK decls e = true → ∀ c : Ctx, (gather decls e).w ≤ c.w → (c.s = true → (gather decls e).s = true) →
      Rel (gather decls e) c (evalA decls vals (annot decls e c))
        (eval { decls := decls, vals := vals } (emitExpr e) c.w c.s) := by
  induction e with
  | var id =>
    intro h c hw hs
    simp only [evalOK, decide_eq_true_eq] at h
    simp only [gather] at hw hs
    simp only [annot, evalA, emitExpr, eval, Rel, Env.val, Env.decl, gather]
    refine ⟨⟨h, Or.inr rfl, Nat.mod_lt _ (two_pow_pos' _)⟩, ?_⟩
    exact seen_leaf _ _ _ c h hw (by simp)
  | bitsel id i =>
    intro h c hw hs
    simp only [evalOK, Bool.not_eq_true'] at h
    simp only [gather, h] at hw hs
    have hcs : c.s = false := by cases hc : c.s <;> simp_all [dfltDecl]
    simp only [annot, evalA, emitExpr, eval, Rel, Env.val, Env.decl, gather]
    refine ⟨⟨Nat.one_pos, Or.inr rfl, by simpa using bitsOf_lt _ i i⟩, ?_⟩
    rw [seen_leaf 1 _ false c Nat.one_pos hw (by simp [hcs]), hcs]
  | partsel id hi lo =>
    intro h c hw hs
    simp only [evalOK, Bool.and_eq_true, Bool.not_eq_true', decide_eq_true_eq] at h
    simp only [gather, h.1] at hw hs
    have hcs : c.s = false := by cases hc : c.s <;> simp_all [dfltDecl]
    simp only [annot, evalA, emitExpr, eval, Rel, Env.val, Env.decl, gather]
    refine ⟨⟨by simp only; omega, Or.inr rfl, bitsOf_lt _ hi lo⟩, ?_⟩
    rw [seen_leaf (hi + 1 - lo) _ false c (by omega) hw (by simp [hcs]), hcs]
  | lit w s v =>
    intro h c hw hs
    simp only [evalOK, Bool.and_eq_true, decide_eq_true_eq] at h
    simp only [gather] at hw hs
    simp only [annot, evalA, emitExpr, eval, Rel, gather]
    refine ⟨⟨h.1, Or.inr rfl, h.2⟩, ?_⟩
    exact seen_leaf w v s c h.1 hw (by cases hc : c.s <;> simp_all)
  | dec v =>
    intro h c hw hs
    simp only [evalOK, decide_eq_true_eq] at h
    simp only [gather] at hw hs
    simp only [annot, evalA, emitExpr, eval, Rel, gather]
    refine ⟨⟨by simp, Or.inr rfl, h⟩, ?_⟩
    exact seen_leaf 32 v true c (by simp) hw (by simp)
  | fill b => intro h; simp [evalOK] at h
  | un op a ih =>
    intro h c hw hs
    simp only [evalOK] at h
    have hgp := gather_pos decls a h
    have hsz := size_eq decls vals a h
    have hsg := sgn_eq decls vals a h
    by_cases hr : op.isReduce = true
    · -- reduction / `!`: operand self-determined, 1-bit unsigned result
      simp only [gather, hr, if_true] at hw hs ⊢
      have hcp : 0 < c.w := by omega
      have hrel := ih h (gather decls a) (Nat.le_refl _) (fun x => x)
      have hev : eval { decls := decls, vals := vals } (emitExpr (.un op a)) c.w c.s =
          (eval { decls := decls, vals := vals } (emitExpr a) (gather decls a).w (gather decls a).s).map
            fun v => ext (reduce op v (gather decls a).w) 1 c.w false % 2 ^ c.w := by
        cases op <;> simp [UnOp.isReduce] at hr <;> simp only [emitExpr, eval, hsz, hsg]
      rw [hev]
      simp only [annot, hr, if_true, evalA]
      cases hva : evalA decls vals (annot decls a (gather decls a)) with
      | none =>
        cases hna : eval { decls := decls, vals := vals } (emitExpr a) (gather decls a).w (gather decls a).s with
        | none => simp [Rel]
        | some n => rw [hva, hna] at hrel; simp [Rel] at hrel
      | some v =>
        cases hna : eval { decls := decls, vals := vals } (emitExpr a) (gather decls a).w (gather decls a).s with
        | none => rw [hva, hna] at hrel; simp [Rel] at hrel
        | some n =>
          rw [hva, hna] at hrel
          obtain ⟨hvw, hvv, _, _⟩ := rel_selfdet _ v n hrel
          have hun : evalUn op v c = ⟨max c.w 1, false, reduce op v.v v.w⟩ := by
            cases op <;> simp [UnOp.isReduce] at hr <;> rfl
          simp only [Option.map_some, hun, hvw, hvv]
          exact rel_bit _ c _ (reduce_le_one _ _ _) hcp
    · -- `+ - ~`: operand in the same context
      have hr' : op.isReduce = false := by simpa using hr
      simp only [gather, hr', Bool.false_eq_true, if_false] at hw hs ⊢
      have hcp : 0 < c.w := by omega
      have hrel := ih h c hw hs
      simp only [annot, hr', Bool.false_eq_true, if_false, evalA]
      cases hva : evalA decls vals (annot decls a c) with
      | none =>
        cases hna : eval { decls := decls, vals := vals } (emitExpr a) c.w c.s with
        | none => cases op <;> simp [UnOp.isReduce] at hr' <;> simp [emitExpr, eval, hna, Rel]
        | some n => rw [hva, hna] at hrel; simp [Rel] at hrel
      | some v =>
        cases hna : eval { decls := decls, vals := vals } (emitExpr a) c.w c.s with
        | none => rw [hva, hna] at hrel; simp [Rel] at hrel
        | some n =>
          rw [hva, hna] at hrel
          obtain ⟨hwf, hseen⟩ := hrel
          obtain ⟨hew, hev⟩ := expand_seen _ c v hwf hw hcp
          have hn : n < 2 ^ c.w := by rw [← hseen]; exact seen_lt _ _
          have hnm : n % 2 ^ c.w = n := Nat.mod_eq_of_lt hn
          cases op <;> simp [UnOp.isReduce] at hr'
          · -- plus
            simp only [emitExpr, eval, hna, Option.map_some, evalUn, hnm]
            have hlt := expand_lt (gather decls a) c v hwf hw hcp
            refine ⟨⟨by rw [hew]; exact hcp, Or.inl hew, hlt⟩, ?_⟩
            rw [seen_of_eq _ c hew (by rw [hew]; exact hcp), hev, hseen]
          · -- neg
            simp only [emitExpr, eval, hna, Option.map_some, evalUn, hew, hnm]
            rw [hev, hseen]
            exact rel_full (gather decls a) c (expand v c.w c.s).s (2 ^ c.w - n) hcp
          · -- bnot
            simp only [emitExpr, eval, hna, Option.map_some, evalUn, hew, hnm]
            rw [hev, hseen]
            have hm : (2 ^ c.w - 1 - n) % 2 ^ c.w = 2 ^ c.w - 1 - n := Nat.mod_eq_of_lt (by omega)
            have := rel_full (gather decls a) c (expand v c.w c.s).s (2 ^ c.w - 1 - n) hcp
            rw [hm] at this ⊢
            exact this
  | bin op a b iha ihb =>
    intro h c hw hs
    simp only [evalOK, Bool.and_eq_true] at h
    obtain ⟨⟨hoa, hob⟩, hop⟩ := h
    have hgpa := gather_pos decls a hoa
    have hgpb := gather_pos decls b hob
    by_cases hA : op.isArith = true
    · -- context-determined operands
      simp only [gather, hA, if_true] at hw hs
      have hcp : 0 < c.w := by omega
      have hra := iha hoa c (by omega) (fun x => by have := hs x; simp only [Bool.and_eq_true] at this; exact this.1)
      have hrb := ihb hob c (by omega) (fun x => by have := hs x; simp only [Bool.and_eq_true] at this; exact this.2)
      simp only [annot, hA, if_true, emitExpr, eval, evalA_bin]
      rw [binCtx_same op _ _ c (annot_ctx decls a c hoa) (annot_ctx decls b c hob)]
      rcases rel_cases hra with ⟨h1, h2⟩ | ⟨x, n, h1, h2, hwx, hsx⟩
      · rw [h1, h2]; simp [Rel]
      · rcases rel_cases hrb with ⟨h3, h4⟩ | ⟨y, m, h3, h4, hwy, hsy⟩
        · rw [h1, h2, h3, h4]; simp [Rel]
        · rw [h1, h2, h3, h4]
          simp only [evalBin, hA, if_true]
          have e1 : (expand x c.w c.s).v % 2 ^ c.w = n := hsx
          have e2 : (expand y c.w c.s).v % 2 ^ c.w = m := hsy
          rw [e1, e2]
          cases harith : arith op n m c.w c.s with
          | none => simp [Rel]
          | some r => simp only [Option.map_some]; exact rel_full _ c _ r hcp
    · have hA' : op.isArith = false := by simpa using hA
      by_cases hS : op.isShift = true
      · -- shift: amount self-determined
        have hP : (op == BinOp.pow) = false := by cases op <;> simp_all [BinOp.isShift]
        have hC : op.isCmp = false := by cases op <;> simp_all [BinOp.isShift, BinOp.isCmp]
        simp only [gather, hA', hS, Bool.true_or, Bool.false_eq_true, if_false, if_true] at hw hs
        have hcp : 0 < c.w := by omega
        have hra := iha hoa c hw hs
        have hrb := ihb hob (gather decls b) (Nat.le_refl _) (fun x => x)
        simp only [annot, hA', hS, Bool.true_or, Bool.false_eq_true, if_false, if_true, emitExpr, eval, evalA_bin,
          size_eq decls vals b hob, sgn_eq decls vals b hob]
        rw [binCtx_shift op _ _ c (Or.inl hS)]
        rcases rel_cases hra with ⟨h1, h2⟩ | ⟨x, n, h1, h2, hwx, hsx⟩
        · rw [h1, h2]; simp [Rel]
        · rcases rel_cases hrb with ⟨h3, h4⟩ | ⟨y, m, h3, h4, hwy, hsy⟩
          · rw [h1, h2, h3, h4]; simp [Rel]
          · rw [h1, h2, h3, h4]
            have hrel : Rel (gather decls b) (gather decls b) (some y) (some m) := ⟨hwy, hsy⟩
            obtain ⟨_, hyv, _, _⟩ := rel_selfdet _ y m hrel
            simp only [evalBin, hA', hS, Bool.false_eq_true, if_false, if_true]
            have e1 : (expand x c.w c.s).v % 2 ^ c.w = n := hsx
            rw [e1, hyv]
            exact rel_full _ c _ _ hcp
      · -- `&&` `||`: both operands self-determined
        have hS' : op.isShift = false := by simpa using hS
        have hL : op = .land ∨ op = .lor := by
          cases op <;> simp_all [BinOp.isArith, BinOp.isShift]
        have hP : (op == BinOp.pow) = false := by rcases hL with h | h <;> subst h <;> rfl
        have hC : op.isCmp = false := by rcases hL with h | h <;> subst h <;> rfl
        have hE : (op == BinOp.eq) = false ∧ (op == BinOp.ne) = false := by rcases hL with h | h <;> subst h <;> exact ⟨rfl, rfl⟩
        have hg : gather decls (.bin op a b) = ⟨1, false⟩ := by
          rcases hL with h | h <;> subst h <;> simp [gather, BinOp.isArith, BinOp.isShift]
        rw [hg] at hw ⊢
        have hcp : 0 < c.w := hw
        have hra := iha hoa (gather decls a) (Nat.le_refl _) (fun x => x)
        have hrb := ihb hob (gather decls b) (Nat.le_refl _) (fun x => x)
        simp only [annot, hA', hS', hP, hC, Bool.or_self, Bool.false_eq_true, if_false, emitExpr, eval, evalA_bin,
          size_eq decls vals a hoa, sgn_eq decls vals a hoa, size_eq decls vals b hob, sgn_eq decls vals b hob]
        rw [binCtx_shift op _ _ c (Or.inr hL)]
        rcases rel_cases hra with ⟨h1, h2⟩ | ⟨x, n, h1, h2, hwx, hsx⟩
        · rw [h1, h2]; simp [Rel]
        · rcases rel_cases hrb with ⟨h3, h4⟩ | ⟨y, m, h3, h4, hwy, hsy⟩
          · rw [h1, h2, h3, h4]; simp [Rel]
          · rw [h1, h2, h3, h4]
            obtain ⟨_, hxv, _, _⟩ := rel_selfdet _ x n ⟨hwx, hsx⟩
            obtain ⟨_, hyv, _, _⟩ := rel_selfdet _ y m ⟨hwy, hsy⟩
            simp only [evalBin, hA', hS', hP, hC, hE.1, hE.2, Bool.or_self, Bool.false_eq_true, if_false, bitVal, hxv, hyv]
            exact rel_bit _ c _ (b2n_le_one _) hcp
  | ifx cnd a b ihc iha ihb =>
    intro h c hw hs
    simp only [evalOK, Bool.and_eq_true] at h
    obtain ⟨⟨hoc, hoa⟩, hob⟩ := h
    have hgpa := gather_pos decls a hoa
    simp only [gather] at hw hs
    have hcp : 0 < c.w := by omega
    have hrc := ihc hoc (gather decls cnd) (Nat.le_refl _) (fun x => x)
    have hra := iha hoa c (by omega) (fun x => by have := hs x; simp only [Bool.and_eq_true] at this; exact this.1)
    have hrb := ihb hob c (by omega) (fun x => by have := hs x; simp only [Bool.and_eq_true] at this; exact this.2)
    simp only [annot, emitExpr, eval, evalA_ifx, size_eq decls vals cnd hoc, sgn_eq decls vals cnd hoc,
      annot_ctx decls a c hoa, annot_ctx decls b c hob, Bool.and_self]
    rcases rel_cases hrc with ⟨h1, h2⟩ | ⟨cv, k, h1, h2, hwc, hsc⟩
    · rw [h1, h2]; simp [Rel]
    · rcases rel_cases hra with ⟨h3, h4⟩ | ⟨x, n, h3, h4, hwx, hsx⟩
      · rw [h1, h2, h3, h4]; simp [Rel]
      · rcases rel_cases hrb with ⟨h5, h6⟩ | ⟨y, m, h5, h6, hwy, hsy⟩
        · rw [h1, h2, h3, h4, h5, h6]; simp [Rel]
        · rw [h1, h2, h3, h4, h5, h6]
          obtain ⟨_, hcv, _, _⟩ := rel_selfdet _ cv k ⟨hwc, hsc⟩
          simp only [hcv]
          by_cases hk : k ≠ 0
          · simp only [hk, ne_eq, not_false_eq_true, if_true]
            obtain ⟨hw1, hs1⟩ := rel_widen (gather decls a) (gather decls (.ifx cnd a b)) c x hwx (by omega) hcp
            refine ⟨hw1, ?_⟩
            rw [hs1, hsx]
            exact (Nat.mod_eq_of_lt (by rw [← hsx]; exact seen_lt _ _)).symm
          · have hk0 : k = 0 := by simpa using hk
            simp only [hk0, ne_eq, not_true_eq_false, if_false]
            obtain ⟨hw1, hs1⟩ := rel_widen (gather decls b) (gather decls (.ifx cnd a b)) c y hwy (by omega) hcp
            refine ⟨hw1, ?_⟩
            rw [hs1, hsy]
            exact (Nat.mod_eq_of_lt (by rw [← hsy]; exact seen_lt _ _)).symm
  | cat a b iha ihb =>
    intro h c hw hs
    simp only [evalOK, Bool.and_eq_true] at h
    obtain ⟨hoa, hob⟩ := h
    have hgpa := gather_pos decls a hoa
    simp only [gather] at hw hs
    have hcs : c.s = false := by cases hc : c.s <;> simp_all
    have hra := iha hoa (gather decls a) (Nat.le_refl _) (fun x => x)
    have hrb := ihb hob (gather decls b) (Nat.le_refl _) (fun x => x)
    simp only [annot, emitExpr, eval, evalA_cat, size_eq decls vals a hoa, sgn_eq decls vals a hoa,
      size_eq decls vals b hob, sgn_eq decls vals b hob]
    rcases rel_cases hra with ⟨h1, h2⟩ | ⟨x, n, h1, h2, hwx, hsx⟩
    · rw [h1, h2]; simp [Rel]
    · rcases rel_cases hrb with ⟨h3, h4⟩ | ⟨y, m, h3, h4, hwy, hsy⟩
      · rw [h1, h2, h3, h4]; simp [Rel]
      · rw [h1, h2, h3, h4]
        obtain ⟨hxw, hxv, hxl, _⟩ := rel_selfdet _ x n ⟨hwx, hsx⟩
        obtain ⟨hyw, hyv, _, _⟩ := rel_selfdet _ y m ⟨hwy, hsy⟩
        simp only [catVal, hxw, hyw, hxv, hyv, gather]
        rw [hxv] at hxl
        refine ⟨⟨by simp only; omega, Or.inr rfl, cat_lt _ _ _ _ hxl⟩, ?_⟩
        rw [seen_leaf _ _ false c (by omega) hw (by simp [hcs]), hcs]
  | rep n a ih =>
    intro h c hw hs
    simp only [evalOK, Bool.and_eq_true, decide_eq_true_eq] at h
    obtain ⟨hn, hoa⟩ := h
    have hgpa := gather_pos decls a hoa
    simp only [gather] at hw hs
    have hcs : c.s = false := by cases hc : c.s <;> simp_all
    have hra := ih hoa (gather decls a) (Nat.le_refl _) (fun x => x)
    simp only [annot, emitExpr, eval, evalA, size_eq decls vals a hoa, sgn_eq decls vals a hoa]
    rcases rel_cases hra with ⟨h1, h2⟩ | ⟨x, m, h1, h2, hwx, hsx⟩
    · rw [h1, h2]; simp [Rel]
    · rw [h1, h2]
      obtain ⟨hxw, hxv, _, _⟩ := rel_selfdet _ x m ⟨hwx, hsx⟩
      simp only [Option.map_some, repVal_eq, hxw, hxv, gather]
      have hpos : 0 < n * (gather decls a).w := Nat.mul_pos hn hgpa
      refine ⟨⟨hpos, Or.inr rfl, replicate_lt _ _ _⟩, ?_⟩
      rw [seen_leaf _ _ false c hpos hw (by simp [hcs]), hcs]
  | asNum n a _ => intro h; simp [evalOK] at h
  | asInt sg w a _ => intro h; simp [evalOK] at h
  | sysSigned s a _ => intro h; simp [evalOK] at h

/-- the value an assignment stores: Veryl side = IEEE §10.7 on the emitted expression -/
theorem assign_eq (decls : List Decl) (vals : List Nat) (e : VExpr) (lw : Nat) (h : evalOK decls e = true) :
    assignValV decls vals lw e = assignVal { decls := decls, vals := vals } lw (emitExpr e) := by
  have hrel := evalA_rel decls vals e h ⟨max (gather decls e).w lw, (gather decls e).s⟩ (Nat.le_max_left _ _) (fun x => x)
  simp only [assignValV, assignVal, size_eq decls vals e h, sgn_eq decls vals e h]
  have hmax : max (max (gather decls e).w lw) lw = max (gather decls e).w lw := by omega
  rcases rel_cases hrel with ⟨h1, h2⟩ | ⟨v, n, h1, h2, _, hs⟩
  · rw [h1, h2]; rfl
  · rw [h1, h2]
    simp only [Option.map_some, hmax]
    congr 1
    have hd : 2 ^ lw ∣ 2 ^ (max (gather decls e).w lw) := Nat.pow_dvd_pow 2 (Nat.le_max_right _ _)
    rw [← hs]
    simp only [seen]
    exact (Nat.mod_mod_of_dvd _ hd).symm

/-- a condition (`if`, `&&` operand …): non-zero on the Veryl side iff non-zero in IEEE -/
theorem cond_eq (decls : List Decl) (vals : List Nat) (e : VExpr) (h : evalOK decls e = true) :
    (evalA decls vals (annot decls e (gather decls e))).map (fun v => decide (v.v ≠ 0)) =
    (eval { decls := decls, vals := vals } (emitExpr e) (size { decls := decls, vals := vals } (emitExpr e))
      (sgn { decls := decls, vals := vals } (emitExpr e))).map (fun n => decide (n ≠ 0)) := by
  have hrel := evalA_rel decls vals e h (gather decls e) (Nat.le_refl _) (fun x => x)
  rw [size_eq decls vals e h, sgn_eq decls vals e h]
  rcases rel_cases hrel with ⟨h1, h2⟩ | ⟨v, n, h1, h2, hw, hs⟩
  · rw [h1, h2]; rfl
  · rw [h1, h2]
    obtain ⟨_, hv, _, _⟩ := rel_selfdet _ v n ⟨hw, hs⟩
    simp [hv]

end VerylModel.Emit
