import VerylModel.Core.Translate
import VerylModel.Lemmas.EmitStep
/-! C22: on its domain `translateModel` is a right inverse of `emitModel`. -/
namespace VerylModel.Translate
open VerylModel.SV VerylModel.Emit

mutual
theorem emit_trRaw : ∀ (r : Raw) (v : VRaw), trRaw r = some v → emitRaw v = r
  | .var _, v, h | .bitsel _ _, v, h | .partsel _ _ _, v, h | .lit _ _ _, v, h | .dec _, v, h | .fill _, v, h => by
    simp only [trRaw, Option.some.injEq] at h; subst h; simp [emitRaw]
  | .un op a, v, h => by
    simp only [trRaw, Option.map_eq_some_iff] at h
    obtain ⟨a', ha, rfl⟩ := h
    simp [emitRaw, emit_trRaw a a' ha]
  | .chain f r, v, h => by
    simp only [trRaw] at h
    cases hf : trRaw f with
    | none => simp [hf] at h
    | some f' =>
      cases hr : trRest r with
      | none => simp [hf, hr] at h
      | some r' =>
        simp only [hf, hr, Option.some.injEq] at h; subst h
        simp [emitRaw, emit_trRaw f f' hf, emit_trRest r r' hr]
  | .paren a, v, h => by
    simp only [trRaw, Option.map_eq_some_iff] at h
    obtain ⟨a', ha, rfl⟩ := h
    simp [emitRaw, emit_trRaw a a' ha]
  | .cat a b, v, h => by
    simp only [trRaw] at h
    cases ha : trRaw a with
    | none => simp [ha] at h
    | some a' =>
      cases hb : trRaw b with
      | none => simp [ha, hb] at h
      | some b' =>
        simp only [ha, hb, Option.some.injEq] at h; subst h
        simp [emitRaw, emit_trRaw a a' ha, emit_trRaw b b' hb]
  | .cond _ _ _, _, h | .rep _ _, _, h | .sizeCast _ _, _, h | .typeCast _ _, _, h | .signCast _ _ _, _, h => by
    simp [trRaw] at h
theorem emit_trRest : ∀ (r : Rest) (v : VRest), trRest r = some v → emitRest v = r
  | .nil, v, h => by simp only [trRest, Option.some.injEq] at h; subst h; simp [emitRest]
  | .cons op e tl, v, h => by
    simp only [trRest] at h
    split at h
    · simp at h
    · cases he : trRaw e with
      | none => simp [he] at h
      | some e' =>
        cases ht : trRest tl with
        | none => simp [he, ht] at h
        | some t' =>
          simp only [he, ht, Option.some.injEq] at h; subst h
          simp [emitRest, emit_trRaw e e' he, emit_trRest tl t' ht]
end

theorem emit_trRaws : ∀ (rs : List Raw) (vs : List VRaw), trRaws rs = some vs → vs.map emitRaw = rs
  | [], vs, h => by simp only [trRaws, Option.some.injEq] at h; subst h; rfl
  | r :: t, vs, h => by
    simp only [trRaws] at h
    cases hr : trRaw r with
    | none => simp [hr] at h
    | some r' =>
      cases ht : trRaws t with
      | none => simp [hr, ht] at h
      | some t' =>
        simp only [hr, ht, Option.some.injEq] at h; subst h
        simp [emit_trRaw r r' hr, emit_trRaws t t' ht]

mutual
theorem emit_trStmt (nb : Bool) : ∀ (s : Stmt) (v : VStmt), trStmt nb s = some v → emitStmt nb v = s
  | .skip, v, h => by simp only [trStmt, Option.some.injEq] at h; subst h; simp [emitStmt]
  | .assign n l e, v, h => by
    simp only [trStmt] at h
    split at h
    · rename_i hn
      simp only [Option.map_eq_some_iff] at h
      obtain ⟨e', he, rfl⟩ := h
      have : n = nb := by simpa using hn
      subst this
      simp [emitStmt, emit_trRaw e e' he]
    · simp at h
  | .seq a b, v, h => by
    simp only [trStmt] at h
    cases ha : trStmt nb a with
    | none => simp [ha] at h
    | some a' =>
      cases hb : trStmt nb b with
      | none => simp [ha, hb] at h
      | some b' =>
        simp only [ha, hb, Option.some.injEq] at h; subst h
        simp [emitStmt, emit_trStmt nb a a' ha, emit_trStmt nb b b' hb]
  | .ite c t e, v, h => by
    simp only [trStmt] at h
    cases hc : trRaw c with
    | none => simp [hc] at h
    | some c' =>
      cases ht : trStmt nb t with
      | none => simp [hc, ht] at h
      | some t' =>
        cases he : trStmt nb e with
        | none => simp [hc, ht, he] at h
        | some e' =>
          simp only [hc, ht, he, Option.some.injEq] at h; subst h
          simp [emitStmt, emit_trRaw c c' hc, emit_trStmt nb t t' ht, emit_trStmt nb e e' he]
  | .case sel arms d, v, h => by
    simp only [trStmt] at h
    cases hs : trRaw sel with
    | none => simp [hs] at h
    | some s' =>
      cases ha : trArms nb arms with
      | none => simp [hs, ha] at h
      | some a' =>
        cases hd : trStmt nb d with
        | none => simp [hs, ha, hd] at h
        | some d' =>
          simp only [hs, ha, hd, Option.some.injEq] at h; subst h
          simp [emitStmt, emit_trRaw sel s' hs, emit_trArms nb arms a' ha, emit_trStmt nb d d' hd]
theorem emit_trArms (nb : Bool) : ∀ (a : Arms) (v : VArms), trArms nb a = some v → emitArms nb v = a
  | .nil, v, h => by simp only [trArms, Option.some.injEq] at h; subst h; simp [emitArms]
  | .cons ls b tl, v, h => by
    simp only [trArms] at h
    cases hl : trRaws ls with
    | none => simp [hl] at h
    | some l' =>
      cases hb : trStmt nb b with
      | none => simp [hl, hb] at h
      | some b' =>
        cases ht : trArms nb tl with
        | none => simp [hl, hb, ht] at h
        | some t' =>
          simp only [hl, hb, ht, Option.some.injEq] at h; subst h
          simp [emitArms, emit_trRaws ls l' hl, emit_trStmt nb b b' hb, emit_trArms nb tl t' ht]
end

/-- combinational module: no `always_ff` -/
def combOnly : List Item → Bool
  | [] => true
  | .comb _ :: t => combOnly t
  | .ff _ :: _ => false

theorem emit_trItem_comb (d : VDesign) (cfg : Cfg) (s : Stmt) (i : VItem) (h : trItem (.comb s) = some i) :
    emitItem d cfg i = .comb s := by
  unfold trItem at h
  split at h
  · rename_i l e heq
    simp only [Option.map_eq_some_iff] at h
    obtain ⟨e', he, rfl⟩ := h
    cases heq
    simp [emitItem, emit_trRaw e e' he]
  · rename_i s' heq
    simp only [Option.map_eq_some_iff] at h
    obtain ⟨s'', hs, rfl⟩ := h
    cases heq
    simp [emitItem, emit_trStmt false s s'' hs]
  all_goals (rename_i heq; cases heq)

theorem emit_trItems (d : VDesign) (cfg : Cfg) : ∀ (is : List Item) (vs : List VItem),
    combOnly is = true → trItems is = some vs → vs.map (emitItem d cfg) = is
  | [], vs, _, h => by simp only [trItems, Option.some.injEq] at h; subst h; rfl
  | .comb s :: t, vs, hc, h => by
    simp only [combOnly] at hc
    simp only [trItems] at h
    cases hi : trItem (.comb s) with
    | none => simp [hi] at h
    | some i' =>
      cases ht : trItems t with
      | none => simp [hi, ht] at h
      | some t' =>
        simp only [hi, ht, Option.some.injEq] at h; subst h
        simp [emit_trItem_comb d cfg s i' hi, emit_trItems d cfg t t' hc ht]
  | .ff _ :: _, _, hc, _ => by simp [combOnly] at hc

end VerylModel.Translate
