import VerylModel.Core.Sim
/-!
Footprints of the blocking statement semantics, generic in the value domain:
* `frame`: a statement changes no variable outside its targets;
* `flow`: a syntactic data-flow check — starting from a set `S` of variables on which two stores
  agree, every read must be inside the current set and every full assignment adds its target —
  and its soundness: the two results agree on the final set.
-/
namespace VerylModel.Sim

theorem updF_same {α : Type} (σ : Nat → α) (i : Nat) (v : α) : updF σ i v i = v := by simp [updF]

theorem updF_other {α : Type} (σ : Nat → α) (i : Nat) (v : α) (j : Nat) (h : j ≠ i) : updF σ i v j = σ j := by
  simp [updF, h]

theorem upd_same {D : Dom} (σ : Store D) (i : Nat) (v : D.Val) : (upd σ i v).get i = v := updF_same _ _ _

theorem upd_other {D : Dom} (σ : Store D) (i : Nat) (v : D.Val) (j : Nat) (h : j ≠ i) : (upd σ i v).get j = σ.get j :=
  updF_other _ _ _ _ h

theorem Store.ext' {D : Dom} {a b : Store D} (h : ∀ x, a.get x = b.get x) : a = b := by
  cases a; cases b
  congr
  exact funext h

theorem poisonList_notin (D : Dom) : ∀ (xs : List Nat) (σ : Store D) (x : Nat), x ∉ xs → poisonList D xs σ x = σ x
  | [], _, _, _ => rfl
  | y :: ys, σ, x, h => by
    simp only [List.mem_cons, not_or] at h
    rw [poisonList, poisonList_notin D ys _ x h.2, upd_other _ _ _ _ h.1]

theorem poisonList_in (D : Dom) : ∀ (xs : List Nat) (σ : Store D) (x : Nat), x ∈ xs → poisonList D xs σ x = D.poison
  | y :: ys, σ, x, h => by
    rw [poisonList]
    by_cases hx : x ∈ ys
    · exact poisonList_in D ys _ x hx
    · rw [poisonList_notin D ys _ x hx]
      have : x = y := by
        cases List.mem_cons.mp h with
        | inl h => exact h
        | inr h => exact absurd h hx
      rw [this, upd_same]

/-! ### frame -/

mutual
theorem execS_frame (D : Dom) (x : Nat) : ∀ (s : Stmt) (σ : Store D), x ∉ targetsS s → execS D s σ x = σ x
  | .set l r, σ, h => by
    simp only [targetsS, List.mem_singleton] at h
    simp only [execS]
    exact upd_other _ _ _ _ h
  | .setDyn v vw w idx r, σ, h => by
    simp only [targetsS, List.mem_singleton] at h
    simp only [execS]
    cases hi : D.idx σ.get idx with
    | none => exact upd_other _ _ _ _ h
    | some i =>
      simp only []
      split
      · exact upd_other _ _ _ _ h
      · rfl
  | .ite c t e, σ, h => by
    simp only [targetsS, List.mem_append, not_or] at h
    simp only [execS]
    cases hc : D.cond σ c with
    | none => exact poisonList_notin D _ σ x (by simp [h.1, h.2])
    | some b =>
      cases b with
      | true => exact execSs_frame D x t σ h.1
      | false => exact execSs_frame D x e σ h.2
  | .case sel arms d, σ, h => by
    simp only [targetsS, List.mem_append, not_or] at h
    simp only [execS]
    cases heq : execArms D sel (targetsSs d) arms σ with
    | some σ' => exact execArms_frame D x sel (targetsSs d) arms σ σ' heq h.1 h.2
    | none => exact execSs_frame D x d σ h.2
  | .disp _ _, σ, _ => by simp [execS]
theorem execSs_frame (D : Dom) (x : Nat) : ∀ (ss : Stmts) (σ : Store D), x ∉ targetsSs ss → execSs D ss σ x = σ x
  | .nil, σ, _ => by simp [execSs]
  | .cons s ss, σ, h => by
    simp only [targetsSs, List.mem_append, not_or] at h
    simp only [execSs]
    rw [execSs_frame D x ss _ h.2, execS_frame D x s σ h.1]
theorem execArms_frame (D : Dom) (x : Nat) (sel : Rhs) (dt : List Nat) : ∀ (arms : Arms) (σ σ' : Store D),
    execArms D sel dt arms σ = some σ' → x ∉ targetsArms arms → x ∉ dt → σ' x = σ x
  | .nil, σ, σ', heq, _, _ => by simp [execArms] at heq
  | .cons lw lv b rest, σ, σ', heq, h, hd => by
    simp only [targetsArms, List.mem_append, not_or] at h
    simp only [execArms] at heq
    cases hc : D.arm σ sel lw lv with
    | none =>
      simp only [hc] at heq
      cases heq
      exact poisonList_notin D _ σ x (by simp [h.1, h.2, hd])
    | some b =>
      cases b with
      | true =>
        simp only [hc] at heq
        cases heq
        exact execSs_frame D x b σ h.1
      | false =>
        simp only [hc] at heq
        exact execArms_frame D x sel dt rest σ σ' heq h.2 hd
end

/-! ### reads and the data-flow check -/

def rhsVars (r : Rhs) : List Nat := r.leaves.map (·.var)

/-- a domain whose evaluation functions look at the store only through the leaves -/
structure DomLocal (D : Dom) : Prop where
  rhs : ∀ (σ σ' : Store D) (r : Rhs) (w : Nat), (∀ x ∈ rhsVars r, σ x = σ' x) → D.rhs σ r w = D.rhs σ' r w
  cond : ∀ (σ σ' : Store D) (r : Rhs), (∀ x ∈ rhsVars r, σ x = σ' x) → D.cond σ r = D.cond σ' r
  arm : ∀ (σ σ' : Store D) (r : Rhs) (lw lv : Nat), (∀ x ∈ rhsVars r, σ x = σ' x) → D.arm σ r lw lv = D.arm σ' r lw lv
  arg : ∀ (σ σ' : Store D) (r : Rhs), (∀ x ∈ rhsVars r, σ x = σ' x) → D.arg σ r = D.arg σ' r
  idx : ∀ (σ σ' : Store D) (r : Rhs), (∀ x ∈ rhsVars r, σ x = σ' x) → D.idx σ r = D.idx σ' r
  /-- a write to the whole variable does not look at the old value -/
  wfull : ∀ (l : Lhs), l.full = true → ∀ (a b n : D.Val), D.write a l n = D.write b l n

def subset (a b : List Nat) : Bool := a.all (fun x => b.contains x)

theorem subset_mem {a b : List Nat} (h : subset a b = true) {x : Nat} (hx : x ∈ a) : x ∈ b := by
  simp only [subset, List.all_eq_true] at h
  simpa using h x hx

def inter (a b : List Nat) : List Nat := a.filter (fun x => b.contains x)

theorem mem_inter {a b : List Nat} {x : Nat} : x ∈ inter a b ↔ x ∈ a ∧ x ∈ b := by
  simp [inter]

mutual
/-- `flowS S s = some S'`: every read of `s` is in the running set; `S'` = `S` plus the variables
fully assigned on every path -/
def flowS (S : List Nat) : Stmt → Option (List Nat)
  | .set l r => if subset (rhsVars r) S then some (if l.full then l.var :: S else S) else none
  | .setDyn _ _ _ idx r => if subset (rhsVars idx) S && subset (rhsVars r) S then some S else none
  | .ite c t e =>
    if subset (rhsVars c) S then
      match flowSs S t, flowSs S e with
      | some St, some Se => some (inter St Se)
      | _, _ => none
    else none
  | .case sel arms d =>
    if subset (rhsVars sel) S then
      match flowSs S d with
      | some Sd => flowArms S arms Sd
      | none => none
    else none
  | .disp _ _ => some S
def flowSs (S : List Nat) : Stmts → Option (List Nat)
  | .nil => some S
  | .cons s ss =>
    match flowS S s with
    | some S1 => flowSs S1 ss
    | none => none
/-- intersect `acc` (the default branch) with every arm -/
def flowArms (S : List Nat) : Arms → List Nat → Option (List Nat)
  | .nil, acc => some acc
  | .cons _ _ b rest, acc =>
    match flowSs S b with
    | some Sb => flowArms S rest (inter acc Sb)
    | none => none
end

def Agree {α : Type} (S : List Nat) (σ σ' : Nat → α) : Prop := ∀ x ∈ S, σ x = σ' x

mutual
theorem flowS_mono (S : List Nat) : ∀ (s : Stmt) (S' : List Nat), flowS S s = some S' → ∀ x ∈ S, x ∈ S'
  | .setDyn _ _ _ idx r, S', h, x, hx => by
    simp only [flowS] at h
    split at h
    · cases h
      exact hx
    · cases h
  | .set l r, S', h, x, hx => by
    simp only [flowS] at h
    split at h
    · cases h
      split
      · exact List.mem_cons_of_mem _ hx
      · exact hx
    · cases h
  | .ite c t e, S', h, x, hx => by
    simp only [flowS] at h
    split at h
    · split at h
      · rename_i St Se ht he
        cases h
        exact mem_inter.mpr ⟨flowSs_mono S t St ht x hx, flowSs_mono S e Se he x hx⟩
      · cases h
    · cases h
  | .case sel arms d, S', h, x, hx => by
    simp only [flowS] at h
    split at h
    · split at h
      · rename_i Sd hd
        exact flowArms_mono S arms Sd S' h x (flowSs_mono S d Sd hd x hx) hx
      · cases h
    · cases h
  | .disp _ _, S', h, x, hx => by
    simp only [flowS] at h
    cases h
    exact hx
theorem flowSs_mono (S : List Nat) : ∀ (ss : Stmts) (S' : List Nat), flowSs S ss = some S' → ∀ x ∈ S, x ∈ S'
  | .nil, S', h, x, hx => by
    simp only [flowSs] at h
    cases h
    exact hx
  | .cons s ss, S', h, x, hx => by
    simp only [flowSs] at h
    split at h
    · rename_i S1 h1
      exact flowSs_mono S1 ss S' h x (flowS_mono S s S1 h1 x hx)
    · cases h
theorem flowArms_mono (S : List Nat) : ∀ (arms : Arms) (acc S' : List Nat), flowArms S arms acc = some S' →
    ∀ x, x ∈ acc → x ∈ S → x ∈ S'
  | .nil, acc, S', h, x, hacc, _ => by
    simp only [flowArms] at h
    cases h
    exact hacc
  | .cons _ _ b rest, acc, S', h, x, hacc, hx => by
    simp only [flowArms] at h
    split at h
    · rename_i Sb hb
      exact flowArms_mono S rest _ S' h x (mem_inter.mpr ⟨hacc, flowSs_mono S b Sb hb x hx⟩) hx
    · cases h
end

theorem flowArms_sub (S : List Nat) : ∀ (arms : Arms) (acc S' : List Nat), flowArms S arms acc = some S' →
    ∀ x ∈ S', x ∈ acc
  | .nil, acc, S', h, x, hx => by
    simp only [flowArms] at h
    cases h
    exact hx
  | .cons _ _ b rest, acc, S', h, x, hx => by
    simp only [flowArms] at h
    split at h
    · exact (mem_inter.mp (flowArms_sub S rest _ S' h x hx)).1
    · cases h

mutual
theorem flowS_bound (S : List Nat) : ∀ (s : Stmt) (S' : List Nat), flowS S s = some S' → ∀ x ∈ S', x ∈ S ∨ x ∈ targetsS s
  | .setDyn _ _ _ idx r, S', h, x, hx => by
    simp only [flowS] at h
    split at h
    · cases h
      exact Or.inl hx
    · cases h
  | .set l r, S', h, x, hx => by
    simp only [flowS] at h
    split at h
    · cases h
      split at hx
      · cases List.mem_cons.mp hx with
        | inl h => exact Or.inr (by simp [targetsS, h])
        | inr h => exact Or.inl h
      · exact Or.inl hx
    · cases h
  | .ite c t e, S', h, x, hx => by
    simp only [flowS] at h
    split at h
    · split at h
      · rename_i St Se ht he
        cases h
        cases flowSs_bound S t St ht x (mem_inter.mp hx).1 with
        | inl h => exact Or.inl h
        | inr h => exact Or.inr (by simp [targetsS, h])
      · cases h
    · cases h
  | .case sel arms d, S', h, x, hx => by
    simp only [flowS] at h
    split at h
    · split at h
      · rename_i Sd hd
        cases flowSs_bound S d Sd hd x (flowArms_sub S arms Sd S' h x hx) with
        | inl h => exact Or.inl h
        | inr h => exact Or.inr (by simp [targetsS, h])
      · cases h
    · cases h
  | .disp _ _, S', h, x, hx => by
    simp only [flowS] at h
    cases h
    exact Or.inl hx
theorem flowSs_bound (S : List Nat) : ∀ (ss : Stmts) (S' : List Nat), flowSs S ss = some S' → ∀ x ∈ S', x ∈ S ∨ x ∈ targetsSs ss
  | .nil, S', h, x, hx => by
    simp only [flowSs] at h
    cases h
    exact Or.inl hx
  | .cons s ss, S', h, x, hx => by
    simp only [flowSs] at h
    split at h
    · rename_i S1 h1
      cases flowSs_bound S1 ss S' h x hx with
      | inl h2 =>
        cases flowS_bound S s S1 h1 x h2 with
        | inl h3 => exact Or.inl h3
        | inr h3 => exact Or.inr (by simp [targetsSs, h3])
      | inr h2 => exact Or.inr (by simp [targetsSs, h2])
    · cases h
end

theorem agree_poison (D : Dom) {S T L : List Nat} {σ σ' : Store D} (h : Agree S σ σ') (hT : ∀ x ∈ T, x ∈ S ∨ x ∈ L) :
    Agree T (poisonList D L σ) (poisonList D L σ') := by
  intro x hx
  by_cases hl : x ∈ L
  · rw [poisonList_in D L σ x hl, poisonList_in D L σ' x hl]
  · rw [poisonList_notin D L σ x hl, poisonList_notin D L σ' x hl]
    cases hT x hx with
    | inl h1 => exact h x h1
    | inr h1 => exact absurd h1 hl

theorem agree_sub {α : Type} {S T : List Nat} {σ σ' : Nat → α} (h : Agree S σ σ') (hT : ∀ x ∈ T, x ∈ S) : Agree T σ σ' :=
  fun x hx => h x (hT x hx)

mutual
theorem flowS_sound (D : Dom) (L : DomLocal D) (S : List Nat) : ∀ (s : Stmt) (S' : List Nat) (σ σ' : Store D),
    flowS S s = some S' → Agree S σ σ' → Agree S' (execS D s σ) (execS D s σ')
  | .setDyn v vw w idx r, S', σ, σ', h, ha => by
    simp only [flowS] at h
    split at h
    · rename_i hsub
      simp only [Bool.and_eq_true] at hsub
      cases h
      have hr : D.rhs σ r w = D.rhs σ' r w := L.rhs σ σ' r w (fun x hx => ha x (subset_mem hsub.2 hx))
      have hi : D.idx σ idx = D.idx σ' idx := L.idx σ σ' idx (fun x hx => ha x (subset_mem hsub.1 hx))
      intro x hx
      simp only [execS]
      have hi' : D.idx σ.get idx = D.idx σ'.get idx := hi
      rw [← hi']
      cases hii : D.idx σ.get idx with
      | none =>
        simp only []
        by_cases hxv : x = v
        · subst hxv
          rw [upd_same, upd_same]
        · rw [upd_other _ _ _ _ hxv, upd_other _ _ _ _ hxv]
          exact ha x hx
      | some i =>
        simp only []
        split
        · by_cases hxv : x = v
          · subst hxv
            have hr' : D.rhs σ.get r w = D.rhs σ'.get r w := hr
            rw [upd_same, upd_same, hr', ha _ hx]
          · rw [upd_other _ _ _ _ hxv, upd_other _ _ _ _ hxv]
            exact ha x hx
        · exact ha x hx
    · cases h
  | .set l r, S', σ, σ', h, ha => by
    simp only [flowS] at h
    split at h
    · rename_i hsub
      cases h
      have hr : D.rhs σ r l.width = D.rhs σ' r l.width := L.rhs σ σ' r l.width (fun x hx => ha x (subset_mem hsub hx))
      intro x hx
      simp only [execS]
      by_cases hxl : x = l.var
      · subst hxl
        rw [upd_same, upd_same, hr]
        cases hf : l.full with
        | true => exact L.wfull l hf _ _ _
        | false =>
          simp only [hf] at hx
          rw [ha _ hx]
      · rw [upd_other _ _ _ _ hxl, upd_other _ _ _ _ hxl]
        apply ha
        split at hx
        · cases List.mem_cons.mp hx with
          | inl h => exact absurd h hxl
          | inr h => exact h
        · exact hx
    · cases h
  | .ite c t e, S', σ, σ', h, ha => by
    simp only [flowS] at h
    split at h
    · rename_i hsub
      split at h
      · rename_i St Se ht he
        cases h
        have hc : D.cond σ c = D.cond σ' c := L.cond σ σ' c (fun x hx => ha x (subset_mem hsub hx))
        simp only [execS, ← hc]
        split
        · exact agree_sub (flowSs_sound D L S t St σ σ' ht ha) (fun x hx => (mem_inter.mp hx).1)
        · exact agree_sub (flowSs_sound D L S e Se σ σ' he ha) (fun x hx => (mem_inter.mp hx).2)
        · apply agree_poison D ha
          intro x hx
          cases flowSs_bound S t St ht x (mem_inter.mp hx).1 with
          | inl h => exact Or.inl h
          | inr h => exact Or.inr (by simp [h])
      · cases h
    · cases h
  | .case sel arms d, S', σ, σ', h, ha => by
    simp only [flowS] at h
    split at h
    · rename_i hsub
      split at h
      · rename_i Sd hd
        have hsel : ∀ x ∈ rhsVars sel, σ x = σ' x := fun x hx => ha x (subset_mem hsub hx)
        have := flowArms_sound D L S sel (targetsSs d) σ σ' hsel ha arms Sd S' h
          (fun x hx => flowSs_bound S d Sd hd x hx)
        simp only [execS]
        cases this with
        | inl h1 =>
          rw [h1.1, h1.2]
          exact agree_sub (flowSs_sound D L S d Sd σ σ' hd ha) (flowArms_sub S arms Sd S' h)
        | inr h1 =>
          obtain ⟨τ, τ', e1, e2, hag⟩ := h1
          rw [e1, e2]
          exact hag
      · cases h
    · cases h
  | .disp _ _, S', σ, σ', h, ha => by
    simp only [flowS] at h
    cases h
    simpa [execS] using ha
theorem flowSs_sound (D : Dom) (L : DomLocal D) (S : List Nat) : ∀ (ss : Stmts) (S' : List Nat) (σ σ' : Store D),
    flowSs S ss = some S' → Agree S σ σ' → Agree S' (execSs D ss σ) (execSs D ss σ')
  | .nil, S', σ, σ', h, ha => by
    simp only [flowSs] at h
    cases h
    simpa [execSs] using ha
  | .cons s ss, S', σ, σ', h, ha => by
    simp only [flowSs] at h
    split at h
    · rename_i S1 h1
      simp only [execSs]
      exact flowSs_sound D L S1 ss S' _ _ h (flowS_sound D L S s S1 σ σ' h1 ha)
    · cases h
theorem flowArms_sound (D : Dom) (L : DomLocal D) (S : List Nat) (sel : Rhs) (dt : List Nat)
    (σ σ' : Store D) (hsel : ∀ x ∈ rhsVars sel, σ x = σ' x) (ha : Agree S σ σ') :
    ∀ (arms : Arms) (acc S' : List Nat), flowArms S arms acc = some S' →
      (∀ x ∈ acc, x ∈ S ∨ x ∈ dt) →
      (execArms D sel dt arms σ = none ∧ execArms D sel dt arms σ' = none) ∨
      (∃ τ τ', execArms D sel dt arms σ = some τ ∧ execArms D sel dt arms σ' = some τ' ∧ Agree S' τ τ')
  | .nil, acc, S', _, _ => by
    left
    simp [execArms]
  | .cons lw lv b rest, acc, S', h, hacc => by
    simp only [flowArms] at h
    split at h
    · rename_i Sb hb
      have hc : D.arm σ sel lw lv = D.arm σ' sel lw lv := L.arm _ _ sel lw lv hsel
      simp only [execArms, ← hc]
      split
      · right
        refine ⟨_, _, rfl, rfl, ?_⟩
        exact agree_sub (flowSs_sound D L S b Sb σ σ' hb ha)
          (fun x hx => (mem_inter.mp (flowArms_sub S rest _ S' h x hx)).2)
      · have hacc' : ∀ x ∈ inter acc Sb, x ∈ S ∨ x ∈ dt := fun x hx => hacc x (mem_inter.mp hx).1
        exact flowArms_sound D L S sel dt σ σ' hsel ha rest _ S' h hacc'
      · right
        refine ⟨_, _, rfl, rfl, ?_⟩
        apply agree_poison D ha
        intro x hx
        cases hacc x (mem_inter.mp (flowArms_sub S rest _ S' h x hx)).1 with
        | inl h1 => exact Or.inl h1
        | inr h1 => exact Or.inr (by simp [h1])
    · cases h
end

end VerylModel.Sim
