import VerylModel.Core.CheckModes
/-! Helper lemmas for C27 (core Lean only). -/
namespace VerylModel.CheckModes

theorem fmtLoop_writes_ge (format : Content → Option Content) (check : Bool) :
    ∀ (ps : List Path) (fs : FS) (b : Bool) (w : Nat), w ≤ (fmtLoop format check ps fs b w).writes
  | [], _, _, _ => Nat.le_refl _
  | p :: ps, fs, b, w => by
    unfold fmtLoop
    split
    · exact Nat.le_refl _
    · split
      · exact Nat.le_refl _
      · split
        · exact fmtLoop_writes_ge format check ps fs b w
        · split
          · exact fmtLoop_writes_ge format check ps fs false w
          · refine Nat.le_trans ?_ (fmtLoop_writes_ge format check ps _ b _)
            split <;> omega

/-- Check mode started with flag `b` passes iff `b` holds and write mode from the same filesystem
    finishes without error and without writing. -/
theorem fmtLoop_iff (format : Content → Option Content) :
    ∀ (ps : List Path) (fs : FS) (b : Bool) (w0 w : Nat),
      (fmtLoop format true ps fs b w0).outcome = .done true ↔
        (b = true ∧ (fmtLoop format false ps fs true w).outcome = .done true ∧
          (fmtLoop format false ps fs true w).writes = w)
  | [], fs, b, w0, w => by simp [fmtLoop]
  | p :: ps, fs, b, w0, w => by
    unfold fmtLoop
    cases hp : fs p with
    | none => simp
    | some input =>
      simp only
      cases hf : format input with
      | none => simp
      | some out =>
        simp only
        by_cases he : input = out
        · simp only [he, if_true]
          exact fmtLoop_iff format ps fs b w0 w
        · simp only [he, if_false, if_true, Bool.false_eq_true]
          have hne : ¬ fs p = some out := by rw [hp]; intro h; cases h; exact he rfl
          have hw : writeIfChanged fs p out = (fs.write p out, true) := by simp [writeIfChanged, hne]
          rw [hw]
          simp only [if_true]
          have hge := fmtLoop_writes_ge format false ps (fs.write p out) true (w + 1)
          have h1 := fmtLoop_iff format ps fs false w0 w
          constructor
          · intro h
            exact absurd (h1.mp h).1 (by simp)
          · intro ⟨_, _, h3⟩
            omega

theorem count_ge (b : Bool) (w : Nat) : w ≤ count b w := by
  unfold count; split <;> omega

theorem writeFiles_ge (maps : Bool) : ∀ (fl : List BFile) (fs : FS) (w : Nat), w ≤ (writeFiles maps fl fs w).2
  | [], _, _ => Nat.le_refl _
  | f :: fl, fs, w => by
    unfold writeFiles
    simp only
    split
    · exact Nat.le_trans (Nat.le_trans (count_ge _ _) (count_ge _ _)) (writeFiles_ge maps fl _ _)
    · exact Nat.le_trans (count_ge _ _) (writeFiles_ge maps fl _ _)

theorem writeIfChanged_eq {fs : FS} {p : Path} {c : Content} (h : fs p = some c) : writeIfChanged fs p c = (fs, false) := by
  simp [writeIfChanged, h]

theorem writeIfChanged_ne {fs : FS} {p : Path} {c : Content} (h : fs p ≠ some c) :
    writeIfChanged fs p c = (fs.write p c, true) := by
  simp [writeIfChanged, h]

/-- The per-file part of `veryl build` writes nothing iff every `.sv` (and, unless disabled,
    every `.sv.map`) already holds what the emitter produces. -/
theorem writeFiles_zero_iff (maps : Bool) : ∀ (fl : List BFile) (fs : FS) (w : Nat),
    (writeFiles maps fl fs w).2 = w ↔
      ∀ f ∈ fl, fs f.dst = some f.text ∧ (maps = true → fs f.map = some f.mapText)
  | [], _, _ => by simp [writeFiles]
  | f :: fl, fs, w => by
    unfold writeFiles
    simp only
    by_cases hd : fs f.dst = some f.text
    · rw [writeIfChanged_eq hd]
      simp only [count, Bool.false_eq_true, if_false]
      cases maps with
      | false =>
        simp only [Bool.false_eq_true, if_false]
        rw [writeFiles_zero_iff false fl fs w]
        simp [hd]
      | true =>
        simp only [if_true]
        by_cases hm : fs f.map = some f.mapText
        · rw [writeIfChanged_eq hm]
          simp only [Bool.false_eq_true, if_false]
          rw [writeFiles_zero_iff true fl fs w]
          simp [hd, hm]
        · rw [writeIfChanged_ne hm]
          simp only [if_true]
          have := writeFiles_ge true fl (fs.write f.map f.mapText) (w + 1)
          constructor
          · intro h; omega
          · intro h
            exact absurd ((h f List.mem_cons_self).2 trivial) hm
    · rw [writeIfChanged_ne hd]
      have hfalse : ¬ ∀ f' ∈ f :: fl, fs f'.dst = some f'.text ∧ (maps = true → fs f'.map = some f'.mapText) :=
        fun h => hd (h f List.mem_cons_self).1
      simp only [hfalse, iff_false]
      cases maps with
      | false =>
        simp only [Bool.false_eq_true, if_false, count, if_true]
        have := writeFiles_ge false fl (fs.write f.dst f.text) (w + 1)
        omega
      | true =>
        simp only [if_true]
        have h1 := count_ge (writeIfChanged (fs.write f.dst f.text) f.map f.mapText).2 (count true w)
        have h2 := writeFiles_ge true fl (writeIfChanged (fs.write f.dst f.text) f.map f.mapText).1
          (count (writeIfChanged (fs.write f.dst f.text) f.map f.mapText).2 (count true w))
        simp only [count, if_true] at h1 h2 ⊢
        omega

theorem writeFiles_zero_fs (maps : Bool) : ∀ (fl : List BFile) (fs : FS) (w : Nat),
    (writeFiles maps fl fs w).2 = w → (writeFiles maps fl fs w).1 = fs
  | [], _, _, _ => rfl
  | f :: fl, fs, w, h => by
    have hall := (writeFiles_zero_iff maps (f :: fl) fs w).mp h
    have hd := (hall f List.mem_cons_self).1
    have hrest : ∀ f' ∈ fl, fs f'.dst = some f'.text ∧ (maps = true → fs f'.map = some f'.mapText) :=
      fun f' hf' => hall f' (List.mem_cons_of_mem _ hf')
    unfold writeFiles
    simp only
    rw [writeIfChanged_eq hd]
    cases maps with
    | false =>
      simp only [Bool.false_eq_true, if_false, count]
      exact writeFiles_zero_fs false fl fs w ((writeFiles_zero_iff false fl fs w).mpr hrest)
    | true =>
      have hm := (hall f List.mem_cons_self).2 rfl
      simp only [if_true]
      rw [writeIfChanged_eq hm]
      simp only [count, Bool.false_eq_true, if_false]
      exact writeFiles_zero_fs true fl fs w ((writeFiles_zero_iff true fl fs w).mpr hrest)


theorem write_other (fs : FS) {p q : Path} (c : Content) (h : q ≠ p) : (fs.write p c) q = fs q := by
  simp [FS.write, h]

theorem writeIfChanged_other (fs : FS) {p q : Path} (c : Content) (h : q ≠ p) : (writeIfChanged fs p c).1 q = fs q := by
  unfold writeIfChanged
  split
  · rfl
  · exact write_other fs c h

/-- If every output is current, check mode passes through without touching anything. -/
theorem checkFiles_current (maps : Bool) : ∀ (fl : List BFile) (fs : FS) (pass : Bool) (w : Nat),
    (∀ f ∈ fl, fs f.dst = some f.text ∧ (maps = true → fs f.map = some f.mapText)) →
    checkFiles maps fl fs pass w = (pass, fs, w)
  | [], _, _, _, _ => rfl
  | f :: fl, fs, pass, w, h => by
    have hf := h f List.mem_cons_self
    have ht : ∀ f' ∈ fl, fs f'.dst = some f'.text ∧ (maps = true → fs f'.map = some f'.mapText) :=
      fun f' hf' => h f' (List.mem_cons_of_mem _ hf')
    unfold checkFiles
    cases hs : f.std with
    | true =>
      simp only [if_true]
      rw [writeIfChanged_eq hf.1]
      cases maps with
      | false =>
        simp only [Bool.false_eq_true, if_false, count]
        exact checkFiles_current false fl fs pass w ht
      | true =>
        simp only [if_true]
        rw [writeIfChanged_eq (hf.2 rfl)]
        simp only [count, Bool.false_eq_true, if_false]
        exact checkFiles_current true fl fs pass w ht
    | false =>
      simp only [Bool.false_eq_true, if_false]
      have : (readOrEmpty fs f.dst == f.text) = true := by simp [readOrEmpty, hf.1]
      rw [this, Bool.and_true]
      exact checkFiles_current maps fl fs pass w ht

/-- Without `$std` files check mode writes nothing. -/
theorem checkFiles_nostd (maps : Bool) : ∀ (fl : List BFile) (fs : FS) (pass : Bool) (w : Nat),
    (∀ f ∈ fl, f.std = false) → (checkFiles maps fl fs pass w).2 = (fs, w)
  | [], _, _, _, _ => rfl
  | f :: fl, fs, pass, w, h => by
    unfold checkFiles
    simp only [h f List.mem_cons_self, Bool.false_eq_true, if_false]
    exact checkFiles_nostd maps fl fs _ w (fun f' hf' => h f' (List.mem_cons_of_mem _ hf'))

/-- `$std` outputs and project outputs do not share paths. -/
def StdDisjoint (fl : List BFile) : Prop :=
  ∀ f ∈ fl, f.std = false → ∀ g ∈ fl, g.std = true → f.dst ≠ g.dst ∧ f.dst ≠ g.map

/-- The verdict of check mode: all non-`$std` outputs read as the emitted text (the `$std` writes
    of the same run do not touch them). -/
theorem checkFiles_verdict (maps : Bool) (fs0 : FS) : ∀ (fl : List BFile) (fs : FS) (pass : Bool) (w : Nat),
    StdDisjoint fl → (∀ f ∈ fl, f.std = false → fs f.dst = fs0 f.dst) →
    (checkFiles maps fl fs pass w).1 = (pass && fl.all (fun f => f.std || readOrEmpty fs0 f.dst == f.text))
  | [], _, _, _, _, _ => by simp [checkFiles]
  | g :: fl, fs, pass, w, hd, hag => by
    have hd' : StdDisjoint fl := fun f hf hs g' hg' hs' =>
      hd f (List.mem_cons_of_mem _ hf) hs g' (List.mem_cons_of_mem _ hg') hs'
    unfold checkFiles
    cases hs : g.std with
    | true =>
      simp only [if_true, List.all_cons, hs, Bool.true_or, Bool.true_and]
      have agree1 : ∀ f ∈ fl, f.std = false → (writeIfChanged fs g.dst g.text).1 f.dst = fs0 f.dst := by
        intro f hf hfs
        rw [writeIfChanged_other fs g.text (hd f (List.mem_cons_of_mem _ hf) hfs g List.mem_cons_self hs).1]
        exact hag f (List.mem_cons_of_mem _ hf) hfs
      cases maps with
      | false =>
        simp only [Bool.false_eq_true, if_false]
        exact checkFiles_verdict false fs0 fl _ pass _ hd' agree1
      | true =>
        simp only [if_true]
        apply checkFiles_verdict true fs0 fl _ pass _ hd'
        intro f hf hfs
        rw [writeIfChanged_other _ g.mapText (hd f (List.mem_cons_of_mem _ hf) hfs g List.mem_cons_self hs).2]
        exact agree1 f hf hfs
    | false =>
      simp only [Bool.false_eq_true, if_false, List.all_cons, hs, Bool.false_or]
      have e : readOrEmpty fs g.dst = readOrEmpty fs0 g.dst := by
        simp [readOrEmpty, hag g List.mem_cons_self hs]
      rw [e, checkFiles_verdict maps fs0 fl fs _ w hd' (fun f hf hfs => hag f (List.mem_cons_of_mem _ hf) hfs)]
      simp [Bool.and_assoc]

end VerylModel.CheckModes
