import VerylModel.Core.Random
import VerylModel.Core.Sched
/-! Helper lemmas for C32: `mask`/`&` are `% 2^w`, `sign_extend` is two's-complement
interpretation, and pool bookkeeping. Core Lean only. -/
namespace VerylModel.Random

theorem two63_eq : two63 = 2 ^ 63 := by decide
theorem two64_eq : two64 = 2 ^ 64 := by decide

theorem mask_eq (w : Nat) (hw : w ≤ 64) : mask w = 2 ^ w - 1 := by
  unfold mask
  split
  · have : w = 64 := by omega
    subst this; decide
  · rw [Nat.one_shiftLeft]

theorem and_mask (x w : Nat) (hw : w ≤ 64) : x &&& mask w = x % 2 ^ w := by
  rw [mask_eq w hw, Nat.and_two_pow_sub_one_eq_mod]

theorem interp_mod (raw w : Nat) (s : Bool) : interp (raw % 2 ^ w) w s = interp raw w s := by
  unfold interp; simp only [Nat.mod_mod]

/-- Splitting `2^64` around a width `0 < w < 64`: `H = 2^(w-1)`, `Q = 2^(64-w)`. -/
theorem pow_split (w : Nat) (h0 : 0 < w) (h64 : w < 64) :
    2 ^ w = 2 * 2 ^ (w - 1) ∧ 2 ^ (w - 1) * 2 ^ (64 - w) = two63 ∧ 0 < 2 ^ (w - 1) ∧ 0 < 2 ^ (64 - w) := by
  refine ⟨?_, ?_, Nat.two_pow_pos _, Nat.two_pow_pos _⟩
  · have : w = (w - 1) + 1 := by omega
    conv => lhs; rw [this, Nat.pow_succ]
    omega
  · rw [← Nat.pow_add, two63_eq]
    congr 1; omega

theorem signExtend_eq (raw w : Nat) (hw : w ≤ 64) (hr : raw < 2 ^ w) :
    signExtend raw w = interp raw w true := by
  unfold signExtend interp
  have hmod : raw % 2 ^ w = raw := Nat.mod_eq_of_lt hr
  dsimp only
  by_cases h0 : w = 0
  · subst h0
    have : raw = 0 := by simpa using hr
    subst this
    simp [asI64, two63]
  · by_cases h64 : w ≥ 64
    · have : w = 64 := by omega
      subst this
      have e1 : (2 : Nat) ^ (64 - 1) = two63 := by decide
      have e2 : (2 : Nat) ^ 64 = two64 := by decide
      rw [if_pos (Or.inr (Nat.le_refl 64))]
      rw [hmod, e1, e2]
      unfold asI64
      by_cases h : raw < two63
      · rw [if_pos h, if_neg (by omega)]
      · rw [if_neg h, if_pos ⟨by trivial, by decide, by omega⟩]
    · have hlt : w < 64 := by omega
      obtain ⟨hP, hHQ, hH, hQ⟩ := pow_split w (by omega) hlt
      simp only [h0, h64, false_or, if_false, hmod]
      generalize hHd : 2 ^ (w - 1) = H at *
      generalize hQd : 2 ^ (64 - w) = Q at *
      have h264 : two64 = 2 * two63 := by decide
      rw [Nat.shiftLeft_eq, hQd]
      have hlt64 : raw * Q < two64 := by
        have : raw * Q < (2 * H) * Q := Nat.mul_lt_mul_of_pos_right (by omega) hQ
        rw [Nat.mul_assoc, hHQ] at this
        omega
      rw [Nat.mod_eq_of_lt hlt64]
      have hQne : (Q : Int) ≠ 0 := by omega
      by_cases hneg : raw < H
      · have h1 : raw * Q < two63 := by
          have := Nat.mul_lt_mul_of_pos_right hneg hQ
          omega
        have hc : ¬ (True ∧ w > 0 ∧ raw ≥ H) := by omega
        simp only [asI64, h1, if_true, hP]
        rw [if_neg (by simpa using fun _ => by omega)]
        rw [Int.natCast_mul, Int.mul_ediv_cancel _ hQne]
      · have h1 : ¬ raw * Q < two63 := by
          have := Nat.mul_le_mul_right Q (Nat.le_of_not_lt hneg)
          omega
        simp only [asI64, h1, if_false, hP]
        rw [if_pos ⟨by trivial, by omega, by omega⟩]
        have e : ((raw * Q : Nat) : Int) - (two64 : Int) = ((raw : Int) - ((2 * H : Nat) : Int)) * (Q : Int) := by
          rw [Int.sub_mul, ← Int.natCast_mul, ← Int.natCast_mul, Nat.mul_assoc, hHQ, h264]
        rw [e, Int.mul_ediv_cancel _ hQne]

theorem interp_unsigned (raw w : Nat) : interp raw w false = ((raw % 2 ^ w : Nat) : Int) := by
  unfold interp; simp

theorem interp_signed_bounds (raw w : Nat) (h0 : 0 < w) :
    -((2 ^ (w - 1) : Nat) : Int) ≤ interp raw w true ∧ interp raw w true < ((2 ^ (w - 1) : Nat) : Int) := by
  unfold interp
  have hP : 2 ^ w = 2 * 2 ^ (w - 1) := by
    have : w = (w - 1) + 1 := by omega
    conv => lhs; rw [this, Nat.pow_succ]
    omega
  have hr : raw % 2 ^ w < 2 ^ w := Nat.mod_lt _ (Nat.two_pow_pos _)
  generalize raw % 2 ^ w = r at *
  generalize 2 ^ (w - 1) = H at *
  rw [hP] at hr ⊢
  dsimp only
  by_cases hc : r ≥ H
  · rw [if_pos ⟨by trivial, h0, hc⟩]; omega
  · rw [if_neg (fun h => hc h.2.2)]; omega

/-- A signed sample inside the `w`-bit range survives `as u64 & mask`. -/
theorem interp_of_int (s : Int) (w : Nat) (h0 : 0 < w) (hw : w ≤ 64)
    (hlo : -((2 ^ (w - 1) : Nat) : Int) ≤ s) (hhi : s < ((2 ^ (w - 1) : Nat) : Int)) :
    asU64 s % 2 ^ w < 2 ^ w ∧ interp (asU64 s % 2 ^ w) w true = s := by
  have hP : 2 ^ w = 2 * 2 ^ (w - 1) := by
    have : w = (w - 1) + 1 := by omega
    conv => lhs; rw [this, Nat.pow_succ]
    omega
  have hHpos : 0 < 2 ^ (w - 1) := Nat.two_pow_pos _
  have hPQ : 2 ^ w * 2 ^ (64 - w) = two64 := by
    rw [← Nat.pow_add, two64_eq]; congr 1; omega
  have hQpos : 0 < 2 ^ (64 - w) := Nat.two_pow_pos _
  refine ⟨Nat.mod_lt _ (Nat.two_pow_pos _), ?_⟩
  unfold interp
  dsimp only
  rw [Nat.mod_mod]
  generalize hHd : 2 ^ (w - 1) = H at *
  generalize hQd : 2 ^ (64 - w) = Q at *
  rw [hP] at hPQ ⊢
  have hH64 : 2 * H ≤ two64 := by
    have := Nat.le_mul_of_pos_right (2 * H) hQpos
    omega
  unfold asU64
  by_cases hs : 0 ≤ s
  · -- non-negative sample: `as u64` is the identity
    have hlt : s < (two64 : Int) := by omega
    rw [Int.emod_eq_of_lt hs hlt]
    obtain ⟨n, rfl⟩ := Int.eq_ofNat_of_zero_le hs
    simp only [Int.toNat_natCast]
    have hn : n < H := by omega
    rw [Nat.mod_eq_of_lt (by omega : n < 2 * H)]
    rw [if_neg (by omega)]
  · -- negative sample `-k`: `as u64` is `2^64 - k`, and `2^w ∣ 2^64`
    obtain ⟨k, hk⟩ : ∃ k : Nat, s = -(k : Int) := ⟨(-s).toNat, by omega⟩
    subst hk
    have hk1 : 1 ≤ k := by omega
    have hkH : k ≤ H := by omega
    have e1 : (-(k : Int)) % (two64 : Int) = ((two64 - k : Nat) : Int) := by
      have : (-(k : Int)) % (two64 : Int) = (-(k : Int) + (two64 : Int)) % (two64 : Int) := by
        rw [Int.add_emod_right]
      rw [this, Int.emod_eq_of_lt (by omega) (by omega)]
      omega
    rw [e1, Int.toNat_natCast]
    have e2 : (two64 - k) % (2 * H) = 2 * H - k := by
      have hd : two64 - k = 2 * H * (Q - 1) + (2 * H - k) := by
        rw [Nat.mul_sub_one]
        have := Nat.le_mul_of_pos_right (2 * H) hQpos
        omega
      rw [hd, Nat.mul_add_mod, Nat.mod_eq_of_lt (by omega)]
    rw [e2, if_pos ⟨by trivial, h0, by omega⟩]
    omega

theorem order_nat (a b : Nat) :
    let lh := order (fun x y => decide (x ≤ y)) a b
    lh.1 ≤ lh.2 ∧ ((lh.1 = a ∧ lh.2 = b) ∨ (lh.1 = b ∧ lh.2 = a)) := by
  unfold order
  by_cases h : a ≤ b <;> simp [h] <;> omega

theorem order_int (a b : Int) :
    let lh := order (fun x y => decide (x ≤ y)) a b
    lh.1 ≤ lh.2 ∧ ((lh.1 = a ∧ lh.2 = b) ∨ (lh.1 = b ∧ lh.2 = a)) := by
  unfold order
  by_cases h : a ≤ b <;> simp [h] <;> omega

theorem eat_lt (prime h : Nat) (bytes : List Nat) (hh : h < two64) : eat prime h bytes < two64 := by
  unfold eat
  induction bytes generalizing h with
  | nil => simpa using hh
  | cons b bs ih => exact ih _ (Nat.mod_lt _ (by decide))

theorem eat_append (prime h : Nat) (a b : List Nat) : eat prime h (a ++ b) = eat prime (eat prime h a) b := by
  unfold eat; rw [List.foldl_append]

theorem lookup_filter_ne {γ : Type} (name n : List Nat) (h : n ≠ name) (l : List (List Nat × γ)) :
    (l.filter (fun p => p.1 != n)).lookup name = l.lookup name := by
  induction l with
  | nil => rfl
  | cons p l ih =>
    obtain ⟨k, g⟩ := p
    by_cases hk : k = n
    · subst hk
      have : (name == k) = false := by simpa using fun e => h e.symm
      simp [List.filter, List.lookup, this, ih]
    · have hne : (k != n) = true := by simpa using hk
      simp only [List.filter, hne, List.lookup]
      split <;> simp_all

theorem rngOf_withRng_same {γ α : Type} (o p : Nat) (mk : Nat → γ) (t : Table γ) (name : List Nat)
    (f : γ → γ × α) :
    (t.withRng o p mk name f).1.rngOf o p mk name = (f (t.rngOf o p mk name)).1 ∧
    (t.withRng o p mk name f).1.base = t.base := by
  simp [Table.withRng, Table.rngOf, List.lookup]

theorem rngOf_withRng_other {γ α : Type} (o p : Nat) (mk : Nat → γ) (t : Table γ) (name n : List Nat)
    (h : n ≠ name) (f : γ → γ × α) :
    (t.withRng o p mk n f).1.rngOf o p mk name = t.rngOf o p mk name ∧
    (t.withRng o p mk n f).1.base = t.base := by
  have hb : (name == n) = false := by simpa using fun e => h e.symm
  simp [Table.withRng, Table.rngOf, List.lookup, hb, lookup_filter_ne name n h]

/-- The values drawn on `name` during any run are those of the handle's own generator. -/
theorem run_stream {γ ρ α : Type} (o p : Nat) (mk : Nat → γ) (draw : ρ → γ → γ × α) (name : List Nat) :
    ∀ (ops : List (List Nat × ρ)) (t : Table γ),
      ((Table.run o p mk draw t ops).filter (fun x => x.1 == name)).map (·.2) =
        drawAll draw (t.rngOf o p mk name) ((ops.filter (fun x => x.1 == name)).map (·.2)) := by
  intro ops
  induction ops with
  | nil => intro t; rfl
  | cons op rest ih =>
    intro t
    obtain ⟨n, req⟩ := op
    by_cases hn : n = name
    · subst hn
      have h := rngOf_withRng_same o p mk t n (draw req)
      simp only [Table.run, List.filter, beq_self_eq_true, List.map_cons, drawAll]
      rw [ih, h.1]
      simp [Table.withRng]
    · have h := rngOf_withRng_other o p mk t name n hn (draw req)
      have hb : (n == name) = false := by simpa using hn
      simp only [Table.run, List.filter, hb]
      rw [ih, h.1]

end VerylModel.Random

namespace VerylModel.Sched

theorem stepPool_length {σ τ ρ : Type} (run : σ → τ → σ × ρ) (ws : List (Worker σ ρ)) (w : Nat) (t : τ) :
    (stepPool run ws w t).length = ws.length := by
  induction ws generalizing w with
  | nil => rfl
  | cons wk rest ih => cases w <;> simp [stepPool, ih]

/-- One dequeue adds exactly the report of the dequeued test to the collected reports. -/
theorem collect_stepPool {σ τ ρ : Type} (run : σ → τ → σ × ρ) (ws : List (Worker σ ρ)) (w : Nat) (t : τ)
    (hw : w < ws.length) :
    ∃ s, List.Perm (collect (stepPool run ws w t)) ((run s t).2 :: collect ws) := by
  induction ws generalizing w with
  | nil => simp at hw
  | cons wk rest ih =>
    cases w with
    | zero =>
      refine ⟨wk.state, ?_⟩
      simp only [stepPool, collect, List.append_assoc]
      simp only [List.cons_append, List.nil_append]
      exact List.perm_middle
    | succ w =>
      obtain ⟨s, hs⟩ := ih w (by simpa using hw)
      refine ⟨s, ?_⟩
      simp only [stepPool, collect]
      exact (List.Perm.append_left wk.tally hs).trans List.perm_middle

end VerylModel.Sched
